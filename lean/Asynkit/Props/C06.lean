/-
C06 — GeneratorObject iterators behave like native async generators.
Property theorems only.  Models: Asynkit/Model/AsyncGen.lean (`nativeAG` reference, `goi`),
Asynkit/Model/Monitor.lean; lemmas: Asynkit/Lemmas/C06.lean.

"For any generator body" = for every `UB` (any state type, any deterministic `resume` producing
`yield v`, a real suspension, return or raise; nesting depth, handler shapes, finally blocks are all
inside `resume`).  The two objects are built from the *same* `UB`: `nativeStart/nativeResume` run it
as CPython's async generator, `goiStart/goiResume` run `asGoi ub` (yield written as
`await g.ayield(v)`) under `GeneratorObjectIterator` + `Monitor`.
-/
import Asynkit.Lemmas.C06

namespace Asynkit.C06
open Asynkit.Proto (Val Exc Resume)
open Asynkit.Monitor Asynkit.AsyncGen

/-- the two objects are in corresponding states -/
structure Rel {ub : UB} (g : Goi ub) (a : AG ub.σ) : Prop where
  frame : g.coro = a.frame                                  -- same body state (hence same history of resumptions)
  running : g.running = a.running                           -- same ag_running
  cell : g.env 0 = if g.running then 1 else 0               -- Monitor.state: 1 exactly while a consumer is suspended
  runSusp : a.running = true → ∃ s, a.frame = .susp s       -- a consumer is suspended ⇒ the body is
  closed : a.closed = true → a.running = true ∨ SCoro.isDone a.frame = true

/-- exceptions a consumer may throw in: the property excludes StopIteration/StopAsyncIteration;
    asynkit's own protocol exception OOBData is not a user exception either. -/
def ThrowOk (e : Exc) : Prop := (∀ v, e ≠ .stopIter v) ∧ e ≠ .stopAsync ∧ (∀ d, e ≠ .oobData d)

def OpOk : COp → Prop
  | .athrow e => ThrowOk e
  | _ => True

def ResumeOk : Resume → Prop
  | .send _ => True
  | .throw .genExit => False      -- closing a suspended consumer is not a consumer call (see notes)
  | .throw e => ThrowOk e

def SentOk : Resume → Prop
  | .send _ => True
  | .throw e => ThrowOk e

/-- the body never raises asynkit's protocol exception itself (however it is legally resumed) -/
def NoOOB (ub : UB) : Prop := ∀ s r d s', SentOk r → ub.resume s r ≠ .raise (.oobData d) s'

theorem sentOk_of_resumeOk (r : Resume) (h : ResumeOk r) : SentOk r := by
  cases r with
  | send v => trivial
  | throw e => cases e <;> simp_all [ResumeOk, SentOk, ThrowOk]

/-- what the consumer call resumes the body with -/
def firstOf : COp → Resume
  | .asend v => .send v
  | .athrow e => .throw e
  | .aclose => .throw .genExit

theorem sentOk_first (op : COp) (h : OpOk op) : SentOk (firstOf op) := by
  cases op with
  | asend v => trivial
  | athrow e => exact h
  | aclose => simp [firstOf, SentOk, ThrowOk]

def ignoredGE : CallOut := .raised (.runtime rtAgIgnoredGE)

theorem fresh_rel (ub : UB) :
    Rel (⟨.created ub.init, fun _ => 0, false⟩ : Goi ub) (⟨.created ub.init, false, false⟩ : AG ub.σ) :=
  ⟨rfl, rfl, rfl, by simp, by simp⟩

/-- the GeneratorObjectIterator's answer to one step `u` of the body … -/
def goiOf (ub : UB) (op : COp) (env : Env) (first : Bool) (u : UStep ub.σ) : Goi ub × CallOut :=
  let x := relayOf (ub := ub) env first u
  let f := op.finish x.2.2
  (⟨x.1, x.2.1, f.1⟩, f.2)

/-- … and CPython's -/
def natOf (ub : UB) (op : COp) (closed : Bool) (u : UStep ub.σ) : AG ub.σ × CallOut :=
  match op with
  | .aclose => unwrapClose closed (agAfter u)
  | _ => unwrap closed (agAfter u)

theorem step_match (ub : UB) (op : COp) (env : Env) (first : Bool) (closed : Bool) (u : UStep ub.σ)
    (hu : ∀ d s', u ≠ .raise (.oobData d) s') (hc : closed = true → op = .aclose) :
    (goiOf ub op env first u).2 = (natOf ub op closed u).2 ∧
    ((natOf ub op closed u).2 ≠ ignoredGE →
      Rel (goiOf ub op env first u).1 (natOf ub op closed u).1 ∧
      (∀ y, (natOf ub op closed u).2 = .pending y → (natOf ub op closed u).1.running = true ∧
        ((natOf ub op closed u).1.closed = true → op = .aclose))) := by
  cases op <;> cases u <;> (try rename_i e s'; cases e) <;>
    simp_all [goiOf, natOf, relayOf, COp.finish, asendFinish, athrowFinish, unwrap, unwrapClose, agAfter,
      pep479, isSAIorGE, ignoredGE, SCoro.isDone] <;>
    (try constructor) <;> (try simp_all [SCoro.isDone])
  all_goals (intro _; constructor <;> simp [SCoro.isDone])

theorem finish_id (op : COp) (o : CallOut) : op.monOp.finish o = o := by
  cases op <;> cases o <;> rfl

theorem callStart_monOp (ub : UB) (op : COp) (sys : Sys (ofM (asGoi ub))) :
    callStart 0 op.monOp sys = asendStart 0 (firstOf op) sys := by
  cases op <;> simp only [callStart, finish_id] <;> rfl

theorem callResume_monOp (ub : UB) (op : COp) (r : Resume) (sys : Sys (ofM (asGoi ub))) :
    callResume 0 op.monOp r sys = asendResume 0 r sys := by
  simp only [callResume, finish_id]

/-- **goi_step_eq**, resumption of a suspended consumer: the outer loop answers the real
    suspension with a value or an exception (`ResumeOk`); both kinds resume the body identically
    and report the same. `op` is the suspended consumer call. -/
theorem goi_resume_eq (ub : UB) (hub : NoOOB ub) (g : Goi ub) (a : AG ub.σ) (hR : Rel g a)
    (hrun : a.running = true) (op : COp) (hcl : a.closed = true → op = .aclose)
    (r : Resume) (hr : ResumeOk r) :
    (goiResume ub op r g).2 = (nativeResume ub op r a).2 ∧
    ((nativeResume ub op r a).2 ≠ ignoredGE →
      Rel (goiResume ub op r g).1 (nativeResume ub op r a).1 ∧
      (∀ y, (nativeResume ub op r a).2 = .pending y → (nativeResume ub op r a).1.running = true ∧
        ((nativeResume ub op r a).1.closed = true → op = .aclose))) := by
  obtain ⟨coro, env, running⟩ := g
  obtain ⟨frame, arun, closed⟩ := a
  obtain ⟨hf, hrn, hcell, hrs, hcd⟩ := hR
  simp only at hf hrn hcell hrs hcd hrun hcl
  subst hf hrn
  obtain ⟨s, hs⟩ := hrs hrun
  subst hs
  subst hrun
  have h1 : env 0 = 1 := by simpa using hcell
  have hne : r ≠ .throw .genExit := by
    intro h; subst h; exact hr
  have hg : goiResume ub op r ⟨.susp s, env, true⟩ = goiOf ub op env false (ub.resume s r) := by
    have e := resume_susp ub s r hne env h1
    have h0 : goiResume ub op r ⟨.susp s, env, true⟩ =
        (fun x : Sys (ofM (asGoi ub)) × CallOut =>
          ((⟨.susp s, env, true⟩ : Goi ub).put x.1 (op.finish x.2).1, (op.finish x.2).2))
          (asendResume 0 r (⟨.susp s, env⟩ : Sys (ofM (asGoi ub)))) := by
      simp only [goiResume, callResume_monOp]; rfl
    have h1' := congrArg (fun x : Sys (ofM (asGoi ub)) × CallOut =>
          ((⟨.susp s, env, true⟩ : Goi ub).put x.1 (op.finish x.2).1, (op.finish x.2).2)) e
    exact h0.trans (h1'.trans rfl)
  have hn : nativeResume ub op r ⟨.susp s, true, closed⟩ = natOf ub op closed (ub.resume s r) := by
    cases op <;> cases r <;> simp [nativeResume, natOf, agResume, agSend, agThrow]
  rw [hg, hn]
  exact step_match ub op env false closed _ (fun d s' => hub s r d s' (sentOk_of_resumeOk r hr)) hcl

theorem rel_idle (ub : UB) (st : CSt ub.σ) (env : Env) (c : Bool) (h0 : env 0 = 0)
    (hc : c = true → SCoro.isDone st = true) :
    Rel (⟨st, env, false⟩ : Goi ub) (⟨st, false, c⟩ : AG ub.σ) :=
  ⟨rfl, rfl, by simpa using h0, by simp, fun h => Or.inr (hc h)⟩

/-- lift an equation about the relay to the GeneratorObjectIterator's `try/except/finally` -/
theorem goiStart_of (ub : UB) (op : COp) (st : CSt ub.σ) (env : Env) (hnd : SCoro.isDone st = false)
    (t : CSt ub.σ × Env × CallOut)
    (e : asendStart 0 (firstOf op) (⟨st, env⟩ : Sys (ofM (asGoi ub))) = toSys ub t) :
    goiStart ub op ⟨st, env, false⟩ = (⟨t.1, t.2.1, (op.finish t.2.2).1⟩, (op.finish t.2.2).2) := by
  have h0 : goiStart ub op ⟨st, env, false⟩ =
      (fun x : Sys (ofM (asGoi ub)) × CallOut =>
        ((⟨st, env, false⟩ : Goi ub).put x.1 (op.finish x.2).1, (op.finish x.2).2))
        (asendStart 0 (firstOf op) (⟨st, env⟩ : Sys (ofM (asGoi ub)))) := by
    simp only [goiStart, hnd, callStart_monOp]; rfl
  have h1 := congrArg (fun x : Sys (ofM (asGoi ub)) × CallOut =>
        ((⟨st, env, false⟩ : Goi ub).put x.1 (op.finish x.2).1, (op.finish x.2).2)) e
  exact h0.trans (h1.trans rfl)

/-- **goi_step_eq**: a consumer call (`__anext__`/`asend v`/`athrow e`/`aclose`) issued on
    corresponding objects in *any* state — new, suspended at a yield, running (a first consumer is
    suspended in a real await), exhausted or failed — gives the same result or exception in both
    kinds (yielded value, StopAsyncIteration, TypeError for a non-None first send, "already
    running", PEP 479 conversions, "ignored GeneratorExit"), resumes the body identically (same
    body state afterwards, so the same handlers and finally blocks ran), leaves the same
    `ag_running`, and the objects correspond again — until the first "ignored GeneratorExit". -/
theorem goi_step_eq (ub : UB) (hub : NoOOB ub) (g : Goi ub) (a : AG ub.σ) (hR : Rel g a)
    (op : COp) (hop : OpOk op) :
    (goiStart ub op g).2 = (nativeStart ub op a).2 ∧
    ((nativeStart ub op a).2 ≠ ignoredGE →
      Rel (goiStart ub op g).1 (nativeStart ub op a).1 ∧
      (∀ y, (nativeStart ub op a).2 = .pending y → (nativeStart ub op a).1.running = true ∧
        ((nativeStart ub op a).1.closed = true → op = .aclose))) := by
  obtain ⟨coro, env, running⟩ := g
  obtain ⟨frame, arun, closed⟩ := a
  obtain ⟨hf, hrn, hcell, hrs, hcd⟩ := hR
  simp only at hf hrn hcell hrs hcd
  subst hf hrn
  cases running with
  | true =>
    -- a consumer is suspended: "already running" for everybody, nothing moves
    obtain ⟨s, hs⟩ := hrs rfl
    subst hs
    have hrel : Rel (⟨.susp s, env, true⟩ : Goi ub) (⟨.susp s, true, closed⟩ : AG ub.σ) :=
      ⟨rfl, rfl, hcell, fun _ => ⟨s, rfl⟩, hcd⟩
    cases op <;> simp [goiStart, nativeStart, SCoro.isDone, hrel]
  | false =>
    have h0 : env 0 = 0 := by simpa using hcell
    cases hd : SCoro.isDone coro with
    | true =>
      -- exhausted or failed generator
      have hrel : ∀ c, Rel (⟨coro, env, false⟩ : Goi ub) (⟨coro, false, c⟩ : AG ub.σ) :=
        fun c => ⟨rfl, rfl, hcell, by simp, fun _ => Or.inr hd⟩
      cases coro with
      | created s => simp [SCoro.isDone] at hd
      | susp s => simp [SCoro.isDone] at hd
      | done s =>
        cases op <;> simp [goiStart, nativeStart, SCoro.isDone, agSend, unwrap, ignoredGE, hrel]
    | false =>
      have hcf : closed = false := by
        cases closed with
        | false => rfl
        | true => simpa [hd] using hcd rfl
      subst hcf
      cases coro with
      | done s => simp [SCoro.isDone] at hd
      | susp s =>
        have e := start_susp ub s (firstOf op) env h0
        rw [goiStart_of ub op (.susp s) env hd _ e]
        have hn : nativeStart ub op ⟨.susp s, false, false⟩ =
            natOf ub op (match op with | .aclose => true | _ => false) (ub.resume s (firstOf op)) := by
          cases op <;> simp [nativeStart, natOf, SCoro.isDone, agSend, agThrow, firstOf]
        rw [hn]
        exact step_match ub op env true _ _ (fun d s' => hub s _ d s' (sentOk_first op hop)) (by cases op <;> simp)
      | created s =>
        cases op with
        | asend v =>
          by_cases hv : v = 0
          · subst hv
            have e := start_created ub s env h0
            rw [goiStart_of ub (.asend 0) (.created s) env hd _ e]
            have hn : nativeStart ub (.asend 0) ⟨.created s, false, false⟩ =
                natOf ub (.asend 0) false (ub.resume s (.send 0)) := by
              simp [nativeStart, natOf, agSend]
            rw [hn]
            exact step_match ub (.asend 0) env true false _ (fun d s' => hub s _ d s' trivial) (by simp)
          · have e : asendStart 0 (firstOf (.asend v)) (⟨.created s, env⟩ : Sys (ofM (asGoi ub)))
                = toSys ub (.created s, env.set 0 0, .raised .typeErr) := by
              simp [asendStart, h0, firstOf, SCoro.resume, SCoro.send, hv, relayAfter, toSys]; rfl
            rw [goiStart_of ub (.asend v) (.created s) env hd _ e]
            have hn : nativeStart ub (.asend v) ⟨.created s, false, false⟩
                = (⟨.created s, false, false⟩, .raised .typeErr) := by
              simp [nativeStart, agSend, hv, unwrap, isSAIorGE]
            rw [hn]
            refine ⟨by simp [COp.finish, asendFinish], fun _ => ⟨?_, by simp⟩⟩
            simpa [COp.finish, asendFinish] using rel_idle ub (.created s) (env.set 0 0) false (by simp) (by simp)
        | athrow x =>
          have hx : ThrowOk x := hop
          have e : asendStart 0 (firstOf (.athrow x)) (⟨.created s, env⟩ : Sys (ofM (asGoi ub)))
              = toSys ub (.done s, env.set 0 0, .raised x) := by
            cases x <;> simp_all [asendStart, firstOf, SCoro.resume, SCoro.throw, relayAfter, toSys, ThrowOk] <;> rfl
          rw [goiStart_of ub (.athrow x) (.created s) env hd _ e]
          have hn : nativeStart ub (.athrow x) ⟨.created s, false, false⟩
              = (⟨.done s, false, isSAIorGE x⟩, .raised x) := by
            simp [nativeStart, SCoro.isDone, agThrow, unwrap]
          rw [hn]
          have hf : (COp.athrow x).finish (.raised x) = (false, .raised x) := by
            cases x <;> simp_all [COp.finish, athrowFinish, ThrowOk]
          refine ⟨by simp [hf], fun _ => ⟨?_, by simp⟩⟩
          simpa [hf] using rel_idle ub (.done s) (env.set 0 0) (isSAIorGE x) (by simp) (by simp [SCoro.isDone])
        | aclose =>
          have e : asendStart 0 (firstOf .aclose) (⟨.created s, env⟩ : Sys (ofM (asGoi ub)))
              = toSys ub (.done s, env.set 0 0, .raised .genExit) := by
            simp [asendStart, h0, firstOf, SCoro.resume, SCoro.throw, relayAfter, toSys]; rfl
          rw [goiStart_of ub .aclose (.created s) env hd _ e]
          have hn : nativeStart ub .aclose ⟨.created s, false, false⟩
              = (⟨.done s, false, true⟩, .returned 0) := by
            simp [nativeStart, SCoro.isDone, agThrow, unwrapClose, isSAIorGE]
          rw [hn]
          refine ⟨by simp [COp.finish, athrowFinish], fun _ => ⟨?_, by simp⟩⟩
          simpa [COp.finish, athrowFinish] using rel_idle ub (.done s) (env.set 0 0) true (by simp) (by simp [SCoro.isDone])

/-! ## consumer sequences -/

/-- what the consumer side does next -/
inductive CAct where
  | call (op : COp)        -- issue a consumer call (also while another one is suspended)
  | resume (r : Resume)    -- the outer loop resumes the suspended consumer (ignored when none is)

def ActOk : CAct → Prop
  | .call op => OpOk op
  | .resume r => ResumeOk r

def pendAfter (op : COp) (old : Option COp) : CallOut → Option COp
  | .pending _ => some op
  | _ => old

def resumedPend (op : COp) : CallOut → Option COp
  | .pending _ => some op
  | _ => none

def gStep (ub : UB) : Goi ub × Option COp → CAct → (Goi ub × Option COp) × Option CallOut
  | (g, p), .call op => let x := goiStart ub op g; ((x.1, pendAfter op p x.2), some x.2)
  | (g, some op), .resume r => let x := goiResume ub op r g; ((x.1, resumedPend op x.2), some x.2)
  | s, _ => (s, none)

def nStep (ub : UB) : AG ub.σ × Option COp → CAct → (AG ub.σ × Option COp) × Option CallOut
  | (a, p), .call op => let x := nativeStart ub op a; ((x.1, pendAfter op p x.2), some x.2)
  | (a, some op), .resume r => let x := nativeResume ub op r a; ((x.1, resumedPend op x.2), some x.2)
  | s, _ => (s, none)

/-- observations up to and including the first "ignored GeneratorExit" -/
def runUntil {σ : Type} (step : σ → CAct → σ × Option CallOut) : σ → List CAct → List (Option CallOut)
  | _, [] => []
  | s, a :: as =>
    if (step s a).2 = some ignoredGE then [(step s a).2] else (step s a).2 :: runUntil step (step s a).1 as

/-- corresponding objects + the bookkeeping of the suspended consumer -/
def Inv {ub : UB} (g : Goi ub) (a : AG ub.σ) (p : Option COp) : Prop :=
  Rel g a ∧ match p with
    | none => True
    | some op => a.running = true ∧ (a.closed = true → op = .aclose)

/-- **goi_trace_eq**: for every body and every consumer sequence — calls on new, suspended, running,
    exhausted and failed generators, a second consumer while the first is suspended, values and
    exceptions delivered to the suspended one — the two kinds produce the same observations, up to
    the first "ignored GeneratorExit". -/
theorem goi_trace_eq (ub : UB) (hub : NoOOB ub) (acts : List CAct) (hacts : ∀ x ∈ acts, ActOk x)
    (g : Goi ub) (a : AG ub.σ) (p : Option COp) (hI : Inv g a p) :
    runUntil (gStep ub) (g, p) acts = runUntil (nStep ub) (a, p) acts := by
  induction acts generalizing g a p with
  | nil => rfl
  | cons x xs ih =>
    have hx := hacts x (List.mem_cons_self ..)
    have hxs : ∀ y ∈ xs, ActOk y := fun y hy => hacts y (List.mem_cons_of_mem _ hy)
    obtain ⟨hR, hp⟩ := hI
    cases x with
    | call op =>
      obtain ⟨ho, hrest⟩ := goi_step_eq ub hub g a hR op hx
      simp only [runUntil, gStep, nStep, ho]
      by_cases hig : (nativeStart ub op a).2 = ignoredGE
      · simp [hig]
      · obtain ⟨hR', hpend⟩ := hrest hig
        have hne : some (nativeStart ub op a).2 ≠ some ignoredGE := by simpa using hig
        simp only [hne, ↓reduceIte]
        congr 1
        apply ih hxs
        refine ⟨hR', ?_⟩
        cases hout : (nativeStart ub op a).2 with
        | pending y => simpa [pendAfter, hout] using hpend y hout
        | returned v =>
          -- the suspended consumer (if any) is untouched: a completed call leaves no new one
          cases p with
          | none => simp [pendAfter]
          | some q =>
            -- a consumer is suspended, so this call was refused: state unchanged
            obtain ⟨hrun, hcl⟩ := hp
            have : (nativeStart ub op a).1 = a := by
              obtain ⟨s, hs⟩ := hR.runSusp hrun
              cases op <;> simp [nativeStart, hrun, hs, SCoro.isDone]
            simp only [pendAfter, this]; exact ⟨hrun, hcl⟩
        | raised e =>
          cases p with
          | none => simp [pendAfter]
          | some q =>
            obtain ⟨hrun, hcl⟩ := hp
            have : (nativeStart ub op a).1 = a := by
              obtain ⟨s, hs⟩ := hR.runSusp hrun
              cases op <;> simp [nativeStart, hrun, hs, SCoro.isDone]
            simp only [pendAfter, this]; exact ⟨hrun, hcl⟩
    | resume r =>
      cases p with
      | none => simp only [runUntil, gStep, nStep]; simp; exact ih hxs g a none ⟨hR, trivial⟩
      | some op =>
        obtain ⟨hrun, hcl⟩ := hp
        obtain ⟨ho, hrest⟩ := goi_resume_eq ub hub g a hR hrun op hcl r hx
        simp only [runUntil, gStep, nStep, ho]
        by_cases hig : (nativeResume ub op r a).2 = ignoredGE
        · simp [hig]
        · obtain ⟨hR', hpend⟩ := hrest hig
          have hne : some (nativeResume ub op r a).2 ≠ some ignoredGE := by simpa using hig
          simp only [hne, ↓reduceIte]
          congr 1
          apply ih hxs
          refine ⟨hR', ?_⟩
          cases hout : (nativeResume ub op r a).2 with
          | pending y => simpa [resumedPend, hout] using hpend y hout
          | returned v => simp [resumedPend]
          | raised e => simp [resumedPend]

/-- **goi_sync_eq**: iterated synchronously (`aiter_sync` = repeated `await_sync(__anext__())`),
    each item is the same for both kinds — the value, StopAsyncIteration, an exception, or
    SynchronousError when the body really suspends — and the objects still correspond whenever the
    body did not survive the SynchronousAbort by suspending again. -/
theorem goi_sync_eq (ub : UB) (hub : NoOOB ub) (g : Goi ub) (a : AG ub.σ) (hR : Rel g a) :
    (syncNext (goiStart ub (.asend 0)) (goiResume ub (.asend 0)) g).2
      = (syncNext (nativeStart ub (.asend 0)) (nativeResume ub (.asend 0)) a).2 ∧
    ((nativeStart ub (.asend 0) a).2 ≠ ignoredGE →
     (∀ y, (nativeStart ub (.asend 0) a).2 = .pending y →
        (nativeResume ub (.asend 0) (.throw .syncAbort) (nativeStart ub (.asend 0) a).1).2 ≠ ignoredGE) →
      Rel (syncNext (goiStart ub (.asend 0)) (goiResume ub (.asend 0)) g).1
          (syncNext (nativeStart ub (.asend 0)) (nativeResume ub (.asend 0)) a).1) := by
  obtain ⟨ho, hrest⟩ := goi_step_eq ub hub g a hR (.asend 0) trivial
  rcases hg : goiStart ub (.asend 0) g with ⟨g', og⟩
  rcases hn : nativeStart ub (.asend 0) a with ⟨a', on⟩
  simp only [hg, hn] at ho hrest
  subst ho
  cases og with
  | returned v =>
    refine ⟨by simp [syncNext, hg, hn], fun h1 _ => ?_⟩
    simpa [syncNext, hg, hn] using (hrest h1).1
  | raised e =>
    refine ⟨by simp [syncNext, hg, hn], fun h1 _ => ?_⟩
    simpa [syncNext, hg, hn] using (hrest h1).1
  | pending y =>
    refine ⟨by simp [syncNext, hg, hn], fun h1 h2 => ?_⟩
    obtain ⟨hR', hp⟩ := hrest h1
    obtain ⟨hrun, hcl⟩ := hp y rfl
    have hcl' : a'.closed = true → COp.asend 0 = .aclose := hcl
    obtain ⟨_, hr2⟩ := goi_resume_eq ub hub g' a' hR' hrun (.asend 0) hcl' (.throw .syncAbort) (by simp [ResumeOk, ThrowOk])
    simpa [syncNext, hg, hn] using (hr2 (h2 y rfl)).1

/-- `ayield` from any depth of nested awaits: nothing to prove separately — a `UB` is the whole
    driven await chain (its `resume` runs every frame of it), so `goi_step_eq`/`goi_trace_eq` already
    cover a `yieldVal` produced at any depth.  What the flat body cannot express — PEP 380 closing
    nested frames with close() when a GeneratorExit arrives — is identical for both kinds whenever
    the frame structure is identical (see notes/C06.md). -/
theorem ayield_any_depth (ub : UB) (hub : NoOOB ub) (g : Goi ub) (a : AG ub.σ) (hR : Rel g a)
    (op : COp) (hop : OpOk op) : (goiStart ub op g).2 = (nativeStart ub op a).2 :=
  (goi_step_eq ub hub g a hR op hop).1

/-! ## asyncgen hooks -/

/-- hook states correspond: same state, and a generator whose hooks were never initialised has never
    been touched (unstarted, nobody suspended in it) -/
def HookRel {ub : UB} (hs hn : HookSt) (a : AG ub.σ) : Prop :=
  hs = hn ∧ (hn.inited = false → isCreated a.frame = true ∧ a.running = false)

/-- **goi_hooks_call_eq**: on corresponding objects every consumer call makes the same hook calls
    (`firstiter` exactly once, on the first call; the finalizer installed at that moment is the one
    captured), for every hook configuration, and the hook states correspond again. -/
theorem goi_hooks_call_eq (ub : UB) (h : HookCfg) (g : Goi ub) (a : AG ub.σ) (hR : Rel g a)
    (hs hn : HookSt) (hH : HookRel hs hn a) :
    (goiHookCall h hs g).2 = (nativeHookCall h hn a).2 ∧
    (goiHookCall h hs g).1 = (nativeHookCall h hn a).1 ∧
    (nativeHookCall h hn a).1.inited = true := by
  obtain ⟨rfl, hnew⟩ := hH
  cases hi : hs.inited with
  | true =>
    simp [goiHookCall, nativeHookCall, hookInit, hi]
  | false =>
    obtain ⟨hc, hrun⟩ := hnew hi
    have hc' : isCreated g.coro = true := by rw [hR.frame]; exact hc
    have hr' : g.running = false := by rw [hR.running]; exact hrun
    have hd : SCoro.isDone g.coro = false := by
      cases hcc : g.coro <;> simp_all [isCreated, SCoro.isDone]
    simp [goiHookCall, nativeHookCall, hookInit, hi, hc', hr', hd]

/-- **goi_hooks_gc_eq**: a generator abandoned while no consumer is suspended in it — unstarted, at a
    yield, exhausted, failed or closed — is handed to the finalizer by both kinds or by neither. -/
theorem goi_hooks_gc_eq (ub : UB) (g : Goi ub) (a : AG ub.σ) (hR : Rel g a) (hrun : a.running = false)
    (st : HookSt) :
    goiHookGC st g = nativeHookGC st a := by
  have hf : g.coro = a.frame := hR.frame
  cases hfin : st.fin with
  | false => simp [goiHookGC, nativeHookGC, hfin]
  | true =>
    cases hd : SCoro.isDone a.frame with
    | true => simp [goiHookGC, nativeHookGC, hfin, hf, hd]
    | false =>
      have hcl : a.closed = false := by
        cases hc : a.closed with
        | false => rfl
        | true =>
          cases hR.closed hc with
          | inl h => rw [hrun] at h; exact absurd h (by simp)
          | inr h => rw [hd] at h; exact absurd h (by simp)
      simp [goiHookGC, nativeHookGC, hfin, hf, hd, hcl]

/-- **goi_hooks_raise_eq**: also when the user's `firstiter` hook raises, a consumer call on corresponding
    objects has the same outcome (the hook's exception, from the first call only), makes the same hook calls,
    captures the same finalizer, and leaves corresponding objects: the generator is still new and idle and the
    next call runs the body. -/
theorem goi_hooks_raise_eq (ub : UB) (hub : NoOOB ub) (h : HookCfg) (g : Goi ub) (a : AG ub.σ) (hR : Rel g a)
    (hs hn : HookSt) (hH : HookRel hs hn a) (op : COp) (hop : OpOk op) :
    (goiCallH ub h hs op g).2 = (nativeCallH ub h hn op a).2 ∧
    (goiCallH ub h hs op g).1.2 = (nativeCallH ub h hn op a).1.2 ∧
    ((nativeCallH ub h hn op a).2.1 ≠ ignoredGE →
      Rel (goiCallH ub h hs op g).1.1 (nativeCallH ub h hn op a).1.1) := by
  obtain ⟨hev, hst, _⟩ := goi_hooks_call_eq ub h g a hR hs hn hH
  obtain ⟨hout, hrel⟩ := goi_step_eq ub hub g a hR op hop
  unfold goiCallH nativeCallH
  simp only [hev, hst]
  by_cases hr : hookRaised h (nativeHookCall h hn a).2 = true
  · simp [hr]
    intro _; exact hR
  · simp [hr, hout]
    intro hne; exact (hrel hne).1

/-- the finding repaired by fixes/C06-asyncgen-hooks.patch: the old `__del__` handed a *finished* iterator
    to the finalizer, a native generator never is -/
example : goiHookGCOld ⟨true, true⟩ = [.finalizer] ∧
    nativeHookGC (σ := Nat) ⟨true, true⟩ ⟨.done 0, false, true⟩ = [] := by decide

example (ub : UB) : HookRel (ub := ub) {} {} ⟨.created ub.init, false, false⟩ := ⟨rfl, fun _ => ⟨rfl, rfl⟩⟩

/-! ## non-vacuity -/

/-- `x = yield 5; await tok(100); try: yield x finally: yield 9` (the last one ignores GeneratorExit) -/
def demo : UB where
  σ := Nat × Val
  init := (0, 0)
  resume s r :=
    match s.1, r with
    | 0, .send _ => .yieldVal 5 (1, 0)
    | 1, .send v => .await 100 (2, v)
    | 2, .send _ => .yieldVal s.2 (3, 0)
    | 3, _ => .yieldVal 9 (4, 0)
    | 4, .send _ => .ret (9, 0)
    | _, .throw e => .raise e (9, 0)
    | _, .send _ => .ret (9, 0)

example : NoOOB demo := by
  intro s r d s' hr h
  obtain ⟨n, v⟩ := s
  simp only [demo] at h
  split at h <;> simp_all [SentOk, ThrowOk] <;> (injection h with h1 h2; exact hr.2.2 d h1)

def demoActs : List CAct :=
  [.call (.asend 0), .call (.asend 7), .call (.asend 1), .call .aclose, .resume (.send 0), .call .aclose,
   .call (.asend 0)]

example : ∀ x ∈ demoActs, ActOk x := by
  intro x hx
  simp [demoActs] at hx
  rcases hx with rfl | rfl | rfl | rfl | rfl | rfl | rfl <;> simp [ActOk, OpOk, ResumeOk]

example : (runUntil (nStep demo) (⟨.created demo.init, false, false⟩, none) demoActs).filterMap id
    = [.returned 5, .pending (.plain 100), .raised (.runtime Proto.rtAlreadyRunning),
       .raised (.runtime Proto.rtAlreadyRunning), .returned 7, ignoredGE] := by decide

example : (runUntil (gStep demo) (⟨.created demo.init, fun _ => 0, false⟩, none) demoActs).filterMap id
    = [.returned 5, .pending (.plain 100), .raised (.runtime Proto.rtAlreadyRunning),
       .raised (.runtime Proto.rtAlreadyRunning), .returned 7, ignoredGE] := by decide

example : Inv (⟨.created demo.init, fun _ => 0, false⟩ : Goi demo) ⟨.created demo.init, false, false⟩ none :=
  ⟨fresh_rel demo, trivial⟩

end Asynkit.C06
