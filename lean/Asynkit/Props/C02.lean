/-
C02 — coroutine wrappers are transparent to the await protocol.

Objects (`Obj ι`): anything driven by send/throw/close, with a read-only view `ι` of the innermost
state.  `I.run s ds` = outputs *and innermost views* of a drive sequence, compared up to the
wrapper's own termination (first non-yield).  `Equiv W N` = equal runs for every `List Drive` from
freshly created objects; `Equiv0` = equal runs for every `send(None) :: ds` (objects that get
started — the only honest comparison for CoroStart, whose inner coroutine is started eagerly).
The reference `nativeAwaitO I` is CPython's `async def ref(x): return await x` (PEP 380).

All theorems quantify over every inner object `I` (in particular `ofBody b` for every `b : Body`,
and `logged I`, whose view is the list of calls that reached the inner object), every drive list
and every stack depth.
-/
import Asynkit.Lemmas.C02Proto

namespace Asynkit.C02
open Asynkit.Proto

variable {ι : Type}

/-! ### coro_iter -/

/-- one resume of `coro_iter(x)` = one resume of `await x` on related states -/
theorem coroIter_step_eq (I : Obj ι) (s : (coroIterO I).σ) (t : (nativeAwaitO I).σ) (d : Drive)
    (hR : RIter I s t) :
    ((coroIterO I).step s d).2 = ((nativeAwaitO I).step t d).2 ∧
    (coroIterO I).view ((coroIterO I).step s d).1 = (nativeAwaitO I).view ((nativeAwaitO I).step t d).1 ∧
    (∀ y, ((coroIterO I).step s d).2 = .yield y →
      RIter I ((coroIterO I).step s d).1 ((nativeAwaitO I).step t d).1) :=
  coroIter_step I s t d hR

theorem coroIter_trace_eq (I : Obj ι) (ds : List Drive) :
    (coroIterO I).run (coroIterO I).init ds = (nativeAwaitO I).run (nativeAwaitO I).init ds :=
  coroIter_equiv I ds

/-- for coroutine bodies: `coro_iter(b())` ≡ `await b()`, outputs and the body's own states -/
theorem coroIter_trace_eq_body (b : Body) (ds : List Drive) :
    (coroIterO (ofBody b)).run (coroIterO (ofBody b)).init ds
      = (nativeAwaitO (ofBody b)).run (nativeAwaitO (ofBody b)).init ds :=
  coroIter_equiv _ ds

/-- the calls that reach the inner object are the same (inner-resume trace) -/
theorem coroIter_inner_calls_eq (I : Obj ι) (ds : List Drive) :
    (coroIterO (logged I)).run (coroIterO (logged I)).init ds
      = (nativeAwaitO (logged I)).run (nativeAwaitO (logged I)).init ds :=
  coroIter_equiv _ ds

/-! ### CoroStart: `__await__`, `as_coroutine()`, `coro_await`, `athrow`, `aclose` -/

/-- in its relay loop `CoroStart.__await__` steps exactly like delegation to the started coroutine -/
theorem coroStart_step_eq (I : Obj ι) (cs0 : CS I.σ) (a : (coroStartAwaitO I cs0).σ)
    (t : (nativeAwaitO I).σ) (d : Drive) (hR : RCS I a t) :
    ((coroStartAwaitO I cs0).step a d).2 = ((nativeAwaitO I).step t d).2 ∧
    (coroStartAwaitO I cs0).view ((coroStartAwaitO I cs0).step a d).1
      = (nativeAwaitO I).view ((nativeAwaitO I).step t d).1 ∧
    (∀ y, ((coroStartAwaitO I cs0).step a d).2 = .yield y →
      RCS I ((coroStartAwaitO I cs0).step a d).1 ((nativeAwaitO I).step t d).1) :=
  coroStart_step I cs0 a t d hR

/-- `CoroStart(x).__await__()` from its first `send(None)` ≡ `await x` from its first `send(None)`;
    the inner object ends in the same state (the eager first `send(None)` just happens earlier). -/
theorem coroStart_trace_eq (I : Obj ι) (ds : List Drive) :
    (coroStartO I).run (coroStartO I).init (.send 0 :: ds)
      = (nativeAwaitO I).run (nativeAwaitO I).init (.send 0 :: ds) :=
  coroStart_equiv0 I ds

/-- the reference made explicit: once the held value has been passed on, the wrapper is
    delegation to the *already started* inner coroutine, for every later drive sequence -/
theorem coroStart_started_trace_eq (I : Obj ι) (cs0 cs : CS I.σ) (ds : List Drive) :
    (coroStartAwaitO I cs0).run (.susp (.loop, cs)) ds = (nativeAwaitO I).run (.susp cs.coro) ds :=
  coroStart_loop_treq I cs0 cs ds

theorem asCoroutine_trace_eq (I : Obj ι) (ds : List Drive) :
    (asCoroutineO I).run (asCoroutineO I).init (.send 0 :: ds)
      = (nativeAwaitO I).run (nativeAwaitO I).init (.send 0 :: ds) :=
  asCoroutine_equiv0 I ds

/-- `coro_await(x)` ≡ `await x` for every drive list (also throw/close before it is started) -/
theorem coroAwait_trace_eq (I : Obj ι) (ds : List Drive) :
    (coroAwaitO I).run (coroAwaitO I).init ds = (nativeAwaitO I).run (nativeAwaitO I).init ds :=
  coroAwait_equiv I ds

/-- `cs.athrow(e)` in place of a raw `throw(e)` -/
theorem coroStart_athrow_trace_eq (I : Obj ι) (cs : CS I.σ) (e : Exc) (he : e ≠ .genExit)
    (ds : List Drive) :
    (coroStartAthrowO I cs e).run (coroStartAthrowO I cs e).init (.send 0 :: ds)
      = (nativeAwaitO I).run (.susp cs.coro) (.throw e :: ds) :=
  athrow_treq I cs e he ds

/-- `cs.aclose()` in place of `close()`, for a coroutine body that does not yield again while
    handling GeneratorExit (the comparison ends at "ignored GeneratorExit" otherwise) -/
theorem coroStart_aclose_eq (b : Body) (s : b.σ) (y0 : Y)
    (hny : ∀ y, (b.resume s (.throw .genExit)).2 ≠ .yield y) :
    ((coroStartAcloseO (ofBody b) ⟨.susp s, some (.pending y0)⟩).step
        (coroStartAcloseO (ofBody b) ⟨.susp s, some (.pending y0)⟩).init (.send 0)).2
      = ((nativeAwaitO (ofBody b)).step (.susp (.susp s)) .close).2 ∧
    (coroStartAcloseO (ofBody b) ⟨.susp s, some (.pending y0)⟩).view
        ((coroStartAcloseO (ofBody b) ⟨.susp s, some (.pending y0)⟩).step
          (coroStartAcloseO (ofBody b) ⟨.susp s, some (.pending y0)⟩).init (.send 0)).1
      = (nativeAwaitO (ofBody b)).view ((nativeAwaitO (ofBody b)).step (.susp (.susp s)) .close).1 := by
  apply aclose_step_eq (ofBody b) (.susp s) y0
  · rfl
  · intro y
    rcases h : b.resume s (.throw .genExit) with ⟨s', o⟩
    have := hny y
    rw [h] at this
    rcases o with y' | v | e
    · simp [ofBody, coroObj, envObj, envAfter, h]
      intro hy; subst hy; exact this rfl
    · simp [ofBody, coroObj, envObj, envAfter, h]
    · cases e <;> simp [ofBody, coroObj, envObj, envAfter, h]
  · intro w
    rcases h : b.resume s (.throw .genExit) with ⟨s', o⟩
    rcases o with y' | v | e
    · simp [ofBody, coroObj, envObj, envAfter, h]
    · simp [ofBody, coroObj, envObj, envAfter, h]
    · cases e <;> simp [ofBody, coroObj, envObj, envAfter, h, rtRaisedStopIter]

/-! ### awaitmethod / awaitmethod_iter -/

/-- `await A()` with `A.__await__ = awaitmethod(f)` is literally `await f()`: the iterator
    `f().__await__()` forwards send/throw/close to the coroutine -/
theorem awaitMethod_trace_eq (I : Obj ι) (ds : List Drive) :
    (nativeAwaitO (awaitMethodO I)).run (nativeAwaitO (awaitMethodO I)).init ds
      = (nativeAwaitO I).run (nativeAwaitO I).init ds := rfl

theorem awaitMethodIter_trace_eq (I : Obj ι) (ds : List Drive) :
    (awaitMethodIterO I).run (awaitMethodIterO I).init ds = (nativeAwaitO I).run (nativeAwaitO I).init ds :=
  coroIter_equiv I ds

/-! ### Monitor.aawait / BoundMonitor, no out-of-band traffic -/

theorem monitorAsend_step_eq (I : Obj ι) (hno : NoOOBFirst I) (a : (monitorAsendO I 0 0).σ)
    (t : (nativeAwaitO I).σ) (d : Drive) (hR : RMon I a t) :
    ((monitorAsendO I 0 0).step a d).2 = ((nativeAwaitO I).step t d).2 ∧
    (monitorAsendO I 0 0).view ((monitorAsendO I 0 0).step a d).1
      = (nativeAwaitO I).view ((nativeAwaitO I).step t d).1 ∧
    (∀ y, ((monitorAsendO I 0 0).step a d).2 = .yield y →
      RMon I ((monitorAsendO I 0 0).step a d).1 ((nativeAwaitO I).step t d).1) :=
  monitor_step I hno a t d hR

theorem monitorAawait_trace_eq (I : Obj ι) (hno : NoOOBFirst I) (ds : List Drive) :
    (monitorAawaitO I).run (monitorAawaitO I).init ds = (nativeAwaitO I).run (nativeAwaitO I).init ds :=
  monitorAawait_equiv I hno ds

theorem boundMonitor_trace_eq (I : Obj ι) (hno : NoOOBFirst I) (ds : List Drive) :
    (boundMonitorO I).run (boundMonitorO I).init ds = (nativeAwaitO I).run (nativeAwaitO I).init ds :=
  boundMonitor_equiv I hno ds

/-- what happens outside `NoOOBFirst`: the monitor reports RuntimeError, a native await OOBData -/
theorem monitor_oob_first_excluded (I : Obj ι) (d : Val) (h : (I.send I.init 0).2 = .raise (.oobData d)) :
    (monitorAsendO I 0 0).outs (monitorAsendO I 0 0).init [.send 0] = [.raise (.runtime rtRaisedOOB)] ∧
    (nativeAwaitO I).outs (nativeAwaitO I).init [.send 0] = [.raise (.oobData d)] :=
  monitorAsend_oob_first I d h

/-! ### delegation is a congruence; stacks of any depth -/

theorem nativeAwait_congr (I J : Obj ι) (h : Equiv I J) (hv : I.view I.init = J.view J.init) :
    Equiv (nativeAwaitO I) (nativeAwaitO J) :=
  Asynkit.Proto.nativeAwait_congr h hv

theorem nativeAwait_congr_started (I J : Obj ι) (h : Equiv0 I J) :
    Equiv0 (nativeAwaitO I) (nativeAwaitO J) :=
  nativeAwait_congr0 h

theorem transparent_coroIter : TransparentFull (coroIterO (ι := ι)) :=
  fun I _ => ⟨coroIter_equiv I, rfl⟩
theorem transparent_coroAwait : TransparentFull (coroAwaitO (ι := ι)) :=
  fun I _ => ⟨coroAwait_equiv I, rfl⟩
theorem transparent_monitorAawait : TransparentFull (monitorAawaitO (ι := ι)) :=
  fun I h => ⟨monitorAawait_equiv I h, rfl⟩
theorem transparent_boundMonitor : TransparentFull (boundMonitorO (ι := ι)) :=
  fun I h => ⟨boundMonitor_equiv I h, rfl⟩
theorem transparent_native : TransparentFull (nativeAwaitO (ι := ι)) :=
  fun I _ => ⟨TrEq.refl _ _, rfl⟩
theorem transparent_coroStart : Transparent (coroStartO (ι := ι)) := fun I _ => coroStart_equiv0 I
theorem transparent_asCoroutine : Transparent (asCoroutineO (ι := ι)) := fun I _ => asCoroutine_equiv0 I
theorem TransparentFull.toTransparent {w : Obj ι → Obj ι} (h : TransparentFull w) : Transparent w :=
  fun I hI => (h I hI).1.toEquiv0

/-- a non-empty stack of transparent wrappers, of any depth, around any object, once started,
    is indistinguishable from a single native await of that object -/
theorem stack_trace_eq (ws : List (Obj ι → Obj ι)) (hne : ws ≠ []) (hw : ∀ w ∈ ws, Transparent w)
    (I : Obj ι) (hI : NoOOBFirst I) (ds : List Drive) :
    (stack ws I).run (stack ws I).init (.send 0 :: ds)
      = (nativeAwaitO I).run (nativeAwaitO I).init (.send 0 :: ds) :=
  stack_equiv0 ws hne hw I hI ds

/-- stacks without an eagerly starting layer: every drive list, including throw/close first -/
theorem stack_trace_eq_full (ws : List (Obj ι → Obj ι)) (hw : ∀ w ∈ ws, TransparentFull w)
    (I : Obj ι) (hI : NoOOBFirst I) (ds : List Drive) :
    (stack ws I).run (stack ws I).init ds
      = (nativeStack ws.length I).run (nativeStack ws.length I).init ds :=
  (stack_equiv_full ws hw I hI).1 ds

theorem nativeStack_collapse (I : Obj ι) (n : Nat) (ds : List Drive) :
    (nativeStack (n + 1) I).run (nativeStack (n + 1) I).init ds
      = (nativeAwaitO I).run (nativeAwaitO I).init ds :=
  Asynkit.Proto.nativeStack_collapse I n ds

/-! ### yielded objects pass through unchanged -/

/-- whatever the inner object yields in the relay loop is what the wrapper yields -/
theorem yield_passthrough_coroIter (I : Obj ι) (s : I.σ) (v : Val) (y : Y)
    (h : (I.send s v).2 = .yield y) :
    ((coroIterO I).step (.susp (.loop, s)) (.send v)).2 = .yield y := by
  rcases hh : I.send s v with ⟨s', o⟩
  rw [hh] at h; simp only at h; subst h
  simp [Obj.step, coroIterO, genObj, envObj, coroIterB, relay, normStop, envAfter, hh]

/-- the value CoroStart holds is passed on by the first `send(None)` without resuming the
    coroutine again -/
theorem yield_passthrough_coroStart (I : Obj ι) (s : I.σ) (y : Y) :
    (coroStartAwaitO I ⟨s, some (.pending y)⟩).step (coroStartAwaitO I ⟨s, some (.pending y)⟩).init (.send 0)
      = (.susp (.loop, ⟨s, none⟩), .yield y) := by
  simp [Obj.step, coroStartAwaitO, genObj, envObj, coroStartAwaitB, envAfter]

/-- … with its handshake flag set, whoever touched the flag while it was held -/
theorem held_future_reyielded_blocking (s : Nat → Bool) (k : Nat) :
    reyieldFlag (some (.pending (.fut k))) s k = true := by
  simp [reyieldFlag, Flags.set]

/-- while it is held the flag is clear, so others may await the future -/
theorem held_future_not_blocking (f : Flags) (k : Nat) :
    startFlag (.yield (.fut k)) (yieldFlag (.yield (.fut k)) f) k = false := by
  simp [startFlag, yieldFlag, Flags.set]

/-! ### non-vacuity: a body with a handler and a finally-like second await -/

/-- `try: x = await tok(1) except E1: x = await tok(2); return x` -/
def exBody : Body where
  σ := Nat
  init := 0
  resume s r :=
    match s, r with
    | 0, .send _ => (1, .yield (.tok 1))
    | 1, .send v => (3, .ret v)
    | 1, .throw (.other 1) => (2, .yield (.tok 2))
    | 1, .throw e => (3, .raise e)
    | 2, .send v => (3, .ret v)
    | 2, .throw .genExit => (2, .yield (.tok 9))       -- yields while handling GeneratorExit
    | 2, .throw e => (3, .raise e)
    | _, _ => (3, .raise .typeErr)

example : (coroIterO (ofBody exBody)).outs (coroIterO (ofBody exBody)).init
    [.send 0, .throw (.other 1), .send 5] = [.yield (.tok 1), .yield (.tok 2), .ret 5] := by decide

example : (stack [coroStartO, monitorAawaitO, coroIterO] (ofBody exBody)).outs
    (stack [coroStartO, monitorAawaitO, coroIterO] (ofBody exBody)).init
    [.send 0, .throw (.other 1), .close] =
    [.yield (.tok 1), .yield (.tok 2), .raise (.runtime rtIgnoredGenExit)] := by decide

example : NoOOBFirst (ofBody exBody) := by
  intro d h
  have : ((ofBody exBody).send (ofBody exBody).init 0).2 = .yield (.tok 1) := by decide
  rw [this] at h
  cases h

example : (coroIterO (logged (ofBody exBody))).run (coroIterO (logged (ofBody exBody))).init
    [.send 0, .throw (.other 1)] =
    [(.yield (.tok 1), [.send 0]), (.yield (.tok 2), [.send 0, .throw (.other 1)])] := by decide

end Asynkit.C02

/-! ### the same theorems against the shared reference `Proto.nativeAwait b`

`protoOuts B ds` = outputs of drive list `ds` on the coroutine object `Proto.Coro` makes of a body
`B` (Model/Proto.lean).  `proto_nativeAwait_outs` (Lemmas/C02Proto.lean) shows that
`Proto.nativeAwait b` — literally `async def ref(c): return await c` over an arbitrary `b : Body` —
has the same outputs as the object-level reference used above, so every headline theorem is, for
every coroutine body `b`, a statement about `Proto.nativeAwait b`. -/
namespace Asynkit.C02
open Asynkit.Proto

theorem proto_reference_eq (b : Body) (ds : List Drive) :
    protoOuts (nativeAwait b) ds = (nativeAwaitO (ofBody b)).outs (nativeAwaitO (ofBody b)).init ds :=
  proto_nativeAwait_outs b ds

theorem coroIter_eq_nativeAwait (b : Body) (ds : List Drive) :
    (coroIterO (ofBody b)).outs (coroIterO (ofBody b)).init ds = protoOuts (nativeAwait b) ds :=
  (outs_of_run_eq (coroIter_equiv (ofBody b) ds)).trans (proto_nativeAwait_outs b ds).symm

theorem awaitMethodIter_eq_nativeAwait (b : Body) (ds : List Drive) :
    (awaitMethodIterO (ofBody b)).outs (awaitMethodIterO (ofBody b)).init ds = protoOuts (nativeAwait b) ds :=
  coroIter_eq_nativeAwait b ds

theorem awaitMethod_eq_nativeAwait (b : Body) (ds : List Drive) :
    (nativeAwaitO (awaitMethodO (ofBody b))).outs (nativeAwaitO (awaitMethodO (ofBody b))).init ds
      = protoOuts (nativeAwait b) ds :=
  (proto_nativeAwait_outs b ds).symm

theorem coroStart_eq_nativeAwait (b : Body) (ds : List Drive) :
    (coroStartO (ofBody b)).outs (coroStartO (ofBody b)).init (.send 0 :: ds)
      = protoOuts (nativeAwait b) (.send 0 :: ds) :=
  (outs_of_run_eq (coroStart_equiv0 (ofBody b) ds)).trans (proto_nativeAwait_outs b _).symm

theorem asCoroutine_eq_nativeAwait (b : Body) (ds : List Drive) :
    (asCoroutineO (ofBody b)).outs (asCoroutineO (ofBody b)).init (.send 0 :: ds)
      = protoOuts (nativeAwait b) (.send 0 :: ds) :=
  (outs_of_run_eq (asCoroutine_equiv0 (ofBody b) ds)).trans (proto_nativeAwait_outs b _).symm

theorem coroAwait_eq_nativeAwait (b : Body) (ds : List Drive) :
    (coroAwaitO (ofBody b)).outs (coroAwaitO (ofBody b)).init ds = protoOuts (nativeAwait b) ds :=
  (outs_of_run_eq (coroAwait_equiv (ofBody b) ds)).trans (proto_nativeAwait_outs b ds).symm

theorem monitorAawait_eq_nativeAwait (b : Body) (hno : NoOOBFirst (ofBody b)) (ds : List Drive) :
    (monitorAawaitO (ofBody b)).outs (monitorAawaitO (ofBody b)).init ds = protoOuts (nativeAwait b) ds :=
  (outs_of_run_eq (monitorAawait_equiv (ofBody b) hno ds)).trans (proto_nativeAwait_outs b ds).symm

theorem boundMonitor_eq_nativeAwait (b : Body) (hno : NoOOBFirst (ofBody b)) (ds : List Drive) :
    (boundMonitorO (ofBody b)).outs (boundMonitorO (ofBody b)).init ds = protoOuts (nativeAwait b) ds :=
  monitorAawait_eq_nativeAwait b hno ds

/-- `NoOOBFirst` for a body, in terms of the body alone -/
theorem noOOBFirst_ofBody (b : Body) (h : ∀ d, (b.resume b.init (.send 0)).2 ≠ .raise (.oobData d)) :
    NoOOBFirst (ofBody b) := by
  intro d hd
  rcases hh : b.resume b.init (.send 0) with ⟨s', o⟩
  have := h d
  rw [hh] at this
  rcases o with y | v | e
  · simp [ofBody, coroObj, envObj, envAfter, hh] at hd
  · simp [ofBody, coroObj, envObj, envAfter, hh] at hd
  · cases e <;> simp_all [ofBody, coroObj, envObj, envAfter]

/-- any non-empty stack of transparent wrappers around the coroutine of any body `b`, once
    started, has exactly the outputs of `Proto.nativeAwait b` -/
theorem stack_eq_nativeAwait (b : Body) (ws : List (Obj b.σ → Obj b.σ)) (hne : ws ≠ [])
    (hw : ∀ w ∈ ws, Transparent w) (hI : NoOOBFirst (ofBody b)) (ds : List Drive) :
    (stack ws (ofBody b)).outs (stack ws (ofBody b)).init (.send 0 :: ds)
      = protoOuts (nativeAwait b) (.send 0 :: ds) :=
  (outs_of_run_eq (stack_equiv0 ws hne hw (ofBody b) hI ds)).trans (proto_nativeAwait_outs b _).symm

end Asynkit.C02
