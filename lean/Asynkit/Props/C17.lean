/-
C17 — priority containers are faithful to their reference models for every history.

Property theorems only; helper lemmas are in Asynkit/Lemmas/{Heap,PQ,PosPQ}.lean.
All statements are for an arbitrary priority type `π` whose `<` (`plt`) is a strict weak order
("priorities of any type that only defines `<`") and for every heap library `H` that meets the
documented `heapq` contract (`HeapLib.Lawful`).
-/
import Asynkit.Lemmas.PQ
import Asynkit.Lemmas.PosPQ
import Asynkit.Model.PQStep
import Asynkit.Model.PosPQStep

namespace Asynkit.C17
open Asynkit PQ

variable {π : Type} {H : HeapLib (Entry π)} {plt : π → π → Bool}

/-! ## The reference model

The specification state is the list of live entries **in arrival order**; the `seq` field of an
entry is a ghost arrival stamp (strictly increasing along the list).  The specification knows
nothing about heaps. -/

/-- `e` is what the reference model pops from `L`: it is in `L`, no entry has a smaller priority,
    and among the entries whose priority is not larger it arrived first. -/
def IsFirst (plt : π → π → Bool) (L : List (Entry π)) (e : Entry π) : Prop :=
  e ∈ L ∧ (∀ x ∈ L, plt x.pri e.pri = false) ∧ (∀ x ∈ L, plt e.pri x.pri = false → e.seq ≤ x.seq)

/-- removing the entry with arrival stamp `n` (order of the others untouched) -/
abbrev without (L : List (Entry π)) (n : Nat) : List (Entry π) := L.filter (fun y => y.seq != n)

/-- `out` is the first `k` entries of the pop order of `L` (or all of them). -/
def IsPopPrefix (plt : π → π → Bool) (L out : List (Entry π)) (k : Nat) : Prop :=
  ∃ rest, (out ++ rest).Perm L ∧ Sorted (Entry.lt plt) out ∧
    (∀ x ∈ out, ∀ y ∈ rest, Entry.lt plt y x = false) ∧ out.length = min k L.length

/-- One step of the reference model (a relation: `remove`/`find`/`reschedule` of an object that
    occurs several times may pick any occurrence). -/
inductive SpecStep (plt : π → π → Bool) : List (Entry π) → Op π → Out π → List (Entry π) → Prop
  | add (L p x n) : (∀ e ∈ L, e.seq < n) → SpecStep plt L (.add p x) .unit (L ++ [⟨p, n, x⟩])
  | extend (L es n) : (∀ e ∈ L, e.seq < n) → SpecStep plt L (.extend es) .unit (L ++ mkEntries n es)
  | popEmpty : SpecStep plt [] .pop .indexError []
  | pop (L e) : IsFirst plt L e → SpecStep plt L .pop (.entry e) (without L e.seq)
  | peekEmpty : SpecStep plt [] .peek .indexError []
  | peek (L e) : IsFirst plt L e → SpecStep plt L .peek (.entry e) L
  | removeAbsent (L x) : (∀ e ∈ L, e.obj ≠ x) → SpecStep plt L (.remove x) .valueError L
  | remove (L x e) : e ∈ L → e.obj = x → SpecStep plt L (.remove x) (.entry e) (without L e.seq)
  | findNone (L key rm) : (∀ e ∈ L, key e.obj = false) → SpecStep plt L (.find key rm) .none L
  | find (L key e) : e ∈ L → key e.obj = true → SpecStep plt L (.find key false) (.entry e) L
  | findRemove (L key e) : e ∈ L → key e.obj = true →
      SpecStep plt L (.find key true) (.entry e) (without L e.seq)
  | reschedNone (L key np) : (∀ e ∈ L, key e.obj = false) → SpecStep plt L (.reschedule key np) .none L
  | reschedSame (L key np e) : e ∈ L → key e.obj = true → (plt e.pri np || plt np e.pri) = false →
      SpecStep plt L (.reschedule key np) (.obj e.obj) L
  | resched (L key np e) : e ∈ L → key e.obj = true →
      SpecStep plt L (.reschedule key np) (.obj e.obj) (specResched L e.seq np)  -- arrival rank kept
  | refresh (L) : SpecStep plt L .refresh .unit L
  | sort (L) : SpecStep plt L .sort .unit L
  | clear (L) : SpecStep plt L .clear .unit []
  | ordered (L k out) : IsPopPrefix plt L out k → SpecStep plt L (.ordered k) (.entries out) L
  | len (L) : SpecStep plt L .len (.nat L.length) L

/-- a run of the reference model over a history from state `L`, with the answers it gives -/
inductive SpecRun (plt : π → π → Bool) :
    List (Entry π) → List (Op π) → List (Out π) → List (Entry π) → Prop
  | nil (L) : SpecRun plt L [] [] L
  | cons {L op out L1 ops outs L2} : SpecStep plt L op out L1 → SpecRun plt L1 ops outs L2 →
      SpecRun plt L (op :: ops) (out :: outs) L2

/-! ## Theorems -/

/-- What "pop by ascending priority, arrival order breaking ties" means in terms of
    `PriEntry.__lt__`: the `Entry.lt`-minimal entry is exactly the reference model's choice. -/
theorem min_iff_isFirst {L : List (Entry π)} {e : Entry π} (he : e ∈ L) :
    (∀ x ∈ L, Entry.lt plt x e = false) ↔ IsFirst plt L e := by
  constructor
  · intro h
    refine ⟨he, fun x hx => ?_, fun x hx hex => ?_⟩
    · have := h x hx
      simp only [Entry.lt, Bool.or_eq_false_iff] at this
      exact this.1
    · have := h x hx
      simp only [Entry.lt, Bool.or_eq_false_iff, Bool.and_eq_false_iff, Bool.not_eq_false',
        decide_eq_false_iff_not] at this
      rcases this.2 with h1 | h1
      · rw [hex] at h1; cases h1
      · omega
  · intro ⟨_, h1, h2⟩ x hx
    simp only [Entry.lt, Bool.or_eq_false_iff, Bool.and_eq_false_iff, Bool.not_eq_false',
      decide_eq_false_iff_not]
    refine ⟨h1 x hx, ?_⟩
    cases hex : plt e.pri x.pri with
    | true => left; rfl
    | false => right; have := h2 x hx hex; omega

/-- the reference model's choice is unique -/
theorem isFirst_unique {L : List (Entry π)} (hinc : L.Pairwise (fun a b => a.seq < b.seq))
    {e e' : Entry π} (h : IsFirst plt L e) (h' : IsFirst plt L e') : e = e' :=
  min_unique hinc h.1 h'.1 ((min_iff_isFirst h.1).mpr h) ((min_iff_isFirst h'.1).mpr h')

/-- **Single-step refinement**: from related states, every operation answers as the reference
    model allows and leads to related states. -/
theorem pq_step_refines (hs : StrictWeak plt) (hl : H.Lawful (Entry.lt plt))
    {s : PQ π} {L : List (Entry π)} (h : R plt s L) (op : Op π) :
    ∃ L', SpecStep plt L op (step H plt s op).2 L' ∧ R plt (step H plt s op).1 L' := by
  cases op with
  | add p x => exact ⟨_, .add L p x s.seq h.bound, h.add hl p x⟩
  | extend es => exact ⟨_, .extend L es s.seq h.bound, h.extend hl es⟩
  | pop =>
    rcases h.pop hs hl with ⟨rfl, hn⟩ | ⟨e, s', hp, he, hmin, hr⟩
    · exact ⟨[], by simp only [step, hn]; exact .popEmpty, by simpa only [step, hn] using h⟩
    · refine ⟨_, ?_, by simpa only [step, hp] using hr⟩
      simp only [step, hp]
      exact .pop L e ((min_iff_isFirst he).mp hmin)
  | peek =>
    obtain ⟨seq, pq⟩ := s
    cases pq with
    | nil =>
      have : L = [] := by simpa using h.perm.symm
      subst this
      exact ⟨[], by simp only [step, PQ.peek, List.head?_nil]; exact .peekEmpty, by simpa [step, PQ.peek] using h⟩
    | cons a l =>
      have he : a ∈ L := h.perm.subset (by simp)
      have hmin : ∀ x ∈ L, Entry.lt plt x a = false := fun x hx =>
        IsHeap.root_min_mem (entryLt_strictWeak hs) h.heap x (h.perm.symm.subset hx)
      exact ⟨L, by simp only [step, PQ.peek, List.head?_cons]; exact .peek L a ((min_iff_isFirst he).mp hmin),
        by simpa [step, PQ.peek] using h⟩
  | remove x =>
    have := h.remove hl x
    cases hr : s.remove H plt x with
    | none =>
      rw [hr] at this
      exact ⟨L, by simp only [step, hr]; exact .removeAbsent L x this, by simpa only [step, hr] using h⟩
    | some r =>
      obtain ⟨e, s'⟩ := r
      rw [hr] at this
      exact ⟨_, by simp only [step, hr]; exact .remove L x e this.1 this.2.1, by simpa only [step, hr] using this.2.2⟩
  | find key rm =>
    have := h.find hl key rm
    cases hr : s.find H plt key rm with
    | mk o s' =>
      rw [hr] at this
      cases o with
      | none =>
        obtain ⟨rfl, hk⟩ := this
        exact ⟨L, by simp only [step, hr]; exact .findNone L key rm hk, by simpa only [step, hr] using h⟩
      | some e =>
        obtain ⟨he, hk, hrest⟩ := this
        cases rm with
        | false =>
          simp only [Bool.false_eq_true, if_false] at hrest
          subst hrest
          exact ⟨L, by simp only [step, hr]; exact .find L key e he hk, by simpa only [step, hr] using h⟩
        | true =>
          simp only [if_true] at hrest
          exact ⟨_, by simp only [step, hr]; exact .findRemove L key e he hk, by simpa only [step, hr] using hrest⟩
  | reschedule key np =>
    have := h.reschedule hl key np
    cases hr : s.reschedule H plt key np with
    | mk o s' =>
      rw [hr] at this
      cases o with
      | none =>
        obtain ⟨rfl, hk⟩ := this
        exact ⟨L, by simp only [step, hr]; exact .reschedNone L key np hk, by simpa only [step, hr] using h⟩
      | some x =>
        obtain ⟨e, he, hk, rfl, hcase⟩ := this
        rcases hcase with ⟨hsame, rfl⟩ | hr'
        · exact ⟨L, by simp only [step, hr]; exact .reschedSame L key np e he hk hsame,
            by simpa only [step, hr] using h⟩
        · exact ⟨_, by simp only [step, hr]; exact .resched L key np e he hk,
            by simpa only [step, hr] using hr'⟩
  | refresh => exact ⟨L, .refresh L, h.refresh hl⟩
  | sort => exact ⟨L, .sort L, h.sort hs⟩
  | clear => exact ⟨[], .clear L, R.clear s⟩
  | ordered k =>
    have ho := h.ordered hs hl k
    refine ⟨L, ?_, by simpa only [step] using ho.1⟩
    simp only [step, ho.2]
    refine .ordered L k _ ?_
    have h0 : PopSplit (Entry.lt plt) s.pq [] s.pq := ⟨by simp, h.heap, by simp [Sorted], by simp⟩
    have hsplit := popN_split hs hl k [] s.pq s.pq h0
    have hlen := (popN_length hl k [] s.pq).1
    exact ⟨_, hsplit.perm.trans h.perm, hsplit.sorted, hsplit.below,
      by simpa [h.perm.length_eq] using hlen⟩
  | len => exact ⟨L, by simp only [step, PQ.len, h.perm.length_eq]; exact .len L, by simpa only [step] using h⟩

/-- refinement from any pair of related states -/
theorem pq_refines_from (hs : StrictWeak plt) (hl : H.Lawful (Entry.lt plt)) (ops : List (Op π)) :
    ∀ {s : PQ π} {L : List (Entry π)}, R plt s L →
      ∃ L', SpecRun plt L ops (runFrom H plt s ops).2 L' ∧ R plt (runFrom H plt s ops).1 L' := by
  induction ops with
  | nil => intro s L h; exact ⟨L, .nil L, h⟩
  | cons op ops ih =>
    intro s L h
    obtain ⟨L1, hstep, hr1⟩ := pq_step_refines (H := H) hs hl h op
    obtain ⟨L2, hrun, hr2⟩ := ih hr1
    exact ⟨L2, .cons hstep hrun, hr2⟩

/-- **Refinement for every history** (`pq_refines_spec`): whatever sequence of operations is
    applied to an empty `PriorityQueue`, the answers are answers of the reference model run on the
    same history, and the final states are related (same entries, heap intact). -/
theorem pq_refines_spec (hs : StrictWeak plt) (hl : H.Lawful (Entry.lt plt)) (ops : List (Op π)) :
    ∃ L, SpecRun plt [] ops (run H plt ops).2 L ∧ R plt (run H plt ops).1 L :=
  pq_refines_from hs hl ops R.empty

/-- `pq_inv` + `pq_perm`: in every reachable state the heap invariant holds, sequence numbers are
    distinct and below `_sequence`; nothing is lost or duplicated w.r.t. the reference model. -/
theorem pq_inv (hs : StrictWeak plt) (hl : H.Lawful (Entry.lt plt)) (ops : List (Op π)) :
    IsHeap (Entry.lt plt) (run H plt ops).1.pq ∧
    ((run H plt ops).1.pq.map (·.seq)).Nodup ∧
    ∀ e ∈ (run H plt ops).1.pq, e.seq < (run H plt ops).1.seq := by
  obtain ⟨L, _, hr⟩ := pq_refines_spec (H := H) hs hl ops
  exact ⟨hr.heap, (hr.perm.map _).nodup_iff.mpr (inc_seq_nodup hr.inc),
    fun e he => hr.bound e (hr.perm.subset he)⟩

/-- `iter_restore`: ordered iteration — started, advanced `k` times, closed — for all `k` and all
    three restore branches leaves the queue related to the same reference state. -/
theorem iter_restore (hs : StrictWeak plt) (hl : H.Lawful (Entry.lt plt)) {s : PQ π} {L}
    (h : R plt s L) (k : Nat) : R plt (s.ordered H plt k).2 L :=
  (h.ordered hs hl k).1

/-- the no-heapify restore branch is sound because of this fact about lists -/
theorem iter_restore_merge {α} (lt : α → α → Bool) (popped rest : List α)
    (hp : Sorted lt popped) (hc : ∀ x ∈ popped, ∀ y ∈ rest, lt y x = false)
    (hl : rest.length ≤ popped.length) : IsHeap lt (popped ++ rest) :=
  sorted_prefix_append_heap lt popped rest hp hc hl

/-- `observe_pure`: `copy()` is the identity on values, and `sort`/`refresh`/ordered iteration keep
    the reference state — so observing never changes what later operations answer. -/
theorem observe_pure (hs : StrictWeak plt) (hl : H.Lawful (Entry.lt plt)) {s : PQ π} {L}
    (h : R plt s L) (k : Nat) :
    PQ.copy s = s ∧ R plt (s.sort plt) L ∧ R plt (s.refresh H plt) L ∧ R plt (s.ordered H plt k).2 L :=
  ⟨rfl, h.sort hs, h.refresh hl, (h.ordered hs hl k).1⟩

/-! ## Non-vacuity -/

/-- the `heapq` contract is satisfiable (by a real, if slow, heap library) -/
theorem lawful_satisfiable (hs : StrictWeak plt) : (sortedHeap (Entry π)).Lawful (Entry.lt plt) :=
  sortedHeap_lawful (entryLt_strictWeak hs)

/-- `<` on integers is a strict weak order, so all theorems apply to integer priorities -/
theorem int_strictWeak : StrictWeak (fun a b : Int => decide (a < b)) :=
  ⟨by simp, by intro a b; simp; omega, by intro a b c; simp; omega, by intro a b c; simp; omega⟩

example : ∃ L, R (fun a b : Int => decide (a < b))
    (run (sortedHeap _) (fun a b : Int => decide (a < b)) [.add 1 10, .add 0 11, .add 0 12, .pop]).1 L ∧
    L.length = 2 := by
  obtain ⟨L, hrun, hr⟩ := pq_refines_spec (H := sortedHeap _) int_strictWeak (lawful_satisfiable int_strictWeak)
    [.add 1 10, .add 0 11, .add 0 12, .pop]
  refine ⟨L, hr, ?_⟩
  have := hr.perm.length_eq
  have h2 : (run (sortedHeap _) (fun a b : Int => decide (a < b))
      [.add 1 10, .add 0 11, .add 0 12, .pop]).1.pq.length = 2 := by decide
  omega

/-! ## `PosPriorityQueue` (boosting disabled: `priority_boost_factor = 0`)

The reference state is again the list of live entries in arrival order; its **pop order**
`order PV.lt L` is the list model of the property: positional (class-0) entries first, then the
regular entries by priority, then arrival.  `PosPQ.objs L` is that order as a list of objects. -/

section Pos
open PosPQ
variable {G : HeapLib (Entry PV)}

/-- `PriorityValue.__lt__` is a strict weak order, so everything proved for `PriorityQueue` applies -/
theorem pv_order : StrictWeak PV.lt := pv_strictWeak

/-- positional entries come first in the pop order -/
theorem positional_prefix (L : List (Entry PV)) :
    (order PV.lt L).Pairwise (fun a b => b.pri.cls = 0 → a.pri.cls = 0) := by
  refine (order_sorted pv_strictWeak L).imp ?_
  intro a b hba hb
  simp only [Entry.lt, Bool.or_eq_false_iff] at hba
  have h := hba.1
  simp only [PV.lt, hb] at h
  by_cases ha : a.pri.cls = 0
  · exact ha
  · exfalso
    have : (0 != a.pri.cls) = true := by simp; omega
    simp [this] at h; omega

/-- One step of the reference model of `PosPriorityQueue`. -/
inductive PosSpecStep : List (Entry PV) → PosPQ.Op → PosPQ.Out → List (Entry PV) → Prop
  /-- append: a regular entry with a fresh arrival stamp; it is popped behind every entry whose
      (class, priority) is not larger (`order_append`) -/
  | appendPri (L x p n ins) : (∀ e ∈ L, e.seq < n) →
      PosSpecStep L (.appendPri x p) .unit (L ++ [⟨{ base := p, insertedAt := ins }, n, x⟩])
  /-- insert: `list.insert(min(position, len), obj)` on the pop order; the entries in front of the
      insertion point and the new one become the positional prefix, the rest (`L1`) is untouched -/
  | insert (L p x es L1 N) : order PV.lt L = es ++ order PV.lt L1 → es.length = min p L.length →
      L1.Sublist L → N.map (·.obj) = es.map (·.obj) ++ [x] → (∀ n ∈ N, n.pri.cls = 0) →
      order PV.lt (L1 ++ N) = N ++ order PV.lt L1 →
      objs (L1 ++ N) = (objs L).insertIdx (min p L.length) x →
      PosSpecStep L (.insert p x) .unit (L1 ++ N)
  | popEmpty : PosSpecStep [] .popleft .indexError []
  /-- popleft: the head of the pop order -/
  | popleft (L e) : e ∈ L → order PV.lt L = e :: order PV.lt (without L e.seq) →
      PosSpecStep L .popleft (.obj e.obj) (without L e.seq)
  | removeAbsent (L x) : (∀ e ∈ L, e.obj ≠ x) → PosSpecStep L (.remove x) .valueError L
  | remove (L x e) : e ∈ L → e.obj = x → PosSpecStep L (.remove x) .unit (without L e.seq)
  | findNone (L key rm) : (∀ e ∈ L, key e.obj = false) → PosSpecStep L (.find key rm) .none L
  | find (L key e) : e ∈ L → key e.obj = true → PosSpecStep L (.find key false) (.obj e.obj) L
  | findRemove (L key e) : e ∈ L → key e.obj = true →
      PosSpecStep L (.find key true) (.obj e.obj) (without L e.seq)
  | reschedNone (L key np) : (∀ e ∈ L, key e.obj = false) → PosSpecStep L (.reschedule key np) .none L
  /-- rescheduling a positional entry changes nothing -/
  | reschedPositional (L key np e) : e ∈ L → key e.obj = true → e.pri.cls = 0 →
      PosSpecStep L (.reschedule key np) (.obj e.obj) L
  /-- rescheduling a regular entry: unchanged when the priority is the same, otherwise new base
      priority, boost dropped, arrival stamp kept -/
  | reschedSame (L key np e) : e ∈ L → key e.obj = true → e.pri.cls ≠ 0 →
      PosSpecStep L (.reschedule key np) (.obj e.obj) L
  | resched (L key np e ins) : e ∈ L → key e.obj = true → e.pri.cls ≠ 0 →
      PosSpecStep L (.reschedule key np) (.obj e.obj) (specResched L e.seq { base := np, insertedAt := ins })
  /-- reschedule_all: regular entries get `gp obj` as base priority; stamps, classes and positional
      entries are untouched — so positional and equal-priority entries keep their order -/
  | rescheduleAll (L gp) : PosSpecStep L (.rescheduleAll gp) .unit (L.map (rebase gp))
  /-- iteration yields the pop order and changes nothing -/
  | iter (L) : PosSpecStep L .iter (.objs (objs L)) L
  | clear (L) : PosSpecStep L .clear .unit []

inductive PosSpecRun : List (Entry PV) → List PosPQ.Op → List PosPQ.Out → List (Entry PV) → Prop
  | nil (L) : PosSpecRun L [] [] L
  | cons {L op out L1 ops outs L2} : PosSpecStep L op out L1 → PosSpecRun L1 ops outs L2 →
      PosSpecRun L (op :: ops) (out :: outs) L2

/-- **single-step refinement** for `PosPriorityQueue` with boosting disabled -/
theorem pos_step_refines (hl : G.Lawful (Entry.lt PV.lt)) (draw : Nat → Rat)
    {s : PosPQ} {L : List (Entry PV)} (h : RP s L) (h0 : s.factor = 0) (op : PosPQ.Op) :
    ∃ L', PosSpecStep L op (PosPQ.step G draw s op).2 L' ∧ RP (PosPQ.step G draw s op).1 L' ∧
      (PosPQ.step G draw s op).1.factor = 0 := by
  cases op with
  | appendPri x p =>
    have := h.appendPri hl h0 x p draw
    exact ⟨_, .appendPri L x p s.q.seq s.nIns h.r.bound, this.1, this.2.2⟩
  | insert p x =>
    obtain ⟨es, L1, N, h1, h2, h3, h4, h5, h6, h7, h8, h9⟩ := h.insert hl h0 p x draw
    exact ⟨_, .insert L p x es L1 N h1 h2 h3 h4 h5 h6 h8, h7, h9⟩
  | popleft =>
    rcases h.popleft hl draw with ⟨rfl, hn⟩ | ⟨e, s', hp, he, hord, hr, hf⟩
    · exact ⟨[], by simp only [PosPQ.step, hn]; exact .popEmpty, by simpa only [PosPQ.step, hn] using h,
        by simpa only [PosPQ.step, hn] using h0⟩
    · exact ⟨_, by simp only [PosPQ.step, hp]; exact .popleft L e he hord,
        by simpa only [PosPQ.step, hp] using hr, by simp only [PosPQ.step, hp]; rw [hf, h0]⟩
  | remove x =>
    have := h.remove hl x draw
    cases hr : s.remove G x draw with
    | none =>
      rw [hr] at this
      exact ⟨L, by simp only [PosPQ.step, hr]; exact .removeAbsent L x this,
        by simpa only [PosPQ.step, hr] using h, by simpa only [PosPQ.step, hr] using h0⟩
    | some s' =>
      rw [hr] at this
      obtain ⟨e, he, hx, hrp, hf⟩ := this
      exact ⟨_, by simp only [PosPQ.step, hr]; exact .remove L x e he hx,
        by simpa only [PosPQ.step, hr] using hrp, by simp only [PosPQ.step, hr]; rw [hf, h0]⟩
  | find key rm =>
    have := h.find hl key rm
    cases hr : s.find G key rm with
    | mk o s' =>
      rw [hr] at this
      cases o with
      | none =>
        obtain ⟨rfl, hk⟩ := this
        exact ⟨L, by simp only [PosPQ.step, hr]; exact .findNone L key rm hk,
          by simpa only [PosPQ.step, hr] using h, by simpa only [PosPQ.step, hr] using h0⟩
      | some x =>
        obtain ⟨e, he, hk, rfl, hrest⟩ := this
        cases rm with
        | false =>
          simp only [Bool.false_eq_true, if_false] at hrest
          subst hrest
          exact ⟨L, by simp only [PosPQ.step, hr]; exact .find L key e he hk,
            by simpa only [PosPQ.step, hr] using h, by simpa only [PosPQ.step, hr] using h0⟩
        | true =>
          simp only [if_true] at hrest
          exact ⟨_, by simp only [PosPQ.step, hr]; exact .findRemove L key e he hk,
            by simpa only [PosPQ.step, hr] using hrest.1, by simp only [PosPQ.step, hr]; rw [hrest.2, h0]⟩
  | reschedule key np =>
    have := h.reschedule hl key np
    cases hr : s.reschedule G key np with
    | mk o s' =>
      rw [hr] at this
      cases o with
      | none =>
        obtain ⟨rfl, hk⟩ := this
        exact ⟨L, by simp only [PosPQ.step, hr]; exact .reschedNone L key np hk,
          by simpa only [PosPQ.step, hr] using h, by simpa only [PosPQ.step, hr] using h0⟩
      | some x =>
        obtain ⟨e, he, hk, rfl, hf, hcase⟩ := this
        rcases hcase with ⟨hc, rfl⟩ | ⟨hc, rfl | hrp⟩
        · exact ⟨L, by simp only [PosPQ.step, hr]; exact .reschedPositional L key np e he hk hc,
            by simpa only [PosPQ.step, hr] using h, by simpa only [PosPQ.step, hr] using h0⟩
        · exact ⟨L, by simp only [PosPQ.step, hr]; exact .reschedSame L key np e he hk hc,
            by simpa only [PosPQ.step, hr] using h, by simpa only [PosPQ.step, hr] using h0⟩
        · exact ⟨_, by simp only [PosPQ.step, hr]; exact .resched L key np e s.nIns he hk hc,
            by simpa only [PosPQ.step, hr] using hrp, by simp only [PosPQ.step, hr]; rw [hf, h0]⟩
  | rescheduleAll gp =>
    exact ⟨_, .rescheduleAll L gp, (h.rescheduleAll hl gp).1, by simpa [PosPQ.step, PosPQ.rescheduleAll] using h0⟩
  | iter =>
    have := h.iter
    exact ⟨L, by simp only [PosPQ.step, this.2]; exact .iter L, by simpa only [PosPQ.step] using this.1,
      by simpa [PosPQ.step, PosPQ.iter] using h0⟩
  | clear => exact ⟨[], .clear L, RP.clear s, by simpa [PosPQ.step, PosPQ.clear] using h0⟩

/-- **`pos_refines_list`**: every history of `PosPriorityQueue` operations (boosting disabled)
    answers as the reference list model does, from any related pair of states; in particular
    from the empty queue.  Nothing is lost, duplicated or reordered: the implementation's entries
    are always a permutation of the reference list and its heap invariant holds (`RP`). -/
theorem pos_refines_list (hl : G.Lawful (Entry.lt PV.lt)) (draw : Nat → Rat) (ops : List PosPQ.Op) :
    ∀ {s : PosPQ} {L : List (Entry PV)}, RP s L → s.factor = 0 →
      ∃ L', PosSpecRun L ops (PosPQ.runFrom G draw s ops).2 L' ∧ RP (PosPQ.runFrom G draw s ops).1 L' := by
  induction ops with
  | nil => intro s L h _; exact ⟨L, .nil L, h⟩
  | cons op ops ih =>
    intro s L h h0
    obtain ⟨L1, hstep, hr1, hf1⟩ := pos_step_refines (G := G) hl draw h h0 op
    obtain ⟨L2, hrun, hr2⟩ := ih hr1 hf1
    exact ⟨L2, .cons hstep hrun, hr2⟩

/-- `reschedule_all_stable`: the reference list after `reschedule_all` has the same arrival stamps,
    objects and classes, position by position, and positional entries are untouched. -/
theorem reschedule_all_stable (gp : Nat → Rat) (L : List (Entry PV)) :
    ∀ e ∈ L, (rebase gp e).seq = e.seq ∧ (rebase gp e).obj = e.obj ∧
      (rebase gp e).pri.cls = e.pri.cls ∧ (e.pri.cls = 0 → rebase gp e = e) := by
  intro e _
  unfold rebase
  refine ⟨by split <;> rfl, by split <;> rfl, by split <;> simp, fun hc => by simp [hc]⟩

/-- non-vacuity: the relation holds initially with boosting disabled -/
example : RP ({ factor := 0 } : PosPQ) [] ∧ ({ factor := 0 } : PosPQ).factor = 0 :=
  ⟨⟨PQ.R.empty, by simp⟩, rfl⟩

end Pos

end Asynkit.C17
