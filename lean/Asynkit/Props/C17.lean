/-
C17 — priority containers are faithful to their reference models for every history.
Property theorems only (helper lemmas live in Asynkit/Lemmas).
-/
import Asynkit.Lemmas.Heap
import Asynkit.Model.PQ

namespace Asynkit.C17

/-- `ordereditems` restore, branch `lp >= lq` (merge without heapify) is sound. -/
theorem iter_restore_merge {α} (lt : α → α → Bool) (popped rest : List α)
    (hp : Sorted lt popped) (hc : ∀ x ∈ popped, ∀ y ∈ rest, lt y x = false)
    (hl : rest.length ≤ popped.length) : IsHeap lt (popped ++ rest) :=
  sorted_prefix_append_heap lt popped rest hp hc hl

end Asynkit.C17
