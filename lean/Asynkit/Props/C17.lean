/-
C17 — priority containers are faithful to their reference models for every history.

Property theorems only; helper lemmas are in Asynkit/Lemmas/{Heap,PQ,PosPQ}.lean.
All statements are for an arbitrary priority type `π` whose `<` (`plt`) is a strict weak order
("priorities of any type that only defines `<`") and for every heap library `H` that meets the
documented `heapq` contract (`HeapLib.Lawful`).
-/
import Asynkit.Lemmas.PQ
import Asynkit.Model.PQStep

namespace Asynkit.C17
open Asynkit PQ

variable {π : Type} {H : HeapLib (Entry π)} {plt : π → π → Bool}

/-! ## The reference model

The specification state is the list of live entries **in arrival order**; the `seq` field of an
entry is a ghost arrival stamp (strictly increasing along the list).  The specification knows
nothing about heaps. -/

/-- `e` is what the reference model pops from `L`: it is in `L`, no entry has a smaller priority,
    and among the entries whose priority is not larger it arrived first. -/
def IsFirst (plt : π → π → Bool) (L : List (Entry π)) (e : Entry π) : Prop :=
  e ∈ L ∧ (∀ x ∈ L, plt x.pri e.pri = false) ∧ (∀ x ∈ L, plt e.pri x.pri = false → e.seq ≤ x.seq)

/-- removing the entry with arrival stamp `n` (order of the others untouched) -/
abbrev without (L : List (Entry π)) (n : Nat) : List (Entry π) := L.filter (fun y => y.seq != n)

/-- `out` is the first `k` entries of the pop order of `L` (or all of them). -/
def IsPopPrefix (plt : π → π → Bool) (L out : List (Entry π)) (k : Nat) : Prop :=
  ∃ rest, (out ++ rest).Perm L ∧ Sorted (Entry.lt plt) out ∧
    (∀ x ∈ out, ∀ y ∈ rest, Entry.lt plt y x = false) ∧ out.length = min k L.length

/-- One step of the reference model (a relation: `remove`/`find`/`reschedule` of an object that
    occurs several times may pick any occurrence). -/
inductive SpecStep (plt : π → π → Bool) : List (Entry π) → Op π → Out π → List (Entry π) → Prop
  | add (L p x n) : (∀ e ∈ L, e.seq < n) → SpecStep plt L (.add p x) .unit (L ++ [⟨p, n, x⟩])
  | extend (L es n) : (∀ e ∈ L, e.seq < n) → SpecStep plt L (.extend es) .unit (L ++ mkEntries n es)
  | popEmpty : SpecStep plt [] .pop .indexError []
  | pop (L e) : IsFirst plt L e → SpecStep plt L .pop (.entry e) (without L e.seq)
  | peekEmpty : SpecStep plt [] .peek .indexError []
  | peek (L e) : IsFirst plt L e → SpecStep plt L .peek (.entry e) L
  | removeAbsent (L x) : (∀ e ∈ L, e.obj ≠ x) → SpecStep plt L (.remove x) .valueError L
  | remove (L x e) : e ∈ L → e.obj = x → SpecStep plt L (.remove x) (.entry e) (without L e.seq)
  | findNone (L key rm) : (∀ e ∈ L, key e.obj = false) → SpecStep plt L (.find key rm) .none L
  | find (L key e) : e ∈ L → key e.obj = true → SpecStep plt L (.find key false) (.entry e) L
  | findRemove (L key e) : e ∈ L → key e.obj = true →
      SpecStep plt L (.find key true) (.entry e) (without L e.seq)
  | reschedNone (L key np) : (∀ e ∈ L, key e.obj = false) → SpecStep plt L (.reschedule key np) .none L
  | reschedSame (L key np e) : e ∈ L → key e.obj = true → (plt e.pri np || plt np e.pri) = false →
      SpecStep plt L (.reschedule key np) (.obj e.obj) L
  | resched (L key np e) : e ∈ L → key e.obj = true →
      SpecStep plt L (.reschedule key np) (.obj e.obj) (specResched L e.seq np)  -- arrival rank kept
  | refresh (L) : SpecStep plt L .refresh .unit L
  | sort (L) : SpecStep plt L .sort .unit L
  | clear (L) : SpecStep plt L .clear .unit []
  | ordered (L k out) : IsPopPrefix plt L out k → SpecStep plt L (.ordered k) (.entries out) L
  | len (L) : SpecStep plt L .len (.nat L.length) L

/-- a run of the reference model over a history from state `L`, with the answers it gives -/
inductive SpecRun (plt : π → π → Bool) :
    List (Entry π) → List (Op π) → List (Out π) → List (Entry π) → Prop
  | nil (L) : SpecRun plt L [] [] L
  | cons {L op out L1 ops outs L2} : SpecStep plt L op out L1 → SpecRun plt L1 ops outs L2 →
      SpecRun plt L (op :: ops) (out :: outs) L2

/-! ## Theorems -/

/-- What "pop by ascending priority, arrival order breaking ties" means in terms of
    `PriEntry.__lt__`: the `Entry.lt`-minimal entry is exactly the reference model's choice. -/
theorem min_iff_isFirst {L : List (Entry π)} {e : Entry π} (he : e ∈ L) :
    (∀ x ∈ L, Entry.lt plt x e = false) ↔ IsFirst plt L e := by
  constructor
  · intro h
    refine ⟨he, fun x hx => ?_, fun x hx hex => ?_⟩
    · have := h x hx
      simp only [Entry.lt, Bool.or_eq_false_iff] at this
      exact this.1
    · have := h x hx
      simp only [Entry.lt, Bool.or_eq_false_iff, Bool.and_eq_false_iff, Bool.not_eq_false',
        decide_eq_false_iff_not] at this
      rcases this.2 with h1 | h1
      · rw [hex] at h1; cases h1
      · omega
  · intro ⟨_, h1, h2⟩ x hx
    simp only [Entry.lt, Bool.or_eq_false_iff, Bool.and_eq_false_iff, Bool.not_eq_false',
      decide_eq_false_iff_not]
    refine ⟨h1 x hx, ?_⟩
    cases hex : plt e.pri x.pri with
    | true => left; rfl
    | false => right; have := h2 x hx hex; omega

/-- the reference model's choice is unique -/
theorem isFirst_unique {L : List (Entry π)} (hinc : L.Pairwise (fun a b => a.seq < b.seq))
    {e e' : Entry π} (h : IsFirst plt L e) (h' : IsFirst plt L e') : e = e' :=
  min_unique hinc h.1 h'.1 ((min_iff_isFirst h.1).mpr h) ((min_iff_isFirst h'.1).mpr h')

/-- **Single-step refinement**: from related states, every operation answers as the reference
    model allows and leads to related states. -/
theorem pq_step_refines (hs : StrictWeak plt) (hl : H.Lawful (Entry.lt plt))
    {s : PQ π} {L : List (Entry π)} (h : R plt s L) (op : Op π) :
    ∃ L', SpecStep plt L op (step H plt s op).2 L' ∧ R plt (step H plt s op).1 L' := by
  cases op with
  | add p x => exact ⟨_, .add L p x s.seq h.bound, h.add hl p x⟩
  | extend es => exact ⟨_, .extend L es s.seq h.bound, h.extend hl es⟩
  | pop =>
    rcases h.pop hs hl with ⟨rfl, hn⟩ | ⟨e, s', hp, he, hmin, hr⟩
    · exact ⟨[], by simp only [step, hn]; exact .popEmpty, by simpa only [step, hn] using h⟩
    · refine ⟨_, ?_, by simpa only [step, hp] using hr⟩
      simp only [step, hp]
      exact .pop L e ((min_iff_isFirst he).mp hmin)
  | peek =>
    obtain ⟨seq, pq⟩ := s
    cases pq with
    | nil =>
      have : L = [] := by simpa using h.perm.symm
      subst this
      exact ⟨[], by simp only [step, PQ.peek, List.head?_nil]; exact .peekEmpty, by simpa [step, PQ.peek] using h⟩
    | cons a l =>
      have he : a ∈ L := h.perm.subset (by simp)
      have hmin : ∀ x ∈ L, Entry.lt plt x a = false := fun x hx =>
        IsHeap.root_min_mem (entryLt_strictWeak hs) h.heap x (h.perm.symm.subset hx)
      exact ⟨L, by simp only [step, PQ.peek, List.head?_cons]; exact .peek L a ((min_iff_isFirst he).mp hmin),
        by simpa [step, PQ.peek] using h⟩
  | remove x =>
    have := h.remove hl x
    cases hr : s.remove H plt x with
    | none =>
      rw [hr] at this
      exact ⟨L, by simp only [step, hr]; exact .removeAbsent L x this, by simpa only [step, hr] using h⟩
    | some r =>
      obtain ⟨e, s'⟩ := r
      rw [hr] at this
      exact ⟨_, by simp only [step, hr]; exact .remove L x e this.1 this.2.1, by simpa only [step, hr] using this.2.2⟩
  | find key rm =>
    have := h.find hl key rm
    cases hr : s.find H plt key rm with
    | mk o s' =>
      rw [hr] at this
      cases o with
      | none =>
        obtain ⟨rfl, hk⟩ := this
        exact ⟨L, by simp only [step, hr]; exact .findNone L key rm hk, by simpa only [step, hr] using h⟩
      | some e =>
        obtain ⟨he, hk, hrest⟩ := this
        cases rm with
        | false =>
          simp only [Bool.false_eq_true, if_false] at hrest
          subst hrest
          exact ⟨L, by simp only [step, hr]; exact .find L key e he hk, by simpa only [step, hr] using h⟩
        | true =>
          simp only [if_true] at hrest
          exact ⟨_, by simp only [step, hr]; exact .findRemove L key e he hk, by simpa only [step, hr] using hrest⟩
  | reschedule key np =>
    have := h.reschedule hl key np
    cases hr : s.reschedule H plt key np with
    | mk o s' =>
      rw [hr] at this
      cases o with
      | none =>
        obtain ⟨rfl, hk⟩ := this
        exact ⟨L, by simp only [step, hr]; exact .reschedNone L key np hk, by simpa only [step, hr] using h⟩
      | some x =>
        obtain ⟨e, he, hk, rfl, hcase⟩ := this
        rcases hcase with ⟨hsame, rfl⟩ | hr'
        · exact ⟨L, by simp only [step, hr]; exact .reschedSame L key np e he hk hsame,
            by simpa only [step, hr] using h⟩
        · exact ⟨_, by simp only [step, hr]; exact .resched L key np e he hk,
            by simpa only [step, hr] using hr'⟩
  | refresh => exact ⟨L, .refresh L, h.refresh hl⟩
  | sort => exact ⟨L, .sort L, h.sort hs⟩
  | clear => exact ⟨[], .clear L, R.clear s⟩
  | ordered k =>
    have ho := h.ordered hs hl k
    refine ⟨L, ?_, by simpa only [step] using ho.1⟩
    simp only [step, ho.2]
    refine .ordered L k _ ?_
    have h0 : PopSplit (Entry.lt plt) s.pq [] s.pq := ⟨by simp, h.heap, by simp [Sorted], by simp⟩
    have hsplit := popN_split hs hl k [] s.pq s.pq h0
    have hlen := (popN_length hl k [] s.pq).1
    exact ⟨_, hsplit.perm.trans h.perm, hsplit.sorted, hsplit.below,
      by simpa [h.perm.length_eq] using hlen⟩
  | len => exact ⟨L, by simp only [step, PQ.len, h.perm.length_eq]; exact .len L, by simpa only [step] using h⟩

/-- refinement from any pair of related states -/
theorem pq_refines_from (hs : StrictWeak plt) (hl : H.Lawful (Entry.lt plt)) (ops : List (Op π)) :
    ∀ {s : PQ π} {L : List (Entry π)}, R plt s L →
      ∃ L', SpecRun plt L ops (runFrom H plt s ops).2 L' ∧ R plt (runFrom H plt s ops).1 L' := by
  induction ops with
  | nil => intro s L h; exact ⟨L, .nil L, h⟩
  | cons op ops ih =>
    intro s L h
    obtain ⟨L1, hstep, hr1⟩ := pq_step_refines (H := H) hs hl h op
    obtain ⟨L2, hrun, hr2⟩ := ih hr1
    exact ⟨L2, .cons hstep hrun, hr2⟩

/-- **Refinement for every history** (`pq_refines_spec`): whatever sequence of operations is
    applied to an empty `PriorityQueue`, the answers are answers of the reference model run on the
    same history, and the final states are related (same entries, heap intact). -/
theorem pq_refines_spec (hs : StrictWeak plt) (hl : H.Lawful (Entry.lt plt)) (ops : List (Op π)) :
    ∃ L, SpecRun plt [] ops (run H plt ops).2 L ∧ R plt (run H plt ops).1 L :=
  pq_refines_from hs hl ops R.empty

/-- `pq_inv` + `pq_perm`: in every reachable state the heap invariant holds, sequence numbers are
    distinct and below `_sequence`; nothing is lost or duplicated w.r.t. the reference model. -/
theorem pq_inv (hs : StrictWeak plt) (hl : H.Lawful (Entry.lt plt)) (ops : List (Op π)) :
    IsHeap (Entry.lt plt) (run H plt ops).1.pq ∧
    ((run H plt ops).1.pq.map (·.seq)).Nodup ∧
    ∀ e ∈ (run H plt ops).1.pq, e.seq < (run H plt ops).1.seq := by
  obtain ⟨L, _, hr⟩ := pq_refines_spec (H := H) hs hl ops
  exact ⟨hr.heap, (hr.perm.map _).nodup_iff.mpr (inc_seq_nodup hr.inc),
    fun e he => hr.bound e (hr.perm.subset he)⟩

/-- `iter_restore`: ordered iteration — started, advanced `k` times, closed — for all `k` and all
    three restore branches leaves the queue related to the same reference state. -/
theorem iter_restore (hs : StrictWeak plt) (hl : H.Lawful (Entry.lt plt)) {s : PQ π} {L}
    (h : R plt s L) (k : Nat) : R plt (s.ordered H plt k).2 L :=
  (h.ordered hs hl k).1

/-- the no-heapify restore branch is sound because of this fact about lists -/
theorem iter_restore_merge {α} (lt : α → α → Bool) (popped rest : List α)
    (hp : Sorted lt popped) (hc : ∀ x ∈ popped, ∀ y ∈ rest, lt y x = false)
    (hl : rest.length ≤ popped.length) : IsHeap lt (popped ++ rest) :=
  sorted_prefix_append_heap lt popped rest hp hc hl

/-- `observe_pure`: `copy()` is the identity on values, and `sort`/`refresh`/ordered iteration keep
    the reference state — so observing never changes what later operations answer. -/
theorem observe_pure (hs : StrictWeak plt) (hl : H.Lawful (Entry.lt plt)) {s : PQ π} {L}
    (h : R plt s L) (k : Nat) :
    PQ.copy s = s ∧ R plt (s.sort plt) L ∧ R plt (s.refresh H plt) L ∧ R plt (s.ordered H plt k).2 L :=
  ⟨rfl, h.sort hs, h.refresh hl, (h.ordered hs hl k).1⟩

/-! ## Non-vacuity -/

/-- the `heapq` contract is satisfiable (by a real, if slow, heap library) -/
theorem lawful_satisfiable (hs : StrictWeak plt) : (sortedHeap (Entry π)).Lawful (Entry.lt plt) :=
  sortedHeap_lawful (entryLt_strictWeak hs)

/-- `<` on integers is a strict weak order, so all theorems apply to integer priorities -/
theorem int_strictWeak : StrictWeak (fun a b : Int => decide (a < b)) :=
  ⟨by simp, by intro a b; simp; omega, by intro a b c; simp; omega, by intro a b c; simp; omega⟩

example : ∃ L, R (fun a b : Int => decide (a < b))
    (run (sortedHeap _) (fun a b : Int => decide (a < b)) [.add 1 10, .add 0 11, .add 0 12, .pop]).1 L ∧
    L.length = 2 := by
  obtain ⟨L, hrun, hr⟩ := pq_refines_spec (H := sortedHeap _) int_strictWeak (lawful_satisfiable int_strictWeak)
    [.add 1 10, .add 0 11, .add 0 12, .pop]
  refine ⟨L, hr, ?_⟩
  have := hr.perm.length_eq
  have h2 : (run (sortedHeap _) (fun a b : Int => decide (a < b))
      [.add 1 10, .add 0 11, .add 0 12, .pop]).1.pq.length = 2 := by decide
  omega

end Asynkit.C17
