import Asynkit.Model.EagerProg
namespace Asynkit.C03
theorem placeholder : True := trivial
end Asynkit.C03
