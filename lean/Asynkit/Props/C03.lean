/-
C03 — cancelling an eager awaitable always reaches the started coroutine.
Property theorems only.  Model: Model/EagerKernel.lean (the *repaired* coroutine.py: `_Continuation`,
fixes/C03-*.patch); lemmas: Lemmas/C01Eager.lean; the general equivalence with the plain Task for
*every* event sequence (cancels at every instant, repeated, mixed with completions) is
`Asynkit.C01.eager_equiv_task`; the theorems here spell out what it means for `cancel()`.
-/
import Asynkit.Props.C01

namespace Asynkit.C03
open Asynkit.Proto Asynkit.Eager Asynkit.C01

/-- **cancel() before the loop has run = `Task.cancel()` on the plain Task suspended there.**
    For every body, every initial futures, every window `pre` of events before the continuation
    Task's first loop iteration that contains a `cancel()` (repeated cancels, completions of the
    awaited future, flag clears in any order), and every continuation `post` of the history: the
    eager run is *in the same state* (up to the transparent relay) as the plain Task, suspended at the
    same point, that received `pre` without the cancels, then `cancel()`, then — when it had no
    pending future to cancel — one step, then `post`. -/
theorem cancel_equiv_task (b : VBody) (F : Futs) (k : K (Cont b.σ))
    (hk : eagerRun .repaired b F = .task k) (pre post : List Ev)
    (hpre : Ev.run ∉ pre) (hc : Ev.cancel ∈ pre) :
    ∃ mid, (mid = [.cancel] ∨ mid = [.cancel, .run]) ∧
      runK (contResume .repaired b) k (pre ++ .run :: post)
        = (runK (coStep b) (plainStarted b F) (pre.filter (· ≠ .cancel) ++ mid ++ post)).map .relay := by
  have hy : ∃ y, (Co.resume b (Co.start b) (.send 0) F).2.1 = .yield y := by
    cases hout : (Co.resume b (Co.start b) (.send 0) F).2.1 with
    | yield y => exact ⟨y, rfl⟩
    | ret v =>
      have := (eager_start_done .repaired b F (by intro y hy; rw [hout] at hy; cases hy)).1
      rw [this] at hk; cases hk
    | raise e =>
      have := (eager_start_done .repaired b F (by intro y hy; rw [hout] at hy; cases hy)).1
      rw [this] at hk; cases hk
  obtain ⟨y, hy⟩ := hy
  obtain ⟨F2, hE, hP, hok⟩ := eager_start_yield b F y hy
  rw [hE] at hk
  cases hk
  rw [hP]
  generalize (Co.resume b (Co.start b) (.send 0) F).1 = co
  have hmc : (false || pre.contains Ev.cancel) = true := by simpa using hc
  obtain ⟨hm, hne⟩ := mid_cases (false || pre.contains .cancel) y (envFutsL F2 pre)
  refine ⟨mid (false || pre.contains .cancel) y (envFutsL F2 pre), ?_, ?_⟩
  · rcases hm with h | h | h
    · exact absurd h (hne.mpr hmc)
    · exact .inl h
    · exact .inr h
  · have h1 : runK (contResume .repaired b) (eagerAt co y false F2) (pre ++ Ev.run :: post)
        = runK (contResume .repaired b)
            (kstep (contResume .repaired b) (runK (contResume .repaired b) (eagerAt co y false F2) pre) .run)
            post := by
      rw [runK_append]; rfl
    rw [h1, window_eager _ _ _ _ _ _ _ hpre, first_run _ _ _ _ _ (heldOk_envFutsL _ _ _ hok), lockstep,
      runK_append, runK_append, window_plain _ _ _ _ _ hpre]

/-- **Any later instant** (after k loop iterations, between the completion of the awaited future and
    the Task's resumption, repeated …): once the continuation has been resumed it is transparent —
    `cancel()` and every other event act on it exactly as on the plain Task, for every history. -/
theorem cancel_later_is_plain (b : VBody) (s : K (Co b.σ)) (es : List Ev) :
    runK (contResume .repaired b) (s.map .relay) es = (runK (coStep b) s es).map .relay :=
  lockstep .repaired b s es

/-- **The cancel reaches the body, at its suspension point.**  State in the window: body suspended
    (`co.st = susp s`), continuation not resumed, a `cancel()` pending.  At the continuation Task's
    first loop iteration
    * either the very next resume of the body — it happens in this iteration — is
      `throw CancelledError` at that suspension point (the body was waiting on nothing that can be
      cancelled: `sleep(0)`, or a future that had completed in the meantime),
    * or the future `f` the body waits on was pending: it has been cancelled exactly as
      `Task.cancel()` does (`f.cancel()`; a Task-like `f` has the request recorded), the Task now
      waits on `f`, no cancel request is left pending, the body has not been touched — and for a
      plain future the next loop iteration resumes the body with `throw CancelledError` there. -/
theorem cancel_reaches_body (b : VBody) (co : Co b.σ) (s : b.σ) (hs : co.st = .susp s)
    (held : Y) (F : Futs) (hok : HeldOk held F) :
    let E1 := kstep (contResume .repaired b) (eagerAt co held true F) .run
    (E1.co.co.log = (.throw (.cancelled 0), F) :: co.log)
    ∨ (∃ f, held = .fut f ∧ (F f).st = .pending ∧ E1.co = .relay co ∧ E1.task.futWaiter = some f
        ∧ E1.task.mustCancel = false
        ∧ ((F f).isTask = true → (E1.futs f).cancelReq = true ∧ (E1.futs f).st = .pending)
        ∧ ((F f).isTask = false → (E1.futs f).st = .cancelled ∧ E1.task.ready = some (.wakeup f)
            ∧ (kstep (contResume .repaired b) E1 .run).co.co.log
                = (.throw (.cancelled 0), E1.futs) :: co.log)) := by
  intro E1
  have hrelay : ∀ t r F', (taskFinish t (contResume .repaired b (.relay co) r F')).co.co.log
      = (r.toResume, F') :: co.log := by
    intro t r F'
    rw [taskFinish_co]
    exact Co.resume_susp_log b co s hs _ _
  cases held with
  | bare =>
    left
    exact hrelay _ (.throw .cancelled) F
  | tok n =>
    left
    exact hrelay _ (.throw .cancelled) F
  | fut f =>
    have h0 := hok f rfl
    cases hst : (F f).st with
    | pending =>
      right
      refine ⟨f, rfl, hst, ?_⟩
      by_cases ht : (F f).isTask = true
      · simp [E1, kstep, eagerAt, taskStep, stepRes, stepExc, contResume, rearmHeld, taskFinish,
          Fix.repaired, futCancel, hst, ht, Futs.set, setFlag]
      · have hd : ∀ x : Fut, x.st = .cancelled → x.isDone = true := by
          intro x hx; simp [Fut.isDone, hx]
        simp only [Bool.not_eq_true] at ht
        have hE1 : E1 = ⟨.relay co, { ready := some (.wakeup f), futWaiter := some f },
            F.set f { F f with st := .cancelled }⟩ := by
          simp [E1, kstep, eagerAt, taskStep, stepRes, stepExc, contResume, rearmHeld, taskFinish,
            Fix.repaired, futCancel, hst, ht, Futs.set, setFlag, Fut.isDone]
          funext g; simp only [Futs.set]; split <;> simp_all
        rw [hE1]
        refine ⟨rfl, rfl, rfl, by simp [ht], fun _ => ⟨by simp [Futs.set], rfl, ?_⟩⟩
        have : ((F.set f { F f with st := .cancelled }) f).st = .cancelled := by simp [Futs.set]
        simp only [kstep, taskWakeup, this, taskStep]
        exact hrelay _ _ _
    | result v =>
      left
      have : E1 = taskFinish { ready := none } (contResume .repaired b (.relay co) (.throw .cancelled) F) := by
        simp [E1, kstep, eagerAt, taskStep, stepRes, stepExc, contResume, Fix.repaired, futCancel, hst]
      rw [this]; exact hrelay _ _ _
    | exc e =>
      left
      have : E1 = taskFinish { ready := none } (contResume .repaired b (.relay co) (.throw .cancelled) F) := by
        simp [E1, kstep, eagerAt, taskStep, stepRes, stepExc, contResume, Fix.repaired, futCancel, hst]
      rw [this]; exact hrelay _ _ _
    | cancelled =>
      left
      have : E1 = taskFinish { ready := none } (contResume .repaired b (.relay co) (.throw .cancelled) F) := by
        simp [E1, kstep, eagerAt, taskStep, stepRes, stepExc, contResume, Fix.repaired, futCancel, hst]
      rw [this]; exact hrelay _ _ _

/-- the hypotheses of `cancel_reaches_body` are met after *every* window of events that contains a
    cancel(): from `coro_eager` on any suspending body, any events before the first loop iteration -/
theorem cancel_window_state (b : VBody) (F : Futs) (k : K (Cont b.σ))
    (hk : eagerRun .repaired b F = .task k) (pre : List Ev) (hpre : Ev.run ∉ pre) (hc : Ev.cancel ∈ pre) :
    ∃ co s held F', co.st = .susp s ∧ HeldOk held F'
      ∧ runK (contResume .repaired b) k pre = eagerAt co held true F' := by
  cases hout : (Co.resume b (Co.start b) (.send 0) F).2.1 with
  | ret v =>
    have := (eager_start_done .repaired b F (by intro y hy; rw [hout] at hy; cases hy)).1
    rw [this] at hk; cases hk
  | raise e =>
    have := (eager_start_done .repaired b F (by intro y hy; rw [hout] at hy; cases hy)).1
    rw [this] at hk; cases hk
  | yield y =>
    obtain ⟨F2, hE, _, hok⟩ := eager_start_yield b F y hout
    rw [hE] at hk
    cases hk
    have hsusp : ∃ s, (Co.resume b (Co.start b) (.send 0) F).1.st = .susp s := by
      revert hout
      simp only [Co.resume, Co.start, ne_eq, not_true_eq_false, if_false, Co.after]
      split <;> simp
    obtain ⟨s, hs⟩ := hsusp
    refine ⟨_, s, y, _, hs, heldOk_envFutsL _ _ pre hok, ?_⟩
    rw [window_eager _ _ _ _ _ _ _ hpre]
    have : (false || pre.contains Ev.cancel) = true := by simpa using hc
    rw [this]

/-- **Leaving `eager_ctx()` / `cancelling()` never strands the started coroutine.**  The exit calls
    `cancel()`; take the hardest instant — the loop has not run since `eager_ctx()` returned.  If the
    body's reaction to CancelledError at its suspension point is to finish (its handlers and `finally`
    blocks run and it returns or raises — whatever the futures look like), and it is not waiting on a
    Task-like future that may refuse the request, then after two loop iterations its coroutine is
    finished and the awaitable is done.  (Bodies that suppress and await again are covered by
    `cancel_reaches_body` + `C01.eager_equiv_task`: they continue exactly as under a plain Task.) -/
theorem ctx_exit_finishes (b : VBody) (co : Co b.σ) (s : b.σ) (hs : co.st = .susp s)
    (held : Y) (F : Futs) (hok : HeldOk held F)
    (hplain : ∀ f, held = .fut f → (F f).isTask = false)
    (hfin : ∀ F' y, (b.resume s (.throw (.cancelled 0)) F').2 ≠ .yield y) :
    let E2 := runK (contResume .repaired b) (eagerAt co held true F) [.run, .run]
    E2.co.co.st = .done ∧ E2.task.outcome.isSome = true := by
  intro E2
  have hrelay : ∀ t F', (taskFinish t (contResume .repaired b (.relay co) (.throw .cancelled) F')).co.co.st = .done
      ∧ (taskFinish t (contResume .repaired b (.relay co) (.throw .cancelled) F')).task.outcome.isSome = true := by
    intro t F'
    obtain ⟨h1, h2⟩ := Co.resume_susp_fin b co s hs (.throw (.cancelled 0)) F' (hfin F')
    obtain ⟨h3, h4⟩ := taskFinish_done t (contResume .repaired b (.relay co) (.throw .cancelled) F') h2
    exact ⟨by rw [h3]; exact h1, h4⟩
  have hstop : ∀ E1 : K (Cont b.σ), E1.co.co.st = .done ∧ E1.task.outcome.isSome = true →
      (kstep (contResume .repaired b) E1 .run).co.co.st = .done
        ∧ (kstep (contResume .repaired b) E1 .run).task.outcome.isSome = true := by
    intro E1 h; rw [kstep_run_done _ _ h.2]; exact h
  have hdirect : kstep (contResume .repaired b) (eagerAt co held true F) .run
        = taskFinish { ready := none } (contResume .repaired b (.relay co) (.throw .cancelled) F) →
      E2.co.co.st = .done ∧ E2.task.outcome.isSome = true := by
    intro h
    simp only [E2, runK, List.foldl_cons, List.foldl_nil]
    rw [h]; exact hstop _ (hrelay _ _)
  cases held with
  | bare => exact hdirect (by simp [kstep, eagerAt, taskStep, stepRes, stepExc, contResume, Fix.repaired])
  | tok n => exact hdirect (by simp [kstep, eagerAt, taskStep, stepRes, stepExc, contResume, Fix.repaired])
  | fut f =>
    have ht := hplain f rfl
    cases hst : (F f).st with
    | pending =>
      have hE1 : kstep (contResume .repaired b) (eagerAt co (.fut f) true F) .run
          = ⟨.relay co, { ready := some (.wakeup f), futWaiter := some f },
            setFlag (setFlag (F.set f { F f with st := .cancelled }) f true) f false⟩ := by
        simp [kstep, eagerAt, taskStep, stepRes, stepExc, contResume, rearmHeld, taskFinish,
          Fix.repaired, futCancel, hst, ht, Futs.set, setFlag, Fut.isDone]
      simp only [E2, runK, List.foldl_cons, List.foldl_nil]
      rw [hE1]
      have : ((setFlag (setFlag (F.set f { F f with st := .cancelled }) f true) f false) f).st = .cancelled := by
        simp [Futs.set]
      simp only [kstep, taskWakeup, this, taskStep]
      exact hrelay _ _
    | result v =>
      exact hdirect (by simp [kstep, eagerAt, taskStep, stepRes, stepExc, contResume, Fix.repaired, futCancel, hst])
    | exc e =>
      exact hdirect (by simp [kstep, eagerAt, taskStep, stepRes, stepExc, contResume, Fix.repaired, futCancel, hst])
    | cancelled =>
      exact hdirect (by simp [kstep, eagerAt, taskStep, stepRes, stepExc, contResume, Fix.repaired, futCancel, hst])

/-! ### non-vacuity, and the witness of the unrepaired code -/

/-- `try: await f0  except CancelledError: log; raise  finally: log` -/
def cleanupBody : List Stmt := [.try_ [.await 0] .ca true [.log 1] [.log 2]]

/-- observable summary: outcome of the awaitable, number of resumes the body got, state of f0,
    whether the body's coroutine is finished -/
def summary (k : K (Cont M)) : Option Out × Nat × FSt × Bool :=
  (k.task.outcome, k.co.co.log.length, (k.futs 0).st,
    match k.co.co.st with
    | .done => true
    | _ => false)

/-- unchanged tree: `t = eager(c); t.cancel()`, then the loop runs — the awaitable ends cancelled, but
    the body was never resumed (1 resume = its prefix), stays suspended, and `f0` is still pending -/
example : (runEager .original cleanupBody [.cancel, .run, .run, .run]).map summary
    = some (some (.raise (.cancelled 0)), 1, .pending, false) := by decide
/-- repaired: the body got `throw CancelledError` (2 resumes), ran its handlers and finished, `f0` was
    cancelled as `Task.cancel()` does -/
example : (runEager .repaired cleanupBody [.cancel, .run, .run]).map summary
    = some (some (.raise (.cancelled 0)), 2, .cancelled, true) := by decide
/-- a suppressing handler that awaits: `try: await f0 except CancelledError: await f1` stays suspended
    on f1 — legitimately — after having seen the CancelledError -/
example : (runEager .repaired [.try_ [.await 0] .ca false [.await 1] []] [.cancel, .run, .run]).map summary
    = some (none, 2, .cancelled, false) := by decide
/-- repeated cancels (a cancel() inside an `eager_ctx()` block that the body suppresses, the body
    suspends again on f1, then the block exit = a second cancel()): the second request is delivered too —
    3 resumes, f1 cancelled, coroutine finished.  (`cancelling()` calls `target.cancel()` on *every*
    exit; in the model a block exit is a `cancel` event.) -/
example : (runEager .repaired [.try_ [.await 0] .ca false [] [], .await 1]
      [.cancel, .run, .run, .cancel, .run]).map (fun k => (summary k, (k.futs 1).st))
    = some ((some (.raise (.cancelled 0)), 3, .cancelled, true), .cancelled) := by decide
/-- the hypotheses of `cancel_reaches_body` on a concrete state (second disjunct, plain future) -/
example : HeldOk (.fut 0) F0 := fun _ _ => rfl

end Asynkit.C03
