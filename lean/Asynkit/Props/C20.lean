import Asynkit.Model.CoroState
namespace Asynkit.C20
theorem placeholder : True := trivial
end Asynkit.C20
