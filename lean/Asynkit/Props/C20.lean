/-
C20 — coroutine state helpers classify every state of every coroutine kind.
Property theorems only (model: Asynkit/Model/CoroState.lean, lemmas: Asynkit/Lemmas/C20.lean).

`expose k s` = the attribute values CPython 3.12 shows for an object of kind `k` in interpreter
state `s` (phase × `ag_running` flag); `isNew / isSuspended / isFinished` = the three helpers of
src/asynkit/coroutine.py as functions of those attributes; `deliver` = what one drive operation
(send / throw / close; a new asend()/athrow()/aclose() awaitable, send / throw / close on the
awaitable currently held — the earlier one being abandoned) does, given how the body responds
(awaits, yields, exits).
-/
import Asynkit.Lemmas.C20

namespace Asynkit.C20
open Asynkit.CoroState

/-- **The helpers are exact on the whole table.**  For every kind and every interpreter state
    (all 3 × 7 × 2 of them — also the ones with a stale `ag_running`, e.g. an abandoned `asend()`
    awaitable, or a body entered through `asend().throw()` with `ag_running` clear) exactly one
    of new / suspended / finished / executing holds, and it is the one the phase denotes.
    `closingInner` (executing `close()`/`throw(GeneratorExit)`: the frame is marked executing but
    not linked to a caller) and `throwingInner` count as executing. -/
theorem helpers_exact (k : Kind) (s : St) : verdict k (expose k s) = truth s.phase := by
  obtain ⟨ph, f⟩ := s
  cases k <;> cases ph <;> cases f <;> rfl

/-- The same, helper by helper: new iff created; suspended iff paused at an await or at a yield;
    finished iff closed; none of the three iff executing. -/
theorem helpers_exact_each (k : Kind) (s : St) :
    isNew k (expose k s) = (s.phase == .created) ∧
    isSuspended k (expose k s) = s.phase.isSusp ∧
    isFinished k (expose k s) = (s.phase == .closed) ∧
    ((isNew k (expose k s) || isSuspended k (expose k s) || isFinished k (expose k s)) = false ↔
      (s.phase = .running ∨ s.phase = .closingInner ∨ s.phase = .throwingInner)) := by
  obtain ⟨ph, f⟩ := s
  cases k <;> cases ph <;> cases f <;> decide

/-- **Every history stays inside the table, and phases mean what they say.**  One operation either
    resumes the body — then the object is `running` while the body runs (that is the state an
    observation from inside the body, or from a callee of it, sees), it rests afterwards where the
    body's own response says (await → suspAwait, yield → suspYield, exit → closed), and it was
    neither finished nor already running; the clean-up code of a callee it was delegating to sees
    it `running`, `throwingInner` or `closingInner` meanwhile — or it leaves the phase alone, except that a
    never-started object is closed by a delivered throw / close / athrow / aclose. -/
theorem reachable_phases (k : Kind) (d : DSt) (op : Op) (r : Resp) :
    ((deliver k d op r).resumed = true →
        (deliver k d op r).mid.phase = .running ∧
        ((deliver k d op r).midCleanup.phase = .running ∨ (deliver k d op r).midCleanup.phase = .closingInner ∨
          (deliver k d op r).midCleanup.phase = .throwingInner) ∧
        (deliver k d op r).after.st.phase = respPhase k r ∧
        d.st.phase ≠ .closed ∧ d.st.phase ≠ .running) ∧
    ((deliver k d op r).resumed = false →
        (deliver k d op r).after.st.phase = d.st.phase ∨
        ((deliver k d op r).after.st.phase = .closed ∧ d.st.phase = .created)) :=
  deliver_ok k d op r

/-- **Helpers against the history's own ground truth.**  After every drive history `h` of every
    kind (from a fresh object): `coro_is_new` ⇔ no body code has run and the object was not
    closed; `coro_is_suspended` ⇔ body code has run and it has not finished; `coro_is_finished` ⇔
    it is closed; and between operations it is never `running` (so exactly one helper holds). -/
theorem helpers_track_history (k : Kind) (h : List (Op × Resp)) :
    let d := runHist k initial h
    let ran := everRan k initial h
    isNew k (expose k d.st) = (!ran && d.st.phase != .closed) ∧
    isSuspended k (expose k d.st) = (ran && d.st.phase != .closed) ∧
    isFinished k (expose k d.st) = (d.st.phase == .closed) ∧
    Between d.st.phase := by
  intro d ran
  have hi : Inv d (false || ran) := inv_hist k h initial false inv_initial
  simp only [Bool.false_or] at hi
  obtain ⟨h1, h2, h3⟩ := hi
  obtain ⟨e1, e2, e3, _⟩ := helpers_exact_each k d.st
  refine ⟨?_, ?_, e3, h1⟩
  · rw [e1]
    cases hp : d.st.phase <;> cases hr : ran <;> simp_all [Between]
  · rw [e2]
    cases hp : d.st.phase <;> cases hr : ran <;> simp_all [Phase.isSusp, Between]

/-- … and while an operation of that history runs the body, none of the three helpers holds —
    neither seen from the body or a callee (`mid`) nor from the clean-up code of a callee while
    the operation is being delivered to it first (`midCleanup`). -/
theorem helpers_while_running (k : Kind) (d : DSt) (op : Op) (r : Resp)
    (hr : (deliver k d op r).resumed = true) :
    verdict k (expose k (deliver k d op r).mid) = .executing ∧
    verdict k (expose k (deliver k d op r).midCleanup) = .executing := by
  obtain ⟨h1, h2, _⟩ := (deliver_ok k d op r).1 hr
  rw [helpers_exact, helpers_exact, h1]
  refine ⟨rfl, ?_⟩
  rcases h2 with h | h | h <;> rw [h] <;> rfl

/-- Reachable states have the shape the table assumes for their kind: only async generators carry
    `ag_running` / awaitables, a coroutine never rests at a `yield`, a created object never has
    `ag_running` set. -/
theorem reachable_shape (k : Kind) (h : List (Op × Resp)) : KindOK k (runHist k initial h) :=
  kindOK_hist k h initial (by simp [KindOK, initial])

/-! ### Non-vacuity, and the defect repaired by fixes/C20-asyncgen-state.patch -/

-- a history that reaches "paused at a yield" and one that leaves `ag_running` stuck on a
-- generator suspended in an await (asend() awaitable abandoned half-way)
example : (runHist .asyncGen initial [(.newAw .asend, .exit), (.awSend, .yield)]).st = ⟨.suspYield, false⟩ := by
  decide
example : (runHist .asyncGen initial [(.newAw .asend, .exit), (.awSend, .await), (.newAw .asend, .exit),
    (.awSend, .exit)]).st = ⟨.suspAwait, true⟩ := by decide
-- `helpers_while_running`: its hypothesis holds for a real step
example : (deliver .asyncGen { st := ⟨.suspYield, false⟩, aw := some ⟨.asend, .init⟩ } .awThrow .yield).resumed = true := by
  decide

-- close() arriving while the object delegates: the callee's clean-up sees `closingInner`
example : (deliver .asyncGen { st := ⟨.suspAwait, true⟩, aw := some ⟨.asend, .iter⟩ } .awThrowX .exit).midCleanup
    = ⟨.closingInner, true⟩ := by decide
example : (deliver .coroutine { st := ⟨.suspAwait, false⟩ } .close .exit).midCleanup = ⟨.closingInner, false⟩ := by
  decide

/-- The first version of the async-generator fix (2f3fb0e, `f_back` decides) reported an async
    generator that is closing the awaitable it delegates to as suspended (found by the check after
    clean-up observations were added; repaired by fixes/C20-asyncgen-delegated-close.patch). -/
theorem first_fix_closing_reported_suspended :
    agenFrameStateOld (expose .asyncGen ⟨.closingInner, true⟩) = .suspended ∧
    agenFrameState (expose .asyncGen ⟨.closingInner, true⟩) = .running := by decide

/-- Before the fix an async generator paused at a `yield` was reported new, not suspended … -/
theorem original_yield_reported_new :
    isNewOrig .asyncGen (expose .asyncGen ⟨.suspYield, false⟩) = true ∧
    isSuspendedOrig .asyncGen (expose .asyncGen ⟨.suspYield, false⟩) = false := by decide

/-- … and a body entered through `asend().throw()` (ag_running clear) was reported new while executing. -/
theorem original_running_reported_new :
    isNewOrig .asyncGen (expose .asyncGen ⟨.running, false⟩) = true := by decide

end Asynkit.C20
