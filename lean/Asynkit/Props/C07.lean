import Asynkit.Model.Monitor
namespace Asynkit.C07
open Asynkit.Monitor
theorem placeholder : (1 : Nat) = 1 := rfl
end Asynkit.C07
