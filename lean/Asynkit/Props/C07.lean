/-
C07 — Monitor out-of-band channel: exactly once, in order, both directions.
Property theorems only; model in Asynkit/Model/Monitor.lean, helper lemmas and the ideal-channel
specification (`resolveI`, `idealResume`, `present`) in Asynkit/Lemmas/C07.lean.

"For all bodies" = for every `MBody` (leaf: any state type, any deterministic `resume` producing
real suspensions, `oob m d` calls on any monitor, return, raise), every `SBody` (anything running
against the monitor cells, in particular `nest p c` to any depth) and every `PBody`.
-/
import Asynkit.Lemmas.C07
import Asynkit.Lemmas.C07Nest
import Asynkit.Model.MonitorOld

namespace Asynkit.C07
open Asynkit.Proto (Val Exc Resume)
open Asynkit.Monitor

/-! ## driver-level traces for a leaf coroutine -/

/-- what the driver of monitor `m` does next -/
inductive Act where
  | call (op : Op)          -- start `m.<op>(coro, …)` (ignored while a call is suspended: see `reentry_refused`)
  | resume (r : Resume)     -- the outer loop resumes the suspended call (ignored when none is)
deriving Repr

/-- driver state: the system and the entry point whose call is suspended at a real yield -/
abbrev DSt (b : MBody) := Sys (ofM b) × Option Op

def pendOf (op : Op) : CallOut → Option Op
  | .pending _ => some op
  | _ => none

/-- the real thing: `Monitor` entry points over `Monitor._asend` over `Monitor.oob` -/
def monStep (b : MBody) (m : MonId) : DSt b → Act → DSt b × Option CallOut
  | (sys, none), .call op =>
    let r := callStart m op sys
    ((r.1, pendOf op r.2), some r.2)
  | (sys, some op), .resume r =>
    let x := callResume m op r sys
    ((x.1, pendOf op x.2), some x.2)
  | st, _ => (st, none)

/-- the specification: every activation is the body's own step, read by `idealResume` (which has
    no state for `m`: `resolveI_frame`), presented to the driver by `present` -/
def idealStep (b : MBody) (m : MonId) : DSt b → Act → DSt b × Option CallOut
  | (sys, none), .call op =>
    match op, SCoro.isDone sys.coro with
    | .aclose, true => ((sys, none), some (.returned 0))
    | _, _ =>
      let r := present b m true (idealResume b m sys.coro op.first sys.env)
      ((r.1, pendOf op (op.finish r.2)), some (op.finish r.2))
  | (sys, some op), .resume r =>
    let x := present b m false (idealResume b m sys.coro r sys.env)
    ((x.1, pendOf op (op.finish x.2)), some (op.finish x.2))
  | st, _ => (st, none)

def runTrace {σ : Type} (step : σ → Act → σ × Option CallOut) : σ → List Act → List (Option CallOut)
  | _, [] => []
  | s, a :: as => (step s a).2 :: runTrace step (step s a).1 as

/-- invariant tying the monitor cell to the driver state: idle ⇒ 0, a call suspended ⇒ 1 -/
def Coherent {b : MBody} (m : MonId) (d : DSt b) : Prop :=
  match d.2 with
  | none => d.1.env m = 0
  | some _ => d.1.env m = 1

theorem pendOf_finish_some (op : Op) (o : CallOut) (op' : Op) (h : pendOf op (op.finish o) = some op') :
    ∃ y, o = .pending y := by
  cases ho : op.finish o with
  | pending y => exact ⟨y, finish_pending op o y ho⟩
  | returned v => simp [ho, pendOf] at h
  | raised e => simp [ho, pendOf] at h

theorem present_env (b : MBody) (m : MonId) (first : Bool) (x : CSt b.σ × IOut × Env) :
    (present b m first x).1.env m = match (present b m first x).2 with
      | .pending _ => 1
      | _ => 0 := by
  obtain ⟨st, o, env⟩ := x
  cases o <;> (try rename_i e; cases e) <;> simp [present]

/-- one step: the real monitor and the specification agree, and coherence is kept -/
theorem step_agree (b : MBody) (m : MonId) (d : DSt b) (a : Act)
    (ha : a ≠ .resume (.throw .genExit)) (hc : Coherent m d) :
    monStep b m d a = idealStep b m d a ∧ Coherent m (monStep b m d a).1 := by
  obtain ⟨⟨st, env⟩, p⟩ := d
  cases p with
  | none =>
    cases a with
    | resume r => exact ⟨rfl, hc⟩
    | call op =>
      have h0 : env m = 0 := hc
      have hmain : ∀ (_ : ¬ (op = .aclose ∧ SCoro.isDone st = true)),
          callStart m op (⟨st, env⟩ : Sys (ofM b)) =
            ((present b m true (idealResume b m st op.first env)).1,
             op.finish (present b m true (idealResume b m st op.first env)).2) := by
        intro _
        have := asendStart_ideal b m op.first st env h0
        cases op <;> cases hd : SCoro.isDone st <;> simp_all [callStart]
      by_cases hcl : op = .aclose ∧ SCoro.isDone st = true
      · obtain ⟨rfl, hd⟩ := hcl
        simp [monStep, idealStep, callStart, hd, pendOf, Coherent, h0]
      · have hm := hmain hcl
        have hideal : idealStep b m (⟨st, env⟩, none) (.call op) =
            (((present b m true (idealResume b m st op.first env)).1,
              pendOf op (op.finish (present b m true (idealResume b m st op.first env)).2)),
             some (op.finish (present b m true (idealResume b m st op.first env)).2)) := by
          cases op <;> cases hd : SCoro.isDone st <;> simp_all [idealStep]
        refine ⟨?_, ?_⟩
        · simp only [monStep, hm, hideal]
        · simp only [monStep, hm, Coherent]
          have pe := present_env b m true (idealResume b m st op.first env)
          cases hp : pendOf op (op.finish (present b m true (idealResume b m st op.first env)).2) with
          | some op' =>
            obtain ⟨y, hy⟩ := pendOf_finish_some _ _ _ hp
            simp [hy] at pe; simpa using pe
          | none =>
            cases ho : (present b m true (idealResume b m st op.first env)).2 with
            | pending y => cases op <;> simp [ho, Op.finish, pendOf] at hp
            | returned v => simp [ho] at pe; simpa using pe
            | raised e => simp [ho] at pe; simpa using pe
  | some op =>
    cases a with
    | call op' => exact ⟨rfl, hc⟩
    | resume r =>
      have h1 : env m = 1 := hc
      have hr : r ≠ .throw .genExit := fun h => ha (by rw [h])
      have henv : env = env.set m 1 := (Env.set_eq_self env m 1 h1).symm
      have hm : asendResume m r (⟨st, env⟩ : Sys (ofM b)) = present b m false (idealResume b m st r env) := by
        have := asendResume_ideal b m r hr st env
        rw [← henv] at this
        exact this
      refine ⟨?_, ?_⟩
      · simp [monStep, idealStep, callResume, hm]
      · simp only [monStep, callResume, hm, Coherent]
        have pe := present_env b m false (idealResume b m st r env)
        cases hp : pendOf op (op.finish (present b m false (idealResume b m st r env)).2) with
        | some op' =>
          obtain ⟨y, hy⟩ := pendOf_finish_some _ _ _ hp
          simp [hy] at pe; simpa using pe
        | none =>
          cases ho : (present b m false (idealResume b m st r env)).2 with
          | pending y => cases op <;> simp [ho, Op.finish, pendOf] at hp
          | returned v => simp [ho] at pe; simpa using pe
          | raised e => simp [ho] at pe; simpa using pe

/-- **oob_exactly_once_in_order** (+ both directions).  For every leaf body, every monitor, every
    initial coroutine state and cell assignment with the monitor idle, and every sequence of
    driver actions over all five entry points and send/throw resumptions of a suspended call
    (closing a suspended call is `idle_after_close`/`oob_while_closing`): what the driver observes
    from the real monitor is, action by action, the ideal channel.  In the ideal channel
    (`idealStep`) an activation ends in `OOBData d` exactly when the body executed `await m.oob(d)`
    (`IOut.oob d`), in `pending y` exactly when it really suspended on `y` (`IOut.real y`), and
    the body is resumed with precisely the value / exception of the driver's next call
    (`Op.first`), so each `oob` surfaces exactly once, in program order, never confused with a real
    suspension, and the reply reaches that `oob`. -/
theorem oob_exactly_once_in_order (b : MBody) (m : MonId) (acts : List Act)
    (hacts : ∀ a ∈ acts, a ≠ .resume (.throw .genExit)) (d : DSt b) (hc : Coherent m d) :
    runTrace (monStep b m) d acts = runTrace (idealStep b m) d acts := by
  induction acts generalizing d with
  | nil => rfl
  | cons a as ih =>
    have ha := hacts a (List.mem_cons_self ..)
    obtain ⟨heq, hco⟩ := step_agree b m d a ha hc
    simp only [runTrace]
    rw [← heq]
    congr 1
    exact ih (fun x hx => hacts x (List.mem_cons_of_mem _ hx)) _ hco

/-- **oob_reply**: with the body suspended in `oob` (or anywhere else) and the monitor idle,
    `aawait v` resumes it with exactly `send v` and `athrow e` with exactly `throw e`; the body's
    own next step, read ideally, is what the driver gets. -/
theorem oob_reply (b : MBody) (m : MonId) (s : b.σ) (env : Env) (h0 : env m = 0) (v : Val) (e : Exc) :
    callStart m (.aawait v) (⟨.susp s, env⟩ : Sys (ofM b))
        = present b m true (idealAfter (resolveI m (b.resume s (.send v)) env))
    ∧ callStart m (.athrow e) (⟨.susp s, env⟩ : Sys (ofM b))
        = present b m true (idealAfter (resolveI m (b.resume s (.throw e)) env)) := by
  have h1 := asendStart_ideal b m (.send v) (.susp s) env h0
  have h2 := asendStart_ideal b m (.throw e) (.susp s) env h0
  have hf1 : ∀ o, Op.finish (.aawait v) o = o := by intro o; cases o <;> rfl
  have hf2 : ∀ o, Op.finish (.athrow e) o = o := by intro o; cases o <;> rfl
  constructor
  · have e1 : callStart m (.aawait v) (⟨.susp s, env⟩ : Sys (ofM b))
        = asendStart m (.send v) (⟨.susp s, env⟩ : Sys (ofM b)) := by
      simp only [callStart, Op.first, hf1] <;> rfl
    exact e1.trans (h1.trans (by simp only [idealResume]))
  · have e2 : callStart m (.athrow e) (⟨.susp s, env⟩ : Sys (ofM b))
        = asendStart m (.throw e) (⟨.susp s, env⟩ : Sys (ofM b)) := by
      simp only [callStart, Op.first, hf2] <;> rfl
    exact e2.trans (h2.trans (by simp only [idealResume]))

/-! ## statements for every coroutine (`SBody`, nested or not) -/

/-- **result_delivered**: when the driven coroutine returns `v` / raises `e` in the activation
    started by an entry point, `aawait`/`athrow`/`try_await` deliver it, `start` reports the
    missing oob, `aclose` returns None (also for GeneratorExit). -/
theorem result_delivered {c : SBody} (m : MonId) (op : Op) (sys : Sys c) (h0 : sys.env m = 0)
    (cs : CSt c.σ) (v : Val) (env' : Env)
    (hr : SCoro.resume c sys.coro op.first (sys.env.set m 1) = (cs, .ret v, env')) :
    asendStart m op.first sys = (⟨cs, env'.set m 0⟩, .returned v) := by
  simp [asendStart, h0, hr, relayAfter]

theorem exception_delivered {c : SBody} (m : MonId) (first : Resume) (sys : Sys c) (h0 : sys.env m = 0)
    (cs : CSt c.σ) (e : Exc) (env' : Env) (he : ∀ d, e ≠ .oobData d) (hs : ∀ v, e ≠ .stopIter v)
    (hr : SCoro.resume c sys.coro first (sys.env.set m 1) = (cs, .raise e, env')) :
    asendStart m first sys = (⟨cs, env'.set m 0⟩, .raised e) := by
  cases e <;> simp_all [asendStart, relayAfter]

theorem asendResume_eq_relay {c : SBody} (m : MonId) (r : Resume) (hr : r ≠ .throw .genExit) (sys : Sys c) :
    asendResume m r sys = relayAfter m (SCoro.resume c sys.coro r sys.env) := by
  cases r with
  | send v => simp [asendResume, SCoro.resume]
  | throw e => cases e <;> simp_all [asendResume, SCoro.resume]

theorem result_delivered_resumed {c : SBody} (m : MonId) (r : Resume) (hr : r ≠ .throw .genExit)
    (sys : Sys c) (cs : CSt c.σ) (env' : Env) (v : Val)
    (h : SCoro.resume c sys.coro r sys.env = (cs, .ret v, env')) :
    asendResume m r sys = (⟨cs, env'.set m 0⟩, .returned v) := by
  rw [asendResume_eq_relay m r hr, h]; simp [relayAfter]

theorem exception_delivered_resumed {c : SBody} (m : MonId) (r : Resume) (hr : r ≠ .throw .genExit)
    (sys : Sys c) (cs : CSt c.σ) (env' : Env) (e : Exc) (hs : ∀ v, e ≠ .stopIter v)
    (h : SCoro.resume c sys.coro r sys.env = (cs, .raise e, env')) :
    asendResume m r sys = (⟨cs, env'.set m 0⟩, .raised e) := by
  rw [asendResume_eq_relay m r hr, h]; cases e <;> simp_all [relayAfter]

/-- how each entry point reports the three possible completions of its `_asend` -/
theorem entry_points_consistent (v s d : Val) (e : Exc) :
    Op.finish (.aawait v) (.returned d) = .returned d ∧
    Op.finish (.tryAwait v s) (.returned d) = .returned d ∧
    Op.finish (.tryAwait v s) (.raised (.oobData d)) = .returned s ∧
    Op.finish .start (.raised (.oobData d)) = .returned d ∧
    Op.finish .start (.returned d) = .raised (.runtime rtNoOob) ∧
    Op.finish .aclose (.returned d) = .returned 0 ∧
    Op.finish .aclose (.raised .genExit) = .returned 0 ∧
    Op.finish .aclose (.raised (.oobData d)) = .raised (.runtime rtMonIgnoredGE) ∧
    Op.finish (.athrow e) (.raised (.oobData d)) = .raised (.oobData d) := by
  simp [Op.finish]

/-- **idle_after_every_call**: whenever any entry point (`aawait/athrow/aclose/start/try_await`,
    directly or through a BoundMonitor) returns or raises — on its first activation, after any
    number of resumptions, or when the suspended call is closed — the monitor is idle. -/
theorem idle_after_every_call {c : SBody} (m : MonId) (op : Op) (sys : Sys c) (h0 : sys.env m = 0) :
    (∀ z, (callStart m op sys).2 ≠ .pending z) → (callStart m op sys).1.env m = 0 := by
  by_cases hcl : op = .aclose ∧ SCoro.isDone sys.coro = true
  · obtain ⟨rfl, hd⟩ := hcl
    simp [callStart, hd, h0]
  · have hcs : callStart m op sys = ((asendStart m op.first sys).1, op.finish (asendStart m op.first sys).2) := by
      cases op <;> cases hd : SCoro.isDone sys.coro <;> simp_all [callStart]
    rw [hcs]
    intro h
    apply asendStart_idle m op.first sys h0
    intro z hz
    exact h z (by simp [hz, Op.finish])

theorem idle_after_resume {c : SBody} (m : MonId) (op : Op) (r : Resume) (sys : Sys c) :
    (∀ z, (callResume m op r sys).2 ≠ .pending z) → (callResume m op r sys).1.env m = 0 := by
  intro h
  apply asendResume_idle m r sys
  intro z hz
  exact h z (by simp [callResume, hz, Op.finish])

theorem idle_after_close {c : SBody} (m : MonId) (op : Op) (sys : Sys c) :
    (callClose m op sys).1.env m = 0 := by
  have h := asendResume_idle m (.throw .genExit) sys (asendResume_genExit_not_pending m sys)
  unfold callClose
  split <;> simp_all [callResume]

theorem idle_after_bound {c : SBody} (m : MonId) (op : Op) (r : Resume) (sys : Sys c) :
    ((∀ z, (boundResume m op r sys).2 ≠ .pending z) → (boundResume m op r sys).1.env m = 0)
    ∧ (boundClose m op sys).1.env m = 0 := by
  have hge := asendResume_idle m (.throw .genExit) sys (asendResume_genExit_not_pending m sys)
  constructor
  · unfold boundResume
    split
    · split <;> simp_all [callResume]
    · exact idle_after_resume m op r sys
  · unfold boundClose boundResume
    simp only
    split <;> split at * <;> simp_all [callResume]

/-- **reentry_refused**: while the monitor is not idle (a call is suspended: 1, or an oob value
    is in flight: -1) every entry point is refused with RuntimeError — only `aclose` of an already
    finished coroutine still returns None — and the monitor cell, the coroutine, every other cell
    and hence the call in progress are untouched. -/
theorem reentry_refused {c : SBody} (m : MonId) (op : Op) (sys : Sys c) (h : sys.env m ≠ 0) :
    (callStart m op sys).1 = sys ∧
    ((callStart m op sys).2 = .raised (.runtime rtReenter) ∨
     (op = .aclose ∧ SCoro.isDone sys.coro = true ∧ (callStart m op sys).2 = .returned 0)) := by
  cases op <;> cases hd : SCoro.isDone sys.coro <;> simp [callStart, asendStart, h, hd, Op.finish]

/-- `Monitor.oob` on a monitor that is not active (state 0) raises RuntimeError inside the body and
    touches nothing: the body just carries on with its `refused` continuation.  A left-over -1 counts
    as active (the monitor is driving the coroutine). -/
theorem oob_refused_when_inactive {σ : Type} (m : MonId) (d : Val) (s : σ) (refused : Unit → Step σ)
    (env : Env) (h : env m = 0) :
    resolve (.oob m d s refused) env = resolve (refused ()) env := by
  simp [resolve, h]

theorem oob_accepted_when_active {σ : Type} (m : MonId) (d : Val) (s : σ) (refused : Unit → Step σ)
    (env : Env) (h : env m ≠ 0) :
    resolve (.oob m d s refused) env = .yield (.req m d) s (env.set m (-1)) := by
  simp [resolve, h]

/-- **oob_while_closing**: (a) a coroutine that answers `aclose()` with an `oob` gets
    RuntimeError("Monitor coroutine ignored GeneratorExit"); (b) a coroutine that yields anything
    (an `oob` included) while a suspended call is being closed gets
    RuntimeError("coroutine ignored GeneratorExit").  Monitor idle afterwards in both cases. -/
theorem oob_while_closing (b : MBody) (m : MonId) (s : b.σ) (env : Env) (h0 : env m = 0)
    (d : Val) (s' : b.σ) (env' : Env)
    (hb : resolveI m (b.resume s (.throw .genExit)) env = .oob d s' env') :
    callStart m .aclose (⟨.susp s, env⟩ : Sys (ofM b))
      = (⟨.susp s', env'.set m 0⟩, .raised (.runtime rtMonIgnoredGE)) := by
  have h := asendStart_ideal b m (.throw .genExit) (.susp s) env h0
  have hcs : callStart m .aclose (⟨.susp s, env⟩ : Sys (ofM b)) =
      ((asendStart m (.throw .genExit) (⟨.susp s, env⟩ : Sys (ofM b))).1,
       Op.finish .aclose (asendStart m (.throw .genExit) (⟨.susp s, env⟩ : Sys (ofM b))).2) := by
    simp [callStart, SCoro.isDone, Op.first]
  have h' := congrArg (fun x : Sys (ofM b) × CallOut => (x.1, Op.finish .aclose x.2)) h
  exact hcs.trans (h'.trans (by simp [idealResume, hb, idealAfter, present, Op.finish] <;> rfl))

theorem yield_while_closing {c : SBody} (m : MonId) (s : c.σ) (env : Env) (st' : CSt c.σ) (y : YV)
    (env' : Env) (hy : SCoro.after (c.resume s (.throw .genExit) env) = (st', .yield y, env')) :
    asendResume m (.throw .genExit) (⟨.susp s, env⟩ : Sys c)
      = (⟨st', env'.set m 0⟩, .raised (.runtime Proto.rtIgnoredGenExit)) := by
  simp [asendResume, SCoro.close, hy]

/-! ## nested monitors -/

/-- **nested_monitors (inner view)**.  A parent `p` waits in `await mB.<op>(child)` (so the
    child — any leaf body — is suspended and `mB`'s cell is 1) and is re-activated from outside with
    `r`.  Then the child is resumed with exactly `r`, and what the *parent* gets back is `mB`'s ideal
    channel: `OOBData d` iff the child executed `mB.oob(d)`, its result/exception when it finishes;
    whatever else the child yields — a real suspension, or an `oob` addressed to an outer monitor
    `mA`, which by `resolveI` is `.real d` with `mA`'s cell set to -1 — passes through `mB`'s relay
    unchanged (same value, same cells) to the outside, the parent still waiting. -/
theorem nested_monitors_inner_view (p : PBody) (b : MBody) (mB : MonId) (op : Op) (s : p.σ)
    (k : Option Resume → Resume → PStep p.σ) (cc : CSt b.σ) (r : Resume) (hr : r ≠ .throw .genExit)
    (env : Env) (h1 : env mB = 1) :
    (nest p (ofM b)).resume (.inSub mB op s k cc) r env =
      match present b mB false (idealResume b mB cc r env) with
      | (⟨cc', env'⟩, o) =>
        match op.finish o with
        | .pending y => .yield y (.inSub mB op s k cc') env'
        | .returned v => nestRun p (ofM b) (k (some r) (.send v)) cc' env'
        | .raised e => nestRun p (ofM b) (k (some r) (.throw e)) cc' env' := by
  have henv : env = env.set mB 1 := (Env.set_eq_self env mB 1 h1).symm
  have hm : asendResume mB r (⟨cc, env⟩ : Sys (ofM b)) = present b mB false (idealResume b mB cc r env) := by
    have := asendResume_ideal b mB r hr cc env
    rw [← henv] at this
    exact this
  simp only [nest, callResume, hm]
  rcases present b mB false (idealResume b mB cc r env) with ⟨⟨cc', env'⟩, o⟩
  cases ho : op.finish o <;> simp

/-- **nested_monitors (outer view)**, for every coroutine (a `nest` to any depth in particular): what the
    relay of `mA` does with what comes out of the activation it started.  A request addressed to `mA`
    (with its cell at -1, which `nested_monitors` shows always accompanies it) is `OOBData d`; anything
    else — a real suspension, a request addressed to another monitor — stays a suspension, and a
    left-over -1 is reset on the way. -/
theorem nested_monitors_outer_view {c : SBody} (mA : MonId) (first : Resume) (sys : Sys c)
    (h0 : sys.env mA = 0) (cs : CSt c.σ) (y : YV) (env' : Env)
    (hr : SCoro.resume c sys.coro first (sys.env.set mA 1) = (cs, .yield y, env')) :
    (∀ d, y = .req mA d → env' mA = -1 →
        asendStart mA first sys = (⟨cs, env'.set mA 0⟩, .raised (.oobData d))) ∧
    ((∀ d, y ≠ .req mA d) →
        asendStart mA first sys = (⟨cs, if env' mA = -1 then env'.set mA 1 else env'⟩, .pending y)) := by
  constructor
  · intro d hy hneg
    subst hy
    simp [asendStart, h0, hr, relayAfter, relayTop, hneg]
  · intro hy
    by_cases hneg : env' mA = -1
    · cases y with
      | plain v => simp [asendStart, h0, hr, relayAfter, relayTop, hneg]
      | req m' d =>
        have hm : m' ≠ mA := fun h => hy d (by rw [h])
        simp [asendStart, h0, hr, relayAfter, relayTop, hneg, hm]
    · simp [asendStart, h0, hr, relayAfter, relayTop, hneg]

/-! ## nested monitors, end to end, any depth -/

/-- parents (outermost first) stacked over a leaf body: `tower [p₁, p₂] b = nest p₁ (nest p₂ (ofM b))` -/
def tower : List PBody → MBody → SBody
  | [], b => ofM b
  | p :: ps, b => nest p (tower ps b)

/-- every tower is tagged, for every monitor — no side condition -/
def tagTower (A : MonId) (b : MBody) : (ps : List PBody) → Tag A (tower ps b)
  | [] => tagLeaf A b
  | p :: ps => tagNest (tagTower A b ps) p

/-- **nested_monitors** (first activation of a call of `A`), for every coroutine with the tag property —
    by `tagTower` every tower of parents over a leaf, to any depth, each parent driving its child
    through any monitors with any of the entry points (`aclose` and `athrow(GeneratorExit)` included) and
    everybody calling `oob` on any monitor.  With `A` idle:
    * if the activation's *source* is `some d` (syntactically: it ended because a body below executed
      `await A.oob(d)`, `nestSrc`/`stepSrc`), what comes out is the request `req A d` and the driver of
      `A` gets `OOBData d`;
    * otherwise it gets exactly the coroutine's own outcome — a real suspension, or a request addressed
      to someone else, is `pending` (a -1 left over from an `oob` swallowed by a `close()` further down is
      reset), never OOBData;
    * afterwards `A`'s cell is 0 (completed) / 1 (suspended) and the state is reachable again, so the
      statement applies to the next call: each accepted `A.oob` that is not swallowed by a close surfaces
      exactly once, in program order, and nothing else ever does.
    Applied with `A := B` and `c :=` the sub-tower it is what a *parent* sees of the monitor `B` it drives
    its child through: each driver sees exactly its own data.
    No hypothesis on GeneratorExit remains (before the repair e5acd69: `stale_oob_after_close`). -/
theorem nested_monitors {c : SBody} {A : MonId} (T : Tag A c) (first : Resume) (cc : CSt c.σ) (env : Env)
    (hok : okC T cc) (h0 : env A = 0) :
    let x := SCoro.resume c cc first (env.set A 1)
    let res := asendStart A first (⟨cc, env⟩ : Sys c)
    (∀ d, coroSrc T cc first (env.set A 1) = some d →
        x.2.1 = .yield (.req A d) ∧ res = (⟨x.1, x.2.2.set A 0⟩, .raised (.oobData d))) ∧
    (coroSrc T cc first (env.set A 1) = none →
        res = match x.2.1 with
          | .yield y => (⟨x.1, if x.2.2 A = -1 then x.2.2.set A 1 else x.2.2⟩, .pending y)
          | .ret v => (⟨x.1, x.2.2.set A 0⟩, .returned v)
          | .raise (.oobData _) => (⟨x.1, x.2.2.set A 0⟩, .raised (.runtime rtRaisedOOB))
          | .raise (.stopIter v) => (⟨x.1, x.2.2.set A 0⟩, .returned v)
          | .raise e => (⟨x.1, x.2.2.set A 0⟩, .raised e)) ∧
    okC T res.1.coro ∧
    (match res.2 with
      | .pending _ => res.1.env A = 1
      | _ => res.1.env A = 0) := by
  intro x res
  have hp := coro_post T cc first (env.set A 1) hok (Or.inl (by simp))
  have hres : res = asendStart A first (⟨cc, env⟩ : Sys c) := rfl
  have hx : x = SCoro.resume c cc first (env.set A 1) := rfl
  rw [← hx] at hp
  obtain ⟨cs, o, env1⟩ := x
  dsimp only at hp
  obtain ⟨hok', hA, hrest⟩ := hp
  cases o with
  | yield y =>
    obtain ⟨hs1, hs2⟩ := hrest
    cases hsrc : coroSrc T cc first (env.set A 1) with
    | some d =>
      have hy : y = .req A d := (hs1 d).mpr hsrc
      subst hy
      have hneg : env1 A = -1 := hs2 d rfl
      have hr : res = (⟨cs, env1.set A 0⟩, .raised (.oobData d)) := by
        rw [hres]; simp [asendStart, h0, ← hx, relayAfter, relayTop, hneg]
      refine ⟨fun d' hd' => ?_, fun h => by simp at h, ?_, ?_⟩
      · cases hd'; exact ⟨rfl, hr⟩
      · rw [hr]; exact hok'
      · rw [hr]; simp
    | none =>
      have hny : ∀ d, y ≠ .req A d := fun d h => by
        have := (hs1 d).mp h; rw [hsrc] at this; simp at this
      have hr : res = (⟨cs, if env1 A = -1 then env1.set A 1 else env1⟩, .pending y) := by
        rw [hres]
        by_cases hneg : env1 A = -1
        · cases y with
          | plain v => simp [asendStart, h0, ← hx, relayAfter, relayTop, hneg]
          | req m' d =>
            have hm : m' ≠ A := fun h => hny d (by rw [h])
            simp [asendStart, h0, ← hx, relayAfter, relayTop, hneg, hm]
        · simp [asendStart, h0, ← hx, relayAfter, relayTop, hneg]
      refine ⟨fun d hd => by simp at hd, fun _ => hr, ?_, ?_⟩
      · rw [hr]; exact hok'
      · rw [hr]
        by_cases hneg : env1 A = -1
        · simp [hneg]
        · cases hA with
          | inl h => simp [hneg, h]
          | inr h => exact absurd h hneg
  | ret v =>
    have hr : res = (⟨cs, env1.set A 0⟩, .returned v) := by
      rw [hres]; simp [asendStart, h0, ← hx, relayAfter]
    refine ⟨fun d hd => ?_, fun _ => hr, ?_, ?_⟩
    · rw [hrest] at hd; exact absurd hd (by simp)
    · rw [hr]; exact hok'
    · rw [hr]; simp
  | raise e =>
    have hr : res = match e with
        | .oobData _ => (⟨cs, env1.set A 0⟩, .raised (.runtime rtRaisedOOB))
        | .stopIter v => (⟨cs, env1.set A 0⟩, .returned v)
        | e => (⟨cs, env1.set A 0⟩, .raised e) := by
      rw [hres]; cases e <;> simp [asendStart, h0, ← hx, relayAfter]
    refine ⟨fun d hd => ?_, fun _ => by rw [hr]; cases e <;> rfl, ?_, ?_⟩
    · rw [hrest] at hd; exact absurd hd (by simp)
    · rw [hr]; cases e <;> exact hok'
    · rw [hr]; cases e <;> simp

/-- what the relay reports when the coroutine's activation ends in an exception -/
def raisedOut {c : SBody} (A : MonId) (cs : CSt c.σ) (env1 : Env) : Exc → Sys c × CallOut
  | .stopIter v => (⟨cs, env1.set A 0⟩, .returned v)
  | e => (⟨cs, env1.set A 0⟩, .raised e)

/-- **nested_monitors**, resumption of a suspended call of `A` by the outer loop with a value or an
    exception other than GeneratorExit (with GeneratorExit the relay *closes* the coroutine: the outcome
    is never OOBData nor a suspension — `idle_after_close`, `yield_while_closing`). -/
theorem nested_monitors_resume {c : SBody} {A : MonId} (T : Tag A c) (r : Resume) (hr : Safe r)
    (cc : CSt c.σ) (env : Env) (hok : okC T cc) (h1 : env A = 1) :
    let x := SCoro.resume c cc r env
    let res := asendResume A r (⟨cc, env⟩ : Sys c)
    (∀ d, coroSrc T cc r env = some d →
        x.2.1 = .yield (.req A d) ∧ res = (⟨x.1, x.2.2.set A 0⟩, .raised (.oobData d))) ∧
    (coroSrc T cc r env = none →
        res = match x.2.1 with
          | .yield y => (⟨x.1, if x.2.2 A = -1 then x.2.2.set A 1 else x.2.2⟩, .pending y)
          | .ret v => (⟨x.1, x.2.2.set A 0⟩, .returned v)
          | .raise (.stopIter v) => (⟨x.1, x.2.2.set A 0⟩, .returned v)
          | .raise e => (⟨x.1, x.2.2.set A 0⟩, .raised e)) ∧
    okC T res.1.coro ∧
    (match res.2 with
      | .pending _ => res.1.env A = 1
      | _ => res.1.env A = 0) := by
  intro x res
  have hp := coro_post T cc r env hok (Or.inl h1)
  have hres : res = relayAfter A (SCoro.resume c cc r env) := asendResume_relay A r hr ⟨cc, env⟩
  have hx : x = SCoro.resume c cc r env := rfl
  rw [← hx] at hp hres
  obtain ⟨cs, o, env1⟩ := x
  dsimp only at hp
  obtain ⟨hok', hA, hrest⟩ := hp
  cases o with
  | yield y =>
    obtain ⟨hs1, hs2⟩ := hrest
    cases hsrc : coroSrc T cc r env with
    | some d =>
      have hy : y = .req A d := (hs1 d).mpr hsrc
      subst hy
      have hneg : env1 A = -1 := hs2 d rfl
      have hr' : res = (⟨cs, env1.set A 0⟩, .raised (.oobData d)) := by
        rw [hres]; simp [relayAfter, relayTop, hneg]
      refine ⟨fun d' hd' => ?_, fun h => by simp at h, ?_, ?_⟩
      · cases hd'; exact ⟨rfl, hr'⟩
      · rw [hr']; exact hok'
      · rw [hr']; simp
    | none =>
      have hny : ∀ d, y ≠ .req A d := fun d h => by
        have := (hs1 d).mp h; rw [hsrc] at this; simp at this
      have hr' : res = (⟨cs, if env1 A = -1 then env1.set A 1 else env1⟩, .pending y) := by
        rw [hres]
        by_cases hneg : env1 A = -1
        · cases y with
          | plain v => simp [relayAfter, relayTop, hneg]
          | req m' d =>
            have hm : m' ≠ A := fun h => hny d (by rw [h])
            simp [relayAfter, relayTop, hneg, hm]
        · simp [relayAfter, relayTop, hneg]
      refine ⟨fun d hd => by simp at hd, fun _ => hr', ?_, ?_⟩
      · rw [hr']; exact hok'
      · rw [hr']
        by_cases hneg : env1 A = -1
        · simp [hneg]
        · cases hA with
          | inl h => simp [hneg, h]
          | inr h => exact absurd h hneg
  | ret v =>
    have hr' : res = (⟨cs, env1.set A 0⟩, .returned v) := by rw [hres]; simp [relayAfter]
    refine ⟨fun d hd => ?_, fun _ => hr', ?_, ?_⟩
    · rw [hrest] at hd; exact absurd hd (by simp)
    · rw [hr']; exact hok'
    · rw [hr']; simp
  | raise e =>
    have hr' : res = raisedOut A cs env1 e := by rw [hres]; cases e <;> simp [relayAfter, raisedOut]
    refine ⟨fun d hd => ?_, fun _ => by rw [hr']; cases e <;> rfl, ?_, ?_⟩
    · rw [hrest] at hd; exact absurd hd (by simp)
    · rw [hr']; cases e <;> exact hok'
    · rw [hr']; cases e <;> simp [raisedOut]

/-- the theorem instantiated for towers of any depth -/
theorem nested_monitors_tower (A : MonId) (b : MBody) (ps : List PBody) (first : Resume)
    (cc : CSt (tower ps b).σ) (env : Env) (hok : okC (tagTower A b ps) cc) (h0 : env A = 0) (d : Val)
    (hd : coroSrc (tagTower A b ps) cc first (env.set A 1) = some d) :
    (asendStart A first (⟨cc, env⟩ : Sys (tower ps b))).2 = .raised (.oobData d) := by
  have := (nested_monitors (tagTower A b ps) first cc env hok h0).1 d hd
  rw [this.2]

/-! ## non-vacuity -/

/-- a leaf body: `x = await m0.oob(5); await tok(100); y = await m0.oob(6); return x + y` -/
def demo : MBody where
  σ := Nat × Val
  init := (0, 0)
  resume s r :=
    match s.1, r with
    | 0, _ => .oob 0 5 (1, 0) (fun _ => .raise (.runtime rtNotActive) (9, 0))
    | 1, .send v => .yield 100 (2, v)
    | 2, .send _ => .oob 0 6 (3, s.2) (fun _ => .raise (.runtime rtNotActive) (9, 0))
    | 3, .send v => .ret (s.2 + v) (9, 0)
    | _, .send _ => .ret 0 (9, 0)
    | _, .throw e => .raise e (9, 0)

def demoActs : List Act :=
  [.call (.aawait 0), .call (.aawait 7), .resume (.send 0), .call (.aawait 8)]

def showOuts (l : List (Option CallOut)) : List CallOut := l.filterMap id

example : showOuts (runTrace (monStep demo 0) (⟨.created demo.init, fun _ => 0⟩, none) demoActs)
    = [.raised (.oobData 5), .pending (.plain 100), .raised (.oobData 6), .returned 15] := by decide

example : Coherent (b := demo) 0 (⟨.created demo.init, fun _ => 0⟩, none) := rfl

example : ∀ a ∈ demoActs, a ≠ Act.resume (.throw .genExit) := by
  intro a ha
  simp [demoActs] at ha
  rcases ha with rfl | rfl | rfl | rfl <;> simp

/-- re-entry while the first call is suspended at the real yield: refused, nothing moves -/
example :
    let d1 := (monStep demo 0 (monStep demo 0 (⟨.created demo.init, fun _ => 0⟩, none) (.call (.aawait 0))).1
      (.call (.aawait 7))).1
    d1.1.env 0 = 1 ∧ (callStart 0 (.aawait 3) d1.1).2 = .raised (.runtime rtReenter) := by decide

/-! ### nested monitors: a concrete tower, and the scenario of the repaired defect -/

/-- innermost body, talking to the inner monitor 1 and the outer monitor 0:
    `await M1.oob(11); await M0.oob(22); await tok(100); await M1.oob(12); return 7`;
    when GeneratorExit reaches it while it waits in `M0.oob(22)` it answers with `M0.oob(99)`. -/
def kid : MBody where
  σ := Nat
  init := 0
  resume s r :=
    match s, r with
    | 0, .send _ => .oob 1 11 1 (fun _ => .raise (.runtime rtNotActive) 9)
    | 1, .send _ => .oob 0 22 2 (fun _ => .raise (.runtime rtNotActive) 9)
    | 2, .throw .genExit => .oob 0 99 5 (fun _ => .raise (.runtime rtNotActive) 9)
    | 2, .send _ => .yield 100 3
    | 3, .send _ => .oob 1 12 4 (fun _ => .raise (.runtime rtNotActive) 9)
    | 4, .send _ => .ret 7 9
    | _, .throw e => .raise e 9
    | _, .send _ => .ret 0 9

/-- the parent drives `kid` through monitor 1: `start`, then `aawait` in a loop; child data `d` is passed
    on to its own driver as `M0.oob(d + 1000)`; after a RuntimeError it really suspends on token 150
    and then calls `M0.oob(77)`. -/
def dadLoop : Option Resume → Resume → PStep Nat
  | _, .send v => .ret v 9
  | _, .throw (.oobData d) => .oob 0 (d + 1000) 3 (fun _ => .raise (.runtime rtNotActive) 9)
  | _, .throw (.runtime _) => .yield 150 4
  | _, .throw e => .raise e 9

def dad : PBody where
  σ := Nat
  init := 0
  resume s r :=
    match s, r with
    | 0, .send _ => .sub 1 .start 1 (fun _ res =>
        match res with
        | .send _ => .sub 1 (.aawait 0) 2 dadLoop
        | .throw e => .raise e 9)
    | 3, .send _ => .sub 1 (.aawait 0) 2 dadLoop
    | 4, .send _ => .oob 0 77 5 (fun _ => .raise (.runtime rtNotActive) 9)
    | 5, .send v => .ret v 9
    | _, .throw e => .raise e 9
    | _, .send _ => .ret 0 9

abbrev duo : SBody := tower [dad] kid

def duoStep (d : Sys duo × Option Op) (a : Act) : (Sys duo × Option Op) × Option CallOut :=
  match d, a with
  | (sys, none), .call op => let r := callStart 0 op sys; ((r.1, pendOf op r.2), some r.2)
  | (sys, some op), .resume r => let x := callResume 0 op r sys; ((x.1, pendOf op x.2), some x.2)
  | st, _ => (st, none)

/-- the driver of monitor 0 sees exactly the data addressed to it — the kid's 22 and the parent's
    relayed 1012 — in program order, the real suspension as a real suspension, and never the kid's
    data for monitor 1 (11, 12), which only the parent sees; monitor 0 idle after every completion -/
example :
    showOuts (runTrace duoStep (⟨.created duo.init, fun _ => 0⟩, none)
      [.call (.aawait 0), .call (.aawait 5), .resume (.send 0), .call (.aawait 0)])
    = [.raised (.oobData 22), .pending (.plain 100), .raised (.oobData 1012), .returned 7] := by decide

example : okC (tagTower 0 kid [dad]) (.created duo.init) := trivial

/-- The scenario of the finding `monitor:stale-oob-after-close`, on the model of the code as repaired:
    after the kid's `M0.oob(22)` was delivered the driver throws GeneratorExit in; monitor 1's relay
    closes the kid, whose answer `M0.oob(99)` is swallowed (RuntimeError for the parent, by design); the
    parent's real suspension on token 150 reaches the driver *as a suspension*, and its next
    `M0.oob(77)` is served. -/
theorem no_stale_oob_after_close :
    let s1 := (callStart 0 (.aawait 0) (⟨.created duo.init, fun _ => 0⟩ : Sys duo)).1
    let r2 := callStart 0 (.athrow .genExit) s1
    r2.2 = .pending (.plain 150) ∧ r2.1.env 0 = 1 ∧
    (callResume 0 (.athrow .genExit) (.send 0) r2.1).2 = .raised (.oobData 77) := by decide

end Asynkit.C07

/-! ## the finding, on the model of the relay BEFORE the repair (frozen copy `Asynkit.MonitorOld`) -/
namespace Asynkit.C07.Old
open Asynkit.Proto (Val Exc Resume)
open Asynkit.MonitorOld

def kid : MBody where
  σ := Nat
  init := 0
  resume s r :=
    match s, r with
    | 0, .send _ => .oob 1 11 1 (fun _ => .raise (.runtime rtNotActive) 9)
    | 1, .send _ => .oob 0 22 2 (fun _ => .raise (.runtime rtNotActive) 9)
    | 2, .throw .genExit => .oob 0 99 5 (fun _ => .raise (.runtime rtNotActive) 9)
    | 2, .send _ => .yield 100 3
    | _, .throw e => .raise e 9
    | _, .send _ => .ret 0 9

def dadLoop : Option Resume → Resume → PStep Nat
  | _, .send v => .ret v 9
  | _, .throw (.oobData d) => .oob 0 (d + 1000) 3 (fun _ => .raise (.runtime rtNotActive) 9)
  | _, .throw (.runtime _) => .yield 150 4
  | _, .throw e => .raise e 9

def dad : PBody where
  σ := Nat
  init := 0
  resume s r :=
    match s, r with
    | 0, .send _ => .sub 1 .start 1 (fun _ res =>
        match res with
        | .send _ => .sub 1 (.aawait 0) 2 dadLoop
        | .throw e => .raise e 9)
    | _, .throw e => .raise e 9
    | _, .send _ => .ret 0 9

abbrev duo : SBody := nest dad (ofM kid)

end Asynkit.C07.Old

namespace Asynkit.C07
open Asynkit.Proto (Val Exc Resume)

/-- **The finding** (`monitor:stale-oob-after-close`, repaired in /repo by e5acd69), `decide`d on the
    frozen model of the OLD relay: the swallowed `M0.oob(99)` leaves monitor 0's cell at -1, and the
    parent's real suspension on token 150 is reported to the driver as `OOBData 150`. -/
theorem stale_oob_after_close :
    let s1 := (MonitorOld.callStart 0 (.aawait 0) (⟨.created Old.duo.init, fun _ => 0⟩ : MonitorOld.Sys Old.duo)).1
    (MonitorOld.callStart 0 (.athrow .genExit) s1).2 = .raised (.oobData 150) ∧
    (MonitorOld.callStart 0 .aclose s1).2 = .raised (.runtime MonitorOld.rtMonIgnoredGE) := by decide

end Asynkit.C07
