/-
C11 — priority inheritance bounds priority inversion.

`PrioGraph.effT / effL` transcribe PriorityTask.effective_priority / PriorityLock.effective_priority
(mutual recursion, bounded by a fuel parameter in the model).  Acyclicity of the wait-for graph is
the explicit hypothesis `Ranked g` (locks taken in a fixed order give a rank, see `chain3` below);
on a cyclic graph the Python recursion does not terminate, so that case is outside the code's
domain.  The theorems hold for every graph, every fuel at least the rank (the driver uses
|tasks| + |locks| + 1) - i.e. for wait-for forests of any shape and chains of any length.
-/
import Asynkit.Lemmas.C11
import Asynkit.Lemmas.C12
import Asynkit.Lemmas.C11Inherit3

namespace Asynkit.C11
open Asynkit.PrioGraph Asynkit.Lock

/-- On an acyclic graph the bounded recursion is exact: any two fuels above the rank agree. -/
theorem eff_fuel_independent {g : Graph} (r : Ranked g) {t f1 f2 : Nat}
    (h1 : r.rT t ≤ f1) (h2 : r.rT t ≤ f2) : effT g f1 t = effT g f2 t := effT_fuel r h1 h2

/-- **closed form**: `effective_priority()` of `t` is the minimum of the own priorities of all
    tasks that transitively wait on locks held by `t`, `t` included: it is a lower bound of all of
    them and equals one of them. -/
theorem eff_closed_form {g : Graph} (r : Ranked g) {t f : Nat} (hf : r.rT t ≤ f) :
    (∀ u, Reaches g u t → effT g f t ≤ g.own u) ∧ (∃ u, Reaches g u t ∧ effT g f t = g.own u) := by
  refine ⟨fun u hu => ?_, effT_attained r f t hf⟩
  have h1 := effT_reaches_le r hu hf
  have h2 := effT_le_own g f u
  grind

/-- the holder of a lock - and transitively the holder of any lock that holder waits for, along
    chains of any length - is at least as urgent as the waiter -/
theorem holder_at_least_as_urgent {g : Graph} (r : Ranked g) {w t f : Nat} (h : Reaches g w t)
    (hf : r.rT t ≤ f) : effT g f t ≤ effT g f w := effT_reaches_le r h hf

/-- removing a waiter from a lock's queue (it got the lock, or gave up) -/
def removeWaiter (g : Graph) (l w : Nat) : Graph :=
  { g with waiters := fun k => if k = l then (g.waiters k).filter (· != w) else g.waiters k }

/-- a task releases a lock -/
def releaseLock (g : Graph) (t l : Nat) : Graph :=
  { g with holding := fun u => if u = t then (g.holding u).filter (· != l) else g.holding u }

def rankedRemoveWaiter {g : Graph} (r : Ranked g) (l w : Nat) : Ranked (removeWaiter g l w) where
  rT := r.rT
  rL := r.rL
  hold := r.hold
  wait := by
    intro k v hv
    simp only [C11.removeWaiter] at hv
    by_cases c : k = l
    · simp only [c, if_true] at hv; rw [c]; exact r.wait l v (List.mem_filter.mp hv).1
    · simp only [c, if_false] at hv; exact r.wait k v hv

def rankedReleaseLock {g : Graph} (r : Ranked g) (t l : Nat) : Ranked (releaseLock g t l) where
  rT := r.rT
  rL := r.rL
  wait := r.wait
  hold := by
    intro u k hk
    simp only [C11.releaseLock] at hk
    by_cases c : u = t
    · simp only [c, if_true] at hk; rw [c]; exact r.hold t k (List.mem_filter.mp hk).1
    · simp only [c, if_false] at hk; exact r.hold u k hk

/-- **falls back**: nothing is cached - after a waiter stops waiting, or the holder releases, the
    effective priority is the closed form of the smaller graph (so an inherited priority whose
    donor is gone is gone too). -/
theorem eff_falls_back {g : Graph} (r : Ranked g) (t f : Nat) (hf : r.rT t ≤ f) :
    (∀ l w, (∀ u, Reaches (removeWaiter g l w) u t → effT (removeWaiter g l w) f t ≤ g.own u) ∧
      ∃ u, Reaches (removeWaiter g l w) u t ∧ effT (removeWaiter g l w) f t = g.own u) ∧
    (∀ h l, (∀ u, Reaches (releaseLock g h l) u t → effT (releaseLock g h l) f t ≤ g.own u) ∧
      ∃ u, Reaches (releaseLock g h l) u t ∧ effT (releaseLock g h l) f t = g.own u) :=
  ⟨fun l w => eff_closed_form (rankedRemoveWaiter r l w) hf,
   fun h l => eff_closed_form (rankedReleaseLock r h l) hf⟩

/-- a task that holds nothing, or whose locks nobody waits for, runs at its own priority -/
theorem eff_own_when_unblocking_nobody (g : Graph) (f t : Nat)
    (h : ∀ l ∈ g.holding t, g.waiters l = []) : effT g (f + 1) t = g.own t := by
  rw [effT_succ]
  have : (g.holding t).filterMap (effL g f) = [] := by
    apply List.filterMap_eq_nil_iff.mpr
    intro l hl
    cases f with
    | zero => exact effL_zero g l
    | succ a => rw [effL_succ, h l hl]; rfl
  rw [this]; rfl

/-!
### priority loop: the inherited priority takes effect immediately

`ReachableNFK N` = states reachable from an initial state whose ready-queue keys are sound, by events
without cancel / throw / interrupt in which every `acquire k` has `k < N` and `k` above every lock the
task already holds (C11's quantifier: PriorityTasks, fixed lock order, no faults).  `rkey` is the
class-1 key of the task's handle in the priority loop's ready queue (`none`: not queued, or queued
positionally). -/

/-- **inherit_immediate** (full).  On the priority loop, in every such state, for every task `w`
    and every task `h` that holds - directly or through a chain of lock-blocked holders of any
    length - a lock `w` waits for (`Reaches`), if `h` is in the ready queue with key `r` then
    `r ≤ eff w`: the runnable holder is queued at least as urgently as the waiter it blocks, from
    the very transition in which `w` started waiting.  With C10 (`popleft` returns the least
    (class, key, arrival) entry) no runnable task strictly less urgent than `w` is popped before
    `h`. -/
theorem inherit_immediate {N : Nat} {s : State} (hr : ReachableNFK N s) (hf : 2 * N + 3 ≤ s.fuel)
    (hpl : s.prioLoop = true) {w h : Nat} {r : Rat} (hreach : Reaches s.graph w h)
    (hk : (s.tasks h).rkey = some r) :
    r ≤ s.eff w ∧ r ≤ s.eff h ∧ ReadyStatus (s.tasks h).status := by
  have hI := reachable_inv hr.nf.reachable
  have hord := reachableNF_ord hr.nf
  have hrki := reachableNFK_rki hr (by omega) hpl h r hk
  have hle : s.eff h ≤ s.eff w :=
    holder_at_least_as_urgent (orderedRanked hI hord) hreach
      (by show rankT N s h ≤ s.fuel; have := rankT_le N s hord h; omega)
  refine ⟨?_, hrki.1, hrki.2⟩
  have := hrki.1
  grind

/-- the invariant behind it: every ready-queue key is at least as urgent as the task's current
    effective priority (it is set to it whenever a handle is queued and whenever a waiter arrives
    below the task; it may be *more* urgent after a fall-back, which is harmless) -/
theorem ready_key_inv {N : Nat} {s : State} (hr : ReachableNFK N s) (hf : 2 * N ≤ s.fuel)
    (hpl : s.prioLoop = true) : RKI s := reachableNFK_rki hr hf hpl

/-- old name, kept: the establishing step for the direct holder, for arbitrary states -/
theorem inherit_immediate_partial (s : State) (f o : Nat)
    (hp : (s.tasks o).prio.isSome = true) (hr : (s.tasks o).status.runnable = true)
    (hl : s.prioLoop = true) (hk : (s.tasks o).rkey.isSome = true) :
    ((propT s (f + 1) o).tasks o).rkey = some (s.eff o) ∧
    (∀ i, (propT s (f + 1) o).eff i = s.eff i) ∧
    (∀ (r : Ranked s.graph) (w : Nat), Reaches s.graph w o → r.rT o ≤ s.fuel → s.eff o ≤ s.eff w) := by
  refine ⟨?_, fun i => eff_keyEq (propT_keyEq s (f + 1) o) i, fun r w hw hf => ?_⟩
  · have h1 : (s.tasks o).prio.isNone = false := by
      cases h : (s.tasks o).prio <;> simp [h] at hp ⊢
    simp [propT, h1, hr, hl, hk]
  · exact holder_at_least_as_urgent r hw hf

/-! ### non-vacuity: a chain of length 3 with a fixed lock order is ranked

tasks 0,1,2,3; locks 0,1,2.  Task 3 holds lock 2; task 2 holds lock 1 and waits on 2; task 1 holds
lock 0 and waits on 1; task 0 (urgent, -5) waits on lock 0.  Everybody up the chain inherits -5. -/
def chain3 : Graph where
  own := fun t => if t = 0 then -5 else (t : Rat)
  holding := fun t => if t = 0 then [] else if t ≤ 3 then [t - 1] else []
  waiters := fun l => if l ≤ 2 then [l] else []

def chain3Ranked : Ranked chain3 where
  rT := fun t => 2 * t + 1
  rL := fun l => 2 * l + 2
  hold := by
    intro t l h
    simp only [chain3] at h
    by_cases c0 : t = 0
    · simp [c0] at h
    · by_cases c3 : t ≤ 3
      · simp [c0, c3] at h; omega
      · simp [c0, c3] at h
  wait := by
    intro l w h
    simp only [chain3] at h
    by_cases c : l ≤ 2
    · simp [c] at h; omega
    · simp [c] at h

example : effT chain3 8 3 = -5 ∧ effT chain3 8 2 = -5 ∧ effT chain3 8 1 = -5 ∧ effT chain3 20 3 = -5 := by
  decide

/-! non-vacuity of `inherit_immediate`: priority loop; T0(5) takes L1 and sleeps (ready key 5);
    T1(2) takes L0 and queues on L1 (T0 re-keyed to 2); T2(-5) queues on L0: the walk passes the
    lock-blocked T1 and re-keys the runnable T0 to -5. -/
def runOKK (N : Nat) : State → List Ev → Bool
  | _, [] => true
  | s, e :: es => e.enabled s && Ev.orderly N s e && runOKK N (s.apply e) es

theorem runOKK_reachable {N : Nat} : ∀ (es : List Ev) (s : State), ReachableNFK N s →
    runOKK N s es = true → ReachableNFK N (es.foldl State.apply s)
  | [], _, h, _ => h
  | e :: es, s, h, ok => by
    simp only [runOKK, Bool.and_eq_true] at ok
    exact runOKK_reachable es _ (ReachableNFK.step e h ok.1.1 ok.1.2) ok.2

def demoP : State :=
  { tasks := fun i => if i = 0 then { prio := some 5, status := .ready false, rkey := some 5 }
                      else if i = 1 then { prio := some 2, status := .ready false, rkey := some 2 }
                      else if i = 2 then { prio := some (-5), status := .ready false, rkey := some (-5) }
                      else {},
    fuel := 7, prioLoop := true }

def demoPEvents : List Ev :=
  [.resume 0, .acquire 1, .sleep, .resume 1, .acquire 0, .acquire 1, .resume 2, .acquire 0]

theorem demoP_initial : Initial demoP ∧ RKI demoP := by
  refine ⟨⟨rfl, fun _ => rfl, fun i => ?_⟩, fun i r hr => ?_⟩
  · simp only [demoP]
    by_cases h0 : i = 0
    · simp [h0]
    · by_cases h1 : i = 1
      · simp [h1]
      · by_cases h2 : i = 2
        · simp [h2]
        · simp [h0, h1, h2]
  · by_cases h0 : i = 0
    · subst h0
      have : r = 5 := by simpa [demoP] using hr.symm
      subst this; exact ⟨by decide, Or.inr ⟨false, rfl⟩⟩
    · by_cases h1 : i = 1
      · subst h1
        have : r = 2 := by simpa [demoP] using hr.symm
        subst this; exact ⟨by decide, Or.inr ⟨false, rfl⟩⟩
      · by_cases h2 : i = 2
        · subst h2
          have : r = -5 := by simpa [demoP] using hr.symm
          subst this; exact ⟨by decide, Or.inr ⟨false, rfl⟩⟩
        · simp [demoP, h0, h1, h2] at hr

example : ReachableNFK 2 (demoPEvents.foldl State.apply demoP) ∧
    ((demoPEvents.foldl State.apply demoP).tasks 0).rkey = some (-5) ∧
    (demoPEvents.foldl State.apply demoP).eff 2 = -5 ∧
    Reaches (demoPEvents.foldl State.apply demoP).graph 2 0 :=
  ⟨runOKK_reachable demoPEvents demoP (ReachableNFK.init demoP_initial.1 demoP_initial.2) (by decide),
   by decide, by decide,
   Reaches.step (u := 2) (v := 1) ⟨0, by decide, by decide⟩
     (Reaches.step (u := 1) (v := 0) ⟨1, by decide, by decide⟩ (Reaches.refl 0))⟩

end Asynkit.C11
