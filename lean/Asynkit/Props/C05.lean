/-
C05 — await_sync completes non-suspending code and never strands a coroutine.

`awaitSync I` is `await_sync(x)` transcribed (Model/Wrappers.lean); `I` is any awaitable object —
in particular `ofBody b` for an arbitrary `b : Body`, which already covers "however deeply it
awaits other non-suspending coroutines" (a `Body` is any resumable computation, call stack
included), and `nativeStack n I` for explicit nesting (`awaitSync_complete_nested`).
-/
import Asynkit.Lemmas.C02Proto

namespace Asynkit.C05
open Asynkit.Proto

variable {ι : Type}

/-- The coroutine completes without suspending ⇒ `await_sync` returns its value / raises its
    exception, exactly as the first (and only) step of a native `await` does, having resumed the
    coroutine in the same way (same inner state), with no cause attached and no loop involved
    (the model of `await_sync` has no kernel state at all). -/
theorem awaitSync_complete (I : Obj ι) (h : ∀ y, (I.send I.init 0).2 ≠ .yield y) :
    (awaitSync I).out = ((nativeAwaitO I).step (nativeAwaitO I).init (.send 0)).2 ∧
    I.view (awaitSync I).coro = (nativeAwaitO I).view ((nativeAwaitO I).step (nativeAwaitO I).init (.send 0)).1 ∧
    (awaitSync I).cause = none := by
  rcases hh : I.send I.init 0 with ⟨s', o⟩
  rw [hh] at h
  rcases o with y | v | e
  · exact absurd rfl (h y)
  · simp [awaitSync, CS.new, CS.done, CS.result, SR.ofOut, hh, Obj.step, nativeAwaitO, coroObj, envObj,
      nativeAwaitB, normStop, envAfter, EState.body]
  · cases e <;>
    simp [awaitSync, CS.new, CS.done, CS.result, SR.ofOut, hh, Obj.step, nativeAwaitO, coroObj, envObj,
      nativeAwaitB, normStop, envAfter, EState.body]

/-- explicit nesting: awaiting through `n` further levels of `await` changes nothing -/
theorem awaitSync_complete_nested (I : Obj ι) (n : Nat)
    (h : ∀ y, ((nativeStack n I).send (nativeStack n I).init 0).2 ≠ .yield y) :
    (awaitSync (nativeStack n I)).out
      = ((nativeStack (n + 1) I).step (nativeStack (n + 1) I).init (.send 0)).2 :=
  (awaitSync_complete (nativeStack n I) h).1

/-- The domain of C05: after the abort is thrown in at the suspension point the body does not
    suspend again. -/
def NoYieldAfterAbort (b : Body) (s : b.σ) : Prop := ∀ y, (b.resume s (.throw .syncAbort)).2 ≠ .yield y

/-- what CPython makes of an exception leaving a coroutine body (PEP 479) -/
def pep479 : Exc → Exc
  | .stopIter _ => .runtime rtRaisedStopIter
  | e => e

/-- The coroutine suspends ⇒ SynchronousError, chained to exactly the outcome of throwing
    SynchronousAbort at the suspension point (`none` = the body swallowed it and returned); the
    body was resumed with that abort and nothing else, and the coroutine object is finished. -/
theorem awaitSync_abort (b : Body) (s1 : b.σ) (y : Y)
    (h1 : b.resume b.init (.send 0) = (s1, .yield y)) (hd : NoYieldAfterAbort b s1) :
    (awaitSync (ofBody b)).out = .raise excSyncError ∧
    (awaitSync (ofBody b)).cause =
      (match (b.resume s1 (.throw .syncAbort)).2 with
       | .raise e => some (.raise (pep479 e))
       | _ => none) ∧
    (awaitSync (ofBody b)).coro = .done (b.resume s1 (.throw .syncAbort)).1 := by
  rcases h2 : b.resume s1 (.throw .syncAbort) with ⟨s2, o⟩
  have hd' := hd
  unfold NoYieldAfterAbort at hd'
  rw [h2] at hd'
  rcases o with y' | v | e
  · exact absurd rfl (hd' y')
  · simp [awaitSync, CS.new, CS.done, CS.throwSync, CS.closeSync, SR.ofOut, ofBody, coroObj, envObj,
      envAfter, normStop, h1, h2]
  · cases e <;>
    simp [awaitSync, CS.new, CS.done, CS.throwSync, CS.closeSync, SR.ofOut, ofBody, coroObj, envObj,
      envAfter, normStop, h1, h2, pep479]

/-- Outside the domain (abort swallowed, then a new suspension): `finally: start.close()` throws
    GeneratorExit in.  If the body then exits, the result is still SynchronousError (caused by
    "coroutine ignored SynchronousAbort") and the coroutine is finished … -/
theorem awaitSync_excluded_closed (b : Body) (s1 s2 : b.σ) (y y2 : Y)
    (h1 : b.resume b.init (.send 0) = (s1, .yield y))
    (h2 : b.resume s1 (.throw .syncAbort) = (s2, .yield y2))
    (h3 : (b.resume s2 (.throw .genExit)).2 = .raise .genExit) :
    (awaitSync (ofBody b)).out = .raise excSyncError ∧
    (awaitSync (ofBody b)).cause = some (.raise (.runtime rtIgnoredExc)) ∧
    (awaitSync (ofBody b)).coro = .done (b.resume s2 (.throw .genExit)).1 := by
  rcases h4 : b.resume s2 (.throw .genExit) with ⟨s3, o⟩
  rw [h4] at h3
  simp only at h3
  subst h3
  simp [awaitSync, CS.new, CS.done, CS.throwSync, CS.closeSync, SR.ofOut, ofBody, coroObj, envObj,
    envAfter, envClosed, normStop, h1, h2, h4]

/-- … and if it suspends once more, RuntimeError("coroutine ignored GeneratorExit") escapes from
    the `finally` and the coroutine is left suspended: the only way to strand a coroutine. -/
theorem awaitSync_excluded_stranded (b : Body) (s1 s2 s3 : b.σ) (y y2 y3 : Y)
    (h1 : b.resume b.init (.send 0) = (s1, .yield y))
    (h2 : b.resume s1 (.throw .syncAbort) = (s2, .yield y2))
    (h3 : b.resume s2 (.throw .genExit) = (s3, .yield y3)) :
    (awaitSync (ofBody b)).out = .raise (.runtime rtIgnoredGenExit) ∧
    (awaitSync (ofBody b)).coro = .susp s3 := by
  simp [awaitSync, CS.new, CS.done, CS.throwSync, CS.closeSync, SR.ofOut, ofBody, coroObj, envObj,
    envAfter, envClosed, normStop, h1, h2, h3]

/-- The object the coroutine was suspended on is left as it was before the coroutine awaited it:
    the only thing the await protocol ever changes on a Future is its handshake flag (set by
    `Future.__await__`), and that is clear again afterwards — so an ordinary Task can await it.
    (Result and callbacks are out of reach of every operation in the model.) -/
theorem awaitSync_leaves_awaited (b : Body) (s1 : b.σ) (k : Nat) (f : Flags)
    (h1 : b.resume b.init (.send 0) = (s1, .yield (.fut k))) (hd : NoYieldAfterAbort b s1)
    (hf : f k = false) :
    awaitSyncFlags (ofBody b) f = f := by
  rcases h2 : b.resume s1 (.throw .syncAbort) with ⟨s2, o⟩
  have hd' := hd
  unfold NoYieldAfterAbort at hd'
  rw [h2] at hd'
  have hset : (Flags.set (Flags.set f k true) k false) = f := by
    funext i; by_cases hi : i = k <;> simp [Flags.set, hi, hf]
  rcases o with y' | v | e
  · exact absurd rfl (hd' y')
  · simp [awaitSyncFlags, startFlag, yieldFlag, ofBody, coroObj, envObj, envAfter, h1, h2, hset]
  · cases e <;>
    simp [awaitSyncFlags, startFlag, yieldFlag, ofBody, coroObj, envObj, envAfter, h1, h2, hset]

/-- … and so is a Future the coroutine suspends on *during its clean-up*, in response to the abort
    (it is yielded into `CoroStart.throw`, which discards it after clearing its flag). -/
theorem awaitSync_leaves_cleanup_awaited (b : Body) (s1 s2 : b.σ) (k k2 : Nat) (f : Flags)
    (h1 : b.resume b.init (.send 0) = (s1, .yield (.fut k)))
    (h2 : b.resume s1 (.throw .syncAbort) = (s2, .yield (.fut k2)))
    (hf : f k = false) (hf2 : f k2 = false) :
    awaitSyncFlags (ofBody b) f = f := by
  have hset : ∀ (g : Flags) (j : Nat), g j = false → (Flags.set (Flags.set g j true) j false) = g := by
    intro g j hg; funext i; by_cases hi : i = j <;> simp [Flags.set, hi, hg]
  simp [awaitSyncFlags, startFlag, yieldFlag, ofBody, coroObj, envObj, envAfter, h1, h2, hset f k hf,
    hset f k2 hf2]

/-- `aiter_sync` over an async iterator none of whose `__anext__` calls suspends produces the
    same items and ends the same way as native `async for`, for any number of `next()` calls. -/
theorem aiterSync_eq (A : AIter)
    (h : ∀ t y, ((A.anext t).resume (A.anext t).init (.send 0)).2 ≠ .yield y) :
    ∀ n t, aiterSync A n t = asyncFor A n t := by
  intro n
  induction n with
  | zero => intro t; rfl
  | succ n ih =>
    intro t
    have ht := h t
    rcases hh : (A.anext t).resume (A.anext t).init (.send 0) with ⟨s', o⟩
    rw [hh] at ht
    rcases o with y | v | e
    · exact absurd rfl (ht y)
    · simp [aiterSync, asyncFor, awaitSync, CS.new, CS.done, CS.result, SR.ofOut, nativeAwaitO, coroObj,
        envObj, nativeAwaitB, normStop, envAfter, hh, bodyOf, EState.body, ih]
    · cases e <;>
      simp [aiterSync, asyncFor, awaitSync, CS.new, CS.done, CS.result, SR.ofOut, nativeAwaitO, coroObj,
        envObj, nativeAwaitB, normStop, envAfter, hh, bodyOf, EState.body, ih]

/-- … and the first `__anext__` that does suspend turns into `awaitSync_abort`'s SynchronousError -/
theorem aiterSync_suspending (A : AIter) (n : Nat) (t : A.τ) (s1 : (A.anext t).σ) (y : Y)
    (h1 : (A.anext t).resume (A.anext t).init (.send 0) = (s1, .yield y))
    (hd : NoYieldAfterAbort (A.anext t) s1) :
    aiterSync A (n + 1) t
      = ([], .error excSyncError (awaitSync (nativeAwaitO (coroObj (A.anext t) id))).cause) := by
  have hout : (awaitSync (nativeAwaitO (coroObj (A.anext t) id))).out = .raise excSyncError := by
    rcases h2 : (A.anext t).resume s1 (.throw .syncAbort) with ⟨s2, o⟩
    have hd' := hd
    unfold NoYieldAfterAbort at hd'
    rw [h2] at hd'
    rcases o with y' | v | e
    · exact absurd rfl (hd' y')
    · simp [awaitSync, CS.new, CS.done, CS.throwSync, CS.closeSync, SR.ofOut, nativeAwaitO, coroObj,
        envObj, nativeAwaitB, normStop, envAfter, envClosed, h1, h2]
    · cases e <;>
      simp [awaitSync, CS.new, CS.done, CS.throwSync, CS.closeSync, SR.ofOut, nativeAwaitO, coroObj,
        envObj, nativeAwaitB, normStop, envAfter, envClosed, h1, h2]
  simp only [aiterSync]
  rw [hout]
  rfl

/-! ### non-vacuity -/

/-- `try: await tok(1) finally: log` — suspends once, exits on the abort -/
def exSuspending : Body where
  σ := Nat
  init := 0
  resume s r :=
    match s, r with
    | 0, .send _ => (1, .yield (.fut 7))
    | 1, .send v => (2, .ret v)
    | 1, .throw e => (2, .raise e)
    | _, _ => (2, .raise .typeErr)

example : NoYieldAfterAbort exSuspending (1 : Nat) := by
  intro y h
  have : (exSuspending.resume (1 : Nat) (.throw .syncAbort)).2 = .raise .syncAbort := by decide
  rw [this] at h
  cases h
example : (awaitSync (ofBody exSuspending)).out = .raise excSyncError := by decide
example : (awaitSync (ofBody exSuspending)).cause = some (.raise .syncAbort) := by decide

/-- swallows the abort and suspends again, then again on GeneratorExit: the excluded case -/
def exStubborn : Body where
  σ := Nat
  init := 0
  resume s r :=
    match s, r with
    | 0, .send _ => (1, .yield (.tok 1))
    | 1, .throw _ => (2, .yield (.tok 2))
    | 2, .throw _ => (3, .yield (.tok 3))
    | _, _ => (4, .ret 0)

example : ¬ NoYieldAfterAbort exStubborn (1 : Nat) := by intro h; exact h (.tok 2) (by decide)
example : (awaitSync (ofBody exStubborn)).out = .raise (.runtime rtIgnoredGenExit) := by decide

/-- returns 5 after two nested non-suspending awaits -/
def exComplete : Body where
  σ := Nat
  init := 0
  resume _ _ := (1, .ret 5)

example : (awaitSync (nativeStack 2 (ofBody exComplete))).out = .ret 5 := by decide

end Asynkit.C05

/-! ### against the shared reference `Proto.nativeAwait b` -/
namespace Asynkit.C05
open Asynkit.Proto

/-- for every coroutine body that completes without yielding, `await_sync` gives exactly what the
    first `send(None)` to `Proto.nativeAwait b` (under `Proto.Coro`) gives -/
theorem awaitSync_complete_nativeAwait (b : Body)
    (h : ∀ y, (b.resume b.init (.send 0)).2 ≠ .yield y) :
    (awaitSync (ofBody b)).out = (Coro.send (nativeAwait b) (Coro.start (nativeAwait b)) 0).2 := by
  have hI : ∀ y, ((ofBody b).send (ofBody b).init 0).2 ≠ .yield y := by
    intro y
    rcases hh : b.resume b.init (.send 0) with ⟨s', o⟩
    have := h y
    rw [hh] at this
    rcases o with y' | v | e
    · simp [ofBody, coroObj, envObj, envAfter, hh]
      intro hy; subst hy; exact this rfl
    · simp [ofBody, coroObj, envObj, envAfter, hh]
    · cases e <;> simp [ofBody, coroObj, envObj, envAfter, hh]
  have h1 := (awaitSync_complete (ofBody b) hI).1
  have h2 := proto_nativeAwait_outs b [.send 0]
  rw [protoOuts, outs_single, outs_single] at h2
  rw [h1]
  exact ((List.cons.inj h2).1).symm

end Asynkit.C05
