import Asynkit.Model.EagerProg
namespace Asynkit.C01
theorem placeholder : True := trivial
end Asynkit.C01
