/-
C01 — eager(): synchronous prefix, then exactly the outcome of a plain Task.
Property theorems only (helper lemmas: Asynkit/Lemmas/C01Eager.lean; model: Model/EagerKernel.lean,
which transcribes the *repaired* coroutine.py — fixes/C01-*.patch, fixes/C03-*.patch).

Reading of "as a plain Task would": the reference is the plain `asyncio.Task` over the same body
whose first step runs at the instant `eager()` is called (`plainStarted`), in the same environment.
The continuation Task needs one loop iteration of pure bookkeeping (it re-yields the future that
`CoroStart` kept), so event sequences are related by `Delayed`: that iteration is elided, and
`cancel()`s issued before it are delivered at it.  Everything else — every event, every loop
iteration after that — is in lock step.
-/
import Asynkit.Lemmas.C01Eager
import Asynkit.Model.EagerProg

namespace Asynkit.C01
open Asynkit.Proto Asynkit.Eager

/-- `Delayed es es'`: `es'` is `es` as the plain Task sees it. -/
inductive Delayed : List Ev → List Ev → Prop
  /-- the loop has not run yet: cancel requests are still pending in the continuation Task -/
  | window (pre : List Ev) (h : Ev.run ∉ pre) : Delayed pre (pre.filter (· ≠ .cancel))
  /-- first loop iteration = delivery of the pending cancel (if any); later events unchanged -/
  | started (pre post mid : List Ev) (h : Ev.run ∉ pre)
      (hm : mid = [] ∨ mid = [.cancel] ∨ mid = [.cancel, .run])
      (hc : mid ≠ [] ↔ Ev.cancel ∈ pre) :
      Delayed (pre ++ .run :: post) (pre.filter (· ≠ .cancel) ++ mid ++ post)

/-- what is compared: the coroutine object of the body (state *and* the list of resumes delivered to
    it, each with the futures as the body saw them), the awaitable's outcome, every future
    (state, blocking flag, cancel request), and whether the kernel ever took the
    "yield was used instead of yield from" branch -/
def Obs {σ : Type} (E : K (Cont σ)) (P : K (Co σ)) : Prop :=
  E.co.co = P.co ∧ E.task.outcome = P.task.outcome ∧ E.futs = P.futs ∧ E.task.hsErr = P.task.hsErr

/-- result of `eagerRun`: the body's coroutine object -/
def resultCo {σ : Type} : EagerResult σ → Co σ
  | .future co _ _ => co
  | .task k => k.co.co

/-- **Synchronous prefix.**  When `eager()` returns, the body has run exactly the segment a plain
    Task runs in its first step — same resulting coroutine object, exactly one resume
    (`send None`, with the futures as they were at the call) — for both code variants. -/
theorem eager_prefix_sync (fix : Fix) (b : VBody) (F : Futs) :
    resultCo (eagerRun fix b F) = (plainStarted b F).co
    ∧ (resultCo (eagerRun fix b F)).log = [(.send 0, F)] := by
  have hlog : (Co.resume b (Co.start b) (.send 0) F).1.log = [(.send 0, F)] := by
    simp only [Co.resume, Co.start, ne_eq, not_true_eq_false, if_false, Co.after]
    split <;> rfl
  constructor
  · rw [plainStarted_eq]
    unfold eagerRun
    generalize Co.resume b (Co.start b) (.send 0) F = x
    obtain ⟨c', out, F'⟩ := x
    cases out with
    | ret v => simp [resultCo, taskFinish]
    | raise e => simp [resultCo, taskFinish]
    | yield y =>
      cases y <;> simp only [resultCo, taskFinish, Cont.co]
      split <;> rfl
  · unfold eagerRun
    revert hlog
    generalize Co.resume b (Co.start b) (.send 0) F = x
    obtain ⟨c', out, F'⟩ := x
    intro hlog
    cases out <;> simpa [resultCo, Cont.co] using hlog

/-- … and no body code runs afterwards until the loop runs the task: every environment event other
    than `run` leaves the coroutine object untouched (any kernel, any coroutine object). -/
theorem eager_prefix_nothing_after {κ : Type} (c : CStep κ) (s : K κ) (e : Ev) (he : e ≠ .run) :
    (kstep c s e).co = s.co := by
  rw [kstep_env c s e he]

/-- **Finished in the prefix ⇒ no Task, completed future.**  If the body returns `v` or raises `e`
    (any `e : Exc`: Exception and BaseException kinds alike, `CancelledError` included) without
    suspending, `coro_eager` creates no Task and returns a future completed with that outcome;
    the plain Task finishes in its first step with the same outcome, coroutine object and futures. -/
theorem eager_done_no_task (fix : Fix) (b : VBody) (F : Futs)
    (h : ∀ y, (Co.resume b (Co.start b) (.send 0) F).2.1 ≠ .yield y) :
    ∃ co out F', eagerRun fix b F = .future co out F'
      ∧ out = (Co.resume b (Co.start b) (.send 0) F).2.1
      ∧ (plainStarted b F).co = co ∧ (plainStarted b F).task.outcome = some out
      ∧ (plainStarted b F).futs = F' := by
  obtain ⟨h1, h2⟩ := eager_start_done fix b F h
  exact ⟨_, _, _, h1, rfl, by rw [h2], by rw [h2], by rw [h2]⟩

/-- **Equivalence with the plain Task.**  For every body, every initial state of the futures and
    every sequence of environment events (futures resolved / failed / cancelled, flags cleared by
    other awaiters, `cancel()`, loop iterations, in any order): the eager run ends with the same
    coroutine object — same sequence of resumes delivered to the body, each seen with the same
    futures —, the same outcome of the awaitable, the same futures and the same kernel error flag
    as the plain Task under the `Delayed` view of the same events. -/
theorem eager_equiv_task (b : VBody) (F : Futs) (k : K (Cont b.σ))
    (hk : eagerRun .repaired b F = .task k) (es : List Ev) :
    ∃ es', Delayed es es' ∧
      Obs (runK (contResume .repaired b) k es) (runK (coStep b) (plainStarted b F) es') := by
  have hy : ∃ y, (Co.resume b (Co.start b) (.send 0) F).2.1 = .yield y := by
    cases hout : (Co.resume b (Co.start b) (.send 0) F).2.1 with
    | yield y => exact ⟨y, rfl⟩
    | ret v =>
      have := (eager_start_done .repaired b F (by intro y hy; rw [hout] at hy; cases hy)).1
      rw [this] at hk; cases hk
    | raise e =>
      have := (eager_start_done .repaired b F (by intro y hy; rw [hout] at hy; cases hy)).1
      rw [this] at hk; cases hk
  obtain ⟨y, hy⟩ := hy
  obtain ⟨F2, hE, hP, hok⟩ := eager_start_yield b F y hy
  rw [hE] at hk
  cases hk
  rw [hP]
  rcases split_run es with hno | ⟨pre, post, rfl, hpre⟩
  · refine ⟨_, .window es hno, ?_⟩
    rw [window_eager _ _ _ _ _ _ _ hno, window_plain _ _ _ _ _ hno]
    refine ⟨rfl, ?_, rfl, ?_⟩ <;> cases y <;> simp [eagerAt, plainAt, plainTaskAt]
  · obtain ⟨hm, hc⟩ := mid_cases (false || pre.contains .cancel) y (envFutsL F2 pre)
    refine ⟨_, .started pre post _ hpre hm (hc.trans (by simp)), ?_⟩
    generalize (Co.resume b (Co.start b) (.send 0) F).1 = co
    have h1 : runK (contResume .repaired b) (eagerAt co y false F2) (pre ++ Ev.run :: post)
        = runK (contResume .repaired b)
            (kstep (contResume .repaired b) (runK (contResume .repaired b) (eagerAt co y false F2) pre) .run)
            post := by
      rw [runK_append]; rfl
    rw [h1, window_eager _ _ _ _ _ _ _ hpre, first_run _ _ _ _ _ (heldOk_envFutsL _ _ _ hok), lockstep,
      runK_append, runK_append, window_plain _ _ _ _ _ hpre]
    exact ⟨rfl, rfl, rfl, rfl⟩

/-- **No handshake error, no flag left behind.**  With all blocking flags clear at the call (true
    between any two callbacks of an asyncio loop), for every body and every event sequence the
    kernel never takes the "yield was used instead of yield from" branch on behalf of the eager
    coroutine, and after every event every future's flag is clear again — so any other coroutine
    (eager or not) can await the same futures at any time (C `FutureIter` raises "await wasn't used
    with future" exactly when it finds the flag of a pending future already set). -/
theorem eager_no_handshake_error (b : VBody) (F : Futs) (k : K (Cont b.σ))
    (hk : eagerRun .repaired b F = .task k) (hF : ∀ g, (F g).blocking = false) (es : List Ev) :
    (runK (contResume .repaired b) k es).task.hsErr = false
    ∧ ∀ g, ((runK (contResume .repaired b) k es).futs g).blocking = false := by
  obtain ⟨es', _, _, _, h3, h4⟩ := eager_equiv_task b F k hk es
  have hc : Clean (runK (coStep b) (plainStarted b F) es') :=
    runK_plain_clean b _ _ (kstep_plain_clean b _ _ ⟨rfl, hF⟩)
  rw [h3, h4]
  exact hc

/-! ### non-vacuity and the witnesses of the unrepaired code -/

def F0 : Futs := fun _ => {}

/-- run `coro_eager` on a program of the harness's body language, then the events -/
def runEager (fix : Fix) (p : List Stmt) (es : List Ev) : Option (K (Cont M)) :=
  match eagerRun fix (progBody p) F0 with
  | .task k => some (runK (contResume fix (progBody p)) k es)
  | .future .. => none

/-- `await f0` suspends: the hypothesis of `eager_equiv_task` is met … -/
example : (runEager .repaired [.await 0] []).isSome = true := by decide
/-- … `return 5` does not: the hypothesis of `eager_done_no_task` is met -/
example : (runEager .repaired [.ret 5] []).isSome = false := by decide
example : Delayed [.cancel, .resolve 0 1] [.resolve 0 1] := .window _ (by decide)
example : Delayed ([.cancel] ++ .run :: [.run]) ([] ++ [.cancel] ++ [.run]) :=
  .started [.cancel] [.run] [.cancel] (by decide) (by simp) (by simp)

/-- unchanged tree, witness 1: while `CoroStart` keeps the future its flag stays set — any other
    `await` of that future raises RuntimeError (the two-eager-coroutines replay) -/
example : (runEager .original [.await 0] []).map (fun k => (k.futs 0).blocking) = some true := by decide
example : (runEager .repaired [.await 0] []).map (fun k => (k.futs 0).blocking) = some false := by decide
/-- unchanged tree, witness 2: another awaiter's Task clears the flag, then the continuation
    re-yields the future without handshake — the kernel's RuntimeError branch -/
example : (runEager .original [.await 0] [.clearFlag 0, .run]).map (·.task.hsErr) = some true := by decide
example : (runEager .repaired [.await 0] [.clearFlag 0, .run]).map (·.task.hsErr) = some false := by decide

end Asynkit.C01
