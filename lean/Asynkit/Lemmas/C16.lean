/-
Helper lemmas for C16 (property statements are in Props/C16.lean).
-/
import Asynkit.Model.Timeout

namespace Asynkit.Timeout

/-- an update that touches neither identity, nor `timed`, nor `is_active` -/
def Inert (f : Level → Level) : Prop :=
  ∀ l, (f l).id = l.id ∧ (f l).timed = l.timed ∧ (f l).active = l.active

theorem mem_updLevel {ls : List Level} {id : Nat} {f : Level → Level} {x : Level}
    (h : x ∈ updLevel ls id f) : ∃ y ∈ ls, x = y ∨ x = f y := by
  simp only [updLevel, List.mem_map] at h
  obtain ⟨y, hy, hxy⟩ := h
  refine ⟨y, hy, ?_⟩
  split at hxy
  · exact Or.inr hxy.symm
  · exact Or.inl hxy.symm

theorem updLevel_mem {ls : List Level} {id : Nat} {f : Level → Level} {y : Level}
    (h : y ∈ ls) : (if y.id == id then f y else y) ∈ updLevel ls id f := by
  simp only [updLevel, List.mem_map]
  exact ⟨y, h, rfl⟩

theorem findLevel_stack {s : State} {id : Nat} {l : Level} (h : findLevel s id = some (l, true)) :
    l ∈ s.stack ∧ l.id = id := by
  unfold findLevel at h
  split at h
  · rename_i l' hf
    injection h with h; injection h with h1 _; subst h1
    exact ⟨List.mem_of_find?_eq_some hf, by simpa using List.find?_some hf⟩
  · simp at h

theorem findLevel_exited {s : State} {id : Nat} {l : Level} (h : findLevel s id = some (l, false)) :
    l ∈ s.exited ∧ l.id = id := by
  unfold findLevel at h
  split at h
  · injection h with h; injection h with _ h2; cases h2
  · simp only [Option.map_eq_some_iff, Prod.mk.injEq] at h
    obtain ⟨l', hf, h1, _⟩ := h
    subst h1
    exact ⟨List.mem_of_find?_eq_some hf, by simpa using List.find?_some hf⟩

theorem find?_updLevel (id : Nat) (f : Level → Level) (hf : ∀ l, (f l).id = l.id) :
    ∀ ls : List Level, (updLevel ls id f).find? (·.id == id) = (ls.find? (·.id == id)).map f
  | [] => rfl
  | a :: ls => by
    have ih := find?_updLevel id f hf ls
    by_cases ha : a.id = id
    · have h1 : ((if (a.id == id) = true then f a else a).id == id) = true := by simp [ha, hf]
      have h2 : (a.id == id) = true := by simp [ha]
      show List.find? _ ((if (a.id == id) = true then f a else a) :: updLevel ls id f) = _
      rw [List.find?_cons_of_pos (l := updLevel ls id f) h1, List.find?_cons_of_pos (l := ls) h2]
      simp [ha]
    · have h1 : ¬ ((if (a.id == id) = true then f a else a).id == id) = true := by simp [ha]
      have h2 : ¬ (a.id == id) = true := by simp [ha]
      show List.find? _ ((if (a.id == id) = true then f a else a) :: updLevel ls id f) = _
      rw [List.find?_cons_of_neg (l := updLevel ls id f) h1, List.find?_cons_of_neg (l := ls) h2]
      exact ih

theorem findLevel_setLevel (s : State) (id : Nat) (f : Level → Level) (hf : ∀ l, (f l).id = l.id) :
    findLevel (setLevel s id f) id = (findLevel s id).map (fun p => (f p.1, p.2)) := by
  unfold findLevel setLevel
  simp only [find?_updLevel id f hf]
  cases h1 : s.stack.find? (·.id == id) with
  | some l => simp
  | none => cases h2 : s.exited.find? (·.id == id) <;> simp

/-! ### the invariant -/

structure Good (s : State) : Prop where
  /-- once a block has exited its `is_active` is False for ever -/
  exitedInactive : ∀ l ∈ s.exited, l.active = false
  /-- `is_active` is only ever True on a level that has a deadline -/
  activeTimed : ∀ l, (l ∈ s.stack ∨ l ∈ s.exited) → l.active = true → l.timed = true
  /-- every throw performed by an interruptor happened inside its own, still active, block -/
  throwsOk : ∀ t ∈ s.throws, t.inBlock = true ∧ t.active = true ∧ t.timed = true
  /-- an interrupt thrown by an interruptor and not yet raised belongs to an entered, active level -/
  pendingOk : ∀ o, s.pending = some (o, true) →
      ∃ l ∈ s.stack, l.id = o ∧ l.active = true ∧ l.timed = true

theorem good_init : Good init := by
  constructor <;> simp [init]

theorem finallyOf_inactive (l : Level) : (finallyOf l).active = false := by simp [finallyOf]

theorem unwind_spec : ∀ (n : Nat) (stk : List Level) (e : Exc),
    (unwind n stk e).1 = stk.drop n ∧ (unwind n stk e).2.1 = (stk.take n).map finallyOf
  | 0, stk, e => by simp [unwind]
  | n + 1, [], e => by simp [unwind]
  | n + 1, l :: stk, e => by
    have ih := unwind_spec n stk (levelExit l e)
    simp [unwind, ih.1, ih.2]

theorem good_setLevel (s : State) (id : Nat) (f : Level → Level) (hf : Inert f) (g : Good s) :
    Good (setLevel s id f) := by
  have key : ∀ ls x, x ∈ updLevel ls id f → ∃ y ∈ ls, x.id = y.id ∧ x.timed = y.timed ∧ x.active = y.active := by
    intro ls x hx
    obtain ⟨y, hy, h | h⟩ := mem_updLevel hx
    · exact ⟨y, hy, by simp [h]⟩
    · exact ⟨y, hy, by rw [h]; exact hf y⟩
  refine ⟨?_, ?_, g.throwsOk, ?_⟩
  · intro l hl
    obtain ⟨y, hy, _, _, h3⟩ := key _ l hl
    rw [h3]; exact g.exitedInactive y hy
  · intro l hl ha
    rcases hl with hl | hl
    · obtain ⟨y, hy, _, h2, h3⟩ := key _ l hl
      rw [h2]; exact g.activeTimed y (Or.inl hy) (h3 ▸ ha)
    · obtain ⟨y, hy, _, h2, h3⟩ := key _ l hl
      rw [h2]; exact g.activeTimed y (Or.inr hy) (h3 ▸ ha)
  · intro o ho
    obtain ⟨l, hl, h1, h2, h3⟩ := g.pendingOk o ho
    refine ⟨_, updLevel_mem (id := id) (f := f) hl, ?_⟩
    split
    · have := hf l; rw [this.1, this.2.1, this.2.2]; exact ⟨h1, h2, h3⟩
    · exact ⟨h1, h2, h3⟩

theorem good_pop (s : State) (l : Level) (stk : List Level) (g : Good s) (hs : s.stack = l :: stk)
    (hp : s.pending = none) :
    Good { s with stack := stk, exited := finallyOf l :: s.exited } := by
  refine ⟨?_, ?_, g.throwsOk, ?_⟩
  · intro x hx
    rcases List.mem_cons.mp hx with hx | hx
    · subst hx; exact finallyOf_inactive l
    · exact g.exitedInactive x hx
  · intro x hx ha
    rcases hx with hx | hx
    · exact g.activeTimed x (Or.inl (by rw [hs]; exact List.mem_cons_of_mem _ hx)) ha
    · rcases List.mem_cons.mp hx with hx | hx
      · subst hx; simp [finallyOf] at ha
      · exact g.activeTimed x (Or.inr hx) ha
  · intro o ho
    simp [hp] at ho

theorem good_step (s s' : State) (ev : Event) (g : Good s) (h : step s ev = some s') : Good s' := by
  cases ev with
  | enter id timed =>
    simp only [step] at h
    split at h
    · rename_i hc
      injection h with h; subst h
      refine ⟨g.exitedInactive, ?_, g.throwsOk, ?_⟩
      · intro x hx ha
        rcases hx with hx | hx
        · rcases List.mem_cons.mp hx with hx | hx
          · subst hx; simpa using ha
          · exact g.activeTimed x (Or.inl hx) ha
        · exact g.activeTimed x (Or.inr hx) ha
      · intro o ho
        simp [hc.1] at ho
    · cases h
  | fire id =>
    simp only [step] at h
    split at h
    · split at h
      · injection h with h; subst h
        exact good_setLevel s id _ (fun l => by simp) g
      · cases h
    · cases h
  | istep id r =>
    simp only [step] at h
    split at h
    · rename_i l inBlock hfind
      split at h
      · rename_i i hist
        split at h
        · rename_i hact
          cases r with
          | thrown =>
            simp only at h
            injection h with h; subst h
            have g1 := good_setLevel s id (fun l => { l with ist := .at (i + 1) }) (fun l => by simp) g
            have hin : inBlock = true := by
              cases inBlock with
              | true => rfl
              | false =>
                have := g.exitedInactive l (findLevel_exited hfind).1
                rw [hact.2] at this; cases this
            subst hin
            have hl := findLevel_stack hfind
            have htimed : l.timed = true := g.activeTimed l (Or.inl hl.1) hact.2
            refine ⟨g1.exitedInactive, g1.activeTimed, ?_, ?_⟩
            · intro t ht
              rcases List.mem_cons.mp ht with ht | ht
              · subst ht; exact ⟨rfl, hact.2, htimed⟩
              · exact g.throwsOk t ht
            · intro o ho
              simp only [Option.some.injEq, Prod.mk.injEq, and_true] at ho
              subst ho
              refine ⟨_, updLevel_mem (id := id) (f := fun l => { l with ist := .at (i + 1) }) hl.1, ?_⟩
              simp [hl.2, hact.2, htimed]
          | refused =>
            simp only at h
            injection h with h; subst h
            exact good_setLevel s id _ (fun l => by split <;> simp) g
          | none => simp at h
        · split at h
          · injection h with h; subst h
            exact good_setLevel s id _ (fun l => by simp) g
          · cases h
      · cases h
    · cases h
  | envThrow o =>
    simp only [step] at h
    injection h with h; subst h
    exact ⟨g.exitedInactive, g.activeTimed, g.throwsOk, fun o' ho => by simp at ho⟩
  | raise depth =>
    simp only [step] at h
    split at h
    · rename_i o b hp
      split at h
      · injection h with h; subst h
        have hsp := unwind_spec depth s.stack (.intr o)
        refine ⟨?_, ?_, g.throwsOk, fun o' ho => by simp at ho⟩
        · intro x hx
          simp only [hsp.2, List.mem_append, List.mem_map] at hx
          rcases hx with ⟨y, _, hy⟩ | hx
          · subst hy; exact finallyOf_inactive y
          · exact g.exitedInactive x hx
        · intro x hx ha
          simp only [hsp.1, hsp.2, List.mem_append, List.mem_map] at hx
          rcases hx with hx | ⟨y, _, hy⟩ | hx
          · exact g.activeTimed x (Or.inl (List.mem_of_mem_drop hx)) ha
          · subst hy; simp [finallyOf] at ha
          · exact g.activeTimed x (Or.inr hx) ha
      · cases h
    · cases h
  | exitOk id =>
    simp only [step] at h
    split at h
    · rename_i l stk hs
      split at h
      · rename_i hc
        injection h with h; subst h
        exact good_pop s l stk g hs hc.2
      · cases h
    · cases h
  | exitOther id =>
    simp only [step] at h
    split at h
    · rename_i l stk hs
      split at h
      · rename_i hc
        injection h with h; subst h
        exact good_pop s l stk g hs hc.2
      · cases h
    · cases h

theorem good_run : ∀ (es : List Event) (s s' : State), Good s → run s es = some s' → Good s'
  | [], s, s', g, h => by simp [run] at h; subst h; exact g
  | e :: es, s, s', g, h => by
    simp only [run] at h
    split at h
    · cases h
    · rename_i s1 hs
      exact good_run es s1 s' (good_step s s1 e g hs) h

theorem good_reachable {s : State} (h : Reachable s) : Good s := by
  obtain ⟨es, h⟩ := h
  exact good_run es _ _ good_init h

/-! ### unwinding -/

/-- exceptions seen after each level, and conversions, when an interrupt `o` unwinds through
`pre` (levels that do not own it), then its owner `l`, then `k` further levels of `post` -/
theorem unwind_owner (o : Nat) : ∀ (pre : List Level) (l : Level) (post : List Level) (k : Nat),
    (∀ x ∈ pre, ¬ (x.timed = true ∧ x.id = o)) → l.timed = true → l.id = o → k ≤ post.length →
    (unwind (pre.length + 1 + k) (pre ++ l :: post) (.intr o)).2.2.1
        = List.replicate pre.length (Exc.intr o) ++ List.replicate (k + 1) Exc.timeoutErr
    ∧ (unwind (pre.length + 1 + k) (pre ++ l :: post) (.intr o)).2.2.2 = [(l.id, o)]
  | [], l, post, k, _, ht, hid, hk => by
    have hte : ∀ (k : Nat) (post : List Level), k ≤ post.length →
        (unwind k post .timeoutErr).2.2.1 = List.replicate k Exc.timeoutErr ∧
        (unwind k post .timeoutErr).2.2.2 = [] := by
      intro k
      induction k with
      | zero => intro post _; simp [unwind]
      | succ k ih =>
        intro post hk
        cases post with
        | nil => simp at hk
        | cons p ps =>
          have := ih ps (by simpa using hk)
          simp [unwind, levelExit, this.1, this.2, List.replicate_succ]
    have h1 := hte k post hk
    have hk' : 0 + 1 + k = k + 1 := by omega
    simp only [List.length_nil, List.nil_append, hk']
    simp [unwind, levelExit, ht, hid, h1.1, h1.2, List.replicate_succ]
  | p :: pre, l, post, k, hpre, ht, hid, hk => by
    have hp : levelExit p (.intr o) = .intr o := by
      have := hpre p (List.mem_cons_self)
      simp only [levelExit]
      split
      · rename_i hc
        simp only [Bool.and_eq_true, beq_iff_eq] at hc
        exact absurd hc this
      · rfl
    have ih := unwind_owner o pre l post k (fun x hx => hpre x (List.mem_cons_of_mem _ hx)) ht hid hk
    have hlen : (p :: pre).length + 1 + k = (pre.length + 1 + k) + 1 := by simp; omega
    rw [hlen]
    simp only [List.cons_append, unwind, hp, ih.1, ih.2]
    simp [List.replicate_succ]

/-- an interrupt nobody in the unwound part owns passes unchanged, nothing is converted -/
theorem unwind_foreign (o : Nat) : ∀ (n : Nat) (stk : List Level),
    (∀ x ∈ stk.take n, ¬ (x.timed = true ∧ x.id = o)) →
    (unwind n stk (.intr o)).2.2.1 = List.replicate (min n stk.length) (Exc.intr o)
    ∧ (unwind n stk (.intr o)).2.2.2 = []
  | 0, stk, _ => by simp [unwind]
  | n + 1, [], _ => by simp [unwind]
  | n + 1, p :: stk, h => by
    have hp : levelExit p (.intr o) = .intr o := by
      have := h p (by simp)
      simp only [levelExit]
      split
      · rename_i hc
        simp only [Bool.and_eq_true, beq_iff_eq] at hc
        exact absurd hc this
      · rfl
    have ih := unwind_foreign o n stk (fun x hx => h x (by simp [hx]))
    simp only [unwind, hp, ih.1, ih.2]
    simp [List.replicate_succ, Nat.succ_min_succ]

end Asynkit.Timeout
