/-
Helper definitions and lemmas for C08: the list abstraction of a ready queue (`ListLike`) and its
instance for the deque based loops.  (Property statements live in Props/C08.lean.)
-/
import Asynkit.Lemmas.C08Deque
import Asynkit.Model.Sched

namespace Asynkit.Sched

/-- A ready-queue implementation `O` behaves like a list through the abstraction `abs` on the
    states satisfying `Inv`, for appends at priorities satisfying `P`.
    For the deque based loops this is proved (`listOps_listLike`); for the priority loop with
    equal priorities (`abs` = drain order, `P p := p = 0`) the fields are the container theorems
    of C17 (`posInsert_spec`, `append_equal_pri_spec`, …). -/
structure ListLike {Q : Type} (O : QOps Q) (abs : Q → List Nat) (Inv : Q → Prop) (P : Rat → Prop) : Prop where
  nodup : ∀ q, Inv q → (abs q).Nodup
  len_eq : ∀ q, Inv q → O.len q = (abs q).length
  append : ∀ q p h, Inv q → P p → h ∉ abs q →
    Inv (O.append q p h) ∧ abs (O.append q p h) = abs q ++ [h]
  insertPos : ∀ q p h, Inv q → h ∉ abs q →
    Inv (O.insertPos q p h) ∧ abs (O.insertPos q p h) = (abs q).insertIdx (min p (abs q).length) h
  callPos : ∀ q p h, Inv q → h ∉ abs q →
    Inv (O.callPos q p h) ∧ abs (O.callPos q p h) = (abs q).insertIdx (min p (abs q).length) h
  find_none : ∀ q key rm, Inv q → (∀ x ∈ abs q, key x = false) → O.find q key rm = (none, q)
  find_some : ∀ q key rm x, Inv q → x ∈ abs q → key x = true → (∀ y ∈ abs q, key y = true → y = x) →
    (O.find q key rm).1 = some x ∧ Inv (O.find q key rm).2 ∧
    abs (O.find q key rm).2 = if rm then (abs q).erase x else abs q
  remove_none : ∀ q h, Inv q → h ∉ abs q → O.remove q h = none
  remove_some : ∀ q h, Inv q → h ∈ abs q →
    ∃ q', O.remove q h = some q' ∧ Inv q' ∧ abs q' = (abs q).erase h
  popleft_nil : ∀ q, Inv q → abs q = [] → O.popleft q = none
  popleft_cons : ∀ q h t, Inv q → abs q = h :: t →
    ∃ q', O.popleft q = some (h, q') ∧ Inv q' ∧ abs q' = t

/-- fewer admissible append priorities: still list-like -/
theorem ListLike.mono {Q : Type} {O : QOps Q} {abs : Q → List Nat} {Inv : Q → Prop} {P P' : Rat → Prop}
    (L : ListLike O abs Inv P) (h : ∀ p, P' p → P p) : ListLike O abs Inv P' :=
  { L with append := fun q p x hq hp hx => L.append q p x hq (h p hp) hx }

theorem nodup_insertIdx {l : List Nat} {h : Nat} (i : Nat) (hl : l.Nodup) (hh : h ∉ l) (hi : i ≤ l.length) :
    (l.insertIdx i h).Nodup :=
  (List.perm_insertIdx h l hi).nodup_iff.mpr (List.nodup_cons.mpr ⟨hh, hl⟩)

theorem split_of_mem_nodup {l : List Nat} {x : Nat} (hx : x ∈ l) (hl : l.Nodup) :
    ∃ A B, l = A ++ x :: B ∧ x ∉ A ∧ x ∉ B ∧ l.erase x = A ++ B := by
  obtain ⟨A, B, rfl⟩ := List.append_of_mem hx
  have hn := List.nodup_append.mp hl
  have hxA : x ∉ A := fun h => (hn.2.2 x h x (by simp)) rfl
  have hxB : x ∉ B := (List.nodup_cons.mp hn.2.1).1
  refine ⟨A, B, rfl, hxA, hxB, ?_⟩
  rw [List.erase_append_right _ hxA]; simp

/-- the deque based loops are list-like, with `abs = id` on duplicate-free queues -/
theorem listOps_listLike : ListLike listOps id (fun q => q.Nodup) (fun _ => True) where
  nodup _ h := h
  len_eq _ _ := rfl
  append q p h hq _ hh := by
    refine ⟨?_, rfl⟩
    show (q ++ [h]).Nodup
    rw [List.nodup_append]
    refine ⟨hq, by simp, ?_⟩
    intro a ha b hb
    simp at hb; subst hb; intro e; exact hh (e ▸ ha)
  insertPos q p h hq hh := by
    show (Deque.insert q (p : Int) h).Nodup ∧ Deque.insert q (p : Int) h = _
    rw [Deque.insert_nat]
    exact ⟨nodup_insertIdx _ hq hh (Nat.min_le_right _ _), rfl⟩
  callPos q p h hq hh := by
    show (Deque.callPos q (p : Int) h).Nodup ∧ Deque.callPos q (p : Int) h = _
    rw [Deque.callPos_nat q p h hh]
    exact ⟨nodup_insertIdx _ hq hh (Nat.min_le_right _ _), rfl⟩
  find_none q key rm _ h := Deque.queueFind_absent q key rm h
  find_some q key rm x hq hx hk hu := by
    obtain ⟨A, B, rfl, hxA, hxB, he⟩ := split_of_mem_nodup hx hq
    have hB : ∀ b ∈ B, key b = false := by
      intro b hb
      cases hkb : key b with
      | false => rfl
      | true => exact absurd (hu b (by simp [hb]) hkb) (fun e => hxB (e ▸ hb))
    show (Deque.queueFind _ key rm).1 = _ ∧ (Deque.queueFind _ key rm).2.Nodup ∧ (Deque.queueFind _ key rm).2 = _
    rw [Deque.queueFind_last A B x key rm hk hB hxA]
    cases rm
    · exact ⟨rfl, hq, rfl⟩
    · refine ⟨rfl, ?_, ?_⟩
      · show (A ++ B).Nodup
        rw [← he]; exact hq.erase x
      · show A ++ B = (A ++ x :: B).erase x
        exact he.symm
  remove_none q h _ hh := Deque.queueRemove_absent q h hh
  remove_some q h hq hh := by
    obtain ⟨A, B, rfl, hxA, _, he⟩ := split_of_mem_nodup hh hq
    refine ⟨A ++ B, Deque.queueRemove_mid A B h hxA, ?_, he.symm⟩
    rw [← he]; exact hq.erase h
  popleft_nil q _ h := by
    have : q = [] := h
    subst this; rfl
  popleft_cons q h t hq e := by
    have : q = h :: t := e
    subst this
    exact ⟨t, rfl, (List.nodup_cons.mp hq).2, rfl⟩

end Asynkit.Sched
