/-
C14 — the generated translation of `PriorityCondition._notify / notify / wait` (+ `priority._released`) and of
`InterruptCondition.wait` (`Asynkit/Gen/Cond.lean`, regenerated from /repo/src on every run by
translator/cond2lean.py) is the transition system `Model/Cond.lean` the theorems of Props/C14.lean are about
— for every state.

* synchronous code: `notifyImpl` (= `_notify`) is `notifyFn .pc`, `notify` is guard + effect of the `notify` event;
* coroutines, segment by segment: entry → `await fut` is `waitStart`; `await fut` resumed (normally / by an
  exception) → `await lock.acquire()` is `wake`; `await lock.acquire()` resumed by an exception → the same await
  again is `acqExc` (+ the no-code `acqBlock`); resumed normally → exit is `acqImm`/`acqOk` (= `finish`:
  pass-on `_notify(1)` on PriorityCondition, re-raise of the caught / pending exception, or `return True`).

The model additionally keeps ghost state (exit log, `inflight`, `delivered`, `inwait`, `issued`, `inWF`) the
code knows nothing about; `CodeEq` compares exactly what the code can see or change: lock owner, waiter
queue, arrival counter, and per waiter its priority, arrival stamp and future.  The *control* part of the model
(`pc`, `cur`, `err` of the running task) corresponds to the suspension point and its held values: `RepN`/`RepE`.
-/
import Asynkit.Gen.Cond
import Asynkit.Lemmas.C14

namespace Asynkit.GenEqC14
open Asynkit.Cond Asynkit.Gen.Cond

/-- what the code can observe / change -/
def CodeEq (a b : State) : Prop :=
  a.owner = b.owner ∧ a.queue = b.queue ∧ a.arrival = b.arrival ∧
  ∀ t, (a.w t).pri = (b.w t).pri ∧ (a.w t).arr = (b.w t).arr ∧ (a.w t).fut = (b.w t).fut ∧
       (a.w t).thrown = (b.w t).thrown

theorem codeEq_refl (a : State) : CodeEq a a := ⟨rfl, rfl, rfl, fun _ => ⟨rfl, rfl, rfl, rfl⟩⟩

/-! ### `_notify` -/

/-- a loop body that does what one step of `pcWalk` does -/
theorem forLoop_pcWalk (n : Nat) (body : Nat → State × Nat → LoopCtl (State × Nat))
    (hbody : ∀ x (s : State) c, body x (s, c) =
      if isPending s.w x then
        (if c + 1 ≥ n then LoopCtl.brk ({ s with w := setDone s.w x }, c + 1)
         else LoopCtl.cont ({ s with w := setDone s.w x }, c + 1))
      else LoopCtl.cont (s, c)) :
    ∀ (l : List Nat) (s : State) (c : Nat),
      (forLoop l (s, c) body).1 = { s with w := (pcWalk n c s.w l).1 }
  | [], s, c => by simp [forLoop, pcWalk]
  | x :: l, s, c => by
    unfold forLoop pcWalk
    rw [hbody x s c]
    by_cases hp : isPending s.w x = true
    · by_cases hc : c + 1 ≥ n
      · simp [hp, hc]
      · simp only [hp, hc, if_true, if_false]
        rw [forLoop_pcWalk n body hbody l _ (c + 1)]
    · simp only [hp]
      exact forLoop_pcWalk n body hbody l s c

/-- **`PriorityCondition._notify(n)`** sets futures exactly as the model's walk does, and returns. -/
theorem notifyImpl_eq (s : State) (n : Nat) :
    notifyImpl s n = ({ s with w := (notifyFn .pc n s.w s.queue).1 }, .ret) := by
  unfold notifyImpl
  simp only [notifyFn, Prim.orderedItems]
  congr 1
  refine forLoop_pcWalk n _ ?_ _ s 0
  intro x s c
  by_cases hp : isPending s.w x = true <;> by_cases hc : n ≤ c + 1 <;>
    simp [Prim.futDone, Prim.futSetResult, hp, hc]

/-- **`PriorityCondition.notify(n)`**: RuntimeError without the lock, otherwise `_notify(n)`. -/
theorem notify_eq (s : State) (n : Nat) :
    notify s n = if s.owner.isSome then ({ s with w := (notifyFn .pc n s.w s.queue).1 }, .ret)
                 else (s, .raised .runtime) := by
  unfold notify
  simp only [notifyImpl_eq, Prim.locked]
  all_goals (split <;> rfl)

/-- … which is the `notify` event of the model (PriorityCondition) -/
theorem notify_step (s s' : State) (j n : Nat) (hk : s.kind = .pc)
    (h : step s (.notify j n) = some s') :
    (notify s n).2 = .ret ∧ CodeEq s' (notify s n).1 := by
  simp only [step] at h
  split at h
  · rename_i ho
    injection h with h; subst h
    rw [notify_eq]
    simp [ho, hk, CodeEq]
  · cases h

/-! ### control state ↔ suspension points -/

/-- the exception identity as the code sees it -/
def dlvOpt (o : Option Nat) : Option Exn := o.map Exn.dlv

/-- waiter `x` is (about to be / is) suspended in `lock.acquire()` after a *normal* resumption of `await fut` -/
def RepN (d : Option Exn) (x : Waiter) : Prop := x.cur = none ∧ d = dlvOpt x.err

/-- … after `await fut` raised `c` (pending in the `finally` and in `__aexit__`) -/
def RepE (p1 p2 : Exn) (d : Option Exn) (x : Waiter) : Prop :=
  ∃ c, x.cur = some c ∧ p1 = .dlv c ∧ p2 = .dlv c ∧ d = dlvOpt x.err

/-- outcome of `wait()` as the model computes it, in the code's terms -/
def finOf : Out → Fin
  | .ret => .ret
  | .raise e => .raised (.dlv e)

/-! ### `PriorityCondition.wait` -/

/-- **entry → `await fut`** is the `waitStart` event: release, future, queue. -/
theorem pw_entry_eq (s s' : State) (j : Nat) (p : Int)
    (h : step s (.waitStart j p) = some s') :
    ∃ c, pw_entry s j (some p) = (c, .susp_fut0 ⟨⟩) ∧ CodeEq s' c ∧ (s'.w j).pc = .waiting := by
  simp only [step] at h
  split at h
  · rename_i hc
    injection h with h; subst h
    refine ⟨Prim.waitersAdd (Prim.lockRelease (Prim.createFuture s j)) j p, ?_, ?_, by simp [setW]⟩
    · unfold pw_entry
      simp [Prim.locked, hc.1]
    · refine ⟨rfl, rfl, rfl, ?_⟩
      intro t
      by_cases htj : t = j
      · subst htj
        simp [Prim.waitersAdd, Prim.lockRelease, Prim.createFuture, setW]
      · simp [Prim.waitersAdd, Prim.lockRelease, Prim.createFuture, setW, htj]
  · cases h

/-- a task without `effective_priority` (AttributeError) waits with priority 0 -/
theorem pw_entry_none (s : State) (j : Nat) : pw_entry s j none = pw_entry s j (some 0) := by
  unfold pw_entry
  split <;> rfl

/-- without the lock: RuntimeError, nothing changed -/
theorem pw_entry_unlocked (s : State) (j : Nat) (prio : Option Int) (h : s.owner = none) :
    pw_entry s j prio = (s, .fin (.raised .runtime)) := by
  unfold pw_entry
  simp [Prim.locked, h]

/-- **`await fut` resumed** is the `wake` event: `finally: self._waiters.remove(fut)`, then on to the
re-acquire loop with the exception (if any) pending. -/
theorem pw_fut0_eq (s s' : State) (j : Nat) (r : Resume) (h : step s (.wake j r) = some s') :
    ∃ c, CodeEq s' c ∧ (s'.w j).pc = .reacq ∧
      ((∃ d, pw_fut0 s j ⟨⟩ r = (c, .susp_acq0 ⟨d⟩) ∧ RepN d (s'.w j)) ∨
       (∃ p1 p2 d, pw_fut0 s j ⟨⟩ r = (c, .susp_acq1 ⟨p1, p2, d⟩) ∧ RepE p1 p2 d (s'.w j))) := by
  simp only [step] at h
  split at h
  · cases r with
    | ok =>
      simp only at h
      split at h
      · injection h with h; subst h
        refine ⟨Prim.waitersRemove s j, ?_, by simp [setW], Or.inl ⟨none, rfl, ?_⟩⟩
        · refine ⟨rfl, rfl, rfl, fun t => ?_⟩
          by_cases htj : t = j
          · subst htj; simp [Prim.waitersRemove, setW]
          · simp [Prim.waitersRemove, setW, htj]
        · simp [RepN, setW, dlvOpt]
      · cases h
    | exc e =>
      simp only at h
      split at h
      · injection h with h; subst h
        refine ⟨Prim.waitersRemove s j, ?_, by simp [setW], Or.inr ⟨.dlv e, .dlv e, none, rfl, ?_⟩⟩
        · refine ⟨rfl, rfl, rfl, fun t => ?_⟩
          by_cases htj : t = j
          · subst htj; simp [Prim.waitersRemove, setW]
          · simp [Prim.waitersRemove, setW, htj]
        · exact ⟨e, by simp [setW], rfl, rfl, by simp [setW, dlvOpt]⟩
      · cases h
  · cases h

/-- **`await lock.acquire()` raising `e`** is the `acqExc` event: `err = e`, same await again. -/
theorem pw_acq_exc_eq (s s' : State) (j e : Nat) (h : step s (.acqExc j e) = some s') :
    CodeEq s' s ∧ (s'.w j).pc = .reacq ∧
    (∀ d, RepN d (s.w j) → ∃ d', pw_acq0 s j ⟨d⟩ (.exc e) = (s, .susp_acq0 ⟨d'⟩) ∧ RepN d' (s'.w j)) ∧
    (∀ p1 p2 d, RepE p1 p2 d (s.w j) →
        ∃ d', pw_acq1 s j ⟨p1, p2, d⟩ (.exc e) = (s, .susp_acq1 ⟨p1, p2, d'⟩) ∧ RepE p1 p2 d' (s'.w j)) := by
  simp only [step] at h
  split at h
  · injection h with h; subst h
    refine ⟨?_, by simp [setW], ?_, ?_⟩
    · refine ⟨rfl, rfl, rfl, fun t => ?_⟩
      by_cases htj : t = j
      · subst htj; simp [setW]
      · simp [setW, htj]
    · intro d hd
      exact ⟨some (.dlv e), rfl, by simp [RepN, setW, dlvOpt, hd.1]⟩
    · intro p1 p2 d hd
      obtain ⟨c, h1, h2, h3, _⟩ := hd
      exact ⟨some (.dlv e), rfl, c, by simp [setW, h1], h2, h3, by simp [setW, dlvOpt]⟩
  · cases h

/-- the effect of `finish` the code can see, for PriorityCondition -/
theorem finish_codeEq_pc (s : State) (j : Nat) (hk : s.kind = .pc) :
    CodeEq (finish s j)
      (if outcome (s.w j) = .ret then s else { s with w := (notifyFn .pc 1 s.w s.queue).1 }) := by
  by_cases ho : outcome (s.w j) = .ret
  · simp only [ho, if_true]
    refine ⟨rfl, rfl, rfl, fun t => ?_⟩
    by_cases htj : t = j
    · subst htj; simp [finish, setW, ho]
    · simp [finish, setW, htj, ho]
  · simp only [ho, if_false]
    refine ⟨rfl, rfl, rfl, fun t => ?_⟩
    by_cases htj : t = j
    · subst htj; simp [finish, setW, ho, hk]
    · simp [finish, setW, htj, ho, hk]

/-- **`await lock.acquire()` returning** is `acqImm`/`acqOk` (= `finish` with the caller as owner): the
hand-over `_notify(1)` on the raising paths, then `raise err` / the pending exception / `return True`. -/
theorem pw_acq_ok_eq (s : State) (j : Nat) (hk : s.kind = .pc) :
    (∀ d, RepN d (s.w j) →
      ∃ c, pw_acq0 s j ⟨d⟩ .ok = (c, .fin (finOf (outcome (s.w j)))) ∧
           CodeEq (finish { s with owner := some j } j) c) ∧
    (∀ p1 p2 d, RepE p1 p2 d (s.w j) →
      ∃ c, pw_acq1 s j ⟨p1, p2, d⟩ .ok = (c, .fin (finOf (outcome (s.w j)))) ∧
           CodeEq (finish { s with owner := some j } j) c) := by
  have hfin := finish_codeEq_pc { s with owner := some j } j hk
  constructor
  · intro d hd
    obtain ⟨hcur, hd⟩ := hd
    subst hd
    cases herr : (s.w j).err with
    | none =>
      have ho : outcome (s.w j) = .ret := by simp [outcome, herr, hcur]
      refine ⟨_, ?_, by simpa [ho] using hfin⟩
      simp [pw_acq0, dlvOpt, herr, ho, finOf, Prim.lockAcquired]
    | some e =>
      have ho : outcome (s.w j) = .raise e := by simp [outcome, herr]
      refine ⟨_, ?_, by simpa [ho] using hfin⟩
      simp [pw_acq0, dlvOpt, herr, ho, finOf, notifyImpl_eq, Prim.lockAcquired]
  · intro p1 p2 d hd
    obtain ⟨c, hcur, h1, h2, hd⟩ := hd
    subst h1 h2 hd
    cases herr : (s.w j).err with
    | none =>
      have ho : outcome (s.w j) = .raise c := by simp [outcome, herr, hcur]
      refine ⟨_, ?_, by simpa [ho] using hfin⟩
      simp [pw_acq1, dlvOpt, herr, ho, finOf, notifyImpl_eq, Prim.lockAcquired]
    | some e =>
      have ho : outcome (s.w j) = .raise e := by simp [outcome, herr]
      refine ⟨_, ?_, by simpa [ho] using hfin⟩
      simp [pw_acq1, dlvOpt, herr, ho, finOf, notifyImpl_eq, Prim.lockAcquired]

/-- the model's `acqImm` and `acqOk` events are `finish` with the caller as owner -/
theorem acq_is_finish (s s' : State) (j : Nat) :
    (step s (.acqImm j) = some s' ∨ step s (.acqOk j) = some s') →
    s' = finish { s with owner := some j } j := by
  intro h
  rcases h with h | h <;> simp only [step] at h <;> split at h <;>
    first | (injection h with h; exact h.symm) | cases h

/-! ### `InterruptCondition.wait`

Same control skeleton written out with plain `try/finally` (no `_released`, no hand-over); the waiter queue is
a deque, so the priority argument of the model's `waitStart` plays no role (`orderedQ .ic` never reads it) and
the equality is stated for the waiter's current priority. -/

/-- … after `await fut` raised `c` (pending in the outer `finally`) -/
def RepE1 (p1 : Exn) (d : Option Exn) (x : Waiter) : Prop :=
  ∃ c, x.cur = some c ∧ p1 = .dlv c ∧ d = dlvOpt x.err

theorem iw_entry_eq (s s' : State) (j : Nat)
    (h : step s (.waitStart j (s.w j).pri) = some s') :
    ∃ c, iw_entry s j = (c, .susp_fut0 ⟨⟩) ∧ CodeEq s' c ∧ (s'.w j).pc = .waiting := by
  simp only [step] at h
  split at h
  · rename_i hc
    injection h with h; subst h
    refine ⟨Prim.waitersAppend (Prim.createFuture (Prim.lockRelease s) j) j, ?_, ?_, by simp [setW]⟩
    · unfold iw_entry
      simp [Prim.locked, hc.1]
    · refine ⟨rfl, rfl, rfl, ?_⟩
      intro t
      by_cases htj : t = j
      · subst htj
        simp [Prim.waitersAppend, Prim.lockRelease, Prim.createFuture, setW]
      · simp [Prim.waitersAppend, Prim.lockRelease, Prim.createFuture, setW, htj]
  · cases h

theorem iw_entry_unlocked (s : State) (j : Nat) (h : s.owner = none) :
    iw_entry s j = (s, .fin (.raised .runtime)) := by
  unfold iw_entry
  simp [Prim.locked, h]

theorem iw_fut0_eq (s s' : State) (j : Nat) (r : Resume) (h : step s (.wake j r) = some s') :
    ∃ c, CodeEq s' c ∧ (s'.w j).pc = .reacq ∧
      ((∃ d, iw_fut0 s j ⟨⟩ r = (c, .susp_acq0 ⟨d⟩) ∧ RepN d (s'.w j)) ∨
       (∃ p1 d, iw_fut0 s j ⟨⟩ r = (c, .susp_acq1 ⟨p1, d⟩) ∧ RepE1 p1 d (s'.w j))) := by
  simp only [step] at h
  split at h
  · cases r with
    | ok =>
      simp only at h
      split at h
      · injection h with h; subst h
        refine ⟨Prim.waitersRemove s j, ?_, by simp [setW], Or.inl ⟨none, rfl, ?_⟩⟩
        · refine ⟨rfl, rfl, rfl, fun t => ?_⟩
          by_cases htj : t = j
          · subst htj; simp [Prim.waitersRemove, setW]
          · simp [Prim.waitersRemove, setW, htj]
        · simp [RepN, setW, dlvOpt]
      · cases h
    | exc e =>
      simp only at h
      split at h
      · injection h with h; subst h
        refine ⟨Prim.waitersRemove s j, ?_, by simp [setW], Or.inr ⟨.dlv e, none, rfl, ?_⟩⟩
        · refine ⟨rfl, rfl, rfl, fun t => ?_⟩
          by_cases htj : t = j
          · subst htj; simp [Prim.waitersRemove, setW]
          · simp [Prim.waitersRemove, setW, htj]
        · exact ⟨e, by simp [setW], rfl, by simp [setW, dlvOpt]⟩
      · cases h
  · cases h

theorem iw_acq_exc_eq (s s' : State) (j e : Nat) (h : step s (.acqExc j e) = some s') :
    CodeEq s' s ∧ (s'.w j).pc = .reacq ∧
    (∀ d, RepN d (s.w j) → ∃ d', iw_acq0 s j ⟨d⟩ (.exc e) = (s, .susp_acq0 ⟨d'⟩) ∧ RepN d' (s'.w j)) ∧
    (∀ p1 d, RepE1 p1 d (s.w j) →
        ∃ d', iw_acq1 s j ⟨p1, d⟩ (.exc e) = (s, .susp_acq1 ⟨p1, d'⟩) ∧ RepE1 p1 d' (s'.w j)) := by
  simp only [step] at h
  split at h
  · injection h with h; subst h
    refine ⟨?_, by simp [setW], ?_, ?_⟩
    · refine ⟨rfl, rfl, rfl, fun t => ?_⟩
      by_cases htj : t = j
      · subst htj; simp [setW]
      · simp [setW, htj]
    · intro d hd
      exact ⟨some (.dlv e), rfl, by simp [RepN, setW, dlvOpt, hd.1]⟩
    · intro p1 d hd
      obtain ⟨c, h1, h2, _⟩ := hd
      exact ⟨some (.dlv e), rfl, c, by simp [setW, h1], h2, by simp [setW, dlvOpt]⟩
  · cases h

theorem finish_codeEq_ic (s : State) (j : Nat) (hk : s.kind = .ic) : CodeEq (finish s j) s := by
  refine ⟨rfl, rfl, rfl, fun t => ?_⟩
  by_cases htj : t = j
  · subst htj; simp [finish, setW, hk]
  · simp [finish, setW, htj, hk]

theorem iw_acq_ok_eq (s : State) (j : Nat) (hk : s.kind = .ic) :
    (∀ d, RepN d (s.w j) →
      ∃ c, iw_acq0 s j ⟨d⟩ .ok = (c, .fin (finOf (outcome (s.w j)))) ∧
           CodeEq (finish { s with owner := some j } j) c) ∧
    (∀ p1 d, RepE1 p1 d (s.w j) →
      ∃ c, iw_acq1 s j ⟨p1, d⟩ .ok = (c, .fin (finOf (outcome (s.w j)))) ∧
           CodeEq (finish { s with owner := some j } j) c) := by
  have hfin := finish_codeEq_ic { s with owner := some j } j hk
  constructor
  · intro d hd
    obtain ⟨hcur, hd⟩ := hd
    subst hd
    cases herr : (s.w j).err with
    | none =>
      have ho : outcome (s.w j) = .ret := by simp [outcome, herr, hcur]
      exact ⟨_, by simp [iw_acq0, dlvOpt, herr, ho, finOf, Prim.lockAcquired], hfin⟩
    | some e =>
      have ho : outcome (s.w j) = .raise e := by simp [outcome, herr]
      exact ⟨_, by simp [iw_acq0, dlvOpt, herr, ho, finOf, Prim.lockAcquired], hfin⟩
  · intro p1 d hd
    obtain ⟨c, hcur, h1, hd⟩ := hd
    subst h1 hd
    cases herr : (s.w j).err with
    | none =>
      have ho : outcome (s.w j) = .raise c := by simp [outcome, herr, hcur]
      exact ⟨_, by simp [iw_acq1, dlvOpt, herr, ho, finOf, Prim.lockAcquired], hfin⟩
    | some e =>
      have ho : outcome (s.w j) = .raise e := by simp [outcome, herr]
      exact ⟨_, by simp [iw_acq1, dlvOpt, herr, ho, finOf, Prim.lockAcquired], hfin⟩

end Asynkit.GenEqC14
