/-
C08 — the definitions `translator/py2lean.py` regenerates from /repo/src on every run
(`Asynkit/Gen/Sched.lean`: `tools.deque_pop`, `default.queue_find`, `default.call_pos`, statement
by statement) are equal to the hand-written model definitions the theorems of Props/C08.lean are
about.  If the code changes, the generated text changes: a harmless rewrite still proves; anything
else breaks one of these equalities (a broken proof obligation of C08).
-/
import Asynkit.Gen.Sched
import Asynkit.Model.Deque

namespace Asynkit.GenEqC08
open Asynkit

/-- generated `deque_pop` = `Model/Deque.dequePop` (the subject of `C08.dequePop_eq_eraseIdx`) -/
theorem dequePop_eq {α : Type} (d : List α) (pos : Int) :
    Gen.dequePop d pos = Deque.dequePop d pos := by
  have h4 : (((d.length / 4 : Nat)) : Int) = (d.length : Int) / 4 := by omega
  unfold Gen.dequePop Deque.dequePop
  simp only [h4]
  by_cases hneg : pos < 0
  · by_cases h2 : pos + (d.length : Int) < 0
    · simp [hneg, h2]
    · simp only [hneg, h2, if_true, if_false, true_and, and_false, and_true]
      first | rfl | (split <;> rfl)
  · simp only [hneg, if_false, false_and]
    first | rfl | (split <;> rfl)

/-- generated `queue_find` never lets an exception escape and = `Model/Deque.queueFind` -/
theorem queueFind_eq {α : Type} [BEq α] [LawfulBEq α] (q : List α) (key : α → Bool) (rm : Bool) :
    Gen.queueFind q key rm = some (Deque.queueFind q key rm) := by
  unfold Gen.queueFind Deque.queueFind
  cases hf : q.reverse.find? key with
  | none => rfl
  | some h =>
    have hmem : h ∈ q := by
      have := List.mem_of_find?_eq_some hf
      simpa using this
    have hrem : Deque.remove q h = some (q.erase h) := by
      unfold Deque.remove
      have : q.contains h = true := by simpa using hmem
      rw [this]; rfl
    cases rm <;> simp [hrem]

/-- generated `call_pos` never lets an exception escape and = `Model/Deque.callPos` -/
theorem callPos_eq {α : Type} [BEq α] [LawfulBEq α] (q : List α) (pos : Int) (h : α) :
    Gen.callPos q pos h = some (Deque.callPos q pos h) := by
  unfold Gen.callPos Deque.callPos
  have hrem : Deque.remove (q ++ [h]) h = some ((q ++ [h]).erase h) := by
    unfold Deque.remove
    have : (q ++ [h]).contains h = true := by simp
    rw [this]; rfl
  simp only [hrem]

end Asynkit.GenEqC08
