/-
C06 — the segments generated from the GeneratorObject part of src/asynkit/monitor.py
(`Asynkit/Gen/Monitor.lean`, translator/monitor2lean.py) are the transitions of
`Asynkit/Model/AsyncGen.lean` the C06 theorems are about, for every state / argument / resumption:

  GeneratorObjectIterator._first_iter  = `hookInit` + the possibly raising hook call (`goiCallH`), in place
  GeneratorObjectIterator.__del__      = `goiHookGC`
  asend / _athrow (athrow, aclose) / __anext__   = `goiStart` + `goiHookCall` (entry), `goiResume` (resumption)
  GeneratorObject.ayield               = `Monitor.oob` (one more frame)
-/
import Asynkit.Lemmas.GenEqC07

namespace Asynkit.GenEqC06
open Asynkit.Proto (Val Exc Resume)
open Asynkit.Monitor Asynkit.AsyncGen Asynkit.MonRt Asynkit.Gen.Mon Asynkit.GenEqC07

abbrev GSt (ub : UB) := CSt ub.σ × Env × Bool × HookSt × List HookEv

/-- the attributes of the iterator as the generated code sees them -/
def stOf {ub : UB} (g : Goi ub) (hs : HookSt) (evs : List HookEv) : GSt ub := (g.coro, g.env, g.running, hs, evs)

/-- a model outcome read as a segment outcome -/
def ofGoi {ub : UB} {L : Type} (mk : YV → L) (hs : HookSt) (evs : List HookEv) : Goi ub × CallOut → Seg L (GSt ub)
  | (g, .pending y) => .suspended y (mk y) (stOf g hs evs)
  | (g, .returned v) => .returned v (stOf g hs evs)
  | (g, .raised e) => .raised e (stOf g hs evs)

/-- outcome of a consumer call with the hooks in force -/
def ofGoiH {ub : UB} {L : Type} (mk : YV → L) (evs : List HookEv) :
    (Goi ub × HookSt) × CallOut × List HookEv → Seg L (GSt ub)
  | ((g, hs), o, evs') => ofGoi mk hs (evs ++ evs') (g, o)

theorem del_eq (ub : UB) (cfg : HookCfg) (g : Goi ub) (hs : HookSt) (evs : List HookEv) :
    goiDel ub cfg (stOf g hs evs) = stOf g hs (evs ++ goiHookGC hs g) := by
  unfold goiDel goiHookGC stOf
  cases hf : hs.fin <;> cases hd : SCoro.isDone g.coro <;> simp [hf, hd, coroFinished]

/-! the C07 equalities, restated at `c := ofM (asGoi ub)` with the coroutine state typed `CSt ub.σ`
    (definitionally the same type; stated separately so that rewriting finds them) -/
theorem aawaitEntry_goi (ub : UB) (v : Val) (cs : CSt ub.σ) (env : Env) :
    monAawaitEntry (ofM (asGoi ub)) 0 v (cs, env) =
      ofOut (fun y => MonAawaitSusp.p0 (.p0 y)) (asendStart 0 (.send v) (⟨cs, env⟩ : Sys (ofM (asGoi ub)))) :=
  (GenEqC07.aawaitEntry_eq (ofM (asGoi ub)) 0 v cs env).trans (by rw [callStart_aawait])

theorem aawaitResume_goi (ub : UB) (v : Val) (y0 : YV) (r : Resume) (cs : CSt ub.σ) (env : Env) :
    monAawaitResume (ofM (asGoi ub)) 0 v (.p0 (.p0 y0)) r (cs, env) =
      ofOut (fun y => MonAawaitSusp.p0 (.p0 y)) (asendResume 0 r (⟨cs, env⟩ : Sys (ofM (asGoi ub)))) :=
  (GenEqC07.aawaitResume_eq (ofM (asGoi ub)) 0 v y0 r cs env).trans (by rw [callResume_aawait])

theorem athrowEntry_goi (ub : UB) (t : PyThrow) (cs : CSt ub.σ) (env : Env) :
    monAthrowEntry (ofM (asGoi ub)) 0 t (cs, env) =
      ofOut (fun y => MonAthrowSusp.p0 (.p0 y)) (asendStart 0 (.throw t.exc) (⟨cs, env⟩ : Sys (ofM (asGoi ub)))) :=
  (GenEqC07.athrowEntry_eq (ofM (asGoi ub)) 0 t cs env).trans (by rw [callStart_athrow])

theorem athrowResume_goi (ub : UB) (t : PyThrow) (y0 : YV) (r : Resume) (cs : CSt ub.σ) (env : Env) :
    monAthrowResume (ofM (asGoi ub)) 0 t (.p0 (.p0 y0)) r (cs, env) =
      ofOut (fun y => MonAthrowSusp.p0 (.p0 y)) (asendResume 0 r (⟨cs, env⟩ : Sys (ofM (asGoi ub)))) :=
  (GenEqC07.athrowResume_eq (ofM (asGoi ub)) 0 t y0 r cs env).trans (by rw [callResume_athrow])

/-- the consumer call that `_athrow(type, value, traceback)` stands for -/
def copOf : PyThrow → COp
  | .none3 => .aclose
  | .args e => .athrow e

/-- where `_athrow` is suspended: in the `type is not None` branch or in the other -/
def mkP (t : PyThrow) (y : YV) : GoiAthrowPSusp :=
  match t with
  | .none3 => .p0 (.p0 (.p0 y))
  | .args _ => .p1 (.p0 (.p0 y))

macro "goi_bash" : tactic => `(tactic| (
  first
  | done
  | (simp_all (config := { decide := true }) [ofGoi, stOf, ofOut, goiStart, goiResume, Goi.put, Goi.sys,
      COp.monOp, COp.finish, asendFinish, athrowFinish, PyExc.leave, PyExc.isGeneratorExit, PyExc.asOOBData,
      PyExc.isStopAsyncIteration, NoSI, coroFinished, coroNew, SCoro.isDone, isCreated, goiHookCall, mkP, copOf,
      callStart_aawait, callStart_athrow, callResume_aawait, callResume_athrow, PyThrow.exc, PyThrow.isNone,
      ofGoiH, goiCallH, hookRaised, hookCall, hookInit, nativeHookCall])))

/-- `asend`, from the call: the state checks, `_first_iter` (whose hook may raise), `ag_running`, the relay,
    the exception mapping -/
theorem asendEntry_eq (ub : UB) (cfg : HookCfg) (v : Val) (g : Goi ub) (hs : HookSt) (evs : List HookEv) :
    goiAsendEntry ub cfg v (stOf g hs evs) =
      ofGoiH (fun y => GoiAsendSusp.p0 (.p0 (.p0 y))) evs (goiCallH ub cfg hs (.asend v) g) := by
  obtain ⟨coro, env, running⟩ := g
  unfold goiAsendEntry
  simp only [stOf, aawaitEntry_goi]
  have hns := asendStart_noSI 0 (.send v) (⟨coro, env⟩ : Sys (ofM (asGoi ub)))
  rcases hx : asendStart 0 (.send v) (⟨coro, env⟩ : Sys (ofM (asGoi ub))) with ⟨⟨cs', env'⟩, o⟩
  rw [hx] at hns
  cases running with
  | true => goi_bash
  | false =>
    cases coro with
    | done s => goi_bash
    | susp s => cases o <;> (try rename_i e; cases e) <;> goi_bash
    | created s =>
      cases hi : hs.inited <;> cases hf : cfg.firstiter <;> cases hr : cfg.raises <;>
        cases o <;> (try rename_i e; cases e) <;> goi_bash

theorem asendResume_eq (ub : UB) (cfg : HookCfg) (v : Val) (y0 : YV) (r : Resume) (g : Goi ub) (hs : HookSt)
    (evs : List HookEv) (hrun : g.running = true) :
    goiAsendResume ub cfg v (.p0 (.p0 (.p0 y0))) r (stOf g hs evs) =
      ofGoi (fun y => GoiAsendSusp.p0 (.p0 (.p0 y))) hs evs (goiResume ub (.asend v) r g) := by
  obtain ⟨coro, env, running⟩ := g
  simp only at hrun
  subst hrun
  unfold goiAsendResume
  simp only [stOf, aawaitResume_goi]
  have hns := asendResume_noSI 0 r (⟨coro, env⟩ : Sys (ofM (asGoi ub)))
  by_cases hge : r = .throw .genExit
  · subst hge
    obtain ⟨e, he⟩ := asendResume_genExit_raised 0 (⟨coro, env⟩ : Sys (ofM (asGoi ub)))
    rcases hx : asendResume 0 (.throw .genExit) (⟨coro, env⟩ : Sys (ofM (asGoi ub))) with ⟨⟨cs', env'⟩, o⟩
    rw [hx] at hns he
    simp only at he
    subst he
    cases e <;> goi_bash
  · rcases hx : asendResume 0 r (⟨coro, env⟩ : Sys (ofM (asGoi ub))) with ⟨⟨cs', env'⟩, o⟩
    rw [hx] at hns
    cases r with
    | send w => cases o <;> (try rename_i e; cases e) <;> goi_bash
    | throw x =>
      cases x <;> first | exact absurd rfl hge | (cases o <;> (try rename_i e; cases e) <;> goi_bash)

theorem athrowPEntry_eq (ub : UB) (cfg : HookCfg) (t : PyThrow) (g : Goi ub) (hs : HookSt) (evs : List HookEv) :
    goiAthrowPEntry ub cfg t (stOf g hs evs) = ofGoiH (mkP t) evs (goiCallH ub cfg hs (copOf t) g) := by
  obtain ⟨coro, env, running⟩ := g
  unfold goiAthrowPEntry
  simp only [stOf, athrowEntry_goi]
  cases t with
  | none3 =>
    have hns := asendStart_noSI 0 (.throw .genExit) (⟨coro, env⟩ : Sys (ofM (asGoi ub)))
    rcases hx : asendStart 0 (.throw .genExit) (⟨coro, env⟩ : Sys (ofM (asGoi ub))) with ⟨⟨cs', env'⟩, o⟩
    rw [hx] at hns
    cases running with
    | true => goi_bash
    | false =>
      cases coro with
      | done s => goi_bash
      | susp s => cases o <;> (try rename_i e; cases e) <;> goi_bash
      | created s =>
        cases hi : hs.inited <;> cases hf : cfg.firstiter <;> cases hr : cfg.raises <;>
          cases o <;> (try rename_i e; cases e) <;> goi_bash
  | args x =>
    have hns := asendStart_noSI 0 (.throw x) (⟨coro, env⟩ : Sys (ofM (asGoi ub)))
    rcases hx : asendStart 0 (.throw x) (⟨coro, env⟩ : Sys (ofM (asGoi ub))) with ⟨⟨cs', env'⟩, o⟩
    rw [hx] at hns
    cases running with
    | true => goi_bash
    | false =>
      cases coro with
      | done s => goi_bash
      | susp s => cases o <;> (try rename_i e; cases e) <;> goi_bash
      | created s =>
        cases hi : hs.inited <;> cases hf : cfg.firstiter <;> cases hr : cfg.raises <;>
          cases o <;> (try rename_i e; cases e) <;> goi_bash

theorem athrowPResume_eq (ub : UB) (cfg : HookCfg) (t : PyThrow) (y0 : YV) (r : Resume) (g : Goi ub)
    (hs : HookSt) (evs : List HookEv) (hrun : g.running = true) :
    goiAthrowPResume ub cfg t (mkP t y0) r (stOf g hs evs) =
      ofGoi (mkP t) hs evs (goiResume ub (copOf t) r g) := by
  obtain ⟨coro, env, running⟩ := g
  simp only at hrun
  subst hrun
  unfold goiAthrowPResume
  have hns := asendResume_noSI 0 r (⟨coro, env⟩ : Sys (ofM (asGoi ub)))
  cases t with
  | none3 =>
    simp only [stOf, mkP, athrowResume_goi]
    by_cases hge : r = .throw .genExit
    · subst hge
      obtain ⟨e, he⟩ := asendResume_genExit_raised 0 (⟨coro, env⟩ : Sys (ofM (asGoi ub)))
      rcases hx : asendResume 0 (.throw .genExit) (⟨coro, env⟩ : Sys (ofM (asGoi ub))) with ⟨⟨cs', env'⟩, o⟩
      rw [hx] at hns he
      simp only at he
      subst he
      cases e <;> goi_bash
    · rcases hx : asendResume 0 r (⟨coro, env⟩ : Sys (ofM (asGoi ub))) with ⟨⟨cs', env'⟩, o⟩
      rw [hx] at hns
      cases r with
      | send w => cases o <;> (try rename_i e; cases e) <;> goi_bash
      | throw x =>
        cases x <;> first | exact absurd rfl hge | (cases o <;> (try rename_i e; cases e) <;> goi_bash)
  | args x0 =>
    simp only [stOf, mkP, athrowResume_goi]
    by_cases hge : r = .throw .genExit
    · subst hge
      obtain ⟨e, he⟩ := asendResume_genExit_raised 0 (⟨coro, env⟩ : Sys (ofM (asGoi ub)))
      rcases hx : asendResume 0 (.throw .genExit) (⟨coro, env⟩ : Sys (ofM (asGoi ub))) with ⟨⟨cs', env'⟩, o⟩
      rw [hx] at hns he
      simp only at he
      subst he
      cases e <;> goi_bash
    · rcases hx : asendResume 0 r (⟨coro, env⟩ : Sys (ofM (asGoi ub))) with ⟨⟨cs', env'⟩, o⟩
      rw [hx] at hns
      cases r with
      | send w => cases o <;> (try rename_i e; cases e) <;> goi_bash
      | throw x =>
        cases x <;> first | exact absurd rfl hge | (cases o <;> (try rename_i e; cases e) <;> goi_bash)

/-! ### the public wrappers: one more `await` frame (stated for resumptions other than GeneratorExit, which
    closes the consumer — not a consumer call of the property) -/

theorem goiStart_noSI (ub : UB) (op : COp) (g : Goi ub) : NoSI (goiStart ub op g).2 := by
  unfold goiStart
  split
  · intro v; simp
  · split
    · intro v; cases op <;> simp
    · have h := callStart_noSI 0 op.monOp g.sys
      intro v
      cases op <;> (simp only [COp.finish]; cases hx : (callStart 0 _ g.sys).2 <;>
        (try rename_i e; cases e) <;> simp_all [asendFinish, athrowFinish, NoSI])

theorem goiResume_noSI (ub : UB) (op : COp) (r : Resume) (g : Goi ub) : NoSI (goiResume ub op r g).2 := by
  unfold goiResume
  have h := callResume_noSI 0 op.monOp r g.sys
  intro v
  cases op <;> (simp only [COp.finish]; cases hx : (callResume 0 _ r g.sys).2 <;>
    (try rename_i e; cases e) <;> simp_all [asendFinish, athrowFinish, NoSI])

theorem goiCallH_noSI (ub : UB) (cfg : HookCfg) (hs : HookSt) (op : COp) (g : Goi ub) :
    NoSI (goiCallH ub cfg hs op g).2.1 := by
  unfold goiCallH
  simp only
  by_cases hr : hookRaised cfg (goiHookCall cfg hs g).2 = true
  · simp only [hr, ↓reduceIte]; intro v; simp [hookExc]
  · simp only [hr]; exact goiStart_noSI ub op g

theorem goiStart_aclose_ret (ub : UB) (g g' : Goi ub) (w : Val) (h : goiStart ub .aclose g = (g', .returned w)) :
    w = 0 := by
  unfold goiStart at h
  split at h
  · simp at h
  · split at h
    · simp at h; exact h.2.symm
    · simp only [COp.finish, Prod.mk.injEq] at h
      cases hx : (callStart 0 COp.aclose.monOp g.sys).2 <;> (try rename_i e; cases e) <;>
        simp_all [athrowFinish]

theorem goiCallH_aclose_ret (ub : UB) (cfg : HookCfg) (hs : HookSt) (g : Goi ub) (x : Goi ub × HookSt)
    (evs' : List HookEv) (w : Val) (h : goiCallH ub cfg hs .aclose g = (x, .returned w, evs')) : w = 0 := by
  unfold goiCallH at h
  simp only at h
  by_cases hr : hookRaised cfg (goiHookCall cfg hs g).2 = true
  · simp [hr] at h
  · simp [hr] at h
    exact goiStart_aclose_ret ub g (goiStart ub .aclose g).1 w (by rw [← h.2.1])

theorem anextEntry_eq (ub : UB) (cfg : HookCfg)  (g : Goi ub) (hs : HookSt) (evs : List HookEv) :
    goiAnextEntry ub cfg  (stOf g hs evs) = ofGoiH (fun y => GoiAnextSusp.p0 (.p0 (.p0 (.p0 y)))) evs (goiCallH ub cfg hs (.asend 0) g) := by
  unfold goiAnextEntry
  have e := asendEntry_eq ub cfg 0 g hs evs
  simp only [stOf, copOf] at e ⊢
  rw [e]
  have hns := goiCallH_noSI ub cfg hs (.asend 0) g
  rcases hx : goiCallH ub cfg hs (.asend 0) g with ⟨⟨g', hs'⟩, o, evs'⟩
  rw [hx] at hns
  cases o with
  | pending y => simp [ofGoiH, ofGoi, stOf, mkP]
  | returned w => simp [ofGoiH, ofGoi, stOf]
  | raised e => simp [ofGoiH, ofGoi, stOf, leave_exc e (fun v h => hns v (by rw [h]))]

theorem athrowEntry_eq (ub : UB) (cfg : HookCfg) (x : Exc) (g : Goi ub) (hs : HookSt) (evs : List HookEv) :
    goiAthrowEntry ub cfg (.args x) (stOf g hs evs) = ofGoiH (fun y => GoiAthrowSusp.p0 (mkP (.args x) y)) evs (goiCallH ub cfg hs (.athrow x) g) := by
  unfold goiAthrowEntry
  have e := athrowPEntry_eq ub cfg (.args x) g hs evs
  simp only [stOf, copOf] at e ⊢
  rw [e]
  have hns := goiCallH_noSI ub cfg hs (.athrow x) g
  rcases hx : goiCallH ub cfg hs (.athrow x) g with ⟨⟨g', hs'⟩, o, evs'⟩
  rw [hx] at hns
  cases o with
  | pending y => simp [ofGoiH, ofGoi, stOf, mkP]
  | returned w => simp [ofGoiH, ofGoi, stOf]
  | raised e => simp [ofGoiH, ofGoi, stOf, leave_exc e (fun v h => hns v (by rw [h]))]

theorem acloseEntry_eq (ub : UB) (cfg : HookCfg)  (g : Goi ub) (hs : HookSt) (evs : List HookEv) :
    goiAcloseEntry ub cfg  (stOf g hs evs) = ofGoiH (fun y => GoiAcloseSusp.p0 (mkP .none3 y)) evs (goiCallH ub cfg hs .aclose g) := by
  unfold goiAcloseEntry
  have e := athrowPEntry_eq ub cfg .none3 g hs evs
  simp only [stOf, copOf] at e ⊢
  rw [e]
  have hns := goiCallH_noSI ub cfg hs .aclose g
  rcases hx : goiCallH ub cfg hs .aclose g with ⟨⟨g', hs'⟩, o, evs'⟩
  rw [hx] at hns
  cases o with
  | pending y => simp [ofGoiH, ofGoi, stOf, mkP]
  | returned w => have := goiCallH_aclose_ret ub cfg hs g (g', hs') evs' w hx; subst this; simp [ofGoiH, ofGoi, stOf]
  | raised e => simp [ofGoiH, ofGoi, stOf, leave_exc e (fun v h => hns v (by rw [h]))]

theorem goiResume_aclose_ret (ub : UB) (r : Resume) (g g' : Goi ub) (w : Val)
    (h : goiResume ub .aclose r g = (g', .returned w)) : w = 0 := by
  unfold goiResume at h
  simp only [COp.finish, Prod.mk.injEq] at h
  cases hx : (callResume 0 COp.aclose.monOp r g.sys).2 <;> (try rename_i e; cases e) <;>
    simp_all [athrowFinish]

theorem anextResume_eq (ub : UB) (cfg : HookCfg)  (y0 : YV) (r : Resume) (hr : r ≠ .throw .genExit) (g : Goi ub)
    (hs : HookSt) (evs : List HookEv) (hrun : g.running = true) :
    goiAnextResume ub cfg  (.p0 (.p0 (.p0 (.p0 y0)))) r (stOf g hs evs) =
      ofGoi (fun y => GoiAnextSusp.p0 (.p0 (.p0 (.p0 y)))) hs evs (goiResume ub (.asend 0) r g) := by
  unfold goiAnextResume
  have e := asendResume_eq ub cfg 0 y0 r g hs evs hrun
  simp only [stOf, copOf, mkP] at e ⊢
  have hns := goiResume_noSI ub (.asend 0) r g
  cases r with
  | send w =>
    simp only [e]
    rcases hx : goiResume ub (.asend 0) (.send w) g with ⟨g', o⟩
    rw [hx] at hns
    cases o with
    | pending y => simp [ofGoi, stOf, mkP]
    | returned w' => simp [ofGoi, stOf]
    | raised x => simp [ofGoi, stOf, leave_exc x (fun v h => hns v (by rw [h]))]
  | throw x0 =>
    cases x0 <;> first | exact absurd rfl hr | (
      simp only [e]
      rcases hx : goiResume ub (.asend 0) (.throw _) g with ⟨g', o⟩
      rw [hx] at hns
      cases o with
      | pending y => simp [ofGoi, stOf, mkP]
      | returned w' => simp [ofGoi, stOf]
      | raised x => simp [ofGoi, stOf, leave_exc x (fun v h => hns v (by rw [h]))])

theorem athrowResume_eq (ub : UB) (cfg : HookCfg) (x : Exc) (y0 : YV) (r : Resume) (hr : r ≠ .throw .genExit) (g : Goi ub)
    (hs : HookSt) (evs : List HookEv) (hrun : g.running = true) :
    goiAthrowResume ub cfg (.args x) (.p0 (.p1 (.p0 (.p0 y0)))) r (stOf g hs evs) =
      ofGoi (fun y => GoiAthrowSusp.p0 (.p1 (.p0 (.p0 y)))) hs evs (goiResume ub (.athrow x) r g) := by
  unfold goiAthrowResume
  have e := athrowPResume_eq ub cfg (.args x) y0 r g hs evs hrun
  simp only [stOf, copOf, mkP] at e ⊢
  have hns := goiResume_noSI ub (.athrow x) r g
  cases r with
  | send w =>
    simp only [e]
    rcases hx : goiResume ub (.athrow x) (.send w) g with ⟨g', o⟩
    rw [hx] at hns
    cases o with
    | pending y => simp [ofGoi, stOf, mkP]
    | returned w' => simp [ofGoi, stOf]
    | raised x => simp [ofGoi, stOf, leave_exc x (fun v h => hns v (by rw [h]))]
  | throw x0 =>
    cases x0 <;> first | exact absurd rfl hr | (
      simp only [e]
      rcases hx : goiResume ub (.athrow x) (.throw _) g with ⟨g', o⟩
      rw [hx] at hns
      cases o with
      | pending y => simp [ofGoi, stOf, mkP]
      | returned w' => simp [ofGoi, stOf]
      | raised x => simp [ofGoi, stOf, leave_exc x (fun v h => hns v (by rw [h]))])

theorem acloseResume_eq (ub : UB) (cfg : HookCfg)  (y0 : YV) (r : Resume) (hr : r ≠ .throw .genExit) (g : Goi ub)
    (hs : HookSt) (evs : List HookEv) (hrun : g.running = true) :
    goiAcloseResume ub cfg  (.p0 (.p0 (.p0 (.p0 y0)))) r (stOf g hs evs) =
      ofGoi (fun y => GoiAcloseSusp.p0 (.p0 (.p0 (.p0 y)))) hs evs (goiResume ub .aclose r g) := by
  unfold goiAcloseResume
  have e := athrowPResume_eq ub cfg .none3 y0 r g hs evs hrun
  simp only [stOf, copOf, mkP] at e ⊢
  have hns := goiResume_noSI ub .aclose r g
  cases r with
  | send w =>
    simp only [e]
    rcases hx : goiResume ub .aclose (.send w) g with ⟨g', o⟩
    rw [hx] at hns
    cases o with
    | pending y => simp [ofGoi, stOf, mkP]
    | returned w' => have := goiResume_aclose_ret ub _ g g' w' hx; subst this; simp [ofGoi, stOf]
    | raised x => simp [ofGoi, stOf, leave_exc x (fun v h => hns v (by rw [h]))]
  | throw x0 =>
    cases x0 <;> first | exact absurd rfl hr | (
      simp only [e]
      rcases hx : goiResume ub .aclose (.throw _) g with ⟨g', o⟩
      rw [hx] at hns
      cases o with
      | pending y => simp [ofGoi, stOf, mkP]
      | returned w' => have := goiResume_aclose_ret ub _ g g' w' hx; subst this; simp [ofGoi, stOf]
      | raised x => simp [ofGoi, stOf, leave_exc x (fun v h => hns v (by rw [h]))])

/-- `GeneratorObject.ayield(value)` is `await self.monitor.oob(value)` -/
theorem ayieldEntry_eq (m : MonId) (v : Val) (env : Env) :
    gobjAyieldEntry m v env =
      if env m = 0 then .raised (.runtime rtNotActive) env
      else .suspended (.req m v) (.p0 .p0) (env.set m (-1)) := by
  unfold gobjAyieldEntry
  simp only [GenEqC07.oobEntry_eq]
  by_cases h : env m = 0 <;> simp [h, PyExc.leave]

theorem ayieldResume_eq (m : MonId) (v w : Val) (e : Exc) (he : e ≠ .genExit) (env : Env) :
    gobjAyieldResume m v (.p0 .p0) (.send w) env = .returned w env ∧
    gobjAyieldResume m v (.p0 .p0) (.throw e) env = .raised (PyExc.leave (.exc e)) env := by
  constructor
  · rfl
  · unfold gobjAyieldResume
    cases e <;> simp_all [monOobResume, PyExc.leave]

end Asynkit.GenEqC06
