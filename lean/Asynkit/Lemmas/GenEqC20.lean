/-
C20 — translation tie.  `Asynkit/Gen/CoroState.lean` is regenerated on every run from
src/asynkit/coroutine.py by translator/corostate2lean.py (helpers `coro_get_frame`,
`_asyncgen_frame_state`, `coro_is_new`, `coro_is_suspended`, `coro_is_finished`, plus the CPython
3.12 `inspect` functions they call, transcribed).  This file proves that on every object view the
attribute table of Model/CoroState.lean can produce — every kind, every phase, both values of
`ag_running`, every length of the code object's prologue and every resting position of a started
frame — the generated functions return exactly what the hand-written helper definitions return.
So `helpers_exact` / `helpers_track_history` (Props/C20.lean) are statements about what the source
says now: a semantic change of a helper changes the generated text and breaks a proof here, a
harmless rewrite re-proves.
-/
import Asynkit.Gen.CoroState
import Asynkit.Model.CoroState

namespace Asynkit.CoroState
open Asynkit.PyView Asynkit.Gen.CoroState

-- every primitive of the object view is unfolded by `simp` in this file, so that a rewrite of the
-- source that reaches the same values through other primitives (hasattr instead of getattr-with-
-- default, an extra read of an attribute that is there, …) still proves
attribute [local simp] ObjView.getFrame ObjView.getCode ObjView.getRunning ObjView.getSuspended ObjView.getAwait
  ObjView.getSuspendedOr ObjView.getRunningOr ObjView.hasAttr ObjView.owns PyType.pfx always hasSuspended deref
  opmapGet bind Except.bind pure Except.pure

def pyType : Kind → PyType
  | .coroutine => .coroutine
  | .genCoroutine => .generator
  | .asyncGen => .asyncGen

/-- a code object whose RETURN_GENERATOR (opcode 75 in CPython 3.12) comes after `pro` prologue
    instructions (COPY_FREE_VARS / MAKE_CELL …); every other position holds some other opcode -/
def codeOf (pro : Nat) : CodeView := ⟨fun i => if i = (pro : Int) then 75 else 9⟩

/-- The object view of an object of kind `k` in table state `s`.  `pro` = length of the prologue,
    `pos` = how far behind RETURN_GENERATOR a started frame rests; `has312` = the interpreter
    exposes `*_suspended` (CPython ≥ 3.12 for async generators). -/
def viewOf (k : Kind) (s : St) (pro pos : Nat) (has312 : Bool := true) : ObjView :=
  let a := expose k s
  { type := pyType k
    frame := if a.frame then
        some ⟨if a.fresh then (pro : Int) else (pro : Int) + 1 + pos, if a.onStack then some () else none⟩
      else none
    code := codeOf pro
    running := a.running
    suspended := if has312 then some a.suspended else none
    await := if a.awaiting then some () else none }

/-- the strings `_asyncgen_frame_state` returns -/
def IState.str : IState → String
  | .created => "created" | .running => "running" | .suspended => "suspended" | .closed => "closed"

/-- the constants of `inspect` -/
def IState.coroName : IState → String
  | .created => "CORO_CREATED" | .running => "CORO_RUNNING" | .suspended => "CORO_SUSPENDED" | .closed => "CORO_CLOSED"
def IState.genName : IState → String
  | .created => "GEN_CREATED" | .running => "GEN_RUNNING" | .suspended => "GEN_SUSPENDED" | .closed => "GEN_CLOSED"

theorem lasti_facts (pro pos : Nat) :
    decide ((pro : Int) < 0) = false ∧ decide ((pro : Int) + 1 + pos < 0) = false ∧
    ((pro : Int) + 1 + (pos : Int) = (pro : Int)) = False := by
  refine ⟨by simp, by simp; omega, by simp; omega⟩

theorem gen_asyncgen_frame_state (s : St) (pro pos : Nat) :
    _asyncgen_frame_state (viewOf .asyncGen s pro pos) =
      .ok (agenFrameState (expose .asyncGen s)).str := by
  obtain ⟨ph, f⟩ := s
  obtain ⟨h1, h2, h3⟩ := lasti_facts pro pos
  cases ph <;> cases f <;>
    simp [_asyncgen_frame_state, viewOf, expose, inspectOf, agenFrameState, Phase.isSusp, pyType, codeOf,
      ObjView.getFrame, ObjView.getCode, ObjView.getSuspendedOr, ObjView.owns, PyType.pfx, deref, IState.str,
      opmapGet, h1, h2, h3, bind, Except.bind, pure, Except.pure]

/-- the < 3.12 fallback of `_asyncgen_frame_state` (no `ag_suspended`): `f_back` decides between
    suspended and executing -/
def agenFrameStateFallback (a : Attrs) : IState :=
  if !a.frame then .closed
  else if a.fresh then .created
  else if a.onStack then .running
  else .suspended

theorem gen_asyncgen_frame_state_pre312 (s : St) (pro pos : Nat) :
    _asyncgen_frame_state (viewOf .asyncGen s pro pos false) =
      .ok (agenFrameStateFallback (expose .asyncGen s)).str := by
  obtain ⟨ph, f⟩ := s
  obtain ⟨h1, h2, h3⟩ := lasti_facts pro pos
  cases ph <;> cases f <;>
    simp [_asyncgen_frame_state, viewOf, expose, inspectOf, agenFrameStateFallback, Phase.isSusp, pyType, codeOf,
      ObjView.getFrame, ObjView.getCode, ObjView.getSuspendedOr, ObjView.owns, PyType.pfx, deref, IState.str,
      opmapGet, h1, h2, h3, bind, Except.bind, pure, Except.pure]

/-- `coro_get_frame` returns the object's frame, whatever its kind -/
theorem gen_coro_get_frame (k : Kind) (s : St) (pro pos : Nat) :
    coro_get_frame (viewOf k s pro pos) = .ok (viewOf k s pro pos).frame := by
  cases k <;>
    simp [coro_get_frame, _coro_getattr__frame, viewOf, pyType, ObjView.hasAttr, ObjView.getFrame, ObjView.owns,
      PyType.pfx, always, bind, Except.bind, pure, Except.pure]

theorem gen_coro_is_finished (k : Kind) (s : St) (pro pos : Nat) :
    coro_is_finished (viewOf k s pro pos) = .ok (isFinished k (expose k s)) := by
  obtain ⟨ph, f⟩ := s
  cases k <;> cases ph <;> cases f <;>
    simp [coro_is_finished, coro_get_frame, _coro_getattr__frame, viewOf, expose, isFinished, pyType,
      ObjView.hasAttr, ObjView.getFrame, ObjView.owns, PyType.pfx, always, bind, Except.bind, pure, Except.pure]

/-- the `inspect.get*state` strings against the table's `inspect` column -/
theorem gen_getcoroutinestate (s : St) (pro pos : Nat) :
    inspect_getcoroutinestate (viewOf .coroutine s pro pos) =
      .ok (expose .coroutine s).inspect.coroName := by
  obtain ⟨ph, f⟩ := s
  cases ph <;> cases f <;>
    simp [inspect_getcoroutinestate, viewOf, expose, inspectOf, Phase.isSusp, pyType, ObjView.getFrame,
      ObjView.getRunning, ObjView.getSuspended, ObjView.owns, PyType.pfx, bind, Except.bind, pure, Except.pure,
      IState.coroName, IState.genName]

theorem gen_getgeneratorstate (s : St) (pro pos : Nat) :
    inspect_getgeneratorstate (viewOf .genCoroutine s pro pos) =
      .ok (expose .genCoroutine s).inspect.genName := by
  obtain ⟨ph, f⟩ := s
  cases ph <;> cases f <;>
    simp [inspect_getgeneratorstate, viewOf, expose, inspectOf, Phase.isSusp, pyType, ObjView.getFrame,
      ObjView.getRunning, ObjView.getSuspended, ObjView.owns, PyType.pfx, bind, Except.bind, pure, Except.pure,
      IState.coroName, IState.genName]

@[simp] theorem viewOf_type (k : Kind) (s : St) (pro pos : Nat) (h : Bool) :
    (viewOf k s pro pos h).type = pyType k := rfl

/- The three verdict functions: unfold the source's own control flow (whatever the order of its
   kind tests), replace the calls of `inspect.get*state` / `_asyncgen_frame_state` by their
   characterisations above, and compare the returned constant with the table's column. -/
theorem gen_coro_is_new (k : Kind) (s : St) (pro pos : Nat) :
    coro_is_new (viewOf k s pro pos) = .ok (isNew k (expose k s)) := by
  cases k
  all_goals
    simp [coro_is_new, inspect_iscoroutine, inspect_isgenerator, inspect_isasyncgen, pyType,
      gen_getcoroutinestate, gen_getgeneratorstate, gen_asyncgen_frame_state, isNew,
      bind, Except.bind, pure, Except.pure]
  all_goals first
    | done
    | (cases (expose Kind.coroutine s).inspect <;> simp [IState.coroName]; done)
    | (cases (expose Kind.genCoroutine s).inspect <;> simp [IState.genName]; done)
    | (cases agenFrameState (expose Kind.asyncGen s) <;> simp [IState.str]; done)

theorem gen_coro_is_suspended (k : Kind) (s : St) (pro pos : Nat) :
    coro_is_suspended (viewOf k s pro pos) = .ok (isSuspended k (expose k s)) := by
  cases k
  all_goals
    simp [coro_is_suspended, inspect_iscoroutine, inspect_isgenerator, inspect_isasyncgen, pyType,
      gen_getcoroutinestate, gen_getgeneratorstate, gen_asyncgen_frame_state, isSuspended,
      bind, Except.bind, pure, Except.pure]
  all_goals first
    | done
    | (cases (expose Kind.coroutine s).inspect <;> simp [IState.coroName]; done)
    | (cases (expose Kind.genCoroutine s).inspect <;> simp [IState.genName]; done)
    | (cases agenFrameState (expose Kind.asyncGen s) <;> simp [IState.str]; done)

/-- anything that is not a coroutine, generator or async generator is rejected with TypeError -/
theorem gen_rejects_other (v : ObjView) (h : v.type = .other) :
    coro_is_new v = .error .typeError ∧ coro_is_suspended v = .error .typeError ∧
    coro_is_finished v = .error .typeError := by
  simp [coro_is_new, coro_is_suspended, coro_is_finished, coro_get_frame, _coro_getattr__frame,
    inspect_iscoroutine, inspect_isgenerator, inspect_isasyncgen, ObjView.hasAttr, ObjView.owns, PyType.pfx,
    h, bind, Except.bind, pure, Except.pure, throw, throwThe, MonadExceptOf.throw]

/-- **The source's helpers are exact on the whole table**: what src/asynkit/coroutine.py says
    now, run on the view of any kind in any state, is: new ⇔ created, suspended ⇔ paused at an
    await or a yield, finished ⇔ closed (hence none of them ⇔ executing). -/
theorem gen_helpers_exact (k : Kind) (s : St) (pro pos : Nat) :
    coro_is_new (viewOf k s pro pos) = .ok (s.phase == .created) ∧
    coro_is_suspended (viewOf k s pro pos) = .ok s.phase.isSusp ∧
    coro_is_finished (viewOf k s pro pos) = .ok (s.phase == .closed) := by
  rw [gen_coro_is_new, gen_coro_is_suspended, gen_coro_is_finished]
  obtain ⟨ph, f⟩ := s
  cases k <;> cases ph <;> cases f <;> exact ⟨rfl, rfl, rfl⟩

end Asynkit.CoroState
