/-
C04 — translation tie.  `Asynkit/Gen/CtxResume.lean` is regenerated on every run from
src/asynkit/coroutine.py by translator/ctxresume2lean.py: `CoroStart._resume` statement by
statement, and, for every entry point of CoroStart, whether every resumption of the coroutine
there is handed to `self._resume`.  This file proves that this is exactly the wrapping the C04
theorems are about (`inCtx true`, `repaired`), so `ctx_every_segment`, `ctx_none_shared`,
`eager_private_copy` … are statements about the context selection the source performs now.
-/
import Asynkit.Gen.CtxResume
import Asynkit.Model.Ctx

namespace Asynkit.Ctx
open Asynkit.Gen.CtxResume

/-- `CoroStart._resume` as written: enters the supplied Context whenever there is one — also an
    empty one (`nonEmpty = false`) —, never fails, and is `inCtx true` of the model. -/
theorem gen_resume_eq_inCtx {α : Type} (ctx : Option Mapping) (nonEmpty : Bool) (cur : Mapping)
    (f : Mapping → R α) :
    resume ctx nonEmpty cur f = some (inCtx true ctx cur f) := by
  cases ctx <;> cases nonEmpty <;> simp [resume, runIn, plain, inCtx]

/-- Every entry point hands every resumption of the coroutine to `_resume`: the `Wraps` value read
    off the source is the `repaired` one of Model/Ctx.lean. -/
theorem gen_wraps_eq_repaired : wraps = repaired := by
  simp [wraps, repaired]

/-- each entry point was found in the source (the analysis saw at least one resumption site in
    `_start`, in each of the four places of `__await__`, in `athrow`, `throw` and `close`) -/
theorem gen_sites_nonempty : ∀ n ∈ sites, 0 < n := by decide

/-- `coro_eager` supplies `copy_context()`, `coro_await` passes its `context` argument on -/
theorem gen_constructors : eagerCopies = true ∧ awaitPasses = true := by decide

/-- Consequence: an entry point of the model run with the wrapping read off the source is the
    entry point the theorems are stated for. -/
theorem gen_step_eq {b : EBody} (w : CS b) (op : Op) (cur : Mapping) :
    step wraps w op cur = step repaired w op cur := by
  rw [gen_wraps_eq_repaired]

end Asynkit.Ctx
