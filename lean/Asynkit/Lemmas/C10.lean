/-
Helper lemmas for C10: strict weak orders, the order on queue entries, the root of a heap is
minimal, heap invariant of the PosPQ operations, draining a heap gives a sorted list.
(Property statements live in Props/C10.lean.)
-/
import Asynkit.Lemmas.Heap
import Asynkit.Model.PosPQ
import Asynkit.Props.C19

namespace Asynkit

/-- strict weak order, on `Bool`-valued comparisons (what `<` of a sane priority type is) -/
structure SWO {α : Type} (lt : α → α → Bool) : Prop where
  irrefl : ∀ a, lt a a = false
  trans : ∀ a b c, lt a b = true → lt b c = true → lt a c = true
  negTrans : ∀ a b c, lt a b = false → lt b c = false → lt a c = false

/-- `PriorityValue.__lt__` is a strict weak order: lexicographic on (class, base + boost) -/
theorem PV.lt_swo : SWO PV.lt where
  irrefl a := by simp [PV.lt]
  trans a b c h1 h2 := by
    simp only [PV.lt] at *
    split at h1 <;> split at h2 <;> split <;> simp_all <;> grind
  negTrans a b c h1 h2 := by
    simp only [PV.lt] at *
    split at h1 <;> split at h2 <;> split <;> simp_all <;> grind

/-- `PriEntry.__lt__` over a strict weak order is a strict weak order (priority, then arrival) -/
theorem Entry.lt_swo {π : Type} {plt : π → π → Bool} (h : SWO plt) : SWO (Entry.lt plt) where
  irrefl a := by simp [Entry.lt, h.irrefl]
  trans a b c h1 h2 := by
    have t1 := h.trans a.pri b.pri c.pri
    have n1 := h.negTrans a.pri c.pri b.pri
    have n2 := h.negTrans b.pri a.pri c.pri
    have n3 := h.negTrans c.pri b.pri a.pri
    simp only [Entry.lt, Bool.or_eq_true, Bool.and_eq_true, Bool.not_eq_true', decide_eq_true_eq] at *
    cases hab : plt a.pri b.pri <;> cases hba : plt b.pri a.pri <;> cases hbc : plt b.pri c.pri <;>
      cases hcb : plt c.pri b.pri <;> cases hac : plt a.pri c.pri <;> cases hca : plt c.pri a.pri <;>
      simp_all <;> omega
  negTrans a b c h1 h2 := by
    have t1 := h.trans c.pri b.pri a.pri
    have t2 := h.trans a.pri b.pri c.pri
    have n1 := h.negTrans a.pri b.pri c.pri
    have n2 := h.negTrans c.pri a.pri b.pri
    have n3 := h.negTrans b.pri c.pri a.pri
    have i1 := h.irrefl a.pri
    simp only [Entry.lt, Bool.or_eq_false_iff, Bool.and_eq_false_iff, Bool.not_eq_false',
      decide_eq_false_iff_not] at *
    cases hab : plt a.pri b.pri <;> cases hba : plt b.pri a.pri <;> cases hbc : plt b.pri c.pri <;>
      cases hcb : plt c.pri b.pri <;> cases hac : plt a.pri c.pri <;> cases hca : plt c.pri a.pri <;>
      simp_all <;> omega

/-- the order on ready-queue entries, spelled out: class, then priority value, then arrival -/
theorem entryLt_iff_lex (a b : Entry PV) :
    Entry.lt PV.lt a b = true ↔
      (a.pri.cls < b.pri.cls ∨ (a.pri.cls = b.pri.cls ∧
        (a.pri.priority < b.pri.priority ∨ (a.pri.priority = b.pri.priority ∧ a.seq < b.seq)))) := by
  simp only [Entry.lt, PV.lt]
  by_cases hc : a.pri.cls = b.pri.cls
  · simp only [hc, bne_self_eq_false, Bool.false_eq_true, if_false, Nat.lt_irrefl, false_or, true_and]
    simp only [Bool.or_eq_true, Bool.and_eq_true, Bool.not_eq_true', decide_eq_true_eq, decide_eq_false_iff_not]
    grind
  · have hc' : ¬ b.pri.cls = a.pri.cls := fun e => hc e.symm
    have h1 : (a.pri.cls != b.pri.cls) = true := by simp [hc]
    have h2 : (b.pri.cls != a.pri.cls) = true := by simp [hc']
    simp only [h1, h2, if_true, hc, false_and, or_false]
    simp only [Bool.or_eq_true, Bool.and_eq_true, Bool.not_eq_true', decide_eq_true_eq, decide_eq_false_iff_not]
    omega

theorem not_lex_of_entryLt_false (a b : Entry PV) (h : Entry.lt PV.lt a b = false) :
    ¬ (a.pri.cls < b.pri.cls ∨ (a.pri.cls = b.pri.cls ∧
        (a.pri.priority < b.pri.priority ∨ (a.pri.priority = b.pri.priority ∧ a.seq < b.seq)))) := by
  intro hh
  have := (entryLt_iff_lex a b).mpr hh
  rw [h] at this
  exact absurd this (by simp)

/-- the root of a heap is minimal: no element is smaller -/
theorem isHeap_root_min {α : Type} {lt : α → α → Bool} (h : SWO lt) (l : List α) (hl : IsHeap lt l) :
    ∀ i (hi : i < l.length), lt l[i] (l[0]'(by omega)) = false := by
  intro i
  induction i using Nat.strongRecOn with
  | _ i ih =>
    intro hi
    by_cases h0 : i = 0
    · subst h0; exact h.irrefl _
    · have hp : (i - 1) / 2 < i := by omega
      have hpl : (i - 1) / 2 < l.length := by omega
      exact h.negTrans _ _ _ (hl i (by omega) hi) (ih _ hp hpl)

theorem isHeap_head_min {α : Type} {lt : α → α → Bool} (h : SWO lt) (a : α) (l : List α)
    (hl : IsHeap lt (a :: l)) : ∀ e ∈ a :: l, lt e a = false := by
  intro e he
  obtain ⟨i, hi, rfl⟩ := List.getElem_of_mem he
  exact isHeap_root_min h (a :: l) hl i hi

theorem isHeap_dropLast {α : Type} {lt : α → α → Bool} (l : List α) (h : IsHeap lt l) :
    IsHeap lt l.dropLast := by
  intro i hi hlen
  simp only [List.length_dropLast] at hlen
  have := h i hi (by omega)
  simpa [List.getElem_dropLast] using this

namespace PQ
variable {π : Type} {H : HeapLib (Entry π)} {plt : π → π → Bool}

theorem popEntry_spec (hH : H.Lawful (Entry.lt plt)) (s : PQ π) (hs : IsHeap (Entry.lt plt) s.pq) :
    match s.popEntry H plt with
    | none => s.pq = []
    | some (e, s') => ∃ l, s.pq = e :: l ∧ s'.pq.Perm l ∧ IsHeap (Entry.lt plt) s'.pq := by
  unfold popEntry
  cases hq : s.pq with
  | nil => simp [hH.pop_nil]
  | cons a l =>
    obtain ⟨l', h1, h2, h3⟩ := hH.pop_cons a l
    simp only [h1, resetIfEmpty]
    exact ⟨l, rfl, h2, h3 (hq ▸ hs)⟩

theorem drain_mem (hH : H.Lawful (Entry.lt plt)) (n : Nat) (s : PQ π) (hs : IsHeap (Entry.lt plt) s.pq) :
    ∀ e ∈ drain H plt n s, e ∈ s.pq := by
  induction n generalizing s with
  | zero => simp [drain]
  | succ n ih =>
    have hp := popEntry_spec hH s hs
    unfold drain
    cases hpe : s.popEntry H plt with
    | none => simp
    | some r =>
      obtain ⟨e, s'⟩ := r
      rw [hpe] at hp
      obtain ⟨l, h1, h2, h3⟩ := hp
      intro x hx
      simp only [List.mem_cons] at hx
      rcases hx with rfl | hx
      · rw [h1]; simp
      · rw [h1]; exact List.mem_cons_of_mem _ (h2.subset (ih s' h3 x hx))

/-- popping a lawful heap until it is empty yields the entries in sorted order -/
theorem drain_sorted' (hH : H.Lawful (Entry.lt plt)) (hp : SWO plt) (n : Nat) (s : PQ π)
    (hs : IsHeap (Entry.lt plt) s.pq) : Sorted (Entry.lt plt) (drain H plt n s) := by
  induction n generalizing s with
  | zero => simp [drain, Sorted]
  | succ n ih =>
    have hpop := popEntry_spec hH s hs
    unfold drain
    cases hpe : s.popEntry H plt with
    | none => simp [Sorted]
    | some r =>
      obtain ⟨e, s'⟩ := r
      rw [hpe] at hpop
      obtain ⟨l, h1, h2, h3⟩ := hpop
      show List.Pairwise _ (e :: drain H plt n s')
      refine List.Pairwise.cons ?_ (ih s' h3)
      intro x hx
      have hx' : x ∈ e :: l := List.mem_cons_of_mem _ (h2.subset (drain_mem hH n s' h3 x hx))
      exact isHeap_head_min (Entry.lt_swo hp) e l (h1 ▸ hs) x hx'

end PQ
end Asynkit

namespace Asynkit
namespace PosPQ
variable {H : HeapLib (Entry PV)}

/-- the comparison of ready-queue entries -/
abbrev elt : Entry PV → Entry PV → Bool := Entry.lt PV.lt

@[simp] theorem resetIfEmpty_pq {π : Type} (seq : Nat) (l : List (Entry π)) :
    (PQ.resetIfEmpty seq l).pq = l := rfl

theorem isHeap_doMaintenance (hH : H.Lawful elt) (s : PosPQ) (draw : Nat → Rat)
    (hs : IsHeap elt s.q.pq) : IsHeap elt (doMaintenance H s draw).q.pq := by
  unfold doMaintenance
  split
  · exact hs
  · split
    · exact hs
    · simp only
      split
      · exact hH.heapify_heap _
      · exact hs

theorem isHeap_updateCounters (hH : H.Lawful elt) (s : PosPQ) (ins : Bool) (draw : Nat → Rat)
    (hs : IsHeap elt s.q.pq) : IsHeap elt (updateCounters H s ins draw).q.pq := by
  unfold updateCounters
  split
  · simp only
    split
    · split
      · exact isHeap_doMaintenance hH _ draw hs
      · exact isHeap_doMaintenance hH _ draw hs
    · exact hs
  · split <;> exact hs

theorem isHeap_appendPri (hH : H.Lawful elt) (s : PosPQ) (x : Nat) (p : Rat) (draw : Nat → Rat)
    (hs : IsHeap elt s.q.pq) : IsHeap elt (appendPri H s x p draw).q.pq := by
  unfold appendPri
  exact isHeap_updateCounters hH _ true draw (hH.push_heap _ _ hs)

theorem isHeap_popleft (hH : H.Lawful elt) (s : PosPQ) (draw : Nat → Rat)
    (hs : IsHeap elt s.q.pq) (x : Nat) (s' : PosPQ) (h : popleft H s draw = some (x, s')) :
    IsHeap elt s'.q.pq := by
  unfold popleft at h
  have hp := PQ.popEntry_spec hH s.q hs
  cases hpe : s.q.popEntry H PV.lt with
  | none => rw [hpe] at h; simp at h
  | some r =>
    obtain ⟨e, q'⟩ := r
    rw [hpe] at h hp
    simp only [Option.some.injEq, Prod.mk.injEq] at h
    obtain ⟨l, h1, h2, h3⟩ := hp
    rw [← h.2]
    exact isHeap_updateCounters hH _ false draw h3

theorem isHeap_promote (hH : H.Lawful elt) (draw : Nat → Rat) (n : Nat) (s : PosPQ) (acc : List Nat)
    (hs : IsHeap elt s.q.pq) : IsHeap elt (promote H draw n s acc).1.q.pq := by
  induction n generalizing s acc with
  | zero => exact hs
  | succ n ih =>
    unfold promote
    cases hp : popleft H s draw with
    | none => exact hs
    | some r =>
      obtain ⟨x, s'⟩ := r
      exact ih s' _ (isHeap_popleft hH s draw hs x s' hp)

theorem isHeap_addAll (hH : H.Lawful elt) (pv : PV) (q : PQ PV) (xs : List Nat)
    (hq : IsHeap elt q.pq) : IsHeap elt (addAll H pv q xs).pq := by
  induction xs generalizing q with
  | nil => exact hq
  | cons x xs ih => exact ih _ (hH.push_heap _ _ hq)

theorem isHeap_insert (hH : H.Lawful elt) (s : PosPQ) (pos x : Nat) (draw : Nat → Rat)
    (hs : IsHeap elt s.q.pq) : IsHeap elt (insert H s pos x draw).q.pq := by
  unfold insert
  exact isHeap_updateCounters hH _ true draw
    (isHeap_addAll hH _ _ _ (isHeap_promote hH draw pos s [] hs))

theorem isHeap_pqRemove (hH : H.Lawful elt) (q : PQ PV) (x : Nat) (hq : IsHeap elt q.pq)
    (e : Entry PV) (q' : PQ PV) (h : q.remove H PV.lt x = some (e, q')) : IsHeap elt q'.pq := by
  unfold PQ.remove at h
  split at h
  · simp at h
  · split at h
    · simp at h
    · split at h
      · split at h
        · simp at h
        · rename_i e0 l hpop
          simp only [Option.some.injEq, Prod.mk.injEq] at h
          rw [← h.2]
          cases hpq : q.pq with
          | nil => rw [hpq, hH.pop_nil] at hpop; simp at hpop
          | cons a l0 =>
            obtain ⟨l', h1, _, h3⟩ := hH.pop_cons a l0
            rw [hpq, h1] at hpop
            simp only [Option.some.injEq, Prod.mk.injEq] at hpop
            rw [← hpop.2]
            exact h3 (hpq ▸ hq)
      · split at h
        · simp only [Option.some.injEq, Prod.mk.injEq] at h
          rw [← h.2]; exact isHeap_dropLast _ hq
        · simp only [Option.some.injEq, Prod.mk.injEq] at h
          rw [← h.2]; exact hH.heapify_heap _

theorem isHeap_remove (hH : H.Lawful elt) (s : PosPQ) (x : Nat) (draw : Nat → Rat)
    (hs : IsHeap elt s.q.pq) (s' : PosPQ) (h : remove H s x draw = some s') : IsHeap elt s'.q.pq := by
  unfold remove at h
  cases hr : s.q.remove H PV.lt x with
  | none => rw [hr] at h; simp at h
  | some r =>
    obtain ⟨e, q'⟩ := r
    rw [hr] at h
    simp only [Option.some.injEq] at h
    rw [← h]
    exact isHeap_updateCounters hH _ false draw (isHeap_pqRemove hH s.q x hs e q' hr)

theorem isHeap_pqFind (hH : H.Lawful elt) (q : PQ PV) (key : Nat → Bool) (rm : Bool)
    (hq : IsHeap elt q.pq) : IsHeap elt (q.find H PV.lt key rm).2.pq := by
  unfold PQ.find
  split
  · exact hq
  · split
    · exact hq
    · split
      · split
        · exact hH.heapify_heap _
        · exact isHeap_dropLast _ hq
      · exact hq

theorem isHeap_find (hH : H.Lawful elt) (s : PosPQ) (key : Nat → Bool) (rm : Bool)
    (hs : IsHeap elt s.q.pq) : IsHeap elt (find H s key rm).2.q.pq :=
  isHeap_pqFind hH s.q key rm hs

theorem isHeap_pqReschedule (hH : H.Lawful elt) (q : PQ PV) (key : Nat → Bool) (np : PV)
    (hq : IsHeap elt q.pq) : IsHeap elt (q.reschedule H PV.lt key np).2.pq := by
  unfold PQ.reschedule
  split
  · exact hq
  · simp only
    split
    · exact hq
    · split
      · exact hH.heapify_heap _
      · exact hq

theorem isHeap_reschedule (hH : H.Lawful elt) (s : PosPQ) (key : Nat → Bool) (np : Rat)
    (hs : IsHeap elt s.q.pq) : IsHeap elt (reschedule H s key np).2.q.pq := by
  unfold reschedule
  split
  · exact hs
  · split
    · exact hs
    · exact isHeap_pqReschedule hH s.q key _ hs

/-- `popleft` only changes the counters besides popping the heap -/
theorem drain_eq_pqDrain (n : Nat) (s : PosPQ) (draw : Nat → Rat) :
    drain H n s draw = (PQ.drain H PV.lt n s.q).map (·.obj) := by
  induction n generalizing s with
  | zero => simp [drain, PQ.drain]
  | succ n ih =>
    unfold drain PQ.drain popleft
    cases hpe : s.q.popEntry H PV.lt with
    | none => simp
    | some r =>
      obtain ⟨e, q'⟩ := r
      simp only [List.map_cons]
      rw [ih]
      have : (updateCounters H { s with q := q' } false draw).q = q' := by
        unfold updateCounters; simp only [Bool.false_eq_true, if_false]; split <;> rfl
      rw [this]

/-! equal priorities: maintenance never boosts -/

/-- all regular (class ≠ 0) entries have base priority `c` and no boost -/
def EqualPri (c : Rat) (l : List (Entry PV)) : Prop :=
  ∀ e ∈ l, e.pri.cls ≠ 0 → e.pri.base = c ∧ e.pri.boost = 0

theorem regularMinMax_equal (c : Rat) (l : List (Entry PV)) (h : EqualPri c l) :
    regularMinMax l = none ∨ regularMinMax l = some (c, c) := by
  induction l with
  | nil => left; rfl
  | cons e es ih =>
    have hes : EqualPri c es := fun x hx => h x (List.mem_cons_of_mem _ hx)
    unfold regularMinMax
    by_cases hc : e.pri.cls = 0
    · simp only [hc, beq_self_eq_true, if_true]; exact ih hes
    · have hb : (e.pri.cls == 0) = false := by simp [hc]
      simp only [hb, Bool.false_eq_true, if_false]
      obtain ⟨h1, h2⟩ := h e (by simp) hc
      have hp : e.pri.priority = c := by simp [PV.priority, h1, h2]; grind
      right
      rcases ih hes with h3 | h3
      · simp [h3, hp]
      · simp only [h3, hp]; congr <;> grind

/-- with all regular priorities equal, queue maintenance (whatever the boost factor and the
    random draws) leaves the queue untouched (the lead's `C19.maintenance_noop_equal`) -/
theorem doMaintenance_equal (c : Rat) (s : PosPQ) (draw : Nat → Rat) (h : EqualPri c s.q.pq) :
    doMaintenance H s draw = s :=
  C19.maintenance_noop_equal s draw c h

/-- … hence `update_counters` never touches the heap of such a queue -/
theorem updateCounters_q_equal (c : Rat) (s : PosPQ) (b : Bool) (draw : Nat → Rat)
    (h : EqualPri c s.q.pq) : (updateCounters H s b draw).q = s.q := by
  unfold updateCounters
  cases b
  · simp only [Bool.false_eq_true, if_false]; split <;> rfl
  · simp only [if_true]
    split
    · split <;> rw [doMaintenance_equal c _ draw (by exact h)]
    · rfl

end PosPQ
end Asynkit
