/-
The wrappers of coroutine.py as regenerated from the source (Gen/Wrappers.lean, translator/wrappers2lean.py)
equal the hand-written model (Model/Wrappers.lean) that the C02 theorems are about — segment by segment.
-/
import Asynkit.Gen.Wrappers
import Asynkit.Lemmas.C02

namespace Asynkit.GenEqC02
open Asynkit.Proto Asynkit.Gen.Wrappers

variable {ι : Type}

/-! ### coro_iter -/

/-- how an exit of a `coro_iter` segment reads in the model's state space -/
def liftIter (I : Obj ι) : Exit Y I.σ I.σ → (Pc × I.σ) × Out
  | .suspend y s => ((.loop, s), .yield y)
  | .returned v w => ((.loop, w), .ret v)
  | .raised e _ w => ((.loop, w), .raise e)

/-- entry → first `yield` -/
theorem coro_iter_start_eq (I : Obj ι) (s : I.σ) (v : Val) :
    (coroIterB I).resume (.start, s) (.send v) = liftIter I (coro_iter_start I s) := by
  rcases h : I.send s 0 with ⟨s', o⟩
  rcases o with y | w | e
  · simp [coroIterB, relay, normStop, coro_iter_start, Obj.pySend, callY, liftIter, h]
  · simp [coroIterB, relay, normStop, coro_iter_start, Obj.pySend, callY, liftIter, h]
  · cases e <;> simp [coroIterB, relay, normStop, coro_iter_start, Obj.pySend, callY, liftIter, h]

/-- the `yield` resumed by send / throw (close = throw GeneratorExit + the envelope) -/
theorem coro_iter_resume_eq (I : Obj ι) (s : I.σ) (r : Resume) :
    (coroIterB I).resume (.loop, s) r = liftIter I (coro_iter_resume I s r) := by
  cases r with
  | send v =>
    rcases h : I.send s v with ⟨s', o⟩
    rcases o with y | w | e
    · simp [coroIterB, relay, normStop, coro_iter_resume, Obj.pySend, callY, liftIter, h]
    · simp [coroIterB, relay, normStop, coro_iter_resume, Obj.pySend, callY, liftIter, h]
    · cases e <;> simp [coroIterB, relay, normStop, coro_iter_resume, Obj.pySend, callY, liftIter, h]
  | throw e =>
    by_cases he : e = .genExit
    · subst he
      rcases h : I.close s with ⟨s', o⟩
      rcases o with y | w | e'
      · simp [coroIterB, relayClose, coro_iter_resume, Obj.pyClose, callUnit, liftIter, h]
      · simp [coroIterB, relayClose, coro_iter_resume, Obj.pyClose, callUnit, liftIter, h]
      · simp [coroIterB, relayClose, coro_iter_resume, Obj.pyClose, callUnit, liftIter, h]
    · rcases h : I.throw s e with ⟨s', o⟩
      rcases o with y | w | e'
      · cases e <;> simp_all [coroIterB, relay, normStop, coro_iter_resume, Obj.pyThrow, callY, liftIter]
      · cases e <;> simp_all [coroIterB, relay, normStop, coro_iter_resume, Obj.pyThrow, callY, liftIter]
      · cases e <;> cases e' <;>
          simp_all [coroIterB, relay, normStop, coro_iter_resume, Obj.pyThrow, callY, liftIter]

/-- the generator object assembled from the translated segments behaves as the model's `coroIterO`
    for every drive list -/
inductive RGen (I : Obj ι) : (coro_iter_obj I).σ → (coroIterO I).σ → Prop where
  | created (s : I.σ) : RGen I (.created (.fresh s)) (.created (.start, s))
  | susp (s : I.σ) : RGen I (.susp (.at s)) (.susp (.loop, s))

theorem coro_iter_obj_step (I : Obj ι) (a : (coro_iter_obj I).σ) (t : (coroIterO I).σ) (d : Drive)
    (hR : RGen I a t) :
    ((coro_iter_obj I).step a d).2 = ((coroIterO I).step t d).2 ∧
    (coro_iter_obj I).view ((coro_iter_obj I).step a d).1 = (coroIterO I).view ((coroIterO I).step t d).1 ∧
    (∀ y, ((coro_iter_obj I).step a d).2 = .yield y →
      RGen I ((coro_iter_obj I).step a d).1 ((coroIterO I).step t d).1) := by
  cases hR with
  | created s =>
    cases d with
    | send v =>
      by_cases hv : v = 0
      · subst hv
        have h := coro_iter_start_eq I s 0
        rcases hx : coro_iter_start I s with ⟨y, s'⟩ | ⟨w, s'⟩ | ⟨e, c, s'⟩
        all_goals (rw [hx] at h; simp only [liftIter] at h)
        · simp [Obj.step, coro_iter_obj, coroIterO, genObj, envObj, segBody, segStep, envAfter, EState.body, hx, h]
          exact RGen.susp s'
        · simp [Obj.step, coro_iter_obj, coroIterO, genObj, envObj, segBody, segStep, envAfter, EState.body, hx, h]
        · cases ‹Exc› <;>
          simp [Obj.step, coro_iter_obj, coroIterO, genObj, envObj, segBody, segStep, envAfter, EState.body, hx, h]
      · simp [Obj.step, coro_iter_obj, coroIterO, genObj, envObj, segBody, hv, EState.body]
    | throw e => simp [Obj.step, coro_iter_obj, coroIterO, genObj, envObj, segBody, EState.body]
    | close => simp [Obj.step, coro_iter_obj, coroIterO, genObj, envObj, segBody, EState.body]
  | susp s =>
    have key : ∀ r, ∃ x, coro_iter_resume I s r = x ∧ (coroIterB I).resume (.loop, s) r = liftIter I x :=
      fun r => ⟨_, rfl, coro_iter_resume_eq I s r⟩
    cases d with
    | send v =>
      obtain ⟨x, hx, h⟩ := key (.send v)
      rcases x with ⟨y, s'⟩ | ⟨w, s'⟩ | ⟨e, c, s'⟩
      all_goals simp only [liftIter] at h
      · simp [Obj.step, coro_iter_obj, coroIterO, genObj, envObj, segBody, segStep, envAfter, EState.body, hx, h]
        exact RGen.susp s'
      · simp [Obj.step, coro_iter_obj, coroIterO, genObj, envObj, segBody, segStep, envAfter, EState.body, hx, h]
      · cases ‹Exc› <;>
        simp [Obj.step, coro_iter_obj, coroIterO, genObj, envObj, segBody, segStep, envAfter, EState.body, hx, h]
    | throw e =>
      obtain ⟨x, hx, h⟩ := key (.throw e)
      rcases x with ⟨y, s'⟩ | ⟨w, s'⟩ | ⟨e', c, s'⟩
      all_goals simp only [liftIter] at h
      · simp [Obj.step, coro_iter_obj, coroIterO, genObj, envObj, segBody, segStep, envAfter, EState.body, hx, h]
        exact RGen.susp s'
      · simp [Obj.step, coro_iter_obj, coroIterO, genObj, envObj, segBody, segStep, envAfter, EState.body, hx, h]
      · cases ‹Exc› <;>
        simp [Obj.step, coro_iter_obj, coroIterO, genObj, envObj, segBody, segStep, envAfter, EState.body, hx, h]
    | close =>
      obtain ⟨x, hx, h⟩ := key (.throw .genExit)
      rcases x with ⟨y, s'⟩ | ⟨w, s'⟩ | ⟨e', c, s'⟩
      all_goals simp only [liftIter] at h
      · simp [Obj.step, coro_iter_obj, coroIterO, genObj, envObj, segBody, segStep, envAfter, envClosed,
          EState.body, hx, h]
      · simp [Obj.step, coro_iter_obj, coroIterO, genObj, envObj, segBody, segStep, envAfter, envClosed,
          EState.body, hx, h]
      · cases ‹Exc› <;>
        simp [Obj.step, coro_iter_obj, coroIterO, genObj, envObj, segBody, segStep, envAfter, envClosed,
          EState.body, hx, h]

theorem coro_iter_obj_equiv (I : Obj ι) : Equiv (coro_iter_obj I) (coroIterO I) := fun ds =>
  run_eq_of_bisim _ _ (RGen I) (coro_iter_obj_step I) ds _ _ (RGen.created _)

/-- hence the *translated* `coro_iter` is transparent: equivalent to a native await, for every
    inner object and every drive list -/
theorem coro_iter_obj_transparent (I : Obj ι) : Equiv (coro_iter_obj I) (nativeAwaitO I) :=
  TrEq.trans (coro_iter_obj_equiv I) (coroIter_equiv I)

/-! ### awaitmethod / awaitmethod_iter -/

theorem awaitmethod_wrapper_eq (I : Obj ι) : awaitmethod_wrapper I = awaitMethodO I := rfl

theorem awaitmethod_iter_wrapper_equiv (I : Obj ι) : Equiv (awaitmethod_iter_wrapper I) (awaitMethodIterO I) :=
  coro_iter_obj_equiv I

/-! ### coro_await -/

def liftAwait (I : Obj ι) : Exit Y (CS I.σ × CS.AwaitSt I) (CS.AwaitSt I) → Option (EState (Pc × CS I.σ)) × Out
  | .suspend y s => (some s.2, .yield y)
  | .returned v w => (some w, .ret v)
  | .raised e _ w => (some w, .raise e)

/-- the iterator `cs.__await__()` behaves the same whatever `cs` it was created from, once it
    is running (only its initial state mentions `cs`) -/
theorem await_resume_indep (I : Obj ι) (cs1 cs2 : CS I.σ) (it : EState (Pc × CS I.σ)) (r : Resume) :
    (nativeAwaitB (coroStartAwaitO I cs1)).resume it r = (nativeAwaitB (coroStartAwaitO I cs2)).resume it r := by
  cases r with
  | send v => cases it <;> rfl
  | throw e =>
    cases it with
    | created s => cases e <;> rfl
    | done s => cases e <;> rfl
    | susp s =>
      obtain ⟨pc, c⟩ := s
      cases e <;> cases pc <;> first | rfl | (
        simp [nativeAwaitB, coroStartAwaitO, genObj, envObj, coroStartAwaitB]
        rcases I.close c.coro with ⟨s', o⟩
        rcases o with y | w | e' <;> first | rfl | (cases e' <;> rfl))

/-- first step: create the CoroStart, first delegation step -/
theorem coro_await_start_eq (I : Obj ι) (v : Val) :
    (coroAwaitB I).resume none (.send v) = liftAwait I (coro_await_start I I.init) := by
  simp only [coroAwaitB, coro_await_start, Obj.pyDelegate]
  rcases h : (nativeAwaitB (coroStartO I)).resume (coroStartO I).init (.send 0) with ⟨it, o⟩
  have h' : (nativeAwaitB (coroStartAwaitO I (CS.newAt I I.init))).resume
      (coroStartAwaitO I (CS.newAt I I.init)).init (.send 0) = (it, o) := h
  rcases o with y | w | e
  · simp [h', dstep, liftAwait]
  · simp [h', dstep, liftAwait]
  · simp [h', dstep, liftAwait]

/-- every later step is one delegation step -/
theorem coro_await_resume_eq (I : Obj ι) (cs : CS I.σ) (it : EState (Pc × CS I.σ)) (r : Resume) :
    (coroAwaitB I).resume (some it) r = liftAwait I (coro_await_resume I (cs, it) r) := by
  simp only [coroAwaitB, coro_await_resume, Obj.pyDelegate]
  rcases h : (nativeAwaitB (coroStartO I)).resume it r with ⟨it', o⟩
  have h' : (nativeAwaitB (coroStartAwaitO I cs)).resume it r = (it', o) :=
    (await_resume_indep I cs (CS.new I) it r).trans h
  rcases o with y | w | e
  · simp [h', dstep, liftAwait]
  · simp [h', dstep, liftAwait]
  · simp [h', dstep, liftAwait]

end Asynkit.GenEqC02
