/-
C12 `waiter_key_inv`: in executions without cancel / throw / interrupt, with locks taken in a fixed
(ascending) order, every queued waiter whose future is still pending is keyed by its current
effective priority.  Part 1: locality of effective priorities, fault-free reachability and its
invariants.
-/
import Asynkit.Lemmas.C12
import Asynkit.Lemmas.C11
import Asynkit.Lemmas.C13Progress

namespace Asynkit.PrioGraph

/-- Locality: if two graphs agree outside a set of "dirty" tasks and locks, and no clean task holds
    a dirty lock and no clean lock has a dirty waiter, then clean nodes have the same effective
    priority in both (for every fuel). -/
theorem eff_local (g g' : Graph) (dT dL : Nat → Prop)
    (hown : ∀ t, g'.own t = g.own t)
    (hh : ∀ t, ¬ dT t → g'.holding t = g.holding t)
    (hw : ∀ l, ¬ dL l → g'.waiters l = g.waiters l)
    (hc1 : ∀ t, ¬ dT t → ∀ l ∈ g.holding t, ¬ dL l)
    (hc2 : ∀ l, ¬ dL l → ∀ w ∈ g.waiters l, ¬ dT w) :
    ∀ f, (∀ t, ¬ dT t → effT g' f t = effT g f t) ∧ (∀ l, ¬ dL l → effL g' f l = effL g f l) := by
  intro f
  induction f with
  | zero =>
    exact ⟨fun t _ => by rw [effT_zero, effT_zero, hown], fun l _ => by rw [effL_zero, effL_zero]⟩
  | succ f ih =>
    constructor
    · intro t ht
      rw [effT_succ, effT_succ, hown, hh t ht]
      congr 1
      apply filterMap_congr'
      intro l hl
      exact ih.2 l (hc1 t ht l hl)
    · intro l hl
      rw [effL_succ, effL_succ, hw l hl]
      congr 1
      apply List.map_congr_left
      intro w hw'
      exact ih.1 w (hc2 l hl w hw')

/-- lock `k` lies below task `t` at depth `d`: `t` holds `k`, or holds a lock one of whose waiters
    has `k` below it -/
inductive Under (g : Graph) : Nat → Nat → Nat → Prop
  | base {t k} : k ∈ g.holding t → Under g t k 0
  | step {t l w k d} : l ∈ g.holding t → w ∈ g.waiters l → Under g w k d → Under g t k (d + 1)

end Asynkit.PrioGraph

namespace Asynkit.Lock
open Asynkit.PrioGraph

/-! ### the graph of a state -/

theorem graph_eq_of {s s' : State} (hp : ∀ i, (s'.tasks i).prio = (s.tasks i).prio)
    (hh : ∀ i, (s'.tasks i).holding = (s.tasks i).holding)
    (hw : ∀ k, (s'.locks k).waiters.map (·.task) = (s.locks k).waiters.map (·.task)) :
    s'.graph = s.graph := by
  simp only [State.graph]
  congr 1
  · funext j; rw [hp]
  · funext j; rw [hh]
  · funext k; exact hw k

theorem eff_eq_of_graph {s s' : State} (hg : s'.graph = s.graph) (hf : s'.fuel = s.fuel) (i : Nat) :
    s'.eff i = s.eff i := by simp only [State.eff, hg, hf]

/-! ### fault-free, ordered executions -/

/-- the events of C12's key invariant: no cancel / throw / interrupt; `acquire k` only above every
    lock the task already holds, and `k < N` (`N` = number of locks) -/
def Ev.orderly (N : Nat) (s : State) : Ev → Bool
  | .cancel _ => false
  | .throw _ _ => false
  | .interrupt _ _ => false
  | .reinsert _ _ => false
  | .acquireFails _ => false
  | .acquire k => decide (k < N) &&
      (match s.cur with | some i => (s.tasks i).owns.all (fun l => decide (l < k)) | none => true)
  | _ => true

inductive ReachableNF (N : Nat) : State → Prop
  | init {s} : Initial s → ReachableNF N s
  | step {s} (e : Ev) : ReachableNF N s → e.enabled s = true → Ev.orderly N s e = true →
      ReachableNF N (s.apply e)

theorem ReachableNF.reachable {N : Nat} {s : State} (h : ReachableNF N s) : Reachable s := by
  induction h with
  | init hi => exact Reachable.init hi
  | step e _ he _ ih => exact Reachable.step e ih he

end Asynkit.Lock
