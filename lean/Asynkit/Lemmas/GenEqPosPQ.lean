/-
The tie by translation for the whole `PosPriorityQueue` class (DESIGN §3.3).

`translator/pospq2lean.py` re-reads `asynkit.experimental.priority.PosPriorityQueue` on every run
and emits `Asynkit/Gen/PosPQ.lean`: each method, statement by statement, as a function
`PosPQ → PosPQ × Except PyExc R` over the model state, written with the `PQ` model's operations.
This file proves every generated method equal to the hand-written definition of `Model/PosPQ.lean`
that the theorems of C17 / C19 / C08 / C10 are about — for every heap library `H`, every state and
every argument; in particular no exception other than the modelled one escapes, no assertion
fails and no fuel-bounded loop runs out of fuel.

If the source changes, the generated text changes; either these equalities still prove (harmless
rewrite) or this file no longer builds (a broken proof obligation of C17 and C19).
-/
import Asynkit.Gen.PosPQ

set_option linter.unusedSimpArgs false   -- arguments kept so that harmless rewrites of the source still prove

namespace Asynkit.GenEqPosPQ
open Asynkit

variable (H : HeapLib (Entry PV)) (gp : Nat → Rat) (draw : Nat → Rat)

/-! ### constructor and the methods without loops -/

/-- `PriorityValue.priority()` -/
theorem pv_priority_eq (p : PV) : Gen.PosPQ.pv_priority p = p.priority := by
  simp [Gen.PosPQ.pv_priority, PV.priority]

/-- `PriorityValue.__lt__` is the comparison `PV.lt` that the generated methods hand to the `PQ`
    operations -/
theorem pv_lt_eq (a b : PV) : Gen.PosPQ.pv_lt_ a b = PV.lt a b := by
  simp only [Gen.PosPQ.pv_lt_, PV.lt, pv_priority_eq]
  by_cases h : a.cls = b.cls <;> simp [h]

theorem pv_lt_fun : Gen.PosPQ.pv_lt_ = PV.lt := funext fun a => funext fun b => pv_lt_eq a b

/-- `__init__`: the initial state of the model -/
theorem init_eq : Gen.PosPQ.init = ({} : PosPQ) := by
  simp [pv_lt_fun, Gen.PosPQ.init, PQ.empty]

/-- `__len__` -/
theorem len_eq (s : PosPQ) : Gen.PosPQ.len_ H gp draw s = (s, .ok (PosPQ.len s)) := by
  simp [pv_lt_fun, Gen.PosPQ.len_, PosPQ.len, PQ.len]

/-- `__bool__` (the model has no separate operation: non-emptiness of the heap list) -/
theorem bool_eq (s : PosPQ) : Gen.PosPQ.bool_ H gp draw s = (s, .ok (decide (0 < PosPQ.len s))) := by
  simp only [pv_lt_fun, Gen.PosPQ.bool_, PosPQ.len, PQ.len]
  first | rfl | (congr 2; simp [Nat.pos_iff_ne_zero])

/-- `clear` -/
theorem clear_eq (s : PosPQ) : Gen.PosPQ.clear H gp draw s = (PosPQ.clear s, .ok ()) := by
  simp [pv_lt_fun, Gen.PosPQ.clear, PosPQ.clear]

/-- `__iter__` (consumed to the end): sorts in place, yields the objects in array order -/
theorem iter_eq (s : PosPQ) :
    Gen.PosPQ.iter_ H gp draw s = ((PosPQ.iter s).2, .ok (PosPQ.iter s).1) := by
  simp [pv_lt_fun, Gen.PosPQ.iter_, PosPQ.iter]

/-- `compute_priority_boost` with the draw `r` (`max_pri` is unused by the code) -/
theorem compute_priority_boost_eq (s : PosPQ) (priority minPri maxPri r : Rat) :
    Gen.PosPQ.compute_priority_boost H gp draw s priority minPri maxPri r
      = (s, .ok (PosPQ.computeBoost s.factor priority minPri r)) := by
  simp [pv_lt_fun, Gen.PosPQ.compute_priority_boost, PosPQ.computeBoost] <;> grind

/-- `find` -/
theorem find_eq (s : PosPQ) (key : Nat → Bool) (rm : Bool) :
    Gen.PosPQ.find H gp draw s key rm = ((PosPQ.find H s key rm).2, .ok (PosPQ.find H s key rm).1) := by
  simp only [pv_lt_fun, Gen.PosPQ.find, PosPQ.find]
  cases (PQ.find H PV.lt s.q key rm).1 <;> simp

/-- `reschedule` -/
theorem reschedule_eq (s : PosPQ) (key : Nat → Bool) (np : Rat) :
    Gen.PosPQ.reschedule H gp draw s key np
      = ((PosPQ.reschedule H s key np).2, .ok (PosPQ.reschedule H s key np).1) := by
  have hfind : (PQ.find H PV.lt s.q key false).2 = s.q := by
    unfold PQ.find
    cases PQ.revIndex s.q.pq key with
    | none => rfl
    | some i => dsimp only; cases s.q.pq[s.q.pq.length - i - 1]? <;> rfl
  simp only [pv_lt_fun, Gen.PosPQ.reschedule, PosPQ.reschedule, hfind]
  cases (PQ.find H PV.lt s.q key false).1 with
  | none => simp
  | some e =>
    by_cases hc : e.pri.cls = 0 <;> simp [hc]

/-! ### references into the heap array

A loop over `self._pq.items()` is at index `pre.length` of an array `pre ++ e :: rest`; reads through
the reference see `e`, an attribute write replaces `e`. -/

/-- the state `s` with the heap array replaced -/
def withPq (s : PosPQ) (l : List (Entry PV)) : PosPQ := { s with q := ⟨s.q.seq, l⟩ }

@[simp] theorem withPq_self (s : PosPQ) : withPq s s.q.pq = s := rfl
@[simp] theorem withPq_withPq (s : PosPQ) (l l' : List (Entry PV)) : withPq (withPq s l) l' = withPq s l' := rfl
@[simp] theorem withPq_pq (s : PosPQ) (l : List (Entry PV)) : (withPq s l).q.pq = l := rfl
@[simp] theorem withPq_seq (s : PosPQ) (l : List (Entry PV)) : (withPq s l).q.seq = s.q.seq := rfl
@[simp] theorem withPq_nIns (s : PosPQ) (l : List (Entry PV)) : (withPq s l).nIns = s.nIns := rfl
@[simp] theorem withPq_nRem (s : PosPQ) (l : List (Entry PV)) : (withPq s l).nRem = s.nRem := rfl
@[simp] theorem withPq_lastMaint (s : PosPQ) (l : List (Entry PV)) : (withPq s l).lastMaint = s.lastMaint := rfl
@[simp] theorem withPq_factor (s : PosPQ) (l : List (Entry PV)) : (withPq s l).factor = s.factor := rfl

theorem pvAt_mid (s : PosPQ) (pre rest : List (Entry PV)) (e : Entry PV) (i : Nat) (hi : i = pre.length) :
    PosPQ.pvAt (withPq s (pre ++ e :: rest)) i = e.pri := by
  subst hi; simp [PosPQ.pvAt]

theorem objAt_mid (s : PosPQ) (pre rest : List (Entry PV)) (e : Entry PV) (i : Nat) (hi : i = pre.length) :
    PosPQ.objAt (withPq s (pre ++ e :: rest)) i = e.obj := by
  subst hi; simp [PosPQ.objAt]

theorem seqAt_mid (s : PosPQ) (pre rest : List (Entry PV)) (e : Entry PV) (i : Nat) (hi : i = pre.length) :
    PosPQ.seqAt (withPq s (pre ++ e :: rest)) i = e.seq := by
  subst hi; simp [PosPQ.seqAt]

theorem modify_mid {α : Type} (pre rest : List α) (e : α) (f : α → α) :
    (pre ++ e :: rest).modify pre.length f = pre ++ f e :: rest := by
  induction pre with
  | nil => simp
  | cons a pre ih => simp [ih]

theorem setPV_mid (s : PosPQ) (pre rest : List (Entry PV)) (e : Entry PV) (i : Nat) (hi : i = pre.length)
    (pv : PV) :
    PosPQ.setPV (withPq s (pre ++ e :: rest)) i pv = withPq s (pre ++ { e with pri := pv } :: rest) := by
  subst hi; simp [PosPQ.setPV, withPq, modify_mid]

theorem append_cons_assoc {α : Type} (pre : List α) (e : α) (rest : List α) :
    pre ++ e :: rest = (pre ++ [e]) ++ rest := by simp

/-! ### `reschedule_all` -/

/-- what `reschedule_all` does to one entry -/
def reprio (gp : Nat → Rat) (e : Entry PV) : Entry PV :=
  if e.pri.cls != 0 then { e with pri := { e.pri with base := gp e.obj } } else e

theorem reschedule_all_loop (s : PosPQ) (rest pre : List (Entry PV)) (i : Nat) (hi : i = pre.length) :
    Gen.PosPQ.reschedule_all_loop1 H gp draw rest i (withPq s (pre ++ rest))
      = (withPq s (pre ++ rest.map (reprio gp)), .done) := by
  induction rest generalizing pre i with
  | nil => simp [pv_lt_fun, Gen.PosPQ.reschedule_all_loop1]
  | cons e rest ih =>
    have h1 := ih (pre ++ [e]) (i + 1) (by simp [hi])
    have h2 := ih (pre ++ [{ e with pri := { e.pri with base := gp e.obj } }]) (i + 1) (by simp [hi])
    simp only [List.append_assoc, List.singleton_append] at h1 h2
    simp only [pv_lt_fun, Gen.PosPQ.reschedule_all_loop1, pvAt_mid _ _ _ _ _ hi, objAt_mid _ _ _ _ _ hi,
      setPV_mid _ _ _ _ _ hi, List.map_cons, reprio]
    by_cases hc : e.pri.cls = 0 <;> simp [hc, h1, h2]

/-- `reschedule_all` -/
theorem reschedule_all_eq (s : PosPQ) :
    Gen.PosPQ.reschedule_all H gp draw s = (PosPQ.rescheduleAll H s gp, .ok ()) := by
  have h := reschedule_all_loop H gp draw s s.q.pq [] 0 rfl
  simp only [List.nil_append, withPq_self] at h
  simp only [pv_lt_fun, Gen.PosPQ.reschedule_all, h]
  simp only [PosPQ.rescheduleAll, PQ.refresh, withPq]
  first
    | rfl
    | (congr 4; funext e; by_cases hc : e.pri.cls = 0 <;> simp [reprio, hc])

/-! ### `do_maintenance` and `boost_stragglers` -/

/-- an entry `do_maintenance` puts on its `stragglers` list -/
def isStrag (limit : Int) (e : Entry PV) : Bool :=
  e.pri.cls != 0 && decide ((e.pri.insertedAt : Int) < limit)

/-- the `stragglers` list: (reference, object) of the stragglers of an array that starts at index `i` -/
def stragIdx (limit : Int) : List (Entry PV) → Nat → List (Nat × Nat)
  | [], _ => []
  | e :: es, i => if isStrag limit e then (i, e.obj) :: stragIdx limit es (i + 1) else stragIdx limit es (i + 1)

/-- one step of the running minimum / maximum over the regular entries -/
def accStep (op : Rat → Rat → Rat) (acc : Option Rat) (e : Entry PV) : Option Rat :=
  if e.pri.cls = 0 then acc
  else some (match acc with | none => e.pri.priority | some m => op m e.pri.priority)

theorem rat_min_comm (a b : Rat) : min a b = min b a := by grind
theorem rat_max_comm (a b : Rat) : max a b = max b a := by grind

theorem do_maintenance_loop (s : PosPQ) (limit : Int) (rest pre : List (Entry PV)) (i : Nat)
    (hi : i = pre.length) (n : Nat) (mn mx : Option Rat) (st : List (Nat × Nat)) :
    Gen.PosPQ.do_maintenance_loop1 H gp draw limit rest i n mn mx st (withPq s (pre ++ rest))
      = (n + rest.countP (fun e => e.pri.cls != 0), rest.foldl (accStep min) mn, rest.foldl (accStep max) mx,
         st ++ stragIdx limit rest i, withPq s (pre ++ rest), .done) := by
  induction rest generalizing pre i n mn mx st with
  | nil => simp [pv_lt_fun, Gen.PosPQ.do_maintenance_loop1, stragIdx]
  | cons e rest ih =>
    have h1 := fun n mn mx st => ih (pre ++ [e]) (i + 1) (by simp [hi]) n mn mx st
    simp only [List.append_assoc, List.singleton_append] at h1
    simp only [pv_lt_fun, Gen.PosPQ.do_maintenance_loop1, pvAt_mid _ _ _ _ _ hi, objAt_mid _ _ _ _ _ hi,
      pv_priority_eq, h1, List.foldl_cons, List.countP_cons, stragIdx, isStrag, accStep]
    by_cases hc : e.pri.cls = 0
    · simp [hc]
    · -- the running min / max may be written with min()/max() or with explicit comparisons
      cases mn <;> cases mx <;> by_cases hl : (e.pri.insertedAt : Int) < limit <;>
        simp [hc, hl, rat_min_comm e.pri.priority, rat_max_comm e.pri.priority, Nat.add_assoc, Nat.add_comm] <;> grind

/-- a straggler that `boost_stragglers` really boosts: base priority above `min_pri`, non-zero boost -/
def boosts (factor minPri : Rat) (draw : Nat → Rat) (limit : Int) (e : Entry PV) : Bool :=
  isStrag limit e && decide (e.pri.base > minPri)
    && (PosPQ.computeBoost factor e.pri.base minPri (draw e.seq) != 0)

/-- the in-place write `pri.priority_boost = pb` -/
def boostEntry (factor minPri : Rat) (draw : Nat → Rat) (limit : Int) (e : Entry PV) : Entry PV :=
  if boosts factor minPri draw limit e then
    { e with pri := { e.pri with boost := PosPQ.computeBoost factor e.pri.base minPri (draw e.seq) } }
  else e

theorem boost_loop (s : PosPQ) (limit : Int) (minPri maxPri : Rat) (l pre : List (Entry PV)) (i : Nat)
    (hi : i = pre.length) (n : Nat) :
    Gen.PosPQ.boost_stragglers_loop1 H gp draw minPri maxPri (stragIdx limit l i) n (withPq s (pre ++ l))
      = (n + l.countP (boosts s.factor minPri draw limit),
         withPq s (pre ++ l.map (boostEntry s.factor minPri draw limit)), .done) := by
  induction l generalizing pre i n with
  | nil => simp [pv_lt_fun, Gen.PosPQ.boost_stragglers_loop1, stragIdx]
  | cons e l ih =>
    have h1 := fun e' n => ih (pre ++ [e']) (i + 1) (by simp [hi]) n
    simp only [List.append_assoc, List.singleton_append] at h1
    by_cases hs : isStrag limit e = true
    · simp only [stragIdx, hs, if_true, Gen.PosPQ.boost_stragglers_loop1, pvAt_mid _ _ _ _ _ hi,
        seqAt_mid _ _ _ _ _ hi, setPV_mid _ _ _ _ _ hi, compute_priority_boost_eq, withPq_factor, h1,
        List.map_cons, List.countP_cons, boosts, boostEntry]
      by_cases hb : e.pri.base > minPri
      · by_cases hz : PosPQ.computeBoost s.factor e.pri.base minPri (draw e.seq) = 0
        · simp [hb, hz]
        · simp [hb, hz, Nat.add_assoc, Nat.add_comm]
      · simp [hb]
    · have hs' : isStrag limit e = false := by simpa using hs
      simp [stragIdx, hs', h1, boosts, boostEntry]

/-- the running minimum (a left fold in the code) is the model's `regularMinMax` (a right fold) -/
theorem foldl_min_some (l : List (Entry PV)) (m : Rat) :
    l.foldl (accStep min) (some m)
      = some (match PosPQ.regularMinMax l with | none => m | some (lo, _) => min m lo) := by
  induction l generalizing m with
  | nil => simp [PosPQ.regularMinMax]
  | cons e l ih =>
    by_cases hc : e.pri.cls = 0
    · simp [List.foldl_cons, accStep, hc, ih, PosPQ.regularMinMax]
    · simp only [List.foldl_cons, accStep, hc, if_false, ih, PosPQ.regularMinMax]
      cases PosPQ.regularMinMax l with
      | none => simp [hc]
      | some p => simp [hc]; grind

theorem foldl_min_none (l : List (Entry PV)) :
    l.foldl (accStep min) none = (PosPQ.regularMinMax l).map (·.1) := by
  induction l with
  | nil => simp [PosPQ.regularMinMax]
  | cons e l ih =>
    by_cases hc : e.pri.cls = 0
    · simp [List.foldl_cons, accStep, hc, ih, PosPQ.regularMinMax]
    · simp only [List.foldl_cons, accStep, hc, if_false, foldl_min_some, PosPQ.regularMinMax]
      cases PosPQ.regularMinMax l <;> simp [hc]

theorem foldl_isSome (op : Rat → Rat → Rat) (l : List (Entry PV)) (acc : Option Rat) :
    (l.foldl (accStep op) acc).isSome = (acc.isSome || l.any (fun e => e.pri.cls != 0)) := by
  induction l generalizing acc with
  | nil => simp
  | cons e l ih =>
    by_cases hc : e.pri.cls = 0 <;> simp [List.foldl_cons, accStep, hc, ih]

theorem stragIdx_eq_nil (limit : Int) (l : List (Entry PV)) (i : Nat) :
    stragIdx limit l i = [] ↔ ∀ e ∈ l, isStrag limit e = false := by
  induction l generalizing i with
  | nil => simp [stragIdx]
  | cons e l ih =>
    by_cases hs : isStrag limit e = true
    · simp [stragIdx, hs]
    · have hs' : isStrag limit e = false := by simpa using hs
      simp [stragIdx, hs', ih]

theorem map_boostEntry_of_countP (factor minPri : Rat) (limit : Int) (l : List (Entry PV))
    (h : l.countP (boosts factor minPri draw limit) = 0) :
    l.map (boostEntry factor minPri draw limit) = l := by
  have h' : ∀ e ∈ l, boosts factor minPri draw limit e = false := by
    simpa [List.countP_eq_zero] using h
  have : ∀ e ∈ l, boostEntry factor minPri draw limit e = e := by
    intro e he; simp [boostEntry, h' e he]
  simpa using List.map_congr_left this

/-- the model's candidate test (limit in ℕ, truncated subtraction) and boost are those of the code
    (limit in ℤ) -/
theorem boosts_eq_model (factor minPri : Rat) (limit : Int) (lim : Nat)
    (hl : ∀ x : Nat, (x : Int) < limit ↔ x < lim) (e : Entry PV) :
    (PosPQ.candidate minPri lim e && PosPQ.computeBoost factor e.pri.base minPri (draw e.seq) != 0)
      = boosts factor minPri draw limit e := by
  simp [PosPQ.candidate, boosts, isStrag, hl]

theorem boostEntry_eq_model (factor minPri : Rat) (limit : Int) (lim : Nat)
    (hl : ∀ x : Nat, (x : Int) < limit ↔ x < lim) (e : Entry PV) :
    PosPQ.boostOne factor minPri lim draw e = boostEntry factor minPri draw limit e := by
  have := boosts_eq_model draw factor minPri limit lim hl e
  simp only [PosPQ.boostOne, boostEntry, ← this]
  by_cases hc : PosPQ.candidate minPri lim e = true
  · by_cases hz : PosPQ.computeBoost factor e.pri.base minPri (draw e.seq) = 0 <;> simp [hc, hz]
  · simp [hc]

/-- `boost_stragglers` on the list `do_maintenance` built -/
theorem boost_stragglers_eq (s : PosPQ) (limit : Int) (minPri maxPri : Rat) :
    Gen.PosPQ.boost_stragglers H gp draw s (stragIdx limit s.q.pq 0) minPri maxPri
      = (if s.q.pq.any (boosts s.factor minPri draw limit) then
           withPq s (H.heapify (Entry.lt PV.lt) (s.q.pq.map (boostEntry s.factor minPri draw limit)))
         else s, .ok ()) := by
  have h := boost_loop H gp draw s limit minPri maxPri s.q.pq [] 0 rfl 0
  simp only [List.nil_append, withPq_self, Nat.zero_add] at h
  simp only [pv_lt_fun, Gen.PosPQ.boost_stragglers, h]
  by_cases hb : s.q.pq.any (boosts s.factor minPri draw limit) = true
  · have hpos : List.countP (boosts s.factor minPri draw limit) s.q.pq > 0 := by
      rw [gt_iff_lt, List.countP_pos_iff]; simpa using hb
    have hpos' : 1 ≤ List.countP (boosts s.factor minPri draw limit) s.q.pq := hpos
    have hne : List.countP (boosts s.factor minPri draw limit) s.q.pq ≠ 0 := by omega
    simp only [hb, if_true]
    simp [hpos, hpos', hne, PQ.refresh, withPq]
  · have hz : List.countP (boosts s.factor minPri draw limit) s.q.pq = 0 := by
      rw [List.countP_eq_zero]; simpa using hb
    simp [hz, hb, map_boostEntry_of_countP draw _ _ _ _ hz]

/-- the value `do_maintenance()` returns, in the terms of the generated code: the `stragglers` list it
    built and the number of regular entries it counted -/
theorem maintenanceDone_eq (s : PosPQ) (limit : Int) (hl : ∀ x : Nat, (x : Int) < limit ↔ x < s.nIns - s.len) :
    PosPQ.maintenanceDone s =
      (s.factor == 0 || !(decide (stragIdx limit s.q.pq 0 ≠ []) &&
        decide (s.q.pq.countP (fun e => e.pri.cls != 0) < 2))) := by
  have hst : PosPQ.isStraggler (s.nIns - s.len) = isStrag limit := by
    funext e; simp [PosPQ.isStraggler, isStrag, hl]
  have hany : s.q.pq.any (isStrag limit) = decide (stragIdx limit s.q.pq 0 ≠ []) := by
    by_cases h : stragIdx limit s.q.pq 0 = []
    · have := (stragIdx_eq_nil _ _ _).mp h
      simp only [h, ne_eq, not_true_eq_false, decide_false]
      exact List.any_eq_false.mpr (fun e he => by simp [this e he])
    · simp only [h, ne_eq, not_false_eq_true, decide_true]
      rw [stragIdx_eq_nil] at h
      by_cases ha : s.q.pq.any (isStrag limit) = true
      · exact ha
      · exfalso; apply h; intro e he
        have := List.any_eq_false.mp (by simpa using ha) e he
        simpa using this
  simp only [PosPQ.maintenanceDone, hst, hany]

/-- `do_maintenance` (with `boost_stragglers` and `compute_priority_boost`): no assertion fails, the
    state is the model's `doMaintenance` and the returned flag is the model's `maintenanceDone` -/
theorem do_maintenance_eq (s : PosPQ) :
    Gen.PosPQ.do_maintenance H gp draw s = (PosPQ.doMaintenance H s draw, .ok (PosPQ.maintenanceDone s)) := by
  have hloop := do_maintenance_loop H gp draw s ((s.nIns : Int) - (PQ.len s.q : Int)) s.q.pq [] 0 rfl
    0 none none []
  simp only [List.nil_append, withPq_self, Nat.zero_add] at hloop
  have hl : ∀ x : Nat, (x : Int) < (s.nIns : Int) - (PQ.len s.q : Int) ↔ x < s.nIns - s.len := by
    intro x; simp only [PQ.len, PosPQ.len]; omega
  have hdone := maintenanceDone_eq s _ hl
  simp only [pv_lt_fun, Gen.PosPQ.do_maintenance, PosPQ.doMaintenance, hloop]
  by_cases hf : s.factor = 0
  · simp [hf, hdone]
  · simp only [hf, not_false_eq_true, not_true_eq_false, if_false, if_true, beq_iff_eq, ne_eq]
    by_cases hs : stragIdx ((s.nIns : Int) - (PQ.len s.q : Int)) s.q.pq 0 = []
    · -- no straggler: nothing to boost in the model either
      have hno := (stragIdx_eq_nil _ _ _).mp hs
      have hd : PosPQ.maintenanceDone s = true := by simp [hdone, hs]
      simp only [hs, not_true_eq_false, if_false, hd]
      cases hr : PosPQ.regularMinMax s.q.pq with
      | none => rfl
      | some p =>
        have : s.q.pq.any (fun e => PosPQ.candidate p.1 (s.nIns - s.len) e
            && PosPQ.computeBoost s.factor e.pri.base p.1 (draw e.seq) != 0) = false := by
          rw [List.any_eq_false]
          intro e he
          have := hno e he
          rw [boosts_eq_model draw s.factor p.1 _ _ hl e]
          simp [boosts, this]
        simp [this]
    · -- some straggler: there is a regular entry, so min_pri / max_pri are set
      have hany : s.q.pq.any (fun e => e.pri.cls != 0) = true := by
        by_cases h : s.q.pq.any (fun e => e.pri.cls != 0) = true
        · exact h
        · exfalso; apply hs; rw [stragIdx_eq_nil]
          intro e he
          have : ¬ (e.pri.cls != 0) = true := fun hc => h (List.any_eq_true.mpr ⟨e, he, hc⟩)
          simp only [isStrag]
          simp at this
          simp [this]
      have hd : PosPQ.maintenanceDone s = !decide (s.q.pq.countP (fun e => e.pri.cls != 0) < 2) := by
        simp [hdone, hs, hf]
      have hmx := foldl_isSome max s.q.pq none
      have hmn := foldl_min_none s.q.pq
      simp only [hany, Option.isSome_none, Bool.false_or] at hmx
      simp only [hs, not_false_eq_true, if_true]
      cases hr : PosPQ.regularMinMax s.q.pq with
      | none =>
        have := foldl_isSome min s.q.pq none
        simp [hmn, hr, hany] at this
      | some p =>
        obtain ⟨mx, hmx'⟩ := Option.isSome_iff_exists.mp hmx
        simp only [hmn, hr, Option.map_some, hmx', boost_stragglers_eq, hd]
        have hb : (fun e => PosPQ.candidate p.1 (s.nIns - s.len) e
            && PosPQ.computeBoost s.factor e.pri.base p.1 (draw e.seq) != 0)
            = boosts s.factor p.1 draw ((s.nIns : Int) - (PQ.len s.q : Int)) := by
          funext e; exact boosts_eq_model draw s.factor p.1 _ _ hl e
        have hm : PosPQ.boostOne s.factor p.1 (s.nIns - s.len) draw
            = boostEntry s.factor p.1 draw ((s.nIns : Int) - (PQ.len s.q : Int)) := by
          funext e; exact boostEntry_eq_model draw s.factor p.1 _ _ hl e
        simp only [hb, hm]
        by_cases hn : List.countP (fun e => e.pri.cls != 0) s.q.pq < 2 <;>
          (simp only [hn, if_true, if_false, decide_true, decide_false, Bool.not_true, Bool.not_false]
           split <;> simp [withPq])

/-! ### counters, append, popleft, remove -/

/-- `update_counters` -/
theorem update_counters_eq (s : PosPQ) (ins : Bool) :
    Gen.PosPQ.update_counters H gp draw s ins = (PosPQ.updateCounters H s ins draw, .ok ()) := by
  simp only [pv_lt_fun, Gen.PosPQ.update_counters, PosPQ.updateCounters, do_maintenance_eq, PQ.len, PosPQ.len]
  cases ins <;> grind

/-- `append_pri` -/
theorem append_pri_eq (s : PosPQ) (x : Nat) (p : Rat) :
    Gen.PosPQ.append_pri H gp draw s x p = (PosPQ.appendPri H s x p draw, .ok ()) := by
  simp [pv_lt_fun, Gen.PosPQ.append_pri, PosPQ.appendPri, update_counters_eq]

/-- `append` -/
theorem append_eq (s : PosPQ) (x : Nat) :
    Gen.PosPQ.append H gp draw s x = (PosPQ.append H s gp x draw, .ok ()) := by
  simp [pv_lt_fun, Gen.PosPQ.append, PosPQ.append, PosPQ.appendPri, update_counters_eq, append_pri_eq]

/-- `popleft`: IndexError on an empty queue (state untouched), else the popped object -/
theorem popleft_eq (s : PosPQ) :
    Gen.PosPQ.popleft H gp draw s
      = match PosPQ.popleft H s draw with
        | none => (s, .error PyExc.indexError)
        | some (x, s') => (s', .ok x) := by
  simp only [pv_lt_fun, Gen.PosPQ.popleft, PosPQ.popleft, update_counters_eq]
  cases PQ.popEntry H PV.lt s.q with
  | none => rfl
  | some p => rfl

/-- `remove`: ValueError when the object is not queued (state untouched) -/
theorem remove_eq (s : PosPQ) (x : Nat) :
    Gen.PosPQ.remove H gp draw s x
      = match PosPQ.remove H s x draw with
        | none => (s, .error PyExc.valueError)
        | some s' => (s', .ok ()) := by
  simp only [pv_lt_fun, Gen.PosPQ.remove, PosPQ.remove, update_counters_eq]
  cases PQ.remove H PV.lt s.q x with
  | none => rfl
  | some p => rfl

/-! ### `insert` -/

/-- the `while position > len(promoted)` loop with enough fuel is the model's `promote`; it ends
    normally iff `position` entries could be popped, else with the IndexError of `popleft`
    (never out of fuel) -/
theorem insert_loop1_eq (position fuel : Nat) (s : PosPQ) (acc : List Nat)
    (hf : position - acc.length ≤ fuel) (ha : acc.length ≤ position) :
    Gen.PosPQ.insert_loop1 H gp draw position fuel acc s
      = ((PosPQ.promote H draw (position - acc.length) s acc).2,
         (PosPQ.promote H draw (position - acc.length) s acc).1,
         if (PosPQ.promote H draw (position - acc.length) s acc).2.length = position then LoopOut.done
         else LoopOut.raised PyExc.indexError) := by
  induction fuel generalizing s acc with
  | zero =>
    have h0 : position - acc.length = 0 := by omega
    have h1 : ¬ (position > acc.length) := by omega
    have h2 : acc.length = position := by omega
    simp [pv_lt_fun, Gen.PosPQ.insert_loop1, h0, h1, h2, PosPQ.promote]
  | succ fuel ih =>
    by_cases hp : position > acc.length
    · obtain ⟨k, hk⟩ : ∃ k, position - acc.length = k + 1 := ⟨position - acc.length - 1, by omega⟩
      -- the loop test may be written `position > len`, `len < position`, `not len >= position`, …
      have hp1 : acc.length < position := hp
      have hp2 : ¬ position ≤ acc.length := by omega
      have hp3 : acc.length ≠ position := by omega
      have hp4 : ¬ position = acc.length := by omega
      simp only [pv_lt_fun, Gen.PosPQ.insert_loop1, hp, hp1, hp2, hp3, hp4, ge_iff_le, gt_iff_lt, not_true_eq_false,
        not_false_eq_true, Decidable.not_not, if_true, if_false, popleft_eq, hk, PosPQ.promote]
      cases hpop : PosPQ.popleft H s draw with
      | none =>
        have : acc.length ≠ position := by omega
        simp [this]
      | some p =>
        obtain ⟨x, s'⟩ := p
        have hk' : position - (acc ++ [x]).length = k := by simp; omega
        have := ih s' (acc ++ [x]) (by omega) (by simp; omega)
        simp only [hk'] at this
        simp only [this]
    · have h0 : position - acc.length = 0 := by omega
      have h2 : acc.length = position := by omega
      simp [pv_lt_fun, Gen.PosPQ.insert_loop1, hp, h0, h2, PosPQ.promote]

/-- the `for obj in promoted: self._pq.add(pv, obj)` loop is the model's `addAll` -/
theorem insert_loop2_eq (pv : PV) (l : List Nat) (s : PosPQ) :
    Gen.PosPQ.insert_loop2 H gp draw pv l s = ({ s with q := PosPQ.addAll H pv s.q l }, LoopOut.done) := by
  induction l generalizing s with
  | nil => simp [pv_lt_fun, Gen.PosPQ.insert_loop2, PosPQ.addAll]
  | cons x l ih => simp [pv_lt_fun, Gen.PosPQ.insert_loop2, PosPQ.addAll, ih]

/-- `insert(position, obj)`: no exception escapes (the IndexError of the promotion loop and of
    `peekitem` is handled) and the result is the model's `insert` -/
theorem insert_eq (s : PosPQ) (position x : Nat) :
    Gen.PosPQ.insert H gp draw s position x = (PosPQ.insert H s position x draw, .ok ()) := by
  have hloop := insert_loop1_eq H gp draw position position s [] (by simp) (by simp)
  simp only [List.length_nil, Nat.sub_zero] at hloop
  have hfuel : ((position : Int) - ((([] : List Nat).length : Nat) : Int)).toNat = position := by simp
  simp only [pv_lt_fun, Gen.PosPQ.insert, PosPQ.insert, hfuel, hloop, insert_loop2_eq, update_counters_eq,
    PosPQ.insertPV]
  by_cases hd : (PosPQ.promote H draw position s []).2.length = position
  · simp only [hd, if_true, beq_self_eq_true]
    cases hpk : PQ.peek (PosPQ.promote H draw position s []).1.q with
    | none => simp
    | some e => by_cases hc : e.pri.cls = 0 <;> simp [hc]
  · have hd' : ((PosPQ.promote H draw position s []).2.length == position) = false := by simpa using hd
    simp [hd, hd']

/-! ### completeness -/

/-- `PriorityValue` and `PosPriorityQueue` have exactly these methods and every one of them was
    translated (each is proved equal to its model definition above): a method that is added, removed
    or leaves the supported subset breaks this theorem. -/
theorem methods_complete :
    Gen.PosPQ.methods =
      [("PriorityValue.__lt__", true), ("PriorityValue.priority", true), ("__bool__", true),
       ("__init__", true), ("__iter__", true), ("__len__", true), ("append", true), ("append_pri", true),
       ("boost_stragglers", true), ("clear", true), ("compute_priority_boost", true),
       ("do_maintenance", true), ("find", true), ("insert", true), ("popleft", true), ("remove", true),
       ("reschedule", true), ("reschedule_all", true), ("update_counters", true)] := by
  decide

end Asynkit.GenEqPosPQ
