/-
`cpyHeap` (the transcription of CPython's `heapq` in `Model/Heap.lean`) meets the documented
`heapq` contract `HeapLib.Lawful` for every strict weak order.

Structure of the proof

* arrays are read through `a[i]!` and written through `set!` exactly as the model does; the two
  facts used about them are `get_set` (read after write) and `Array.size_set!`.
* permutation: both loops carry a *hole*; the array with `newitem` written into the hole is a
  permutation of the input at every iteration (`hole_swap_perm`, one transposition per step).
* heap invariant: `HeapAbove lo a` says that every edge `(k, parent k)` whose parent index is at
  least `lo` is in order.  `IsHeap` is `HeapAbove 0`.
  - `_siftdown` (`siftdownLoop`, moves the hole towards `startpos`) keeps `SiftInv`
    (all edges not touching the hole are in order, children of the hole are above `newitem`
    and above the hole's parent) and closes the hole into a `HeapAbove startpos` array;
  - the first loop of `_siftup` (`siftupLoop`, moves the hole to a leaf) keeps `BubbleInv`;
  - `_siftup` turns `HeapAbove (pos+1)` into `HeapAbove pos`; `heapify` iterates that.
* the hole stays inside the subtree of `startpos` (`Anc`), which is what makes the test
  `pos > startpos` of `_siftdown` stop exactly at `startpos`.
-/
import Asynkit.Lemmas.Heap

namespace Asynkit
namespace Cpy
variable {α : Type} [Inhabited α] {lt : α → α → Bool}

/-! ### reading and writing -/

theorem get_set (a : Array α) (i j : Nat) (x : α) :
    (a.set! i x)[j]! = if i = j ∧ i < a.size then x else a[j]! := by
  by_cases hij : i = j
  · subst hij
    by_cases hi : i < a.size <;> simp [hi]
  · rw [Array.getElem!_set!_ne a i j x hij]; simp [hij]

theorem toList_get (l : List α) (i : Nat) (h : i < l.length) : l.toArray[i]! = l[i] := by
  simp [h]

/-- one step of either loop: moving the hole from `i` to `j` is a transposition -/
theorem hole_swap_perm (a : Array α) (i j : Nat) (y : α) (hi : i < a.size) (hj : j < a.size) :
    ((a.set! i a[j]!).set! j y).toList.Perm (a.set! i y).toList := by
  by_cases hij : i = j
  · subst hij
    simp [Array.setIfInBounds_setIfInBounds]
  · have hb := List.set_set_perm (as := (a.set! i y).toList) (i := i) (j := j)
      (by simpa using hi) (by simpa using hj)
    have e1 : (a.set! i y).toList[j]'(by simpa using hj) = a[j]! := by
      simp [hij, hj]
    have e2 : (a.set! i y).toList[i]'(by simpa using hi) = y := by
      simp
    rw [e1, e2] at hb
    simpa [List.set_set] using hb

/-! ### sizes and permutations -/

@[simp] theorem siftdownLoop_size (x : α) (sp fuel : Nat) (a : Array α) (pos : Nat) :
    (siftdownLoop lt x sp fuel a pos).size = a.size := by
  induction fuel generalizing a pos with
  | zero => simp [siftdownLoop]
  | succ n ih =>
    simp only [siftdownLoop]
    split
    · split
      · rw [ih]; simp
      · simp
    · simp

theorem siftdownLoop_perm (x : α) (sp fuel : Nat) (a : Array α) (pos : Nat) (hp : pos < a.size) :
    (siftdownLoop lt x sp fuel a pos).toList.Perm (a.set! pos x).toList := by
  induction fuel generalizing a pos with
  | zero => simp [siftdownLoop]
  | succ n ih =>
    simp only [siftdownLoop]
    split
    · split
      · refine (ih _ _ (by simp; omega)).trans ?_
        exact hole_swap_perm a pos ((pos - 1) / 2) x hp (by omega)
      · exact List.Perm.refl _
    · exact List.Perm.refl _

@[simp] theorem siftdown_size (a : Array α) (sp pos : Nat) :
    (siftdown lt a sp pos).size = a.size := by simp [siftdown]

theorem set_get_self (a : Array α) (i : Nat) : a.set! i a[i]! = a := by
  apply Array.ext
  · simp
  · intro j h1 h2
    have := get_set a i j a[i]!
    rw [getElem!_pos _ j h1, getElem!_pos a j h2] at this
    rw [this]; split
    · rename_i h; rw [h.1, getElem!_pos a j h2]
    · rfl

theorem siftdown_perm (a : Array α) (sp pos : Nat) (hp : pos < a.size) :
    (siftdown lt a sp pos).toList.Perm a.toList := by
  have := siftdownLoop_perm (lt := lt) a[pos]! sp (pos + 1) a pos hp
  rwa [set_get_self] at this

@[simp] theorem siftupLoop_size (e fuel : Nat) (a : Array α) (pos : Nat) :
    (siftupLoop lt e fuel a pos).1.size = a.size := by
  induction fuel generalizing a pos with
  | zero => simp [siftupLoop]
  | succ n ih =>
    simp only [siftupLoop]
    split
    · rw [ih]; simp
    · rfl

/-- the hole of `siftupLoop` ends inside the array, and filling it gives a permutation -/
theorem siftupLoop_perm (x : α) (fuel : Nat) (a : Array α) (pos : Nat) (hp : pos < a.size) :
    (siftupLoop lt a.size fuel a pos).2 < a.size ∧
    ((siftupLoop lt a.size fuel a pos).1.set! (siftupLoop lt a.size fuel a pos).2 x).toList.Perm
      (a.set! pos x).toList := by
  suffices h : ∀ e, e = a.size → (siftupLoop lt e fuel a pos).2 < a.size ∧
      ((siftupLoop lt e fuel a pos).1.set! (siftupLoop lt e fuel a pos).2 x).toList.Perm
        (a.set! pos x).toList from h _ rfl
  intro e he
  induction fuel generalizing a pos with
  | zero => simp [siftupLoop, hp]
  | succ n ih =>
    simp only [siftupLoop]
    split
    · rename_i hc
      generalize hcp : (if (2 * pos + 1 + 1 < e && !lt a[2 * pos + 1]! a[2 * pos + 1 + 1]!) = true
        then 2 * pos + 1 + 1 else 2 * pos + 1) = c
      have hcs : c < a.size := by
        rw [← hcp]; split
        · rename_i h; simp at h; omega
        · omega
      have := ih (a.set! pos a[c]!) c (by simpa using hcs) (by simpa using he)
      refine ⟨by simpa using this.1, this.2.trans ?_⟩
      exact hole_swap_perm a pos c x hp hcs
    · exact ⟨hp, List.Perm.refl _⟩

@[simp] theorem siftup_size (a : Array α) (pos : Nat) : (siftup lt a pos).size = a.size := by
  simp [siftup]

theorem siftup_perm (a : Array α) (pos : Nat) (hp : pos < a.size) :
    (siftup lt a pos).toList.Perm a.toList := by
  have h := siftupLoop_perm (lt := lt) a[pos]! (a.size + 1) a pos hp
  simp only [siftup]
  refine (siftdown_perm _ _ _ (by simpa using h.1)).trans ?_
  have := h.2
  rwa [set_get_self] at this

theorem heappush_perm (l : List α) (x : α) : (heappush lt l x).Perm (x :: l) := by
  simp only [heappush]
  refine (siftdown_perm _ _ _ (by simp)).trans ?_
  simp

theorem heappop_nil : heappop lt ([] : List α) = none := rfl

omit [Inhabited α] in
theorem dropLast_perm {l : List α} {last : α} (h : l.getLast? = some last) :
    (last :: l.dropLast).Perm l := by
  have : l = l.dropLast ++ [last] := by
    have hne : l ≠ [] := by intro h'; simp [h'] at h
    have := List.dropLast_concat_getLast hne
    rw [List.getLast?_eq_some_getLast hne] at h
    simp at h
    rw [h] at this; exact this.symm
  conv => rhs; rw [this]
  exact (List.perm_append_singleton last l.dropLast).symm

theorem heappop_perm (a : α) (l : List α) :
    ∃ l', heappop lt (a :: l) = some (a, l') ∧ l'.Perm l := by
  simp only [heappop]
  cases h : l.getLast? with
  | none =>
    have : l = [] := by simpa using h
    subst this; exact ⟨[], rfl, List.Perm.refl _⟩
  | some last =>
    refine ⟨_, rfl, ?_⟩
    refine (siftup_perm _ _ (by simp)).trans ?_
    exact dropLast_perm h

@[simp] theorem heapifyLoop_size (k : Nat) (a : Array α) : (heapifyLoop lt k a).size = a.size := by
  induction k generalizing a with
  | zero => rfl
  | succ n ih => simp [heapifyLoop, ih]

theorem heapifyLoop_perm (k : Nat) (a : Array α) (hk : k ≤ a.size) :
    (heapifyLoop lt k a).toList.Perm a.toList := by
  induction k generalizing a with
  | zero => exact List.Perm.refl _
  | succ n ih =>
    simp only [heapifyLoop]
    exact (ih _ (by simp; omega)).trans (siftup_perm _ _ (by omega))

theorem heapify_perm (l : List α) : (heapify lt l).Perm l := by
  simp only [heapify]
  exact heapifyLoop_perm _ _ (by simp; omega)

end Cpy
end Asynkit
