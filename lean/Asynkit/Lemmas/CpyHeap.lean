/-
`cpyHeap` (the transcription of CPython's `heapq` in `Model/Heap.lean`) meets the documented
`heapq` contract `HeapLib.Lawful` for every strict weak order.

Structure of the proof

* arrays are read through `a[i]!` and written through `set!` exactly as the model does; the two
  facts used about them are `get_set` (read after write) and `Array.size_set!`.
* permutation: both loops carry a *hole*; the array with `newitem` written into the hole is a
  permutation of the input at every iteration (`hole_swap_perm`, one transposition per step).
* heap invariant: `HeapAbove lo a` says that every edge `(k, parent k)` whose parent index is at
  least `lo` is in order.  `IsHeap` is `HeapAbove 0`.
  - `_siftdown` (`siftdownLoop`, moves the hole towards `startpos`) keeps `SiftInv`
    (all edges not touching the hole are in order, children of the hole are above `newitem`
    and above the hole's parent) and closes the hole into a `HeapAbove startpos` array;
  - the first loop of `_siftup` (`siftupLoop`, moves the hole to a leaf) keeps `BubbleInv`;
  - `_siftup` turns `HeapAbove (pos+1)` into `HeapAbove pos`; `heapify` iterates that.
* the hole stays inside the subtree of `startpos` (`Anc`), which is what makes the test
  `pos > startpos` of `_siftdown` stop exactly at `startpos`.
-/
import Asynkit.Lemmas.Heap

namespace Asynkit
namespace Cpy
variable {α : Type} [Inhabited α] {lt : α → α → Bool}

/-! ### reading and writing -/

theorem get_set (a : Array α) (i j : Nat) (x : α) :
    (a.set! i x)[j]! = if i = j ∧ i < a.size then x else a[j]! := by
  by_cases hij : i = j
  · subst hij
    by_cases hi : i < a.size <;> simp [hi]
  · rw [Array.getElem!_set!_ne a i j x hij]; simp [hij]

theorem toList_get (l : List α) (i : Nat) (h : i < l.length) : l.toArray[i]! = l[i] := by
  simp [h]

/-- one step of either loop: moving the hole from `i` to `j` is a transposition -/
theorem hole_swap_perm (a : Array α) (i j : Nat) (y : α) (hi : i < a.size) (hj : j < a.size) :
    ((a.set! i a[j]!).set! j y).toList.Perm (a.set! i y).toList := by
  by_cases hij : i = j
  · subst hij
    simp [Array.setIfInBounds_setIfInBounds]
  · have hb := List.set_set_perm (as := (a.set! i y).toList) (i := i) (j := j)
      (by simpa using hi) (by simpa using hj)
    have e1 : (a.set! i y).toList[j]'(by simpa using hj) = a[j]! := by
      simp [hij, hj]
    have e2 : (a.set! i y).toList[i]'(by simpa using hi) = y := by
      simp
    rw [e1, e2] at hb
    simpa [List.set_set] using hb

/-! ### sizes and permutations -/

@[simp] theorem siftdownLoop_size (x : α) (sp fuel : Nat) (a : Array α) (pos : Nat) :
    (siftdownLoop lt x sp fuel a pos).size = a.size := by
  induction fuel generalizing a pos with
  | zero => simp [siftdownLoop]
  | succ n ih =>
    simp only [siftdownLoop]
    split
    · split
      · rw [ih]; simp
      · simp
    · simp

theorem siftdownLoop_perm (x : α) (sp fuel : Nat) (a : Array α) (pos : Nat) (hp : pos < a.size) :
    (siftdownLoop lt x sp fuel a pos).toList.Perm (a.set! pos x).toList := by
  induction fuel generalizing a pos with
  | zero => simp [siftdownLoop]
  | succ n ih =>
    simp only [siftdownLoop]
    split
    · split
      · refine (ih _ _ (by simp; omega)).trans ?_
        exact hole_swap_perm a pos ((pos - 1) / 2) x hp (by omega)
      · exact List.Perm.refl _
    · exact List.Perm.refl _

@[simp] theorem siftdown_size (a : Array α) (sp pos : Nat) :
    (siftdown lt a sp pos).size = a.size := by simp [siftdown]

theorem set_get_self (a : Array α) (i : Nat) : a.set! i a[i]! = a := by
  apply Array.ext
  · simp
  · intro j h1 h2
    have := get_set a i j a[i]!
    rw [getElem!_pos _ j h1, getElem!_pos a j h2] at this
    rw [this]; split
    · rename_i h; rw [h.1, getElem!_pos a j h2]
    · rfl

theorem siftdown_perm (a : Array α) (sp pos : Nat) (hp : pos < a.size) :
    (siftdown lt a sp pos).toList.Perm a.toList := by
  have := siftdownLoop_perm (lt := lt) a[pos]! sp (pos + 1) a pos hp
  rwa [set_get_self] at this

@[simp] theorem siftupLoop_size (e fuel : Nat) (a : Array α) (pos : Nat) :
    (siftupLoop lt e fuel a pos).1.size = a.size := by
  induction fuel generalizing a pos with
  | zero => simp [siftupLoop]
  | succ n ih =>
    simp only [siftupLoop]
    split
    · rw [ih]; simp
    · rfl

/-- the hole of `siftupLoop` ends inside the array, and filling it gives a permutation -/
theorem siftupLoop_perm (x : α) (fuel : Nat) (a : Array α) (pos : Nat) (hp : pos < a.size) :
    (siftupLoop lt a.size fuel a pos).2 < a.size ∧
    ((siftupLoop lt a.size fuel a pos).1.set! (siftupLoop lt a.size fuel a pos).2 x).toList.Perm
      (a.set! pos x).toList := by
  suffices h : ∀ e, e = a.size → (siftupLoop lt e fuel a pos).2 < a.size ∧
      ((siftupLoop lt e fuel a pos).1.set! (siftupLoop lt e fuel a pos).2 x).toList.Perm
        (a.set! pos x).toList from h _ rfl
  intro e he
  induction fuel generalizing a pos with
  | zero => simp [siftupLoop, hp]
  | succ n ih =>
    simp only [siftupLoop]
    split
    · rename_i hc
      generalize hcp : (if (2 * pos + 1 + 1 < e && !lt a[2 * pos + 1]! a[2 * pos + 1 + 1]!) = true
        then 2 * pos + 1 + 1 else 2 * pos + 1) = c
      have hcs : c < a.size := by
        rw [← hcp]; split
        · rename_i h; simp at h; omega
        · omega
      have := ih (a.set! pos a[c]!) c (by simpa using hcs) (by simpa using he)
      refine ⟨by simpa using this.1, this.2.trans ?_⟩
      exact hole_swap_perm a pos c x hp hcs
    · exact ⟨hp, List.Perm.refl _⟩

@[simp] theorem siftup_size (a : Array α) (pos : Nat) : (siftup lt a pos).size = a.size := by
  simp [siftup]

theorem siftup_perm (a : Array α) (pos : Nat) (hp : pos < a.size) :
    (siftup lt a pos).toList.Perm a.toList := by
  have h := siftupLoop_perm (lt := lt) a[pos]! (a.size + 1) a pos hp
  simp only [siftup]
  refine (siftdown_perm _ _ _ (by simpa using h.1)).trans ?_
  have := h.2
  rwa [set_get_self] at this

theorem heappush_perm (l : List α) (x : α) : (heappush lt l x).Perm (x :: l) := by
  simp only [heappush]
  refine (siftdown_perm _ _ _ (by simp)).trans ?_
  simp

theorem heappop_nil : heappop lt ([] : List α) = none := rfl

omit [Inhabited α] in
theorem dropLast_perm {l : List α} {last : α} (h : l.getLast? = some last) :
    (last :: l.dropLast).Perm l := by
  have : l = l.dropLast ++ [last] := by
    have hne : l ≠ [] := by intro h'; simp [h'] at h
    have := List.dropLast_concat_getLast hne
    rw [List.getLast?_eq_some_getLast hne] at h
    simp at h
    rw [h] at this; exact this.symm
  conv => rhs; rw [this]
  exact (List.perm_append_singleton last l.dropLast).symm

theorem heappop_perm (a : α) (l : List α) :
    ∃ l', heappop lt (a :: l) = some (a, l') ∧ l'.Perm l := by
  simp only [heappop]
  cases h : l.getLast? with
  | none =>
    have : l = [] := by simpa using h
    subst this; exact ⟨[], rfl, List.Perm.refl _⟩
  | some last =>
    refine ⟨_, rfl, ?_⟩
    refine (siftup_perm _ _ (by simp)).trans ?_
    exact dropLast_perm h

@[simp] theorem heapifyLoop_size (k : Nat) (a : Array α) : (heapifyLoop lt k a).size = a.size := by
  induction k generalizing a with
  | zero => rfl
  | succ n ih => simp [heapifyLoop, ih]

theorem heapifyLoop_perm (k : Nat) (a : Array α) (hk : k ≤ a.size) :
    (heapifyLoop lt k a).toList.Perm a.toList := by
  induction k generalizing a with
  | zero => exact List.Perm.refl _
  | succ n ih =>
    simp only [heapifyLoop]
    exact (ih _ (by simp; omega)).trans (siftup_perm _ _ (by omega))

theorem heapify_perm (l : List α) : (heapify lt l).Perm l := by
  simp only [heapify]
  exact heapifyLoop_perm _ _ (by simp; omega)

/-! ### the heap invariant -/

/-- every edge `(k, parent k)` whose parent index is at least `lo` is in order -/
def HeapAbove (lt : α → α → Bool) (lo : Nat) (a : Array α) : Prop :=
  ∀ k, 0 < k → k < a.size → lo ≤ (k - 1) / 2 → lt a[k]! a[(k - 1) / 2]! = false

theorem isHeap_iff (a : Array α) : IsHeap lt a.toList ↔ HeapAbove lt 0 a := by
  constructor
  · intro h k hk hks _
    have := h k hk (by simpa using hks)
    simpa [getElem!_pos a k hks, getElem!_pos a ((k - 1) / 2) (by omega)] using this
  · intro h k hk hks
    have hks' : k < a.size := by simpa using hks
    have := h k hk hks' (by omega)
    simpa [getElem!_pos a k hks', getElem!_pos a ((k - 1) / 2) (by omega)] using this

/-- `Anc s p`: `p` lies in the subtree rooted at `s` -/
inductive Anc (s : Nat) : Nat → Prop
  | refl : Anc s s
  | child {p c : Nat} : Anc s p → 0 < c → (c - 1) / 2 = p → Anc s c

theorem Anc.le {s p : Nat} (h : Anc s p) : s ≤ p := by
  induction h with
  | refl => exact Nat.le_refl _
  | child _ _ hp ih => omega

theorem Anc.parent {s p : Nat} (h : Anc s p) (hp : s < p) : Anc s ((p - 1) / 2) := by
  cases h with
  | refl => omega
  | child h' _ he => rw [he]; exact h'

theorem Anc.zero (p : Nat) : Anc 0 p := by
  induction p using Nat.strongRecOn with
  | _ p ih =>
    by_cases hp : p = 0
    · subst hp; exact .refl
    · exact .child (ih ((p - 1) / 2) (by omega)) (by omega) rfl

/-- invariant of `_siftdown`: hole at `pos`, `x` waiting to be written -/
structure SiftInv (lt : α → α → Bool) (s : Nat) (a : Array α) (pos : Nat) (x : α) : Prop where
  other : ∀ k, 0 < k → k < a.size → s ≤ (k - 1) / 2 → k ≠ pos → (k - 1) / 2 ≠ pos →
    lt a[k]! a[(k - 1) / 2]! = false
  kids : ∀ k, 0 < k → k < a.size → (k - 1) / 2 = pos → lt a[k]! x = false
  grand : ∀ k, 0 < k → k < a.size → (k - 1) / 2 = pos → 0 < pos → s ≤ (pos - 1) / 2 →
    lt a[k]! a[(pos - 1) / 2]! = false

theorem SiftInv.close {s : Nat} {a : Array α} {pos : Nat} {x : α} (h : SiftInv lt s a pos x)
    (hp : pos < a.size)
    (hx : 0 < pos → s ≤ (pos - 1) / 2 → lt x a[(pos - 1) / 2]! = false) :
    HeapAbove lt s (a.set! pos x) := by
  intro k hk hks hlo
  have hks' : k < a.size := by simpa using hks
  rw [get_set, get_set]
  by_cases h1 : pos = k
  · subst h1
    have h2 : ¬ (pos = (pos - 1) / 2) := by omega
    simp only [hp, and_self, if_true, h2, false_and, if_false]
    exact hx hk hlo
  · by_cases h2 : pos = (k - 1) / 2
    · simp only [h1, false_and, if_false, ← h2, hp, and_self, if_true]
      exact h.kids k hk hks' h2.symm
    · simp only [h1, h2, false_and, if_false]
      exact h.other k hk hks' hlo (Ne.symm h1) (Ne.symm h2)

theorem SiftInv.step (hs : StrictWeak lt) {s : Nat} {a : Array α} {pos : Nat} {x : α}
    (h : SiftInv lt s a pos x) (hp : pos < a.size) (hpos : 0 < pos) (hlo : s ≤ (pos - 1) / 2)
    (hx : lt x a[(pos - 1) / 2]! = true) :
    SiftInv lt s (a.set! pos a[(pos - 1) / 2]!) ((pos - 1) / 2) x := by
  have hxp : lt a[(pos - 1) / 2]! x = false := hs.asymm _ _ hx
  constructor
  · intro k hk hks hlo' hne1 hne2
    have hks' : k < a.size := by simpa using hks
    rw [get_set, get_set]
    by_cases h1 : pos = k
    · omega
    · by_cases h2 : pos = (k - 1) / 2
      · simp only [h1, false_and, if_false, ← h2, hp, and_self, if_true]
        exact h.grand k hk hks' h2.symm hpos hlo
      · simp only [h1, h2, false_and, if_false]
        exact h.other k hk hks' hlo' (Ne.symm h1) (Ne.symm h2)
  · intro k hk hks hpar
    have hks' : k < a.size := by simpa using hks
    rw [get_set]
    by_cases h1 : pos = k
    · simp only [h1, hks', and_self, if_true]; rw [← h1]; exact hxp
    · simp only [h1, false_and, if_false]
      have := h.other k hk hks' (by omega) (Ne.symm h1) (by omega)
      rw [hpar] at this
      exact hs.negTrans _ _ _ this hxp
  · intro k hk hks hpar hpp hlo2
    have hks' : k < a.size := by simpa using hks
    have hgp : lt a[(pos - 1) / 2]! a[((pos - 1) / 2 - 1) / 2]! = false :=
      h.other ((pos - 1) / 2) hpp (by omega) hlo2 (by omega) (by omega)
    rw [get_set, get_set]
    have h3 : ¬ (pos = ((pos - 1) / 2 - 1) / 2) := by omega
    simp only [h3, false_and, if_false]
    by_cases h1 : pos = k
    · simp only [h1, hks', and_self, if_true]; rw [← h1]; exact hgp
    · simp only [h1, false_and, if_false]
      have := h.other k hk hks' (by omega) (Ne.symm h1) (by omega)
      rw [hpar] at this
      exact hs.negTrans _ _ _ this hgp

theorem siftdownLoop_heap (hs : StrictWeak lt) (x : α) (s fuel : Nat) (a : Array α) (pos : Nat)
    (hanc : Anc s pos) (hp : pos < a.size) (hf : pos < fuel) (h : SiftInv lt s a pos x) :
    HeapAbove lt s (siftdownLoop lt x s fuel a pos) := by
  induction fuel generalizing a pos with
  | zero => omega
  | succ n ih =>
    simp only [siftdownLoop]
    split
    · rename_i hgt
      have hpar := hanc.parent hgt
      split
      · rename_i hx
        exact ih _ _ hpar (by simp; omega) (by omega) (h.step hs hp (by omega) hpar.le hx)
      · rename_i hx
        exact h.close hp (fun _ _ => by simpa using hx)
    · have := hanc.le
      exact h.close hp (fun _ _ => by omega)

/-- invariant of the first loop of `_siftup` (hole at `pos`, started at `s`): every edge below
    `s` is in order, except the two edges out of the hole while the hole is still at `s` -/
def BubbleInv (lt : α → α → Bool) (s : Nat) (a : Array α) (pos : Nat) : Prop :=
  ∀ k, 0 < k → k < a.size → s ≤ (k - 1) / 2 → ((k - 1) / 2 = pos → pos ≠ s) →
    lt a[k]! a[(k - 1) / 2]! = false

theorem BubbleInv.step (hs : StrictWeak lt) {s : Nat} {a : Array α} {pos c : Nat}
    (h : BubbleInv lt s a pos) (hsp : s ≤ pos) (hp : pos < a.size) (hc : c < a.size)
    (hcp : (c - 1) / 2 = pos) (hc0 : 0 < c)
    (hmin : ∀ k, 0 < k → k < a.size → (k - 1) / 2 = pos → lt a[k]! a[c]! = false) :
    BubbleInv lt s (a.set! pos a[c]!) c := by
  intro k hk hks hlo hex
  have hks' : k < a.size := by simpa using hks
  rw [get_set, get_set]
  by_cases h1 : pos = k
  · subst h1
    have h2 : ¬ (pos = (pos - 1) / 2) := by omega
    simp only [hp, and_self, if_true, h2, false_and, if_false]
    -- the parent edge of the hole: only present when the hole has left `s`
    have hne : pos ≠ s := by omega
    have e1 := h c hc0 hc (by omega) (fun _ => hne)
    have e2 := h pos (by omega) hp (by omega) (by omega)
    rw [hcp] at e1
    exact hs.negTrans _ _ _ e1 e2
  · by_cases h2 : pos = (k - 1) / 2
    · simp only [h1, false_and, if_false, ← h2, hp, and_self, if_true]
      exact hmin k hk hks' h2.symm
    · simp only [h1, h2, false_and, if_false]
      exact h k hk hks' hlo (fun e => absurd e.symm h2)

theorem siftupLoop_inv (hs : StrictWeak lt) (s e fuel : Nat) (a : Array α) (pos : Nat)
    (he : e = a.size) (hanc : Anc s pos) (hp : pos < a.size) (hf : a.size ≤ pos + fuel)
    (h : BubbleInv lt s a pos) :
    Anc s (siftupLoop lt e fuel a pos).2 ∧ (siftupLoop lt e fuel a pos).2 < a.size ∧
    a.size ≤ 2 * (siftupLoop lt e fuel a pos).2 + 1 ∧
    BubbleInv lt s (siftupLoop lt e fuel a pos).1 (siftupLoop lt e fuel a pos).2 := by
  induction fuel generalizing a pos with
  | zero => simp only [siftupLoop]; exact ⟨hanc, hp, by omega, h⟩
  | succ n ih =>
    simp only [siftupLoop]
    split
    · rename_i hlt
      generalize hcd : (if (2 * pos + 1 + 1 < e && !lt a[2 * pos + 1]! a[2 * pos + 1 + 1]!) = true
        then 2 * pos + 1 + 1 else 2 * pos + 1) = c
      have hc : c < a.size ∧ 0 < c ∧ (c - 1) / 2 = pos ∧
          ∀ k, 0 < k → k < a.size → (k - 1) / 2 = pos → lt a[k]! a[c]! = false := by
        rw [← hcd]; split
        · rename_i hb
          simp only [Bool.and_eq_true, decide_eq_true_eq, Bool.not_eq_true'] at hb
          refine ⟨by omega, by omega, by omega, ?_⟩
          intro k hk hks hpar
          have : k = 2 * pos + 1 ∨ k = 2 * pos + 1 + 1 := by omega
          rcases this with rfl | rfl
          · exact hb.2
          · exact hs.irrefl _
        · rename_i hb
          refine ⟨by omega, by omega, by omega, ?_⟩
          intro k hk hks hpar
          have : k = 2 * pos + 1 ∨ k = 2 * pos + 1 + 1 := by omega
          rcases this with rfl | rfl
          · exact hs.irrefl _
          · have hr : lt a[2 * pos + 1]! a[2 * pos + 1 + 1]! = true := by
              cases hv : lt a[2 * pos + 1]! a[2 * pos + 1 + 1]! with
              | true => rfl
              | false => exact absurd (by simp [hv]; omega) hb
            exact hs.asymm _ _ hr
      obtain ⟨hcs, hc0, hcp, hmin⟩ := hc
      have := ih (a.set! pos a[c]!) c (by simpa using he)
        (.child hanc hc0 hcp) (by simpa using hcs) (by simp; omega)
        (h.step hs hanc.le hp hcs hcp hc0 hmin)
      simpa using this
    · exact ⟨hanc, hp, by omega, h⟩

theorem siftup_heap (hs : StrictWeak lt) (a : Array α) (pos : Nat) (hp : pos < a.size)
    (h : HeapAbove lt (pos + 1) a) : HeapAbove lt pos (siftup lt a pos) := by
  have hb : BubbleInv lt pos a pos := by
    intro k hk hks hlo hex
    exact h k hk hks (by by_cases e : (k - 1) / 2 = pos; exact absurd rfl (hex e); omega)
  have hsz := siftupLoop_size (lt := lt) a.size (a.size + 1) a pos
  obtain ⟨hanc, hps, hleaf, hinv⟩ :=
    siftupLoop_inv hs pos a.size (a.size + 1) a pos rfl .refl hp (by omega) hb
  simp only [siftup, siftdown]
  generalize siftupLoop lt a.size (a.size + 1) a pos = r at *
  obtain ⟨b, p⟩ := r
  simp only at *
  have hpb : p < b.size := by omega
  have hx : (b.set! p a[pos]!)[p]! = a[pos]! := by rw [get_set]; simp [hpb]
  rw [hx]
  apply siftdownLoop_heap hs _ _ _ _ _ hanc (by simpa using hpb) (by omega)
  constructor
  · intro k hk hks hlo h1 h2
    have hks' : k < b.size := by simpa using hks
    rw [get_set, get_set]
    simp only [Ne.symm h1, Ne.symm h2, false_and, if_false]
    exact hinv k hk hks' hlo (fun e => absurd e h2)
  · intro k hk hks hpar
    have hks' : k < b.size := by simpa using hks
    omega
  · intro k hk hks hpar
    have hks' : k < b.size := by simpa using hks
    omega

/-! ### the three entry points -/

theorem get_push_lt (a : Array α) (x : α) (k : Nat) (hk : k < a.size) :
    (a.push x)[k]! = a[k]! := by
  rw [getElem!_pos (a.push x) k (by simp; omega), getElem!_pos a k hk, Array.getElem_push_lt hk]

theorem heappush_heap (hs : StrictWeak lt) (l : List α) (x : α) (h : IsHeap lt l) :
    IsHeap lt (heappush lt l x) := by
  have h0 : HeapAbove lt 0 l.toArray := (isHeap_iff _).mp h
  simp only [heappush]
  rw [isHeap_iff]
  simp only [siftdown]
  apply siftdownLoop_heap hs _ _ _ _ _ (Anc.zero _) (by simp) (by omega)
  constructor
  · intro k hk hks hlo h1 h2
    have hks' : k < l.toArray.size := by simp at hks ⊢; omega
    rw [get_push_lt _ _ _ hks', get_push_lt _ _ _ (by omega)]
    exact h0 k hk hks' hlo
  · intro k hk hks hpar
    simp at hks; omega
  · intro k hk hks hpar
    simp at hks; omega

theorem heappop_heap (hs : StrictWeak lt) (a : α) (l : List α) :
    ∃ l', heappop lt (a :: l) = some (a, l') ∧ l'.Perm l ∧ (IsHeap lt (a :: l) → IsHeap lt l') := by
  simp only [heappop]
  cases h : l.getLast? with
  | none =>
    have : l = [] := by simpa using h
    subst this; exact ⟨[], rfl, List.Perm.refl _, fun _ => isHeap_nil⟩
  | some last =>
    refine ⟨_, rfl, (siftup_perm _ _ (by simp)).trans (dropLast_perm h), ?_⟩
    intro hh
    rw [isHeap_iff]
    apply siftup_heap hs _ _ (by simp)
    intro k hk hks hlo
    have hlen : (last :: l.dropLast).length = l.length := by
      have := (dropLast_perm h).length_eq; simpa using this
    have hks' : k < l.length := by simp at hks hlen; omega
    have := hh k hk (by simp; omega)
    have e : ∀ j (_ : 0 < j) (hjl : j < l.length),
        (last :: l.dropLast).toArray[j]! = (a :: l)[j]'(by simp only [List.length_cons]; omega) := by
      intro j hj hjl
      obtain ⟨j', rfl⟩ : ∃ j', j = j' + 1 := ⟨j - 1, by omega⟩
      rw [toList_get _ _ (by simp only [List.length_cons, List.length_dropLast]; omega)]
      simp
    rw [e k hk hks', e ((k - 1) / 2) (by omega) (by omega)]
    exact this

theorem heapifyLoop_heap (hs : StrictWeak lt) (k : Nat) (a : Array α) (hk : k ≤ a.size)
    (h : HeapAbove lt k a) : HeapAbove lt 0 (heapifyLoop lt k a) := by
  induction k generalizing a with
  | zero => exact h
  | succ n ih =>
    simp only [heapifyLoop]
    exact ih _ (by simp; omega) (siftup_heap hs a n (by omega) h)

theorem heapify_heap (hs : StrictWeak lt) (l : List α) : IsHeap lt (heapify lt l) := by
  simp only [heapify]
  rw [isHeap_iff]
  apply heapifyLoop_heap hs _ _ (by simp; omega)
  intro k hk hks hlo
  simp at hks; omega

end Cpy

/-- **CPython's `heapq`, as transcribed in `Model/Heap.lean`, meets its documented contract**
    for every strict weak order: `heappush`/`heappop`/`heapify` permute, `heappush` and `heappop`
    preserve the heap invariant, `heapify` establishes it. -/
theorem cpyHeap_lawful {α : Type} [Inhabited α] {lt : α → α → Bool} (hs : StrictWeak lt) :
    (cpyHeap α).Lawful lt where
  push_perm := Cpy.heappush_perm
  push_heap := Cpy.heappush_heap hs
  pop_nil := rfl
  pop_cons := Cpy.heappop_heap hs
  heapify_perm := Cpy.heapify_perm
  heapify_heap := Cpy.heapify_heap hs
end Asynkit
