/-
C16 — the generated translation of `task_timeout` (`Asynkit/Gen/Timeout.lean`, regenerated from /repo/src on
every run by translator/timeout2lean.py) is the transition system `Model/Timeout.lean` the theorems of
Props/C16.lean are about — for every state.

* context manager: call → `yield` is the `enter` event; `yield` resumed normally is `exitOk`; `yield` resumed by
  an exception is one level of the `raise` event's unwinding (`levelExit` + `finallyOf`) resp. `exitOther`;
* `trigger_timeout()` after the loop marked the handle as run is the `fire` event;
* `interruptor()`, segment by segment (the `for i in range(3)` loop is unrolled: one suspension point per
  iteration): each run of the task is the `istep` event; the model's `ist = at k` is the control state
  ("the next run starts iteration k"), i.e. the abstraction `istOf` of the suspension point reached.
-/
import Asynkit.Gen.Timeout
import Asynkit.Lemmas.C16

namespace Asynkit.GenEqC16
open Asynkit.Timeout Asynkit.Gen.Timeout

/-! ### level records by id -/

theorem updLevel_id_of_not_mem (ls : List Level) (id : Nat) (f : Level → Level)
    (h : ∀ l ∈ ls, l.id ≠ id) : updLevel ls id f = ls := by
  induction ls with
  | nil => rfl
  | cons a ls ih =>
    have ha : a.id ≠ id := h a (by simp)
    simp only [updLevel, List.map_cons] at ih ⊢
    rw [ih (fun l hl => h l (by simp [hl]))]
    simp [ha]

theorem updLevel_head (l : Level) (stk : List Level) (f : Level → Level)
    (h : ∀ x ∈ stk, x.id ≠ l.id) : updLevel (l :: stk) l.id f = f l :: stk := by
  have := updLevel_id_of_not_mem stk l.id f h
  simp only [updLevel, List.map_cons, beq_self_eq_true, if_true] at this ⊢
  rw [this]

theorem updLevel_updLevel (ls : List Level) (id : Nat) (f g : Level → Level) (hf : ∀ l, (f l).id = l.id) :
    updLevel (updLevel ls id f) id g = updLevel ls id (fun l => g (f l)) := by
  unfold updLevel
  rw [List.map_map]
  apply List.map_congr_left
  intro a _
  by_cases ha : a.id = id
  · simp [ha, hf]
  · simp [ha]

theorem setLevel_setLevel (s : State) (id : Nat) (f g : Level → Level) (hf : ∀ l, (f l).id = l.id) :
    setLevel (setLevel s id f) id g = setLevel s id (fun l => g (f l)) := by
  simp [setLevel, updLevel_updLevel _ _ _ _ hf]

theorem not_mem_of_findLevel_none (s : State) (id : Nat) (h : (findLevel s id).isNone = true) :
    (∀ l ∈ s.stack, l.id ≠ id) ∧ (∀ l ∈ s.exited, l.id ≠ id) := by
  unfold findLevel at h
  cases h1 : s.stack.find? (·.id == id) with
  | some l => simp [h1] at h
  | none =>
    cases h2 : s.exited.find? (·.id == id) with
    | some l => simp [h1, h2] at h
    | none =>
      constructor
      · intro l hl he
        have := List.find?_eq_none.mp h1 l hl
        simp [he] at this
      · intro l hl he
        have := List.find?_eq_none.mp h2 l hl
        simp [he] at this

/-! ### the context manager -/

/-- **call → `yield`** is the `enter` event (a deadline: timer armed, `is_active = True`; `None`: nothing). -/
theorem tt_entry_eq (s s' : State) (id : Nat) (timeout : Option Int)
    (h : step s (.enter id timeout.isSome) = some s') :
    tt_entry s id timeout =
      (s', if timeout.isSome then ttOut.susp_yield1 ⟨⟩ else ttOut.susp_yield0 ⟨⟩) := by
  simp only [step] at h
  split at h
  · rename_i hc
    injection h with h; subst h
    obtain ⟨h1, h2⟩ := not_mem_of_findLevel_none s id hc.2
    cases timeout with
    | none => simp [tt_entry, Prim.enterFrame]
    | some d =>
      simp only [tt_entry, Prim.enterFrame, Prim.armTimer, Prim.setActive, Option.isSome_some, if_true]
      congr 1
      simp only [setLevel]
      have e1 := updLevel_head { id := id, timed := true, active := false, timer := .none, ist := .notCreated }
        s.stack (fun l => { l with timer := .armed }) h1
      simp only at e1
      rw [e1, updLevel_id_of_not_mem _ _ _ h2]
      have e2 := updLevel_head { id := id, timed := true, active := false, timer := .armed, ist := .notCreated }
        s.stack (fun l => { l with active := true }) h1
      simp only at e2
      rw [e2, updLevel_id_of_not_mem _ _ _ h2]
  · cases h

/-- the effect of leaving a *timed* level through its `finally` -/
theorem leave_timed (s : State) (l : Level) (stk : List Level) (hs : s.stack = l :: stk)
    (ht : l.timed = true) (hu : (∀ x ∈ stk, x.id ≠ l.id) ∧ (∀ x ∈ s.exited, x.id ≠ l.id)) :
    Prim.leaveFrame (Prim.cancelTimer (Prim.setActive s l.id false) l.id) l.id
      = { s with stack := stk, exited := finallyOf l :: s.exited } := by
  have hm : Prim.cancelTimer (Prim.setActive s l.id false) l.id
      = setLevel s l.id (fun x => { x with active := false, timer := .cancelled }) := by
    unfold Prim.cancelTimer Prim.setActive
    exact setLevel_setLevel s l.id (fun x => { x with active := false }) (fun x => { x with timer := .cancelled })
      (fun _ => rfl)
  rw [hm]
  unfold setLevel
  rw [hs, updLevel_head l stk _ hu.1, updLevel_id_of_not_mem _ _ _ hu.2]
  simp [Prim.leaveFrame, finallyOf, ht]

/-- the effect of leaving an untimed (`None`) level: nothing but the frame -/
theorem leave_untimed (s : State) (l : Level) (stk : List Level) (hs : s.stack = l :: stk)
    (ht : l.timed = false) (ha : l.active = false) :
    Prim.leaveFrame s l.id = { s with stack := stk, exited := finallyOf l :: s.exited } := by
  have : finallyOf l = l := by
    cases l; simp_all [finallyOf]
  simp [Prim.leaveFrame, hs, this]

/-- **`yield` resumed normally** is the `exitOk` event. -/
theorem tt_exit_ok_eq (s s' : State) (l : Level) (stk : List Level) (hs : s.stack = l :: stk)
    (hu : (∀ x ∈ stk, x.id ≠ l.id) ∧ (∀ x ∈ s.exited, x.id ≠ l.id))
    (ha : l.timed = false → l.active = false)
    (h : step s (.exitOk l.id) = some s') :
    (l.timed = true → tt_yield1 s l.id ⟨⟩ .ok = (s', .fin .ret)) ∧
    (l.timed = false → tt_yield0 s l.id ⟨⟩ .ok = (s', .fin .ret)) := by
  simp only [step, hs] at h
  split at h
  · injection h with h; subst h
    constructor
    · intro ht
      simp only [tt_yield1]
      rw [leave_timed s l stk hs ht hu]
    · intro ht
      simp only [tt_yield0]
      rw [leave_untimed s l stk hs ht (ha ht)]
  · cases h

/-- **`yield` resumed by an exception**: one level of the model's unwinding — `levelExit` decides what goes on
(our own interrupt becomes TimeoutError, anything else passes unchanged), `finallyOf` is the `finally`. -/
theorem tt_exit_exc_eq (s : State) (l : Level) (stk : List Level) (e : Exc) (hs : s.stack = l :: stk)
    (hu : (∀ x ∈ stk, x.id ≠ l.id) ∧ (∀ x ∈ s.exited, x.id ≠ l.id))
    (ha : l.timed = false → l.active = false) :
    (l.timed = true → tt_yield1 s l.id ⟨⟩ (.exc e) =
        ({ s with stack := stk, exited := finallyOf l :: s.exited }, .fin (.raised (levelExit l e)))) ∧
    (l.timed = false → tt_yield0 s l.id ⟨⟩ (.exc e) =
        ({ s with stack := stk, exited := finallyOf l :: s.exited }, .fin (.raised (levelExit l e)))) := by
  constructor
  · intro ht
    have hl := leave_timed s l stk hs ht hu
    cases e with
    | intr o =>
      by_cases ho : o = l.id
      · subst ho; simp [tt_yield1, Exc.isIntr, levelExit, ht, hl]
      · have : ¬ (l.id = o) := fun h => ho h.symm
        simp [tt_yield1, Exc.isIntr, levelExit, ht, hl, ho, this]
    | timeoutErr => simp [tt_yield1, Exc.isIntr, levelExit, hl]
    | other => simp [tt_yield1, Exc.isIntr, levelExit, hl]
  · intro ht
    have hl := leave_untimed s l stk hs ht (ha ht)
    cases e <;> simp [tt_yield0, levelExit, ht, hl]

/-- the `exitOther` event has the state effect of any exceptional exit -/
theorem tt_exit_other_eq (s s' : State) (l : Level) (stk : List Level) (e : Exc) (hs : s.stack = l :: stk)
    (hu : (∀ x ∈ stk, x.id ≠ l.id) ∧ (∀ x ∈ s.exited, x.id ≠ l.id))
    (ha : l.timed = false → l.active = false)
    (h : step s (.exitOther l.id) = some s') :
    (l.timed = true → (tt_yield1 s l.id ⟨⟩ (.exc e)).1 = s') ∧
    (l.timed = false → (tt_yield0 s l.id ⟨⟩ (.exc e)).1 = s') := by
  simp only [step, hs] at h
  split at h
  · injection h with h; subst h
    have := tt_exit_exc_eq s l stk e hs hu ha
    exact ⟨fun ht => by rw [this.1 ht], fun ht => by rw [this.2 ht]⟩
  · cases h

/-- one step of the model's `unwind` is exactly that exit -/
theorem unwind_succ (n : Nat) (l : Level) (stk : List Level) (e : Exc) :
    (unwind (n + 1) (l :: stk) e).2.1 = finallyOf l :: (unwind n stk (levelExit l e)).2.1 ∧
    (unwind (n + 1) (l :: stk) e).2.2.1 = levelExit l e :: (unwind n stk (levelExit l e)).2.2.1 := by
  simp [unwind]

/-! ### the timer callback -/

/-- **`trigger_timeout()`**, run by the loop for a handle that was not cancelled, is the `fire` event. -/
theorem trigger_eq (s s' : State) (id : Nat) (h : step s (.fire id) = some s') :
    trigger (Prim.timerFired s id) id = (s', .ret) := by
  simp only [step] at h
  split at h
  · split at h
    · injection h with h; subst h
      simp only [trigger, Prim.spawnInterruptor, Prim.timerFired]
      rw [setLevel_setLevel s id (fun l => { l with timer := .fired }) (fun l => { l with ist := .at 0 })
        (fun _ => rfl)]
    · cases h
  · cases h

/-! ### the interruptor -/

/-- `task_interrupt` accepted? (what the environment answers when the code makes an attempt) -/
def acc : Attempt → Bool
  | .thrown => true
  | _ => false

/-- the model's control state for the suspension point reached -/
def istOf : itOut → IState
  | .susp_sw0 _ => .at 1
  | .susp_sl0 _ => .at 1
  | .susp_sw1 _ => .at 2
  | .susp_sl1 _ => .at 2
  | .susp_sw2 _ => .at 3
  | .fin _ => .done

/-- the model's state after a run of the interruptor that ended as `r` -/
def after (r : State × itOut) (id : Nat) : State :=
  setLevel r.1 id fun l => { l with ist := istOf r.2 }

theorem isActive_eq (s : State) (id : Nat) (l : Level) (b : Bool) (hf : findLevel s id = some (l, b)) :
    Prim.isActive s id = l.active := by
  simp [Prim.isActive, hf]

/-- common part of the six segment theorems -/
theorem istep_cases (s s' : State) (id : Nat) (l : Level) (b : Bool) (r : Attempt) (k : Nat)
    (hf : findLevel s id = some (l, b)) (hi : l.ist = .at k) (h : step s (.istep id r) = some s') :
    (k < 3 ∧ l.active = true ∧ r = .thrown ∧
       s' = { (setLevel s id fun l => { l with ist := .at (k + 1) }) with
              pending := some (id, true),
              throws := { id := id, inBlock := b, active := l.active, timed := l.timed } :: s.throws }) ∨
    (k < 3 ∧ l.active = true ∧ r = .refused ∧
       s' = setLevel s id fun l =>
              if k = 2 then { l with ist := .done, failed := true } else { l with ist := .at (k + 1) }) ∨
    ((¬ (k < 3 ∧ l.active = true)) ∧ r = .none ∧ s' = setLevel s id fun l => { l with ist := .done }) := by
  simp only [step, hf, hi] at h
  split at h
  · rename_i hc
    cases r with
    | thrown => simp only at h; injection h with h; exact Or.inl ⟨hc.1, hc.2, rfl, h.symm⟩
    | refused => simp only at h; injection h with h; exact Or.inr (Or.inl ⟨hc.1, hc.2, rfl, h.symm⟩)
    | none => simp at h
  · rename_i hc
    split at h
    · rename_i hr
      injection h with h
      exact Or.inr (Or.inr ⟨hc, hr, h.symm⟩)
    · cases h

theorem throwAccepted_after (s : State) (id : Nat) (l : Level) (b : Bool) (k : Nat)
    (hf : findLevel s id = some (l, b)) :
    setLevel (Prim.throwAccepted s id) id (fun l => { l with ist := .at k })
      = { (setLevel s id fun l => { l with ist := .at k }) with
          pending := some (id, true),
          throws := { id := id, inBlock := b, active := l.active, timed := l.timed } :: s.throws } := by
  simp [Prim.throwAccepted, hf, setLevel]

theorem reportFailure_after (s : State) (id : Nat) :
    setLevel (Prim.reportFailure s id) id (fun l => { l with ist := .done })
      = setLevel s id fun l => { l with ist := .done, failed := true } := by
  unfold Prim.reportFailure
  rw [setLevel_setLevel s id (fun l => { l with failed := true }) (fun l => { l with ist := .done })
    (fun _ => rfl)]

/-- **first run of the interruptor** (`ist = at 0`) is the `istep` event. -/
theorem it_entry_eq (s s' : State) (id : Nat) (l : Level) (b : Bool) (r : Attempt)
    (hf : findLevel s id = some (l, b)) (hi : l.ist = .at 0) (h : step s (.istep id r) = some s') :
    s' = after (it_entry s id (acc r)) id := by
  have ha := isActive_eq s id l b hf
  rcases istep_cases s s' id l b r 0 hf hi h with ⟨_, hact, hr, hs⟩ | ⟨_, hact, hr, hs⟩ | ⟨hn, hr, hs⟩
  · subst hr hs
    simp [after, it_entry, ha, hact, acc, istOf, throwAccepted_after s id l b 1 hf]
  · subst hr hs
    simp [after, it_entry, ha, hact, acc, istOf]
  · subst hr hs
    have : l.active = false := by simpa using hn
    simp [after, it_entry, ha, this, istOf]

/-- **resumed after the first attempt** (accepted: `sw0`, refused and slept: `sl0`; `ist = at 1`). -/
theorem it_1_eq (s s' : State) (id : Nat) (l : Level) (b : Bool) (r : Attempt) (x : IExn)
    (hf : findLevel s id = some (l, b)) (hi : l.ist = .at 1) (h : step s (.istep id r) = some s') :
    s' = after (it_sw0 s id (acc r) ⟨⟩ .ok) id ∧ s' = after (it_sl0 s id (acc r) ⟨x⟩ .ok) id := by
  have ha := isActive_eq s id l b hf
  rcases istep_cases s s' id l b r 1 hf hi h with ⟨_, hact, hr, hs⟩ | ⟨_, hact, hr, hs⟩ | ⟨hn, hr, hs⟩
  · subst hr hs
    simp [after, it_sw0, it_sl0, ha, hact, acc, istOf, throwAccepted_after s id l b 2 hf]
  · subst hr hs
    simp [after, it_sw0, it_sl0, ha, hact, acc, istOf]
  · subst hr hs
    have : l.active = false := by simpa using hn
    simp [after, it_sw0, it_sl0, ha, this, istOf]

/-- **resumed after the second attempt** (`sw1` / `sl1`; `ist = at 2`): a third refusal is reported to the
loop's exception handler and ends the task. -/
theorem it_2_eq (s s' : State) (id : Nat) (l : Level) (b : Bool) (r : Attempt) (x : IExn)
    (hf : findLevel s id = some (l, b)) (hi : l.ist = .at 2) (h : step s (.istep id r) = some s') :
    s' = after (it_sw1 s id (acc r) ⟨⟩ .ok) id ∧ s' = after (it_sl1 s id (acc r) ⟨x⟩ .ok) id := by
  have ha := isActive_eq s id l b hf
  rcases istep_cases s s' id l b r 2 hf hi h with ⟨_, hact, hr, hs⟩ | ⟨_, hact, hr, hs⟩ | ⟨hn, hr, hs⟩
  · subst hr hs
    simp [after, it_sw1, it_sl1, ha, hact, acc, istOf, throwAccepted_after s id l b 3 hf]
  · subst hr hs
    simp [after, it_sw1, it_sl1, ha, hact, acc, istOf, reportFailure_after]
  · subst hr hs
    have : l.active = false := by simpa using hn
    simp [after, it_sw1, it_sl1, ha, this, istOf]

/-- **resumed after the third attempt was accepted** (`sw2`; `ist = at 3`): the loop is over. -/
theorem it_3_eq (s s' : State) (id : Nat) (l : Level) (b : Bool) (r : Attempt)
    (hf : findLevel s id = some (l, b)) (hi : l.ist = .at 3) (h : step s (.istep id r) = some s') :
    s' = after (it_sw2 s id (acc r) ⟨⟩ .ok) id := by
  rcases istep_cases s s' id l b r 3 hf hi h with ⟨hk, _⟩ | ⟨hk, _⟩ | ⟨_, hr, hs⟩
  · omega
  · omega
  · subst hr hs
    simp [after, it_sw2, istOf]

/-! ### the side conditions of the exit theorems hold in every reachable state

`hu` (no other level carries the identity of the innermost one) and `ha` (an untimed level is never active). -/

def ids (s : State) : List Nat := (s.stack ++ s.exited).map (·.id)

theorem map_id_updLevel (ls : List Level) (id : Nat) (f : Level → Level) (hf : ∀ l, (f l).id = l.id) :
    (updLevel ls id f).map (·.id) = ls.map (·.id) := by
  unfold updLevel
  rw [List.map_map]
  apply List.map_congr_left
  intro a _
  by_cases ha : a.id = id <;> simp [ha, hf]

theorem ids_setLevel (s : State) (id : Nat) (f : Level → Level) (hf : ∀ l, (f l).id = l.id) :
    ids (setLevel s id f) = ids s := by
  simp [ids, setLevel, map_id_updLevel _ _ _ hf]

theorem nodup_setLevel (s : State) (id : Nat) (f : Level → Level) (hf : ∀ l, (f l).id = l.id)
    (hn : (ids s).Nodup) : (ids (setLevel s id f)).Nodup := by
  rw [ids_setLevel s id f hf]; exact hn

theorem ids_pop (s : State) (n : Nat) (e : Exc) :
    (((unwind n s.stack e).1 ++ ((unwind n s.stack e).2.1 ++ s.exited)).map (·.id)).Perm (ids s) := by
  have hsp := unwind_spec n s.stack e
  rw [hsp.1, hsp.2]
  simp only [ids, List.map_append, List.map_map]
  have hfin : (List.map ((fun x => x.id) ∘ finallyOf) (List.take n s.stack))
      = List.map (fun x => x.id) (List.take n s.stack) := by
    apply List.map_congr_left
    intro a _
    simp [finallyOf]
  rw [hfin, ← List.append_assoc]
  refine List.Perm.append_right _ ?_
  have : List.map (fun x => x.id) s.stack
      = List.map (fun x => x.id) (List.take n s.stack) ++ List.map (fun x => x.id) (List.drop n s.stack) := by
    rw [← List.map_append, List.take_append_drop]
  rw [this]
  exact List.perm_append_comm

theorem ids_nodup_step (s s' : State) (ev : Event) (hn : (ids s).Nodup) (h : step s ev = some s') :
    (ids s').Nodup := by
  cases ev with
  | enter id timed =>
    simp only [step] at h
    split at h
    · rename_i hc
      injection h with h; subst h
      obtain ⟨h1, h2⟩ := not_mem_of_findLevel_none s id hc.2
      simp only [ids, List.cons_append, List.map_cons]
      refine List.nodup_cons.mpr ⟨?_, hn⟩
      simp only [List.mem_map, List.mem_append]
      rintro ⟨l, hl | hl, he⟩
      · exact h1 l hl he
      · exact h2 l hl he
    · cases h
  | fire id =>
    simp only [step] at h
    split at h
    · split at h
      · injection h with h; subst h
        exact nodup_setLevel _ _ _ (fun _ => rfl) hn
      · cases h
    · cases h
  | istep id r =>
    simp only [step] at h
    split at h
    · split at h
      · split at h
        · cases r with
          | thrown =>
            simp only at h; injection h with h; subst h
            rename_i i _ _
            have := nodup_setLevel s id (fun l => { l with ist := .at (i + 1) }) (fun _ => rfl) hn
            simpa [ids, setLevel] using this
          | refused =>
            simp only at h; injection h with h; subst h
            exact nodup_setLevel _ _ _ (fun l => by split <;> rfl) hn
          | none => simp at h
        · split at h
          · injection h with h; subst h
            exact nodup_setLevel _ _ _ (fun _ => rfl) hn
          · cases h
      · cases h
    · cases h
  | envThrow o =>
    simp only [step] at h
    injection h with h; subst h
    exact hn
  | raise depth =>
    simp only [step] at h
    split at h
    · split at h
      · injection h with h; subst h
        exact ((ids_pop s depth _).nodup_iff).mpr hn
      · cases h
    · cases h
  | exitOk id =>
    simp only [step] at h
    split at h
    · rename_i l stk hs
      split at h
      · injection h with h; subst h
        have : (ids { s with stack := stk, exited := finallyOf l :: s.exited }).Perm (ids s) := by
          simp only [ids, hs, List.map_append, List.map_cons, List.cons_append]
          have : (finallyOf l).id = l.id := by simp [finallyOf]
          rw [this]
          exact List.perm_middle
        exact (this.nodup_iff).mpr hn
      · cases h
    · cases h
  | exitOther id =>
    simp only [step] at h
    split at h
    · rename_i l stk hs
      split at h
      · injection h with h; subst h
        have : (ids { s with stack := stk, exited := finallyOf l :: s.exited }).Perm (ids s) := by
          simp only [ids, hs, List.map_append, List.map_cons, List.cons_append]
          have : (finallyOf l).id = l.id := by simp [finallyOf]
          rw [this]
          exact List.perm_middle
        exact (this.nodup_iff).mpr hn
      · cases h
    · cases h

theorem ids_nodup_run : ∀ (es : List Event) (s s' : State), (ids s).Nodup → run s es = some s' → (ids s').Nodup
  | [], s, s', g, h => by simp [run] at h; subst h; exact g
  | e :: es, s, s', g, h => by
    simp only [run] at h
    split at h
    · cases h
    · rename_i s1 hs
      exact ids_nodup_run es s1 s' (ids_nodup_step s s1 e g hs) h

/-- in every reachable state the interrupt identities of all levels, entered or exited, are distinct … -/
theorem ids_nodup_reachable {s : State} (h : Reachable s) : (ids s).Nodup := by
  obtain ⟨es, h⟩ := h
  exact ids_nodup_run es _ _ (by simp [ids, init]) h

/-- … hence the side conditions `hu`, `ha` of the exit theorems -/
theorem exit_side_conditions {s : State} (h : Reachable s) (l : Level) (stk : List Level)
    (hs : s.stack = l :: stk) :
    ((∀ x ∈ stk, x.id ≠ l.id) ∧ (∀ x ∈ s.exited, x.id ≠ l.id)) ∧ (l.timed = false → l.active = false) := by
  have hn := ids_nodup_reachable h
  simp only [ids, hs, List.cons_append, List.map_cons] at hn
  have hnot := (List.nodup_cons.mp hn).1
  refine ⟨⟨?_, ?_⟩, ?_⟩
  · intro x hx he
    exact hnot (List.mem_map.mpr ⟨x, List.mem_append_left _ hx, he⟩)
  · intro x hx he
    exact hnot (List.mem_map.mpr ⟨x, List.mem_append_right _ hx, he⟩)
  · intro ht
    cases ha : l.active with
    | false => rfl
    | true =>
      have := (good_reachable h).activeTimed l (Or.inl (by rw [hs]; simp)) ha
      rw [ht] at this; cases this

end Asynkit.GenEqC16
