/-
The inlining rule for generator context managers, proved from the translation of the *running interpreter's*
`contextlib.py` (`Asynkit/Gen/Contextlib.lean`, translator/contextlib2lean.py; sha256 and Python version are
constants of the generated module).

For a generator function with one `yield` (`Shape`: what it does before the yield, when resumed normally, when an
exception is thrown in), `with cm(): body` — i.e. PEP 343's `withStmt` over `_GeneratorContextManager.__enter__ /
__exit__` and CPython's generator object (`envelope`) — has exactly the outcome and final state of the spliced code
`inlined`: `pre`; the body; on a normal exit `onNormal`, on an exception `e` of the body `onThrow e`; the
exception leaves unless the generator swallows it; whatever else the generator raises leaves instead; the *same*
exception coming back out is re-raised as it is.  Likewise `async with` over `__aenter__/__aexit__`.  This is the rule
applied by translator/segexec.py (`async with _released(lock)`), lock2lean (`with _waiting_on(..)`), corostart2lean
(`with cancelling(..)`).  Trusted underneath: the generator object envelope and the `with` statement
(`Model/GenEnvelope.lean`).
-/
import Asynkit.Gen.Contextlib

namespace Asynkit.GenEqContextlib
open Asynkit.GenEnv Asynkit.Gen.Contextlib

variable {σ : Type}

/-- the body of the `with` block does not touch the generator object -/
def lift (body : σ → σ × Option Exn) : σ × Phase → (σ × Phase) × Option Exn :=
  fun p => (((body p.1).1, p.2), (body p.1).2)

/-- exceptions are objects made by Python code (not the fresh ones the interpreter / contextlib create on the
spot); out of `onThrow` also the very exception that was thrown in -/
structure Sane (g : Shape σ) (body : σ → σ × Option Exn) : Prop where
  pre : ∀ s s' e, g.pre s = (s', some e) → e.fromBody = true
  onNormal : ∀ s s' e, g.onNormal s = (s', some e) → e.fromBody = true
  onThrow : ∀ s x s' e, g.onThrow s x = (s', some e) → e.fromBody = true
  body : ∀ s s' e, body s = (s', some e) → e.fromBody = true

theorem escape_not_stopSync (e : Exn) (h : e.fromBody = true) : (escape false e).isStopSync = false := by
  cases e <;> simp_all [escape, Exn.fromBody, Exn.isStopSync, Exn.isStopIteration]

theorem escape_not_stopAsync (e : Exn) (h : e.fromBody = true) : (escape true e).isStopAsync = false := by
  cases e <;> simp_all [escape, Exn.fromBody, Exn.isStopAsync, Exn.isStopIteration, Exn.isStopAsyncIteration]

/-- what `__exit__(type(e), e, tb)` answers when the generator raised `x = escape e'` on `throw(e)` -/
theorem exit_verdict_sync {α : Type} (p : α) (e e' : Exn) (he : e.fromBody = true) (he' : e'.fromBody = true) :
    (if (escape false e').isStopSync = true then (p, Fin.ret (!(decide (escape false e' = e))))
     else if (escape false e').isRuntimeError = true then
       (if decide (escape false e' = e) = true then (p, (Fin.ret false : Fin Bool))
        else if (e.isStopIteration && (escape false e').causeIs e) = true then (p, (Fin.ret false : Fin Bool))
        else (p, (Fin.raised (escape false e') : Fin Bool)))
     else if decide (escape false e' = e) = true then (p, (Fin.ret false : Fin Bool)) else (p, (Fin.raised (escape false e') : Fin Bool)))
    = (if e' = e then (p, (Fin.ret false : Fin Bool)) else (p, (Fin.raised (escape false e') : Fin Bool))) := by
  cases e <;> cases e' <;>
    simp_all [escape, Exn.fromBody, Exn.isStopSync, Exn.isStopIteration, Exn.isRuntimeError, Exn.causeIs] <;>
    (try (split <;> simp_all))

theorem exit_verdict_async {α : Type} (p : α) (e e' : Exn) (he : e.fromBody = true) (he' : e'.fromBody = true) :
    (if (escape true e').isStopAsync = true then (p, Fin.ret (!(decide (escape true e' = e))))
     else if (escape true e').isRuntimeError = true then
       (if decide (escape true e' = e) = true then (p, (Fin.ret false : Fin Bool))
        else if ((e.isStopIteration || e.isStopAsyncIteration) && (escape true e').causeIs e) = true then (p, (Fin.ret false : Fin Bool))
        else (p, (Fin.raised (escape true e') : Fin Bool)))
     else if decide (escape true e' = e) = true then (p, (Fin.ret false : Fin Bool)) else (p, (Fin.raised (escape true e') : Fin Bool)))
    = (if e' = e then (p, (Fin.ret false : Fin Bool)) else (p, (Fin.raised (escape true e') : Fin Bool))) := by
  cases e <;> cases e' <;>
    simp_all [escape, Exn.fromBody, Exn.isStopAsync, Exn.isStopIteration, Exn.isStopAsyncIteration,
      Exn.isRuntimeError, Exn.causeIs] <;>
    (try (split <;> simp_all))

/-- **The inlining rule, `with`.** -/
theorem with_inlining_rule (g : Shape σ) (body : σ → σ × Option Exn) (hs : Sane g body) (s : σ) :
    withStmt (enter (envelope false g)) (exit (envelope false g)) (lift body) (s, .created)
      = (((inlined false g body s).1, .finished), (inlined false g body s).2) := by
  unfold withStmt inlined
  simp only [enter, envelope, lift]
  rcases hp : g.pre s with ⟨s1, _ | e⟩
  · simp only
    rcases hb : body s1 with ⟨s2, _ | e⟩
    · simp only [exit, envelope, afterRun]
      rcases hn : g.onNormal s2 with ⟨s3, _ | e'⟩
      · simp [Exn.isStopSync]
      · simp [escape_not_stopSync e' (hs.onNormal _ _ _ hn)]
    · have he := hs.body _ _ _ hb
      simp only [exit, envelope, afterRun]
      rcases ht : g.onThrow s2 e with ⟨s3, _ | e'⟩
      · cases e <;> simp_all [Exn.isStopSync, Exn.fromBody]
      · have he' := hs.onThrow _ _ _ _ ht
        have hv := exit_verdict_sync (s3, Phase.finished) e e' he he'
        simp only
        by_cases heq : e' = e
        · simp only [heq, if_true] at hv ⊢
          rw [hv]
        · simp only [heq, if_false] at hv ⊢
          rw [hv]
  · simp [escape_not_stopSync e (hs.pre _ _ _ hp)]

/-- **The inlining rule, `async with`** (awaits of the generator taken big-step: an exception that arrives while
the generator is suspended in its clean-up — a cancellation, say — is the outcome `some e'` of `onNormal` /
`onThrow` and, by this theorem, is what leaves the `async with`). -/
theorem async_with_inlining_rule (g : Shape σ) (body : σ → σ × Option Exn) (hs : Sane g body) (s : σ) :
    withStmt (aenter (envelope true g)) (aexit (envelope true g)) (lift body) (s, .created)
      = (((inlined true g body s).1, .finished), (inlined true g body s).2) := by
  unfold withStmt inlined
  simp only [aenter, envelope, lift]
  rcases hp : g.pre s with ⟨s1, _ | e⟩
  · simp only
    rcases hb : body s1 with ⟨s2, _ | e⟩
    · simp only [aexit, envelope, afterRun]
      rcases hn : g.onNormal s2 with ⟨s3, _ | e'⟩
      · simp [Exn.isStopAsync]
      · simp [escape_not_stopAsync e' (hs.onNormal _ _ _ hn)]
    · have he := hs.body _ _ _ hb
      simp only [aexit, envelope, afterRun]
      rcases ht : g.onThrow s2 e with ⟨s3, _ | e'⟩
      · cases e <;> simp_all [Exn.isStopAsync, Exn.fromBody]
      · have he' := hs.onThrow _ _ _ _ ht
        have hv := exit_verdict_async (s3, Phase.finished) e e' he he'
        simp only
        by_cases heq : e' = e
        · simp only [heq, if_true] at hv ⊢
          rw [hv]
        · simp only [heq, if_false] at hv ⊢
          rw [hv]
  · simp [escape_not_stopAsync e (hs.pre _ _ _ hp)]

/-- when no Stop(Async)Iteration object is involved (the case of every context manager the asynkit units inline:
CancelledError-derived exceptions, TimeoutError, RuntimeError), PEP 479 plays no role and the rule is the plain
splice: what the generator raises is what leaves -/
theorem escape_id (async : Bool) (e : Exn) (h : e.isStopIteration = false ∧ e.isStopAsyncIteration = false) :
    escape async e = e := by
  simp [escape, h.1, h.2]

/-- the usual shape `pre; try: yield finally: post`: `post` runs on every exit; if it raises (for the async
variant e.g. a cancellation delivered while it is suspended) that exception wins, otherwise the body's outcome
stands -/
theorem finally_rule (async : Bool) (pre post body : σ → σ × Option Exn) (s : σ) :
    inlined async (finallyShape pre post) body s =
      match pre s with
      | (s1, some e) => (s1, some (escape async e))
      | (s1, none) =>
        match body s1 with
        | (s2, none) =>
          (match post s2 with
           | (s3, none) => (s3, none)
           | (s3, some e') => (s3, some (escape async e')))
        | (s2, some e) =>
          (match post s2 with
           | (s3, none) => (s3, some e)
           | (s3, some e') => (s3, some (if e' = e then e else escape async e'))) := by
  simp only [inlined, finallyShape]
  rcases hp : pre s with ⟨s1, _ | e⟩
  · simp only
    rcases hb : body s1 with ⟨s2, _ | e⟩
    · simp only
      rcases hq : post s2 with ⟨s3, _ | e'⟩ <;> rfl
    · simp only
      rcases hq : post s2 with ⟨s3, _ | e'⟩ <;> simp
  · simp only

/-- `yield` not inside a `try` (e.g. the `timeout is None` branch of `task_timeout`): an exception of the body
passes straight through, the code after the `yield` runs only on a normal exit -/
theorem plain_yield_rule (async : Bool) (pre rest body : σ → σ × Option Exn) (s : σ) :
    inlined async ⟨pre, rest, fun s e => (s, some e)⟩ body s =
      match pre s with
      | (s1, some e) => (s1, some (escape async e))
      | (s1, none) =>
        match body s1 with
        | (s2, none) =>
          (match rest s2 with
           | (s3, none) => (s3, none)
           | (s3, some e') => (s3, some (escape async e')))
        | (s2, some e) => (s2, some e) := by
  simp only [inlined]
  rcases hp : pre s with ⟨s1, _ | e⟩
  · simp only
    rcases hb : body s1 with ⟨s2, _ | e⟩
    · simp only
      rcases hq : rest s2 with ⟨s3, _ | e'⟩ <;> rfl
    · simp
  · simp only

/-! ### non-vacuity: a concrete generator, the protocol run step by step -/

/-- state = a log of what ran; `pre` appends 1, `post` appends 9; the body appends 5 and raises `user 7` -/
def demoShape : Shape (List Nat) :=
  finallyShape (fun l => (l ++ [1], none)) (fun l => (l ++ [9], none))

example : withStmt (enter (envelope false demoShape)) (exit (envelope false demoShape))
      (lift fun l => (l ++ [5], some (.user 7))) ([], .created)
    = (([1, 5, 9], .finished), some (.user 7)) := by decide

example : withStmt (aenter (envelope true demoShape)) (aexit (envelope true demoShape))
      (lift fun l => (l ++ [5], none)) ([], .created)
    = (([1, 5, 9], .finished), none) := by decide

/-- a StopIteration raised by the body and passed on by the generator comes out as itself, not as PEP 479's
RuntimeError (`exc.__cause__ is value`) -/
example : withStmt (enter (envelope false demoShape)) (exit (envelope false demoShape))
      (lift fun l => (l, some (.stopIter 3))) ([], .created)
    = (([1, 9], .finished), some (.stopIter 3)) := by decide

end Asynkit.GenEqContextlib
