/-
C18's tie by translation: the lock-coverage table of `PosPriorityQueue` and the list of deque
primitives used by the ready-queue helpers are regenerated from /repo/src on every run
(Asynkit/Gen/LockCoverage.lean); the model `Threads.Sys` assumes exactly what is checked here.
-/
import Asynkit.Gen.LockCoverage

namespace Asynkit.GenEqC18
open Asynkit

/-- no method of `PosPriorityQueue` touches the heap outside the lock -/
theorem no_unprotected_method : ∀ m ∈ Gen.lockCoverage, m.2 ≠ 4 := by decide

/-- the queue operations the event loop and the scheduling mixin use all take the lock -/
theorem public_ops_locked :
    ∀ name ∈ ["append", "append_pri", "insert", "popleft", "remove", "find", "reschedule",
              "reschedule_all", "clear", "__iter__"],
      (name, 1) ∈ Gen.lockCoverage := by decide

/-- the deque helpers only use atomic, identity-addressed primitives (or a snapshot) -/
theorem deque_helpers_atomic :
    ∀ h ∈ Gen.dequePrimitives, ∀ p ∈ h.2, p ∈ ["remove", "insert", "append", "snapshot"] := by decide

end Asynkit.GenEqC18
