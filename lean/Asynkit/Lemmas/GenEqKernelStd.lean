/-
C09 / C15 (and through the Kernel model C13, C01) — the pure-Python reference implementations
`asyncio.futures.Future` and `asyncio.tasks.Task` of the running interpreter, regenerated on every run into
`Asynkit/Gen/AsyncioKernel.lean` (translator/asynciokernel2lean.py), are the transitions of the hand-written
Kernel model (`Asynkit/Model/Kernel.lean`) - for every state.

Where the model is deliberately more abstract the statement says so:
* attributes in `Gen.AsyncioKernel.abstractedAttributes` (tracebacks, messages, contexts, names, the result
  value, `_num_cancels_requested`) are not represented at all;
* `_must_cancel` of a task that has *finished* is not represented (`stepB_stop`);
* the Task's own Future half is the flag `done` (`finishTask`);
* the ghost delivery log of the model (`log`) records what segment A returns as "thrown".
-/
import Asynkit.Gen.AsyncioKernel
import Asynkit.Lemmas.C09

namespace Asynkit.GenEqKernelStd
open Asynkit Asynkit.Kernel Asynkit.Gen.AsyncioKernel

theorem state_ext {a b : State} (h1 : a.tasks = b.tasks) (h2 : a.nt = b.nt) (h3 : a.futs = b.futs)
    (h4 : a.nf = b.nf) (h5 : a.ready = b.ready) (h6 : a.ctx = b.ctx) (h7 : a.nexc = b.nexc)
    (h8 : a.log = b.log) (h9 : a.thrown = b.thrown) (h10 : a.err = b.err) : a = b := by
  cases a; cases b; simp_all

theorem pyState_pending (s : State) (f : FutId) :
    (pyState s f != PyState.pending) = !decide ((s.futs f).st = .pending) := by
  unfold pyState; cases (s.futs f).st <;> simp <;> decide

theorem pyState_beq_pending (s : State) (f : FutId) :
    (pyState s f == PyState.pending) = decide ((s.futs f).st = .pending) := by
  unfold pyState; cases (s.futs f).st <;> simp <;> decide

@[simp] theorem pyState_eq_pending (s : State) (f : FutId) :
    (pyState s f = PyState.pending) ↔ (s.futs f).st = .pending := by
  unfold pyState; cases (s.futs f).st <;> simp

/-- `Future.done()` / `Future.cancelled()` are the model's `futDone` / `futCancelled` -/
theorem done_eq (s : State) (f : FutId) : Future.done s f = .ok (s, futDone s f) := by
  unfold Future.done futDone pyState; cases (s.futs f).st <;> rfl

theorem cancelled_eq (s : State) (f : FutId) : Future.cancelled s f = .ok (s, futCancelled s f) := by
  unfold Future.cancelled futCancelled pyState; cases (s.futs f).st <;> rfl

/-- the `for callback, ctx in callbacks: loop.call_soon(callback, self)` loop appends the handles in order -/
theorem foldl_callSoon (f : FutId) (l : List Cb) (s : State) :
    l.foldl (fun s c => callSoon s (toHandle f c)) s = { s with ready := s.ready ++ l.map (toHandle f) } := by
  induction l generalizing s with
  | nil => simp
  | cons c cs ih =>
    rw [List.foldl_cons, ih]
    simp [callSoon, List.append_assoc]

/-- `Future.__schedule_callbacks` : every callback is scheduled with call_soon, in order; the list is cleared -/
theorem scheduleCallbacks_eq (s : State) (f : FutId) :
    Future.scheduleCallbacks s f =
      .ok ({ setCallbacks s f [] with ready := s.ready ++ (callbacks s f).map (toHandle f) }, ()) := by
  unfold Future.scheduleCallbacks
  simp only [foldl_callSoon]
  cases hc : callbacks s f with
  | nil =>
    simp
    apply state_ext <;> simp [setCallbacks, setFut]
    funext i; by_cases h : i = f
    · subst h; simp only [if_true]; simp [callbacks] at hc; cases hf : s.futs i; simp_all
    · simp [h]
  | cons c cs => simp [setCallbacks, setFut]

/-- resolving a pending future: new state, callbacks scheduled in order, list cleared = `completeFut` -/
theorem resolve_eq (s : State) (f : FutId) (st : FutSt) (s1 : State)
    (h1 : s1 = setFut s f { (s.futs f) with st := st }) :
    { setCallbacks s1 f [] with ready := s1.ready ++ (callbacks s1 f).map (toHandle f) } =
      { s with ready := s.ready ++ (s.futs f).cbs.map (toHandle f),
               futs := fun i => if i = f then { (s.futs f) with st := st, cbs := [] } else s.futs i } := by
  subst h1
  apply state_ext <;> simp [setCallbacks, setFut, callbacks]
  funext i; by_cases h : i = f <;> simp [h]

/-- the inlined `__schedule_callbacks` (with its early return for an empty list) -/
theorem tail_eq {α : Type} (s1 : State) (f : FutId) (r : α) :
    (if (!(!(callbacks s1 f).isEmpty)) = true then (Except.ok (s1, r) : Except (StdErr × State) (State × α))
     else .ok ({ setCallbacks s1 f [] with ready := (setCallbacks s1 f []).ready ++ (callbacks s1 f).map (toHandle f) }, r))
    = .ok ({ setCallbacks s1 f [] with ready := s1.ready ++ (callbacks s1 f).map (toHandle f) }, r) := by
  cases hc : callbacks s1 f with
  | nil =>
    simp
    apply state_ext <;> simp [setCallbacks, setFut]
    funext i; by_cases h : i = f
    · subst h; simp [callbacks] at hc; cases hf : s1.futs i; simp_all
    · simp [h]
  | cons c cs => simp [setCallbacks, setFut]

/-- `Future.cancel()` = the model's resolution of a pending future to `cancelled` (returns True), and a
    no-op returning False on a future that is done -/
theorem cancel_eq (s : State) (f : FutId) :
    Future.cancel s f =
      .ok (if (s.futs f).st = .pending then (completeFut s f .cancelled, true) else (s, false)) := by
  unfold Future.cancel
  simp only [foldl_callSoon, pyState_pending, pyState_beq_pending]
  by_cases hp : (s.futs f).st = .pending
  · simp only [hp, completeFut, reduceIte, decide_true, Bool.not_true, Bool.false_eq_true]
    have := tail_eq (setCancelled s f) f true
    simp only [setCallbacks, setFut] at this ⊢
    rw [this]
    have h2 := resolve_eq s f .cancelled (setCancelled s f) (by simp [setCancelled])
    simp only [setCallbacks, setFut] at h2
    rw [h2]
  · simp [hp]

/-- `Future.set_result()`: InvalidStateError on a done future, else resolution to `result` -/
theorem setResult_eq (s : State) (f : FutId) :
    Future.setResult s f =
      if (s.futs f).st = .pending then .ok (completeFut s f .result, ()) else .error (.invalidState, s) := by
  unfold Future.setResult
  simp only [foldl_callSoon, pyState_pending, pyState_beq_pending]
  by_cases hp : (s.futs f).st = .pending
  · simp only [hp, completeFut, reduceIte, decide_true, Bool.not_true, Bool.false_eq_true]
    have := tail_eq (setFinished s f false) f ()
    simp only [setCallbacks, setFut] at this ⊢
    rw [this]
    have h2 := resolve_eq s f .result (setFinished s f false) (by simp [setFinished])
    simp only [setCallbacks, setFut] at h2
    rw [h2]
  · simp [hp]

/-- `Future.set_exception()`: InvalidStateError on a done future, else resolution to `exc` -/
theorem setException_eq (s : State) (f : FutId) :
    Future.setException s f =
      if (s.futs f).st = .pending then .ok (completeFut s f .exc, ()) else .error (.invalidState, s) := by
  unfold Future.setException
  simp only [foldl_callSoon, pyState_pending, pyState_beq_pending]
  by_cases hp : (s.futs f).st = .pending
  · simp only [hp, completeFut, reduceIte, decide_true, Bool.not_true, Bool.false_eq_true]
    have := tail_eq (setFinished s f true) f ()
    simp only [setCallbacks, setFut] at this ⊢
    rw [this]
    have h2 := resolve_eq s f .exc (setFinished s f true) (by simp [setFinished])
    simp only [setCallbacks, setFut] at h2
    rw [h2]
  · simp [hp]

/-- the three Kernel events `setResult / setExc / cancelFut` are these methods (`cancelFut` through the
    virtual call: a subclass may refuse) -/
theorem step_setResult (s : State) (f : FutId) :
    step s (.setResult f) = match Future.setResult s f with
      | .ok (s', _) => (s', .ok)
      | .error (_, s') => (s', .noop) := by
  rw [setResult_eq]; simp only [step]; by_cases hp : (s.futs f).st = .pending <;> simp [hp]

theorem step_setExc (s : State) (f : FutId) :
    step s (.setExc f) = match Future.setException s f with
      | .ok (s', _) => (s', .ok)
      | .error (_, s') => (s', .noop) := by
  rw [setException_eq]; simp only [step]; by_cases hp : (s.futs f).st = .pending <;> simp [hp]

theorem step_cancelFut (s : State) (f : FutId) :
    step s (.cancelFut f) = match virtualCancel s f with
      | .ok (s', true) => (s', .ok)
      | .ok (s', false) => (s', .noop)
      | .error (_, s') => (s', .noop) := by
  unfold virtualCancel
  rw [cancel_eq]; simp only [step]
  by_cases hp : (s.futs f).st = .pending <;> cases hn : (s.futs f).noCancel <;> simp [hp]

/-- `Future.add_done_callback(fn)`: appended while pending, otherwise scheduled at once -/
theorem addDoneCallback_eq (s : State) (f : FutId) (fn : Cb) :
    Future.addDoneCallback s f fn =
      .ok (if (s.futs f).st = .pending then setFut s f { (s.futs f) with cbs := (s.futs f).cbs ++ [fn] }
           else callSoon s (toHandle f fn), ()) := by
  unfold Future.addDoneCallback
  simp only [pyState_pending]
  by_cases hp : (s.futs f).st = .pending <;> simp [hp, setCallbacks, callbacks]

theorem step_addCb (s : State) (f : FutId) (k : Nat) :
    step s (.addCb f k) = match Future.addDoneCallback s f (.other k) with
      | .ok (s', _) => (s', .ok)
      | .error (_, s') => (s', .noop) := by
  rw [addDoneCallback_eq]; simp only [step]
  by_cases hp : (s.futs f).st = .pending <;> simp [hp, toHandle]

theorem filter_length_eq {α : Type} (p : α → Bool) (l : List α) (h : (l.filter p).length = l.length) :
    l.filter p = l := by
  induction l with
  | nil => rfl
  | cons x xs ih =>
    by_cases hx : p x
    · simp [hx] at h ⊢; exact h
    · have := List.length_filter_le p xs
      simp [hx] at h; omega

/-- `Future.remove_done_callback(fn)` = the `removeDoneCallback` of the model; returns how many it removed -/
theorem removeDoneCallback_eq (s : State) (f : FutId) (fn : Cb) :
    Future.removeDoneCallback s f fn =
      .ok (Kernel.removeDoneCallback s f fn,
           (s.futs f).cbs.length - ((s.futs f).cbs.filter (· != fn)).length) := by
  unfold Future.removeDoneCallback Kernel.removeDoneCallback
  simp only [callbacks, setCallbacks]
  by_cases h : ((s.futs f).cbs.length - ((s.futs f).cbs.filter (· != fn)).length) = 0
  · have hle := List.length_filter_le (· != fn) (s.futs f).cbs
    have heq : ((s.futs f).cbs.filter (· != fn)) = (s.futs f).cbs := filter_length_eq _ _ (by omega)
    simp [h]
    apply state_ext <;> simp [setFut]
    funext i; by_cases hi : i = f
    · subst hi; simp [heq]
    · simp [hi]
  · simp [h]

/-- the model's abstraction of what the coroutine did at the end of a step -/
def actOf : CoroOut → Act
  | .yielded .none => .yieldNone
  | .yielded (.fut f true true false) => .yieldFut f      -- a future of this loop, blocking flag set, not the task itself
  | .yielded _ => .yieldErr                                -- everything else `__step` answers with a RuntimeError step
  | _ => .finish

/-- what `future.result()` does, by the state of the future -/
def resultOutcome (s : State) (f : FutId) : Except (StdErr × State) (State × Unit) :=
  match (s.futs f).st with
  | .pending => .error (.invalidState, s)
  | .result => .ok (s, ())
  | .exc => .error (.raised (.futExc f), s)
  | .cancelled => .error (.raised .cancelled, s)

theorem result_eq (s : State) (f : FutId) : Future.result s f = resultOutcome s f := by
  unfold Future.result resultOutcome pyState exceptionOf
  cases (s.futs f).st <;> simp

/-- `await fut` (Future.__await__): a pending future is yielded with the blocking flag set - exactly the
    outcome the model's `endStep (.yieldFut f)` abstracts (`actOf`) -, a done future is not yielded at all:
    its result is returned / its exception raised at once (no kernel event); the state never changes. -/
theorem awaitA_eq (s : State) (f : FutId) :
    Future.awaitA s f =
      if (s.futs f).st = .pending then .ok (s, .yielded (.fut f true true false))
      else (resultOutcome s f).map (fun p => (p.1, AwaitOut.returned)) := by
  unfold Future.awaitA resultOutcome pyState exceptionOf
  cases (s.futs f).st <;> simp [Except.map]

theorem await_yield_is_yieldFut (f : FutId) : actOf (.yielded (.fut f true true false)) = .yieldFut f := rfl

/-- resumed after the yield: RuntimeError if the future is still pending ("await wasn't used with future"),
    else `result()` -/
theorem awaitB_eq (s : State) (f : FutId) :
    Future.awaitB s f =
      if (s.futs f).st = .pending then .error (.raised .runtime, s)
      else (resultOutcome s f).map (fun p => (p.1, AwaitOut.returned)) := by
  unfold Future.awaitB resultOutcome pyState exceptionOf
  cases (s.futs f).st <;> simp [Except.map]

/-! ### Task -/

/-- `Task.cancel()` = the model's `cancelTask` (returns False exactly on a finished task) -/
theorem taskCancel_eq (s : State) (t : TaskId) :
    Task.cancel s t = .ok (if (s.tasks t).done then (s, false) else (cancelTask s t, true)) := by
  unfold Task.cancel virtualCancel cancelTask
  simp only [cancel_eq]
  cases hd : (s.tasks t).done with
  | true => simp
  | false =>
    cases hfw : (s.tasks t).futWaiter with
    | none => simp [setMustCancel, hfw, hd]
    | some f =>
      by_cases hp : (s.futs f).st = .pending <;> cases hn : (s.futs f).noCancel <;> simp [hp, hn, hfw, hd, setMustCancel]

theorem step_cancelTask (s : State) (t : TaskId) :
    step s (.cancelTask t) = match Task.cancel s t with
      | .ok (s', true) => (s', .ok)
      | .ok (s', false) => (s', .noop)
      | .error (_, s') => (s', .noop) := by
  rw [taskCancel_eq]; simp only [step]; cases (s.tasks t).done <;> simp

/-- the ghost delivery log of the model: what segment A throws into the coroutine -/
def logThrown (s0 : State) (t : TaskId) : Except (StdErr × State) (State × Option Exc) → State × Out
  | .ok (s', some x) => ({ s' with log := s0.log ++ [(t, x)] }, .ok)
  | .ok (s', none) => (s', .ok)
  | .error (_, s') => ({ s' with err := true }, .kernelError)

/-- `Task.__step(exc)` up to the resumption of the coroutine = the model's `runStep` -/
theorem stepA_eq (s : State) (t : TaskId) (e : Option Exc) :
    runStep s t e = logThrown s t (Task.stepA s t e) := by
  unfold runStep Task.stepA
  cases hd : (s.tasks t).done with
  | true => simp [logThrown, hd]
  | false =>
    cases hm : (s.tasks t).mustCancel <;> cases e with
    | none =>
      simp [logThrown, setMustCancel, setFutWaiter, enterTask, setTask, hm, hd]
      try (funext i; by_cases h : i = t <;> simp [h, hm])
    | some x =>
      cases hx : x.isCancel <;>
        simp [logThrown, setMustCancel, setFutWaiter, enterTask, setTask, hm, hx, hd] <;>
        try (funext i; by_cases h : i = t <;> simp [h, hm])

/-- what `future.result()` makes `__wakeup` pass on to `__step` -/
def wakeExc (s : State) (f : FutId) : Option Exc :=
  match (s.futs f).st with
  | .pending => some (errAsExc .invalidState)      -- InvalidStateError would be thrown in (unreachable: `Inv.wakeDone`)
  | .result => none
  | .exc => some (.futExc f)
  | .cancelled => some .cancelled

/-- `Task.__wakeup(future)` = `future.result()` dispatched into `__step` -/
theorem wakeupA_eq (s : State) (t : TaskId) (f : FutId) :
    Task.wakeupA s t f = Task.stepA s t (wakeExc s f) := by
  unfold Task.wakeupA Task.stepA wakeExc pyState exceptionOf
  cases hst : (s.futs f).st <;> cases hd : (s.tasks t).done <;> cases hm : (s.tasks t).mustCancel <;>
    simp [errAsExc, Exc.isCancel]

/-- the model's `begin` on a queued `__wakeup(f)` of a finished future is `Task.__wakeup` -/
theorem beginHandle_wakeup (s : State) (t : TaskId) (f : FutId) (rest : List Handle)
    (hi : s.ctx = .idle) (hr : s.ready = .wakeup t f :: rest) (hf : (s.futs f).st ≠ .pending) :
    beginHandle s = logThrown { s with ready := rest } t (Task.wakeupA { s with ready := rest } t f) := by
  rw [wakeupA_eq, ← stepA_eq]
  unfold beginHandle wakeExc
  simp only [hi, hr]
  cases hst : (s.futs f).st <;> simp_all

/-- ... and on a queued `__step(exc)` it is `Task.__step` -/
theorem beginHandle_step (s : State) (t : TaskId) (e : Option Exc) (rest : List Handle)
    (hi : s.ctx = .idle) (hr : s.ready = .step t e :: rest) :
    beginHandle s = logThrown { s with ready := rest } t (Task.stepA { s with ready := rest } t e) := by
  rw [← stepA_eq]; unfold beginHandle; simp only [hi, hr]

/-- returned / raised: the task finishes.  (`_must_cancel` of a finished task is not represented in the
    model: `__step` clears it when the coroutine returned, the model leaves it.) -/
theorem stepB_stop (s : State) (t : TaskId) :
    Task.stepB s t .stopIteration =
      .ok (if (s.tasks t).mustCancel then setMustCancel (endStep s t .finish) t false else endStep s t .finish) := by
  unfold Task.stepB
  cases hm : (s.tasks t).mustCancel <;>
    simp [endStep, finishTask, leaveTask, setMustCancel, setTask, hm] <;>
    (try (funext i; by_cases h : i = t <;> simp [h, hm]))

theorem stepB_raise (s : State) (t : TaskId) :
    Task.stepB s t .cancelledError = .ok (endStep s t .finish) ∧
    Task.stepB s t .otherException = .ok (endStep s t .finish) ∧
    -- KeyboardInterrupt / SystemExit: stored like any exception, then re-raised out of the step
    Task.stepB s t .keyboardInterrupt = .error (.propagated, endStep s t .finish) := by
  unfold Task.stepB
  simp [endStep, finishTask, leaveTask, setTask]

/-- yielded something: bare yield, a proper future (blocking handshake, same loop), or a bad yield -/
theorem stepB_yield (s : State) (t : TaskId) (y : Yielded) :
    Task.stepB s t (.yielded y) = .ok (endStep s t (actOf (.yielded y))) := by
  unfold Task.stepB
  cases y with
  | none => simp [actOf, endStep, Yielded.blocking?, Yielded.isNone, callSoon, leaveTask]
  | generator => simp [actOf, endStep, Yielded.blocking?, Yielded.isNone, Yielded.isGenerator, callSoon, leaveTask]
  | other => simp [actOf, endStep, Yielded.blocking?, Yielded.isNone, Yielded.isGenerator, callSoon, leaveTask]
  | fut f b l sf =>
    cases b <;> cases l <;> cases sf <;>
      simp [actOf, endStep, Yielded.blocking?, Yielded.sameLoop, Yielded.isSelf, Yielded.futId, callSoon, leaveTask]
    -- the proper await: add_done_callback(__wakeup), _fut_waiter, the _must_cancel re-check
    unfold virtualCancel
    simp only [cancel_eq, pyState_pending]
    by_cases hp : (s.futs f).st = .pending <;> cases hm : (s.tasks t).mustCancel <;>
      cases hn : (s.futs f).noCancel <;>
      simp [hp, hm, hn, setCallbacks, callbacks, setFutWaiter, setMustCancel, setTask, setFut, toHandle,
        completeFut, callSoon, leaveTask] <;>
      (try (first
        | (funext i; by_cases h : i = t <;> simp [h, hm]; done)
        | (apply state_ext <;> simp <;> (try (funext i; by_cases h : i = t <;> simp [h, hm])) <;>
            (try (funext i; by_cases h : i = f <;> simp [h, hn])))))

/-- the Kernel's `endStep` event is segment B of `Task.__step` for the outcome it abstracts -/
theorem step_endStep (s : State) (t : TaskId) (y : Yielded) (hc : s.ctx = .inTask t) :
    step s (.endStep (actOf (.yielded y))) = match Task.stepB s t (.yielded y) with
      | .ok s' => (s', .ok)
      | .error (_, s') => (s', .kernelError) := by
  rw [stepB_yield]; simp [step, hc]

/-- `Task.__init__` (eager_start=False) = the model's `create`: fresh task record, first `__step` scheduled
    with call_soon, registered with the loop.  (`py` only says which of the two classes was instantiated.) -/
theorem init_eq (s : State) (py : Bool) :
    (step s (.create py)).1 =
      match Task.init (setTask s s.nt { (s.tasks s.nt) with py := py }) s.nt with
      | .ok (s', _) => s'
      | .error (_, s') => s' := by
  unfold Task.init
  simp [step, initFuture, setMustCancel, setFutWaiter, callSoon, registerTask, setTask]
  funext i; by_cases h : i = s.nt <;> simp [h]

end Asynkit.GenEqKernelStd
