/-
Helper lemmas for C01 / C03: the kernel is parametric in the coroutine object (`kstep_map`), the
started continuation is transparent (`lockstep`), and the explicit analysis of the window between
`coro_eager` returning and the continuation Task's first step.
-/
import Asynkit.Model.EagerKernel

namespace Asynkit.Eager
open Asynkit.Proto

def K.map {κ κ' : Type} (g : κ → κ') (s : K κ) : K κ' := ⟨g s.co, s.task, s.futs⟩

section map
variable {κ κ' : Type} (g : κ → κ') (c : CStep κ) (c' : CStep κ')

omit c c' in
theorem taskFinish_map (t : Task) (x : κ × Out × Futs) :
    taskFinish t (g x.1, x.2.1, x.2.2) = (taskFinish t x).map g := by
  obtain ⟨a, o, F⟩ := x
  cases o with
  | ret v => simp [taskFinish, K.map]
  | raise e => simp [taskFinish, K.map]
  | yield y =>
    cases y with
    | bare => simp [taskFinish, K.map]
    | tok n => simp [taskFinish, K.map]
    | fut f =>
      simp only [taskFinish, K.map]
      split <;> rfl

variable (h : ∀ x r F, c' (g x) r F = (g (c x r F).1, (c x r F).2.1, (c x r F).2.2))
include h

theorem taskStep_map (s : K κ) (e : Option KExc) :
    taskStep c' (s.map g) e = (taskStep c s e).map g := by
  simp only [taskStep, K.map, h]
  exact taskFinish_map g _ _

theorem kstep_map (s : K κ) (e : Ev) : kstep c' (s.map g) e = (kstep c s e).map g := by
  have hs := taskStep_map g c c' h s
  cases e with
  | run =>
    simp only [kstep]
    cases ho : s.task.outcome with
    | some o => simp [K.map, ho]
    | none =>
      cases hr : s.task.ready with
      | none => simp [K.map, ho, hr]
      | some hd =>
        cases hd with
        | step e => simpa [K.map, ho, hr] using hs e
        | wakeup f =>
          simp only [K.map, ho, hr, taskWakeup]
          cases hf : (s.futs f).st with
          | pending => rfl
          | result v => exact hs _
          | exc e => exact hs _
          | cancelled => exact hs _
  | resolve f v => rfl
  | fail f x => rfl
  | cancelFut f => rfl
  | clearFlag f => rfl
  | cancel => rfl

theorem runK_map (s : K κ) (es : List Ev) : runK c' (s.map g) es = (runK c s es).map g := by
  induction es generalizing s with
  | nil => rfl
  | cons e es ih =>
    simp only [runK, List.foldl_cons] at ih ⊢
    rw [kstep_map g c c' h]; exact ih _

end map

/-- once started, the continuation is transparent: the Task over it and the Task over the coroutine
    itself move in lock step, for every event -/
theorem contResume_relay (fix : Fix) (b : VBody) (co : Co b.σ) (r : KRes) (F : Futs) :
    contResume fix b (.relay co) r F
      = (Cont.relay (coStep b co r F).1, (coStep b co r F).2.1, (coStep b co r F).2.2) := rfl

theorem lockstep (fix : Fix) (b : VBody) (s : K (Co b.σ)) (es : List Ev) :
    runK (contResume fix b) (s.map Cont.relay) es = (runK (coStep b) s es).map Cont.relay :=
  runK_map Cont.relay (coStep b) (contResume fix b) (contResume_relay fix b) s es

end Asynkit.Eager

namespace Asynkit.Eager
open Asynkit.Proto

/-! ### the window between `coro_eager` returning and the continuation Task's first step -/

/-- state of the eager run in that window: continuation not resumed, `mc` = a cancel() was requested -/
def eagerAt {σ : Type} (co : Co σ) (held : Y) (mc : Bool) (F : Futs) : K (Cont σ) :=
  ⟨.unstarted co held, { mustCancel := mc }, F⟩

/-- the plain Task suspended at the same point -/
def plainTaskAt (held : Y) (F : Futs) : Task :=
  match held with
  | .fut f => { ready := if (F f).isDone then some (.wakeup f) else none, futWaiter := some f }
  | .bare => {}
  | .tok _ => { ready := some (.step (some (.rt rtBadYield))) }

def plainAt {σ : Type} (co : Co σ) (held : Y) (F : Futs) : K (Co σ) := ⟨co, plainTaskAt held F, F⟩

/-- the held future's flag is clear (cleared on capture; the environment never sets flags) -/
def HeldOk (held : Y) (F : Futs) : Prop := ∀ f, held = .fut f → (F f).blocking = false

@[simp] theorem setFlag_same (F : Futs) (f : Nat) (b : Bool) : (setFlag F f b f).blocking = b := by
  simp [setFlag, Futs.set]

@[simp] theorem setFlag_st (F : Futs) (f g : Nat) (b : Bool) : (setFlag F f b g).st = (F g).st := by
  simp only [setFlag, Futs.set]; split <;> simp_all

@[simp] theorem setFlag_isDone (F : Futs) (f g : Nat) (b : Bool) :
    (setFlag F f b g).isDone = (F g).isDone := by
  simp [Fut.isDone]

theorem setFlag_setFlag (F : Futs) (f : Nat) (a b : Bool) :
    setFlag (setFlag F f a) f b = setFlag F f b := by
  funext g; simp only [setFlag, Futs.set]; split <;> simp_all

theorem setFlag_self (F : Futs) (f : Nat) (h : (F f).blocking = false) : setFlag F f false = F := by
  funext g; simp only [setFlag, Futs.set]; split
  · rename_i hg; subst hg; cases hF : F g; simp_all
  · rfl

/-- a yielded Future has just had its flag set; nothing else changes the futures -/
theorem Co.resume_futs (b : VBody) (c : Co b.σ) (r : Resume) (F : Futs) :
    (Co.resume b c r F).2.2 =
      match (Co.resume b c r F).2.1 with
      | .yield y => Co.armYield y F
      | _ => F := by
  unfold Co.resume
  split
  · split
    · rfl
    · simp only [Co.after]; split <;> rfl
  · rfl
  · simp only [Co.after]; split <;> rfl
  · rfl

theorem plainStarted_eq (b : VBody) (F : Futs) :
    plainStarted b F
      = taskFinish { ready := none } (Co.resume b (Co.start b) (.send 0) F) := by
  simp [plainStarted, plainTask, kstep, taskStep, stepRes, stepExc, coStep, KRes.toResume]

/-- `coro_eager` on a body that suspends: the eager run and the plain Task whose first step has run
    are at the same point -/
theorem eager_start_yield (b : VBody) (F : Futs) (y : Y)
    (hy : (Co.resume b (Co.start b) (.send 0) F).2.1 = .yield y) :
    ∃ F2, eagerRun .repaired b F = .task (eagerAt (Co.resume b (Co.start b) (.send 0) F).1 y false F2)
      ∧ plainStarted b F = plainAt (Co.resume b (Co.start b) (.send 0) F).1 y F2
      ∧ HeldOk y F2 := by
  have hf := Co.resume_futs b (Co.start b) (.send 0) F
  rw [plainStarted_eq]
  unfold eagerRun
  generalize Co.resume b (Co.start b) (.send 0) F = x at *
  obtain ⟨c', out, F'⟩ := x
  simp only at hy hf
  subst hy
  simp only at hf
  subst hf
  cases y with
  | bare =>
    refine ⟨F, ?_, ?_, ?_⟩
    · simp [eagerAt, Co.armYield]
    · simp [taskFinish, plainAt, plainTaskAt, Co.armYield]
    · intro f hf; cases hf
  | tok n =>
    refine ⟨F, ?_, ?_, ?_⟩
    · simp [eagerAt, Co.armYield]
    · simp [taskFinish, plainAt, plainTaskAt, Co.armYield]
    · intro f hf; cases hf
  | fut f =>
    refine ⟨setFlag F f false, ?_, ?_, ?_⟩
    · simp [eagerAt, Co.armYield, Fix.repaired, setFlag_setFlag]
    · simp [taskFinish, plainAt, plainTaskAt, Co.armYield, setFlag_setFlag]
    · intro g hg; cases hg; simp

/-- … and on a body that finishes in the prefix -/
theorem eager_start_done (fix : Fix) (b : VBody) (F : Futs)
    (hy : ∀ y, (Co.resume b (Co.start b) (.send 0) F).2.1 ≠ .yield y) :
    eagerRun fix b F = .future (Co.resume b (Co.start b) (.send 0) F).1
        (Co.resume b (Co.start b) (.send 0) F).2.1 (Co.resume b (Co.start b) (.send 0) F).2.2
      ∧ plainStarted b F = ⟨(Co.resume b (Co.start b) (.send 0) F).1,
          { ready := none, outcome := some (Co.resume b (Co.start b) (.send 0) F).2.1 },
          (Co.resume b (Co.start b) (.send 0) F).2.2⟩ := by
  rw [plainStarted_eq]
  unfold eagerRun
  generalize Co.resume b (Co.start b) (.send 0) F = x at *
  obtain ⟨c', out, F'⟩ := x
  cases out with
  | yield y => exact absurd rfl (hy y)
  | ret v => simp [taskFinish]
  | raise e => simp [taskFinish]

/-- what an environment event does to the futures when the task is not waiting on a pending one
    (`run` and `cancel` do nothing to them) -/
def envFuts (F : Futs) : Ev → Futs
  | .resolve f v => (finishFut {} F f (.result v)).2
  | .fail f e => (finishFut {} F f (.exc e)).2
  | .cancelFut f => (finishFut {} F f .cancelled).2
  | .clearFlag f => setFlag F f false
  | _ => F

theorem finishFut_snd (t : Task) (F : Futs) (f : Nat) (st : FSt) :
    (finishFut t F f st).2 = (finishFut {} F f st).2 := by
  simp only [finishFut]; split <;> rfl

theorem finishFut_unwaited (mc : Bool) (F : Futs) (f : Nat) (st : FSt) :
    (finishFut { mustCancel := mc } F f st).1 = { mustCancel := mc } := by
  simp only [finishFut]; split <;> simp [notify]

theorem finishFut_plainAt (held : Y) (F : Futs) (g : Nat) (st : FSt) (hst : st ≠ .pending) :
    (finishFut (plainTaskAt held F) F g st).1 = plainTaskAt held (finishFut {} F g st).2 := by
  simp only [finishFut]
  cases hg : (F g).st with
  | pending =>
    simp only
    cases held with
    | bare => simp [plainTaskAt, notify]
    | tok n => simp [plainTaskAt, notify]
    | fut f =>
      by_cases hfg : f = g
      · subst hfg
        cases st <;> simp_all [plainTaskAt, notify, Futs.set, Fut.isDone]
      · have : g ≠ f := fun h => hfg h.symm
        simp [plainTaskAt, notify, Futs.set, hfg]
  | result v => rfl
  | exc e => rfl
  | cancelled => rfl

theorem envStep_eager (mc : Bool) (F : Futs) (e : Ev) (he : e ≠ .cancel) :
    envStep { mustCancel := mc } F e = ({ mustCancel := mc }, envFuts F e) := by
  cases e with
  | cancel => exact absurd rfl he
  | run => rfl
  | clearFlag f => rfl
  | resolve f v => exact Prod.ext (finishFut_unwaited ..) (finishFut_snd ..)
  | fail f x => exact Prod.ext (finishFut_unwaited ..) (finishFut_snd ..)
  | cancelFut f => exact Prod.ext (finishFut_unwaited ..) (finishFut_snd ..)

theorem plainTaskAt_setFlag (held : Y) (F : Futs) (f : Nat) (b : Bool) :
    plainTaskAt held (setFlag F f b) = plainTaskAt held F := by
  cases held <;> simp [plainTaskAt]

theorem envStep_plain (held : Y) (F : Futs) (e : Ev) (he : e ≠ .cancel) :
    envStep (plainTaskAt held F) F e = (plainTaskAt held (envFuts F e), envFuts F e) := by
  cases e with
  | cancel => exact absurd rfl he
  | run => rfl
  | clearFlag f => simp [envStep, envFuts, plainTaskAt_setFlag]
  | resolve f v => exact Prod.ext (finishFut_plainAt _ _ _ _ (by simp)) (finishFut_snd ..)
  | fail f x => exact Prod.ext (finishFut_plainAt _ _ _ _ (by simp)) (finishFut_snd ..)
  | cancelFut f => exact Prod.ext (finishFut_plainAt _ _ _ _ (by simp)) (finishFut_snd ..)

theorem finishFut_blocking (F : Futs) (f g : Nat) (st : FSt) :
    ((finishFut {} F f st).2 g).blocking = (F g).blocking := by
  simp only [finishFut]; split
  · simp only [Futs.set]; split <;> simp_all
  · rfl

theorem heldOk_envFuts (held : Y) (F : Futs) (e : Ev) (h : HeldOk held F) : HeldOk held (envFuts F e) := by
  intro f hf
  have := h f hf
  cases e <;> simp only [envFuts, finishFut_blocking] <;> try exact this
  simp only [setFlag, Futs.set]; split <;> simp_all

def envFutsL (F : Futs) (es : List Ev) : Futs := es.foldl envFuts F

theorem kstep_env {κ : Type} (c : CStep κ) (s : K κ) (e : Ev) (he : e ≠ .run) :
    kstep c s e = ⟨s.co, (envStep s.task s.futs e).1, (envStep s.task s.futs e).2⟩ := by
  cases e <;> first | exact absurd rfl he | rfl

/-- the window, eager side: nothing but the futures and the cancel request changes -/
theorem window_eager (fix : Fix) (b : VBody) (co : Co b.σ) (held : Y) (mc : Bool) (F : Futs) (pre : List Ev)
    (hpre : Ev.run ∉ pre) :
    runK (contResume fix b) (eagerAt co held mc F) pre
      = eagerAt co held (mc || pre.contains .cancel) (envFutsL F pre) := by
  induction pre generalizing mc F with
  | nil => simp [runK, envFutsL]
  | cons e es ih =>
    have hes : Ev.run ∉ es := fun h => hpre (List.mem_cons_of_mem _ h)
    have he : e ≠ .run := fun h => hpre (h ▸ List.mem_cons_self)
    simp only [runK, List.foldl_cons, envFutsL] at ih ⊢
    by_cases hc : e = .cancel
    · subst hc
      have : kstep (contResume fix b) (eagerAt co held mc F) .cancel = eagerAt co held true F := by
        simp [kstep, envStep, taskCancel, eagerAt]
      rw [this, ih true F hes]
      simp [envFuts]
    · have : kstep (contResume fix b) (eagerAt co held mc F) e = eagerAt co held mc (envFuts F e) := by
        rw [kstep_env _ _ _ he]
        simp only [eagerAt, envStep_eager mc F _ hc]
      rw [this, ih mc _ hes]
      have : (List.contains (e :: es) Ev.cancel) = List.contains es Ev.cancel := by
        simp only [List.contains_cons]
        have : (Ev.cancel == e) = false := by simpa using fun h : Ev.cancel = e => hc h.symm
        simp [this]
      rw [this]

/-- the window, plain side (the same events without the cancel requests) -/
theorem window_plain (b : VBody) (co : Co b.σ) (held : Y) (F : Futs) (pre : List Ev)
    (hpre : Ev.run ∉ pre) :
    runK (coStep b) (plainAt co held F) (pre.filter (· ≠ .cancel)) = plainAt co held (envFutsL F pre) := by
  induction pre generalizing F with
  | nil => simp [runK, envFutsL]
  | cons e es ih =>
    have hes : Ev.run ∉ es := fun h => hpre (List.mem_cons_of_mem _ h)
    have he : e ≠ .run := fun h => hpre (h ▸ List.mem_cons_self)
    by_cases hc : e = .cancel
    · subst hc
      simp only [envFutsL, List.foldl_cons, envFuts] at ih ⊢
      simpa using ih F hes
    · have hk : kstep (coStep b) (plainAt co held F) e = plainAt co held (envFuts F e) := by
        rw [kstep_env _ _ _ he]
        simp only [plainAt, envStep_plain held F _ hc]
      simp only [envFutsL, List.foldl_cons, runK] at ih ⊢
      rw [List.filter_cons_of_pos (by simpa using hc)]
      simp only [List.foldl_cons]
      rw [hk]; exact ih _ hes

theorem heldOk_envFutsL (held : Y) (F : Futs) (es : List Ev) (h : HeldOk held F) :
    HeldOk held (envFutsL F es) := by
  induction es generalizing F with
  | nil => exact h
  | cons e es ih => exact ih _ (heldOk_envFuts held F e h)

/-- the plain-Task events that the continuation Task's first loop iteration amounts to -/
def mid (mc : Bool) (held : Y) (F : Futs) : List Ev :=
  if mc then
    match held with
    | .fut f => if (F f).isDone then [.cancel, .run] else [.cancel]
    | _ => [.cancel, .run]
  else []

theorem isDone_of_st {x : Fut} : x.isDone = true ↔ x.st ≠ .pending := by
  cases x with | mk st a b c => cases st <;> simp [Fut.isDone]

/-- the continuation Task's first loop iteration: bookkeeping only (no pending cancel), or the
    delivery of the pending cancel exactly as `Task.cancel()` on the plain Task suspended there -/
theorem first_run (b : VBody) (co : Co b.σ) (held : Y) (mc : Bool) (F : Futs) (hok : HeldOk held F) :
    kstep (contResume .repaired b) (eagerAt co held mc F) .run
      = (runK (coStep b) (plainAt co held F) (mid mc held F)).map .relay := by
  cases mc with
  | false =>
    cases held with
    | bare =>
      simp [kstep, eagerAt, taskStep, stepRes, stepExc, contResume, rearmHeld, taskFinish, mid, runK,
        plainAt, plainTaskAt, K.map]
    | tok n =>
      simp [kstep, eagerAt, taskStep, stepRes, stepExc, contResume, rearmHeld, taskFinish, mid, runK,
        plainAt, plainTaskAt, K.map]
    | fut f =>
      have h0 := hok f rfl
      simp [kstep, eagerAt, taskStep, stepRes, stepExc, contResume, rearmHeld, taskFinish, mid, runK,
        plainAt, plainTaskAt, K.map, Fix.repaired, setFlag_setFlag, setFlag_self F f h0]
  | true =>
    cases held with
    | bare =>
      simp [kstep, eagerAt, taskStep, stepRes, stepExc, contResume, relayStep, mid, runK,
        plainAt, plainTaskAt, K.map, Fix.repaired, envStep, taskCancel, coStep]
      exact taskFinish_map Cont.relay _ _
    | tok n =>
      simp [kstep, eagerAt, taskStep, stepRes, stepExc, contResume, relayStep, mid, runK,
        plainAt, plainTaskAt, K.map, Fix.repaired, envStep, taskCancel, coStep]
      exact taskFinish_map Cont.relay _ _
    | fut f =>
      have h0 := hok f rfl
      cases hst : (F f).st with
      | pending =>
        have hd : (F f).isDone = false := by simp [Fut.isDone, hst]
        by_cases ht : (F f).isTask = true
        · simp [kstep, eagerAt, taskStep, stepRes, stepExc, contResume, rearmHeld, taskFinish, mid, runK,
            plainAt, plainTaskAt, K.map, Fix.repaired, envStep, taskCancel, futCancel, hst, hd, ht]
          refine ⟨by simp [Futs.set, Fut.isDone], ?_⟩
          rw [setFlag_setFlag, setFlag_self]
          simp [Futs.set, h0]
        · simp [kstep, eagerAt, taskStep, stepRes, stepExc, contResume, rearmHeld, taskFinish, mid, runK,
            plainAt, plainTaskAt, K.map, Fix.repaired, envStep, taskCancel, futCancel, hst, hd, ht]
          refine ⟨by simp [notify, Futs.set, Fut.isDone], ?_⟩
          rw [setFlag_setFlag, setFlag_self]
          simp [Futs.set, h0]
      | result v =>
        have hd : (F f).isDone = true := by simp [Fut.isDone, hst]
        simp [kstep, eagerAt, taskStep, stepRes, stepExc, contResume, relayStep, mid, runK,
            plainAt, plainTaskAt, K.map, Fix.repaired, envStep, taskCancel, futCancel, hst, hd, coStep,
            taskWakeup]
        exact taskFinish_map Cont.relay _ _
      | exc e =>
        have hd : (F f).isDone = true := by simp [Fut.isDone, hst]
        simp [kstep, eagerAt, taskStep, stepRes, stepExc, contResume, relayStep, mid, runK,
            plainAt, plainTaskAt, K.map, Fix.repaired, envStep, taskCancel, futCancel, hst, hd, coStep,
            taskWakeup]
        exact taskFinish_map Cont.relay _ _
      | cancelled =>
        have hd : (F f).isDone = true := by simp [Fut.isDone, hst]
        simp [kstep, eagerAt, taskStep, stepRes, stepExc, contResume, relayStep, mid, runK,
            plainAt, plainTaskAt, K.map, Fix.repaired, envStep, taskCancel, futCancel, hst, hd, coStep,
            taskWakeup]
        exact taskFinish_map Cont.relay _ _

/-! ### the plain Task never takes the "no handshake" branch and leaves no flag set -/

def Clean {κ : Type} (s : K κ) : Prop := s.task.hsErr = false ∧ ∀ g, (s.futs g).blocking = false

theorem notify_hsErr (t : Task) (f : Nat) : (notify t f).hsErr = t.hsErr := by
  simp only [notify]; split <;> rfl

theorem set_blocking (F : Futs) (f : Nat) (x : Fut) (hx : x.blocking = false)
    (h : ∀ g, (F g).blocking = false) : ∀ g, (F.set f x g).blocking = false := by
  intro g; simp only [Futs.set]; split
  · exact hx
  · exact h g

theorem envStep_clean (t : Task) (F : Futs) (e : Ev) (h1 : t.hsErr = false)
    (h2 : ∀ g, (F g).blocking = false) :
    (envStep t F e).1.hsErr = false ∧ ∀ g, ((envStep t F e).2 g).blocking = false := by
  have hfin : ∀ f st, (finishFut t F f st).1.hsErr = false
      ∧ ∀ g, ((finishFut t F f st).2 g).blocking = false := by
    intro f st
    simp only [finishFut]; split
    · exact ⟨by rw [notify_hsErr]; exact h1, set_blocking _ _ _ (h2 f) h2⟩
    · exact ⟨h1, h2⟩
  cases e with
  | run => exact ⟨h1, h2⟩
  | resolve f v => exact hfin _ _
  | fail f x => exact hfin _ _
  | cancelFut f => exact hfin _ _
  | clearFlag f => exact ⟨h1, set_blocking _ _ _ rfl h2⟩
  | cancel =>
    simp only [envStep, taskCancel]
    split
    · exact ⟨h1, h2⟩
    · split
      · exact ⟨h1, h2⟩
      · split
        · split
          · exact ⟨h1, set_blocking _ _ _ (h2 _) h2⟩
          · exact ⟨by rw [notify_hsErr]; exact h1, set_blocking _ _ _ (h2 _) h2⟩
        · exact ⟨h1, h2⟩

theorem taskFinish_clean {κ : Type} (t : Task) (x : κ × Out × Futs) (F : Futs) (ht : t.hsErr = false)
    (hF : ∀ g, (F g).blocking = false)
    (hx : x.2.2 = match x.2.1 with
      | .yield y => Co.armYield y F
      | _ => F) : Clean (taskFinish t x) := by
  obtain ⟨a, o, F'⟩ := x
  simp only at hx
  subst hx
  cases o with
  | ret v => exact ⟨ht, hF⟩
  | raise e => exact ⟨ht, hF⟩
  | yield y =>
    cases y with
    | bare => exact ⟨ht, hF⟩
    | tok n => exact ⟨ht, hF⟩
    | fut f =>
      simp only [taskFinish, Co.armYield, setFlag_same, if_true, Clean]
      refine ⟨ht, ?_⟩
      rw [setFlag_setFlag]
      exact set_blocking _ _ _ rfl hF

theorem kstep_plain_clean (b : VBody) (s : K (Co b.σ)) (e : Ev) (h : Clean s) :
    Clean (kstep (coStep b) s e) := by
  have hstep : ∀ exc, Clean (taskStep (coStep b) s exc) := by
    intro exc
    exact taskFinish_clean _ _ s.futs h.1 h.2 (Co.resume_futs b s.co _ s.futs)
  by_cases he : e = .run
  · subst he
    simp only [kstep]
    split
    · exact hstep _
    · simp only [taskWakeup]; split <;> first | exact h | exact hstep _
    · exact h
  · rw [kstep_env _ _ _ he]
    exact envStep_clean _ _ _ h.1 h.2

theorem runK_plain_clean (b : VBody) (s : K (Co b.σ)) (es : List Ev) (h : Clean s) :
    Clean (runK (coStep b) s es) := by
  induction es generalizing s with
  | nil => exact h
  | cons e es ih => exact ih _ (kstep_plain_clean b s e h)

/-! ### small helpers used by the property files -/

theorem split_run (es : List Ev) :
    Ev.run ∉ es ∨ ∃ pre post, es = pre ++ Ev.run :: post ∧ Ev.run ∉ pre := by
  induction es with
  | nil => left; simp
  | cons e es ih =>
    by_cases he : e = .run
    · right; exact ⟨[], es, by simp [he], by simp⟩
    · rcases ih with h | ⟨pre, post, h1, h2⟩
      · left; simp [h]
        exact fun h' => he h'.symm
      · right
        refine ⟨e :: pre, post, by simp [h1], ?_⟩
        simp [h2]
        exact fun h' => he h'.symm

theorem runK_append {κ : Type} (c : CStep κ) (s : K κ) (a b : List Ev) :
    runK c s (a ++ b) = runK c (runK c s a) b := by
  simp [runK, List.foldl_append]

theorem mid_cases (mc : Bool) (held : Y) (F : Futs) :
    (mid mc held F = [] ∨ mid mc held F = [.cancel] ∨ mid mc held F = [.cancel, .run])
    ∧ (mid mc held F ≠ [] ↔ mc = true) := by
  cases mc
  · simp [mid]
  · cases held <;> simp [mid]
    split <;> simp

theorem Co.resume_susp_log (b : VBody) (co : Co b.σ) (s : b.σ) (hs : co.st = .susp s) (r : Resume) (F : Futs) :
    (Co.resume b co r F).1.log = (r, F) :: co.log := by
  unfold Co.resume
  rw [hs]
  simp only [Co.after]
  split <;> rfl

theorem taskFinish_co {κ : Type} (t : Task) (x : κ × Out × Futs) : (taskFinish t x).co = x.1 := by
  obtain ⟨a, o, F⟩ := x
  cases o with
  | ret v => rfl
  | raise e => rfl
  | yield y =>
    cases y with
    | bare => rfl
    | tok n => rfl
    | fut f => simp only [taskFinish]; split <;> rfl

theorem Co.resume_susp_fin (b : VBody) (co : Co b.σ) (s : b.σ) (hs : co.st = .susp s) (r : Resume) (F : Futs)
    (hfin : ∀ y, (b.resume s r F).2 ≠ .yield y) :
    (Co.resume b co r F).1.st = .done ∧ ∀ y, (Co.resume b co r F).2.1 ≠ .yield y := by
  unfold Co.resume
  rw [hs]
  simp only [Co.after]
  split
  · rename_i y hy; exact absurd hy (hfin y)
  · exact ⟨rfl, by intro y h; cases h⟩
  · exact ⟨rfl, by intro y h; cases h⟩
  · exact ⟨rfl, by intro y h; cases h⟩

theorem taskFinish_done {κ : Type} (t : Task) (x : κ × Out × Futs) (h : ∀ y, x.2.1 ≠ .yield y) :
    (taskFinish t x).co = x.1 ∧ (taskFinish t x).task.outcome.isSome = true := by
  obtain ⟨a, o, F⟩ := x
  cases o with
  | ret v => exact ⟨rfl, rfl⟩
  | raise e => exact ⟨rfl, rfl⟩
  | yield y => exact absurd rfl (h y)

theorem kstep_run_done {κ : Type} (c : CStep κ) (s : K κ) (h : s.task.outcome.isSome = true) :
    kstep c s .run = s := by
  simp only [kstep]
  cases ho : s.task.outcome with
  | none => rw [ho] at h; cases h
  | some o => rfl

end Asynkit.Eager
