/-
Helper lemmas for C07 (Monitor): environment algebra, the relay's exits, and the ideal-channel
reading of `Monitor.oob` + `Monitor._asend` for leaf bodies.
-/
import Asynkit.Model.Monitor

namespace Asynkit.Monitor
open Asynkit.Proto (Val Exc Resume)

theorem Env.set_comm (env : Env) (m k : MonId) (x y : Int) (h : m ≠ k) :
    (env.set m x).set k y = (env.set k y).set m x := by
  funext j
  simp only [Env.set]
  by_cases h1 : j = k <;> by_cases h2 : j = m <;> simp_all

theorem Env.set_eq_self (env : Env) (m : MonId) (x : Int) (h : env m = x) : env.set m x = env := by
  funext j
  simp only [Env.set]
  split
  · next hj => rw [hj, h]
  · rfl

/-- every exit of the relay loop other than suspension leaves the monitor idle -/
theorem relayTop_idle {c : SBody} (m : MonId) (y : YV) (cs : CSt c.σ) (env : Env) :
    (∀ z, (relayTop (c := c) m y cs env).2 ≠ .pending z) → (relayTop (c := c) m y cs env).1.env m = 0 := by
  unfold relayTop
  split
  · split
    · split <;> simp
    · simp
  · simp

theorem relayAfter_idle {c : SBody} (m : MonId) (r : CSt c.σ × SOut × Env) :
    (∀ z, (relayAfter m r).2 ≠ .pending z) → (relayAfter m r).1.env m = 0 := by
  obtain ⟨cs, o, env⟩ := r
  cases o with
  | yield y => exact relayTop_idle m y cs env
  | ret v => intro _; simp [relayAfter]
  | raise e => intro _; cases e <;> simp [relayAfter]

theorem finish_pending (op : Op) (o : CallOut) (y : YV) (h : op.finish o = .pending y) : o = .pending y := by
  cases op <;> cases o <;> simp [Op.finish] at h ⊢ <;> try exact h
  all_goals (rename_i e; cases e <;> simp [Op.finish] at h)

end Asynkit.Monitor

namespace Asynkit.Monitor
open Asynkit.Proto (Val Exc Resume)

theorem asendStart_idle {c : SBody} (m : MonId) (first : Resume) (sys : Sys c) (h0 : sys.env m = 0) :
    (∀ z, (asendStart m first sys).2 ≠ .pending z) → (asendStart m first sys).1.env m = 0 := by
  unfold asendStart
  simp only [h0, ne_eq, not_true_eq_false, ↓reduceIte]
  split
  · intro _; simp
  · exact relayAfter_idle m _

theorem asendResume_idle {c : SBody} (m : MonId) (r : Resume) (sys : Sys c) :
    (∀ z, (asendResume m r sys).2 ≠ .pending z) → (asendResume m r sys).1.env m = 0 := by
  unfold asendResume
  split
  · split <;> (intro _; simp)
  · exact relayAfter_idle m _
  · exact relayAfter_idle m _

theorem asendResume_genExit_not_pending {c : SBody} (m : MonId) (sys : Sys c) (z : YV) :
    (asendResume m (.throw .genExit) sys).2 ≠ .pending z := by
  simp only [asendResume]
  split <;> simp

end Asynkit.Monitor

/-! ### the ideal channel (specification for leaf bodies)

What an activation of a leaf body means for the driver of monitor `m`, told *without any state for
`m`*: an `oob m d` of the body is a channel event carrying `d`; a real suspension is a real
suspension; other monitors are none of `m`'s business (their cells follow `Monitor.oob`). -/
namespace Asynkit.Monitor
open Asynkit.Proto (Val Exc Resume)

inductive IRes (σ : Type) where
  | oob (d : Val) (s : σ) (env : Env)
  | real (y : YV) (s : σ) (env : Env)
  | ret (v : Val) (s : σ) (env : Env)
  | raise (e : Exc) (s : σ) (env : Env)

def resolveI {σ : Type} (m : MonId) : Step σ → Env → IRes σ
  | .yield y s, env => .real (.plain y) s env
  | .oob m' d s refused, env =>
    if m' = m then .oob d s env
    else if env m' = 0 then resolveI m (refused ()) env else .real (.req m' d) s (env.set m' (-1))
  | .ret v s, env => .ret v s env
  | .raise e s, env => .raise e s env

inductive IOut where
  | oob (d : Val)      -- the body executed `await m.oob(d)` and is suspended in it
  | real (y : YV)      -- the body really suspended on `y` (or called `oob` on another monitor)
  | ret (v : Val)
  | raise (e : Exc)
deriving Repr, DecidableEq

def idealAfter {σ : Type} : IRes σ → CSt σ × IOut × Env
  | .oob d s env => (.susp s, .oob d, env)
  | .real y s env => (.susp s, .real y, env)
  | .ret v s env => (.done s, .ret v, env)
  | .raise (.stopIter _) s env => (.done s, .raise (.runtime Proto.rtRaisedStopIter), env)
  | .raise e s env => (.done s, .raise e, env)

/-- resume the coroutine object of a leaf body with a value / an exception, ideal reading -/
def idealResume (b : MBody) (m : MonId) (st : CSt b.σ) (r : Resume) (env : Env) : CSt b.σ × IOut × Env :=
  match st, r with
  | .created s, .send v =>
    if v ≠ 0 then (.created s, .raise .typeErr, env) else idealAfter (resolveI m (b.resume s (.send v)) env)
  | .created s, .throw e => (.done s, .raise e, env)
  | .susp s, r => idealAfter (resolveI m (b.resume s r) env)
  | .done s, _ => (.done s, .raise (.runtime Proto.rtCannotReuse), env)

/-- `Monitor.oob` run with the monitor active, against the ideal reading -/
theorem resolve_ideal {σ : Type} (m : MonId) (st : Step σ) (env : Env) :
    resolve st (env.set m 1) =
      match resolveI m st env with
      | .oob d s env' => .yield (.req m d) s (env'.set m (-1))
      | .real y s env' => .yield y s (env'.set m 1)
      | .ret v s env' => .ret v s (env'.set m 1)
      | .raise e s env' => .raise e s (env'.set m 1) := by
  induction st with
  | yield y s => simp [resolve, resolveI]
  | ret v s => simp [resolve, resolveI]
  | raise e s => simp [resolve, resolveI]
  | oob m' d s refused ih =>
    simp only [resolve, resolveI]
    by_cases hm : m' = m
    · subst hm; simp
    · simp only [hm, ↓reduceIte, Env.set_other _ _ _ _ hm]
      by_cases h1 : env m' = 0
      · simp [h1, ih ()]
      · simp [h1, Env.set_comm _ _ _ _ _ (Ne.symm hm)]

/-- the ideal reading never looks at or changes the cell of `m` -/
theorem resolveI_frame {σ : Type} (m : MonId) (st : Step σ) (env : Env) (x : Int) :
    resolveI m st (env.set m x) =
      match resolveI m st env with
      | .oob d s env' => .oob d s (env'.set m x)
      | .real y s env' => .real y s (env'.set m x)
      | .ret v s env' => .ret v s (env'.set m x)
      | .raise e s env' => .raise e s (env'.set m x) := by
  induction st with
  | yield y s => simp [resolveI]
  | ret v s => simp [resolveI]
  | raise e s => simp [resolveI]
  | oob m' d s refused ih =>
    simp only [resolveI]
    by_cases hm : m' = m
    · subst hm; simp
    · simp only [hm, ↓reduceIte, Env.set_other _ _ _ _ hm]
      by_cases h1 : env m' = 0
      · simp [h1, ih ()]
      · simp [h1, Env.set_comm _ _ _ _ _ (Ne.symm hm)]

end Asynkit.Monitor

namespace Asynkit.Monitor
open Asynkit.Proto (Val Exc Resume)

/-- how `Monitor._asend` presents an ideal outcome to its driver (`first`: the outcome of the
    initial `callable(*args)`, where a coroutine that itself raises OOBData is an error, line 84) -/
def present (b : MBody) (m : MonId) (first : Bool) :
    CSt b.σ × IOut × Env → Sys (ofM b) × CallOut
  | (st, .oob d, env) => (⟨st, env.set m 0⟩, .raised (.oobData d))
  | (st, .real y, env) => (⟨st, env.set m 1⟩, .pending y)
  | (st, .ret v, env) => (⟨st, env.set m 0⟩, .returned v)
  | (st, .raise (.stopIter v), env) => (⟨st, env.set m 0⟩, .returned v)   -- a thrown-in StopIteration coming back
  | (st, .raise e, env) =>
    (⟨st, env.set m 0⟩, .raised (match first, e with
      | true, .oobData _ => .runtime rtRaisedOOB
      | _, e => e))

theorem scoro_resume_ideal (b : MBody) (m : MonId) (st : CSt b.σ) (r : Resume) (env : Env) :
    SCoro.resume (ofM b) st r (env.set m 1) =
      match idealResume b m st r env with
      | (st', .oob d, env') => (st', .yield (.req m d), env'.set m (-1))
      | (st', .real y, env') => (st', .yield y, env'.set m 1)
      | (st', .ret v, env') => (st', .ret v, env'.set m 1)
      | (st', .raise e, env') => (st', .raise e, env'.set m 1) := by
  have key : ∀ (stp : Step b.σ),
      SCoro.after (resolve stp (env.set m 1)) =
        match idealAfter (resolveI m stp env) with
        | (st', .oob d, env') => (st', .yield (.req m d), env'.set m (-1))
        | (st', .real y, env') => (st', .yield y, env'.set m 1)
        | (st', .ret v, env') => (st', .ret v, env'.set m 1)
        | (st', .raise e, env') => (st', .raise e, env'.set m 1) := by
    intro stp
    rw [resolve_ideal]
    cases h : resolveI m stp env with
    | oob d s env' => simp [SCoro.after, idealAfter]
    | real y s env' => simp [SCoro.after, idealAfter]
    | ret v s env' => simp [SCoro.after, idealAfter]
    | raise e s env' => cases e <;> simp [SCoro.after, idealAfter]
  cases st with
  | created s =>
    cases r with
    | send v =>
      by_cases hv : v = 0
      · simp only [SCoro.resume, SCoro.send, idealResume, hv, ne_eq, not_true_eq_false, ↓reduceIte, ofM]
        exact key _
      · simp [SCoro.resume, SCoro.send, idealResume, hv]; rfl
    | throw e => simp [SCoro.resume, SCoro.throw, idealResume]; rfl
  | susp s =>
    cases r with
    | send v => simp only [SCoro.resume, SCoro.send, idealResume, ofM]; exact key _
    | throw e => simp only [SCoro.resume, SCoro.throw, idealResume, ofM]; exact key _
  | done s =>
    cases r <;> simp [SCoro.resume, SCoro.send, SCoro.throw, idealResume] <;> rfl

end Asynkit.Monitor

namespace Asynkit.Monitor
open Asynkit.Proto (Val Exc Resume)

/-- `Monitor._asend`, first activation, is the ideal channel -/
theorem asendStart_ideal (b : MBody) (m : MonId) (first : Resume) (st : CSt b.σ) (env : Env)
    (h0 : env m = 0) :
    asendStart m first (⟨st, env⟩ : Sys (ofM b)) = present b m true (idealResume b m st first env) := by
  simp only [asendStart, h0, ne_eq, not_true_eq_false, ↓reduceIte, scoro_resume_ideal]
  rcases h : idealResume b m st first env with ⟨st', o, env'⟩
  cases o with
  | oob d => simp [relayAfter, relayTop, present]
  | real y => simp [relayAfter, relayTop, present]
  | ret v => simp [relayAfter, present]
  | raise e => cases e <;> simp [relayAfter, present]

/-- `Monitor._asend`, resumed with a value or a non-GeneratorExit exception, is the ideal channel -/
theorem asendResume_ideal (b : MBody) (m : MonId) (r : Resume) (hr : r ≠ .throw .genExit)
    (st : CSt b.σ) (env : Env) :
    asendResume m r (⟨st, env.set m 1⟩ : Sys (ofM b)) = present b m false (idealResume b m st r env) := by
  have hres : asendResume m r (⟨st, env.set m 1⟩ : Sys (ofM b)) =
      relayAfter m (SCoro.resume (ofM b) st r (env.set m 1)) := by
    cases r with
    | send v => simp [asendResume, SCoro.resume]
    | throw e => cases e <;> simp_all [asendResume, SCoro.resume]
  rw [hres, scoro_resume_ideal]
  rcases h : idealResume b m st r env with ⟨st', o, env'⟩
  cases o with
  | oob d => simp [relayAfter, relayTop, present]
  | real y => simp [relayAfter, relayTop, present]
  | ret v => simp [relayAfter, present]
  | raise e => cases e <;> simp [relayAfter, present]

end Asynkit.Monitor
