/-
C12 `waiter_key_inv`, part 6: the chain induction for the queueing `acquire`, and the theorem over
fault-free ordered executions.
-/
import Asynkit.Lemmas.C12KeyInv5

namespace Asynkit.Lock
open Asynkit.PrioGraph

theorem graph_holding (s : State) (t : Nat) : s.graph.holding t = (s.tasks t).holding := rfl
theorem graph_waiters (s : State) (l : Nat) : s.graph.waiters l = (s.locks l).waiters.map (·.task) := rfl

/-- `Under` always ends at the owner of `k` -/
theorem under_owner {s : State} (hI : Inv s) {t k d : Nat} (h : Under s.graph t k d) :
    ∃ o, (s.locks k).owner = some o := by
  induction h with
  | base hk => exact ⟨_, ((hI.linv _).ownerOwns _).mpr (hI.holding_sub hk)⟩
  | step _ _ _ ih => exact ih

theorem under_holding_ne {s : State} {t k d : Nat} (h : Under s.graph t k d) : (s.tasks t).holding ≠ [] := by
  cases h with
  | base hk => intro e; rw [graph_holding, e] at hk; cases hk
  | step hl _ _ => intro e; rw [graph_holding, e] at hl; cases hl

theorem Inv.prio_of_holding {s : State} (hI : Inv s) {t : Nat} (h : (s.tasks t).holding ≠ []) :
    (s.tasks t).prio.isSome = true := by
  have := hI.holdingOwns t
  cases hp : (s.tasks t).prio.isSome with
  | true => rfl
  | false => rw [hp] at this; simp at this; exact absurd this h

/-- with locks taken in ascending order the top lock of a task that has `k` below it at depth `d`
    is at least `k + d` -/
theorem under_top {N : Nat} {s : State} (hI : Inv s) (ho : Ord N s) {t k d : Nat}
    (h : Under s.graph t k d) : ∃ l ∈ (s.tasks t).holding, k + d ≤ l := by
  induction h with
  | base hk => exact ⟨_, hk, Nat.le_refl _⟩
  | @step t l w k d hl hw _ ih =>
    obtain ⟨l', hl', hle⟩ := ih
    rw [graph_waiters] at hw
    obtain ⟨v, hv, ev⟩ := List.mem_map.mp hw
    have hpos := ((hI.linv l).wok (wt v) (List.mem_map_of_mem hv)).1
    simp only [wt, ev] at hpos
    have := ((ho w).2 l hpos).2 l' (hI.holding_sub hl')
    exact ⟨l, hl, by omega⟩

/-- facts about a chain node: a task queued on a lock that is held -/
theorem chain_node {s : State} (hI : Inv s) (hc : Clean s) {u l w : Nat}
    (hl : l ∈ (s.tasks u).holding) (hw : w ∈ (s.locks l).waiters.map (·.task))
    (hh : (s.tasks w).holding ≠ []) :
    (s.tasks w).prio.isSome = true ∧ (s.tasks w).status = .blocked ∧
    (s.tasks w).waitingOn = some l ∧ (s.locks l).owner = some u := by
  obtain ⟨v, hv, ev⟩ := List.mem_map.mp hw
  have hwok := (hI.linv l).wok (wt v) (List.mem_map_of_mem hv)
  simp only [wt, ev] at hwok
  have hown : (s.locks l).owner = some u := ((hI.linv l).ownerOwns u).mpr (hI.holding_sub hl)
  have hlocked : (s.locks l).locked = true := by rw [(hI.linv l).lockedOwner, hown]; rfl
  have hnr : v.fut ≠ .result := (hI.linv l).lockedNoResult hlocked (wt v) (List.mem_map_of_mem hv)
  have hp := hI.prio_of_holding hh
  refine ⟨hp, ?_, (hI.waitingPos w l).mpr ⟨hp, hwok.1⟩, hown⟩
  have h2 := hwok.2
  cases hs : (s.tasks w).status with
  | blocked => rfl
  | woken c =>
    rw [hs] at h2; simp only [WOK] at h2
    cases c
    · exact absurd (by simpa using h2) hnr
    · exact absurd hs (hc w).2.1
  | ready x => rw [hs] at h2; simp only [WOK] at h2; subst h2; exact absurd hs (hc w).2.2
  | running => rw [hs] at h2; simp [WOK] at h2
  | done => rw [hs] at h2; simp [WOK] at h2

/-- the state `appended s j k` looks like `s` for every task but `j` and every lock but `k` -/
theorem appended_task {s : State} {j k w : Nat} (h : w ≠ j) : (appended s j k).tasks w = s.tasks w := by
  simp [appended, h]
theorem appended_owner (s : State) (j k l : Nat) : ((appended s j k).locks l).owner = (s.locks l).owner := by
  by_cases c : l = k <;> simp [appended, c]

theorem eff_setWaitingOn (s : State) (j t : Nat) (x : Option Nat) :
    (s.setTask j { s.tasks j with waitingOn := x }).eff t = s.eff t := by
  apply eff_eq_of_graph
  · apply graph_eq_of
    · intro i; by_cases c2 : i = j <;> simp [c2]
    · intro i; by_cases c2 : i = j <;> simp [c2]
    · intro l; rfl
  · exact setTask_fuel s j _

/-- chain induction: if starting the walk at `u` re-keys the target, so does starting it at the
    owner of `k`, with two more units of fuel per link below `u` -/
theorem q_chain {s : State} (hI : Inv s) (hc : Clean s) {j k o t kt : Nat}
    (hrun : (s.tasks j).status = .running) (hown : (s.locks k).owner = some o) :
    ∀ {u d : Nat}, Under s.graph u k d → ∀ n, Q (appended s j k) t kt n u →
      Q (appended s j k) t kt (n + 2 * d) o := by
  intro u d h
  induction h with
  | @base u k hk =>
    intro n hq
    have := ((hI.linv k).ownerOwns u).mpr (hI.holding_sub hk)
    rw [hown] at this; injection this with this
    subst this; simpa using hq
  | @step u l w k d hl hw hu ih =>
    intro n hq
    obtain ⟨h1, h2, h3, h4⟩ := chain_node hI hc hl hw (under_holding_ne hu)
    have hwj : w ≠ j := by intro e; rw [e, hrun] at h2; cases h2
    have := q_lift (A := appended s j k) hq (by rw [appended_task hwj]; exact h1)
      (by rw [appended_task hwj]; exact h2) (by rw [appended_task hwj]; exact h3)
      (by rw [appended_owner]; exact h4)
    have := ih hown (n + 2) this
    have e : n + 2 + 2 * d = n + 2 * (d + 1) := by omega
    rw [e] at this; exact this

/-- the key invariant survives a queueing `acquire` -/
theorem kinv_acquire_slow {N : Nat} {s : State} (hI : Inv s) (hc : Clean s) (ho : Ord N s) (h : KInv s)
    (hfuel : 2 * N ≤ s.fuel) {j k : Nat} (hcur : s.cur = some j) (hkN : k < N)
    (hord : ∀ l ∈ (s.tasks j).owns, l < k) :
    KInv (queuedState (walk (appended s j k) (s.locks k).owner) j k) := by
  have hrun : (s.tasks j).status = .running := (hI.curRunning j).mp hcur
  have htop : (s.tasks j).pos = .top := hI.runningTop j hrun
  generalize hA : appended s j k = A
  have hAfuel : A.fuel = s.fuel := by subst hA; rfl
  have hke := walk_keyEq A (s.locks k).owner
  -- effective priorities in the final state are those of `A`
  have heffS : ∀ t, (queuedState (walk A (s.locks k).owner) j k).eff t = A.eff t := by
    intro t
    apply eff_eq_of_graph
    · apply graph_eq_of
      · intro i; rw [← hke.prio i]; by_cases c : i = j <;> simp [queuedState, c]
      · intro i; rw [← hke.holding i]; by_cases c : i = j <;> simp [queuedState, c]
      · intro l; rw [← keyEq_tasks hke l]; rfl
    · rw [← hke.fuel]; rfl
  -- dirty tasks
  let dT : Nat → Prop := fun t => ∃ d, Under s.graph t k d
  have hjclean : ¬ dT j := by
    intro ⟨d, hu⟩
    obtain ⟨l, hl, hle⟩ := under_top hI ho hu
    have := hord l (hI.holding_sub hl); omega
  -- clean tasks keep their effective priority
  have hclean : ∀ t, ¬ dT t → A.eff t = s.eff t := by
    apply eff_eq_local dT (fun l => l = k ∨ ∃ w ∈ (s.locks l).waiters, dT w.task)
    · exact hAfuel
    · intro i; subst hA; by_cases c : i = j <;> simp [appended, c]
    · intro t _; subst hA; by_cases c : t = j <;> simp [appended, c]
    · intro l hl; subst hA
      have : l ≠ k := fun e => hl (Or.inl e)
      simp [appended, this]
    · intro t ht l hl hd
      rcases hd with e | ⟨w, hw, d, hu⟩
      · exact ht ⟨0, Under.base (by rw [graph_holding, ← e]; exact hl)⟩
      · exact ht ⟨d + 1, Under.step (by rw [graph_holding]; exact hl)
          (by rw [graph_waiters]; exact List.mem_map_of_mem hw) hu⟩
    · intro l hl w hw hd
      exact hl (Or.inr ⟨w, hw, hd⟩)
  -- dirty blocked waiters are re-keyed
  have hdirty : ∀ t kt, dT t → (∃ w0 ∈ (s.locks kt).waiters, w0.task = t ∧ w0.fut = .pending) →
      Rk A (walk A (s.locks k).owner) t kt := by
    intro t kt ⟨d, hu⟩ ⟨w0, hw0, e0, hp0⟩
    obtain ⟨o, hown⟩ := under_owner hI hu
    have hwok := (hI.linv kt).wok (wt w0) (List.mem_map_of_mem hw0)
    simp only [wt, e0] at hwok
    have hprio := hI.prio_of_holding (under_holding_ne hu)
    have hblocked : (s.tasks t).status = .blocked := by
      have h2 := hwok.2
      cases hs : (s.tasks t).status with
      | blocked => rfl
      | woken c => rw [hs, hp0] at h2; simp only [WOK] at h2; cases c <;> simp at h2
      | ready x => rw [hs] at h2; simp only [WOK] at h2; subst h2; exact absurd hs (hc t).2.2
      | running => rw [hs] at h2; simp [WOK] at h2
      | done => rw [hs] at h2; simp [WOK] at h2
    have htj : t ≠ j := by intro e; rw [e, hrun] at hblocked; cases hblocked
    have hwait : (s.tasks t).waitingOn = some kt := (hI.waitingPos t kt).mpr ⟨hprio, hwok.1⟩
    have q0 : Q A t kt 2 t := by
      intro B e f hf
      subst hA
      exact rk_self e (by rw [appended_task htj]; exact hprio) (by rw [appended_task htj]; exact hblocked)
        (by rw [appended_task htj]; exact hwait) f hf
    have qo : Q A t kt (2 + 2 * d) o := by subst hA; exact q_chain hI hc hrun hown hu 2 q0
    obtain ⟨l, hl, hle⟩ := under_top hI ho hu
    have hlN : l < N := (ho t).1 l (hI.holding_sub hl)
    rw [hown]
    exact qo A (KeyEq.refl A) A.fuel (by rw [hAfuel]; omega)
  -- assemble
  intro k' w hw hpend
  have hw' : w ∈ ((walk A (s.locks k).owner).locks k').waiters := hw
  rw [heffS]
  obtain ⟨w0, hw0, e1, f1, c⟩ := (show Rel A A (walk A (s.locks k).owner) by
    cases (s.locks k).owner with
    | none => exact Rel.refl A A
    | some o => exact rel_propT A _ o A (KeyEq.refl A)) k' w hw'
  by_cases cc : w.key = A.eff w.task
  · exact cc
  have c : w.key = w0.key := c.resolve_right cc
  rw [c, ← e1]
  -- `w0` is an entry of `A`: the new one, or an old one of `s`
  have hw0s : (w0 ∈ (s.locks k').waiters) ∨ (w0.task = j ∧ w0.key = s.eff j) := by
    subst hA
    by_cases ck : k' = k
    · subst ck
      simp only [appended, setLock_locks, if_true, List.mem_append, List.mem_singleton] at hw0
      rcases hw0 with r | r
      · exact Or.inl r
      · right; subst r
        refine ⟨rfl, ?_⟩
        show State.eff (s.setTask j { s.tasks j with waitingOn := if (s.tasks j).prio.isSome then some k' else none }) j = s.eff j
        exact eff_setWaitingOn s j j _
    · left; simpa [appended, ck] using hw0
  rcases hw0s with r | ⟨r1, r2⟩
  · have hp0 : w0.fut = .pending := by rw [f1]; exact hpend
    by_cases hd : dT w0.task
    · have := hdirty w0.task k' hd ⟨w0, r, rfl, hp0⟩ w hw' e1.symm
      rw [← c]; exact this
    · rw [h k' w0 r hp0, hclean w0.task hd]
  · rw [r2, r1, hclean j hjclean]

end Asynkit.Lock

namespace Asynkit.Lock
open Asynkit.PrioGraph

theorem kinv_apply {N : Nat} {s : State} (hI : Inv s) (hc : Clean s) (hord : Ord N s) (h : KInv s)
    (hfuel : 2 * N ≤ s.fuel) (e : Ev) (he : e.enabled s = true) (ho : Ev.orderly N s e = true) :
    KInv (s.apply e) := by
  cases e with
  | resume i =>
    have hst := (resume_status he).2
    have hx := clean_resumeExc hc hst
    simp only [State.apply]
    by_cases hp : ∃ k, (s.tasks i).pos = .acq k
    · obtain ⟨k, hp⟩ := hp
      rw [doResume_acq_noexc s i k hp hx]
      exact kinv_resume_take hI hc h hp hst
    · rw [doResume_other s i (fun k hk => hp ⟨k, hk⟩)]
      refine kinv_same h (by rfl) (by rfl) ?_ ?_
      · intro j; by_cases c : j = i <;> simp [rs0, c]
      · intro j; by_cases c : j = i <;> simp [rs0, c]
  | acquire k =>
    simp only [State.apply]
    split
    · rename_i i hcur
      simp only [Ev.orderly, hcur, Bool.and_eq_true, decide_eq_true_eq, List.all_eq_true] at ho
      by_cases hf : (!(s.locks k).locked && (s.locks k).waiters.isEmpty) = true
      · rw [doAcquire_fast s i k hf]
        exact kinv_takeLock_running hI h ((hI.curRunning i).mp hcur)
      · rw [doAcquire_slow s i k hf]
        exact kinv_acquire_slow hI hc hord h hfuel hcur ho.1 (fun l hl => by simpa using ho.2 l hl)
    · exact h
  | release k =>
    simp only [State.apply]
    split
    · rename_i i hcur; exact kinv_release hI h hcur
    · exact h
  | sleep =>
    simp only [State.apply]
    split
    · rename_i i _
      refine kinv_same h (by rfl) (by rfl) ?_ ?_
      · intro j; by_cases c : j = i <;> simp [State.enqueue, c]
      · intro j; by_cases c : j = i <;> simp [State.enqueue, c]
    · exact h
  | wait ev =>
    simp only [State.apply]
    split
    · rename_i i _
      split
      · exact h
      · refine kinv_same h (by rfl) (by rfl) ?_ ?_
        · intro j; by_cases c : j = i <;> simp [c]
        · intro j; by_cases c : j = i <;> simp [c]
    · exact h
  | finish =>
    simp only [State.apply]
    split
    · rename_i i _
      refine kinv_same h (by rfl) (by rfl) ?_ ?_
      · intro j; by_cases c : j = i <;> simp [c]
      · intro j; by_cases c : j = i <;> simp [c]
    · exact h
  | badRelease k => exact h
  | cancel i => simp [Ev.orderly] at ho
  | throw i x => simp [Ev.orderly] at ho
  | interrupt i x => simp [Ev.orderly] at ho
  | reinsert i ps => simp [Ev.orderly] at ho
  | acquireFails k => simp [Ev.orderly] at ho
  | setEv ev =>
    refine kinv_same h (by rfl) (by rfl) ?_ ?_
    · intro j; simp only [State.apply, State.doSetEv]; split <;> rfl
    · intro j; simp only [State.apply, State.doSetEv]; split <;> rfl

theorem reachableNF_kinv {N : Nat} {s : State} (h : ReachableNF N s) : 2 * N ≤ s.fuel → KInv s := by
  induction h with
  | init hi =>
    intro _ k w hw
    rw [hi.locks k] at hw; cases hw
  | @step s e hr he ho ih =>
    intro hf
    have hcl := reachableNF_clean hr
    rw [apply_fuel_nf hcl e he ho] at hf
    exact kinv_apply (reachable_inv hr.reachable) hcl (reachableNF_ord hr) (ih hf) hf e he ho

end Asynkit.Lock
