/-
Progress of the PriorityLock model: the drain phase (no further faults) as finite runs.
-/
import Asynkit.Lemmas.C13Step

namespace Asynkit.Lock

/-! ### what `resume` of a queued waiter does to its lock -/

theorem wakeUpFirst_cur (s : State) (k : Nat) : (s.wakeUpFirst k).cur = s.cur := by
  unfold State.wakeUpFirst
  simp only []
  split
  · rfl
  · split
    · rfl
    · split <;> simp [State.enqueue]

theorem wakeUpFirst_owner (s : State) (k k' : Nat) :
    ((s.wakeUpFirst k).locks k').owner = (s.locks k').owner := by
  unfold State.wakeUpFirst
  simp only []
  split
  · rfl
  · split
    · rfl
    · split <;> by_cases e : k' = k <;> simp [State.enqueue, e]

theorem setFutOf_tasks (ws : List Waiter) (i : Nat) (f : Fut) :
    (setFutOf ws i f).map (·.task) = ws.map (·.task) := by
  induction ws with
  | nil => rfl
  | cons w ws ih =>
    simp only [setFutOf, List.map_cons, List.map_map] at *
    rw [ih]; by_cases h : w.task = i <;> simp [h]

theorem wakeUpFirst_tasks (s : State) (k k' : Nat) :
    ((s.wakeUpFirst k).locks k').waiters.map (·.task) = (s.locks k').waiters.map (·.task) := by
  unfold State.wakeUpFirst
  simp only []
  split
  · rfl
  · split
    · rfl
    · split <;> by_cases e : k' = k <;> simp [State.enqueue, e, setFutOf_tasks]

theorem keyEq_tasks {s s' : State} (e : KeyEq s s') (k : Nat) :
    (s'.locks k).waiters.map (·.task) = (s.locks k).waiters.map (·.task) := by
  have := congrArg (List.map (·.1)) (e.wl k)
  simpa [State.wl, wt, List.map_map, Function.comp_def] using this

/-- `resume i` of a task queued on `k`: who owns `k` afterwards, who is still queued, who runs -/
theorem resume_queued_spec (s : State) {i k : Nat} (hp : (s.tasks i).pos = .acq k) :
    ((s.doResume i).locks k).owner = (if resumeExc (s.tasks i) then (s.locks k).owner else some i) ∧
    ((s.doResume i).locks k).waiters.map (·.task) = (removeTask (s.locks k).waiters i).map (·.task) ∧
    (s.doResume i).cur = some i := by
  simp only [State.doResume, hp]
  by_cases hx : resumeExc (s.tasks i) = true
  · simp only [hx, if_true]
    split
    · split
      · refine ⟨?_, ?_, ?_⟩
        · rw [(propT_keyEq _ _ _).owner]; simp
        · rw [keyEq_tasks (propT_keyEq _ _ _)]; simp
        · rw [(propT_keyEq _ _ _).cur]; rfl
      · simp
    · refine ⟨?_, ?_, ?_⟩
      · rw [wakeUpFirst_owner]; simp
      · rw [wakeUpFirst_tasks]; simp
      · rw [wakeUpFirst_cur]; rfl
  · simp only [hx]
    simp [State.takeLock]

theorem removeTask_tasks_sub (ws : List Waiter) (i : Nat) :
    ∀ t ∈ (removeTask ws i).map (·.task), t ∈ ws.map (·.task) := by
  intro t ht
  obtain ⟨w, hw, e⟩ := List.mem_map.mp ht
  exact List.mem_map.mpr ⟨w, (List.mem_filter.mp hw).1, e⟩

theorem resume_queue_shrinks {s : State} (h : Inv s) {i k : Nat} (hp : (s.tasks i).pos = .acq k) :
    ((s.doResume i).locks k).waiters.length < (s.locks k).waiters.length := by
  obtain ⟨p, hp', e⟩ := (h.linv k).queued i hp
  obtain ⟨w, hw, e'⟩ := List.mem_map.mp hp'
  have hwi : w.task = i := by rw [← e, ← e']; rfl
  have hlt : (removeTask (s.locks k).waiters i).length < (s.locks k).waiters.length := by
    unfold removeTask
    apply List.length_filter_lt_length_iff_exists.mpr
    exact ⟨w, hw, by simp [hwi]⟩
  have := congrArg List.length (resume_queued_spec s hp).2.1
  simp only [List.length_map] at this
  omega

/-! ### drain runs -/

/-- One step of the drain phase of lock `k`: a task queued on `k` whose handle is in the ready queue
    runs (it takes the lock, or - cancelled / interrupted earlier - gives up) and then yields
    (`sleep`) or finishes.  No cancel / throw / interrupt happens. -/
def DrainStep (k : Nat) (s s' : State) : Prop :=
  ∃ i e, (s.tasks i).pos = .acq k ∧ (Ev.resume i).enabled s = true ∧ (e = Ev.sleep ∨ e = Ev.finish) ∧
    e.enabled (s.apply (.resume i)) = true ∧ s' = (s.apply (.resume i)).apply e

/-- runs of drain steps, indexed by their length -/
inductive DrainRun (k : Nat) : State → State → Nat → Prop
  | nil (s) : DrainRun k s s 0
  | cons {s s1 s2 n} : DrainStep k s s1 → DrainRun k s1 s2 n → DrainRun k s s2 (n + 1)

theorem yield_locks (S : State) (e : Ev) (he : e = Ev.sleep ∨ e = Ev.finish) :
    (S.apply e).locks = S.locks := by
  rcases he with rfl | rfl <;> simp only [State.apply] <;> split <;> rfl

theorem yield_cur (S : State) (e : Ev) (he : e = Ev.sleep ∨ e = Ev.finish) (hc : S.cur.isSome = true) :
    (S.apply e).cur = none := by
  cases h : S.cur with
  | none => simp [h] at hc
  | some i => rcases he with rfl | rfl <;> simp [State.apply, h]

theorem drainStep_spec {k : Nat} {s s' : State} (h : Reachable s) (d : DrainStep k s s') :
    Reachable s' ∧ s'.cur = none ∧ (s'.locks k).waiters.length < (s.locks k).waiters.length ∧
    (∀ t ∈ (s'.locks k).waiters.map (·.task), t ∈ (s.locks k).waiters.map (·.task)) ∧
    ((s'.locks k).owner = (s.locks k).owner ∨
      ∃ t ∈ (s.locks k).waiters.map (·.task), (s'.locks k).owner = some t) := by
  obtain ⟨i, e, hp, hen, he, hen2, rfl⟩ := d
  have hr1 : Reachable (s.apply (.resume i)) := Reachable.step _ h hen
  have hI := reachable_inv h
  have spec := resume_queued_spec s hp
  refine ⟨Reachable.step _ hr1 hen2, ?_, ?_, ?_, ?_⟩
  · apply yield_cur _ _ he
    show (s.doResume i).cur.isSome = true
    rw [spec.2.2]; rfl
  · rw [yield_locks _ _ he]; exact resume_queue_shrinks hI hp
  · rw [yield_locks _ _ he]
    intro t ht
    show t ∈ _
    have : t ∈ ((s.doResume i).locks k).waiters.map (·.task) := ht
    rw [spec.2.1] at this
    exact removeTask_tasks_sub _ _ t this
  · rw [yield_locks _ _ he]
    show ((s.doResume i).locks k).owner = _ ∨ _
    rw [spec.1]
    by_cases hx : resumeExc (s.tasks i) = true
    · left; simp [hx]
    · right
      obtain ⟨p, hp', e1⟩ := (hI.linv k).queued i hp
      obtain ⟨w, hw, e'⟩ := List.mem_map.mp hp'
      exact ⟨i, List.mem_map.mpr ⟨w, hw, by rw [← e1, ← e']; rfl⟩,
        by show ((s.doResume i).locks k).owner = some i; rw [spec.1, if_neg hx]⟩

/-- every drain run is finite, bounded by the length of the queue it started with -/
theorem drainRun_spec {k : Nat} {s s' : State} {n : Nat} (h : Reachable s) (r : DrainRun k s s' n) :
    Reachable s' ∧ n + (s'.locks k).waiters.length ≤ (s.locks k).waiters.length ∧
    (0 < n → s'.cur = none) ∧
    (∀ t ∈ (s'.locks k).waiters.map (·.task), t ∈ (s.locks k).waiters.map (·.task)) ∧
    ((s'.locks k).owner = (s.locks k).owner ∨
      ∃ t ∈ (s.locks k).waiters.map (·.task), (s'.locks k).owner = some t) := by
  induction r with
  | nil s => exact ⟨h, by omega, fun x => absurd x (Nat.lt_irrefl 0), fun _ x => x, Or.inl rfl⟩
  | @cons s s1 s2 n d r ih =>
    obtain ⟨hr1, hc1, hlt, hsub, hown⟩ := drainStep_spec h d
    obtain ⟨hr2, hle, hc2, hsub2, hown2⟩ := ih hr1
    refine ⟨hr2, by omega, fun _ => ?_, fun t ht => hsub t (hsub2 t ht), ?_⟩
    · cases n with
      | zero => cases r; exact hc1
      | succ m => exact hc2 (Nat.succ_pos m)
    · rcases hown2 with e | ⟨t, ht, e⟩
      · rcases hown with e' | ⟨t', ht', e'⟩
        · left; rw [e, e']
        · right; exact ⟨t', ht', by rw [e, e']⟩
      · right; exact ⟨t, hsub t ht, e⟩

/-- a drain step is possible whenever the lock is free with waiters and no task is running -/
theorem drainStep_exists {k : Nat} {s : State} (h : Reachable s) (hc : s.cur = none)
    (hfree : (s.locks k).locked = false) (hq : (s.locks k).waiters ≠ []) : ∃ s', DrainStep k s s' := by
  have hI := reachable_inv h
  have hne : s.wl k ≠ [] := by simpa [State.wl] using hq
  obtain ⟨p, hp, hd⟩ := (hI.linv k).wif hfree hne
  have hok := (hI.linv k).wok p hp
  have hen : (Ev.resume p.1).enabled s = true := by
    simp only [Ev.enabled, hc, Option.isNone_none, Bool.true_and]
    cases hs : (s.tasks p.1).status with
    | blocked =>
      have h2 := hok.2; rw [hs] at h2; simp only [WOK] at h2
      rcases hd with hd | hd
      · rw [h2] at hd; simp [Fut.done] at hd
      · rw [hs] at hd; cases hd
    | woken c => rfl
    | ready x => rfl
    | running => have h2 := hok.2; rw [hs] at h2; simp [WOK] at h2
    | done => have h2 := hok.2; rw [hs] at h2; simp [WOK] at h2
  refine ⟨_, p.1, Ev.sleep, hok.1, hen, Or.inl rfl, ?_, rfl⟩
  simp only [Ev.enabled]
  show (s.doResume p.1).cur.isSome = true
  rw [(resume_queued_spec s hok.1).2.2]; rfl

end Asynkit.Lock
