/-
Helper lemmas for C06: what one activation of the Monitor relay does to the coroutine whose body
is `asGoi ub`, expressed by the user body's own step.
-/
import Asynkit.Model.AsyncGen
import Asynkit.Lemmas.C07

namespace Asynkit.AsyncGen
open Asynkit.Proto (Val Exc Resume)
open Asynkit.Monitor

/-- PEP 479 at the coroutine boundary -/
def pep479 : Exc → Exc
  | .stopIter _ => .runtime Proto.rtRaisedStopIter
  | e => e

/-- the relay's answer to one step of the user body (monitor idle before / 1 during) -/
def relayOf {ub : UB} (env : Env) (first : Bool) : UStep ub.σ → CSt ub.σ × Env × CallOut
  | .yieldVal v s' => (.susp s', env.set 0 0, .raised (.oobData v))
  | .await y s' => (.susp s', env.set 0 1, .pending (.plain y))
  | .ret s' => (.done s', env.set 0 0, .returned 0)
  | .raise e s' => (.done s', env.set 0 0, .raised (match first, e with
      | true, .oobData _ => .runtime rtRaisedOOB
      | _, e => pep479 e))

/-- read a (coroutine state, cells, outcome) triple as the state of the GOI's monitor system -/
def toSys (ub : UB) (t : CSt ub.σ × Env × CallOut) : Sys (ofM (asGoi ub)) × CallOut :=
  (⟨t.1, t.2.1⟩, t.2.2)

theorem ideal_asGoi (ub : UB) (s : ub.σ) (r : Resume) (env : Env) (first : Bool) :
    present (asGoi ub) 0 first (idealAfter (resolveI 0 ((asGoi ub).resume s r) env))
      = toSys ub (relayOf env first (ub.resume s r)) := by
  simp only [asGoi]
  cases h : ub.resume s r with
  | yieldVal v s' => simp [resolveI, idealAfter, present, relayOf, toSys] <;> rfl
  | await y s' => simp [resolveI, idealAfter, present, relayOf, toSys] <;> rfl
  | ret s' => simp [resolveI, idealAfter, present, relayOf, toSys] <;> rfl
  | raise e s' => cases e <;> cases first <;> simp [resolveI, idealAfter, present, relayOf, pep479, toSys] <;> rfl

theorem start_susp (ub : UB) (s : ub.σ) (r : Resume) (env : Env) (h0 : env 0 = 0) :
    asendStart 0 r (⟨.susp s, env⟩ : Sys (ofM (asGoi ub))) = toSys ub (relayOf env true (ub.resume s r)) := by
  refine (asendStart_ideal (asGoi ub) 0 r (.susp s) env h0).trans ?_
  simp only [idealResume]
  exact ideal_asGoi ub s r env true

theorem start_created (ub : UB) (s : ub.σ) (env : Env) (h0 : env 0 = 0) :
    asendStart 0 (.send 0) (⟨.created s, env⟩ : Sys (ofM (asGoi ub)))
      = toSys ub (relayOf env true (ub.resume s (.send 0))) := by
  refine (asendStart_ideal (asGoi ub) 0 (.send 0) (.created s) env h0).trans ?_
  simp only [idealResume, ne_eq, not_true_eq_false, ↓reduceIte]
  exact ideal_asGoi ub s (.send 0) env true

theorem resume_susp (ub : UB) (s : ub.σ) (r : Resume) (hr : r ≠ .throw .genExit) (env : Env)
    (h1 : env 0 = 1) :
    asendResume 0 r (⟨.susp s, env⟩ : Sys (ofM (asGoi ub))) = toSys ub (relayOf env false (ub.resume s r)) := by
  have henv : env = env.set 0 1 := (Env.set_eq_self env 0 1 h1).symm
  have := asendResume_ideal (asGoi ub) 0 r hr (.susp s) env
  rw [← henv] at this
  refine this.trans ?_
  simp only [idealResume]
  exact ideal_asGoi ub s r env false

end Asynkit.AsyncGen
