/-
The pop order of a reference list (`order`), its uniqueness, and how it changes under the
reference operations.  Generic in the priority type.
-/
import Asynkit.Lemmas.PQ

namespace Asynkit
variable {α : Type} {lt : α → α → Bool}

/-- two sorted lists with the same elements are equal when incomparable elements are equal -/
theorem sorted_perm_unique (hirr : ∀ a, lt a a = false) : ∀ (l1 l2 : List α), Sorted lt l1 → Sorted lt l2 →
    l1.Perm l2 → (∀ a ∈ l1, ∀ b ∈ l1, lt a b = false → lt b a = false → a = b) → l1 = l2
  | [], l2, _, _, hp, _ => by simpa using hp.symm.eq_nil.symm
  | a :: t1, [], _, _, hp, _ => by simpa using hp.eq_nil
  | a :: t1, b :: t2, h1, h2, hp, htot => by
    have h1' := List.pairwise_cons.mp h1
    have h2' := List.pairwise_cons.mp h2
    have hb : b ∈ a :: t1 := hp.symm.subset (by simp)
    have ha : a ∈ b :: t2 := hp.subset (by simp)
    have hba : lt b a = false := by
      rcases List.mem_cons.mp hb with h | h
      · rw [h]; exact hirr a
      · exact h1'.1 b h
    have hab : lt a b = false := by
      rcases List.mem_cons.mp ha with h | h
      · rw [h]; exact hirr b
      · exact h2'.1 a h
    have hEq : a = b := htot a (by simp) b hb hab hba
    subst hEq
    have ht := sorted_perm_unique hirr t1 t2 h1'.2 h2'.2 (List.Perm.cons_inv hp)
      (fun x hx y hy => htot x (by simp [hx]) y (by simp [hy]))
    rw [ht]

variable {π : Type} {plt : π → π → Bool} {H : HeapLib (Entry π)}

/-- the pop order of a specification list: its `Entry.lt`-sorted permutation -/
def order (plt : π → π → Bool) (L : List (Entry π)) : List (Entry π) := Srt.sort (Entry.lt plt) L

theorem order_perm (L : List (Entry π)) : (order plt L).Perm L := srtSort_perm L

theorem order_sorted (hs : StrictWeak plt) (L : List (Entry π)) : Sorted (Entry.lt plt) (order plt L) :=
  srtSort_sorted (entryLt_strictWeak hs) L

/-- any sorted arrangement of the live entries *is* the pop order -/
theorem order_unique (hs : StrictWeak plt) {L l : List (Entry π)}
    (hinc : L.Pairwise (fun a b => a.seq < b.seq)) (hsorted : Sorted (Entry.lt plt) l)
    (hperm : l.Perm L) : l = order plt L := by
  apply sorted_perm_unique (entryLt_strictWeak hs).irrefl l _ hsorted (order_sorted hs L)
    (hperm.trans (order_perm L).symm)
  intro a ha b hb h1 h2
  exact inc_inj hinc a (hperm.subset ha) b (hperm.subset hb) (Entry.lt_total h1 h2)

/-- putting an entry back in front of the list it was filtered out of -/
theorem cons_filter_perm {L : List (Entry π)} (hinc : L.Pairwise (fun a b => a.seq < b.seq))
    {e : Entry π} (he : e ∈ L) : (e :: L.filter (fun y => y.seq != e.seq)).Perm L := by
  induction L with
  | nil => cases he
  | cons a t ih =>
    have hc := List.pairwise_cons.mp hinc
    rcases List.mem_cons.mp he with rfl | het
    · have : t.filter (fun y => y.seq != e.seq) = t := by
        apply List.filter_eq_self.mpr
        intro y hy
        have := hc.1 y hy
        simp; omega
      simp [this]
    · have hne : a.seq ≠ e.seq := by have := hc.1 e het; omega
      have : (a :: t).filter (fun y => y.seq != e.seq) = a :: t.filter (fun y => y.seq != e.seq) := by
        simp [hne]
      rw [this]
      exact (List.Perm.swap a e _).trans (List.Perm.cons a (ih hc.2 het))

/-- the minimum comes first in the pop order and the rest is the pop order of the rest -/
theorem order_cons_min (hs : StrictWeak plt) {L : List (Entry π)}
    (hinc : L.Pairwise (fun a b => a.seq < b.seq)) {e : Entry π} (he : e ∈ L)
    (hmin : ∀ x ∈ L, Entry.lt plt x e = false) :
    order plt L = e :: order plt (L.filter (fun y => y.seq != e.seq)) := by
  symm
  apply order_unique hs hinc
  · refine List.pairwise_cons.mpr ⟨?_, order_sorted hs _⟩
    intro x hx
    exact hmin x (List.mem_filter.mp ((order_perm _).subset hx)).1
  · exact (List.Perm.cons e (order_perm _)).trans (cons_filter_perm hinc he)

/-- draining the implementation yields the pop order of the reference list -/
theorem drain_eq_order (hs : StrictWeak plt) (hl : H.Lawful (Entry.lt plt)) :
    ∀ (n : Nat) {s : PQ π} {L : List (Entry π)}, PQ.R plt s L → L.length ≤ n →
      PQ.drain H plt n s = order plt L
  | 0, s, L, h, hn => by
    have : L = [] := by cases L <;> simp_all
    subst this; simp [PQ.drain, order, Srt.sort]
  | n + 1, s, L, h, hn => by
    rcases h.pop hs hl with ⟨rfl, hnone⟩ | ⟨e, s', hp, he, hmin, hr⟩
    · simp [PQ.drain, hnone, order, Srt.sort]
    · simp only [PQ.drain, hp]
      have hlen : (L.filter (fun y => y.seq != e.seq)).length ≤ n := by
        have := (cons_filter_perm h.inc he).length_eq
        simp only [List.length_cons] at this; omega
      rw [drain_eq_order hs hl n hr hlen, order_cons_min hs h.inc he hmin]

/-- appending an entry that nothing present is above: it is popped last -/
theorem order_append_max (hs : StrictWeak plt) {L : List (Entry π)} {e : Entry π}
    (hinc : (L ++ [e]).Pairwise (fun a b => a.seq < b.seq))
    (hmax : ∀ x ∈ L, Entry.lt plt e x = false) :
    order plt (L ++ [e]) = order plt L ++ [e] := by
  symm
  apply order_unique hs hinc
  · unfold Sorted
    rw [List.pairwise_append]
    refine ⟨order_sorted hs L, by simp, ?_⟩
    intro a ha b hb
    simp at hb; subst hb
    exact hmax a ((order_perm L).subset ha)
  · exact List.Perm.append_right _ (order_perm L)

/-- prepending a block that is sorted and strictly below everything present -/
theorem order_append_front (hs : StrictWeak plt) {L N : List (Entry π)}
    (hinc : (L ++ N).Pairwise (fun a b => a.seq < b.seq))
    (hN : Sorted (Entry.lt plt) N)
    (hbelow : ∀ n ∈ N, ∀ y ∈ L, Entry.lt plt y n = false) :
    order plt (L ++ N) = N ++ order plt L := by
  symm
  apply order_unique hs hinc
  · unfold Sorted
    rw [List.pairwise_append]
    refine ⟨hN, order_sorted hs L, ?_⟩
    intro a ha b hb
    exact hbelow a ha b ((order_perm L).subset hb)
  · exact (List.Perm.append_left N (order_perm L)).trans List.perm_append_comm

/-- appending a fresh entry (largest arrival stamp): it goes behind every entry whose priority is
    not larger — "by priority, then arrival" -/
theorem order_append (hs : StrictWeak plt) {L : List (Entry π)} {e : Entry π}
    (hinc : (L ++ [e]).Pairwise (fun a b => a.seq < b.seq)) :
    order plt (L ++ [e]) = Srt.insert (Entry.lt plt) e (order plt L) := by
  symm
  apply order_unique hs hinc
  · exact srtInsert_sorted (entryLt_strictWeak hs) e (order_sorted hs L)
  · exact (srtInsert_perm e _).trans ((List.Perm.cons e (order_perm L)).trans
      (List.perm_append_singleton e L).symm)

/-- removing entries commutes with taking the pop order -/
theorem order_filter (hs : StrictWeak plt) {L : List (Entry π)}
    (hinc : L.Pairwise (fun a b => a.seq < b.seq)) (p : Entry π → Bool) :
    order plt (L.filter p) = (order plt L).filter p := by
  symm
  apply order_unique hs (inc_filter hinc p)
  · exact (order_sorted hs L).sublist List.filter_sublist
  · exact (order_perm L).filter p

end Asynkit
