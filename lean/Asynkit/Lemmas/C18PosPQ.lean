/-
`PrioritySchedulingMixin.call_pos` on the priority loops is a compound of three locked
`PosPriorityQueue` operations (`append h`, `remove h`, `insert position h`); a foreign thread's
`call_soon_threadsafe` (`append f`) may land between any two of them.  Helper lemmas for
`C18.callPos_priority_linearizable`: wherever it lands, the pop order is the one of running the
foreign append entirely before `call_pos`.

Everything is on the container model with boosting disabled (`factor = 0`), for every lawful heap
library.  The three runs give the foreign entry different arrival stamps and `inserted_at` values;
what they agree on is the pop order as a list of objects (`PosPQ.objs`), which is the observable.
-/
import Asynkit.Lemmas.PosPQ
import Asynkit.Model.PosPQStep

namespace Asynkit
variable {H : HeapLib (Entry PV)}

/-! ### the pop order only looks at class, effective priority and relative arrival -/

theorem Entry.lt_newer_congr {e e' y : Entry PV} (hc : e.pri.cls = e'.pri.cls)
    (hb : e.pri.base = e'.pri.base) (hbo : e.pri.boost = e'.pri.boost)
    (h1 : y.seq < e.seq) (h2 : y.seq < e'.seq) :
    Entry.lt PV.lt e y = Entry.lt PV.lt e' y := by
  have d1 : decide (e.seq < y.seq) = false := by simp; omega
  have d2 : decide (e'.seq < y.seq) = false := by simp; omega
  obtain ⟨⟨b, ia, bo, c⟩, sq, o⟩ := e
  obtain ⟨⟨b', ia', bo', c'⟩, sq', o'⟩ := e'
  simp only at hc hb hbo d1 d2
  subst hc hb hbo
  simp only [Entry.lt, d1, d2]
  rfl

theorem srtInsert_obj_congr {e e' : Entry PV} (ho : e.obj = e'.obj) (hc : e.pri.cls = e'.pri.cls)
    (hb : e.pri.base = e'.pri.base) (hbo : e.pri.boost = e'.pri.boost) :
    ∀ M : List (Entry PV), (∀ y ∈ M, y.seq < e.seq) → (∀ y ∈ M, y.seq < e'.seq) →
      (Srt.insert (Entry.lt PV.lt) e M).map (·.obj) = (Srt.insert (Entry.lt PV.lt) e' M).map (·.obj)
  | [], _, _ => by simp [Srt.insert, ho]
  | y :: ys, h1, h2 => by
    have hy := Entry.lt_newer_congr hc hb hbo (h1 y (by simp)) (h2 y (by simp))
    have ih := srtInsert_obj_congr ho hc hb hbo ys (fun z hz => h1 z (by simp [hz]))
      (fun z hz => h2 z (by simp [hz]))
    simp only [Srt.insert, hy]
    split
    · simp [ho]
    · simp [ih]

theorem inc_append_last {L : List (Entry PV)} {e : Entry PV}
    (hinc : (L ++ [e]).Pairwise (fun a b => a.seq < b.seq)) : ∀ y ∈ L, y.seq < e.seq := by
  intro y hy
  exact (List.pairwise_append.mp hinc).2.2 y hy e (by simp)

/-- appending an entry for the same object with an equivalent priority value gives the same pop
    order of objects, whatever arrival stamp (and `inserted_at`) it received -/
theorem objs_append_congr {L : List (Entry PV)} {e e' : Entry PV}
    (hinc : (L ++ [e]).Pairwise (fun a b => a.seq < b.seq))
    (hinc' : (L ++ [e']).Pairwise (fun a b => a.seq < b.seq))
    (ho : e.obj = e'.obj) (hc : e.pri.cls = e'.pri.cls)
    (hb : e.pri.base = e'.pri.base) (hbo : e.pri.boost = e'.pri.boost) :
    PosPQ.objs (L ++ [e]) = PosPQ.objs (L ++ [e']) := by
  simp only [PosPQ.objs, order_append pv_strictWeak hinc, order_append pv_strictWeak hinc']
  apply srtInsert_obj_congr ho hc hb hbo
  · intro y hy; exact inc_append_last hinc y ((order_perm L).subset hy)
  · intro y hy; exact inc_append_last hinc' y ((order_perm L).subset hy)

/-! ### erasing the entry that was appended last / last but one -/

theorem filter_append_last {L : List (Entry PV)} {e : Entry PV}
    (hinc : (L ++ [e]).Pairwise (fun a b => a.seq < b.seq)) :
    (L ++ [e]).filter (fun y => y.seq != e.seq) = L := by
  have hL : L.filter (fun y => y.seq != e.seq) = L := by
    apply List.filter_eq_self.mpr
    intro y hy
    have := inc_append_last hinc y hy
    simp; omega
  simp [List.filter_append, hL]

theorem filter_append_mid {L : List (Entry PV)} {e g : Entry PV}
    (hinc : (L ++ [e] ++ [g]).Pairwise (fun a b => a.seq < b.seq)) :
    (L ++ [e] ++ [g]).filter (fun y => y.seq != e.seq) = L ++ [g] := by
  have h1 := inc_append_last hinc e (by simp)
  have hne : (g.seq != e.seq) = true := by simp; omega
  rw [List.filter_append, filter_append_last (List.pairwise_append.mp hinc).1]
  simp [hne]

/-- `remove h` when exactly one live entry carries `h`: that entry goes, no `ValueError` -/
theorem PosPQ.RP.remove_obj (hl : H.Lawful (Entry.lt PV.lt)) {s : PosPQ} {L : List (Entry PV)}
    (hr : PosPQ.RP s L) (h : Nat) (draw : Nat → Rat) {e : Entry PV} (he : e ∈ L) (ho : e.obj = h)
    (huniq : ∀ y ∈ L, y.obj = h → y = e) :
    ∃ s', s.remove H h draw = some s' ∧ PosPQ.RP s' (L.filter (fun y => y.seq != e.seq)) ∧
      s'.factor = s.factor := by
  have := hr.remove hl h draw
  cases hrem : s.remove H h draw with
  | none => rw [hrem] at this; exact absurd ho (this e he)
  | some s' =>
    rw [hrem] at this
    obtain ⟨e2, he2, ho2, hr2, hf2⟩ := this
    rw [huniq e2 he2 ho2] at hr2
    exact ⟨s', rfl, hr2, hf2⟩

/-! ### the three prefixes of `call_pos` with a foreign append before the `insert` -/

/-- the state before the final `insert`: the live entries are those of `L` plus one regular
    (class 1, unboosted) entry for the foreign object `f` with priority `pf` -/
def ForeignIn (L : List (Entry PV)) (f : Nat) (pf : Rat) (t : PosPQ) : Prop :=
  ∃ g : Entry PV, g.obj = f ∧ g.pri.cls = 1 ∧ g.pri.base = pf ∧ g.pri.boost = 0 ∧
    PosPQ.RP t (L ++ [g]) ∧ t.factor = 0

variable {s : PosPQ} {L : List (Entry PV)}

/-- foreign append first: `append f; append h; remove h` -/
theorem callPos_prefix_first (hl : H.Lawful (Entry.lt PV.lt)) (hr : PosPQ.RP s L)
    (h0 : s.factor = 0) (draw : Nat → Rat) (h f : Nat) (ph pf : Rat)
    (hh : ∀ y ∈ L, y.obj ≠ h) (hfh : f ≠ h) :
    ∃ t, ((s.appendPri H f pf draw).appendPri H h ph draw).remove H h draw = some t ∧
      ForeignIn L f pf t := by
  obtain ⟨r1, _, f1⟩ := hr.appendPri hl h0 f pf draw
  obtain ⟨r2, _, f2⟩ := r1.appendPri hl f1 h ph draw
  obtain ⟨t, ht, r3, f3⟩ := r2.remove_obj hl h draw
    (e := ⟨{ base := ph, insertedAt := (s.appendPri H f pf draw).nIns },
      (s.appendPri H f pf draw).q.seq, h⟩) (by simp) rfl (by
    intro y hy hyo
    simp only [List.mem_append, List.mem_singleton] at hy
    rcases hy with (hy | rfl) | rfl
    · exact absurd hyo (hh y hy)
    · exact absurd hyo hfh
    · rfl)
  rw [filter_append_last r2.r.inc] at r3
  exact ⟨t, ht, _, rfl, rfl, rfl, rfl, r3, by rw [f3]; exact f2⟩

/-- foreign append between `append h` and `remove h` -/
theorem callPos_prefix_second (hl : H.Lawful (Entry.lt PV.lt)) (hr : PosPQ.RP s L)
    (h0 : s.factor = 0) (draw : Nat → Rat) (h f : Nat) (ph pf : Rat)
    (hh : ∀ y ∈ L, y.obj ≠ h) (hfh : f ≠ h) :
    ∃ t, ((s.appendPri H h ph draw).appendPri H f pf draw).remove H h draw = some t ∧
      ForeignIn L f pf t := by
  obtain ⟨r1, _, f1⟩ := hr.appendPri hl h0 h ph draw
  obtain ⟨r2, _, f2⟩ := r1.appendPri hl f1 f pf draw
  obtain ⟨t, ht, r3, f3⟩ := r2.remove_obj hl h draw
    (e := ⟨{ base := ph, insertedAt := s.nIns }, s.q.seq, h⟩) (by simp) rfl (by
    intro y hy hyo
    simp only [List.mem_append, List.mem_singleton] at hy
    rcases hy with (hy | rfl) | rfl
    · exact absurd hyo (hh y hy)
    · rfl
    · exact absurd hyo hfh)
  rw [filter_append_mid r2.r.inc] at r3
  exact ⟨t, ht, _, rfl, rfl, rfl, rfl, r3, by rw [f3]; exact f2⟩

/-- `append h; remove h` restores a state related to the same reference list -/
theorem callPos_prefix_undo (hl : H.Lawful (Entry.lt PV.lt)) (hr : PosPQ.RP s L)
    (h0 : s.factor = 0) (draw : Nat → Rat) (h : Nat) (ph : Rat) (hh : ∀ y ∈ L, y.obj ≠ h) :
    ∃ t, (s.appendPri H h ph draw).remove H h draw = some t ∧ PosPQ.RP t L ∧ t.factor = 0 := by
  obtain ⟨r1, _, f1⟩ := hr.appendPri hl h0 h ph draw
  obtain ⟨t, ht, r2, f2⟩ := r1.remove_obj hl h draw
    (e := ⟨{ base := ph, insertedAt := s.nIns }, s.q.seq, h⟩) (by simp) rfl (by
    intro y hy hyo
    simp only [List.mem_append, List.mem_singleton] at hy
    rcases hy with hy | rfl
    · exact absurd hyo (hh y hy)
    · rfl)
  rw [filter_append_last r1.r.inc] at r2
  exact ⟨t, ht, r2, by rw [f2]; exact f1⟩

/-- foreign append between `remove h` and `insert` -/
theorem callPos_prefix_third (hl : H.Lawful (Entry.lt PV.lt)) (hr : PosPQ.RP s L)
    (h0 : s.factor = 0) (draw : Nat → Rat) (h f : Nat) (ph pf : Rat)
    (hh : ∀ y ∈ L, y.obj ≠ h) :
    ∃ t, (s.appendPri H h ph draw).remove H h draw = some t ∧
      ForeignIn L f pf (t.appendPri H f pf draw) := by
  obtain ⟨t, ht, r2, f2⟩ := callPos_prefix_undo hl hr h0 draw h ph hh
  obtain ⟨r3, _, f3⟩ := r2.appendPri hl f2 f pf draw
  exact ⟨t, ht, _, rfl, rfl, rfl, rfl, r3, f3⟩

/-- the final `insert position h` from two states that both hold `L` plus the foreign entry:
    same pop order of objects, namely `list.insert(min position (len+1), h)` on the pop order of
    "`L` then `f`" -/
theorem ForeignIn.insert_objs (hl : H.Lawful (Entry.lt PV.lt)) {f : Nat} {pf : Rat} {t : PosPQ}
    (ht : ForeignIn L f pf t) (position h : Nat) (draw : Nat → Rat) (g0 : Entry PV)
    (hg0 : g0.obj = f ∧ g0.pri.cls = 1 ∧ g0.pri.base = pf ∧ g0.pri.boost = 0)
    (hinc0 : (L ++ [g0]).Pairwise (fun a b => a.seq < b.seq)) :
    ∃ L', PosPQ.RP (t.insert H position h draw) L' ∧ (t.insert H position h draw).factor = 0 ∧
      (t.insert H position h draw).iter.1 = PosPQ.objs L' ∧
      PosPQ.objs L' = (PosPQ.objs (L ++ [g0])).insertIdx (min position (L.length + 1)) h := by
  obtain ⟨g, go, gc, gb, gbo, hr, hf⟩ := ht
  obtain ⟨es, L1, N, _, _, _, _, _, _, hr', hobjs, hf'⟩ := hr.insert hl hf position h draw
  refine ⟨L1 ++ N, hr', hf', hr'.iter.2, ?_⟩
  rw [hobjs, objs_append_congr hr.r.inc hinc0 (go.trans hg0.1.symm) (gc.trans hg0.2.1.symm)
    (gb.trans hg0.2.2.1.symm) (gbo.trans hg0.2.2.2.symm)]
  simp

end Asynkit
