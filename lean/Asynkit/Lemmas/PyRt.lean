/-
Lemmas about the Python run-time of generated code (`Model/PyRt.lean`): search loops are `find?`,
`enumerate` / `enumerate(reversed(..))` of a list in terms of `findIdx`.  Used by `GenEqPQ.lean`.
-/

import Asynkit.Model.PyRt
namespace Asynkit.PyRt

theorem forLoop_find {α β γ ρ : Type} (xs : List α) (b : β) (f : α → β → Ctl β γ ρ) (p : α → Bool)
    (h1 : ∀ x ∈ xs, p x = false → f x b = .next b)
    (h2 : ∀ x ∈ xs, p x = true → (f x b).isExit = true) :
    forLoop xs b f = match xs.find? p with | none => .next b | some x => f x b := by
  induction xs with
  | nil => rfl
  | cons x xs ih =>
    by_cases hp : p x = true
    · have := h2 x (by simp) hp
      simp only [forLoop, List.find?_cons, hp]
      cases hf : f x b <;> simp_all [Ctl.isExit]
    · have hp' : p x = false := by simpa using hp
      have := h1 x (by simp) hp'
      simp only [forLoop, List.find?_cons, hp', this]
      exact ih (fun y hy => h1 y (by simp [hy])) (fun y hy => h2 y (by simp [hy]))

theorem find?_zipIdx {α : Type} (xs : List α) (p : α → Bool) (k : Nat) :
    (xs.zipIdx k).find? (fun it => p it.1) =
      if h : xs.findIdx p < xs.length then some (xs[xs.findIdx p], k + xs.findIdx p) else none := by
  induction xs generalizing k with
  | nil => simp
  | cons x xs ih =>
    simp only [List.zipIdx_cons, List.find?_cons, List.findIdx_cons]
    by_cases hp : p x = true
    · simp [hp]
    · have hp' : p x = false := by simpa using hp
      simp only [hp', ih, cond_false, List.length_cons, Nat.add_lt_add_iff_right]
      split <;> simp <;> omega

theorem find?_enum {α : Type} (l : List α) (q : α → Bool) :
    (l.zipIdx.zipIdx).find? (fun it => q it.1.1) =
      if h : l.findIdx q < l.length then some ((l[l.findIdx q], l.findIdx q), l.findIdx q) else none := by
  have hm : List.findIdx (fun y : α × Nat => q y.1) l.zipIdx = l.findIdx q := by
    have := List.findIdx_map l.zipIdx Prod.fst q
    rw [List.zipIdx_map_fst] at this
    rw [this]; rfl
  rw [find?_zipIdx (l.zipIdx) (fun y => q y.1) 0]
  simp only [hm, List.length_zipIdx, List.getElem_zipIdx, Nat.zero_add]

theorem find?_revEnum {α : Type} (l : List α) (q : α → Bool) :
    (l.zipIdx.reverse.zipIdx).find? (fun it => q it.1.1) =
      if h : l.reverse.findIdx q < l.length then
        some ((l[l.length - 1 - l.reverse.findIdx q], l.length - 1 - l.reverse.findIdx q), l.reverse.findIdx q)
      else none := by
  have hm : List.findIdx (fun y : α × Nat => q y.1) l.zipIdx.reverse = l.reverse.findIdx q := by
    have := List.findIdx_map l.zipIdx.reverse Prod.fst q
    rw [List.map_reverse, List.zipIdx_map_fst] at this
    rw [this]; rfl
  rw [find?_zipIdx (l.zipIdx.reverse) (fun y => q y.1) 0]
  simp only [hm, List.length_reverse, List.length_zipIdx, List.getElem_reverse, List.getElem_zipIdx, Nat.zero_add]

/-- the search loop over `enumerate(l)`, without dependent indexing: either the model's
    `findIdx` is in range, the element there satisfies `q` and the loop stops at it, or nothing
    is found -/
theorem find?_enum_spec {α : Type} (l : List α) (q : α → Bool) :
    let j := l.findIdx q
    (j < l.length → ∃ x, l[j]? = some x ∧ q x = true ∧
        (l.zipIdx.zipIdx).find? (fun it => q it.1.1) = some ((x, j), j)) ∧
    (¬ j < l.length → (l.zipIdx.zipIdx).find? (fun it => q it.1.1) = none) := by
  intro j
  rw [find?_enum]
  refine ⟨fun h => ⟨l[j], by simp [h], List.findIdx_getElem (w := h), by simp [j, h]⟩, fun h => by simp [j, h]⟩

/-- the search loop over `enumerate(reversed(l))` -/
theorem find?_revEnum_spec {α : Type} (l : List α) (q : α → Bool) :
    let j := l.reverse.findIdx q
    (j < l.length → ∃ x, l[l.length - j - 1]? = some x ∧ q x = true ∧
        (l.zipIdx.reverse.zipIdx).find? (fun it => q it.1.1) = some ((x, l.length - j - 1), j)) ∧
    (¬ j < l.length → (l.zipIdx.reverse.zipIdx).find? (fun it => q it.1.1) = none) := by
  intro j
  rw [find?_revEnum]
  refine ⟨fun h => ?_, fun h => by simp [j, h]⟩
  have hi : l.length - j - 1 < l.length := by omega
  have hix : l.length - 1 - j = l.length - j - 1 := by omega
  have h' : l.reverse.findIdx q < l.reverse.length := by simpa using h
  have hq := List.findIdx_getElem (w := h')
  rw [List.getElem_reverse] at hq
  refine ⟨l[l.length - j - 1], by simp [hi], ?_, ?_⟩
  · simp only [j] at hix ⊢
    simpa only [hix] using hq
  · simp only [j] at h hix ⊢
    simp only [h, dite_true, hix]

/-- the search loop over `l` itself (elements paired with their index) -/
theorem find?_fwd_spec {α : Type} (l : List α) (q : α → Bool) :
    let j := l.findIdx q
    (j < l.length → ∃ x, l[j]? = some x ∧ q x = true ∧
        (l.zipIdx).find? (fun it => q it.1) = some (x, j)) ∧
    (¬ j < l.length → (l.zipIdx).find? (fun it => q it.1) = none) := by
  intro j
  rw [find?_zipIdx]
  refine ⟨fun h => ⟨l[j], by simp [h], List.findIdx_getElem (w := h), by simp [j, h]⟩, fun h => by simp [j, h]⟩

/-- the search loop over `reversed(l)` -/
theorem find?_rev_spec {α : Type} (l : List α) (q : α → Bool) :
    let j := l.reverse.findIdx q
    (j < l.length → ∃ x, l[l.length - j - 1]? = some x ∧ q x = true ∧
        (l.zipIdx.reverse).find? (fun it => q it.1) = some (x, l.length - j - 1)) ∧
    (¬ j < l.length → (l.zipIdx.reverse).find? (fun it => q it.1) = none) := by
  intro j
  have hm : List.findIdx (fun y : α × Nat => q y.1) l.zipIdx.reverse = l.reverse.findIdx q := by
    have := List.findIdx_map l.zipIdx.reverse Prod.fst q
    rw [List.map_reverse, List.zipIdx_map_fst] at this
    rw [this]; rfl
  rw [List.find?_eq_getElem?_findIdx, hm]
  refine ⟨fun h => ?_, fun h => by simp [j] at h ⊢; omega⟩
  have hi : l.length - j - 1 < l.length := by omega
  have hix : l.length - 1 - j = l.length - j - 1 := by omega
  have h' : l.reverse.findIdx q < l.reverse.length := by simpa using h
  have hq := List.findIdx_getElem (w := h')
  rw [List.getElem_reverse] at hq
  refine ⟨l[l.length - j - 1], by simp [hi], ?_, ?_⟩
  · simp only [j] at hix ⊢
    simpa only [hix] using hq
  · simp only [j] at h hix ⊢
    rw [List.getElem?_eq_getElem (by simpa using h)]
    simp [List.getElem_reverse, hix]

/-- `l[i] = v` with a Python integer that is a valid natural index -/
theorem setItemI_nat {α : Type} (l : List α) (i : Int) (v : α) (h0 : 0 ≤ i) (h : i.toNat < l.length) :
    setItemI l i v = some (l.set i.toNat v) := by
  simp [setItemI, normIndex, h0, h]

theorem getItemI_nat {α : Type} (l : List α) (i : Int) (h0 : 0 ≤ i) :
    getItemI l i = l[i.toNat]? := by
  simp only [getItemI, normIndex, h0, if_true]
  split <;> simp_all
/-- decides every `if` whose condition is integer arithmetic over the facts in the context
    (whatever way the condition is written, whichever branch comes first) -/
macro "decide_ifs" : tactic =>
  `(tactic| simp (disch := omega) only [if_pos, if_neg, decide_eq_true_eq, decide_eq_false_iff_not, bne_iff_ne,
      beq_iff_eq, ne_eq, Bool.not_eq_true', Bool.not_eq_true, Bool.not_eq_false, Bool.not_true, Bool.not_false,
      Bool.false_eq_true, Bool.true_eq_false, if_true, if_false, not_true_eq_false, not_false_eq_true,
      Bool.and_true, Bool.true_and, Bool.or_false, Bool.false_or, Bool.and_eq_true, Bool.or_eq_true,
      and_true, true_and, and_false, false_and, or_true, true_or, or_false, false_or])


/-- `l[i]` for a Python integer known to be the natural number `n` in range -/
theorem getItemI_cast {α : Type} (l : List α) (i : Int) (n : Nat) (h : i = (n : Int)) (hn : n < l.length) :
    getItemI l i = some l[n] := by
  subst h; simp [getItemI, normIndex, hn]

/-- `l[i] = v` for a Python integer known to be the natural number `n` in range -/
theorem setItemI_cast {α : Type} (l : List α) (i : Int) (n : Nat) (v : α) (h : i = (n : Int)) (hn : n < l.length) :
    setItemI l i v = some (l.set n v) := by
  subst h; simp [setItemI, normIndex, hn]

end Asynkit.PyRt
