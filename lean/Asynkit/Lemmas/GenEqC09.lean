/-
C09 — the generated `scheduling.task_is_blocked` / `task_is_runnable` (`Asynkit/Gen/Sched.lean`,
regenerated from /repo/src on every run) are the API functions `Kernel.isBlocked` /
`Kernel.isRunnable` the theorems of Props/C09.lean are about, through the view of a task that the
two Python functions read (`_fut_waiter` and its done-ness, `task.done()`).
-/
import Asynkit.Gen.Sched
import Asynkit.Model.Kernel

namespace Asynkit.GenEqC09
open Asynkit Asynkit.Kernel

/-- what the two Python predicates read of task `t` in state `s` -/
def view (s : State) (t : TaskId) : Gen.TaskView :=
  { futWaiter := (s.tasks t).futWaiter.map (fun f => !decide ((s.futs f).st = .pending))
    done := (s.tasks t).done }

theorem taskIsBlocked_eq (s : State) (t : TaskId) : Gen.taskIsBlocked (view s t) = isBlocked s t := by
  unfold Gen.taskIsBlocked isBlocked view
  cases (s.tasks t).futWaiter <;> simp

theorem taskIsRunnable_eq (s : State) (t : TaskId) : Gen.taskIsRunnable (view s t) = isRunnable s t := by
  unfold Gen.taskIsRunnable isRunnable
  rw [taskIsBlocked_eq]
  rfl

end Asynkit.GenEqC09
