/-
C09 — the generated `scheduling.task_is_blocked` / `task_is_runnable` (`Asynkit/Gen/Sched.lean`,
regenerated from /repo/src on every run) are the API functions `Kernel.isBlocked` /
`Kernel.isRunnable` the theorems of Props/C09.lean are about, through the view of a task that the
two Python functions read (`_fut_waiter` and its done-ness, `task.done()`).
-/
import Asynkit.Gen.Sched
import Asynkit.Gen.SchedOps
import Asynkit.Model.Kernel

namespace Asynkit.GenEqC09
open Asynkit Asynkit.Kernel

/-- what the two Python predicates read of task `t` in state `s` -/
def view (s : State) (t : TaskId) : Gen.TaskView :=
  { futWaiter := (s.tasks t).futWaiter.map (fun f => !decide ((s.futs f).st = .pending))
    done := (s.tasks t).done }

theorem taskIsBlocked_eq (s : State) (t : TaskId) : Gen.taskIsBlocked (view s t) = isBlocked s t := by
  unfold Gen.taskIsBlocked isBlocked view
  cases (s.tasks t).futWaiter <;> simp

theorem taskIsRunnable_eq (s : State) (t : TaskId) : Gen.taskIsRunnable (view s t) = isRunnable s t := by
  unfold Gen.taskIsRunnable isRunnable
  rw [taskIsBlocked_eq]
  cases isBlocked s t <;> cases hd : (s.tasks t).done <;> simp [view, hd]

/-- what `task_from_handle` / `is_task_callback` read of the callback of a kernel handle
    (`py t`: task `t` is a Python task — bound methods `__step` / `__wakeup` of type `method`; else a
    C task — a `TaskStepMethWrapper` instance without `__name__`, the builtin `task_wakeup`); a
    plain callback has no `__self__`; `otherBound t` is another bound method of the task, e.g.
    `task.cancel` -/
def cbView (py : TaskId → Bool) : Handle → Gen.CallbackView
  | .step t _ =>
    { self_ := some (some t), name := if py t then some "__step" else none,
      typeName := if py t then "method" else "TaskStepMethWrapper" }
  | .wakeup t _ =>
    { self_ := some (some t), name := if py t then some "__wakeup" else some "task_wakeup",
      typeName := if py t then "method" else "builtin_function_or_method" }
  | .cb _ => { self_ := none, name := some "cb", typeName := "function" }
  | .otherBound t =>
    { self_ := some (some t), name := some "cancel",
      typeName := if py t then "method" else "builtin_function_or_method" }

/-- the generated `default.task_from_handle` (with the generated `is_task_callback` and
    `TASK_CALLBACK_NAMES`) is `Kernel.taskFromHandle`, for Python and C tasks alike -/
theorem taskFromHandle_eq (py : TaskId → Bool) (h : Handle) :
    Gen.taskFromHandle (cbView py h) = taskFromHandle h := by
  cases h with
  | step t e => cases hp : py t <;> simp [cbView, hp, Gen.taskFromHandle, Gen.isTaskCallback, Gen.taskCallbackNames, taskFromHandle]
  | wakeup t f => cases hp : py t <;> simp [cbView, hp, Gen.taskFromHandle, Gen.isTaskCallback, Gen.taskCallbackNames, taskFromHandle]
  | cb k => simp [cbView, Gen.taskFromHandle, taskFromHandle]
  | otherBound t => cases hp : py t <;> simp [cbView, hp, Gen.taskFromHandle, Gen.isTaskCallback, Gen.taskCallbackNames, taskFromHandle]

end Asynkit.GenEqC09
