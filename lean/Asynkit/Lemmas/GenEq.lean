/-
The tie by translation (DESIGN §3.3): every definition that `translator/py2lean.py` regenerates
from /repo/src on each run is proved equal to the hand-written model definition that the property
theorems are about.  If the code changes, `Asynkit/Gen/*.lean` changes; either these equalities
still prove (harmless rewrite) or this file no longer builds (broken proof obligation).
-/
import Asynkit.Gen.PriEntry
import Asynkit.Gen.Priority

namespace Asynkit.GenEq
open Asynkit

/-- `tools.PriEntry.__lt__` is the model's `Entry.lt` -/
theorem priEntryLt_eq {π : Type} (plt : π → π → Bool) (a b : Entry π) :
    Gen.priEntryLt plt a b = Entry.lt plt a b := by
  simp [Gen.priEntryLt, Entry.lt]

/-- `PriorityValue.priority()` -/
theorem pvPriority_eq (p : PV) : Gen.pvPriority p = p.priority := by
  simp [Gen.pvPriority, PV.priority]

/-- `PriorityValue.__lt__` -/
theorem pvLt_eq (a b : PV) : Gen.pvLt a b = PV.lt a b := by
  simp only [Gen.pvLt, PV.lt, pvPriority_eq]
  by_cases h : a.cls = b.cls <;> simp [h]

/-- `PosPriorityQueue.compute_priority_boost` (`max_pri` is unused by the code) -/
theorem computeBoost_eq (factor priority minPri maxPri r : Rat) :
    Gen.computeBoost ⟨factor⟩ priority minPri maxPri r = PosPQ.computeBoost factor priority minPri r := by
  simp [Gen.computeBoost, PosPQ.computeBoost]

/-- the counters of a model state as `update_counters` sees them -/
def ctrOf (s : PosPQ) : Gen.Ctr := ⟨s.nIns, s.nRem, s.lastMaint, s.len, false⟩

theorem doMaintenance_counters (H : HeapLib (Entry PV)) (s : PosPQ) (draw : Nat → Rat) :
    (PosPQ.doMaintenance H s draw).nIns = s.nIns ∧ (PosPQ.doMaintenance H s draw).nRem = s.nRem ∧
    (PosPQ.doMaintenance H s draw).lastMaint = s.lastMaint := by
  unfold PosPQ.doMaintenance
  by_cases hf : (s.factor == 0) = true
  · simp [hf]
  · simp only [hf, Bool.false_eq_true, if_false]
    cases PosPQ.regularMinMax s.q.pq with
    | none => simp
    | some p =>
      dsimp only
      split <;> simp

/-- `PosPriorityQueue.update_counters`: the model updates the counters exactly as the code does
    and runs maintenance exactly when the code calls `do_maintenance()`. -/
theorem updateCounters_eq (H : HeapLib (Entry PV)) (s : PosPQ) (ins : Bool) (draw : Nat → Rat) :
    let g := Gen.updateCounters (ctrOf s) ins
    let s' := PosPQ.updateCounters H s ins draw
    s'.nIns = g.nIns ∧ s'.nRem = g.nRem ∧ s'.lastMaint = g.lastMaint ∧
    s'.q = (if g.maint then (PosPQ.doMaintenance H { s with nIns := s.nIns + 1 } draw).q else s.q) := by
  cases ins with
  | true =>
    have hc := doMaintenance_counters H { s with nIns := s.nIns + 1 } draw
    simp only [Gen.updateCounters, PosPQ.updateCounters, ctrOf, PosPQ.len, if_true] at hc ⊢
    by_cases h : max 10 s.q.pq.length + s.lastMaint < min (s.nIns + 1) s.nRem
    · simp [h, hc.1, hc.2.1]
    · simp [h]
  | false =>
    simp only [Gen.updateCounters, PosPQ.updateCounters, ctrOf, PosPQ.len, Bool.false_eq_true, if_false]
    by_cases h : s.q.pq.length > 0 <;> simp [h]

end Asynkit.GenEq
