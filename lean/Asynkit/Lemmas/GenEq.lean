/-
The tie by translation (DESIGN §3.3): the definition of `PriEntry.__lt__` that `translator/py2lean.py` regenerates (the other units have their own GenEq files)
from /repo/src on each run is proved equal to the hand-written model definition that the property
theorems are about.  If the code changes, `Asynkit/Gen/*.lean` changes; either these equalities
still prove (harmless rewrite) or this file no longer builds (broken proof obligation).
-/
import Asynkit.Gen.PriEntry

namespace Asynkit.GenEq
open Asynkit

/-- `tools.PriEntry.__lt__` is the model's `Entry.lt` -/
theorem priEntryLt_eq {π : Type} (plt : π → π → Bool) (a b : Entry π) :
    Gen.priEntryLt plt a b = Entry.lt plt a b := by
  -- robust against rewrites of the boolean expression: decide it on the three atoms it reads
  unfold Gen.priEntryLt Entry.lt
  cases plt a.pri b.pri <;> cases plt b.pri a.pri <;> by_cases h : a.seq < b.seq <;> simp [h]

/- `PriorityValue.priority/__lt__`, `compute_priority_boost` and `update_counters` used to be translated by a
   second, expression-level unit and proved here (pvPriority_eq, pvLt_eq, computeBoost_eq, updateCounters_eq).
   They are now part of the statement-level translation of the whole class (`Gen/PosPQ.lean`) and proved in
   `Lemmas/GenEqPosPQ.lean` (priority_eq, lt_eq, compute_priority_boost_eq, update_counters_eq). -/

end Asynkit.GenEq
