/-
Every transition of the Lock model preserves the C13 invariant.
-/
import Asynkit.Lemmas.C13Frame

namespace Asynkit.Lock

/-- frame rule for one lock: the lock itself is untouched; tasks may change as long as ownership,
    "is suspended in acquire(k)" and the waiter/future agreement are kept -/
theorem LInv.frame {s s' : State} {k : Nat} (h : LInv s k)
    (hl : s'.locks k = s.locks k)
    (howns : ∀ i, k ∈ (s'.tasks i).owns ↔ k ∈ (s.tasks i).owns)
    (hpos : ∀ i, (s'.tasks i).pos = .acq k ↔ (s.tasks i).pos = .acq k)
    (hst : ∀ p ∈ s.wl k, WOK (s'.tasks p.1).status p.2 ∧
      ((s.tasks p.1).status = .ready true → (s'.tasks p.1).status = .ready true)) :
    LInv s' k := by
  have hwl : s'.wl k = s.wl k := by simp [State.wl, hl]
  obtain ⟨h1, h2, h3, h4, h5, h6, h7, h8⟩ := h
  constructor
  · rw [hl]; exact h1
  · intro i; rw [hl, howns i]; exact h2 i
  · intro p hp; rw [hwl] at hp
    exact ⟨(hpos p.1).mpr (h3 p hp).1, (hst p hp).1⟩
  · intro i hi; rw [hwl]; exact h4 i ((hpos i).mp hi)
  · rw [hwl]; exact h5
  · rw [hwl]; exact h6
  · rw [hwl, hl]; exact h7
  · rw [hwl, hl]; intro a b
    obtain ⟨p, hp, hq⟩ := h8 a b
    refine ⟨p, hp, ?_⟩
    cases hq with
    | inl hq => exact Or.inl hq
    | inr hq => exact Or.inr ((hst p hp).2 hq)

/-- a task that is not suspended in `acquire` is in no waiter queue -/
theorem Inv.not_queued {s : State} (h : Inv s) {i k : Nat} (hp : (s.tasks i).pos ≠ .acq k) :
    ∀ p ∈ s.wl k, p.1 ≠ i := by
  intro p hp' e
  have := ((h.linv k).wok p hp').1
  rw [e] at this
  exact hp this

end Asynkit.Lock

namespace Asynkit.Lock

/-- the running task suspends (sleep, Event.wait) or finishes -/
theorem Inv.suspend {s : State} (h : Inv s) {i : Nat} (hc : s.cur = some i)
    (st : Status) (ps : Pos) (r : Option Rat)
    (hst : st ≠ .running) (hps : ∀ k, ps ≠ .acq k)
    (hdone : st = .done → (s.tasks i).owns = [] ∧ ps = .top) :
    Inv { s.setTask i { s.tasks i with status := st, pos := ps, rkey := r } with cur := none } := by
  have hrun : (s.tasks i).status = .running := (h.curRunning i).mp hc
  have htop : (s.tasks i).pos = .top := h.runningTop i hrun
  constructor
  · intro k
    apply (h.linv k).frame
    · rfl
    · intro j; by_cases e : j = i <;> simp [e]
    · intro j; by_cases e : j = i
      · subst e; simp [htop, hps]
      · simp [e]
    · intro p hp
      have hne : p.1 ≠ i := h.not_queued (by rw [htop]; simp) p hp
      simp [hne]
      exact ((h.linv k).wok p hp).2
  · intro j
    by_cases e : j = i
    · subst e; simp [hst]
    · simp [e]
      intro hj
      have := (h.curRunning j).mpr hj
      rw [hc] at this; injection this with this; exact e this.symm
  · intro j; by_cases e : j = i
    · subst e; simp [hst]
    · simp [e]; exact h.runningTop j
  · intro j; by_cases e : j = i
    · subst e; simp; exact hdone
    · simp [e]; exact h.doneClean j
  · intro j; by_cases e : j = i
    · subst e; simp; exact h.holdingOwns j
    · simp [e]; exact h.holdingOwns j
  · intro j; by_cases e : j = i
    · subst e; simp; exact h.ownsNodup j
    · simp [e]; exact h.ownsNodup j
  · intro j k; by_cases e : j = i
    · subst e; simp [hps]
      have := (h.waitingPos j k)
      rw [htop] at this; simpa using this
    · simp [e]; exact h.waitingPos j k
  · intro j k; by_cases e : j = i
    · subst e; simp [hps]
    · simp [e]; exact h.waitNotOwn j k

end Asynkit.Lock

namespace Asynkit.Lock

/-- tasks change status / position / keys, locks untouched -/
theorem Inv.retask {s s' : State} (h : Inv s)
    (hlocks : s'.locks = s.locks)
    (hcur : ∀ j, s'.cur = some j ↔ (s'.tasks j).status = .running)
    (howns : ∀ j, (s'.tasks j).owns = (s.tasks j).owns)
    (hhold : ∀ j, (s'.tasks j).holding = (s.tasks j).holding)
    (hwo : ∀ j, (s'.tasks j).waitingOn = (s.tasks j).waitingOn)
    (hprio : ∀ j, (s'.tasks j).prio = (s.tasks j).prio)
    (hpos : ∀ j, (s'.tasks j).pos = (s.tasks j).pos ∨
      ((∀ k, (s.tasks j).pos ≠ .acq k) ∧ (s'.tasks j).pos = .top))
    (hst : ∀ j, (s'.tasks j).status = (s.tasks j).status ∨
      ((s'.tasks j).status ≠ .done ∧ ((s'.tasks j).status = .running → (s'.tasks j).pos = .top) ∧
       (∀ k, ∀ p ∈ s.wl k, p.1 = j → WOK (s'.tasks j).status p.2 ∧
          ((s.tasks j).status = .ready true → (s'.tasks j).status = .ready true)))) :
    Inv s' := by
  have hposk : ∀ j k, (s'.tasks j).pos = .acq k ↔ (s.tasks j).pos = .acq k := by
    intro j k
    rcases hpos j with e | ⟨e1, e2⟩
    · rw [e]
    · rw [e2]; constructor
      · intro x; cases x
      · intro x; exact absurd x (e1 k)
  constructor
  · intro k
    apply (h.linv k).frame
    · rw [hlocks]
    · intro j; rw [howns j]
    · intro j; exact hposk j k
    · intro p hp
      rcases hst p.1 with e | ⟨_, _, e⟩
      · rw [e]; exact ⟨((h.linv k).wok p hp).2, fun x => x⟩
      · exact e k p hp rfl
  · exact hcur
  · intro j hj
    rcases hst j with e | ⟨_, e, _⟩
    · rw [e] at hj
      have := h.runningTop j hj
      rcases hpos j with e' | ⟨_, e'⟩
      · rw [e', this]
      · exact e'
    · exact e hj
  · intro j hj
    rcases hst j with e | ⟨e, _, _⟩
    · rw [e] at hj
      have := h.doneClean j hj
      refine ⟨by rw [howns]; exact this.1, ?_⟩
      rcases hpos j with e' | ⟨_, e'⟩
      · rw [e', this.2]
      · exact e'
    · exact absurd hj e
  · intro j; rw [hhold, hprio, howns]; exact h.holdingOwns j
  · intro j; rw [howns]; exact h.ownsNodup j
  · intro j k; rw [hwo, hprio, hposk]; exact h.waitingPos j k
  · intro j k hj; rw [howns j]; exact h.waitNotOwn j k ((hposk j k).mp hj)

end Asynkit.Lock

namespace Asynkit.Lock

theorem WOK_ready_true (f : Fut) : WOK (.ready true) f := rfl

theorem inv_throw {s : State} (h : Inv s) (i : Nat) (positional : Bool) :
    Inv (s.doThrow i positional) := by
  unfold State.doThrow
  by_cases hr : throwRefused (s.tasks i) = true
  · simp [hr]; exact h
  · have hnr : (s.tasks i).status ≠ .running := by
      intro e; simp [throwRefused, e] at hr
    have key : Inv (s.enqueue i (.ready true)) := by
      apply h.retask
      · rfl
      · intro j; by_cases e : j = i
        · subst e; simp [State.enqueue]
          intro hc; exact hnr ((h.curRunning j).mp hc)
        · simp [State.enqueue, e]; exact h.curRunning j
      · intro j; by_cases e : j = i <;> simp [State.enqueue, e]
      · intro j; by_cases e : j = i <;> simp [State.enqueue, e]
      · intro j; by_cases e : j = i <;> simp [State.enqueue, e]
      · intro j; by_cases e : j = i <;> simp [State.enqueue, e]
      · intro j; by_cases e : j = i <;> simp [State.enqueue, e]
      · intro j; by_cases e : j = i
        · subst e; right; simp [State.enqueue]
          intro k a b _ _; exact WOK_ready_true b
        · left; simp [State.enqueue, e]
    simp only [hr]
    by_cases hp : positional = true
    · simp only [hp, if_true]
      exact key.keyEq (keyEq_setRkey _ i none)
    · simp [hp]; exact key

theorem inv_setEv {s : State} (h : Inv s) (e : Nat) : Inv (s.doSetEv e) := by
  apply h.retask
  · rfl
  · intro j; simp only [State.doSetEv]
    by_cases c : (s.tasks j).status = .blocked ∧ (s.tasks j).pos = .evt e
    · simp [c]
      intro hc; have := (h.curRunning j).mp hc; rw [c.1] at this; cases this
    · have : ¬ ((s.tasks j).status = .blocked ∧ (s.tasks j).pos = .evt e) := c
      simp only [Bool.and_eq_true, decide_eq_true_eq, this, if_false]
      exact h.curRunning j
  · intro j; simp only [State.doSetEv]; split <;> rfl
  · intro j; simp only [State.doSetEv]; split <;> rfl
  · intro j; simp only [State.doSetEv]; split <;> rfl
  · intro j; simp only [State.doSetEv]; split <;> rfl
  · intro j; left; simp only [State.doSetEv]; split <;> rfl
  · intro j
    by_cases c : (s.tasks j).status = .blocked ∧ (s.tasks j).pos = .evt e
    · right; simp [State.doSetEv, c]
      intro k a b hab ha
      have := ((h.linv k).wok (a, b) hab).1
      simp [ha, c.2] at this
    · left; simp [State.doSetEv, c]

end Asynkit.Lock

namespace Asynkit.Lock

/-- `LInv` without wake-in-flight: what holds between "the lock became free / a waiter left" and
    the call of `_wake_up_first` -/
structure LInv0 (s : State) (k : Nat) : Prop where
  lockedOwner : (s.locks k).locked = (s.locks k).owner.isSome
  ownerOwns : ∀ i, (s.locks k).owner = some i ↔ k ∈ (s.tasks i).owns
  wok : ∀ p ∈ s.wl k, (s.tasks p.1).pos = .acq k ∧ WOK (s.tasks p.1).status p.2
  queued : ∀ i, (s.tasks i).pos = .acq k → ∃ p ∈ s.wl k, p.1 = i
  nodup : ((s.wl k).map (·.1)).Nodup
  oneResult : ∀ p ∈ s.wl k, ∀ q ∈ s.wl k, p.2 = .result → q.2 = .result → p.1 = q.1
  lockedNoResult : (s.locks k).locked = true → ∀ p ∈ s.wl k, p.2 ≠ .result

theorem LInv.to0 {s k} (h : LInv s k) : LInv0 s k :=
  ⟨h.lockedOwner, h.ownerOwns, h.wok, h.queued, h.nodup, h.oneResult, h.lockedNoResult⟩

theorem LInv0.toLInv {s k} (h : LInv0 s k)
    (w : (s.locks k).locked = false → s.wl k ≠ [] →
        ∃ p ∈ s.wl k, p.2.done = true ∨ (s.tasks p.1).status = .ready true) : LInv s k :=
  ⟨h.lockedOwner, h.ownerOwns, h.wok, h.queued, h.nodup, h.oneResult, h.lockedNoResult, w⟩

/-- the global (lock-independent) part of `Inv` -/
structure GInv (s : State) : Prop where
  curRunning : ∀ i, s.cur = some i ↔ (s.tasks i).status = .running
  runningTop : ∀ i, (s.tasks i).status = .running → (s.tasks i).pos = .top
  doneClean : ∀ i, (s.tasks i).status = .done → (s.tasks i).owns = [] ∧ (s.tasks i).pos = .top
  holdingOwns : ∀ i, (s.tasks i).holding = if (s.tasks i).prio.isSome then (s.tasks i).owns else []
  ownsNodup : ∀ i, (s.tasks i).owns.Nodup
  waitingPos : ∀ i k, (s.tasks i).waitingOn = some k ↔ ((s.tasks i).prio.isSome ∧ (s.tasks i).pos = .acq k)
  waitNotOwn : ∀ i k, (s.tasks i).pos = .acq k → k ∉ (s.tasks i).owns

theorem Inv.g {s} (h : Inv s) : GInv s :=
  ⟨h.curRunning, h.runningTop, h.doneClean, h.holdingOwns, h.ownsNodup, h.waitingPos, h.waitNotOwn⟩

theorem Inv.mk' {s} (l : ∀ k, LInv s k) (g : GInv s) : Inv s :=
  ⟨l, g.curRunning, g.runningTop, g.doneClean, g.holdingOwns, g.ownsNodup, g.waitingPos, g.waitNotOwn⟩

theorem mem_setFutP {l : List (Nat × Fut)} {i : Nat} {f : Fut} {p : Nat × Fut} (hp : p ∈ setFutP l i f) :
    ∃ q ∈ l, q.1 = p.1 ∧ ((q.1 = i ∧ p.2 = f) ∨ (q.1 ≠ i ∧ p = q)) := by
  simp only [setFutP, List.mem_map] at hp
  obtain ⟨q, hq, e⟩ := hp
  refine ⟨q, hq, ?_⟩
  by_cases c : q.1 = i
  · simp [c] at e; subst e; simp [c]
  · simp [c] at e; subst e; simp [c]

theorem setFutP_fst (l : List (Nat × Fut)) (i : Nat) (f : Fut) :
    (setFutP l i f).map (·.1) = l.map (·.1) := by
  induction l with
  | nil => rfl
  | cons a l ih =>
    simp only [setFutP, List.map_cons, List.map_map] at *
    rw [ih]; by_cases c : a.1 = i <;> simp [c]

theorem mem_setFutP_of_mem {l : List (Nat × Fut)} {i : Nat} {f : Fut} {q : Nat × Fut} (hq : q ∈ l)
    (e : q.1 = i) : (i, f) ∈ setFutP l i f := by
  simp only [setFutP, List.mem_map]
  exact ⟨q, hq, by simp [e]⟩

/-- `_wake_up_first` on a free lock re-establishes wake-in-flight (and keeps everything else) -/
theorem inv_wakeUpFirst {s : State} {k : Nat} (hk : LInv0 s k) (ho : ∀ k', k' ≠ k → LInv s k')
    (g : GInv s) (hfree : (s.locks k).locked = false) : Inv (s.wakeUpFirst k) := by
  unfold State.wakeUpFirst
  by_cases hany : (s.locks k).waiters.any (·.fut.done) = true
  · simp only [hany, if_true]
    refine Inv.mk' (fun k' => ?_) g
    by_cases e : k' = k
    · rw [e]
      refine hk.toLInv (fun _ _ => ?_)
      simp only [List.any_eq_true] at hany
      obtain ⟨w, hw, hd⟩ := hany
      exact ⟨wt w, List.mem_map_of_mem hw, Or.inl hd⟩
    · exact ho k' e
  · simp only [hany]
    have hnone : ∀ p ∈ s.wl k, p.2 = .pending := by
      intro p hp
      simp only [State.wl, List.mem_map] at hp
      obtain ⟨w, hw, e⟩ := hp
      have : w.fut.done = false := by
        simp only [List.any_eq_true, not_exists, not_and] at hany
        simpa using hany w hw
      subst e
      cases hf : w.fut <;> simp_all [Fut.done, wt]
    cases hh : headW (s.locks k).waiters with
    | none =>
      simp only []
      have : (s.locks k).waiters = [] := headW_none _ hh
      refine Inv.mk' (fun k' => ?_) g
      by_cases e : k' = k
      · rw [e]; exact hk.toLInv (fun _ hne => absurd (by simp [State.wl, this]) hne)
      · exact ho k' e
    | some w =>
      simp only []
      have hw : w ∈ (s.locks k).waiters := headW_mem _ _ hh
      have hwl : wt w ∈ s.wl k := List.mem_map_of_mem hw
      have hwpos := (hk.wok _ hwl).1
      have hwok := (hk.wok _ hwl).2
      have hwpend : w.fut = .pending := hnone _ hwl
      simp only [wt] at hwpos hwok
      rw [hwpend] at hwok
      -- the state after setting the future
      generalize hs1 : s.setLock k { s.locks k with waiters := setFutOf (s.locks k).waiters w.task .result } = s1
      have hwl1 : s1.wl k = setFutP (s.wl k) w.task .result := by
        subst hs1; simp [State.wl, setFutOf_wt]
      have htasks1 : s1.tasks = s.tasks := by subst hs1; rfl
      have hcur1 : s1.cur = s.cur := by subst hs1; rfl
      have hlock1 : (s1.locks k).locked = (s.locks k).locked ∧ (s1.locks k).owner = (s.locks k).owner := by
        subst hs1; simp
      have hother1 : ∀ k', k' ≠ k → s1.locks k' = s.locks k' := by
        intro k' e; subst hs1; simp [e]
      -- final state: possibly the head's task becomes `woken false`
      have final : ∀ s2 : State, s2.locks = s1.locks → s2.cur = s1.cur →
          (∀ j, j ≠ w.task → s2.tasks j = s1.tasks j) →
          ((s2.tasks w.task).pos = (s.tasks w.task).pos ∧ (s2.tasks w.task).owns = (s.tasks w.task).owns ∧
           (s2.tasks w.task).holding = (s.tasks w.task).holding ∧ (s2.tasks w.task).prio = (s.tasks w.task).prio ∧
           (s2.tasks w.task).waitingOn = (s.tasks w.task).waitingOn) →
          (((s.tasks w.task).status = .blocked ∧ (s2.tasks w.task).status = .woken false) ∨
           ((s.tasks w.task).status = .ready true ∧ (s2.tasks w.task).status = .ready true)) → Inv s2 := by
        intro s2 hl2 hc2 hoth ⟨hp2, ho2, hh2, hpr2, hw2⟩ hst2
        have tk : ∀ j, (s2.tasks j).pos = (s.tasks j).pos ∧ (s2.tasks j).owns = (s.tasks j).owns ∧
            (s2.tasks j).holding = (s.tasks j).holding ∧ (s2.tasks j).prio = (s.tasks j).prio ∧
            (s2.tasks j).waitingOn = (s.tasks j).waitingOn := by
          intro j; by_cases e : j = w.task
          · subst e; exact ⟨hp2, ho2, hh2, hpr2, hw2⟩
          · rw [hoth j e, htasks1]; simp
        have tst : ∀ j, j ≠ w.task → (s2.tasks j).status = (s.tasks j).status := by
          intro j e; rw [hoth j e, htasks1]
        have wl2 : s2.wl k = setFutP (s.wl k) w.task .result := by
          rw [← hwl1]; simp [State.wl, hl2]
        refine Inv.mk' (fun k' => ?_) ?_
        · by_cases e : k' = k
          · rw [e]
            refine LInv0.toLInv ⟨?_, ?_, ?_, ?_, ?_, ?_, ?_⟩ ?_
            · rw [hl2, hlock1.1, hlock1.2]; exact hk.lockedOwner
            · intro i; rw [hl2, hlock1.2, (tk i).2.1]; exact hk.ownerOwns i
            · intro p hp; rw [wl2] at hp
              obtain ⟨q, hq, e1, e2⟩ := mem_setFutP hp
              rw [← e1, (tk q.1).1]
              refine ⟨(hk.wok q hq).1, ?_⟩
              rcases e2 with ⟨e2, e3⟩ | ⟨e2, e3⟩
              · rw [e2, e3]
                rcases hst2 with ⟨_, x⟩ | ⟨_, x⟩ <;> rw [x] <;> simp [WOK]
              · rw [tst q.1 e2, e3]; exact (hk.wok q hq).2
            · intro i hi; rw [(tk i).1] at hi
              obtain ⟨p, hp, e1⟩ := hk.queued i hi
              rw [wl2]
              have : i ∈ (setFutP (s.wl k) w.task .result).map (·.1) := by
                rw [setFutP_fst]; exact List.mem_map.mpr ⟨p, hp, e1⟩
              obtain ⟨p', hp', e'⟩ := List.mem_map.mp this
              exact ⟨p', hp', e'⟩
            · rw [wl2, setFutP_fst]; exact hk.nodup
            · intro p hp q hq ep eq
              rw [wl2] at hp hq
              obtain ⟨p0, hp0, e1, e2⟩ := mem_setFutP hp
              obtain ⟨q0, hq0, f1, f2⟩ := mem_setFutP hq
              rcases e2 with ⟨e2, _⟩ | ⟨_, e3⟩
              · rcases f2 with ⟨f2, _⟩ | ⟨_, f3⟩
                · rw [← e1, ← f1, e2, f2]
                · subst f3; rw [hnone _ hq0] at eq; cases eq
              · subst e3; rw [hnone _ hp0] at ep; cases ep
            · intro hl; rw [hl2, hlock1.1, hfree] at hl; cases hl
            · intro _ _
              exact ⟨(w.task, .result), by rw [wl2]; exact mem_setFutP_of_mem hwl rfl, Or.inl rfl⟩
          · have hk' := ho k' e
            apply hk'.frame
            · rw [hl2]; exact hother1 k' e
            · intro i; rw [(tk i).2.1]
            · intro i; rw [(tk i).1]
            · intro p hp
              have hne : p.1 ≠ w.task := by
                intro c
                have := (hk'.wok p hp).1
                rw [c, hwpos] at this
                injection this with this; exact e this.symm
              rw [tst p.1 hne]
              exact ⟨(hk'.wok p hp).2, fun x => x⟩
        · constructor
          · intro i; rw [hc2, hcur1]
            by_cases e : i = w.task
            · subst e
              rcases hst2 with ⟨a, b⟩ | ⟨a, b⟩ <;> rw [b] <;> simp <;> intro c <;>
                have := (g.curRunning _).mp c <;> rw [a] at this <;> cases this
            · rw [tst i e]; exact g.curRunning i
          · intro i hi
            by_cases e : i = w.task
            · subst e; rcases hst2 with ⟨_, b⟩ | ⟨_, b⟩ <;> rw [b] at hi <;> cases hi
            · rw [tst i e] at hi; rw [(tk i).1]; exact g.runningTop i hi
          · intro i hi
            by_cases e : i = w.task
            · subst e; rcases hst2 with ⟨_, b⟩ | ⟨_, b⟩ <;> rw [b] at hi <;> cases hi
            · rw [tst i e] at hi; rw [(tk i).1, (tk i).2.1]; exact g.doneClean i hi
          · intro i; rw [(tk i).2.2.1, (tk i).2.2.2.1, (tk i).2.1]; exact g.holdingOwns i
          · intro i; rw [(tk i).2.1]; exact g.ownsNodup i
          · intro i k'; rw [(tk i).2.2.2.2, (tk i).2.2.2.1, (tk i).1]; exact g.waitingPos i k'
          · intro i k'; rw [(tk i).1, (tk i).2.1]; exact g.waitNotOwn i k'
      by_cases hb : (s1.tasks w.task).status = .blocked
      · simp only [hb, if_true]
        apply final
        · rfl
        · rfl
        · intro j e; simp [State.enqueue, e]
        · simp [State.enqueue, htasks1]
        · left; rw [htasks1] at hb; exact ⟨hb, by simp [State.enqueue]⟩
      · simp only [hb, if_false]
        apply final s1 rfl rfl (fun _ _ => rfl)
        · rw [htasks1]; simp
        · right; rw [htasks1] at hb ⊢
          cases hst : (s.tasks w.task).status with
          | blocked => exact absurd hst hb
          | woken c => rw [hst] at hwok; cases c <;> simp [WOK] at hwok
          | ready x => rw [hst] at hwok; simp [WOK] at hwok; subst hwok; exact ⟨rfl, rfl⟩
          | running => rw [hst] at hwok; simp [WOK] at hwok
          | done => rw [hst] at hwok; simp [WOK] at hwok

end Asynkit.Lock

namespace Asynkit.Lock

/-- `_take_lock` on a lock without owner and without a second woken waiter -/
theorem inv_takeLock {s : State} {k i : Nat} (hk : LInv0 s k) (ho : ∀ k', k' ≠ k → LInv s k')
    (g : GInv s) (hown : (s.locks k).owner = none) (hnores : ∀ p ∈ s.wl k, p.2 ≠ .result)
    (hrun : (s.tasks i).status = .running) :
    Inv (s.takeLock k i) := by
  have hnot : ∀ j, k ∉ (s.tasks j).owns := by
    intro j hj; have := (hk.ownerOwns j).mpr hj; rw [hown] at this; cases this
  have hwl : ∀ k', (s.takeLock k i).wl k' = s.wl k' := by
    intro k'; by_cases e : k' = k <;> simp [State.takeLock, State.wl, e]
  have hst : ∀ j, ((s.takeLock k i).tasks j).status = (s.tasks j).status ∧
      ((s.takeLock k i).tasks j).pos = (s.tasks j).pos ∧
      ((s.takeLock k i).tasks j).waitingOn = (s.tasks j).waitingOn ∧
      ((s.takeLock k i).tasks j).prio = (s.tasks j).prio := by
    intro j; by_cases e : j = i <;> simp [State.takeLock, e]
  refine Inv.mk' (fun k' => ?_) ?_
  · by_cases e : k' = k
    · rw [e]
      refine LInv0.toLInv ⟨?_, ?_, ?_, ?_, ?_, ?_, ?_⟩ ?_
      · simp [State.takeLock]
      · intro j; by_cases c : j = i
        · subst c; simp [State.takeLock]
        · simp [State.takeLock, c]
          constructor
          · intro x; exact absurd x.symm c
          · intro x; exact absurd x (hnot j)
      · intro p hp; rw [hwl] at hp; rw [(hst p.1).1, (hst p.1).2.1]; exact hk.wok p hp
      · intro j hj; rw [(hst j).2.1] at hj; rw [hwl]; exact hk.queued j hj
      · rw [hwl]; exact hk.nodup
      · rw [hwl]; exact hk.oneResult
      · intro _; rw [hwl]; exact hnores
      · intro hl; simp [State.takeLock] at hl
    · apply (ho k' e).frame
      · simp [State.takeLock, e]
      · intro j; by_cases c : j = i
        · subst c; simp [State.takeLock, e]
        · simp [State.takeLock, c]
      · intro j; rw [(hst j).2.1]
      · intro p hp; rw [(hst p.1).1]; exact ⟨((ho k' e).wok p hp).2, fun x => x⟩
  · constructor
    · intro j; rw [(hst j).1]; simpa [State.takeLock] using g.curRunning j
    · intro j; rw [(hst j).1, (hst j).2.1]; exact g.runningTop j
    · intro j hj; rw [(hst j).1] at hj
      have := g.doneClean j hj
      rw [(hst j).2.1]
      by_cases c : j = i
      · subst c; simp [State.takeLock]
        -- a finished task does not take locks: excluded by the callers (the taker is running)
        rw [hrun] at hj; cases hj
      · simp [State.takeLock, c]; exact this
    · intro j; by_cases c : j = i
      · subst c; simp [State.takeLock]
        have := g.holdingOwns j
        cases hp : (s.tasks j).prio <;> simp [hp] at this ⊢ <;> exact this
      · simp [State.takeLock, c]; exact g.holdingOwns j
    · intro j; by_cases c : j = i
      · subst c; simp [State.takeLock]; exact ⟨hnot j, g.ownsNodup j⟩
      · simp [State.takeLock, c]; exact g.ownsNodup j
    · intro j k'; rw [(hst j).2.2.1, (hst j).2.2.2, (hst j).2.1]; exact g.waitingPos j k'
    · intro j k' hj; rw [(hst j).2.1] at hj
      by_cases c : j = i
      · subst c; rw [g.runningTop j hrun] at hj; cases hj
      · simp [State.takeLock, c]; exact g.waitNotOwn j k' hj

end Asynkit.Lock

namespace Asynkit.Lock

theorem inv_release {s : State} (h : Inv s) {i k : Nat} (hc : s.cur = some i)
    (ho : (s.locks k).owner = some i) : Inv (s.doRelease i k) := by
  have hdef : s.doRelease i k = State.wakeUpFirst
      ((s.setLock k { s.locks k with owner := none, locked := false }).setTask i
        { s.tasks i with owns := (s.tasks i).owns.erase k, holding := (s.tasks i).holding.erase k }) k := rfl
  rw [hdef]
  have hrun : (s.tasks i).status = .running := (h.curRunning i).mp hc
  have htop : (s.tasks i).pos = .top := h.runningTop i hrun
  generalize hs2 : (s.setLock k { s.locks k with owner := none, locked := false }).setTask i
      { s.tasks i with owns := (s.tasks i).owns.erase k, holding := (s.tasks i).holding.erase k } = s2
  have hwl : ∀ k', s2.wl k' = s.wl k' := by
    intro k'; subst hs2; by_cases e : k' = k <;> simp [State.wl, e]
  have hst : ∀ j, (s2.tasks j).status = (s.tasks j).status ∧ (s2.tasks j).pos = (s.tasks j).pos ∧
      (s2.tasks j).waitingOn = (s.tasks j).waitingOn ∧ (s2.tasks j).prio = (s.tasks j).prio := by
    intro j; subst hs2; by_cases e : j = i <;> simp [e]
  have hownsne : ∀ j, j ≠ i → (s2.tasks j).owns = (s.tasks j).owns := by
    intro j e; subst hs2; simp [e]
  have hownsi : (s2.tasks i).owns = (s.tasks i).owns.erase k := by subst hs2; simp
  have hholdi : (s2.tasks i).holding = (s.tasks i).holding.erase k := by subst hs2; simp
  have hholdne : ∀ j, j ≠ i → (s2.tasks j).holding = (s.tasks j).holding := by
    intro j e; subst hs2; simp [e]
  have hlk : (s2.locks k).locked = false ∧ (s2.locks k).owner = none := by subst hs2; simp
  have hlo : ∀ k', k' ≠ k → s2.locks k' = s.locks k' := by intro k' e; subst hs2; simp [e]
  have hcur : s2.cur = s.cur := by subst hs2; rfl
  apply inv_wakeUpFirst
  · refine ⟨?_, ?_, ?_, ?_, ?_, ?_, ?_⟩
    · rw [hlk.1, hlk.2]; rfl
    · intro j; rw [hlk.2]
      constructor
      · intro x; cases x
      · intro x; exfalso
        by_cases e : j = i
        · subst e; rw [hownsi] at x
          exact (List.Nodup.mem_erase_iff (h.ownsNodup j)).mp x |>.1 rfl
        · rw [hownsne j e] at x
          have := ((h.linv k).ownerOwns j).mpr x
          rw [ho] at this; injection this with this; exact e this.symm
    · intro p hp; rw [hwl] at hp; rw [(hst p.1).1, (hst p.1).2.1]; exact (h.linv k).wok p hp
    · intro j hj; rw [(hst j).2.1] at hj; rw [hwl]; exact (h.linv k).queued j hj
    · rw [hwl]; exact (h.linv k).nodup
    · rw [hwl]; exact (h.linv k).oneResult
    · intro hl; rw [hlk.1] at hl; cases hl
  · intro k' e
    apply (h.linv k').frame
    · exact hlo k' e
    · intro j; by_cases c : j = i
      · subst c; rw [hownsi]; exact List.mem_erase_of_ne e
      · rw [hownsne j c]
    · intro j; rw [(hst j).2.1]
    · intro p hp; rw [(hst p.1).1]; exact ⟨((h.linv k').wok p hp).2, fun x => x⟩
  · constructor
    · intro j; rw [hcur, (hst j).1]; exact h.curRunning j
    · intro j; rw [(hst j).1, (hst j).2.1]; exact h.runningTop j
    · intro j hj; rw [(hst j).1] at hj
      have e : j ≠ i := by intro e; subst e; rw [hrun] at hj; cases hj
      rw [hownsne j e, (hst j).2.1]; exact h.doneClean j hj
    · intro j; by_cases c : j = i
      · subst c; rw [hholdi, hownsi, (hst j).2.2.2, h.holdingOwns j]
        cases (s.tasks j).prio <;> simp
      · rw [hholdne j c, hownsne j c, (hst j).2.2.2]; exact h.holdingOwns j
    · intro j; by_cases c : j = i
      · subst c; rw [hownsi]; exact (h.ownsNodup j).erase k
      · rw [hownsne j c]; exact h.ownsNodup j
    · intro j k'; rw [(hst j).2.2.1, (hst j).2.2.2, (hst j).2.1]; exact h.waitingPos j k'
    · intro j k' hj; rw [(hst j).2.1] at hj
      by_cases c : j = i
      · subst c; rw [hownsi]; exact fun x => h.waitNotOwn j k' hj (List.mem_of_mem_erase x)
      · rw [hownsne j c]; exact h.waitNotOwn j k' hj
  · exact hlk.1

end Asynkit.Lock

namespace Asynkit.Lock

theorem mem_filter_ne {l : List (Nat × Fut)} {i : Nat} {p : Nat × Fut} :
    p ∈ l.filter (fun q => q.1 != i) ↔ p ∈ l ∧ p.1 ≠ i := by
  simp [List.mem_filter]

/-- task `i` is resumed inside `acquire(k)` and has left the waiter queue -/
def rs1 (s : State) (i k : Nat) : State :=
  let s0 : State := { s.setTask i { s.tasks i with status := .running, mustCancel := false, rkey := none, pos := .top, waitingOn := none } with cur := some i }
  s0.setLock k { s.locks k with waiters := removeTask (s.locks k).waiters i }

/-- task `i` is resumed elsewhere -/
def rs0 (s : State) (i : Nat) : State :=
  { s.setTask i { s.tasks i with status := .running, mustCancel := false, rkey := none, pos := .top }
    with cur := some i }

theorem inv_resume {s : State} (h : Inv s) {i : Nat} (hc : s.cur = none)
    (hst : (∃ c, (s.tasks i).status = .woken c) ∨ (∃ x, (s.tasks i).status = .ready x)) :
    Inv (s.doResume i) := by
  have hnorun : ∀ j, (s.tasks j).status ≠ .running := by
    intro j hj; have := (h.curRunning j).mpr hj; rw [hc] at this; cases this
  have hnr : (s.tasks i).status ≠ .running := hnorun i
  have hnd : (s.tasks i).status ≠ .done := by
    rcases hst with ⟨c, e⟩ | ⟨x, e⟩ <;> rw [e] <;> simp
  cases hpos : (s.tasks i).pos with
  | acq k =>
    -- the state after the task left the queue
    have hdef : s.doResume i =
        (let s1 := rs1 s i k
         let s2 := if resumeExc (s.tasks i) then s1 else s1.takeLock k i
         if (s2.locks k).locked then
           (if resumeExc (s.tasks i) then
              (match (s2.locks k).owner with | some o => propT s2 s2.fuel o | none => s2) else s2)
         else s2.wakeUpFirst k) := by
      simp only [State.doResume, hpos]; rfl
    rw [hdef]
    generalize hs1 : rs1 s i k = s1
    simp only [rs1] at hs1
    have hwlk : s1.wl k = (s.wl k).filter (fun q => q.1 != i) := by
      subst hs1; simp [State.wl, removeTask_wt]
    have hwlo : ∀ k', k' ≠ k → s1.locks k' = s.locks k' := by intro k' e; subst hs1; simp [e]
    have hlk : (s1.locks k).locked = (s.locks k).locked ∧ (s1.locks k).owner = (s.locks k).owner := by
      subst hs1; simp
    have hti : (s1.tasks i).status = .running ∧ (s1.tasks i).pos = .top ∧ (s1.tasks i).waitingOn = none ∧
        (s1.tasks i).owns = (s.tasks i).owns ∧ (s1.tasks i).holding = (s.tasks i).holding ∧
        (s1.tasks i).prio = (s.tasks i).prio := by subst hs1; simp
    have htj : ∀ j, j ≠ i → s1.tasks j = s.tasks j := by intro j e; subst hs1; simp [e]
    have hcur1 : s1.cur = some i := by subst hs1; rfl
    have hk0 : LInv0 s1 k := by
      have hk := h.linv k
      refine ⟨?_, ?_, ?_, ?_, ?_, ?_, ?_⟩
      · rw [hlk.1, hlk.2]; exact hk.lockedOwner
      · intro j; rw [hlk.2]; by_cases e : j = i
        · subst e; rw [hti.2.2.2.1]; exact hk.ownerOwns j
        · rw [htj j e]; exact hk.ownerOwns j
      · intro p hp; rw [hwlk] at hp
        obtain ⟨hp1, hp2⟩ := mem_filter_ne.mp hp
        rw [htj p.1 hp2]; exact hk.wok p hp1
      · intro j hj
        have e : j ≠ i := by intro e; subst e; rw [hti.2.1] at hj; cases hj
        rw [htj j e] at hj
        obtain ⟨p, hp, e1⟩ := hk.queued j hj
        exact ⟨p, by rw [hwlk]; exact mem_filter_ne.mpr ⟨hp, by rw [e1]; exact e⟩, e1⟩
      · rw [hwlk]; exact (hk.nodup.sublist (List.Sublist.map _ List.filter_sublist))
      · intro p hp q hq; rw [hwlk] at hp hq
        exact hk.oneResult p (mem_filter_ne.mp hp).1 q (mem_filter_ne.mp hq).1
      · intro hl p hp; rw [hlk.1] at hl; rw [hwlk] at hp
        exact hk.lockedNoResult hl p (mem_filter_ne.mp hp).1
    have hko : ∀ k', k' ≠ k → LInv s1 k' := by
      intro k' e
      apply (h.linv k').frame
      · exact hwlo k' e
      · intro j; by_cases c : j = i
        · subst c; rw [hti.2.2.2.1]
        · rw [htj j c]
      · intro j; by_cases c : j = i
        · subst c; rw [hti.2.1, hpos]; constructor
          · intro x; cases x
          · intro x; injection x with x; exact absurd x.symm e
        · rw [htj j c]
      · intro p hp
        have hne : p.1 ≠ i := by
          intro c
          have := ((h.linv k').wok p hp).1
          rw [c, hpos] at this; injection this with this; exact e this.symm
        rw [htj p.1 hne]; exact ⟨((h.linv k').wok p hp).2, fun x => x⟩
    have hg : GInv s1 := by
      constructor
      · intro j; rw [hcur1]; by_cases c : j = i
        · subst c; simp [hti.1]
        · rw [htj j c]; constructor
          · intro x; injection x with x; exact absurd x.symm c
          · intro x; exact absurd x (hnorun j)
      · intro j hj; by_cases c : j = i
        · subst c; exact hti.2.1
        · rw [htj j c] at hj; exact absurd hj (hnorun j)
      · intro j hj; by_cases c : j = i
        · subst c; rw [hti.1] at hj; cases hj
        · rw [htj j c] at hj ⊢; exact h.doneClean j hj
      · intro j; by_cases c : j = i
        · subst c; rw [hti.2.2.2.2.1, hti.2.2.2.2.2, hti.2.2.2.1]; exact h.holdingOwns j
        · rw [htj j c]; exact h.holdingOwns j
      · intro j; by_cases c : j = i
        · subst c; rw [hti.2.2.2.1]; exact h.ownsNodup j
        · rw [htj j c]; exact h.ownsNodup j
      · intro j k'; by_cases c : j = i
        · subst c; rw [hti.2.2.1, hti.2.1]; simp
        · rw [htj j c]; exact h.waitingPos j k'
      · intro j k' hj; by_cases c : j = i
        · subst c; rw [hti.2.1] at hj; cases hj
        · rw [htj j c] at hj ⊢; exact h.waitNotOwn j k' hj
    -- the entry of task i
    obtain ⟨pi, hpi, epi⟩ := (h.linv k).queued i hpos
    have hwoki := ((h.linv k).wok pi hpi).2
    rw [epi] at hwoki
    by_cases hexc : resumeExc (s.tasks i) = true
    · simp only [hexc, if_true]
      by_cases hl : (s1.locks k).locked = true
      · simp only [hl, if_true]
        have hI1 : Inv s1 := by
          refine Inv.mk' (fun k' => ?_) hg
          by_cases e : k' = k
          · rw [e]; exact hk0.toLInv (fun x => by rw [hl] at x; cases x)
          · exact hko k' e
        cases (s1.locks k).owner with
        | none => exact hI1
        | some o => exact hI1.keyEq (propT_keyEq _ _ _)
      · simp only [hl]
        exact inv_wakeUpFirst hk0 hko hg (by simpa using hl)
    · simp only [hexc]
      -- resumed without exception: woken by a result, no pending cancellation
      have hres : pi.2 = .result := by
        rcases hst with ⟨c, e⟩ | ⟨x, e⟩
        · rw [e] at hwoki; cases c
          · simpa [WOK] using hwoki
          · simp [resumeExc, e] at hexc
        · rw [e] at hwoki; simp [WOK] at hwoki; subst hwoki
          simp [resumeExc, e] at hexc
      have hfree : (s.locks k).locked = false := by
        cases hl : (s.locks k).locked with
        | false => rfl
        | true => exact absurd hres ((h.linv k).lockedNoResult hl pi hpi)
      have hown : (s1.locks k).owner = none := by
        rw [hlk.2]
        have := (h.linv k).lockedOwner
        rw [hfree] at this
        cases ho : (s.locks k).owner with
        | none => rfl
        | some o => rw [ho] at this; cases this
      have hnores : ∀ p ∈ s1.wl k, p.2 ≠ .result := by
        intro p hp hr; rw [hwlk] at hp
        obtain ⟨hp1, hp2⟩ := mem_filter_ne.mp hp
        have := (h.linv k).oneResult p hp1 pi hpi hr hres
        rw [epi] at this; exact hp2 this
      have htk : Inv (s1.takeLock k i) := inv_takeLock hk0 hko hg hown hnores hti.1
      have hlocked : ((s1.takeLock k i).locks k).locked = true := by simp [State.takeLock]
      simp only [Bool.false_eq_true, if_false, hlocked, if_true]
      exact htk
  | top =>
    have hdef : s.doResume i = rs0 s i := by simp only [State.doResume, hpos]; rfl
    rw [hdef]; unfold rs0
    apply h.retask
    · rfl
    · intro j; by_cases c : j = i
      · subst c; simp
      · simp [c]; constructor
        · intro x; exact absurd x.symm c
        · intro x; exact absurd x (hnorun j)
    · intro j; by_cases c : j = i <;> simp [c]
    · intro j; by_cases c : j = i <;> simp [c]
    · intro j; by_cases c : j = i <;> simp [c]
    · intro j; by_cases c : j = i <;> simp [c]
    · intro j; by_cases c : j = i
      · subst c; simp [hpos]
      · simp [c]
    · intro j; by_cases c : j = i
      · subst c; right; simp
        intro k a b hab ha
        have := ((h.linv k).wok (a, b) hab).1
        simp [ha, hpos] at this
      · left; simp [c]
  | evt e =>
    have hdef : s.doResume i = rs0 s i := by simp only [State.doResume, hpos]; rfl
    rw [hdef]; unfold rs0
    apply h.retask
    · rfl
    · intro j; by_cases c : j = i
      · subst c; simp
      · simp [c]; constructor
        · intro x; exact absurd x.symm c
        · intro x; exact absurd x (hnorun j)
    · intro j; by_cases c : j = i <;> simp [c]
    · intro j; by_cases c : j = i <;> simp [c]
    · intro j; by_cases c : j = i <;> simp [c]
    · intro j; by_cases c : j = i <;> simp [c]
    · intro j; by_cases c : j = i
      · subst c; right; simp [hpos]
      · simp [c]
    · intro j; by_cases c : j = i
      · subst c; right; simp
        intro k a b hab ha
        have := ((h.linv k).wok (a, b) hab).1
        simp [ha, hpos] at this
      · left; simp [c]

end Asynkit.Lock

namespace Asynkit.Lock

/-- the final state of a queueing `acquire`, from the state `s1` in which keys were propagated -/
def queuedState (s1 : State) (i k : Nat) : State :=
  { s1.setTask i { s1.tasks i with status := .blocked, pos := .acq k } with cur := none }

theorem queuedState_keyEq {a b : State} (e : KeyEq a b) (i k : Nat) :
    KeyEq (queuedState a i k) (queuedState b i k) := by
  constructor
  · rfl
  · exact e.evSet
  · exact e.prioLoop
  · exact e.fuel
  · exact e.locked
  · exact e.owner
  · exact e.wl
  · intro j; by_cases c : j = i <;> simp [queuedState, c, e.status]
  · intro j; by_cases c : j = i <;> simp [queuedState, c, e.pos]
  · intro j; by_cases c : j = i <;> simp [queuedState, c, e.owns]
  · intro j; by_cases c : j = i <;> simp [queuedState, c, e.holding]
  · intro j; by_cases c : j = i <;> simp [queuedState, c, e.waitingOn]
  · intro j; by_cases c : j = i <;> simp [queuedState, c, e.prio]

/-- the state right after the waiter was appended (before priority propagation) -/
def appended (s : State) (i k : Nat) : State :=
  (s.setTask i { s.tasks i with waitingOn := if (s.tasks i).prio.isSome then some k else none }).setLock k
    { s.locks k with waiters := (s.locks k).waiters ++ [{ task := i, key := (s.setTask i { s.tasks i with waitingOn := if (s.tasks i).prio.isSome then some k else none }).eff i, fut := .pending }] }

theorem inv_acquire {s : State} (h : Inv s) {i k : Nat} (hc : s.cur = some i)
    (hne : (s.locks k).owner ≠ some i) : Inv (s.doAcquire i k) := by
  have hrun : (s.tasks i).status = .running := (h.curRunning i).mp hc
  have htop : (s.tasks i).pos = .top := h.runningTop i hrun
  have hnotq : ∀ k', ∀ p ∈ s.wl k', p.1 ≠ i := fun k' => h.not_queued (by rw [htop]; simp)
  unfold State.doAcquire
  by_cases hfast : (!(s.locks k).locked && (s.locks k).waiters.isEmpty) = true
  · simp only [hfast, if_true]
    simp only [Bool.and_eq_true, Bool.not_eq_true', List.isEmpty_iff] at hfast
    apply inv_takeLock (h.linv k).to0 (fun k' _ => h.linv k') h.g
    · have := (h.linv k).lockedOwner; rw [hfast.1] at this
      cases ho : (s.locks k).owner with
      | none => rfl
      | some o => rw [ho] at this; cases this
    · intro p hp; simp [State.wl, hfast.2] at hp
    · exact hrun
  · simp only [hfast]
    have hslow : (s.locks k).locked = true ∨ s.wl k ≠ [] := by
      simp only [Bool.and_eq_true, Bool.not_eq_true', List.isEmpty_iff, not_and] at hfast
      cases hl : (s.locks k).locked with
      | true => exact Or.inl rfl
      | false => right; intro e; simp [State.wl] at e; exact hfast hl e
    have hform : ∀ s2 : State, KeyEq (appended s i k) s2 →
        Inv ({ s2.setTask i { s2.tasks i with status := .blocked, pos := .acq k } with cur := none }) := by
      intro s2 e
      refine Inv.keyEq ?_ (queuedState_keyEq e i k)
      -- the invariant of the queued state built from `appended`
      have hwlk : (queuedState (appended s i k) i k).wl k = s.wl k ++ [(i, .pending)] := by
        simp [queuedState, appended, State.wl, wt]
      have hlo : ∀ k', k' ≠ k → (queuedState (appended s i k) i k).locks k' = s.locks k' := by
        intro k' c; simp [queuedState, appended, c]
      have hlk : ((queuedState (appended s i k) i k).locks k).locked = (s.locks k).locked ∧
          ((queuedState (appended s i k) i k).locks k).owner = (s.locks k).owner := by
        simp [queuedState, appended]
      have htj : ∀ j, j ≠ i → (queuedState (appended s i k) i k).tasks j = s.tasks j := by
        intro j c; simp [queuedState, appended, c]
      have hti : ((queuedState (appended s i k) i k).tasks i).status = .blocked ∧
          ((queuedState (appended s i k) i k).tasks i).pos = .acq k ∧
          ((queuedState (appended s i k) i k).tasks i).owns = (s.tasks i).owns ∧
          ((queuedState (appended s i k) i k).tasks i).holding = (s.tasks i).holding ∧
          ((queuedState (appended s i k) i k).tasks i).prio = (s.tasks i).prio ∧
          ((queuedState (appended s i k) i k).tasks i).waitingOn =
            (if (s.tasks i).prio.isSome then some k else none) := by
        simp [queuedState, appended]
      have hcurS : (queuedState (appended s i k) i k).cur = none := rfl
      generalize queuedState (appended s i k) i k = S at *
      have hk := h.linv k
      refine Inv.mk' (fun k' => ?_) ?_
      · by_cases c : k' = k
        · rw [c]
          refine ⟨?_, ?_, ?_, ?_, ?_, ?_, ?_, ?_⟩
          · rw [hlk.1, hlk.2]; exact hk.lockedOwner
          · intro j; rw [hlk.2]; by_cases d : j = i
            · subst d; rw [hti.2.2.1]; exact hk.ownerOwns j
            · rw [htj j d]; exact hk.ownerOwns j
          · intro p hp; rw [hwlk] at hp
            rcases List.mem_append.mp hp with hp | hp
            · rw [htj p.1 (hnotq k p hp)]; exact hk.wok p hp
            · simp at hp; subst hp; simp [hti.1, hti.2.1, WOK]
          · intro j hj; rw [hwlk]; by_cases d : j = i
            · exact ⟨(i, .pending), by simp, d.symm⟩
            · rw [htj j d] at hj
              obtain ⟨p, hp, e1⟩ := hk.queued j hj
              exact ⟨p, List.mem_append_left _ hp, e1⟩
          · rw [hwlk]; simp only [List.map_append, List.map_cons, List.map_nil]
            refine List.nodup_append.mpr ⟨hk.nodup, by simp, ?_⟩
            intro a ha b hb; simp at hb; subst hb
            obtain ⟨p, hp, e1⟩ := List.mem_map.mp ha
            intro x; exact hnotq k p hp (by rw [e1, x])
          · intro p hp q hq ep eq; rw [hwlk] at hp hq
            rcases List.mem_append.mp hp with hp | hp
            · rcases List.mem_append.mp hq with hq | hq
              · exact hk.oneResult p hp q hq ep eq
              · simp at hq; subst hq; cases eq
            · simp at hp; subst hp; cases ep
          · intro hl p hp; rw [hlk.1] at hl; rw [hwlk] at hp
            rcases List.mem_append.mp hp with hp | hp
            · exact hk.lockedNoResult hl p hp
            · simp at hp; subst hp; simp
          · intro hl _; rw [hlk.1] at hl; rw [hwlk]
            rcases hslow with hs | hs
            · rw [hs] at hl; cases hl
            · obtain ⟨p, hp, hq⟩ := hk.wif hl hs
              refine ⟨p, List.mem_append_left _ hp, ?_⟩
              rw [htj p.1 (hnotq k p hp)]; exact hq
        · apply (h.linv k').frame
          · exact hlo k' c
          · intro j; by_cases d : j = i
            · subst d; rw [hti.2.2.1]
            · rw [htj j d]
          · intro j; by_cases d : j = i
            · subst d; rw [hti.2.1, htop]; constructor
              · intro x; injection x with x; exact absurd x.symm c
              · intro x; cases x
            · rw [htj j d]
          · intro p hp; rw [htj p.1 (hnotq k' p hp)]
            exact ⟨((h.linv k').wok p hp).2, fun x => x⟩
      · constructor
        · intro j; rw [hcurS]; by_cases d : j = i
          · subst d; rw [hti.1]; simp
          · rw [htj j d]; constructor
            · intro x; cases x
            · intro x; have := (h.curRunning j).mpr x; rw [hc] at this
              injection this with this; exact absurd this.symm d
        · intro j hj; by_cases d : j = i
          · subst d; rw [hti.1] at hj; cases hj
          · rw [htj j d] at hj ⊢; exact h.runningTop j hj
        · intro j hj; by_cases d : j = i
          · subst d; rw [hti.1] at hj; cases hj
          · rw [htj j d] at hj ⊢; exact h.doneClean j hj
        · intro j; by_cases d : j = i
          · subst d; rw [hti.2.2.2.1, hti.2.2.2.2.1, hti.2.2.1]; exact h.holdingOwns j
          · rw [htj j d]; exact h.holdingOwns j
        · intro j; by_cases d : j = i
          · subst d; rw [hti.2.2.1]; exact h.ownsNodup j
          · rw [htj j d]; exact h.ownsNodup j
        · intro j k'; by_cases d : j = i
          · subst d; rw [hti.2.2.2.2.2, hti.2.2.2.2.1, hti.2.1]
            cases (s.tasks j).prio <;> simp
          · rw [htj j d]; exact h.waitingPos j k'
        · intro j k' hj; by_cases d : j = i
          · subst d; rw [hti.2.1] at hj; injection hj with hj
            rw [← hj, hti.2.2.1]; intro x; exact hne (((h.linv k).ownerOwns j).mpr x)
          · rw [htj j d] at hj ⊢; exact h.waitNotOwn j k' hj
    have hke : ∀ (A : State) (oo : Option Nat),
        KeyEq A (match oo with | some o => propT A A.fuel o | none => A) := by
      intro A oo; cases oo
      · exact KeyEq.refl _
      · exact propT_keyEq _ _ _
    exact hform (match (s.locks k).owner with
        | some o => propT (appended s i k) (appended s i k).fuel o
        | none => appended s i k) (hke (appended s i k) (s.locks k).owner)

end Asynkit.Lock

namespace Asynkit.Lock

theorem inv_cancel {s : State} (h : Inv s) (i : Nat) : Inv (s.doCancel i) := by
  have hmc : Inv (s.setTask i { s.tasks i with mustCancel := true }) :=
    h.keyEq (keyEq_setMustCancel s i true)
  cases hst : (s.tasks i).status with
  | done => have : s.doCancel i = s := by simp only [State.doCancel, hst]
            rw [this]; exact h
  | running => have : s.doCancel i = s := by simp only [State.doCancel, hst]
               rw [this]; exact h
  | woken c =>
    have : s.doCancel i = s.setTask i { s.tasks i with mustCancel := true } := by
      simp only [State.doCancel, hst]
    rw [this]; exact hmc
  | ready x =>
    have : s.doCancel i = s.setTask i { s.tasks i with mustCancel := true } := by
      simp only [State.doCancel, hst]
    rw [this]; exact hmc
  | blocked =>
    cases hpos : (s.tasks i).pos with
    | top =>
      have : s.doCancel i = s.setTask i { s.tasks i with mustCancel := true } := by
        simp only [State.doCancel, hst, hpos]
      rw [this]; exact hmc
    | evt e =>
      have : s.doCancel i = s.enqueue i (.woken true) := by
        simp only [State.doCancel, hst, hpos]
      rw [this]
      apply h.retask
      · rfl
      · intro j; by_cases c : j = i
        · subst c; simp [State.enqueue]
          intro x; have := (h.curRunning j).mp x; rw [hst] at this; cases this
        · simp [State.enqueue, c]; exact h.curRunning j
      · intro j; by_cases c : j = i <;> simp [State.enqueue, c]
      · intro j; by_cases c : j = i <;> simp [State.enqueue, c]
      · intro j; by_cases c : j = i <;> simp [State.enqueue, c]
      · intro j; by_cases c : j = i <;> simp [State.enqueue, c]
      · intro j; by_cases c : j = i <;> simp [State.enqueue, c]
      · intro j; by_cases c : j = i
        · subst c; right; simp [State.enqueue]
          intro k a b hab ha
          have := ((h.linv k).wok (a, b) hab).1
          simp [ha, hpos] at this
        · left; simp [State.enqueue, c]
    | acq k =>
      by_cases hany : (s.locks k).waiters.any (fun w => w.task = i && w.fut = .pending) = true
      · have : s.doCancel i = (s.setLock k { s.locks k with waiters := setFutOf (s.locks k).waiters i .cancelled }).enqueue i (.woken true) := by
          simp only [State.doCancel, hst, hpos, hany, if_true]
        rw [this]
        generalize hS : (s.setLock k { s.locks k with waiters := setFutOf (s.locks k).waiters i .cancelled }).enqueue i (.woken true) = S
        have hwlk : S.wl k = setFutP (s.wl k) i .cancelled := by
          subst hS; simp [State.enqueue, State.wl, setFutOf_wt]
        have hlo : ∀ k', k' ≠ k → S.locks k' = s.locks k' := by
          intro k' c; subst hS; simp [State.enqueue, c]
        have hlk : (S.locks k).locked = (s.locks k).locked ∧ (S.locks k).owner = (s.locks k).owner := by
          subst hS; simp [State.enqueue]
        have htj : ∀ j, j ≠ i → S.tasks j = s.tasks j := by
          intro j c; subst hS; simp [State.enqueue, c]
        have hti : (S.tasks i).status = .woken true ∧ (S.tasks i).pos = (s.tasks i).pos ∧
            (S.tasks i).owns = (s.tasks i).owns ∧ (S.tasks i).holding = (s.tasks i).holding ∧
            (S.tasks i).prio = (s.tasks i).prio ∧ (S.tasks i).waitingOn = (s.tasks i).waitingOn := by
          subst hS; simp [State.enqueue]
        have hcurS : S.cur = s.cur := by subst hS; rfl
        have tk : ∀ j, (S.tasks j).pos = (s.tasks j).pos ∧ (S.tasks j).owns = (s.tasks j).owns ∧
            (S.tasks j).holding = (s.tasks j).holding ∧ (S.tasks j).prio = (s.tasks j).prio ∧
            (S.tasks j).waitingOn = (s.tasks j).waitingOn := by
          intro j; by_cases c : j = i
          · subst c; exact hti.2
          · rw [htj j c]; simp
        have hk := h.linv k
        obtain ⟨pi, hpi, epi⟩ := hk.queued i hpos
        refine Inv.mk' (fun k' => ?_) ?_
        · by_cases c : k' = k
          · rw [c]
            refine ⟨?_, ?_, ?_, ?_, ?_, ?_, ?_, ?_⟩
            · rw [hlk.1, hlk.2]; exact hk.lockedOwner
            · intro j; rw [hlk.2, (tk j).2.1]; exact hk.ownerOwns j
            · intro p hp; rw [hwlk] at hp
              obtain ⟨q, hq, e1, e2⟩ := mem_setFutP hp
              rw [← e1, (tk q.1).1]
              refine ⟨(hk.wok q hq).1, ?_⟩
              rcases e2 with ⟨e2, e3⟩ | ⟨e2, e3⟩
              · rw [e2, e3, hti.1]; simp [WOK]
              · rw [htj q.1 e2, e3]; exact (hk.wok q hq).2
            · intro j hj; rw [(tk j).1] at hj
              obtain ⟨p, hp, e1⟩ := hk.queued j hj
              rw [hwlk]
              have : j ∈ (setFutP (s.wl k) i .cancelled).map (·.1) := by
                rw [setFutP_fst]; exact List.mem_map.mpr ⟨p, hp, e1⟩
              obtain ⟨p', hp', e'⟩ := List.mem_map.mp this
              exact ⟨p', hp', e'⟩
            · rw [hwlk, setFutP_fst]; exact hk.nodup
            · intro p hp q hq ep eq; rw [hwlk] at hp hq
              obtain ⟨p0, hp0, e1, e2⟩ := mem_setFutP hp
              obtain ⟨q0, hq0, f1, f2⟩ := mem_setFutP hq
              rcases e2 with ⟨_, e3⟩ | ⟨_, e3⟩
              · rw [e3] at ep; cases ep
              · rcases f2 with ⟨_, f3⟩ | ⟨_, f3⟩
                · rw [f3] at eq; cases eq
                · subst e3; subst f3; exact hk.oneResult p hp0 q hq0 ep eq
            · intro hl p hp; rw [hlk.1] at hl; rw [hwlk] at hp
              obtain ⟨p0, hp0, e1, e2⟩ := mem_setFutP hp
              rcases e2 with ⟨_, e3⟩ | ⟨_, e3⟩
              · rw [e3]; simp
              · subst e3; exact hk.lockedNoResult hl p hp0
            · intro _ _
              exact ⟨(i, .cancelled), by rw [hwlk]; exact mem_setFutP_of_mem hpi epi, Or.inl rfl⟩
          · apply (h.linv k').frame
            · exact hlo k' c
            · intro j; rw [(tk j).2.1]
            · intro j; rw [(tk j).1]
            · intro p hp
              have hne : p.1 ≠ i := by
                intro d
                have := ((h.linv k').wok p hp).1
                rw [d, hpos] at this; injection this with this; exact c this.symm
              rw [htj p.1 hne]; exact ⟨((h.linv k').wok p hp).2, fun x => x⟩
        · constructor
          · intro j; rw [hcurS]; by_cases c : j = i
            · subst c; rw [hti.1]; simp
              intro x; have := (h.curRunning j).mp x; rw [hst] at this; cases this
            · rw [htj j c]; exact h.curRunning j
          · intro j hj; by_cases c : j = i
            · subst c; rw [hti.1] at hj; cases hj
            · rw [htj j c] at hj ⊢; exact h.runningTop j hj
          · intro j hj; by_cases c : j = i
            · subst c; rw [hti.1] at hj; cases hj
            · rw [htj j c] at hj ⊢; exact h.doneClean j hj
          · intro j; rw [(tk j).2.2.1, (tk j).2.2.2.1, (tk j).2.1]; exact h.holdingOwns j
          · intro j; rw [(tk j).2.1]; exact h.ownsNodup j
          · intro j k'; rw [(tk j).2.2.2.2, (tk j).2.2.2.1, (tk j).1]; exact h.waitingPos j k'
          · intro j k'; rw [(tk j).1, (tk j).2.1]; exact h.waitNotOwn j k'
      · have : s.doCancel i = s.setTask i { s.tasks i with mustCancel := true } := by
          simp only [State.doCancel, hst, hpos, hany]; rfl
        rw [this]; exact hmc

/-- every enabled event preserves the invariant -/
theorem inv_step {s : State} (h : Inv s) (e : Ev) (he : e.enabled s = true) : Inv (s.apply e) := by
  cases e with
  | resume i =>
    simp only [Ev.enabled, Bool.and_eq_true, Option.isNone_iff_eq_none] at he
    apply inv_resume h he.1
    cases hs : (s.tasks i).status <;> simp [hs] at he ⊢
  | acquire k =>
    simp only [Ev.enabled] at he
    cases hc : s.cur with
    | none => simp [hc] at he
    | some i =>
      simp only [hc, Bool.and_eq_true, bne_iff_ne, ne_eq] at he
      simp only [State.apply, hc]
      exact inv_acquire h hc he.1
  | release k =>
    simp only [Ev.enabled] at he
    cases hc : s.cur with
    | none => simp [hc] at he
    | some i =>
      simp only [hc, beq_iff_eq] at he
      simp only [State.apply, hc]
      exact inv_release h hc he
  | sleep =>
    cases hc : s.cur with
    | none => simp [Ev.enabled, hc] at he
    | some i =>
      simp only [State.apply, hc]
      exact h.suspend hc (.ready false) (s.tasks i).pos _ (by simp)
        (by intro k; rw [h.runningTop i ((h.curRunning i).mp hc)]; simp) (by simp)
  | wait ev =>
    cases hc : s.cur with
    | none => simp [Ev.enabled, hc] at he
    | some i =>
      simp only [State.apply, hc]
      by_cases hs : s.evSet ev = true
      · simp [hs]; exact h
      · simp only [hs]
        exact h.suspend hc .blocked (.evt ev) (s.tasks i).rkey (by simp) (by simp) (by simp)
  | finish =>
    cases hc : s.cur with
    | none => simp [Ev.enabled, hc] at he
    | some i =>
      simp only [Ev.enabled, hc, List.isEmpty_iff] at he
      simp only [State.apply, hc]
      exact h.suspend hc .done (s.tasks i).pos (s.tasks i).rkey (by simp)
        (by intro k; rw [h.runningTop i ((h.curRunning i).mp hc)]; simp)
        (fun _ => ⟨he, h.runningTop i ((h.curRunning i).mp hc)⟩)
  | badRelease k => exact h
  | acquireFails k => exact h
  | cancel i => exact inv_cancel h i
  | throw i x => exact inv_throw h i false
  | interrupt i x => exact inv_throw h i true
  | setEv ev => exact inv_setEv h ev
  | reinsert i ps => exact h.keyEq (keyEq_clearRkeys s _)

theorem inv_init {s : State} (hi : Initial s) : Inv s := by
  have ht := hi.tasks
  have hwl : ∀ k, s.wl k = [] := by intro k; simp [State.wl, hi.locks k]
  refine Inv.mk' (fun k => ?_) ?_
  · refine ⟨?_, ?_, ?_, ?_, ?_, ?_, ?_, ?_⟩
    · simp [hi.locks k]
    · intro i; simp [hi.locks k, (ht i).2.2.2.1]
    · intro p hp; rw [hwl] at hp; cases hp
    · intro i hp; rw [(ht i).2.2.1] at hp; cases hp
    · rw [hwl]; simp
    · intro p hp; rw [hwl] at hp; cases hp
    · intro _ p hp; rw [hwl] at hp; cases hp
    · intro _ hne; exact absurd (hwl k) hne
  · constructor
    · intro i; rw [hi.cur]
      rcases (ht i).1 with e | e <;> simp [e]
    · intro i hr; rcases (ht i).1 with e | e <;> rw [e] at hr <;> cases hr
    · intro i _; exact ⟨(ht i).2.2.2.1, (ht i).2.2.1⟩
    · intro i; rw [(ht i).2.2.2.2.1, (ht i).2.2.2.1]; simp
    · intro i; rw [(ht i).2.2.2.1]; simp
    · intro i k; rw [(ht i).2.2.2.2.2, (ht i).2.2.1]; simp
    · intro i k hk; rw [(ht i).2.2.1] at hk; cases hk

theorem reachable_inv {s : State} (hr : Reachable s) : Inv s := by
  induction hr with
  | init hi => exact inv_init hi
  | step e _ he ih => exact inv_step ih e he

end Asynkit.Lock

namespace Asynkit.Lock

theorem wakeUpFirst_waiters_length (s : State) (k k' : Nat) :
    ((s.wakeUpFirst k).locks k').waiters.length = (s.locks k').waiters.length := by
  unfold State.wakeUpFirst
  simp only []
  split
  · rfl
  · split
    · rfl
    · split <;> by_cases e : k' = k <;> simp [State.enqueue, setFutOf, e]


end Asynkit.Lock

namespace Asynkit.Lock

theorem keyEq_waiters_length {s s' : State} (e : KeyEq s s') (k : Nat) :
    (s'.locks k).waiters.length = (s.locks k).waiters.length := by
  have := congrArg List.length (e.wl k)
  simpa [State.wl] using this

theorem propT_waiters_length (s : State) (f o k : Nat) :
    ((propT s f o).locks k).waiters.length = (s.locks k).waiters.length :=
  keyEq_waiters_length (propT_keyEq s f o) k

end Asynkit.Lock
