/-
Helper lemmas for C08: `deque_pop` via rotations is `List.eraseIdx`; `queue_find` /
`queue_remove` in list terms.  (No property statements here; those live in Props/C08.lean.)
-/
import Asynkit.Model.Deque

namespace Asynkit.Deque
variable {α : Type}

theorem neg_emod_of_lt (a b : Int) (h1 : 0 < a) (h2 : a < b) : (-a) % b = b - a := by
  have h : (-a) % b = (-a + b) % b := by simp
  rw [h, Int.emod_eq_of_lt (a := -a + b) (by omega) (by omega)]; omega

/-- unfolding of `rotate` on deques with at least two elements -/
theorem rotate_of_emod (L : List α) (n : Int) (k : Nat) (hm : 2 ≤ L.length)
    (h : n % (L.length : Int) = (k : Int)) :
    rotate L n = L.drop (L.length - k) ++ L.take (L.length - k) := by
  unfold rotate
  have : ¬ L.length ≤ 1 := by omega
  simp only [this, if_false, h, Int.toNat_natCast]

theorem rotate_short (L : List α) (n : Int) (h : L.length ≤ 1) : rotate L n = L := by
  unfold rotate; simp [h]

/-- a split list rotated back: `(B ++ A)` rotated so that `A` comes first -/
theorem drop_take_swap (A B : List α) :
    (B ++ A).drop B.length ++ (B ++ A).take B.length = A ++ B := by
  simp

/-- rotating `drop (i+1) d ++ take i d` right by `i` gives `eraseIdx i` -/
theorem rotate_back (d : List α) (i : Nat) (hi : i < d.length) (n : Int)
    (hn : d.length - 1 ≤ 1 ∨ n % ((d.length - 1 : Nat) : Int) = ((i % (d.length - 1) : Nat) : Int)) :
    rotate (d.drop (i + 1) ++ d.take i) n = d.eraseIdx i := by
  rw [List.eraseIdx_eq_take_drop_succ]
  have hlen : (d.drop (i + 1) ++ d.take i).length = d.length - 1 := by
    simp [List.length_append, List.length_drop, List.length_take]; omega
  by_cases hs : d.length - 1 ≤ 1
  · rw [rotate_short _ _ (by omega)]
    -- one of the two parts is empty
    by_cases h0 : i = 0
    · subst h0; simp
    · have : d.drop (i + 1) = [] := by
        apply List.drop_eq_nil_of_le; omega
      simp [this]
  · have hn' := hn.resolve_left hs
    rw [rotate_of_emod _ n (i % (d.length - 1)) (by omega) (by rw [hlen]; exact hn')]
    rw [hlen]
    by_cases hlast : i = d.length - 1
    · -- i % (len-1) = 0 : nothing moves, and drop (i+1) d = []
      have h0 : i % (d.length - 1) = 0 := by rw [hlast]; exact Nat.mod_self _
      have : d.drop (i + 1) = [] := by apply List.drop_eq_nil_of_le; omega
      rw [h0, this, List.nil_append, Nat.sub_zero]
      have hl : (d.take i).length = d.length - 1 := by simp [List.length_take]; omega
      rw [← hl, List.drop_length, List.take_length]; simp
    · have hmod : i % (d.length - 1) = i := Nat.mod_eq_of_lt (by omega)
      rw [hmod]
      have hl : d.length - 1 - i = (d.drop (i + 1)).length := by simp [List.length_drop]; omega
      rw [hl]
      simp

theorem popleft_drop (d : List α) (i : Nat) (hi : i < d.length) :
    popleft (d.drop i ++ d.take i) = some (d[i], d.drop (i + 1) ++ d.take i) := by
  rw [List.drop_eq_getElem_cons hi]; rfl

theorem pop_take (d : List α) (i : Nat) (hi : i < d.length) :
    pop (d.drop (i + 1) ++ d.take (i + 1)) = some (d[i], d.drop (i + 1) ++ d.take i) := by
  unfold pop
  rw [← List.take_append_getElem hi, ← List.append_assoc, List.getLast?_concat, List.dropLast_concat]

/-- `deque_pop(d, i)` for a valid non-negative index is `list.pop(i)` -/
theorem dequePop_nat (d : List α) (i : Nat) (hi : i < d.length) :
    dequePop d (i : Int) = some (d[i], d.eraseIdx i) := by
  unfold dequePop
  have h1 : ¬ ((i : Int) < 0) := by omega
  simp only [h1, if_false]
  by_cases hb : (i : Int) < ((d.length / 4 : Nat) : Int)
  · -- head branch: rotate(-i); popleft; rotate(i)
    simp only [hb, if_true]
    have hlen2 : 2 ≤ d.length := by omega
    have hrot : rotate d (-(i : Int)) = d.drop i ++ d.take i := by
      by_cases h0 : i = 0
      · subst h0
        rw [rotate_of_emod d _ 0 hlen2 (by simp)]; simp
      · rw [rotate_of_emod d _ (d.length - i) hlen2
          (by rw [neg_emod_of_lt _ _ (by omega) (by omega)]; omega)]
        have : d.length - (d.length - i) = i := by omega
        rw [this]
    rw [hrot, popleft_drop d i hi]
    simp only
    rw [rotate_back d i hi]
    right
    have : i % (d.length - 1) = i := Nat.mod_eq_of_lt (by omega)
    rw [this]
    exact Int.emod_eq_of_lt (by omega) (by omega)
  · simp only [hb, if_false]
    have h2 : (i : Int) < (d.length : Int) := by omega
    simp only [h2, if_true]
    -- tail branch: pos -= ld - 1; rotate(-pos); pop; rotate(pos)
    have hrot : rotate d (-((i : Int) - ((d.length : Int) - 1))) = d.drop (i + 1) ++ d.take (i + 1) := by
      by_cases hs : d.length ≤ 1
      · rw [rotate_short _ _ hs]
        have : i = 0 := by omega
        subst this
        have : d.drop 1 = [] := by apply List.drop_eq_nil_of_le; omega
        have h3 : d.take 1 = d := by apply List.take_of_length_le; omega
        simp [this, h3]
      · rw [rotate_of_emod d _ (d.length - 1 - i) (by omega)
          (by rw [Int.emod_eq_of_lt (by omega) (by omega)]; omega)]
        have : d.length - (d.length - 1 - i) = i + 1 := by omega
        rw [this]
    rw [hrot, pop_take d i hi]
    simp only
    rw [rotate_back d i hi]
    by_cases hs : d.length - 1 ≤ 1
    · exact Or.inl hs
    · right
      by_cases hlast : i = d.length - 1
      · have h0 : i % (d.length - 1) = 0 := by rw [hlast]; exact Nat.mod_self _
        rw [h0]
        have : (i : Int) - ((d.length : Int) - 1) = 0 := by omega
        rw [this]; simp
      · have hmod : i % (d.length - 1) = i := Nat.mod_eq_of_lt (by omega)
        rw [hmod]
        by_cases h0 : i = 0
        · subst h0
          have : ((0 : Nat) : Int) - ((d.length : Int) - 1) = -(((d.length - 1 : Nat)) : Int) := by omega
          rw [this]; simp
        · have : (i : Int) - ((d.length : Int) - 1) = -(((d.length : Int) - 1) - i) := by omega
          rw [this, neg_emod_of_lt _ _ (by omega) (by omega)]; omega

/-- negative indices count from the tail, exactly like `list.pop` -/
theorem dequePop_neg (d : List α) (i : Nat) (hi : i < d.length) :
    dequePop d ((i : Int) - (d.length : Int)) = dequePop d (i : Int) := by
  have hneg : ((i : Int) - (d.length : Int)) < 0 := by omega
  unfold dequePop
  have e : ((i : Int) - (d.length : Int)) + (d.length : Int) = (i : Int) := by omega
  have h1 : ¬ ((i : Int) < 0) := by omega
  simp only [hneg, if_true, e, h1, if_false]

theorem dequePop_out_of_range (d : List α) (pos : Int)
    (h : pos < -(d.length : Int) ∨ (d.length : Int) ≤ pos) : dequePop d pos = none := by
  unfold dequePop
  rcases h with h | h
  · have h1 : pos < 0 := by omega
    have h2 : pos + (d.length : Int) < 0 := by omega
    simp [h1, h2]
  · have h1 : ¬ pos < 0 := by omega
    have h2 : ¬ pos < ((d.length / 4 : Nat) : Int) := by omega
    have h3 : ¬ pos < (d.length : Int) := by omega
    simp only [h1, h2, h3, if_false]

end Asynkit.Deque

namespace Asynkit.Deque
variable {α : Type}

theorem revScan_skip (key : α → Bool) (P : List α) (x : α) (R : List α) (k : Nat)
    (hP : ∀ b ∈ P, key b = false) (hx : key x = true) :
    revScan key (P ++ x :: R) k = some (k + P.length, x) := by
  induction P generalizing k with
  | nil => simp [revScan, hx]
  | cons a P ih =>
    have ha : key a = false := hP a (by simp)
    simp only [List.cons_append, revScan, ha]
    rw [ih (k + 1) (fun b hb => hP b (by simp [hb]))]
    simp; omega

theorem revScan_none (key : α → Bool) (l : List α) (k : Nat) (h : ∀ b ∈ l, key b = false) :
    revScan key l k = none := by
  induction l generalizing k with
  | nil => rfl
  | cons a l ih =>
    simp only [revScan, h a (by simp)]
    exact ih (k + 1) (fun b hb => h b (by simp [hb]))

theorem dequePop_mid (A B : List α) (x : α) :
    dequePop (A ++ x :: B) (((A ++ x :: B).length : Int) - (B.length : Int) - 1) = some (x, A ++ B) := by
  have e : (((A ++ x :: B).length : Int) - (B.length : Int) - 1) = (A.length : Int) := by
    simp [List.length_append]; omega
  rw [e, dequePop_nat _ _ (by simp [List.length_append])]
  simp [List.eraseIdx_append_of_length_le]

/-- `queue_find`: the match closest to the tail is returned, and (with `remove`) exactly it is
    taken out; nothing else moves. -/
theorem queueFind_last (A B : List α) (x : α) (key : α → Bool) (rm : Bool)
    (hx : key x = true) (hB : ∀ b ∈ B, key b = false) :
    queueFind (A ++ x :: B) key rm = (some x, if rm then A ++ B else A ++ x :: B) := by
  unfold queueFind
  have hr : (A ++ x :: B).reverse = B.reverse ++ x :: A.reverse := by simp
  rw [hr, revScan_skip key B.reverse x A.reverse 0 (by simpa using hB) hx]
  simp only [Nat.zero_add, List.length_reverse]
  cases rm
  · simp
  · simp only [if_true]
    rw [dequePop_mid]

theorem queueFind_absent (q : List α) (key : α → Bool) (rm : Bool) (h : ∀ b ∈ q, key b = false) :
    queueFind q key rm = (none, q) := by
  unfold queueFind
  rw [revScan_none key q.reverse 0 (by simpa using h)]

theorem queueRemove_last [BEq α] [LawfulBEq α] (A B : List α) (x : α) (hB : x ∉ B) :
    queueRemove (A ++ x :: B) x = some (A ++ B) := by
  unfold queueRemove
  have hr : (A ++ x :: B).reverse = B.reverse ++ x :: A.reverse := by simp
  rw [hr, revScan_skip (fun y => y == x) B.reverse x A.reverse 0
    (by intro b hb; simp at hb; simp; intro h; exact hB (h ▸ hb)) (by simp)]
  simp only [Nat.zero_add, List.length_reverse]
  rw [dequePop_mid]

theorem queueRemove_absent [BEq α] [LawfulBEq α] (q : List α) (x : α) (h : x ∉ q) :
    queueRemove q x = none := by
  unfold queueRemove
  rw [revScan_none (fun y => y == x) q.reverse 0
    (by intro b hb; simp at hb; simp; intro e; exact h (e ▸ hb))]

theorem callPos_nat (q : List α) (p : Nat) (h : α) :
    callPos q (p : Int) h = q.insertIdx (min p q.length) h := by
  unfold callPos pop
  rw [List.getLast?_concat, List.dropLast_concat]
  unfold insert
  have : ¬ ((p : Int) < 0) := by omega
  simp [this]

/-- negative positions count from the tail and are clamped at the head, like `list.insert` -/
theorem callPos_neg (q : List α) (k : Nat) (hk : 0 < k) (h : α) :
    callPos q (-(k : Int)) h = q.insertIdx (q.length - k) h := by
  unfold callPos pop
  rw [List.getLast?_concat, List.dropLast_concat]
  unfold insert
  have : (-(k : Int)) < 0 := by omega
  simp only [this, if_true]
  congr 1
  omega

theorem insert_nat (q : List α) (p : Nat) (h : α) :
    insert q (p : Int) h = q.insertIdx (min p q.length) h := by
  unfold insert
  have : ¬ ((p : Int) < 0) := by omega
  simp [this]

end Asynkit.Deque
