/-
Helper lemmas for C08: `deque_pop` via rotations is `List.eraseIdx`; `queue_find` /
`queue_remove` in list terms.  (No property statements here; those live in Props/C08.lean.)
-/
import Asynkit.Model.Deque

namespace Asynkit.Deque
variable {α : Type}

theorem neg_emod_of_lt (a b : Int) (h1 : 0 < a) (h2 : a < b) : (-a) % b = b - a := by
  have h : (-a) % b = (-a + b) % b := by simp
  rw [h, Int.emod_eq_of_lt (a := -a + b) (by omega) (by omega)]; omega

/-- unfolding of `rotate` on deques with at least two elements -/
theorem rotate_of_emod (L : List α) (n : Int) (k : Nat) (hm : 2 ≤ L.length)
    (h : n % (L.length : Int) = (k : Int)) :
    rotate L n = L.drop (L.length - k) ++ L.take (L.length - k) := by
  unfold rotate
  have : ¬ L.length ≤ 1 := by omega
  simp only [this, if_false, h, Int.toNat_natCast]

theorem rotate_short (L : List α) (n : Int) (h : L.length ≤ 1) : rotate L n = L := by
  unfold rotate; simp [h]

/-- a split list rotated back: `(B ++ A)` rotated so that `A` comes first -/
theorem drop_take_swap (A B : List α) :
    (B ++ A).drop B.length ++ (B ++ A).take B.length = A ++ B := by
  simp

/-- rotating `drop (i+1) d ++ take i d` right by `i` gives `eraseIdx i` -/
theorem rotate_back (d : List α) (i : Nat) (hi : i < d.length) (n : Int)
    (hn : d.length - 1 ≤ 1 ∨ n % ((d.length - 1 : Nat) : Int) = ((i % (d.length - 1) : Nat) : Int)) :
    rotate (d.drop (i + 1) ++ d.take i) n = d.eraseIdx i := by
  rw [List.eraseIdx_eq_take_drop_succ]
  have hlen : (d.drop (i + 1) ++ d.take i).length = d.length - 1 := by
    simp [List.length_append, List.length_drop, List.length_take]; omega
  by_cases hs : d.length - 1 ≤ 1
  · rw [rotate_short _ _ (by omega)]
    -- one of the two parts is empty
    by_cases h0 : i = 0
    · subst h0; simp
    · have : d.drop (i + 1) = [] := by
        apply List.drop_eq_nil_of_le; omega
      simp [this]
  · have hn' := hn.resolve_left hs
    rw [rotate_of_emod _ n (i % (d.length - 1)) (by omega) (by rw [hlen]; exact hn')]
    rw [hlen]
    by_cases hlast : i = d.length - 1
    · -- i % (len-1) = 0 : nothing moves, and drop (i+1) d = []
      have h0 : i % (d.length - 1) = 0 := by rw [hlast]; exact Nat.mod_self _
      have : d.drop (i + 1) = [] := by apply List.drop_eq_nil_of_le; omega
      rw [h0, this, List.nil_append, Nat.sub_zero]
      have hl : (d.take i).length = d.length - 1 := by simp [List.length_take]; omega
      rw [← hl, List.drop_length, List.take_length]; simp
    · have hmod : i % (d.length - 1) = i := Nat.mod_eq_of_lt (by omega)
      rw [hmod]
      have hl : d.length - 1 - i = (d.drop (i + 1)).length := by simp [List.length_drop]; omega
      rw [hl]
      simp

theorem popleft_drop (d : List α) (i : Nat) (hi : i < d.length) :
    popleft (d.drop i ++ d.take i) = some (d[i], d.drop (i + 1) ++ d.take i) := by
  rw [List.drop_eq_getElem_cons hi]; rfl

theorem pop_take (d : List α) (i : Nat) (hi : i < d.length) :
    pop (d.drop (i + 1) ++ d.take (i + 1)) = some (d[i], d.drop (i + 1) ++ d.take i) := by
  unfold pop
  rw [← List.take_append_getElem hi, ← List.append_assoc, List.getLast?_concat, List.dropLast_concat]

/-- `deque_pop(d, i)` for a valid non-negative index is `list.pop(i)` -/
theorem dequePop_nat (d : List α) (i : Nat) (hi : i < d.length) :
    dequePop d (i : Int) = some (d[i], d.eraseIdx i) := by
  unfold dequePop
  have h1 : ¬ ((i : Int) < 0) := by omega
  simp only [h1, if_false]
  by_cases hb : (i : Int) < ((d.length / 4 : Nat) : Int)
  · -- head branch: rotate(-i); popleft; rotate(i)
    simp only [hb, if_true]
    have hlen2 : 2 ≤ d.length := by omega
    have hrot : rotate d (-(i : Int)) = d.drop i ++ d.take i := by
      by_cases h0 : i = 0
      · subst h0
        rw [rotate_of_emod d _ 0 hlen2 (by simp)]; simp
      · rw [rotate_of_emod d _ (d.length - i) hlen2
          (by rw [neg_emod_of_lt _ _ (by omega) (by omega)]; omega)]
        have : d.length - (d.length - i) = i := by omega
        rw [this]
    rw [hrot, popleft_drop d i hi]
    simp only
    rw [rotate_back d i hi]
    right
    have : i % (d.length - 1) = i := Nat.mod_eq_of_lt (by omega)
    rw [this]
    exact Int.emod_eq_of_lt (by omega) (by omega)
  · simp only [hb, if_false]
    have h2 : (i : Int) < (d.length : Int) := by omega
    simp only [h2, if_true]
    -- tail branch: pos -= ld - 1; rotate(-pos); pop; rotate(pos)
    have hrot : rotate d (-((i : Int) - ((d.length : Int) - 1))) = d.drop (i + 1) ++ d.take (i + 1) := by
      by_cases hs : d.length ≤ 1
      · rw [rotate_short _ _ hs]
        have : i = 0 := by omega
        subst this
        have : d.drop 1 = [] := by apply List.drop_eq_nil_of_le; omega
        have h3 : d.take 1 = d := by apply List.take_of_length_le; omega
        simp [this, h3]
      · rw [rotate_of_emod d _ (d.length - 1 - i) (by omega)
          (by rw [Int.emod_eq_of_lt (by omega) (by omega)]; omega)]
        have : d.length - (d.length - 1 - i) = i + 1 := by omega
        rw [this]
    rw [hrot, pop_take d i hi]
    simp only
    rw [rotate_back d i hi]
    by_cases hs : d.length - 1 ≤ 1
    · exact Or.inl hs
    · right
      by_cases hlast : i = d.length - 1
      · have h0 : i % (d.length - 1) = 0 := by rw [hlast]; exact Nat.mod_self _
        rw [h0]
        have : (i : Int) - ((d.length : Int) - 1) = 0 := by omega
        rw [this]; simp
      · have hmod : i % (d.length - 1) = i := Nat.mod_eq_of_lt (by omega)
        rw [hmod]
        by_cases h0 : i = 0
        · subst h0
          have : ((0 : Nat) : Int) - ((d.length : Int) - 1) = -(((d.length - 1 : Nat)) : Int) := by omega
          rw [this]; simp
        · have : (i : Int) - ((d.length : Int) - 1) = -(((d.length : Int) - 1) - i) := by omega
          rw [this, neg_emod_of_lt _ _ (by omega) (by omega)]; omega

/-- negative indices count from the tail, exactly like `list.pop` -/
theorem dequePop_neg (d : List α) (i : Nat) (hi : i < d.length) :
    dequePop d ((i : Int) - (d.length : Int)) = dequePop d (i : Int) := by
  have hneg : ((i : Int) - (d.length : Int)) < 0 := by omega
  unfold dequePop
  have e : ((i : Int) - (d.length : Int)) + (d.length : Int) = (i : Int) := by omega
  have h1 : ¬ ((i : Int) < 0) := by omega
  simp only [hneg, if_true, e, h1, if_false]

theorem dequePop_out_of_range (d : List α) (pos : Int)
    (h : pos < -(d.length : Int) ∨ (d.length : Int) ≤ pos) : dequePop d pos = none := by
  unfold dequePop
  rcases h with h | h
  · have h1 : pos < 0 := by omega
    have h2 : pos + (d.length : Int) < 0 := by omega
    simp [h1, h2]
  · have h1 : ¬ pos < 0 := by omega
    have h2 : ¬ pos < ((d.length / 4 : Nat) : Int) := by omega
    have h3 : ¬ pos < (d.length : Int) := by omega
    simp only [h1, h2, h3, if_false]

end Asynkit.Deque

namespace Asynkit.Deque
variable {α : Type}

theorem remove_mid [BEq α] [LawfulBEq α] (A B : List α) (x : α) (hA : x ∉ A) :
    remove (A ++ x :: B) x = some (A ++ B) := by
  unfold remove
  have : (A ++ x :: B).contains x = true := by simp
  rw [this, if_pos rfl, List.erase_append_right _ hA]
  simp

theorem remove_absent [BEq α] [LawfulBEq α] (q : List α) (x : α) (h : x ∉ q) : remove q x = none := by
  unfold remove
  have : q.contains x = false := by simpa using h
  rw [this]; rfl

/-- `queue_find`: the match closest to the tail is returned, and (with `remove`) exactly it is
    taken out; nothing else moves. -/
theorem queueFind_last [BEq α] [LawfulBEq α] (A B : List α) (x : α) (key : α → Bool) (rm : Bool)
    (hx : key x = true) (hB : ∀ b ∈ B, key b = false) (hA : x ∉ A) :
    queueFind (A ++ x :: B) key rm = (some x, if rm then A ++ B else A ++ x :: B) := by
  unfold queueFind
  have hr : (A ++ x :: B).reverse.find? key = some x := by
    rw [List.reverse_append, List.reverse_cons, List.append_assoc, List.find?_append]
    have : B.reverse.find? key = none := by
      rw [List.find?_eq_none]; intro b hb; simpa using hB b (by simpa using hb)
    rw [this]
    simp [hx]
  rw [hr]
  cases rm
  · simp
  · simp only [if_true]
    rw [remove_mid A B x hA]

theorem queueFind_absent [BEq α] (q : List α) (key : α → Bool) (rm : Bool) (h : ∀ b ∈ q, key b = false) :
    queueFind q key rm = (none, q) := by
  unfold queueFind
  have : q.reverse.find? key = none := by
    rw [List.find?_eq_none]; intro b hb; simpa using h b (by simpa using hb)
  rw [this]

theorem queueRemove_mid [BEq α] [LawfulBEq α] (A B : List α) (x : α) (hA : x ∉ A) :
    queueRemove (A ++ x :: B) x = some (A ++ B) := remove_mid A B x hA

theorem queueRemove_absent [BEq α] [LawfulBEq α] (q : List α) (x : α) (h : x ∉ q) :
    queueRemove q x = none := remove_absent q x h

theorem callPos_nat [BEq α] [LawfulBEq α] (q : List α) (p : Nat) (h : α) (hq : h ∉ q) :
    callPos q (p : Int) h = q.insertIdx (min p q.length) h := by
  unfold callPos
  have := remove_mid q [] h hq
  simp only [List.append_nil] at this
  rw [this]
  unfold insert
  have : ¬ ((p : Int) < 0) := by omega
  simp [this]

/-- negative positions count from the tail and are clamped at the head, like `list.insert` -/
theorem callPos_neg [BEq α] [LawfulBEq α] (q : List α) (k : Nat) (hk : 0 < k) (h : α) (hq : h ∉ q) :
    callPos q (-(k : Int)) h = q.insertIdx (q.length - k) h := by
  unfold callPos
  have := remove_mid q [] h hq
  simp only [List.append_nil] at this
  rw [this]
  unfold insert
  have : (-(k : Int)) < 0 := by omega
  simp only [this, if_true]
  congr 1
  omega

theorem insert_nat (q : List α) (p : Nat) (h : α) :
    insert q (p : Int) h = q.insertIdx (min p q.length) h := by
  unfold insert
  have : ¬ ((p : Int) < 0) := by omega
  simp [this]

end Asynkit.Deque
