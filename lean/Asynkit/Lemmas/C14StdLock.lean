/-
C14 — `asyncio.Lock` (the machine of `Model/StdLock.lean`, which `Lemmas/GenEqC14Std.lean` proves to be the
code of the running interpreter's `asyncio/locks.py`) refines the abstract lock assumed by `Model/Cond.lean`,
and hands the lock over in FIFO order.
-/
import Asynkit.Model.StdLock

namespace Asynkit.StdLock
open Asynkit.Cond (Fut Resume)

structure LInv (s : Sys) : Prop where
  /-- `_locked` is exactly "somebody owns the lock" -/
  locked : s.ls.locked = s.owner.isSome
  nodup : s.ls.waiters.Nodup
  mem : ∀ t, t ∈ s.ls.waiters ↔ s.blocked t = true
  /-- a waiter whose future was set is the head of the queue, and the lock is free for it -/
  granted : ∀ t ∈ s.ls.waiters, s.ls.fut t = .done → s.ls.waiters.head? = some t ∧ s.ls.locked = false
  deque : s.ls.waiters ≠ [] → s.ls.hasDeque = true

theorem linv_init : LInv {} := by
  constructor <;> simp

theorem head?_erase_of_ne {l : List Nat} {t j : Nat} (h : l.head? = some t) (hne : t ≠ j) :
    (l.erase j).head? = some t := by
  cases l with
  | nil => simp at h
  | cons a l =>
    simp only [List.head?_cons, Option.some.injEq] at h
    subst h
    have : (a == j) = false := by simp [hne]
    simp [List.erase_cons, this]

theorem wakeUpFirst_waiters (s : LS) : (wakeUpFirst s).waiters = s.waiters ∧ (wakeUpFirst s).locked = s.locked
    ∧ (wakeUpFirst s).hasDeque = s.hasDeque := by
  unfold wakeUpFirst
  split
  · exact ⟨rfl, rfl, rfl⟩
  · split <;> exact ⟨rfl, rfl, rfl⟩

/-- FIFO hand-over at function level: `_wake_up_first` never sets a future other than the head's, and sets
that one only if it is pending -/
theorem wakeUpFirst_fut (s : LS) (t : Nat) :
    (wakeUpFirst s).fut t = s.fut t ∨
    ((wakeUpFirst s).fut t = .done ∧ s.fut t = .pending ∧ s.waiters.head? = some t) := by
  unfold wakeUpFirst
  split
  · exact Or.inl rfl
  · rename_i h tl hw
    split
    · rename_i hc
      simp only [Bool.and_eq_true, beq_iff_eq] at hc
      by_cases ht : t = h
      · subst ht; right; simp [hc.2, hw]
      · left; simp [ht]
    · exact Or.inl rfl

/-- granted-waiter part of the invariant after a `_wake_up_first` on a free lock -/
theorem granted_after_wake (s : LS) (hl : s.locked = false)
    (hg : ∀ t ∈ s.waiters, s.fut t = .done → s.waiters.head? = some t) :
    ∀ t ∈ (wakeUpFirst s).waiters, (wakeUpFirst s).fut t = .done →
      (wakeUpFirst s).waiters.head? = some t ∧ (wakeUpFirst s).locked = false := by
  intro t ht hd
  have hw := wakeUpFirst_waiters s
  rw [hw.1] at ht ⊢
  rw [hw.2.1]
  refine ⟨?_, hl⟩
  rcases wakeUpFirst_fut s t with h | ⟨_, _, h⟩
  · exact hg t ht (h ▸ hd)
  · exact h

/-- the condition of `acquire()`'s fast path -/
def fast (s : LS) : Bool := !s.locked && (!s.hasDeque || s.waiters.all fun t => s.fut t == .cancelled)

/-- the state after `acquire()` has queued task `j` -/
def queued (s : LS) (j : Nat) : LS :=
  let s1 : LS := if s.hasDeque then s else { s with hasDeque := true, waiters := [] }
  { s1 with fut := (fun t => if t = j then .pending else s1.fut t), waiters := s1.waiters ++ [j] }

theorem acquireEntry_cases (s : LS) (j : Nat) :
    (fast s = true ∧ acquireEntry s j = ({ s with locked := true }, .took)) ∨
    (fast s = false ∧ acquireEntry s j = (queued s j, .suspended)) := by
  unfold acquireEntry fast queued
  split
  · rename_i h; exact Or.inl ⟨h, rfl⟩
  · rename_i h; exact Or.inr ⟨by simpa using h, rfl⟩

theorem linv_step (s s' : Sys) (ev : Ev) (I : LInv s) (h : sysStep s ev = some s') : LInv s' := by
  cases ev with
  | acquire j =>
    simp only [sysStep] at h
    split at h
    · rename_i hc
      have hjn : j ∉ s.ls.waiters := fun hj => by
        have := (I.mem j).mp hj; rw [hc.1] at this; cases this
      rcases acquireEntry_cases s.ls j with ⟨hfast, he⟩ | ⟨hfast, he⟩
      · -- fast path
        rw [he] at h
        try simp only at h
        injection h with h; subst h
        simp only [fast, Bool.and_eq_true, Bool.not_eq_true', Bool.or_eq_true] at hfast
        refine ⟨by simp, I.nodup, I.mem, ?_, I.deque⟩
        intro t ht hd
        exfalso
        rcases hfast.2 with hnd | hall
        · have := I.deque (List.ne_nil_of_mem ht)
          simp [this] at hnd
        · have := List.all_eq_true.mp hall t ht
          simp only [beq_iff_eq] at this
          have hd' : s.ls.fut t = .done := hd
          rw [this] at hd'; cases hd'
      · -- queued
        rw [he] at h
        try simp only at h
        injection h with h; subst h
        unfold queued
        have hw : (if s.ls.hasDeque = true then s.ls else { s.ls with hasDeque := true, waiters := [] }).waiters
            = s.ls.waiters := by
          split
          · rfl
          · rename_i hnd
            cases hws : s.ls.waiters with
            | nil => rfl
            | cons a l => exact absurd (I.deque (by simp [hws])) hnd
        have hf : (if s.ls.hasDeque = true then s.ls else { s.ls with hasDeque := true, waiters := [] }).fut
            = s.ls.fut := by split <;> rfl
        have hlk : (if s.ls.hasDeque = true then s.ls else { s.ls with hasDeque := true, waiters := [] }).locked
            = s.ls.locked := by split <;> rfl
        have hdq : (if s.ls.hasDeque = true then s.ls else { s.ls with hasDeque := true, waiters := [] }).hasDeque
            = true := by split <;> simp_all
        refine ⟨?_, ?_, ?_, ?_, ?_⟩
        · simp only [hlk]; exact I.locked
        · simp only [hw]
          exact List.nodup_append.mpr ⟨I.nodup, by simp, by
            intro a ha b hb; simp at hb; subst hb; exact fun e => hjn (e ▸ ha)⟩
        · intro t
          simp only [hw, List.mem_append, List.mem_singleton, setB]
          by_cases htj : t = j
          · subst htj; simp
          · simp [htj, I.mem t]
        · intro t ht hd
          simp only [hw, hf, hlk] at ht hd ⊢
          have htj : t ≠ j := fun e => by subst e; simp at hd
          simp only [htj, if_false] at hd
          have htw : t ∈ s.ls.waiters := by
            rcases List.mem_append.mp ht with h1 | h1
            · exact h1
            · simp at h1; exact absurd h1 htj
          obtain ⟨hh, hl⟩ := I.granted t htw hd
          refine ⟨?_, hl⟩
          cases hws : s.ls.waiters with
          | nil => rw [hws] at hh; simp at hh
          | cons a l => rw [hws] at hh; simpa using hh
        · intro _; exact hdq
    · cases h
  | resume j r =>
    simp only [sysStep] at h
    split at h
    · rename_i hc
      injection h with h; subst h
      have hjw : j ∈ s.ls.waiters := (I.mem j).mpr hc.1
      have hmem : ∀ t, t ∈ s.ls.waiters.erase j ↔ (t ≠ j ∧ t ∈ s.ls.waiters) := fun t =>
        List.Nodup.mem_erase_iff I.nodup
      have hdq : s.ls.waiters.erase j ≠ [] → s.ls.hasDeque = true := fun _ =>
        I.deque (List.ne_nil_of_mem hjw)
      have hmem' : ∀ t, t ∈ s.ls.waiters.erase j ↔ setB s.blocked j false t = true := by
        intro t
        rw [hmem t]
        by_cases htj : t = j
        · subst htj; simp [setB]
        · simp [setB, htj, I.mem t]
      cases r with
      | ok =>
        have hdone := hc.2 rfl
        refine ⟨by simp [acquireResume], by simpa [acquireResume] using I.nodup.erase j,
          by simpa [acquireResume] using hmem', ?_, by simpa [acquireResume] using hdq⟩
        intro t ht hd
        simp only [acquireResume] at ht hd
        exfalso
        have ht' := (hmem t).mp ht
        have h1 := (I.granted t ht'.2 hd).1
        have h2 := (I.granted j hjw hdone).1
        rw [h1] at h2; injection h2 with h2; exact ht'.1 h2
      | exc e =>
        simp only [acquireResume]
        split
        · -- somebody holds the lock: nothing to pass on
          rename_i hlk
          refine ⟨I.locked, I.nodup.erase j, hmem', ?_, hdq⟩
          intro t ht hd
          exfalso
          have := (I.granted t ((hmem t).mp ht).2 hd).2
          try simp only at hlk
          rw [this] at hlk; cases hlk
        · rename_i hlk
          have hlk' : s.ls.locked = false := by simpa using hlk
          have hw := wakeUpFirst_waiters { s.ls with waiters := s.ls.waiters.erase j }
          refine ⟨?_, ?_, ?_, ?_, ?_⟩
          · rw [hw.2.1]; exact I.locked
          · rw [hw.1]; exact I.nodup.erase j
          · intro t; rw [hw.1]; exact hmem' t
          · refine granted_after_wake _ hlk' ?_
            intro t ht hd
            have ht' := (hmem t).mp ht
            exact head?_erase_of_ne (I.granted t ht'.2 hd).1 ht'.1
          · rw [hw.1, hw.2.2]; exact hdq
    · cases h
  | release j =>
    simp only [sysStep] at h
    split at h
    · rename_i ho
      injection h with h; subst h
      have hl : s.ls.locked = true := by rw [I.locked, ho]; rfl
      simp only [release, hl, if_true]
      have hw := wakeUpFirst_waiters { s.ls with locked := false }
      refine ⟨?_, ?_, ?_, ?_, ?_⟩
      · rw [hw.2.1]; rfl
      · rw [hw.1]; exact I.nodup
      · intro t; rw [hw.1]; exact I.mem t
      · refine granted_after_wake _ rfl ?_
        intro t ht hd
        have := (I.granted t ht hd).2
        rw [hl] at this; cases this
      · rw [hw.1, hw.2.2]; exact I.deque
    · cases h
  | cancel j =>
    simp only [sysStep] at h
    split at h
    · injection h with h; subst h
      refine ⟨I.locked, I.nodup, I.mem, ?_, I.deque⟩
      intro t ht hd
      try simp only at hd
      split at hd
      · cases hd
      · exact I.granted t ht hd
    · cases h

theorem linv_run : ∀ (es : List Ev) (s s' : Sys), LInv s → sysRun s es = some s' → LInv s'
  | [], s, s', I, h => by simp [sysRun] at h; subst h; exact I
  | e :: es, s, s', I, h => by
    simp only [sysRun] at h
    split at h
    · cases h
    · rename_i s1 hs
      exact linv_run es s1 s' (linv_step s s1 e I hs) h

theorem linv_reachable {s : Sys} (h : SysReachable s) : LInv s := by
  obtain ⟨es, h⟩ := h
  exact linv_run es _ _ linv_init h

/-- **Refinement.**  In every reachable state, whatever an `asyncio.Lock` segment does is a transition the
abstract lock of `Model/Cond.lean` allows: an acquire completes (at once, or after having been queued) only
while nobody owns the lock; a raising acquire and a cancellation leave the ownership alone; release frees. -/
theorem refines_abstract_lock {s s' : Sys} (hr : SysReachable s) (ev : Ev) (h : sysStep s ev = some s') :
    AbsStep s.owner s'.owner ev := by
  have I := linv_reachable hr
  cases ev with
  | acquire j =>
    simp only [sysStep] at h
    split at h
    · rcases acquireEntry_cases s.ls j with ⟨hfast, he⟩ | ⟨hfast, he⟩
      · rw [he] at h
        try simp only at h
        injection h with h; subst h
        simp only [fast, Bool.and_eq_true, Bool.not_eq_true'] at hfast
        have : s.owner.isSome = false := by rw [← I.locked]; exact hfast.1
        left
        exact ⟨by cases ho : s.owner <;> simp_all, rfl⟩
      · rw [he] at h
        try simp only at h
        injection h with h; subst h
        right; rfl
    · cases h
  | resume j r =>
    simp only [sysStep] at h
    split at h
    · rename_i hc
      injection h with h; subst h
      cases r with
      | ok =>
        have hl := (I.granted j ((I.mem j).mpr hc.1) (hc.2 rfl)).2
        have : s.owner.isSome = false := by rw [← I.locked]; exact hl
        exact ⟨by cases ho : s.owner <;> simp_all, rfl⟩
      | exc e => rfl
    · cases h
  | release j =>
    simp only [sysStep] at h
    split at h
    · rename_i ho
      injection h with h; subst h
      exact ⟨ho, rfl⟩
    · cases h
  | cancel j =>
    simp only [sysStep] at h
    split at h
    · injection h with h; subst h; rfl
    · cases h

/-- **Mutual exclusion / FIFO hand-over**, as state invariants: `_locked` iff somebody owns the lock; a
queued task whose future has been set is the *head* of the FIFO queue and the lock is free for it — so at
most one queued task is granted the lock at a time, and it is the longest-waiting one still queued. -/
theorem fifo_handover {s : Sys} (hr : SysReachable s) :
    (s.ls.locked = s.owner.isSome) ∧
    (∀ t ∈ s.ls.waiters, s.ls.fut t = .done → s.ls.waiters.head? = some t ∧ s.owner = none) := by
  have I := linv_reachable hr
  refine ⟨I.locked, fun t ht hd => ⟨(I.granted t ht hd).1, ?_⟩⟩
  have := (I.granted t ht hd).2
  rw [I.locked] at this
  cases ho : s.owner <;> simp_all

end Asynkit.StdLock
