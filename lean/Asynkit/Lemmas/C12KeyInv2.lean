/-
C12 `waiter_key_inv`, part 2: normal forms of the transitions, field lemmas for the primitives and
the auxiliary invariant `Clean` of fault-free executions (nobody has an exception pending).
-/
import Asynkit.Lemmas.C12KeyInv

namespace Asynkit.Lock
open Asynkit.PrioGraph

/-! ### normal forms -/

/-- priority propagation from the owner (if any) -/
def walk (A : State) (oo : Option Nat) : State :=
  match oo with
  | some o => propT A A.fuel o
  | none => A

theorem walk_keyEq (A : State) (oo : Option Nat) : KeyEq A (walk A oo) := by
  cases oo
  · exact KeyEq.refl _
  · exact propT_keyEq _ _ _

theorem doAcquire_fast (s : State) (i k : Nat)
    (h : (!(s.locks k).locked && (s.locks k).waiters.isEmpty) = true) :
    s.doAcquire i k = s.takeLock k i := by
  simp only [State.doAcquire, h, if_true]

theorem doAcquire_slow (s : State) (i k : Nat)
    (h : ¬ (!(s.locks k).locked && (s.locks k).waiters.isEmpty) = true) :
    s.doAcquire i k = queuedState (walk (appended s i k) (s.locks k).owner) i k := by
  simp only [State.doAcquire, h]
  rfl

theorem doResume_acq_noexc (s : State) (i k : Nat) (hp : (s.tasks i).pos = .acq k)
    (hx : resumeExc (s.tasks i) = false) : s.doResume i = (rs1 s i k).takeLock k i := by
  have hlocked : (((rs1 s i k).takeLock k i).locks k).locked = true := by simp [State.takeLock]
  have : s.doResume i =
      (let s2 := if resumeExc (s.tasks i) then rs1 s i k else (rs1 s i k).takeLock k i
       if (s2.locks k).locked then
         (if resumeExc (s.tasks i) then
            (match (s2.locks k).owner with | some o => propT s2 s2.fuel o | none => s2) else s2)
       else s2.wakeUpFirst k) := by
    simp only [State.doResume, hp]; rfl
  rw [this]
  simp only [hx, Bool.false_eq_true, if_false, hlocked, if_true]

theorem doResume_other (s : State) (i : Nat) (hp : ∀ k, (s.tasks i).pos ≠ .acq k) :
    s.doResume i = rs0 s i := by
  cases h : (s.tasks i).pos with
  | acq k => exact absurd h (hp k)
  | top => simp only [State.doResume, h]; rfl
  | evt e => simp only [State.doResume, h]; rfl

/-- `release` before the wake-up -/
def released (s : State) (i k : Nat) : State :=
  (s.setLock k { s.locks k with owner := none, locked := false }).setTask i
    { s.tasks i with owns := (s.tasks i).owns.erase k, holding := (s.tasks i).holding.erase k }

theorem doRelease_eq (s : State) (i k : Nat) : s.doRelease i k = (released s i k).wakeUpFirst k := rfl

/-! ### field lemmas -/

theorem wakeUpFirst_fields (s : State) (k j : Nat) :
    ((s.wakeUpFirst k).tasks j).prio = (s.tasks j).prio ∧
    ((s.wakeUpFirst k).tasks j).mustCancel = (s.tasks j).mustCancel ∧
    ((s.wakeUpFirst k).tasks j).pos = (s.tasks j).pos ∧
    ((s.wakeUpFirst k).tasks j).owns = (s.tasks j).owns ∧
    ((s.wakeUpFirst k).tasks j).holding = (s.tasks j).holding ∧
    ((s.wakeUpFirst k).tasks j).waitingOn = (s.tasks j).waitingOn ∧
    (((s.wakeUpFirst k).tasks j).status = (s.tasks j).status ∨
      ((s.wakeUpFirst k).tasks j).status = .woken false) := by
  unfold State.wakeUpFirst
  simp only []
  split
  · simp
  · split
    · simp
    · rename_i w _
      split
      · by_cases e : j = w.task
        · subst e; simp [State.enqueue]
        · simp [State.enqueue, e]
      · simp

theorem wakeUpFirst_fuel (s : State) (k : Nat) : (s.wakeUpFirst k).fuel = s.fuel := by
  unfold State.wakeUpFirst
  simp only []
  split
  · rfl
  · split
    · rfl
    · split <;> simp [State.enqueue]

/-- keys survive `_wake_up_first`: only futures change -/
theorem wakeUpFirst_entries (s : State) (k k' : Nat) :
    ∀ w ∈ ((s.wakeUpFirst k).locks k').waiters, ∃ w0 ∈ (s.locks k').waiters,
      w0.task = w.task ∧ w0.key = w.key ∧ (w.fut = w0.fut ∨ (w0.fut = .pending ∧ w.fut = .result)) := by
  intro w hw
  unfold State.wakeUpFirst at hw
  simp only [] at hw
  split at hw
  · exact ⟨w, hw, rfl, rfl, Or.inl rfl⟩
  · rename_i hany
    split at hw
    · exact ⟨w, hw, rfl, rfl, Or.inl rfl⟩
    · rename_i h _
      have key : w ∈ ((s.setLock k { s.locks k with waiters := setFutOf (s.locks k).waiters h.task .result }).locks k').waiters := by
        split at hw
        · simpa [State.enqueue] using hw
        · exact hw
      by_cases e : k' = k
      · subst e
        simp only [setLock_locks, if_true, setFutOf, List.mem_map] at key
        obtain ⟨v, hv, hvw⟩ := key
        refine ⟨v, hv, ?_⟩
        by_cases c : v.task = h.task
        · simp [c] at hvw; subst hvw
          refine ⟨c, rfl, ?_⟩
          have : v.fut.done = false := by
            simp only [List.any_eq_true, not_exists, not_and] at hany
            simpa using hany v hv
          cases hf : v.fut <;> simp_all [Fut.done]
        · simp [c] at hvw; subst hvw; exact ⟨rfl, rfl, Or.inl rfl⟩
      · simp only [setLock_locks, e, if_false] at key
        exact ⟨w, key, rfl, rfl, Or.inl rfl⟩

mutual
theorem propT_mustCancel (s : State) : ∀ (f o j : Nat),
    ((propT s f o).tasks j).mustCancel = (s.tasks j).mustCancel
  | 0, _, j => by simp [propT]
  | f + 1, o, j => by
    simp only [propT]
    split
    · rfl
    · split
      · split
        · by_cases e : j = o <;> simp [e]
        · rfl
      · split
        · exact propL_mustCancel s f _ o j
        · rfl
theorem propL_mustCancel (s : State) : ∀ (f k i j : Nat),
    ((propL s f k i).tasks j).mustCancel = (s.tasks j).mustCancel
  | 0, _, _, j => by simp [propL]
  | f + 1, k, i, j => by
    simp only [propL]
    split
    · simp only [setLock_tasks]; exact propT_mustCancel s f _ j
    · rfl
end

/-! ### Clean -/

def CleanT (t : Task) : Prop := t.mustCancel = false ∧ t.status ≠ .woken true ∧ t.status ≠ .ready true

def Clean (s : State) : Prop := ∀ i, CleanT (s.tasks i)

theorem clean_wakeUpFirst {s : State} (h : Clean s) (k : Nat) : Clean (s.wakeUpFirst k) := by
  intro j
  obtain ⟨_, h2, _, _, _, _, h7⟩ := wakeUpFirst_fields s k j
  refine ⟨by rw [h2]; exact (h j).1, ?_, ?_⟩
  · rcases h7 with e | e <;> rw [e]
    · exact (h j).2.1
    · simp
  · rcases h7 with e | e <;> rw [e]
    · exact (h j).2.2
    · simp

theorem clean_keyEq {s s' : State} (h : Clean s) (e : KeyEq s s')
    (hm : ∀ j, (s'.tasks j).mustCancel = (s.tasks j).mustCancel) : Clean s' := by
  intro j
  exact ⟨by rw [hm]; exact (h j).1, by rw [e.status]; exact (h j).2.1, by rw [e.status]; exact (h j).2.2⟩

theorem clean_walk {A : State} (h : Clean A) (oo : Option Nat) : Clean (walk A oo) := by
  cases oo
  · exact h
  · exact clean_keyEq h (propT_keyEq _ _ _) (propT_mustCancel _ _ _)

theorem clean_resumeExc {s : State} (h : Clean s) {i : Nat}
    (hst : (∃ c, (s.tasks i).status = .woken c) ∨ (∃ x, (s.tasks i).status = .ready x)) :
    resumeExc (s.tasks i) = false := by
  have hc := h i
  simp only [resumeExc, hc.1, Bool.false_or]
  rcases hst with ⟨c, e⟩ | ⟨x, e⟩
  · rw [e]; cases c
    · rfl
    · exact absurd e hc.2.1
  · rw [e]; cases x
    · rfl
    · exact absurd e hc.2.2

theorem resume_status {s : State} {i : Nat} (he : (Ev.resume i).enabled s = true) :
    s.cur = none ∧ ((∃ c, (s.tasks i).status = .woken c) ∨ (∃ x, (s.tasks i).status = .ready x)) := by
  simp only [Ev.enabled, Bool.and_eq_true, Option.isNone_iff_eq_none] at he
  refine ⟨he.1, ?_⟩
  cases hs : (s.tasks i).status <;> simp [hs] at he ⊢

theorem clean_apply {N : Nat} {s : State} (h : Clean s) (e : Ev) (he : e.enabled s = true)
    (ho : Ev.orderly N s e = true) : Clean (s.apply e) := by
  cases e with
  | resume i =>
    have hx := clean_resumeExc h (resume_status he).2
    simp only [State.apply]
    by_cases hp : ∃ k, (s.tasks i).pos = .acq k
    · obtain ⟨k, hp⟩ := hp
      rw [doResume_acq_noexc s i k hp hx]
      intro j; by_cases e : j = i
      · subst e; simp [State.takeLock, rs1, CleanT]
      · simpa [State.takeLock, rs1, e] using h j
    · rw [doResume_other s i (fun k hk => hp ⟨k, hk⟩)]
      intro j; by_cases e : j = i
      · subst e; simp [rs0, CleanT]
      · simpa [rs0, e] using h j
  | acquire k =>
    simp only [State.apply]
    split
    · rename_i i _
      by_cases hf : (!(s.locks k).locked && (s.locks k).waiters.isEmpty) = true
      · rw [doAcquire_fast s i k hf]
        intro j; by_cases e : j = i
        · subst e; simpa [State.takeLock, CleanT] using h j
        · simpa [State.takeLock, e] using h j
      · rw [doAcquire_slow s i k hf]
        have hA : Clean (appended s i k) := by
          intro j; by_cases e : j = i
          · subst e; simpa [appended, CleanT] using h j
          · simpa [appended, e] using h j
        have hW := clean_walk hA (s.locks k).owner
        intro j; by_cases e : j = i
        · subst e
          have hj := hW j
          simp only [queuedState, setTask_tasks, if_true, CleanT] at hj ⊢
          exact ⟨hj.1, by simp, by simp⟩
        · simpa [queuedState, e] using hW j
    · exact h
  | release k =>
    simp only [State.apply]
    split
    · rename_i i _
      rw [doRelease_eq]
      apply clean_wakeUpFirst
      intro j; by_cases e : j = i
      · subst e; simpa [released, CleanT] using h j
      · simpa [released, e] using h j
    · exact h
  | sleep =>
    simp only [State.apply]
    split
    · rename_i i _
      intro j; by_cases e : j = i
      · subst e; have := h j; simp [State.enqueue, CleanT] at this ⊢; exact this.1
      · simpa [State.enqueue, e] using h j
    · exact h
  | wait ev =>
    simp only [State.apply]
    split
    · rename_i i _
      split
      · exact h
      · intro j; by_cases e : j = i
        · subst e; have := h j; simp [CleanT] at this ⊢; exact this.1
        · simpa [e] using h j
    · exact h
  | finish =>
    simp only [State.apply]
    split
    · rename_i i _
      intro j; by_cases e : j = i
      · subst e; have := h j; simp [CleanT] at this ⊢; exact this.1
      · simpa [e] using h j
    · exact h
  | badRelease k => exact h
  | cancel i => simp [Ev.orderly] at ho
  | throw i x => simp [Ev.orderly] at ho
  | interrupt i x => simp [Ev.orderly] at ho
  | reinsert i ps => simp [Ev.orderly] at ho
  | acquireFails k => simp [Ev.orderly] at ho
  | setEv ev =>
    intro j
    simp only [State.apply, State.doSetEv]
    split
    · have := h j; simp [CleanT] at this ⊢; exact this.1
    · exact h j

theorem clean_init {s : State} (hi : Initial s) : Clean s := by
  intro i
  have := hi.tasks i
  refine ⟨this.2.1, ?_, ?_⟩ <;> rcases this.1 with e | e <;> rw [e] <;> simp

theorem reachableNF_clean {N : Nat} {s : State} (h : ReachableNF N s) : Clean s := by
  induction h with
  | init hi => exact clean_init hi
  | step e _ he ho ih => exact clean_apply ih e he ho

end Asynkit.Lock
