/-
C12 `waiter_key_inv`, part 3: the lock-order invariant of ordered executions.
-/
import Asynkit.Lemmas.C12KeyInv2

namespace Asynkit.Lock
open Asynkit.PrioGraph

/-- every task holds only locks `< N`, and below the lock it is waiting for -/
def OrdT (N : Nat) (t : Task) : Prop :=
  (∀ l ∈ t.owns, l < N) ∧ (∀ k, t.pos = .acq k → k < N ∧ ∀ l ∈ t.owns, l < k)

def Ord (N : Nat) (s : State) : Prop := ∀ i, OrdT N (s.tasks i)

theorem ordT_of_eq {N : Nat} {t t' : Task} (h : OrdT N t) (ho : t'.owns = t.owns) (hp : t'.pos = t.pos) :
    OrdT N t' := by
  unfold OrdT; rw [ho, hp]; exact h

theorem ord_wakeUpFirst {N : Nat} {s : State} (h : Ord N s) (k : Nat) : Ord N (s.wakeUpFirst k) := by
  intro j
  obtain ⟨_, _, h3, h4, _⟩ := wakeUpFirst_fields s k j
  exact ordT_of_eq (h j) h4 h3

theorem ord_keyEq {N : Nat} {s s' : State} (h : Ord N s) (e : KeyEq s s') : Ord N s' :=
  fun j => ordT_of_eq (h j) (e.owns j) (e.pos j)

theorem ord_apply {N : Nat} {s : State} (hI : Inv s) (hc : Clean s) (h : Ord N s) (e : Ev)
    (he : e.enabled s = true) (ho : Ev.orderly N s e = true) : Ord N (s.apply e) := by
  cases e with
  | resume i =>
    have hx := clean_resumeExc hc (resume_status he).2
    simp only [State.apply]
    by_cases hp : ∃ k, (s.tasks i).pos = .acq k
    · obtain ⟨k, hp⟩ := hp
      rw [doResume_acq_noexc s i k hp hx]
      intro j; by_cases e : j = i
      · subst e
        have hj := h j
        simp only [State.takeLock, rs1, setTask_tasks, setLock_tasks, if_true, OrdT]
        refine ⟨?_, by intro k' hk'; cases hk'⟩
        intro l hl
        rcases List.mem_cons.mp hl with r | r
        · rw [r]; exact (hj.2 k hp).1
        · exact hj.1 l r
      · simpa [State.takeLock, rs1, e] using h j
    · rw [doResume_other s i (fun k hk => hp ⟨k, hk⟩)]
      intro j; by_cases e : j = i
      · subst e
        simp only [rs0, setTask_tasks, if_true, OrdT]
        exact ⟨(h j).1, by intro k' hk'; cases hk'⟩
      · simpa [rs0, e] using h j
  | acquire k =>
    simp only [State.apply]
    split
    · rename_i i hcur
      simp only [Ev.orderly, hcur, Bool.and_eq_true, decide_eq_true_eq, List.all_eq_true] at ho
      have hrun : (s.tasks i).status = .running := (hI.curRunning i).mp hcur
      have htop : (s.tasks i).pos = .top := hI.runningTop i hrun
      by_cases hf : (!(s.locks k).locked && (s.locks k).waiters.isEmpty) = true
      · rw [doAcquire_fast s i k hf]
        intro j; by_cases e : j = i
        · subst e
          simp only [State.takeLock, setTask_tasks, setLock_tasks, if_true, OrdT, htop]
          refine ⟨?_, by intro k' hk'; cases hk'⟩
          intro l hl
          rcases List.mem_cons.mp hl with r | r
          · rw [r]; exact ho.1
          · exact (h j).1 l r
        · simpa [State.takeLock, e] using h j
      · rw [doAcquire_slow s i k hf]
        have hA : Ord N (appended s i k) := by
          intro j; by_cases e : j = i
          · subst e; exact ordT_of_eq (h j) (by simp [appended]) (by simp [appended])
          · simpa [appended, e] using h j
        have hW := ord_keyEq hA (walk_keyEq (appended s i k) (s.locks k).owner)
        have hWo : ((walk (appended s i k) (s.locks k).owner).tasks i).owns = (s.tasks i).owns := by
          rw [(walk_keyEq (appended s i k) (s.locks k).owner).owns]; simp [appended]
        intro j; by_cases e : j = i
        · subst e
          simp only [queuedState, setTask_tasks, if_true, OrdT, hWo]
          refine ⟨(h j).1, ?_⟩
          intro k' hk'
          injection hk' with hk'
          subst hk'
          exact ⟨ho.1, fun l hl => by simpa using ho.2 l hl⟩
        · simpa [queuedState, e] using hW j
    · exact h
  | release k =>
    simp only [State.apply]
    split
    · rename_i i _
      rw [doRelease_eq]
      apply ord_wakeUpFirst
      intro j; by_cases e : j = i
      · subst e
        have hj := h j
        simp only [released, setTask_tasks, setLock_tasks, if_true, OrdT]
        exact ⟨fun l hl => hj.1 l (List.mem_of_mem_erase hl),
               fun k' hk' => ⟨(hj.2 k' hk').1, fun l hl => (hj.2 k' hk').2 l (List.mem_of_mem_erase hl)⟩⟩
      · simpa [released, e] using h j
    · exact h
  | sleep =>
    simp only [State.apply]
    split
    · rename_i i _
      intro j; by_cases e : j = i
      · subst e; exact ordT_of_eq (h j) (by simp [State.enqueue]) (by simp [State.enqueue])
      · simpa [State.enqueue, e] using h j
    · exact h
  | wait ev =>
    simp only [State.apply]
    split
    · rename_i i _
      split
      · exact h
      · intro j; by_cases e : j = i
        · subst e
          simp only [setTask_tasks, if_true, OrdT]
          exact ⟨(h j).1, by intro k' hk'; cases hk'⟩
        · simpa [e] using h j
    · exact h
  | finish =>
    simp only [State.apply]
    split
    · rename_i i _
      intro j; by_cases e : j = i
      · subst e; exact ordT_of_eq (h j) (by simp) (by simp)
      · simpa [e] using h j
    · exact h
  | badRelease k => exact h
  | cancel i => simp [Ev.orderly] at ho
  | throw i x => simp [Ev.orderly] at ho
  | interrupt i x => simp [Ev.orderly] at ho
  | reinsert i ps => simp [Ev.orderly] at ho
  | acquireFails k => simp [Ev.orderly] at ho
  | setEv ev =>
    intro j
    simp only [State.apply, State.doSetEv]
    split
    · exact ordT_of_eq (h j) rfl rfl
    · exact h j

theorem ord_init {N : Nat} {s : State} (hi : Initial s) : Ord N s := by
  intro i
  have := hi.tasks i
  constructor
  · rw [this.2.2.2.1]; intro l hl; cases hl
  · intro k hk; rw [this.2.2.1] at hk; cases hk

theorem reachableNF_ord {N : Nat} {s : State} (h : ReachableNF N s) : Ord N s := by
  induction h with
  | init hi => exact ord_init hi
  | step e hr he ho ih => exact ord_apply (reachable_inv hr.reachable) (reachableNF_clean hr) ih e he ho

end Asynkit.Lock
