/-
Auxiliary invariant for C15: the ghost accounting of interrupts (each accepted task_throw id is pending in the ready queue or delivered,
never both, never twice, and only for its target).
-/
import Asynkit.Lemmas.C09

namespace Asynkit.Kernel

/-! ### ghost accounting of interrupts -/

def isIntr (id : Nat) : Handle → Bool
  | .step _ (some (.intr i _)) => i == id
  | _ => false

def logIntr (id : Nat) (p : TaskId × Exc) : Bool :=
  match p.2 with
  | .intr i _ => i == id
  | _ => false

/-- number of queued step handles carrying interrupt `id` -/
def PI (s : State) (id : Nat) : Nat := s.ready.countP (isIntr id)
/-- number of times interrupt `id` has been raised inside a task body -/
def DI (s : State) (id : Nat) : Nat := s.log.countP (logIntr id)

structure Ghost (s : State) : Prop where
  once : ∀ id, PI s id + DI s id ≤ 1
  fresh : ∀ id, s.nexc ≤ id → PI s id = 0 ∧ DI s id = 0
  pendT : ∀ t id cd, Handle.step t (some (.intr id cd)) ∈ s.ready → (t, id) ∈ s.thrown
  delivT : ∀ t id cd, (t, Exc.intr id cd) ∈ s.log → (t, id) ∈ s.thrown
  thrownLt : ∀ t id, (t, id) ∈ s.thrown → id < s.nexc
  thrownUniq : ∀ t t' id, (t, id) ∈ s.thrown → (t', id) ∈ s.thrown → t = t'

theorem ghost_init : Ghost init := by constructor <;> simp [init, PI, DI]

theorem ghost_congr {s s' : State} (hg : Ghost s)
    (h1 : ∀ id, PI s' id ≤ PI s id)
    (h2 : ∀ t id cd, Handle.step t (some (.intr id cd)) ∈ s'.ready →
      Handle.step t (some (.intr id cd)) ∈ s.ready)
    (h3 : s'.log = s.log) (h4 : s'.thrown = s.thrown) (h5 : s.nexc ≤ s'.nexc) : Ghost s' := by
  have := hg.once; have := hg.fresh; have := hg.pendT; have := hg.delivT
  have := hg.thrownLt; have := hg.thrownUniq
  constructor <;> simp only [DI, h3, h4] at * <;> grind

theorem isIntr_toHandle (id : Nat) (f : FutId) (c : Cb) : isIntr id (toHandle f c) = false := by
  cases c <;> rfl

theorem countP_isIntr_map (id : Nat) (f : FutId) (l : List Cb) :
    (l.map (toHandle f)).countP (isIntr id) = 0 := by
  rw [List.countP_eq_zero]
  intro a ha
  obtain ⟨c, _, rfl⟩ := List.mem_map.mp ha
  simp [isIntr_toHandle]

theorem completeFut_ghost {s : State} (hg : Ghost s) (f : FutId) (st : FutSt) :
    Ghost (completeFut s f st) := by
  unfold completeFut
  split
  · apply ghost_congr hg
    · intro id; simp only [PI, List.countP_append, countP_isIntr_map]; omega
    · intro t id cd hm
      simp only [List.mem_append, List.mem_map] at hm
      rcases hm with hm | ⟨c, _, hc⟩
      · exact hm
      · cases c <;> simp [toHandle] at hc
    · rfl
    · rfl
    · exact Nat.le_refl _
  · exact hg

theorem cancelTask_ghost {s : State} (hg : Ghost s) (t : TaskId) : Ghost (cancelTask s t) := by
  unfold cancelTask
  simp only
  split
  · exact hg
  · split
    · split
      · exact completeFut_ghost hg _ _
      · exact ghost_congr hg (by intro id; simp [PI, setTask]) (by simp [setTask]) rfl rfl (Nat.le_refl _)
    · exact ghost_congr hg (by intro id; simp [PI, setTask]) (by simp [setTask]) rfl rfl (Nat.le_refl _)

theorem runStep_shape (s : State) (t : TaskId) (e : Option Exc) :
    (runStep s t e).1.ready = s.ready ∧ (runStep s t e).1.thrown = s.thrown ∧
    (runStep s t e).1.nexc = s.nexc ∧
    ((runStep s t e).1.log = s.log ∨ (runStep s t e).1.log = s.log ++ [(t, .cancelled)] ∨
      ∃ x, e = some x ∧ (runStep s t e).1.log = s.log ++ [(t, x)]) := by
  unfold runStep
  simp only
  split
  · simp
  · refine ⟨by simp [setTask], by simp [setTask], by simp [setTask], ?_⟩
    cases e with
    | none => cases (s.tasks t).mustCancel <;> simp
    | some x =>
      cases (s.tasks t).mustCancel
      · simp
      · cases hx : x.isCancel <;> simp [hx]

/-- popping the head handle and running `Task.__step(exc)` for it -/
theorem runStep_ghost {s : State} (hg : Ghost s) (h : Handle) (rest : List Handle)
    (hr : s.ready = h :: rest) (t : TaskId) (e : Option Exc)
    (he : ∀ id cd, e = some (.intr id cd) → h = .step t e) :
    Ghost (runStep { s with ready := rest } t e).1 := by
  have hPI : ∀ id, PI s id = rest.countP (isIntr id) + (if isIntr id h then 1 else 0) := by
    intro id; simp [PI, hr, List.countP_cons]
  have hmem : ∀ x, x ∈ rest → x ∈ s.ready := by intro x hx; rw [hr]; exact List.mem_cons_of_mem _ hx
  have hh : h ∈ s.ready := by rw [hr]; exact List.mem_cons_self
  have ho := hg.once; have hf := hg.fresh; have hp := hg.pendT; have hd := hg.delivT
  have hl := hg.thrownLt; have hu := hg.thrownUniq
  obtain ⟨h1, h2, h3, h4⟩ := runStep_shape { s with ready := rest } t e
  generalize (runStep { s with ready := rest } t e).1 = r at *
  simp only at h1 h2 h3 h4
  have hPIr : ∀ id, PI r id = rest.countP (isIntr id) := by intro id; simp [PI, h1]
  rcases h4 with h4 | h4 | ⟨x, hx, h4⟩
  · constructor <;> simp only [PI, DI, h1, h2, h3, h4] at * <;> grind
  · have hDI : ∀ id, DI r id = DI s id := by
      intro id; simp [DI, h4, List.countP_append, logIntr]
    constructor
    · intro id; rw [hPIr, hDI]; have := ho id; have := hPI id; omega
    · intro id hid; rw [hPIr, hDI]; rw [h3] at hid; have := hf id hid; have := hPI id; omega
    · intro u id cd hm; rw [h1] at hm; rw [h2]; exact hp u id cd (hmem _ hm)
    · intro u id cd hm; rw [h4] at hm; rw [h2]
      rcases List.mem_append.mp hm with hm | hm
      · exact hd u id cd hm
      · simp at hm
    · intro u id hm; rw [h2] at hm; rw [h3]; exact hl u id hm
    · intro u u' id; rw [h2]; exact hu u u' id
  · subst hx
    cases x with
    | intr i c =>
      have hh2 := he i c rfl
      subst hh2
      have hDI : ∀ id, DI r id = DI s id + (if i == id then 1 else 0) := by
        intro id; simp [DI, h4, List.countP_append, logIntr]
      have hPI' : ∀ id, PI s id = rest.countP (isIntr id) + (if i == id then 1 else 0) := by
        intro id; have := hPI id; simpa [isIntr] using this
      constructor
      · intro id; rw [hPIr, hDI]; have := ho id; have := hPI' id; omega
      · intro id hid; rw [hPIr, hDI]; rw [h3] at hid; have := hf id hid; have := hPI' id; omega
      · intro u id cd hm; rw [h1] at hm; rw [h2]; exact hp u id cd (hmem _ hm)
      · intro u id cd hm; rw [h4] at hm; rw [h2]
        rcases List.mem_append.mp hm with hm | hm
        · exact hd u id cd hm
        · simp only [List.mem_singleton, Prod.mk.injEq, Exc.intr.injEq] at hm
          obtain ⟨rfl, rfl, rfl⟩ := hm
          exact hp _ _ _ hh
      · intro u id hm; rw [h2] at hm; rw [h3]; exact hl u id hm
      · intro u u' id; rw [h2]; exact hu u u' id
    | cancelled | futExc _ | runtime =>
      have hDI : ∀ id, DI r id = DI s id := by
        intro id; simp [DI, h4, List.countP_append, logIntr]
      constructor
      · intro id; rw [hPIr, hDI]; have := ho id; have := hPI id; omega
      · intro id hid; rw [hPIr, hDI]; rw [h3] at hid; have := hf id hid; have := hPI id; omega
      · intro u id cd hm; rw [h1] at hm; rw [h2]; exact hp u id cd (hmem _ hm)
      · intro u id cd hm; rw [h4] at hm; rw [h2]
        rcases List.mem_append.mp hm with hm | hm
        · exact hd u id cd hm
        · simp at hm
      · intro u id hm; rw [h2] at hm; rw [h3]; exact hl u id hm
      · intro u u' id; rw [h2]; exact hu u u' id


/-- the tail of an accepted task_throw on a state whose ready queue lost at most handles -/
theorem throwFin_ghost {s s1 : State} (hg : Ghost s) (t : TaskId) (cd : Bool)
    (h1 : ∀ id, PI s1 id ≤ PI s id)
    (h2 : ∀ x, x ∈ s1.ready → x ∈ s.ready)
    (h3 : s1.log = s.log) (h4 : s1.thrown = s.thrown) (h5 : s1.nexc = s.nexc + 1) :
    Ghost (throwFin s1 t s.nexc cd) := by
  have ho := hg.once; have hf := hg.fresh; have hp := hg.pendT; have hd := hg.delivT
  have hl := hg.thrownLt; have hu := hg.thrownUniq
  have hPI : ∀ id, PI (throwFin s1 t s.nexc cd) id = PI s1 id + (if s.nexc == id then 1 else 0) := by
    intro id; simp [PI, throwFin, setTask, List.countP_append, isIntr]
  have hDI : ∀ id, DI (throwFin s1 t s.nexc cd) id = DI s id := by
    intro id; simp [DI, throwFin, setTask, h3]
  constructor
  · intro id; rw [hPI, hDI]
    have := ho id; have := h1 id
    by_cases hid : s.nexc = id
    · subst hid; have := hf s.nexc (Nat.le_refl _); simp; omega
    · simp [hid]; omega
  · intro id hid
    simp only [throwFin, setTask, h5] at hid
    rw [hPI, hDI]
    have := hf id (by omega); have := h1 id
    have : s.nexc ≠ id := by omega
    simp [this]; omega
  · intro u id c hm
    simp only [throwFin, setTask, List.mem_append, List.mem_singleton, h4] at hm ⊢
    rcases hm with hm | hm
    · exact Or.inl (hp u id c (h2 _ hm))
    · simp only [Handle.step.injEq, Option.some.injEq, Exc.intr.injEq] at hm
      obtain ⟨rfl, rfl, rfl⟩ := hm; exact Or.inr rfl
  · intro u id c hm
    simp only [throwFin, setTask, h3, h4, List.mem_append] at hm ⊢
    exact Or.inl (hd u id c hm)
  · intro u id hm
    simp only [throwFin, setTask, h4, h5, List.mem_append, List.mem_singleton] at hm ⊢
    rcases hm with hm | hm
    · have := hl u id hm; omega
    · simp only [Prod.mk.injEq] at hm; omega
  · intro u u' id hm hm'
    simp only [throwFin, setTask, h4, List.mem_append, List.mem_singleton, Prod.mk.injEq] at hm hm'
    rcases hm with hm | hm <;> rcases hm' with hm' | hm'
    · exact hu u u' id hm hm'
    · have := hl u id hm; omega
    · have := hl u' id hm'; omega
    · rw [hm.1, hm'.1]

theorem step_ghost {s : State} (hg : Ghost s) (e : Event) : Ghost (step s e).1 := by
  have triv : ∀ (s' : State), s'.ready = s.ready → s'.log = s.log → s'.thrown = s.thrown →
      s.nexc ≤ s'.nexc → Ghost s' := by
    intro s' h1 h2 h3 h4
    exact ghost_congr hg (by intro id; simp [PI, h1]) (by intro t i cd hm; rw [h1] at hm; exact hm) h2 h3 h4
  have app : ∀ (s' : State) (h : Handle), s'.ready = s.ready ++ [h] → (∀ id, isIntr id h = false) →
      s'.log = s.log → s'.thrown = s.thrown → s.nexc ≤ s'.nexc → Ghost s' := by
    intro s' h h1 hh h2 h3 h4
    refine ghost_congr hg (by intro id; simp [PI, h1, List.countP_append, hh]) ?_ h2 h3 h4
    intro t id cd hm; rw [h1] at hm
    rcases List.mem_append.mp hm with hm | hm
    · exact hm
    · simp only [List.mem_singleton] at hm; subst hm; have := hh id; simp [isIntr] at this
  cases e with
  | create py => exact app _ (.step s.nt none) rfl (by intro id; rfl) rfl rfl (Nat.le_refl _)
  | newFut => exact triv _ rfl rfl rfl (Nat.le_refl _)
  | setResult f => simp only [step]; split; exact completeFut_ghost hg _ _; exact hg
  | setExc f => simp only [step]; split; exact completeFut_ghost hg _ _; exact hg
  | cancelFut f => simp only [step]; split; exact completeFut_ghost hg _ _; exact hg
  | addCb f k =>
    simp only [step]; split
    · exact triv _ rfl rfl rfl (Nat.le_refl _)
    · exact app _ (.cb k) rfl (by intro id; rfl) rfl rfl (Nat.le_refl _)
  | setNoCancel f b => exact triv _ rfl rfl rfl (Nat.le_refl _)
  | cancelTask t => simp only [step]; split; exact hg; exact cancelTask_ghost hg t
  | callSoonOther t => exact app _ (.otherBound t) rfl (by intro id; rfl) rfl rfl (Nat.le_refl _)
  | callSoonCb k => exact app _ (.cb k) rfl (by intro id; rfl) rfl rfl (Nat.le_refl _)
  | taskThrow t cd =>
    simp only [step, taskThrow]
    split
    · exact triv _ rfl rfl rfl (Nat.le_succ _)
    · split
      · exact triv _ rfl rfl rfl (Nat.le_succ _)
      split
      · exact throwFin_ghost hg t cd (by intro id; simp [PI, setFut]) (by simp [setFut]) rfl rfl rfl
      · split
        · exact triv _ rfl rfl rfl (Nat.le_succ _)
        · split
          · split
            · exact triv _ rfl rfl rfl (Nat.le_succ _)
            · exact triv _ rfl rfl rfl (Nat.le_succ _)
          · rename_i h r hpop
            have ⟨_, hperm⟩ := popLast_some hpop
            refine throwFin_ghost hg t cd ?_ ?_ rfl rfl rfl
            · intro id; simp only [PI]
              have := hperm.countP_eq (isIntr id); simp only [List.countP_cons] at this; omega
            · intro x hx; exact hperm.mem_iff.mpr (List.mem_cons_of_mem _ hx)
  | reinsert t pos =>
    simp only [step, reinsert]; split
    · exact hg
    · rename_i h r hpop
      have ⟨_, hperm⟩ := popLast_some hpop
      have hp2 : (r.insertIdx (min pos r.length) h).Perm s.ready :=
        (List.perm_insertIdx h r (Nat.min_le_right _ _)).trans hperm.symm
      refine ghost_congr hg ?_ ?_ rfl rfl (Nat.le_refl _)
      · intro id; simp only [PI]; rw [hp2.countP_eq]; exact Nat.le_refl _
      · intro u id c hm; exact hp2.mem_iff.mp hm
  | begin =>
    simp only [step, beginHandle]
    split
    · rename_i h rest _ hr
      have hpop : Ghost { s with ready := rest } := by
        refine ghost_congr hg ?_ ?_ rfl rfl (Nat.le_refl _)
        · intro id; simp only [PI, hr, List.countP_cons]; omega
        · intro u id c hm; rw [hr]; exact List.mem_cons_of_mem _ hm
      split
      · exact hpop
      · exact cancelTask_ghost hpop _
      · exact runStep_ghost hg _ _ hr _ _ (by intro id cd he; rw [he])
      · split
        · exact ghost_congr hpop (by intro id; exact Nat.le_refl _) (by intro u id c hm; exact hm) rfl rfl
            (Nat.le_refl _)
        · exact runStep_ghost hg _ _ hr _ _ (by intro id cd he; cases he)
        · exact runStep_ghost hg _ _ hr _ _ (by intro id cd he; cases he)
        · exact runStep_ghost hg _ _ hr _ _ (by intro id cd he; cases he)
    · exact hg
  | endStep a =>
    simp only [step]
    split
    · rename_i t hc
      cases a with
      | yieldNone => exact app _ (.step t none) rfl (by intro id; rfl) rfl rfl (Nat.le_refl _)
      | yieldErr => exact app _ (.step t (some .runtime)) rfl (by intro id; rfl) rfl rfl (Nat.le_refl _)
      | finish => exact triv _ rfl rfl rfl (Nat.le_refl _)
      | yieldFut f =>
        simp only [endStep]
        split
        · split
          · rw [completeFut_ctx]
            refine completeFut_ghost (s := { setTask (setFut s f _) t _ with ctx := .idle }) ?_ _ _
            exact triv _ rfl rfl rfl (Nat.le_refl _)
          · exact triv _ rfl rfl rfl (Nat.le_refl _)
        · exact app _ (.wakeup t f) rfl (by intro id; rfl) rfl rfl (Nat.le_refl _)
    · exact hg
  | pause => simp only [step]; split; exact triv _ rfl rfl rfl (Nat.le_refl _); exact hg
  | resume => simp only [step]; split; exact triv _ rfl rfl rfl (Nat.le_refl _); exact hg

theorem reachable_ghost {s : State} (h : Reachable s) : Ghost s := by
  obtain ⟨evs, rfl⟩ := h
  suffices ∀ s0, Ghost s0 → Ghost (run s0 evs) from this _ ghost_init
  induction evs with
  | nil => intro s0 h0; exact h0
  | cons e es ih => intro s0 h0; exact ih _ (step_ghost h0 e)

theorem mem_completeFut {s : State} {f : FutId} {st : FutSt} {h : Handle} (hq : h ∈ s.ready) :
    h ∈ (completeFut s f st).ready := by
  unfold completeFut; split
  · exact List.mem_append_left _ hq
  · exact hq

theorem mem_cancelTask {s : State} {u : TaskId} {h : Handle} (hq : h ∈ s.ready) :
    h ∈ (cancelTask s u).ready := by
  unfold cancelTask
  simp only
  split
  · exact hq
  · split
    · split
      · exact mem_completeFut hq
      · exact hq
    · exact hq

end Asynkit.Kernel
