/-
Helper lemmas for C14 (the property statements are in Props/C14.lean).
-/
import Asynkit.Model.Cond
import Asynkit.Model.PQ

namespace Asynkit.Cond

/-! ### the notify walks only touch `fut` -/

/-- two waiter records agree on everything except (possibly) `fut` -/
def SameButFut (a b : Waiter) : Prop :=
  a.pc = b.pc ∧ a.pri = b.pri ∧ a.arr = b.arr ∧ a.cur = b.cur ∧ a.err = b.err ∧
  a.inflight = b.inflight ∧ a.delivered = b.delivered ∧ a.inWF = b.inWF ∧ a.thrown = b.thrown

theorem SameButFut.rfl' (a : Waiter) : SameButFut a a := by simp [SameButFut]

theorem SameButFut.trans {a b c : Waiter} (h1 : SameButFut a b) (h2 : SameButFut b c) :
    SameButFut a c := by
  simp only [SameButFut] at *
  grind

theorem setDone_same (w : Nat → Waiter) (t x : Nat) : SameButFut (setDone w t x) (w x) := by
  unfold setDone setW
  by_cases h : x = t
  · subst h; simp [SameButFut]
  · simp [h, SameButFut]

theorem pcWalk_same (n : Nat) : ∀ (l : List Nat) (c : Nat) (w : Nat → Waiter) (x : Nat),
    SameButFut ((pcWalk n c w l).1 x) (w x)
  | [], c, w, x => by simp [pcWalk, SameButFut]
  | t :: ts, c, w, x => by
    unfold pcWalk
    by_cases hp : isPending w t = true
    · by_cases hc : c + 1 ≥ n
      · simp [hp, hc, setDone_same]
      · simp only [hp, hc, if_true, if_false]
        exact (pcWalk_same n ts (c + 1) (setDone w t) x).trans (setDone_same w t x)
    · simp only [hp]
      exact pcWalk_same n ts c w x

theorem icWalk_same (n : Nat) : ∀ (l : List Nat) (c : Nat) (w : Nat → Waiter) (x : Nat),
    SameButFut ((icWalk n c w l).1 x) (w x)
  | [], c, w, x => by simp [icWalk, SameButFut]
  | t :: ts, c, w, x => by
    unfold icWalk
    by_cases hc : c ≥ n
    · simp [hc, SameButFut]
    · by_cases hp : isPending w t = true
      · simp only [hc, hp, if_true, if_false]
        exact (icWalk_same n ts (c + 1) (setDone w t) x).trans (setDone_same w t x)
      · simp only [hc, hp]
        exact icWalk_same n ts c w x

theorem notifyFn_same (k : Kind) (n : Nat) (w : Nat → Waiter) (q : List Nat) (x : Nat) :
    SameButFut ((notifyFn k n w q).1 x) (w x) := by
  cases k <;> simp only [notifyFn]
  · exact pcWalk_same n _ 0 w x
  · exact icWalk_same n _ 0 w x

/-! ### what the PriorityCondition walk sets -/

theorem isPending_setDone_ne (w : Nat → Waiter) (t x : Nat) (h : x ≠ t) :
    isPending (setDone w t) x = isPending w x := by
  simp [isPending, setDone, setW, h]

/-- `_notify(n)` sets exactly the first `max n 1` not-yet-notified futures of the walk order
    (`count` = number already set). -/
theorem pcWalk_woken (n : Nat) : ∀ (l : List Nat) (c : Nat) (w : Nat → Waiter), l.Nodup →
    (pcWalk n c w l).2 = (l.filter (isPending w)).take (max (n - c) 1)
  | [], c, w, _ => by simp [pcWalk]
  | t :: ts, c, w, hnd => by
    have hnd' := List.nodup_cons.mp hnd
    unfold pcWalk
    by_cases hp : isPending w t = true
    · by_cases hc : c + 1 ≥ n
      · have : max (n - c) 1 = 1 := by omega
        simp [hp, hc, this]
      · have ih := pcWalk_woken n ts (c + 1) (setDone w t) hnd'.2
        have hf : ts.filter (isPending (setDone w t)) = ts.filter (isPending w) :=
          List.filter_congr (fun x hx => isPending_setDone_ne w t x (fun h => hnd'.1 (h ▸ hx)))
        have h1 : max (n - c) 1 = max (n - (c + 1)) 1 + 1 := by omega
        simp only [hp, hc, if_true, if_false, List.filter_cons_of_pos, ih, hf, h1, List.take_succ_cons]
    · have ih := pcWalk_woken n ts c w hnd'.2
      simp [hp, ih]

/-- the special case used by the hand-over in `wait()` needs no distinctness -/
theorem pcWalk_one : ∀ (l : List Nat) (w : Nat → Waiter),
    (pcWalk 1 0 w l).2 = (l.filter (isPending w)).take 1
  | [], w => by simp [pcWalk]
  | t :: ts, w => by
    unfold pcWalk
    by_cases hp : isPending w t = true
    · simp [hp]
    · have ih := pcWalk_one ts w
      simp [hp, ih]

/-- futures after the walk: set to `done` exactly for the reported tids -/
theorem pcWalk_fut (n : Nat) : ∀ (l : List Nat) (c : Nat) (w : Nat → Waiter) (x : Nat),
    ((pcWalk n c w l).1 x).fut = if x ∈ (pcWalk n c w l).2 then Fut.done else (w x).fut
  | [], c, w, x => by simp [pcWalk]
  | t :: ts, c, w, x => by
    unfold pcWalk
    by_cases hp : isPending w t = true
    · by_cases hc : c + 1 ≥ n
      · by_cases hx : x = t
        · subst hx; simp [hp, hc, setDone, setW]
        · simp [hp, hc, setDone, setW, hx]
      · simp only [hp, hc, if_true, if_false]
        rw [pcWalk_fut n ts (c + 1) (setDone w t) x]
        by_cases hx : x = t
        · subst hx; simp [setDone, setW]
        · simp [setDone, setW, hx]
    · simp only [hp]
      exact pcWalk_fut n ts c w x

/-! ### `(priority, arrival)` is a total preorder: `ordereditems` is sorted -/

theorem keyLe_trans (w : Nat → Waiter) (a b c : Nat) :
    keyLe w a b = true → keyLe w b c = true → keyLe w a c = true := by
  simp only [keyLe, Bool.or_eq_true, Bool.and_eq_true, decide_eq_true_eq]
  omega

theorem keyLe_total (w : Nat → Waiter) (a b : Nat) : (keyLe w a b || keyLe w b a) = true := by
  simp only [keyLe, Bool.or_eq_true, Bool.and_eq_true, decide_eq_true_eq]
  omega

theorem insertKey_perm (w : Nat → Waiter) (x : Nat) : ∀ l, (insertKey w x l).Perm (x :: l)
  | [] => by simp [insertKey]
  | y :: ys => by
    unfold insertKey
    split
    · exact List.Perm.refl _
    · exact ((insertKey_perm w x ys).cons y).trans (List.Perm.swap x y ys)

theorem sortQ_perm (w : Nat → Waiter) : ∀ l, (sortQ w l).Perm l
  | [] => by simp [sortQ]
  | x :: xs => by
    unfold sortQ
    exact (insertKey_perm w x _).trans ((sortQ_perm w xs).cons x)

theorem insertKey_sorted (w : Nat → Waiter) (x : Nat) : ∀ l,
    l.Pairwise (fun a b => keyLe w a b = true) →
    (insertKey w x l).Pairwise (fun a b => keyLe w a b = true)
  | [], _ => by simp [insertKey]
  | y :: ys, h => by
    have h' := List.pairwise_cons.mp h
    unfold insertKey
    split
    · rename_i hxy
      refine List.pairwise_cons.mpr ⟨?_, h⟩
      intro z hz
      rcases List.mem_cons.mp hz with hz | hz
      · subst hz; exact hxy
      · exact keyLe_trans w x y z hxy (h'.1 z hz)
    · rename_i hxy
      have hyx : keyLe w y x = true := by
        have := keyLe_total w x y
        simp only [Bool.or_eq_true] at this
        rcases this with h1 | h1
        · exact absurd h1 hxy
        · exact h1
      refine List.pairwise_cons.mpr ⟨?_, insertKey_sorted w x ys h'.2⟩
      intro z hz
      have hz' := (insertKey_perm w x ys).mem_iff.mp hz
      rcases List.mem_cons.mp hz' with hz' | hz'
      · subst hz'; exact hyx
      · exact h'.1 z hz'

theorem sortQ_sorted (w : Nat → Waiter) : ∀ l,
    (sortQ w l).Pairwise (fun a b => keyLe w a b = true)
  | [] => by simp [sortQ]
  | x :: xs => by
    unfold sortQ
    exact insertKey_sorted w x _ (sortQ_sorted w xs)

theorem orderedQ_sorted (w : Nat → Waiter) (q : List Nat) :
    (orderedQ .pc w q).Pairwise (fun a b => keyLe w a b = true) :=
  sortQ_sorted w q

theorem orderedQ_perm (k : Kind) (w : Nat → Waiter) (q : List Nat) : (orderedQ k w q).Perm q := by
  cases k
  · exact sortQ_perm w q
  · exact List.Perm.refl _

/-! ### the invariant -/

structure Good (s : State) : Prop where
  /-- every recorded exit happened with the caller owning the lock -/
  owner : ∀ x ∈ s.exits, x.ownerAt = some x.tid
  /-- between two `wait()` calls of `wait_for` the caller keeps the lock -/
  wf : ∀ t, (s.w t).inWF = true → (s.w t).pc = .idle → s.owner = some t
  /-- exceptions in flight / caught / propagating were all delivered to that task -/
  cur : ∀ t e, (s.w t).cur = some e → e ∈ (s.w t).delivered
  err : ∀ t e, (s.w t).err = some e → e ∈ (s.w t).delivered
  infl : ∀ t e, e ∈ (s.w t).inflight → e ∈ (s.w t).delivered
  /-- every exception that left `wait` had been delivered to the task -/
  ident : ∀ x ∈ s.exits, ∀ e, x.out = .raise e → e ∈ x.delivAt
  /-- PriorityCondition: a raising exit handed the notification on, to the most urgent waiter -/
  pass : ∀ x ∈ s.exits, s.kind = .pc → x.wf = false → x.out ≠ .ret →
           x.passedOn = true ∧ x.handedTo = x.pendingBefore.take 1

theorem good_init (k : Kind) : Good (init k) := by
  constructor <;> simp [init]

theorem outcome_mem (x : Waiter) (e : Nat) (h : outcome x = .raise e)
    (hc : ∀ e, x.cur = some e → e ∈ x.delivered) (he : ∀ e, x.err = some e → e ∈ x.delivered) :
    e ∈ x.delivered := by
  unfold outcome at h
  split at h
  · injection h with h; subst h; exact he _ (by assumption)
  · injection h with h; subst h; exact hc _ (by assumption)
  · cases h


/-- `finish` preserves the invariant when `j` has just become the owner -/
theorem good_finish (s : State) (j : Nat) (g : Good s) (ho : s.owner = some j)
    (hpc : (s.w j).pc = .reacq ∨ (s.w j).pc = .acquiring)
    (hwf : ∀ t, t ≠ j → (s.w t).inWF = true → (s.w t).pc = .idle → False) :
    Good (finish s j) := by
  have hsame : ∀ t, SameButFut
      ((if (decide (outcome (s.w j) ≠ .ret) && decide (s.kind = .pc)) = true
          then notifyFn .pc 1 s.w s.queue else (s.w, [])).1 t) (s.w t) := by
    intro t
    split
    · exact notifyFn_same .pc 1 s.w s.queue t
    · exact SameButFut.rfl' _
  have hid : ∀ e, outcome (s.w j) = .raise e → e ∈ (s.w j).delivered :=
    fun e h => outcome_mem _ e h (g.cur j) (g.err j)
  have hpass : s.kind = .pc → outcome (s.w j) ≠ .ret →
      (decide (outcome (s.w j) ≠ .ret) && decide (s.kind = .pc)) = true ∧
      (if (decide (outcome (s.w j) ≠ .ret) && decide (s.kind = .pc)) = true
          then notifyFn .pc 1 s.w s.queue else (s.w, [])).2
        = (pendingOrdered s.kind s.w s.queue).take 1 := by
    intro hk hne
    have : (decide (outcome (s.w j) ≠ .ret) && decide (s.kind = .pc)) = true := by simp [hk, hne]
    refine ⟨this, ?_⟩
    rw [if_pos this, hk]
    simp only [notifyFn, pendingOrdered]
    exact pcWalk_one _ _
  constructor
  · -- owner
    intro x hx
    simp only [finish] at hx
    split at hx
    · simp only [List.mem_cons] at hx
      rcases hx with h | h | h
      · subst h; exact ho
      · subst h; exact ho
      · exact g.owner x h
    · simp only [List.mem_cons] at hx
      rcases hx with h | h
      · subst h; exact ho
      · exact g.owner x h
  · -- wf
    intro t h1 h2
    by_cases htj : t = j
    · subst htj; simpa [finish] using ho
    · exfalso
      have hs := hsame t
      simp only [finish, setW, htj, if_false] at h1 h2
      exact hwf t htj (hs.2.2.2.2.2.2.2.1 ▸ h1) (hs.1 ▸ h2)
  · -- cur
    intro t e h
    by_cases htj : t = j
    · subst htj; simp [finish, setW] at h
    · have hs := hsame t
      simp only [finish, setW, htj, if_false] at h ⊢
      rw [hs.2.2.2.2.2.2.1]; exact g.cur t e (hs.2.2.2.1 ▸ h)
  · -- err
    intro t e h
    by_cases htj : t = j
    · subst htj; simp [finish, setW] at h
    · have hs := hsame t
      simp only [finish, setW, htj, if_false] at h ⊢
      rw [hs.2.2.2.2.2.2.1]; exact g.err t e (hs.2.2.2.2.1 ▸ h)
  · -- infl
    intro t e h
    have hs := hsame t
    by_cases htj : t = j
    · subst htj
      simp only [finish, setW, if_true] at h ⊢
      rw [hs.2.2.2.2.2.2.1]; exact g.infl t e (hs.2.2.2.2.2.1 ▸ h)
    · simp only [finish, setW, htj, if_false] at h ⊢
      rw [hs.2.2.2.2.2.2.1]; exact g.infl t e (hs.2.2.2.2.2.1 ▸ h)
  · -- ident
    intro x hx e he
    simp only [finish] at hx
    split at hx
    · simp only [List.mem_cons] at hx
      rcases hx with h | h | h
      · subst h; exact hid e he
      · subst h; exact hid e he
      · exact g.ident x h e he
    · simp only [List.mem_cons] at hx
      rcases hx with h | h
      · subst h; exact hid e he
      · exact g.ident x h e he
  · -- pass
    intro x hx hk hwf' hne
    have hk' : s.kind = .pc := by simpa [finish] using hk
    simp only [finish] at hx
    split at hx
    · simp only [List.mem_cons] at hx
      rcases hx with h | h | h
      · subst h; simp at hwf'
      · subst h; exact hpass hk' hne
      · exact g.pass x h hk' hwf' hne
    · simp only [List.mem_cons] at hx
      rcases hx with h | h
      · subst h; exact hpass hk' hne
      · exact g.pass x h hk' hwf' hne

/-- an event that rewrites one waiter record and leaves the exit log alone -/
theorem good_setW (s : State) (j : Nat) (x : Waiter) (o : Option Nat) (q : List Nat) (a : Nat)
    (g : Good s)
    (hwf : ∀ t, (setW s.w j x t).inWF = true → (setW s.w j x t).pc = .idle → o = some t)
    (hcur : ∀ e, x.cur = some e → e ∈ x.delivered)
    (herr : ∀ e, x.err = some e → e ∈ x.delivered)
    (hinfl : ∀ e, e ∈ x.inflight → e ∈ x.delivered) :
    Good { s with owner := o, w := setW s.w j x, queue := q, arrival := a } := by
  refine ⟨g.owner, hwf, ?_, ?_, ?_, g.ident, g.pass⟩
  · intro t e h
    by_cases htj : t = j
    · subst htj; simp only [setW, if_true] at h ⊢; exact hcur e h
    · simp only [setW, htj, if_false] at h ⊢; exact g.cur t e h
  · intro t e h
    by_cases htj : t = j
    · subst htj; simp only [setW, if_true] at h ⊢; exact herr e h
    · simp only [setW, htj, if_false] at h ⊢; exact g.err t e h
  · intro t e h
    by_cases htj : t = j
    · subst htj; simp only [setW, if_true] at h ⊢; exact hinfl e h
    · simp only [setW, htj, if_false] at h ⊢; exact g.infl t e h

/-- the ghost bookkeeping fields play no role in `Good` -/
theorem good_ghost (s : State) (iw : List Nat) (iss : Nat) (g : Good s) :
    Good { s with inwait := iw, issued := iss } :=
  ⟨g.owner, g.wf, g.cur, g.err, g.infl, g.ident, g.pass⟩

/-- a notify: only futures change -/
theorem good_notify (s : State) (w' : Nat → Waiter) (g : Good s)
    (hs : ∀ t, SameButFut (w' t) (s.w t)) : Good { s with w := w' } := by
  refine ⟨g.owner, ?_, ?_, ?_, ?_, g.ident, g.pass⟩
  · intro t h1 h2
    have := hs t
    exact g.wf t (this.2.2.2.2.2.2.2.1 ▸ h1) (this.1 ▸ h2)
  · intro t e h
    have := hs t
    show e ∈ (w' t).delivered
    rw [this.2.2.2.2.2.2.1]; exact g.cur t e (this.2.2.2.1 ▸ h)
  · intro t e h
    have := hs t
    show e ∈ (w' t).delivered
    rw [this.2.2.2.2.2.2.1]; exact g.err t e (this.2.2.2.2.1 ▸ h)
  · intro t e h
    have := hs t
    show e ∈ (w' t).delivered
    rw [this.2.2.2.2.2.2.1]; exact g.infl t e (this.2.2.2.2.2.1 ▸ h)

theorem good_step (s s' : State) (ev : Event) (g : Good s) (h : step s ev = some s') : Good s' := by
  cases ev with
  | acq j =>
    simp only [step] at h
    split at h
    · rename_i hc
      injection h with h; subst h
      refine ⟨g.owner, ?_, g.cur, g.err, g.infl, g.ident, g.pass⟩
      intro t h1 h2
      have := g.wf t h1 h2
      simp_all
    · cases h
  | rel j =>
    simp only [step] at h
    split at h
    · rename_i hc
      injection h with h; subst h
      refine ⟨g.owner, ?_, g.cur, g.err, g.infl, g.ident, g.pass⟩
      intro t h1 h2
      have := g.wf t h1 h2
      simp_all
    · cases h
  | wfStart j =>
    simp only [step] at h
    split at h
    · rename_i hc
      injection h with h; subst h
      refine good_setW s j _ s.owner s.queue s.arrival g ?_ (g.cur j) (g.err j) (g.infl j)
      intro t h1 h2
      by_cases htj : t = j
      · subst htj; exact hc.1
      · simp only [setW, htj, if_false] at h1 h2; exact g.wf t h1 h2
    · cases h
  | wfPred j b =>
    simp only [step] at h
    split at h
    · rename_i hc
      cases b
      · simp at h; subst h; exact g
      · simp only [if_true] at h
        injection h with h; subst h
        have ho : s.owner = some j := g.wf j hc.2 hc.1
        refine ⟨?_, ?_, ?_, ?_, ?_, ?_, ?_⟩
        · intro x hx
          simp only [List.mem_cons] at hx
          rcases hx with hx | hx
          · subst hx; exact ho
          · exact g.owner x hx
        · intro t h1 h2
          by_cases htj : t = j
          · subst htj; simp [setW] at h1
          · simp only [setW, htj, if_false] at h1 h2; exact g.wf t h1 h2
        · intro t e h
          by_cases htj : t = j
          · subst htj; simp only [setW, if_true] at h ⊢; exact g.cur t e h
          · simp only [setW, htj, if_false] at h ⊢; exact g.cur t e h
        · intro t e h
          by_cases htj : t = j
          · subst htj; simp only [setW, if_true] at h ⊢; exact g.err t e h
          · simp only [setW, htj, if_false] at h ⊢; exact g.err t e h
        · intro t e h
          by_cases htj : t = j
          · subst htj; simp only [setW, if_true] at h ⊢; exact g.infl t e h
          · simp only [setW, htj, if_false] at h ⊢; exact g.infl t e h
        · intro x hx e he
          simp only [List.mem_cons] at hx
          rcases hx with hx | hx
          · subst hx; cases he
          · exact g.ident x hx e he
        · intro x hx hk hw hne
          simp only [List.mem_cons] at hx
          rcases hx with hx | hx
          · subst hx; simp at hw
          · exact g.pass x hx hk hw hne
    · cases h
  | waitStart j pri =>
    simp only [step] at h
    split at h
    · rename_i hc
      injection h with h; subst h
      refine good_ghost _ (s.inwait ++ [j]) s.issued
        (good_setW s j { s.w j with pc := .waiting, pri := pri, arr := s.arrival, fut := .pending,
                                    cur := none, err := none, thrown := false }
          none (s.queue ++ [j]) (s.arrival + 1) g ?_ (by simp) (by simp) (g.infl j))
      intro t h1 h2
      by_cases htj : t = j
      · subst htj; simp [setW] at h2
      · simp only [setW, htj, if_false] at h1 h2
        have := g.wf t h1 h2
        rw [hc.1] at this; injection this with this; exact absurd this.symm htj
    · cases h
  | deliver j e c =>
    simp only [step] at h
    split at h
    · rename_i hc
      injection h with h; subst h
      refine good_setW s j _ s.owner s.queue s.arrival g ?_ ?_ ?_ ?_
      · intro t h1 h2
        by_cases htj : t = j
        · subst htj; simp only [setW, if_true] at h2; rcases hc with hc | hc <;> simp [hc] at h2
        · simp only [setW, htj, if_false] at h1 h2; exact g.wf t h1 h2
      · intro e' he'; exact List.mem_cons_of_mem _ (g.cur j e' he')
      · intro e' he'; exact List.mem_cons_of_mem _ (g.err j e' he')
      · intro e' he'
        simp only [List.mem_cons] at he' ⊢
        rcases he' with he' | he'
        · exact Or.inl he'
        · exact Or.inr (g.infl j e' he')
    · cases h
  | wake j r =>
    simp only [step] at h
    split at h
    · rename_i hc
      cases r with
      | ok =>
        simp only at h
        split at h
        · injection h with h; subst h
          refine good_setW s j _ s.owner _ s.arrival g ?_ (by simp) (by simp) (g.infl j)
          intro t h1 h2
          by_cases htj : t = j
          · subst htj; simp [setW] at h2
          · simp only [setW, htj, if_false] at h1 h2; exact g.wf t h1 h2
        · cases h
      | exc e =>
        simp only at h
        split at h
        · rename_i hin
          injection h with h; subst h
          refine good_setW s j _ s.owner _ s.arrival g ?_ ?_ (by simp) ?_
          · intro t h1 h2
            by_cases htj : t = j
            · subst htj; simp [setW] at h2
            · simp only [setW, htj, if_false] at h1 h2; exact g.wf t h1 h2
          · intro e' he'; simp only [Option.some.injEq] at he'; subst he'; exact g.infl j _ hin
          · intro e' he'; exact g.infl j e' (List.mem_of_mem_erase he')
        · cases h
    · cases h
  | acqBlock j =>
    simp only [step] at h
    split at h
    · injection h with h; subst h
      refine good_setW s j _ s.owner s.queue s.arrival g ?_ (g.cur j) (g.err j) (g.infl j)
      intro t h1 h2
      by_cases htj : t = j
      · subst htj; simp [setW] at h2
      · simp only [setW, htj, if_false] at h1 h2; exact g.wf t h1 h2
    · cases h
  | acqImm j =>
    simp only [step] at h
    split at h
    · rename_i hc
      injection h with h; subst h
      have g1 : Good { s with owner := some j } := by
        refine ⟨g.owner, ?_, g.cur, g.err, g.infl, g.ident, g.pass⟩
        intro t h1 h2
        have := g.wf t h1 h2
        rw [hc.2] at this; cases this
      refine good_finish _ j g1 rfl (Or.inl hc.1) ?_
      intro t _ h1 h2
      have := g.wf t h1 h2
      rw [hc.2] at this; cases this
    · cases h
  | acqOk j =>
    simp only [step] at h
    split at h
    · rename_i hc
      injection h with h; subst h
      have g1 : Good { s with owner := some j } := by
        refine ⟨g.owner, ?_, g.cur, g.err, g.infl, g.ident, g.pass⟩
        intro t h1 h2
        have := g.wf t h1 h2
        rw [hc.2] at this; cases this
      refine good_finish _ j g1 rfl (Or.inr hc.1) ?_
      intro t _ h1 h2
      have := g.wf t h1 h2
      rw [hc.2] at this; cases this
    · cases h
  | acqExc j e =>
    simp only [step] at h
    split at h
    · rename_i hc
      injection h with h; subst h
      refine good_setW s j _ s.owner s.queue s.arrival g ?_ (g.cur j) ?_ ?_
      · intro t h1 h2
        by_cases htj : t = j
        · subst htj; simp [setW] at h2
        · simp only [setW, htj, if_false] at h1 h2; exact g.wf t h1 h2
      · intro e' he'; simp only [Option.some.injEq] at he'; subst he'; exact g.infl j _ hc.2
      · intro e' he'; exact g.infl j e' (List.mem_of_mem_erase he')
    · cases h
  | notify j n =>
    simp only [step] at h
    split at h
    · injection h with h; subst h
      exact good_ghost _ s.inwait _ (good_notify s _ g (notifyFn_same s.kind n s.w s.queue))
    · cases h
  | notifyAll j =>
    simp only [step] at h
    split at h
    · injection h with h; subst h
      exact good_ghost _ s.inwait _ (good_notify s _ g (notifyFn_same s.kind s.queue.length s.w s.queue))
    · cases h

theorem good_run : ∀ (es : List Event) (s s' : State), Good s → run s es = some s' → Good s'
  | [], s, s', g, h => by simp [run] at h; subst h; exact g
  | e :: es, s, s', g, h => by
    simp only [run] at h
    split at h
    · cases h
    · rename_i s1 hs
      exact good_run es s1 s' (good_step s s1 e g hs) h

theorem good_reachable {k : Kind} {s : State} (h : Reachable k s) : Good s := by
  obtain ⟨es, h⟩ := h
  exact good_run es _ _ (good_init k) h

/-- the class never changes -/
theorem kind_step (s s' : State) (ev : Event) (h : step s ev = some s') : s'.kind = s.kind := by
  cases ev <;> simp only [step] at h
  all_goals (repeat' split at h)
  all_goals (cases h <;> first | rfl | simp [finish])

theorem kind_run : ∀ (es : List Event) (s s' : State), run s es = some s' → s'.kind = s.kind
  | [], s, s', h => by simp [run] at h; subst h; rfl
  | e :: es, s, s', h => by
    simp only [run] at h
    split at h
    · cases h
    · rename_i s1 hs
      rw [kind_run es s1 s' h, kind_step s s1 e hs]

/-! ### the queue invariant -/

/-- the waiter queue has no repetitions and holds exactly tasks suspended in `await fut` -/
structure QInv (s : State) : Prop where
  nodup : s.queue.Nodup
  waiting : ∀ t ∈ s.queue, (s.w t).pc = .waiting

theorem qinv_init (k : Kind) : QInv (init k) := by
  constructor <;> simp [init]

theorem qinv_setW (s : State) (o : Option Nat) (j : Nat) (x : Waiter) (q : QInv s)
    (h : j ∈ s.queue → x.pc = .waiting) :
    QInv { s with owner := o, w := setW s.w j x } := by
  refine ⟨q.nodup, fun t ht => ?_⟩
  by_cases htj : t = j
  · subst htj; simp only [setW, if_true]; exact h ht
  · simp only [setW, htj, if_false]; exact q.waiting t ht

theorem qinv_finish (s : State) (j : Nat) (q : QInv s) (hj : (s.w j).pc ≠ .waiting) :
    QInv (finish s j) := by
  have hnot : j ∉ s.queue := fun h => hj (q.waiting j h)
  refine ⟨q.nodup, fun t ht => ?_⟩
  have htj : t ≠ j := fun h => hnot (h ▸ ht)
  have hs : SameButFut
      ((if (decide (outcome (s.w j) ≠ .ret) && decide (s.kind = .pc)) = true
          then notifyFn .pc 1 s.w s.queue else (s.w, [])).1 t) (s.w t) := by
    split
    · exact notifyFn_same .pc 1 s.w s.queue t
    · exact SameButFut.rfl' _
  simp only [finish, setW, htj, if_false]
  rw [hs.1]; exact q.waiting t ht

theorem qinv_step (s s' : State) (ev : Event) (q : QInv s) (h : step s ev = some s') : QInv s' := by
  cases ev with
  | acq j =>
    simp only [step] at h; split at h
    · injection h with h; subst h; exact ⟨q.nodup, q.waiting⟩
    · cases h
  | rel j =>
    simp only [step] at h; split at h
    · injection h with h; subst h; exact ⟨q.nodup, q.waiting⟩
    · cases h
  | wfStart j =>
    simp only [step] at h; split at h
    · injection h with h; subst h
      exact qinv_setW s s.owner j _ q (fun hj => q.waiting j hj)
    · cases h
  | wfPred j b =>
    simp only [step] at h; split at h
    · cases b
      · simp at h; subst h; exact q
      · simp only [if_true] at h
        injection h with h; subst h
        refine ⟨q.nodup, fun t ht => ?_⟩
        by_cases htj : t = j
        · subst htj; simp only [setW, if_true]; exact q.waiting t ht
        · simp only [setW, htj, if_false]; exact q.waiting t ht
    · cases h
  | waitStart j pri =>
    simp only [step] at h; split at h
    · rename_i hc
      injection h with h; subst h
      have hnot : j ∉ s.queue := fun hj => by
        have := q.waiting j hj; rw [hc.2] at this; cases this
      refine ⟨?_, fun t ht => ?_⟩
      · exact List.nodup_append.mpr ⟨q.nodup, by simp, by
          intro a ha b hb; simp at hb; subst hb; exact fun h => hnot (h ▸ ha)⟩
      · simp only [List.mem_append, List.mem_singleton] at ht
        by_cases htj : t = j
        · subst htj; simp [setW]
        · simp only [setW, htj, if_false]
          rcases ht with ht | ht
          · exact q.waiting t ht
          · exact absurd ht htj
    · cases h
  | deliver j e c =>
    simp only [step] at h; split at h
    · injection h with h; subst h
      exact qinv_setW s s.owner j _ q (fun hj => q.waiting j hj)
    · cases h
  | wake j r =>
    simp only [step] at h; split at h
    · cases r with
      | ok =>
        simp only at h; split at h
        · injection h with h; subst h
          refine ⟨q.nodup.erase j, fun t ht => ?_⟩
          have := (List.Nodup.mem_erase_iff q.nodup).mp ht
          simp only [setW, this.1, if_false]; exact q.waiting t this.2
        · cases h
      | exc e =>
        simp only at h; split at h
        · injection h with h; subst h
          refine ⟨q.nodup.erase j, fun t ht => ?_⟩
          have := (List.Nodup.mem_erase_iff q.nodup).mp ht
          simp only [setW, this.1, if_false]; exact q.waiting t this.2
        · cases h
    · cases h
  | acqBlock j =>
    simp only [step] at h; split at h
    · rename_i hc
      injection h with h; subst h
      exact qinv_setW s s.owner j _ q (fun hj => by have := q.waiting j hj; rw [hc] at this; cases this)
    · cases h
  | acqImm j =>
    simp only [step] at h; split at h
    · rename_i hc
      injection h with h; subst h
      exact qinv_finish _ j ⟨q.nodup, q.waiting⟩ (by simp [hc.1])
    · cases h
  | acqOk j =>
    simp only [step] at h; split at h
    · rename_i hc
      injection h with h; subst h
      exact qinv_finish _ j ⟨q.nodup, q.waiting⟩ (by simp [hc.1])
    · cases h
  | acqExc j e =>
    simp only [step] at h; split at h
    · rename_i hc
      injection h with h; subst h
      exact qinv_setW s s.owner j _ q (fun hj => by have := q.waiting j hj; rw [hc.1] at this; cases this)
    · cases h
  | notify j n =>
    simp only [step] at h; split at h
    · injection h with h; subst h
      exact ⟨q.nodup, fun t ht => by
        show ((notifyFn s.kind n s.w s.queue).1 t).pc = _
        rw [(notifyFn_same s.kind n s.w s.queue t).1]; exact q.waiting t ht⟩
    · cases h
  | notifyAll j =>
    simp only [step] at h; split at h
    · injection h with h; subst h
      exact ⟨q.nodup, fun t ht => by
        show ((notifyFn s.kind _ s.w s.queue).1 t).pc = _
        rw [(notifyFn_same s.kind _ s.w s.queue t).1]; exact q.waiting t ht⟩
    · cases h

theorem qinv_run : ∀ (es : List Event) (s s' : State), QInv s → run s es = some s' → QInv s'
  | [], s, s', g, h => by simp [run] at h; subst h; exact g
  | e :: es, s, s', g, h => by
    simp only [run] at h
    split at h
    · cases h
    · rename_i s1 hs
      exact qinv_run es s1 s' (qinv_step s s1 e g hs) h

theorem qinv_reachable {k : Kind} {s : State} (h : Reachable k s) : QInv s := by
  obtain ⟨es, h⟩ := h
  exact qinv_run es _ _ (qinv_init k) h

end Asynkit.Cond

/-! ### `ordereditems()` keeps the multiset of entries (any lawful heapq) -/
namespace Asynkit.PQ
variable {π : Type} (H : HeapLib (Entry π)) (plt : π → π → Bool)

theorem popN_perm (hl : H.Lawful (Entry.lt plt)) : ∀ (n : Nat) (popped l : List (Entry π)),
    ((popN H plt n popped l).1 ++ (popN H plt n popped l).2).Perm (popped ++ l)
  | 0, popped, l => by simp [popN]
  | n + 1, popped, l => by
    cases l with
    | nil => simp [popN, hl.pop_nil]
    | cons a l =>
      obtain ⟨l', h1, h2, _⟩ := hl.pop_cons a l
      simp only [popN, h1]
      refine (popN_perm hl n (popped ++ [a]) l').trans ?_
      simp only [List.append_assoc, List.singleton_append]
      exact List.Perm.append_left _ (List.Perm.cons _ h2)

theorem pushAll_perm (hl : H.Lawful (Entry.lt plt)) : ∀ (es l : List (Entry π)),
    (pushAll H plt l es).Perm (es ++ l)
  | [], l => by simp [pushAll]
  | e :: es, l => by
    simp only [pushAll]
    refine (pushAll_perm hl es _).trans ?_
    refine (List.Perm.append_left es (hl.push_perm l e)).trans ?_
    simp only [List.cons_append]
    exact List.perm_middle

theorem restore_perm (hl : H.Lawful (Entry.lt plt)) (popped l : List (Entry π)) :
    (restore H plt popped l).Perm (popped ++ l) := by
  unfold restore
  split
  · exact List.Perm.refl _
  · split
    · exact hl.heapify_perm _
    · exact pushAll_perm H plt hl popped l

theorem ordered_perm (hl : H.Lawful (Entry.lt plt)) (s : PQ π) (k : Nat) :
    ((ordered H plt s k).2.pq).Perm s.pq ∧ (ordered H plt s k).2.seq = s.seq := by
  unfold ordered
  split
  · exact ⟨List.Perm.refl _, rfl⟩
  · refine ⟨?_, rfl⟩
    refine (restore_perm H plt hl _ _).trans ?_
    simpa using popN_perm H plt hl _ [] s.pq

end Asynkit.PQ
