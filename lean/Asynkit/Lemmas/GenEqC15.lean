/-
C15 / C09 — the generated `interrupt.task_throw`, `scheduling._task_reinsert` and the synchronous prefix
of `interrupt.task_interrupt` (`Asynkit/Gen/Interrupt.lean`, regenerated from /repo/src on every run by
translator/interrupt2lean.py) are the `Kernel.taskThrow` / `Kernel.reinsert` events the theorems of
Props/C15.lean and Props/C09.lean are about - for every state.

The Kernel event additionally does the model's ghost bookkeeping (it names the exception object
`intr s.nexc cd`, counts it, and records accepted throws in `thrown`); `ghostThrow` is exactly that.
Scope: Python tasks (`(s.tasks t).py`); the C-task path of task_throw (`c_task_reschedule`) is not modelled.
-/
import Asynkit.Gen.Interrupt
import Asynkit.Lemmas.C09

namespace Asynkit.GenEqC15
open Asynkit Asynkit.Kernel

/-- the ghost bookkeeping of the Kernel's `taskThrow` event around the outcome of the real function -/
def ghostThrow (s0 : State) (t : TaskId) : Except (ThrowErr × State) State → State × Out
  | .ok s' => ({ s' with nexc := s0.nexc + 1, thrown := s0.thrown ++ [(t, s0.nexc)] }, .ok)
  | .error (.assertion, s') => ({ s' with nexc := s0.nexc + 1, err := true }, .kernelError)
  | .error (_, s') => ({ s' with nexc := s0.nexc + 1 }, .refused)

theorem current_beq (s : State) (t : TaskId) : (current s == some t) = decide (s.ctx = .inTask t) := by
  unfold current
  cases hc : s.ctx with
  | stopped => simp
  | idle => simp
  | inTask u => by_cases h : u = t <;> simp [h]

/-- `Gen.Intr.taskThrow` (the Python source) = guard + effect of the Kernel's `taskThrow` event, in every state. -/
theorem taskThrow_eq (s : State) (t : TaskId) (cd : Bool) (hpy : (s.tasks t).py = true) :
    Kernel.taskThrow s t cd = ghostThrow s t (Gen.Intr.taskThrow s t (.intr s.nexc cd)) := by
  unfold Kernel.taskThrow Gen.Intr.taskThrow
  simp only [isBaseException, haveContext, stepMethod, hpy, blockedOn, fwCancelled, futDone, futCancelled,
    queueFindRemove, current_beq]
  by_cases hc : s.ctx = .inTask t <;>
  cases hp : popLast (isOf t) s.ready <;>
  cases hd : (s.tasks t).done <;> cases hm : (s.tasks t).mustCancel <;>
  cases hfw : (s.tasks t).futWaiter <;>
  (try rename_i f; cases hst : (s.futs f).st) <;>
  simp [ghostThrow, throwFin, setFutWaiter, removeDoneCallback, callSoon, setTask, setFut, *]

/-- outcome of `_task_reinsert` as the Kernel's `reinsert` event reports it -/
def ofReinsert : Except (ThrowErr × State) State → State × Out
  | .ok s' => (s', .ok)
  | .error (_, s') => (s', .valueError)

/-- `Gen.Intr.taskReinsert` (scheduling._task_reinsert) = the Kernel's `reinsert` event, in every state. -/
theorem taskReinsert_eq (s : State) (t : TaskId) (pos : Nat) :
    Kernel.reinsert s t pos = ofReinsert (Gen.Intr.taskReinsert s t pos) := by
  unfold Kernel.reinsert Gen.Intr.taskReinsert
  simp only [queueFindRemove]
  cases hp : popLast (isOf t) s.ready <;> simp [ofReinsert, queueInsertPos]

/-- `task_switch(task)` (no `insert_pos`) suspends with a bare `sleep(0)` right after the reinsert. -/
theorem taskSwitchPrefix_eq (s : State) (t : TaskId) :
    Gen.Intr.taskSwitchPrefix s t none = (Gen.Intr.taskReinsert s t 0).map (fun s' => (s', Susp.sleep0)) := by
  unfold Gen.Intr.taskSwitchPrefix
  dsimp only          -- named constants / aliases (`let first := 0`) are unfolded
  cases Gen.Intr.taskReinsert s t 0 <;> rfl

/-- task_throw never raises ValueError -/
theorem taskThrow_not_valueError (s : State) (t : TaskId) (e : Exc) :
    ∀ s', Gen.Intr.taskThrow s t e ≠ .error (.valueError, s') := by
  unfold Gen.Intr.taskThrow
  dsimp only
  repeat' split
  all_goals simp

/-- after an accepted task_throw the last ready handle is the target's `step(exception)` -/
theorem taskThrow_ok_ready (s s1 : State) (t : TaskId) (e : Exc) (h : Gen.Intr.taskThrow s t e = .ok s1) :
    ∃ r, s1.ready = r ++ [Handle.step t (some e)] := by
  revert h
  unfold Gen.Intr.taskThrow stepMethod
  dsimp only
  repeat' split
  all_goals (intro h; first | (cases h; done) | skip)
  all_goals (simp_all [callSoon, setFutWaiter, setTask, removeDoneCallback, setFut])
  all_goals (subst h; exact ⟨_, rfl⟩)

/-- `_task_reinsert` only ever raises ValueError -/
theorem taskReinsert_err (s s' : State) (t : TaskId) (pos : Nat) (e : ThrowErr)
    (h : Gen.Intr.taskReinsert s t pos = .error (e, s')) : e = .valueError ∧ s' = s := by
  revert h
  unfold Gen.Intr.taskReinsert queueFindRemove
  dsimp only
  cases popLast (isOf t) s.ready <;> simp
  intro h1 h2; exact ⟨h1.symm, h2.symm⟩

/-- The Kernel's rendering of `await task_interrupt(t, e)` up to its suspension: the `taskThrow`
    event and, if it was accepted, `reinsert t 0` (then `endStep yieldNone`, the suspension itself). -/
def kernelInterruptPrefix (s : State) (t : TaskId) (cd : Bool) : State × Out :=
  if (Kernel.taskThrow s t cd).2 = .ok then Kernel.reinsert (Kernel.taskThrow s t cd).1 t 0
  else Kernel.taskThrow s t cd

/-- `Gen.Intr.taskInterruptPrefix` (interrupt.task_interrupt up to the first suspension) is that event
    sequence: same refusals, same state, and the suspension is the bare `sleep(0)`. -/
theorem taskInterruptPrefix_eq (s : State) (t : TaskId) (cd : Bool) (hpy : (s.tasks t).py = true) :
    match Gen.Intr.taskInterruptPrefix s t (.intr s.nexc cd) with
    | .ok (s2, susp) =>
      susp = Susp.sleep0 ∧ kernelInterruptPrefix s t cd = ((ghostThrow s t (.ok s2)).1, .ok)
    | .error e => e.1 ≠ .valueError ∧ kernelInterruptPrefix s t cd = ghostThrow s t (.error e) := by
  unfold Gen.Intr.taskInterruptPrefix kernelInterruptPrefix
  rw [taskThrow_eq s t cd hpy]
  cases hthrow : Gen.Intr.taskThrow s t (.intr s.nexc cd) with
  | error e =>
    obtain ⟨e, se⟩ := e
    have hne : e ≠ .valueError := by
      intro he; subst he; exact taskThrow_not_valueError _ _ _ _ hthrow
    refine ⟨hne, ?_⟩
    cases e <;> simp_all [ghostThrow]
  | ok s1 =>
    -- the reinsert cannot fail: the step handle was just queued
    obtain ⟨r, hr⟩ := taskThrow_ok_ready _ _ _ _ hthrow
    have hpop : popLast (isOf t) s1.ready ≠ none := by
      intro h
      have := popLast_none.mp h
      rw [hr, List.countP_append] at this
      simp [isOf, taskFromHandle] at this
    simp only [ghostThrow, taskSwitchPrefix_eq]
    rw [taskReinsert_eq]
    unfold Gen.Intr.taskReinsert
    simp only [queueFindRemove]
    -- the ghost fields (nexc, thrown) do not interact with the reinsert
    cases hp : popLast (isOf t) s1.ready with
    | none => exact absurd hp hpop
    | some x => simp [Except.map, ofReinsert, queueInsertPos]

end Asynkit.GenEqC15
