/-
C14 — the accounting invariant behind `notification_conservation` (Props/C14.lean): every future set by a
notify walk is either still in flight (its waiter is inside `wait()`) or belongs to a recorded exit.
-/
import Asynkit.Lemmas.C14
namespace Asynkit.Cond

/-- number of tasks of `l` whose future has been set by a notify -/
def countDone (w : Nat → Waiter) (l : List Nat) : Nat := l.countP (fun t => (w t).fut == .done)

/-- number of recorded exits of `wait()` by a waiter whose future had been set -/
def nExitedNotified (ex : List ExitRec) : Nat := ex.countP (fun x => !x.wf && x.notified)

theorem countDone_congr (w w' : Nat → Waiter) (l : List Nat)
    (h : ∀ t ∈ l, ((w' t).fut == Fut.done) = ((w t).fut == Fut.done)) :
    countDone w' l = countDone w l := by
  unfold countDone
  exact List.countP_congr (fun t ht => by simp [h t ht])

theorem countDone_append (w : Nat → Waiter) (a b : List Nat) :
    countDone w (a ++ b) = countDone w a + countDone w b := by
  simp [countDone, List.countP_append]

theorem countDone_setDone_notin (w : Nat → Waiter) (t : Nat) (l : List Nat) (h : t ∉ l) :
    countDone (setDone w t) l = countDone w l :=
  countDone_congr _ _ _ (fun x hx => by
    have : x ≠ t := fun e => h (e ▸ hx)
    simp [setDone, setW, this])

theorem countDone_setDone_in (w : Nat → Waiter) (t : Nat) : ∀ (l : List Nat), l.Nodup → t ∈ l →
    (w t).fut ≠ .done → countDone (setDone w t) l = countDone w l + 1
  | [], _, h, _ => by cases h
  | a :: l, hnd, hin, hf => by
    have hnd' := List.nodup_cons.mp hnd
    by_cases ha : a = t
    · subst ha
      have h1 := countDone_setDone_notin w a l hnd'.1
      have h2 : ((setDone w a a).fut == Fut.done) = true := by simp [setDone, setW]
      have h3 : ((w a).fut == Fut.done) = false := by simpa using hf
      simp only [countDone, List.countP_cons, h2, h3] at h1 ⊢
      simp [h1]
    · have hin' : t ∈ l := by
        rcases List.mem_cons.mp hin with h | h
        · exact absurd h.symm ha
        · exact h
      have ih := countDone_setDone_in w t l hnd'.2 hin' hf
      have h2 : ((setDone w t a).fut == Fut.done) = ((w a).fut == Fut.done) := by
        simp [setDone, setW, ha]
      simp only [countDone, List.countP_cons, h2] at ih ⊢
      omega

theorem pending_not_done (w : Nat → Waiter) (t : Nat) (h : isPending w t = true) :
    (w t).fut ≠ .done := by
  simp only [isPending, beq_iff_eq] at h
  rw [h]; simp

theorem pcWalk_count (n : Nat) (l : List Nat) (hl : l.Nodup) : ∀ (q : List Nat) (c : Nat)
    (w : Nat → Waiter), (∀ t ∈ q, t ∈ l) →
    countDone (pcWalk n c w q).1 l = countDone w l + (pcWalk n c w q).2.length
  | [], c, w, _ => by simp [pcWalk]
  | t :: ts, c, w, hq => by
    have ht : t ∈ l := hq t (by simp)
    have hts : ∀ x ∈ ts, x ∈ l := fun x hx => hq x (by simp [hx])
    unfold pcWalk
    by_cases hp : isPending w t = true
    · have h1 := countDone_setDone_in w t l hl ht (pending_not_done w t hp)
      by_cases hc : c + 1 ≥ n
      · simp [hp, hc, h1]
      · have ih := pcWalk_count n l hl ts (c + 1) (setDone w t) hts
        simp only [hp, hc, if_true, if_false, List.length_cons]
        omega
    · simp only [hp]
      exact pcWalk_count n l hl ts c w hts

theorem icWalk_count (n : Nat) (l : List Nat) (hl : l.Nodup) : ∀ (q : List Nat) (c : Nat)
    (w : Nat → Waiter), (∀ t ∈ q, t ∈ l) →
    countDone (icWalk n c w q).1 l = countDone w l + (icWalk n c w q).2.length
  | [], c, w, _ => by simp [icWalk]
  | t :: ts, c, w, hq => by
    have ht : t ∈ l := hq t (by simp)
    have hts : ∀ x ∈ ts, x ∈ l := fun x hx => hq x (by simp [hx])
    unfold icWalk
    by_cases hc : c ≥ n
    · simp [hc]
    · by_cases hp : isPending w t = true
      · have h1 := countDone_setDone_in w t l hl ht (pending_not_done w t hp)
        have ih := icWalk_count n l hl ts (c + 1) (setDone w t) hts
        simp only [hc, hp, if_true, if_false, List.length_cons]
        omega
      · simp only [hc, hp]
        exact icWalk_count n l hl ts c w hts

theorem notifyFn_count (k : Kind) (n : Nat) (w : Nat → Waiter) (q l : List Nat) (hl : l.Nodup)
    (hq : ∀ t ∈ q, t ∈ l) :
    countDone (notifyFn k n w q).1 l = countDone w l + (notifyFn k n w q).2.length := by
  have hq' : ∀ t ∈ orderedQ k w q, t ∈ l := fun t ht => hq t ((orderedQ_perm k w q).mem_iff.mp ht)
  cases k <;> simp only [notifyFn]
  · exact pcWalk_count n l hl _ 0 w hq'
  · exact icWalk_count n l hl _ 0 w hq'

theorem countDone_erase (w : Nat → Waiter) (j : Nat) : ∀ (l : List Nat), l.Nodup → j ∈ l →
    countDone w l = countDone w (l.erase j) + (if (w j).fut == .done then 1 else 0)
  | [], _, h => by cases h
  | a :: l, hnd, hin => by
    have hnd' := List.nodup_cons.mp hnd
    by_cases ha : a = j
    · subst ha
      simp only [List.erase_cons_head, countDone, List.countP_cons]
    · have hin' : j ∈ l := by
        rcases List.mem_cons.mp hin with h | h
        · exact absurd h.symm ha
        · exact h
      have ih := countDone_erase w j l hnd'.2 hin'
      have hne : (a == j) = false := by simp [ha]
      simp only [List.erase_cons, hne, countDone, List.countP_cons] at ih ⊢
      simp only [Bool.false_eq_true, if_false, List.countP_cons]
      omega

end Asynkit.Cond

namespace Asynkit.Cond

theorem setDone_fut (w : Nat → Waiter) (t x : Nat) :
    (setDone w t x).fut = .done ∨ (setDone w t x).fut = (w x).fut := by
  by_cases h : x = t
  · subst h; left; simp [setDone, setW]
  · right; simp [setDone, setW, h]

theorem pcWalk_fut_or (n : Nat) : ∀ (l : List Nat) (c : Nat) (w : Nat → Waiter) (x : Nat),
    ((pcWalk n c w l).1 x).fut = .done ∨ ((pcWalk n c w l).1 x).fut = (w x).fut
  | [], c, w, x => by simp [pcWalk]
  | t :: ts, c, w, x => by
    unfold pcWalk
    by_cases hp : isPending w t = true
    · by_cases hc : c + 1 ≥ n
      · simp only [hp, hc, if_true]; exact setDone_fut w t x
      · simp only [hp, hc, if_true, if_false]
        rcases pcWalk_fut_or n ts (c + 1) (setDone w t) x with h | h
        · exact Or.inl h
        · rw [h]; exact setDone_fut w t x
    · simp only [hp]; exact pcWalk_fut_or n ts c w x

theorem icWalk_fut_or (n : Nat) : ∀ (l : List Nat) (c : Nat) (w : Nat → Waiter) (x : Nat),
    ((icWalk n c w l).1 x).fut = .done ∨ ((icWalk n c w l).1 x).fut = (w x).fut
  | [], c, w, x => by simp [icWalk]
  | t :: ts, c, w, x => by
    unfold icWalk
    by_cases hc : c ≥ n
    · simp [hc]
    · by_cases hp : isPending w t = true
      · simp only [hc, hp, if_true, if_false]
        rcases icWalk_fut_or n ts (c + 1) (setDone w t) x with h | h
        · exact Or.inl h
        · rw [h]; exact setDone_fut w t x
      · simp only [hc, hp]; exact icWalk_fut_or n ts c w x

theorem notifyFn_fut_or (k : Kind) (n : Nat) (w : Nat → Waiter) (q : List Nat) (x : Nat) :
    ((notifyFn k n w q).1 x).fut = .done ∨ ((notifyFn k n w q).1 x).fut = (w x).fut := by
  cases k <;> simp only [notifyFn]
  · exact pcWalk_fut_or n _ 0 w x
  · exact icWalk_fut_or n _ 0 w x

/-- the accounting invariant -/
structure CInv (s : State) : Prop where
  nodup : s.inwait.Nodup
  mem : ∀ t, t ∈ s.inwait ↔ (s.w t).pc ≠ .idle
  count : s.issued = nExitedNotified s.exits + countDone s.w s.inwait
  retn : ∀ x ∈ s.exits, x.wf = false → x.out = .ret → x.notified = true
  notif : ∀ t, ((s.w t).pc = .reacq ∨ (s.w t).pc = .acquiring) → (s.w t).cur = none →
            (s.w t).err = none → (s.w t).fut = .done

theorem cinv_init (k : Kind) : CInv (init k) := by
  constructor <;> simp [init, nExitedNotified, countDone]

/-- an event that rewrites one waiter record without changing whether it is inside `wait()` or
whether its future is set; the exit log may gain `wait_for` records -/
theorem cinv_setW (s : State) (o : Option Nat) (j : Nat) (x : Waiter) (q' : List Nat)
    (ex' : List ExitRec) (c : CInv s)
    (hpc : x.pc = .idle ↔ (s.w j).pc = .idle)
    (hfut : (x.fut == Fut.done) = ((s.w j).fut == Fut.done))
    (hnotif : (x.pc = .reacq ∨ x.pc = .acquiring) → x.cur = none → x.err = none → x.fut = .done)
    (hex : nExitedNotified ex' = nExitedNotified s.exits)
    (hretn : ∀ r ∈ ex', r.wf = false → r.out = .ret → r.notified = true) :
    CInv { s with owner := o, w := setW s.w j x, queue := q', exits := ex' } := by
  refine ⟨c.nodup, ?_, ?_, hretn, ?_⟩
  · intro t
    by_cases htj : t = j
    · subst htj; simp only [setW, if_true]; rw [c.mem t]; exact not_congr hpc.symm
    · simp only [setW, htj, if_false]; exact c.mem t
  · show s.issued = nExitedNotified ex' + countDone (setW s.w j x) s.inwait
    rw [hex, c.count]
    congr 1
    exact (countDone_congr _ _ _ (fun t _ => by
      by_cases htj : t = j
      · subst htj; simp only [setW, if_true]; exact hfut
      · simp only [setW, htj, if_false])).symm
  · intro t
    by_cases htj : t = j
    · subst htj; simp only [setW, if_true]; exact hnotif
    · simp only [setW, htj, if_false]; exact c.notif t

theorem nExitedNotified_cons (r : ExitRec) (ex : List ExitRec) :
    nExitedNotified (r :: ex) = nExitedNotified ex + (if (!r.wf && r.notified) = true then 1 else 0) := by
  simp [nExitedNotified, List.countP_cons]

theorem cinv_finish (s : State) (j : Nat) (c : CInv s) (q : QInv s)
    (hpc : (s.w j).pc = .reacq ∨ (s.w j).pc = .acquiring) : CInv (finish s j) := by
  have hjin : j ∈ s.inwait := (c.mem j).mpr (by rcases hpc with h | h <;> simp [h])
  have hjq : j ∉ s.queue := fun h => by
    have := q.waiting j h; rcases hpc with h' | h' <;> simp [h'] at this
  have hnd' : (s.inwait.erase j).Nodup := c.nodup.erase j
  have hmem' : ∀ t, t ∈ s.inwait.erase j ↔ (t ≠ j ∧ t ∈ s.inwait) := fun t =>
    List.Nodup.mem_erase_iff c.nodup
  have hq' : ∀ t ∈ s.queue, t ∈ s.inwait.erase j := fun t ht =>
    (hmem' t).mpr ⟨fun e => hjq (e ▸ ht), (c.mem t).mpr (by rw [q.waiting t ht]; simp)⟩
  -- abbreviations for the hand-over
  generalize hr : (if (decide (outcome (s.w j) ≠ .ret) && decide (s.kind = .pc)) = true
          then notifyFn .pc 1 s.w s.queue else (s.w, [])) = r
  have hcount : countDone r.1 (s.inwait.erase j) = countDone s.w (s.inwait.erase j) + r.2.length := by
    subst hr
    split
    · exact notifyFn_count .pc 1 s.w s.queue _ hnd' hq'
    · simp
  have hsame : ∀ t, SameButFut (r.1 t) (s.w t) := by
    intro t; subst hr
    split
    · exact notifyFn_same .pc 1 s.w s.queue t
    · exact SameButFut.rfl' _
  have hfutor : ∀ t, (r.1 t).fut = .done ∨ (r.1 t).fut = (s.w t).fut := by
    intro t; subst hr
    split
    · exact notifyFn_fut_or .pc 1 s.w s.queue t
    · exact Or.inr rfl
  have hret : outcome (s.w j) = .ret → (s.w j).fut = .done := by
    intro h
    unfold outcome at h
    split at h
    · cases h
    · cases h
    · exact c.notif j hpc (by assumption) (by assumption)
  have herase := countDone_erase s.w j s.inwait c.nodup hjin
  -- the new waiter table agrees with r.1 on everything but j
  have hcd : countDone (setW r.1 j
        { r.1 j with pc := .idle, cur := none, err := none,
                     inWF := (s.w j).inWF && !((s.w j).inWF && decide (outcome (s.w j) ≠ .ret)) })
        (s.inwait.erase j) = countDone r.1 (s.inwait.erase j) :=
    countDone_congr _ _ _ (fun t ht => by
      have : t ≠ j := ((hmem' t).mp ht).1
      simp [setW, this])
  refine ⟨?_, ?_, ?_, ?_, ?_⟩
  · simpa [finish] using hnd'
  · intro t
    simp only [finish, hr]
    rw [hmem' t]
    by_cases htj : t = j
    · subst htj; simp [setW]
    · simp only [setW, htj, if_false, ne_eq, not_false_eq_true, true_and]
      rw [(hsame t).1]; exact c.mem t
  · simp only [finish, hr]
    rw [hcd, hcount, c.count, herase]
    split <;> split <;> simp_all [nExitedNotified_cons] <;> omega
  · intro x hx hwf hout
    simp only [finish, hr] at hx
    split at hx
    · simp only [List.mem_cons] at hx
      rcases hx with h | h | h
      · subst h; simp at hwf
      · subst h; simpa using hret hout
      · exact c.retn x h hwf hout
    · simp only [List.mem_cons] at hx
      rcases hx with h | h
      · subst h; simpa using hret hout
      · exact c.retn x h hwf hout
  · intro t h1 h2 h3
    by_cases htj : t = j
    · subst htj; simp [finish, setW] at h1
    · simp only [finish, hr, setW, htj, if_false] at h1 h2 h3 ⊢
      have hs := hsame t
      have := c.notif t (by rw [← hs.1]; exact h1) (by rw [← hs.2.2.2.1]; exact h2)
        (by rw [← hs.2.2.2.2.1]; exact h3)
      rcases hfutor t with h | h
      · exact h
      · rw [h]; exact this

end Asynkit.Cond

namespace Asynkit.Cond

theorem cinv_owner (s : State) (o : Option Nat) (c : CInv s) : CInv { s with owner := o } :=
  ⟨c.nodup, c.mem, c.count, c.retn, c.notif⟩

theorem cinv_notify (s : State) (n : Nat) (c : CInv s) (q : QInv s) :
    CInv { s with w := (notifyFn s.kind n s.w s.queue).1,
                  issued := s.issued + (notifyFn s.kind n s.w s.queue).2.length } := by
  have hq : ∀ t ∈ s.queue, t ∈ s.inwait := fun t ht =>
    (c.mem t).mpr (by rw [q.waiting t ht]; simp)
  have hsame := notifyFn_same s.kind n s.w s.queue
  refine ⟨c.nodup, ?_, ?_, c.retn, ?_⟩
  · intro t
    show t ∈ s.inwait ↔ ((notifyFn s.kind n s.w s.queue).1 t).pc ≠ .idle
    rw [(hsame t).1]; exact c.mem t
  · show s.issued + _ = nExitedNotified s.exits + countDone (notifyFn s.kind n s.w s.queue).1 s.inwait
    rw [notifyFn_count s.kind n s.w s.queue s.inwait c.nodup hq, c.count]; omega
  · intro t h1 h2 h3
    have hs := hsame t
    have := c.notif t (by rw [← hs.1]; exact h1) (by rw [← hs.2.2.2.1]; exact h2)
      (by rw [← hs.2.2.2.2.1]; exact h3)
    rcases notifyFn_fut_or s.kind n s.w s.queue t with h | h
    · exact h
    · show ((notifyFn s.kind n s.w s.queue).1 t).fut = .done
      rw [h]; exact this

theorem cinv_step (s s' : State) (ev : Event) (c : CInv s) (q : QInv s)
    (h : step s ev = some s') : CInv s' := by
  cases ev with
  | acq j =>
    simp only [step] at h; split at h
    · injection h with h; subst h; exact cinv_owner s _ c
    · cases h
  | rel j =>
    simp only [step] at h; split at h
    · injection h with h; subst h; exact cinv_owner s _ c
    · cases h
  | wfStart j =>
    simp only [step] at h; split at h
    · rename_i hc
      injection h with h; subst h
      exact cinv_setW s s.owner j _ s.queue s.exits c (by simp) rfl
        (fun hp => by rcases hp with hp | hp <;> simp [hc.2.1] at hp) rfl c.retn
    · cases h
  | wfPred j b =>
    simp only [step] at h; split at h
    · rename_i hc
      cases b
      · simp at h; subst h; exact c
      · simp only [if_true] at h
        injection h with h; subst h
        refine cinv_setW s s.owner j _ s.queue _ c (by simp) rfl
          (fun hp => by rcases hp with hp | hp <;> simp [hc.1] at hp) ?_ ?_
        · simp [nExitedNotified_cons]
        · intro r hr hwf hout
          rcases List.mem_cons.mp hr with hr | hr
          · subst hr; simp at hwf
          · exact c.retn r hr hwf hout
    · cases h
  | waitStart j pri =>
    simp only [step] at h; split at h
    · rename_i hc
      injection h with h; subst h
      have hjn : j ∉ s.inwait := fun hj => ((c.mem j).mp hj) hc.2
      refine ⟨?_, ?_, ?_, c.retn, ?_⟩
      · exact List.nodup_append.mpr ⟨c.nodup, by simp, by
          intro a ha b hb; simp at hb; subst hb; exact fun e => hjn (e ▸ ha)⟩
      · intro t
        simp only [List.mem_append, List.mem_singleton]
        by_cases htj : t = j
        · subst htj; simp [setW]
        · simp only [setW, htj, if_false, or_false]; exact c.mem t
      · show s.issued = nExitedNotified s.exits + countDone _ (s.inwait ++ [j])
        rw [countDone_append, c.count]
        have h1 : ∀ x : Waiter, countDone (setW s.w j x) s.inwait = countDone s.w s.inwait :=
          fun x => countDone_congr _ _ _ (fun t ht => by
            have : t ≠ j := fun e => hjn (e ▸ ht)
            simp [setW, this])
        rw [h1]
        simp [countDone, setW]
      · intro t h1 h2 h3
        by_cases htj : t = j
        · subst htj; simp [setW] at h1
        · simp only [setW, htj, if_false] at h1 h2 h3 ⊢; exact c.notif t h1 h2 h3
    · cases h
  | deliver j e cn =>
    simp only [step] at h; split at h
    · rename_i hc
      injection h with h; subst h
      refine cinv_setW s s.owner j _ s.queue s.exits c (by simp) ?_ ?_ rfl c.retn
      · simp only
        split
        · rename_i hcond
          simp only [Bool.and_eq_true, decide_eq_true_eq] at hcond
          rw [hcond.1.2]; decide
        · rfl
      · intro hp h2 h3
        simp only at hp h2 h3 ⊢
        have hacq : (s.w j).pc = .acquiring := by
          rcases hp with hp | hp
          · rcases hc with hc | hc <;> simp [hc] at hp
          · exact hp
        have := c.notif j (Or.inr hacq) h2 h3
        simp [hacq, this]
    · cases h
  | wake j r =>
    simp only [step] at h; split at h
    · rename_i hc
      cases r with
      | ok =>
        simp only at h; split at h
        · rename_i hd
          injection h with h; subst h
          exact cinv_setW s s.owner j _ _ s.exits c (by simp [hc]) rfl (fun _ _ _ => hd) rfl c.retn
        · cases h
      | exc e =>
        simp only at h; split at h
        · injection h with h; subst h
          exact cinv_setW s s.owner j _ _ s.exits c (by simp [hc]) rfl
            (fun _ h2 _ => by simp at h2) rfl c.retn
        · cases h
    · cases h
  | acqBlock j =>
    simp only [step] at h; split at h
    · rename_i hc
      injection h with h; subst h
      exact cinv_setW s s.owner j _ s.queue s.exits c (by simp [hc]) rfl
        (fun _ h2 h3 => c.notif j (Or.inl hc) h2 h3) rfl c.retn
    · cases h
  | acqImm j =>
    simp only [step] at h; split at h
    · rename_i hc
      injection h with h; subst h
      exact cinv_finish _ j (cinv_owner s _ c) ⟨q.nodup, q.waiting⟩ (Or.inl hc.1)
    · cases h
  | acqOk j =>
    simp only [step] at h; split at h
    · rename_i hc
      injection h with h; subst h
      exact cinv_finish _ j (cinv_owner s _ c) ⟨q.nodup, q.waiting⟩ (Or.inr hc.1)
    · cases h
  | acqExc j e =>
    simp only [step] at h; split at h
    · rename_i hc
      injection h with h; subst h
      exact cinv_setW s s.owner j _ s.queue s.exits c (by simp [hc.1]) rfl
        (fun _ _ h3 => by simp at h3) rfl c.retn
    · cases h
  | notify j n =>
    simp only [step] at h; split at h
    · injection h with h; subst h; exact cinv_notify s n c q
    · cases h
  | notifyAll j =>
    simp only [step] at h; split at h
    · injection h with h; subst h; exact cinv_notify s _ c q
    · cases h

theorem cinv_run : ∀ (es : List Event) (s s' : State), CInv s → QInv s → run s es = some s' → CInv s'
  | [], s, s', c, _, h => by simp [run] at h; subst h; exact c
  | e :: es, s, s', c, q, h => by
    simp only [run] at h
    split at h
    · cases h
    · rename_i s1 hs
      exact cinv_run es s1 s' (cinv_step s s1 e c q hs) (qinv_step s s1 e q hs) h

theorem cinv_reachable {k : Kind} {s : State} (h : Reachable k s) : CInv s := by
  obtain ⟨es, h⟩ := h
  exact cinv_run es _ _ (cinv_init k) (qinv_init k) h

end Asynkit.Cond

namespace Asynkit.Cond

/-- exits of `wait()` by normal return / by exception after having been notified -/
def nReturned (ex : List ExitRec) : Nat := ex.countP (fun x => !x.wf && decide (x.out = .ret))
def nRaisedNotified (ex : List ExitRec) : Nat :=
  ex.countP (fun x => !x.wf && !decide (x.out = .ret) && x.notified)

theorem nExitedNotified_split : ∀ (ex : List ExitRec),
    (∀ x ∈ ex, x.wf = false → x.out = .ret → x.notified = true) →
    nExitedNotified ex = nReturned ex + nRaisedNotified ex
  | [], _ => by simp [nExitedNotified, nReturned, nRaisedNotified]
  | x :: ex, h => by
    have ih := nExitedNotified_split ex (fun y hy => h y (List.mem_cons_of_mem _ hy))
    have hx := h x (List.mem_cons_self)
    simp only [nExitedNotified, nReturned, nRaisedNotified, List.countP_cons] at ih ⊢
    by_cases hw : x.wf = true
    · simp [hw]; omega
    · have hw' : x.wf = false := by simpa using hw
      by_cases hr : x.out = .ret
      · have := hx hw' hr
        simp [hw', hr, this]; omega
      · by_cases hn : x.notified = true
        · simp [hw', hr, hn]; omega
        · have hn' : x.notified = false := by simpa using hn
          simp [hw', hr, hn']; omega

end Asynkit.Cond
