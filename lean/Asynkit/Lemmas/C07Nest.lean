/-
C07, nested monitors end to end: where an OOBData comes from, for coroutines nested to any depth
(repaired relay, /repo e5acd69).

`Tag A c` says of a coroutine `c` (a leaf, or a `nest` of parents over a leaf): for every activation run
while `A` is active (its cell is 1, or a left-over -1), there is a *syntactic* source `src` — "the
activation ended because some body below executed `await A.oob(d)`" — and the object that comes out is
the request `req A d` exactly in that case, with `A`'s cell at -1 then; `A`'s cell is never reset by
anybody below.  The relay of `A` raises OOBData exactly for a request addressed to `A`
(`Monitor.relayTop`), so this is "each driver sees exactly its own data, once, in order".

No hypothesis about GeneratorExit is needed any more: an `oob` value swallowed by the `close()` of an inner
relay leaves a -1 behind, which the repaired relay recognises as left over because what it receives next is
not a request addressed to it.  (Before the repair: `Asynkit.C07.stale_oob_after_close`.)
-/
import Asynkit.Lemmas.C07

namespace Asynkit.Monitor
open Asynkit.Proto (Val Exc Resume)

/-- monitor `A` is driving: cell 1, or -1 left over from a swallowed oob value -/
def Active (env : Env) (A : MonId) : Prop := env A = 1 ∨ env A = -1

theorem Active.ne_zero {env : Env} {A : MonId} (h : Active env A) : env A ≠ 0 := by
  cases h with
  | inl h => rw [h]; decide
  | inr h => rw [h]; decide

theorem Active.set_other {env : Env} {A : MonId} (h : Active env A) (m : MonId) (x : Int) (hm : m ≠ A) :
    Active (env.set m x) A := by
  unfold Active; rw [Env.set_other _ _ _ _ (Ne.symm hm)]; exact h

/-- postcondition of an activation run with `A` active -/
def Post {σ : Type} (A : MonId) (ok : σ → Prop) (src : Option Val) : SRes σ → Prop
  | .yield y s env' =>
    ok s ∧ Active env' A ∧ (∀ d, y = .req A d ↔ src = some d) ∧ (∀ d, y = .req A d → env' A = -1)
  | .ret _ s env' => ok s ∧ Active env' A ∧ src = none
  | .raise _ s env' => ok s ∧ Active env' A ∧ src = none

/-- leaf: the activation ends in an accepted `A.oob(d)` -/
def stepSrc {σ : Type} (A : MonId) : Step σ → Env → Option Val
  | .oob m d _ refused, env =>
    if env m = 0 then stepSrc A (refused ()) env else if m = A then some d else none
  | _, _ => none

theorem oob_post {σ : Type} (A : MonId) (ok : σ → Prop) (m : MonId) (d : Val) (s : σ) (env : Env)
    (hok : ok s) (hA : Active env A) :
    Post A ok (if m = A then some d else none) (.yield (.req m d) s (env.set m (-1))) := by
  by_cases hm : m = A
  · subst hm
    refine ⟨hok, Or.inr (by simp), fun d' => ?_, fun _ _ => by simp⟩
    simp
  · refine ⟨hok, hA.set_other m (-1) hm, fun d' => ?_, fun d' h => ?_⟩
    · simp [hm]
    · simp at h; exact absurd h.1 hm

theorem leaf_post {σ : Type} (A : MonId) (st : Step σ) (env : Env) (hA : Active env A) :
    Post A (fun _ => True) (stepSrc A st env) (resolve st env) := by
  induction st with
  | yield y s => exact ⟨trivial, hA, fun d => by simp [stepSrc], fun d h => by simp at h⟩
  | ret v s => exact ⟨trivial, hA, rfl⟩
  | raise e s => exact ⟨trivial, hA, rfl⟩
  | oob m d s refused ih =>
    simp only [resolve, stepSrc]
    by_cases h0 : env m = 0
    · simp only [h0, ↓reduceIte]; exact ih ()
    · simp only [h0, ↓reduceIte]; exact oob_post A _ m d s env trivial hA

/-- the tag property of a coroutine w.r.t. monitor `A` -/
structure Tag (A : MonId) (c : SBody) where
  ok : c.σ → Prop                        -- reachable states
  src : c.σ → Resume → Env → Option Val
  ok_init : ok c.init
  post : ∀ s r env, ok s → Active env A → Post A ok (src s r env) (c.resume s r env)

def tagLeaf (A : MonId) (b : MBody) : Tag A (ofM b) where
  ok := fun _ => True
  src := fun s r env => stepSrc A (b.resume s r) env
  ok_init := trivial
  post := fun s r env _ hA => leaf_post A (b.resume s r) env hA

variable {A : MonId} {c : SBody}

def okC (T : Tag A c) : CSt c.σ → Prop
  | .created s => T.ok s
  | .susp s => T.ok s
  | .done s => T.ok s

/-- source of the activation that `coro.send/throw` performs (none when the body is not run) -/
def coroSrc (T : Tag A c) (cc : CSt c.σ) (r : Resume) (env : Env) : Option Val :=
  match cc, r with
  | .created s, .send v => if v ≠ 0 then none else T.src s (.send v) env
  | .created _, .throw _ => none
  | .susp s, r => T.src s r env
  | .done _, _ => none

/-- postcondition on what a coroutine object / a call reports -/
def PostC (T : Tag A c) (src : Option Val) (cc' : CSt c.σ) (env' : Env) (yielded : Option YV) : Prop :=
  okC T cc' ∧ Active env' A ∧
  match yielded with
  | some y => (∀ d, y = .req A d ↔ src = some d) ∧ (∀ d, y = .req A d → env' A = -1)
  | none => src = none

def SOut.yielded : SOut → Option YV
  | .yield y => some y
  | _ => none

def CallOut.yielded : CallOut → Option YV
  | .pending y => some y
  | _ => none

theorem after_post (T : Tag A c) (src : Option Val) (res : SRes c.σ) (h : Post A T.ok src res) :
    PostC T src (SCoro.after res).1 (SCoro.after res).2.2 (SCoro.after res).2.1.yielded := by
  cases res with
  | yield y s env' => exact ⟨h.1, h.2.1, h.2.2⟩
  | ret v s env' => exact ⟨h.1, h.2.1, h.2.2⟩
  | raise e s env' => cases e <;> exact ⟨h.1, h.2.1, h.2.2⟩

theorem coro_post (T : Tag A c) (cc : CSt c.σ) (r : Resume) (env : Env) (hok : okC T cc) (hA : Active env A) :
    PostC T (coroSrc T cc r env) (SCoro.resume c cc r env).1 (SCoro.resume c cc r env).2.2
      (SCoro.resume c cc r env).2.1.yielded := by
  cases cc with
  | created s =>
    cases r with
    | send v =>
      by_cases hv : v = 0
      · subst hv
        simp only [SCoro.resume, SCoro.send, coroSrc, ne_eq, not_true_eq_false, ↓reduceIte]
        exact after_post T _ _ (T.post s (.send 0) env hok hA)
      · simp only [SCoro.resume, SCoro.send, coroSrc, ne_eq, hv, not_false_eq_true, ↓reduceIte]
        exact ⟨hok, hA, rfl⟩
    | throw e =>
      simp only [SCoro.resume, SCoro.throw, coroSrc]
      exact ⟨hok, hA, rfl⟩
  | susp s =>
    cases r with
    | send v =>
      simp only [SCoro.resume, SCoro.send, coroSrc]
      exact after_post T _ _ (T.post s _ env hok hA)
    | throw e =>
      simp only [SCoro.resume, SCoro.throw, coroSrc]
      exact after_post T _ _ (T.post s _ env hok hA)
  | done s =>
    cases r <;> simp only [SCoro.resume, SCoro.send, SCoro.throw, coroSrc] <;> exact ⟨hok, hA, rfl⟩

/-- `coro.close()` never reports a yield; state reachable, `A` still active -/
theorem close_post (T : Tag A c) (cc : CSt c.σ) (env : Env) (hok : okC T cc) (hA : Active env A) :
    okC T (SCoro.close c cc env).1 ∧ Active (SCoro.close c cc env).2.2 A ∧
      ∀ y, (SCoro.close c cc env).2.1 ≠ .yield y := by
  cases cc with
  | created s => exact ⟨hok, hA, fun y h => by simp [SCoro.close] at h⟩
  | done s => exact ⟨hok, hA, fun y h => by simp [SCoro.close] at h⟩
  | susp s =>
    have hp := after_post T _ _ (T.post s (.throw .genExit) env hok hA)
    simp only [SCoro.close]
    rcases hx : SCoro.after (c.resume s (.throw .genExit) env) with ⟨st', o, env'⟩
    rw [hx] at hp
    obtain ⟨hok', hA', _⟩ := hp
    cases o with
    | yield y => exact ⟨hok', hA', fun y h => by simp at h⟩
    | ret v => exact ⟨hok', hA', fun y h => by simp at h⟩
    | raise e => cases e <;> exact ⟨hok', hA', fun y h => by simp at h⟩

/-- the relay of another monitor `m ≠ A` on top of a tagged coroutine keeps the tag property -/
theorem relayAfter_post (T : Tag A c) (m : MonId) (hm : m ≠ A) (src : Option Val)
    (x : CSt c.σ × SOut × Env) (h : PostC T src x.1 x.2.2 x.2.1.yielded) :
    PostC T src (relayAfter m x).1.coro (relayAfter m x).1.env (relayAfter m x).2.yielded := by
  obtain ⟨cc, o, env⟩ := x
  obtain ⟨hok, hA, hrest⟩ := h
  have hAm : ∀ (e : Env) (v : Int), (e.set m v) A = e A := fun e v => Env.set_other e m A v (Ne.symm hm)
  cases o with
  | ret v => exact ⟨hok, hA.set_other m 0 hm, hrest⟩
  | raise e => cases e <;> exact ⟨hok, hA.set_other m 0 hm, hrest⟩
  | yield y =>
    obtain ⟨hs1, hs2⟩ := hrest
    simp only [relayAfter, relayTop]
    by_cases hneg : env m = -1
    · simp only [hneg, ↓reduceIte]
      cases y with
      | plain v =>
        exact ⟨hok, hA.set_other m 1 hm, hs1, fun d h => by simp at h⟩
      | req m' d =>
        by_cases hmm : m' = m
        · -- `m`'s own request: consumed here; it is not a request for `A`
          subst hmm
          simp only [↓reduceIte]
          refine ⟨hok, (hA.set_other m' 1 hm).set_other m' 0 hm, ?_⟩
          cases hsrc : src with
          | none => rfl
          | some d' =>
            have := (hs1 d').mpr hsrc
            simp at this
            exact absurd this.1 hm
        · simp only [hmm, ↓reduceIte]
          exact ⟨hok, hA.set_other m 1 hm, hs1, fun d' h => by rw [hAm]; exact hs2 d' h⟩
    · simp only [hneg, ↓reduceIte]
      exact ⟨hok, hA, hs1, hs2⟩

theorem finish_yielded (op : Op) (o : CallOut) : (op.finish o).yielded = o.yielded := by
  cases op <;> cases o <;> (try rfl) <;> (rename_i e; cases e <;> rfl)

def Safe (r : Resume) : Prop := r ≠ .throw .genExit

theorem asendResume_relay (m : MonId) (r : Resume) (hr : Safe r) (sys : Sys c) :
    asendResume m r sys = relayAfter m (SCoro.resume c sys.coro r sys.env) := by
  cases r with
  | send v => simp [asendResume, SCoro.resume]
  | throw e => cases e <;> simp_all [asendResume, SCoro.resume, Safe]

/-- source of the activation performed by starting `m.<op>(coro)` -/
def startSrc (T : Tag A c) (m : MonId) (first : Resume) (cc : CSt c.σ) (env : Env) : Option Val :=
  if env m ≠ 0 then none else coroSrc T cc first (env.set m 1)

def callSrc (T : Tag A c) (m : MonId) (op : Op) (cc : CSt c.σ) (env : Env) : Option Val :=
  match op, SCoro.isDone cc with
  | .aclose, true => none
  | _, _ => startSrc T m op.first cc env

theorem start_post (T : Tag A c) (m : MonId) (first : Resume) (cc : CSt c.σ) (env : Env)
    (hok : okC T cc) (hA : Active env A) :
    PostC T (startSrc T m first cc env) (asendStart m first ⟨cc, env⟩).1.coro
      (asendStart m first ⟨cc, env⟩).1.env (asendStart m first ⟨cc, env⟩).2.yielded ∧
    (∀ y, (asendStart m first (⟨cc, env⟩ : Sys c)).2 = .pending y → m ≠ A) := by
  unfold asendStart startSrc
  by_cases h0 : env m = 0
  · have hm : m ≠ A := by
      intro h; subst h; exact hA.ne_zero h0
    have hp := coro_post T cc first (env.set m 1) hok (hA.set_other m 1 hm)
    simp only [h0, ne_eq, not_true_eq_false, ↓reduceIte]
    refine ⟨?_, fun _ _ => hm⟩
    rcases hx : SCoro.resume c cc first (env.set m 1) with ⟨cs, o, env1⟩
    rw [hx] at hp
    have hgen := relayAfter_post T m hm _ (cs, o, env1) hp
    cases o with
    | yield y => exact hgen
    | ret v => exact hgen
    | raise e => cases e <;> exact hgen
  · simp only [ne_eq, h0, not_false_eq_true, ↓reduceIte]
    exact ⟨⟨hok, hA, rfl⟩, fun y h => by simp at h⟩

theorem callStart_post (T : Tag A c) (m : MonId) (op : Op) (cc : CSt c.σ) (env : Env)
    (hok : okC T cc) (hA : Active env A) :
    PostC T (callSrc T m op cc env) (callStart m op ⟨cc, env⟩).1.coro
      (callStart m op ⟨cc, env⟩).1.env (callStart m op ⟨cc, env⟩).2.yielded ∧
    (∀ y, (callStart m op (⟨cc, env⟩ : Sys c)).2 = .pending y → m ≠ A) := by
  by_cases hcl : op = .aclose ∧ SCoro.isDone cc = true
  · obtain ⟨rfl, hd⟩ := hcl
    simp only [callStart, callSrc, hd]
    exact ⟨⟨hok, hA, rfl⟩, fun y h => by simp at h⟩
  · have hcs : callStart m op (⟨cc, env⟩ : Sys c) =
        ((asendStart m op.first ⟨cc, env⟩).1, op.finish (asendStart m op.first ⟨cc, env⟩).2) := by
      cases op <;> cases hd : SCoro.isDone cc <;> simp_all [callStart]
    have hsrc : callSrc T m op cc env = startSrc T m op.first cc env := by
      cases op <;> cases hd : SCoro.isDone cc <;> simp_all [callSrc]
    obtain ⟨hp, hpm⟩ := start_post T m op.first cc env hok hA
    rw [hcs, hsrc]
    refine ⟨?_, ?_⟩
    · simpa only [finish_yielded] using hp
    · intro y hy
      exact hpm y (finish_pending op _ y hy)

/-- source of the activation performed by resuming a suspended call (none when it is being closed) -/
def resumeSrc (T : Tag A c) (cc : CSt c.σ) (r : Resume) (env : Env) : Option Val :=
  match r with
  | .throw .genExit => none
  | r => coroSrc T cc r env

theorem callResume_post (T : Tag A c) (m : MonId) (hm : m ≠ A) (op : Op) (r : Resume)
    (cc : CSt c.σ) (env : Env) (hok : okC T cc) (hA : Active env A) :
    PostC T (resumeSrc T cc r env) (callResume m op r ⟨cc, env⟩).1.coro
      (callResume m op r ⟨cc, env⟩).1.env (callResume m op r ⟨cc, env⟩).2.yielded := by
  by_cases hr : r = .throw .genExit
  · -- the relay closes the coroutine (`coro.close(); raise`): whatever it yields is swallowed
    subst hr
    obtain ⟨hok', hA', _⟩ := close_post T cc env hok hA
    simp only [callResume, asendResume, resumeSrc, finish_yielded]
    rcases hx : SCoro.close c cc env with ⟨cs, o, env1⟩
    rw [hx] at hok' hA'
    cases o with
    | yield y => exact ⟨hok', hA'.set_other m 0 hm, rfl⟩
    | ret v => exact ⟨hok', hA'.set_other m 0 hm, rfl⟩
    | raise e => exact ⟨hok', hA'.set_other m 0 hm, rfl⟩
  · have hs : resumeSrc T cc r env = coroSrc T cc r env := by
      cases r with
      | send v => rfl
      | throw e => cases e <;> first | rfl | exact absurd rfl hr
    have hp := coro_post T cc r env hok hA
    have hgen := relayAfter_post T m hm _ _ hp
    simp only [callResume, finish_yielded, asendResume_relay m r hr, hs]
    exact hgen

/-- reachable states of `nest p c`: the child's are, and nobody waits in a sub-call through `A` itself
    (such a call is refused while `A` is active) -/
def okN (T : Tag A c) (p : PBody) : NSt p.σ c.σ → Prop
  | .at _ cc => okC T cc
  | .inSub m _ _ _ cc => okC T cc ∧ m ≠ A

/-- source for a parent: its own accepted `A.oob(d)`, or the source of the child activation that left
    a sub-call suspended -/
def nestSrc (T : Tag A c) (p : PBody) : PStep p.σ → CSt c.σ → Env → Option Val
  | .yield _ _, _, _ => none
  | .oob m d _ refused, cc, env =>
    if env m = 0 then nestSrc T p (refused ()) cc env else if m = A then some d else none
  | .sub m op _ k, cc, env =>
    match callStart m op (⟨cc, env⟩ : Sys c) with
    | (_, .pending _) => callSrc T m op cc env
    | (⟨cc', env'⟩, .returned v) => nestSrc T p (k none (.send v)) cc' env'
    | (⟨cc', env'⟩, .raised e) => nestSrc T p (k none (.throw e)) cc' env'
  | .ret _ _, _, _ => none
  | .raise _ _, _, _ => none

theorem nestRun_post (T : Tag A c) (p : PBody) (st : PStep p.σ) :
    ∀ (cc : CSt c.σ) (env : Env), okC T cc → Active env A →
      Post A (okN T p) (nestSrc T p st cc env) (nestRun p c st cc env) := by
  induction st with
  | yield y s =>
    intro cc env hok hA
    exact ⟨hok, hA, fun d => by simp [nestSrc], fun d h => by simp at h⟩
  | ret v s => intro cc env hok hA; exact ⟨hok, hA, rfl⟩
  | raise e s => intro cc env hok hA; exact ⟨hok, hA, rfl⟩
  | oob m d s refused ih =>
    intro cc env hok hA
    simp only [nestRun, nestSrc]
    by_cases h0 : env m = 0
    · simp only [h0, ↓reduceIte]; exact ih () cc env hok hA
    · simp only [h0, ↓reduceIte]
      exact oob_post A (okN T p) m d (.at s cc) env hok hA
  | sub m op s k ih =>
    intro cc env hok hA
    obtain ⟨hp, hpm⟩ := callStart_post T m op cc env hok hA
    simp only [nestRun, nestSrc]
    rcases hx : callStart m op (⟨cc, env⟩ : Sys c) with ⟨⟨cc', env'⟩, o⟩
    rw [hx] at hp hpm
    cases o with
    | pending y =>
      obtain ⟨hok', hA', hrest⟩ := hp
      exact ⟨⟨hok', hpm y rfl⟩, hA', hrest⟩
    | returned v =>
      obtain ⟨hok', hA', _⟩ := hp
      exact ih none (.send v) cc' env' hok' hA'
    | raised e =>
      obtain ⟨hok', hA', _⟩ := hp
      exact ih none (.throw e) cc' env' hok' hA'

/-- `nest p c` is tagged whenever `c` is: any parent, any child, no side condition -/
def tagNest (T : Tag A c) (p : PBody) : Tag A (nest p c) where
  ok := okN T p
  src := fun st r env =>
    match st with
    | .at s cc => nestSrc T p (p.resume s r) cc env
    | .inSub m op _ k cc =>
      match callResume m op r (⟨cc, env⟩ : Sys c) with
      | (_, .pending _) => resumeSrc T cc r env
      | (⟨cc', env'⟩, .returned v) => nestSrc T p (k (some r) (.send v)) cc' env'
      | (⟨cc', env'⟩, .raised e) => nestSrc T p (k (some r) (.throw e)) cc' env'
  ok_init := T.ok_init
  post := by
    intro st r env hok hA
    cases st with
    | «at» s cc => exact nestRun_post T p (p.resume s r) cc env hok hA
    | inSub m op s k cc =>
      obtain ⟨hokc, hm⟩ := hok
      have hp := callResume_post T m hm op r cc env hokc hA
      simp only [nest]
      rcases hx : callResume m op r (⟨cc, env⟩ : Sys c) with ⟨⟨cc', env'⟩, o⟩
      rw [hx] at hp
      cases o with
      | pending y =>
        obtain ⟨hok', hA', hrest⟩ := hp
        exact ⟨⟨hok', hm⟩, hA', hrest⟩
      | returned v =>
        obtain ⟨hok', hA', _⟩ := hp
        exact nestRun_post T p _ cc' env' hok' hA'
      | raised e =>
        obtain ⟨hok', hA', _⟩ := hp
        exact nestRun_post T p _ cc' env' hok' hA'

end Asynkit.Monitor
