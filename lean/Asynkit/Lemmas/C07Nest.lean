/-
C07, nested monitors end to end: where an OOBData comes from, for coroutines nested to any depth.

`Tag A c` says of a coroutine `c` (a leaf, or a `nest` of parents over a leaf): for every activation
that starts with no oob value in flight anywhere (`NoNeg`) and `A` active, there is a *syntactic*
source `src` — "the activation ended because some body below executed `await A.oob(d)`" — and the
cell of `A` is -1 at the resulting yield exactly in that case; no other cell is -1 then, none at all
when the activation ends otherwise, and `A`'s cell is never touched by anybody else.
The relay of `A` raises OOBData exactly when its cell is -1 (`nested_monitors_outer_view`), so this is
"each driver sees exactly its own data, once, in order".

GeneratorExit delivered to a parent that is waiting in a sub-call is excluded (`Safe`): the inner relay
then *closes* the child, a yield made in response is swallowed (RuntimeError, by design) and, if it
was an `oob` to an outer monitor, that monitor's cell stays -1 — the finding recorded in notes/C07.md
(`Asynkit.C07.stale_oob_after_close` is the `decide`d witness).
-/
import Asynkit.Lemmas.C07

namespace Asynkit.Monitor
open Asynkit.Proto (Val Exc Resume)

/-- no oob value is in flight on any monitor -/
def NoNeg (env : Env) : Prop := ∀ m, env m ≠ -1

/-- at most one oob value is in flight -/
def AtMostOneNeg (env : Env) : Prop := ∀ m m', env m = -1 → env m' = -1 → m = m'

theorem NoNeg.atMostOne {env : Env} (h : NoNeg env) : AtMostOneNeg env :=
  fun m _ hm _ => absurd hm (h m)

theorem NoNeg.set {env : Env} (h : NoNeg env) (m : MonId) (x : Int) (hx : x ≠ -1) : NoNeg (env.set m x) := by
  intro k
  by_cases hk : k = m
  · subst hk; simpa using hx
  · simpa [Env.set_other _ _ _ _ hk] using h k

/-- consuming the one value in flight -/
theorem AtMostOneNeg.consume {env : Env} (h : AtMostOneNeg env) (m : MonId) (hm : env m = -1) (x : Int)
    (hx : x ≠ -1) : NoNeg (env.set m x) := by
  intro k
  by_cases hk : k = m
  · subst hk; simpa using hx
  · rw [Env.set_other _ _ _ _ hk]
    intro hk'
    exact hk (h k m hk' hm)

def Safe (r : Resume) : Prop := r ≠ .throw .genExit

/-- postcondition of an activation run with `A` active and nothing in flight -/
def Post {σ : Type} (A : MonId) (ok : σ → Prop) (src : Option Val) : SRes σ → Prop
  | .yield y s env' =>
    ok s ∧ AtMostOneNeg env' ∧ (env' A = 1 ∨ env' A = -1) ∧ (env' A = -1 → src = some y) ∧ (env' A = 1 → src = none)
  | .ret _ s env' => ok s ∧ NoNeg env' ∧ env' A = 1 ∧ src = none
  | .raise _ s env' => ok s ∧ NoNeg env' ∧ env' A = 1 ∧ src = none

/-- leaf: the activation ends in an accepted `A.oob(d)` -/
def stepSrc {σ : Type} (A : MonId) : Step σ → Env → Option Val
  | .oob m d _ refused, env =>
    if env m ≠ 1 then stepSrc A (refused ()) env else if m = A then some d else none
  | _, _ => none

theorem leaf_post {σ : Type} (A : MonId) (st : Step σ) (env : Env) (hn : NoNeg env) (hA : env A = 1) :
    Post A (fun _ => True) (stepSrc A st env) (resolve st env) := by
  induction st with
  | yield y s => exact ⟨trivial, hn.atMostOne, Or.inl hA, fun h => absurd h (hn A), fun _ => rfl⟩
  | ret v s => exact ⟨trivial, hn, hA, rfl⟩
  | raise e s => exact ⟨trivial, hn, hA, rfl⟩
  | oob m d s refused ih =>
    simp only [resolve, stepSrc]
    by_cases h1 : env m = 1
    · simp only [h1, ne_eq, not_true_eq_false, ↓reduceIte]
      have hone : AtMostOneNeg (env.set m (-1)) := by
        intro a b ha hb
        have ha' : a = m := by
          by_cases h : a = m
          · exact h
          · rw [Env.set_other _ _ _ _ h] at ha; exact absurd ha (hn a)
        have hb' : b = m := by
          by_cases h : b = m
          · exact h
          · rw [Env.set_other _ _ _ _ h] at hb; exact absurd hb (hn b)
        rw [ha', hb']
      by_cases hm : m = A
      · subst hm
        exact ⟨trivial, hone, Or.inr (by simp), fun _ => by simp, fun h => by simp at h⟩
      · have hA' : (env.set m (-1)) A = 1 := by rw [Env.set_other _ _ _ _ (Ne.symm hm)]; exact hA
        exact ⟨trivial, hone, Or.inl hA', fun h => by rw [hA'] at h; simp at h, fun _ => by simp [hm]⟩
    · simp only [h1, ne_eq, not_false_eq_true, ↓reduceIte]
      exact ih ()

/-- the tag property of a coroutine w.r.t. monitor `A` -/
structure Tag (A : MonId) (c : SBody) where
  ok : c.σ → Prop                        -- reachable states
  quiet : c.σ → Prop                     -- not waiting in a sub-call (GeneratorExit is harmless there)
  src : c.σ → Resume → Env → Option Val
  ok_init : ok c.init
  post : ∀ s r env, ok s → (Safe r ∨ quiet s) → NoNeg env → env A = 1 →
    Post A ok (src s r env) (c.resume s r env)

def tagLeaf (A : MonId) (b : MBody) : Tag A (ofM b) where
  ok := fun _ => True
  quiet := fun _ => True
  src := fun s r env => stepSrc A (b.resume s r) env
  ok_init := trivial
  post := fun s r env _ _ hn hA => leaf_post A (b.resume s r) env hn hA

end Asynkit.Monitor

namespace Asynkit.Monitor
open Asynkit.Proto (Val Exc Resume)

variable {A : MonId} {c : SBody}

def okC (T : Tag A c) : CSt c.σ → Prop
  | .created s => T.ok s
  | .susp s => T.ok s
  | .done s => T.ok s

def quietC (T : Tag A c) : CSt c.σ → Prop
  | .susp s => T.quiet s
  | _ => True

/-- source of the activation that `coro.send/throw` performs (none when the body is not run) -/
def coroSrc (T : Tag A c) (cc : CSt c.σ) (r : Resume) (env : Env) : Option Val :=
  match cc, r with
  | .created s, .send v => if v ≠ 0 then none else T.src s (.send v) env
  | .created _, .throw _ => none
  | .susp s, r => T.src s r env
  | .done _, _ => none

/-- postcondition on what a coroutine object / a call reports -/
def PostC (T : Tag A c) (src : Option Val) (cc' : CSt c.σ) (env' : Env) (yielded : Option Val) : Prop :=
  okC T cc' ∧
  match yielded with
  | some y => AtMostOneNeg env' ∧ (env' A = 1 ∨ env' A = -1) ∧ (env' A = -1 → src = some y) ∧ (env' A = 1 → src = none)
  | none => NoNeg env' ∧ env' A = 1 ∧ src = none

def SOut.yielded : SOut → Option Val
  | .yield y => some y
  | _ => none

def CallOut.yielded : CallOut → Option Val
  | .pending y => some y
  | _ => none

theorem after_post (T : Tag A c) (src : Option Val) (res : SRes c.σ) (h : Post A T.ok src res) :
    PostC T src (SCoro.after res).1 (SCoro.after res).2.2 (SCoro.after res).2.1.yielded := by
  cases res with
  | yield y s env' => exact ⟨h.1, h.2⟩
  | ret v s env' => exact ⟨h.1, h.2⟩
  | raise e s env' => cases e <;> exact ⟨h.1, h.2⟩

theorem coro_post (T : Tag A c) (cc : CSt c.σ) (r : Resume) (env : Env) (hok : okC T cc)
    (hq : Safe r ∨ quietC T cc) (hn : NoNeg env) (hA : env A = 1) :
    PostC T (coroSrc T cc r env) (SCoro.resume c cc r env).1 (SCoro.resume c cc r env).2.2
      (SCoro.resume c cc r env).2.1.yielded := by
  cases cc with
  | created s =>
    cases r with
    | send v =>
      by_cases hv : v = 0
      · subst hv
        simp only [SCoro.resume, SCoro.send, coroSrc, ne_eq, not_true_eq_false, ↓reduceIte]
        exact after_post T _ _ (T.post s (.send 0) env hok (Or.inl (by simp [Safe])) hn hA)
      · simp only [SCoro.resume, SCoro.send, coroSrc, ne_eq, hv, not_false_eq_true, ↓reduceIte]
        exact ⟨hok, hn, hA, rfl⟩
    | throw e =>
      simp only [SCoro.resume, SCoro.throw, coroSrc]
      exact ⟨hok, hn, hA, rfl⟩
  | susp s =>
    have hq' : Safe r ∨ T.quiet s := hq
    cases r with
    | send v =>
      simp only [SCoro.resume, SCoro.send, coroSrc]
      exact after_post T _ _ (T.post s _ env hok hq' hn hA)
    | throw e =>
      simp only [SCoro.resume, SCoro.throw, coroSrc]
      exact after_post T _ _ (T.post s _ env hok hq' hn hA)
  | done s =>
    cases r <;> simp only [SCoro.resume, SCoro.send, SCoro.throw, coroSrc] <;> exact ⟨hok, hn, hA, rfl⟩

/-- the relay of another monitor `m ≠ A` on top of a tagged coroutine keeps the tag property -/
theorem relayAfter_post (T : Tag A c) (m : MonId) (hm : m ≠ A) (src : Option Val)
    (x : CSt c.σ × SOut × Env) (h : PostC T src x.1 x.2.2 x.2.1.yielded) :
    PostC T src (relayAfter m x).1.coro (relayAfter m x).1.env (relayAfter m x).2.yielded := by
  obtain ⟨cc, o, env⟩ := x
  obtain ⟨hok, hrest⟩ := h
  have hAm : ∀ (e : Env) (v : Int), (e.set m v) A = e A := fun e v => Env.set_other e m A v (Ne.symm hm)
  cases o with
  | ret v =>
    obtain ⟨hn, hA, hs⟩ := hrest
    exact ⟨hok, hn.set m 0 (by decide), by simp only [relayAfter, hAm]; exact hA, hs⟩
  | raise e =>
    obtain ⟨hn, hA, hs⟩ := hrest
    exact ⟨hok, hn.set m 0 (by decide), by simp only [relayAfter, hAm]; exact hA, hs⟩
  | yield y =>
    obtain ⟨hone, hA, hs1, hs2⟩ := hrest
    simp only [relayAfter, relayTop]
    by_cases hneg : env m = -1
    · -- `m`'s own oob: consumed here; then `A`'s cell cannot be -1
      have hA1 : env A = 1 := by
        cases hA with
        | inl h => exact h
        | inr h => exact absurd (hone A m h hneg) (Ne.symm hm)
      simp only [hneg, ↓reduceIte]
      refine ⟨hok, ?_, ?_, hs2 hA1⟩
      · have := (hone.consume m hneg 1 (by decide)).set m 0 (by decide)
        simpa using this
      · simp only [hAm]; exact hA1
    · simp only [hneg, ↓reduceIte]
      exact ⟨hok, hone, hA, hs1, hs2⟩

end Asynkit.Monitor

namespace Asynkit.Monitor
open Asynkit.Proto (Val Exc Resume)

variable {A : MonId} {c : SBody}

theorem finish_yielded (op : Op) (o : CallOut) : (op.finish o).yielded = o.yielded := by
  cases op <;> cases o <;> (try rfl) <;> (rename_i e; cases e <;> rfl)

theorem asendResume_relay (m : MonId) (r : Resume) (hr : Safe r) (sys : Sys c) :
    asendResume m r sys = relayAfter m (SCoro.resume c sys.coro r sys.env) := by
  cases r with
  | send v => simp [asendResume, SCoro.resume]
  | throw e => cases e <;> simp_all [asendResume, SCoro.resume, Safe]

/-- source of the activation performed by starting `m.<op>(coro)` -/
def startSrc (T : Tag A c) (m : MonId) (first : Resume) (cc : CSt c.σ) (env : Env) : Option Val :=
  if env m ≠ 0 then none else coroSrc T cc first (env.set m 1)

def callSrc (T : Tag A c) (m : MonId) (op : Op) (cc : CSt c.σ) (env : Env) : Option Val :=
  match op, SCoro.isDone cc with
  | .aclose, true => none
  | _, _ => startSrc T m op.first cc env

theorem start_post (T : Tag A c) (m : MonId) (first : Resume) (cc : CSt c.σ) (env : Env)
    (hok : okC T cc) (hq : Safe first ∨ quietC T cc) (hn : NoNeg env) (hA : env A = 1) :
    PostC T (startSrc T m first cc env) (asendStart m first ⟨cc, env⟩).1.coro
      (asendStart m first ⟨cc, env⟩).1.env (asendStart m first ⟨cc, env⟩).2.yielded ∧
    (∀ y, (asendStart m first (⟨cc, env⟩ : Sys c)).2 = .pending y → m ≠ A) := by
  unfold asendStart startSrc
  by_cases h0 : env m = 0
  · have hm : m ≠ A := by
      intro h; subst h; rw [hA] at h0; exact absurd h0 (by decide)
    have hn1 : NoNeg (env.set m 1) := hn.set m 1 (by decide)
    have hA1 : (env.set m 1) A = 1 := by rw [Env.set_other _ _ _ _ (Ne.symm hm)]; exact hA
    have hp := coro_post T cc first (env.set m 1) hok hq hn1 hA1
    simp only [h0, ne_eq, not_true_eq_false, ↓reduceIte]
    refine ⟨?_, fun _ _ => hm⟩
    rcases hx : SCoro.resume c cc first (env.set m 1) with ⟨cs, o, env1⟩
    rw [hx] at hp
    have hgen := relayAfter_post T m hm _ (cs, o, env1) hp
    cases o with
    | yield y => exact hgen
    | ret v => exact hgen
    | raise e =>
      -- (also when the coroutine itself raised OOBData on the first activation, line 84: same state)
      cases e <;> exact hgen
  · simp only [ne_eq, h0, not_false_eq_true, ↓reduceIte]
    exact ⟨⟨hok, hn, hA, rfl⟩, fun y h => by simp at h⟩

theorem callStart_post (T : Tag A c) (m : MonId) (op : Op) (cc : CSt c.σ) (env : Env)
    (hok : okC T cc) (hq : Safe op.first ∨ quietC T cc) (hn : NoNeg env) (hA : env A = 1) :
    PostC T (callSrc T m op cc env) (callStart m op ⟨cc, env⟩).1.coro
      (callStart m op ⟨cc, env⟩).1.env (callStart m op ⟨cc, env⟩).2.yielded ∧
    (∀ y, (callStart m op (⟨cc, env⟩ : Sys c)).2 = .pending y → m ≠ A) := by
  by_cases hcl : op = .aclose ∧ SCoro.isDone cc = true
  · obtain ⟨rfl, hd⟩ := hcl
    simp only [callStart, callSrc, hd]
    exact ⟨⟨hok, hn, hA, rfl⟩, fun y h => by simp at h⟩
  · have hcs : callStart m op (⟨cc, env⟩ : Sys c) =
        ((asendStart m op.first ⟨cc, env⟩).1, op.finish (asendStart m op.first ⟨cc, env⟩).2) := by
      cases op <;> cases hd : SCoro.isDone cc <;> simp_all [callStart]
    have hsrc : callSrc T m op cc env = startSrc T m op.first cc env := by
      cases op <;> cases hd : SCoro.isDone cc <;> simp_all [callSrc]
    obtain ⟨hp, hpm⟩ := start_post T m op.first cc env hok hq hn hA
    rw [hcs, hsrc]
    refine ⟨?_, ?_⟩
    · simpa only [finish_yielded] using hp
    · intro y hy
      exact hpm y (finish_pending op _ y hy)

theorem callResume_post (T : Tag A c) (m : MonId) (hm : m ≠ A) (op : Op) (r : Resume) (hr : Safe r)
    (cc : CSt c.σ) (env : Env) (hok : okC T cc) (hn : NoNeg env) (hA : env A = 1) :
    PostC T (coroSrc T cc r env) (callResume m op r ⟨cc, env⟩).1.coro
      (callResume m op r ⟨cc, env⟩).1.env (callResume m op r ⟨cc, env⟩).2.yielded := by
  have hp := coro_post T cc r env hok (Or.inl hr) hn hA
  have hgen := relayAfter_post T m hm _ _ hp
  simp only [callResume, finish_yielded, asendResume_relay m r hr]
  exact hgen

end Asynkit.Monitor

namespace Asynkit.Monitor
open Asynkit.Proto (Val Exc Resume)

variable {A : MonId} {c : SBody}

/-- a parent step that never sends GeneratorExit into its child (no `aclose`, no `athrow(GeneratorExit)`) -/
def PStep.GEfree {σ : Type} : PStep σ → Prop
  | .oob _ _ _ refused => (refused ()).GEfree
  | .sub _ op _ k => Safe op.first ∧ ∀ how r, (k how r).GEfree
  | _ => True

/-- what makes GeneratorExit harmless for the child: it never waits in a sub-call of its own (a leaf),
    or this parent never sends it one -/
def Harmless (T : Tag A c) {σ : Type} (st : PStep σ) : Prop := (∀ s, T.quiet s) ∨ st.GEfree

/-- reachable states of `nest p c`: the child's are, and nobody waits in a sub-call through `A` itself
    (such a call is refused while `A` is active) -/
def okN (T : Tag A c) (p : PBody) : NSt p.σ c.σ → Prop
  | .at _ cc => okC T cc
  | .inSub m _ _ k cc => okC T cc ∧ m ≠ A ∧ ∀ how r, Harmless T (k how r)

def quietN (p : PBody) : NSt p.σ c.σ → Prop
  | .at _ _ => True
  | .inSub .. => False

/-- source for a parent: its own accepted `A.oob(d)`, or the source of the child activation that left
    a sub-call suspended -/
def nestSrc (T : Tag A c) (p : PBody) : PStep p.σ → CSt c.σ → Env → Option Val
  | .yield _ _, _, _ => none
  | .oob m d _ refused, cc, env =>
    if env m ≠ 1 then nestSrc T p (refused ()) cc env else if m = A then some d else none
  | .sub m op _ k, cc, env =>
    match callStart m op (⟨cc, env⟩ : Sys c) with
    | (_, .pending _) => callSrc T m op cc env
    | (⟨cc', env'⟩, .returned v) => nestSrc T p (k none (.send v)) cc' env'
    | (⟨cc', env'⟩, .raised e) => nestSrc T p (k none (.throw e)) cc' env'
  | .ret _ _, _, _ => none
  | .raise _ _, _, _ => none

theorem nestRun_post (T : Tag A c) (p : PBody) (st : PStep p.σ) :
    ∀ (cc : CSt c.σ) (env : Env), Harmless T st → okC T cc → NoNeg env → env A = 1 →
      Post A (okN T p) (nestSrc T p st cc env) (nestRun p c st cc env) := by
  induction st with
  | yield y s =>
    intro cc env _ hok hn hA
    exact ⟨hok, hn.atMostOne, Or.inl hA, fun h => absurd h (hn A), fun _ => rfl⟩
  | ret v s => intro cc env _ hok hn hA; exact ⟨hok, hn, hA, rfl⟩
  | raise e s => intro cc env _ hok hn hA; exact ⟨hok, hn, hA, rfl⟩
  | oob m d s refused ih =>
    intro cc env hh hok hn hA
    have hh' : Harmless T (refused ()) := hh.imp id (fun h => h)
    simp only [nestRun, nestSrc]
    by_cases h1 : env m = 1
    · simp only [h1, ne_eq, not_true_eq_false, ↓reduceIte]
      have hone : AtMostOneNeg (env.set m (-1)) := by
        intro a b ha hb
        have ha' : a = m := by
          by_cases h : a = m
          · exact h
          · rw [Env.set_other _ _ _ _ h] at ha; exact absurd ha (hn a)
        have hb' : b = m := by
          by_cases h : b = m
          · exact h
          · rw [Env.set_other _ _ _ _ h] at hb; exact absurd hb (hn b)
        rw [ha', hb']
      by_cases hm : m = A
      · subst hm
        exact ⟨hok, hone, Or.inr (by simp), fun _ => by simp, fun h => by simp at h⟩
      · have hA' : (env.set m (-1)) A = 1 := by rw [Env.set_other _ _ _ _ (Ne.symm hm)]; exact hA
        exact ⟨hok, hone, Or.inl hA', fun h => by rw [hA'] at h; simp at h, fun _ => by simp [hm]⟩
    · simp only [h1, ne_eq, not_false_eq_true, ↓reduceIte]
      exact ih () cc env hh' hok hn hA
  | sub m op s k ih =>
    intro cc env hh hok hn hA
    have hk : ∀ how r, Harmless T (k how r) := fun how r => hh.imp id (fun h => h.2 how r)
    have hq : Safe op.first ∨ quietC T cc := by
      cases hh with
      | inl hquiet => exact Or.inr (by cases cc <;> simp [quietC, hquiet])
      | inr hg => exact Or.inl hg.1
    obtain ⟨hp, hpm⟩ := callStart_post T m op cc env hok hq hn hA
    simp only [nestRun, nestSrc]
    rcases hx : callStart m op (⟨cc, env⟩ : Sys c) with ⟨⟨cc', env'⟩, o⟩
    rw [hx] at hp hpm
    cases o with
    | pending y =>
      obtain ⟨hok', hrest⟩ := hp
      exact ⟨⟨hok', hpm y rfl, hk⟩, hrest⟩
    | returned v =>
      obtain ⟨hok', hn', hA', _⟩ := hp
      exact ih none (.send v) cc' env' (hk _ _) hok' hn' hA'
    | raised e =>
      obtain ⟨hok', hn', hA', _⟩ := hp
      exact ih none (.throw e) cc' env' (hk _ _) hok' hn' hA'

/-- `nest p c` is tagged when `c` is and either `c` is always quiet (a leaf: any parent will do) or the
    parent never sends GeneratorExit down.  GeneratorExit arriving from *above* while the parent waits in
    a sub-call is the excluded case (`quietN`). -/
def tagNest (T : Tag A c) (p : PBody) (hh : ∀ s r, Harmless T (p.resume s r)) : Tag A (nest p c) where
  ok := okN T p
  quiet := quietN p
  src := fun st r env =>
    match st with
    | .at s cc => nestSrc T p (p.resume s r) cc env
    | .inSub m op _ k cc =>
      match callResume m op r (⟨cc, env⟩ : Sys c) with
      | (_, .pending _) => coroSrc T cc r env
      | (⟨cc', env'⟩, .returned v) => nestSrc T p (k (some r) (.send v)) cc' env'
      | (⟨cc', env'⟩, .raised e) => nestSrc T p (k (some r) (.throw e)) cc' env'
  ok_init := T.ok_init
  post := by
    intro st r env hok hq hn hA
    cases st with
    | «at» s cc => exact nestRun_post T p (p.resume s r) cc env (hh s r) hok hn hA
    | inSub m op s k cc =>
      obtain ⟨hokc, hm, hk⟩ := hok
      have hr : Safe r := by
        cases hq with
        | inl h => exact h
        | inr h => exact absurd h (by simp [quietN])
      have hp := callResume_post T m hm op r hr cc env hokc hn hA
      simp only [nest]
      rcases hx : callResume m op r (⟨cc, env⟩ : Sys c) with ⟨⟨cc', env'⟩, o⟩
      rw [hx] at hp
      cases o with
      | pending y =>
        obtain ⟨hok', hrest⟩ := hp
        exact ⟨⟨hok', hm, hk⟩, hrest⟩
      | returned v =>
        obtain ⟨hok', hn', hA', _⟩ := hp
        exact nestRun_post T p _ cc' env' (hk _ _) hok' hn' hA'
      | raised e =>
        obtain ⟨hok', hn', hA', _⟩ := hp
        exact nestRun_post T p _ cc' env' (hk _ _) hok' hn' hA'

end Asynkit.Monitor
