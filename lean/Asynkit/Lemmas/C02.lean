/-
Lemmas for C02: bisimulation principle for `Obj.run`, the relay loops equal PEP-380 delegation,
delegation is a congruence for trace equivalence.
-/
import Asynkit.Model.Wrappers

namespace Asynkit.Proto

variable {ι : Type}

/-- trace equivalence of two objects from given states: same outputs and same innermost views
    for every drive sequence (compared up to the first non-yield). -/
def TrEq (I J : Obj ι) (s : I.σ) (t : J.σ) : Prop := ∀ ds, I.run s ds = J.run t ds

/-- equivalence of freshly created objects -/
def Equiv (I J : Obj ι) : Prop := TrEq I J I.init J.init

/-- equivalence of objects whose first drive is `send(None)` (objects that get started) -/
def Equiv0 (I J : Obj ι) : Prop := ∀ ds, I.run I.init (.send 0 :: ds) = J.run J.init (.send 0 :: ds)

theorem TrEq.refl (I : Obj ι) (s : I.σ) : TrEq I I s s := fun _ => rfl
theorem TrEq.symm {I J : Obj ι} {s t} (h : TrEq I J s t) : TrEq J I t s := fun ds => (h ds).symm
theorem TrEq.trans {I J K : Obj ι} {s t u} (h1 : TrEq I J s t) (h2 : TrEq J K t u) : TrEq I K s u :=
  fun ds => (h1 ds).trans (h2 ds)
theorem Equiv.toEquiv0 {I J : Obj ι} (h : Equiv I J) : Equiv0 I J := fun ds => h _
theorem Equiv0.trans {I J K : Obj ι} (h1 : Equiv0 I J) (h2 : Equiv0 J K) : Equiv0 I K :=
  fun ds => (h1 ds).trans (h2 ds)
theorem Equiv0.symm {I J : Obj ι} (h : Equiv0 I J) : Equiv0 J I := fun ds => (h ds).symm

/-- one-step characterisation of `run` -/
theorem run_cons (I : Obj ι) (s : I.σ) (d : Drive) (ds : List Drive) :
    I.run s (d :: ds) =
      match (I.step s d).2 with
      | .yield y => (.yield y, I.view (I.step s d).1) :: I.run (I.step s d).1 ds
      | o => [(o, I.view (I.step s d).1)] := by
  rw [Obj.run]
  rcases h : I.step s d with ⟨s', o⟩
  cases o <;> simp

/-- Bisimulation principle. -/
theorem run_eq_of_bisim (I J : Obj ι) (R : I.σ → J.σ → Prop)
    (h : ∀ s t d, R s t →
      (I.step s d).2 = (J.step t d).2 ∧ I.view (I.step s d).1 = J.view (J.step t d).1 ∧
      (∀ y, (I.step s d).2 = .yield y → R (I.step s d).1 (J.step t d).1)) :
    ∀ ds s t, R s t → I.run s ds = J.run t ds := by
  intro ds
  induction ds with
  | nil => intros; rfl
  | cons d ds ih =>
    intro s t hR
    obtain ⟨ho, hv, hn⟩ := h s t d hR
    rw [run_cons, run_cons, ← ho, ← hv]
    cases hq : (I.step s d).2 with
    | yield y => simp only; rw [ih _ _ (hn y hq)]
    | ret v => rfl
    | raise e => rfl

/-- trace equivalence is itself a bisimulation: one step from equivalent states -/
theorem TrEq.step {I J : Obj ι} {s t} (h : TrEq I J s t) (d : Drive) :
    (I.step s d).2 = (J.step t d).2 ∧ I.view (I.step s d).1 = J.view (J.step t d).1 ∧
    (∀ y, (I.step s d).2 = .yield y → TrEq I J (I.step s d).1 (J.step t d).1) := by
  have h1 := h [d]
  rw [run_cons, run_cons] at h1
  have key : (I.step s d).2 = (J.step t d).2 ∧ I.view (I.step s d).1 = J.view (J.step t d).1 := by
    cases hi : (I.step s d).2 <;> cases hj : (J.step t d).2 <;> simp_all [Obj.run]
  refine ⟨key.1, key.2, ?_⟩
  intro y hy ds
  have h2 := h (d :: ds)
  rw [run_cons, run_cons, ← key.1, hy] at h2
  simpa using (List.cons.inj h2).2

end Asynkit.Proto

namespace Asynkit.Proto
variable {ι : Type}

/-! ### coro_iter's relay loop = delegation -/

/-- unfold one step of the wrapper/envelope definitions -/
macro "wsimp" "[" ts:Lean.Parser.Tactic.simpLemma,* "]" : tactic =>
  `(tactic| simp [Obj.step, coroIterO, nativeAwaitO, genObj, coroObj, envObj, coroIterB, nativeAwaitB,
      relay, relayClose, normStop, envAfter, envClosed, EState.body, $ts,*])
macro "wsimp_all" : tactic =>
  `(tactic| simp_all [Obj.step, coroIterO, nativeAwaitO, genObj, coroObj, envObj, coroIterB, nativeAwaitB,
      relay, relayClose, normStop, envAfter, envClosed, EState.body])



inductive RIter (I : Obj ι) : EState (Pc × I.σ) → EState I.σ → Prop where
  | created (s : I.σ) : RIter I (.created (.start, s)) (.created s)
  | susp (s : I.σ) : RIter I (.susp (.loop, s)) (.susp s)

theorem coroIter_step (I : Obj ι) (s : (coroIterO I).σ) (t : (nativeAwaitO I).σ) (d : Drive)
    (hR : RIter I s t) :
    ((coroIterO I).step s d).2 = ((nativeAwaitO I).step t d).2 ∧
    (coroIterO I).view ((coroIterO I).step s d).1 = (nativeAwaitO I).view ((nativeAwaitO I).step t d).1 ∧
    (∀ y, ((coroIterO I).step s d).2 = .yield y →
      RIter I ((coroIterO I).step s d).1 ((nativeAwaitO I).step t d).1) := by
  cases hR with
  | created s =>
    cases d with
    | send v =>
      by_cases hv : v = 0
      · subst hv
        rcases h : I.send s 0 with ⟨s', o⟩
        rcases o with y | v | e
        · wsimp [h]
          exact RIter.susp s'
        · wsimp [h]
        · cases e <;>
          wsimp [h]
      · wsimp [hv]
    | throw e => wsimp []
    | close => wsimp []
  | susp s =>
    cases d with
    | send v =>
      rcases h : I.send s v with ⟨s', o⟩
      rcases o with y | v | e
      · wsimp [h]
        exact RIter.susp s'
      · wsimp [h]
      · cases e <;>
        wsimp [h]
    | throw e =>
      by_cases he : e = .genExit
      · subst he
        rcases h : I.close s with ⟨s', o⟩
        rcases o with y | v | e
        · wsimp [h]
        · wsimp [h]
        · cases e <;>
          wsimp [h]
      · rcases h : I.throw s e with ⟨s', o⟩
        rcases o with y | v | e'
        · cases e <;> wsimp_all <;> exact RIter.susp s'
        · cases e <;> wsimp_all
        · cases e <;> cases e' <;>
          wsimp_all
    | close =>
      rcases h : I.close s with ⟨s', o⟩
      rcases o with y | v | e
      · wsimp [h]
      · wsimp [h]
      · cases e <;>
        wsimp [h]

end Asynkit.Proto

namespace Asynkit.Proto
variable {ι : Type}

theorem coroIter_equiv (I : Obj ι) : Equiv (coroIterO I) (nativeAwaitO I) := fun ds =>
  run_eq_of_bisim (coroIterO I) (nativeAwaitO I) (RIter I) (coroIter_step I) ds _ _ (RIter.created _)

/-! ### delegation is a congruence -/

inductive RCongr (I J : Obj ι) : EState I.σ → EState J.σ → Prop where
  | susp (s : I.σ) (t : J.σ) (h : TrEq I J s t) : RCongr I J (.susp s) (.susp t)

theorem nativeAwait_congr_step (I J : Obj ι) (a : (nativeAwaitO I).σ) (b : (nativeAwaitO J).σ)
    (d : Drive) (hR : RCongr I J a b) :
    ((nativeAwaitO I).step a d).2 = ((nativeAwaitO J).step b d).2 ∧
    (nativeAwaitO I).view ((nativeAwaitO I).step a d).1 = (nativeAwaitO J).view ((nativeAwaitO J).step b d).1 ∧
    (∀ y, ((nativeAwaitO I).step a d).2 = .yield y →
      RCongr I J ((nativeAwaitO I).step a d).1 ((nativeAwaitO J).step b d).1) := by
  cases hR with
  | susp s t h =>
    cases d with
    | send v =>
      obtain ⟨ho, hv, hn⟩ := h.step (.send v)
      simp only [Obj.step] at ho hv hn
      rcases hi : I.send s v with ⟨s', o⟩
      rcases hj : J.send t v with ⟨t', o'⟩
      rw [hi, hj] at ho hv hn
      simp only at ho hv hn
      subst ho
      rcases o with y | w | e
      · wsimp [hi, hj, hv]
        exact RCongr.susp _ _ (hn y rfl)
      · wsimp [hi, hj, hv]
      · cases e <;> wsimp [hi, hj, hv]
    | throw e =>
      by_cases he : e = .genExit
      · subst he
        obtain ⟨ho, hv, hn⟩ := h.step .close
        simp only [Obj.step] at ho hv hn
        rcases hi : I.close s with ⟨s', o⟩
        rcases hj : J.close t with ⟨t', o'⟩
        rw [hi, hj] at ho hv hn
        simp only at ho hv hn
        subst ho
        rcases o with y | w | e
        · wsimp [hi, hj, hv]
        · wsimp [hi, hj, hv]
        · cases e <;> wsimp [hi, hj, hv]
      · obtain ⟨ho, hv, hn⟩ := h.step (.throw e)
        simp only [Obj.step] at ho hv hn
        rcases hi : I.throw s e with ⟨s', o⟩
        rcases hj : J.throw t e with ⟨t', o'⟩
        rw [hi, hj] at ho hv hn
        simp only at ho hv hn
        subst ho
        rcases o with y | w | e'
        · cases e <;> simp_all [Obj.step, nativeAwaitO, coroObj, envObj, nativeAwaitB, normStop, envAfter, EState.body]
          all_goals exact RCongr.susp _ _ hn
        · cases e <;> simp_all [Obj.step, nativeAwaitO, coroObj, envObj, nativeAwaitB, normStop, envAfter, EState.body]
        · cases e <;> cases e' <;>
          simp_all [Obj.step, nativeAwaitO, coroObj, envObj, nativeAwaitB, normStop, envAfter, EState.body]
    | close =>
      obtain ⟨ho, hv, hn⟩ := h.step .close
      simp only [Obj.step] at ho hv hn
      rcases hi : I.close s with ⟨s', o⟩
      rcases hj : J.close t with ⟨t', o'⟩
      rw [hi, hj] at ho hv hn
      simp only at ho hv hn
      subst ho
      rcases o with y | w | e
      · wsimp [hi, hj, hv]
      · wsimp [hi, hj, hv]
      · cases e <;> wsimp [hi, hj, hv]

/-- delegation preserves trace equivalence of suspended objects -/
theorem nativeAwait_congr_susp (I J : Obj ι) (s : I.σ) (t : J.σ) (h : TrEq I J s t) :
    TrEq (nativeAwaitO I) (nativeAwaitO J) (.susp s) (.susp t) := fun ds =>
  run_eq_of_bisim _ _ (RCongr I J) (nativeAwait_congr_step I J) ds _ _ (RCongr.susp s t h)

end Asynkit.Proto

namespace Asynkit.Proto
variable {ι : Type}

/-- what `Equiv0` says about the first `send(None)` -/
theorem Equiv0.first {I J : Obj ι} (h : Equiv0 I J) :
    (I.send I.init 0).2 = (J.send J.init 0).2 ∧
    I.view (I.send I.init 0).1 = J.view (J.send J.init 0).1 ∧
    (∀ y, (I.send I.init 0).2 = .yield y → TrEq I J (I.send I.init 0).1 (J.send J.init 0).1) := by
  have h1 := h []
  rw [run_cons, run_cons] at h1
  simp only [Obj.step] at h1
  have key : (I.send I.init 0).2 = (J.send J.init 0).2 ∧
      I.view (I.send I.init 0).1 = J.view (J.send J.init 0).1 := by
    cases hi : (I.send I.init 0).2 <;> cases hj : (J.send J.init 0).2 <;> simp_all [Obj.run]
  refine ⟨key.1, key.2, ?_⟩
  intro y hy ds
  have h2 := h ds
  rw [run_cons, run_cons] at h2
  simp only [Obj.step] at h2
  rw [← key.1, hy] at h2
  simpa using (List.cons.inj h2).2

/-- started objects: delegation preserves equivalence -/
theorem nativeAwait_congr0 {I J : Obj ι} (h : Equiv0 I J) : Equiv0 (nativeAwaitO I) (nativeAwaitO J) := by
  intro ds
  obtain ⟨ho, hv, hn⟩ := h.first
  rw [run_cons, run_cons]
  rcases hi : I.send I.init 0 with ⟨s', o⟩
  rcases hj : J.send J.init 0 with ⟨t', o'⟩
  rw [hi, hj] at ho hv hn
  simp only at ho hv hn
  subst ho
  rcases o with y | w | e
  · have := nativeAwait_congr_susp I J s' t' (hn y rfl) ds
    wsimp [hi, hj, hv]
    exact this
  · wsimp [hi, hj, hv]
  · cases e <;> wsimp [hi, hj, hv]

/-- freshly created objects (any first drive): delegation preserves equivalence -/
theorem nativeAwait_congr {I J : Obj ι} (h : Equiv I J) (hv : I.view I.init = J.view J.init) :
    Equiv (nativeAwaitO I) (nativeAwaitO J) := by
  intro ds
  cases ds with
  | nil => rfl
  | cons d ds =>
    cases d with
    | send v =>
      by_cases hz : v = 0
      · subst hz; exact nativeAwait_congr0 h.toEquiv0 ds
      · rw [run_cons, run_cons]; wsimp [hz, hv]
    | throw e => rw [run_cons, run_cons]; wsimp [hv]
    | close => rw [run_cons, run_cons]; wsimp [hv]

end Asynkit.Proto

namespace Asynkit.Proto
variable {ι : Type}

/-! ### CoroStart.__await__ -/

macro "cssimp" "[" ts:Lean.Parser.Tactic.simpLemma,* "]" : tactic =>
  `(tactic| simp [Obj.step, coroStartO, coroStartAwaitO, coroStartAwaitB, csView, CS.new, SR.ofOut,
      nativeAwaitO, genObj, coroObj, envObj, nativeAwaitB,
      relay, relayClose, normStop, envAfter, envClosed, EState.body, $ts,*])

inductive RCS (I : Obj ι) : EState (Pc × CS I.σ) → EState I.σ → Prop where
  | susp (cs : CS I.σ) : RCS I (.susp (.loop, cs)) (.susp cs.coro)

theorem coroStart_step (I : Obj ι) (cs0 : CS I.σ) (a : (coroStartAwaitO I cs0).σ) (t : (nativeAwaitO I).σ)
    (d : Drive) (hR : RCS I a t) :
    ((coroStartAwaitO I cs0).step a d).2 = ((nativeAwaitO I).step t d).2 ∧
    (coroStartAwaitO I cs0).view ((coroStartAwaitO I cs0).step a d).1
      = (nativeAwaitO I).view ((nativeAwaitO I).step t d).1 ∧
    (∀ y, ((coroStartAwaitO I cs0).step a d).2 = .yield y →
      RCS I ((coroStartAwaitO I cs0).step a d).1 ((nativeAwaitO I).step t d).1) := by
  cases hR with
  | susp cs =>
    obtain ⟨s, sr⟩ := cs
    cases d with
    | send v =>
      rcases h : I.send s v with ⟨s', o⟩
      rcases o with y | v | e
      · cssimp [h]
        exact RCS.susp ⟨s', sr⟩
      · cssimp [h]
      · cases e <;> cssimp [h]
    | throw e =>
      by_cases he : e = .genExit
      · subst he
        rcases h : I.close s with ⟨s', o⟩
        rcases o with y | v | e
        · cssimp [h]
        · cssimp [h]
        · cases e <;> cssimp [h]
      · rcases h : I.throw s e with ⟨s', o⟩
        rcases o with y | v | e'
        · cases e <;> simp_all [Obj.step, coroStartAwaitO, coroStartAwaitB, csView,
            nativeAwaitO, genObj, coroObj, envObj, nativeAwaitB, relay, normStop, envAfter, EState.body]
          all_goals exact RCS.susp ⟨s', sr⟩
        · cases e <;> simp_all [Obj.step, coroStartAwaitO, coroStartAwaitB, csView,
            nativeAwaitO, genObj, coroObj, envObj, nativeAwaitB, relay, normStop, envAfter, EState.body]
        · cases e <;> cases e' <;> simp_all [Obj.step, coroStartAwaitO, coroStartAwaitB, csView,
            nativeAwaitO, genObj, coroObj, envObj, nativeAwaitB, relay, normStop, envAfter, EState.body]
    | close =>
      rcases h : I.close s with ⟨s', o⟩
      rcases o with y | v | e
      · cssimp [h]
      · cssimp [h]
      · cases e <;> cssimp [h]

/-- once `__await__` is in its loop it is delegation to the (already started) coroutine -/
theorem coroStart_loop_treq (I : Obj ι) (cs0 cs : CS I.σ) :
    TrEq (coroStartAwaitO I cs0) (nativeAwaitO I) (.susp (.loop, cs)) (.susp cs.coro) := fun ds =>
  run_eq_of_bisim _ _ (RCS I) (coroStart_step I cs0) ds _ _ (RCS.susp cs)

/-- `CoroStart(x).__await__()` driven from its first `send(None)` equals `await x` driven from
    its first `send(None)` (the eager start only moves the first inner resume earlier). -/
theorem coroStart_equiv0 (I : Obj ι) : Equiv0 (coroStartO I) (nativeAwaitO I) := by
  intro ds
  rw [run_cons, run_cons]
  rcases h : I.send I.init 0 with ⟨s', o⟩
  rcases o with y | v | e
  · have h1 : (coroStartO I).step (coroStartO I).init (.send 0)
        = ((EState.susp (Pc.loop, (⟨s', none⟩ : CS I.σ)) : EState (Pc × CS I.σ)), Out.yield y) := by
      cssimp [h]
    have h2 : (nativeAwaitO I).step (nativeAwaitO I).init (.send 0)
        = ((EState.susp s' : EState I.σ), Out.yield y) := by
      cssimp [h]
    rw [h1, h2]
    simp only
    congr 1
    exact coroStart_loop_treq I (CS.new I) ⟨s', none⟩ ds
  · cssimp [h]
  · cases e <;> cssimp [h]

end Asynkit.Proto

namespace Asynkit.Proto
variable {ι : Type}

/-! ### delegation is idempotent: `await ref(x)` is `await x` -/

inductive RIdem (I : Obj ι) : EState (EState I.σ) → EState I.σ → Prop where
  | created (s : I.σ) : RIdem I (.created (.created s)) (.created s)
  | susp (s : I.σ) : RIdem I (.susp (.susp s)) (.susp s)

macro "isimp" "[" ts:Lean.Parser.Tactic.simpLemma,* "]" : tactic =>
  `(tactic| simp [Obj.step, nativeAwaitO, coroObj, envObj, nativeAwaitB, normStop, envAfter, envClosed,
      EState.body, $ts,*])

theorem idem_step (I : Obj ι) (a : (nativeAwaitO (nativeAwaitO I)).σ) (t : (nativeAwaitO I).σ) (d : Drive)
    (hR : RIdem I a t) :
    ((nativeAwaitO (nativeAwaitO I)).step a d).2 = ((nativeAwaitO I).step t d).2 ∧
    (nativeAwaitO (nativeAwaitO I)).view ((nativeAwaitO (nativeAwaitO I)).step a d).1
      = (nativeAwaitO I).view ((nativeAwaitO I).step t d).1 ∧
    (∀ y, ((nativeAwaitO (nativeAwaitO I)).step a d).2 = .yield y →
      RIdem I ((nativeAwaitO (nativeAwaitO I)).step a d).1 ((nativeAwaitO I).step t d).1) := by
  cases hR with
  | created s =>
    cases d with
    | send v =>
      by_cases hv : v = 0
      · subst hv
        rcases h : I.send s 0 with ⟨s', o⟩
        rcases o with y | v | e
        · isimp [h]
          exact RIdem.susp s'
        · isimp [h]
        · cases e <;> isimp [h]
      · isimp [hv]
    | throw e => isimp []
    | close => isimp []
  | susp s =>
    cases d with
    | send v =>
      rcases h : I.send s v with ⟨s', o⟩
      rcases o with y | v | e
      · isimp [h]
        exact RIdem.susp s'
      · isimp [h]
      · cases e <;> isimp [h]
    | throw e =>
      by_cases he : e = .genExit
      · subst he
        rcases h : I.close s with ⟨s', o⟩
        rcases o with y | v | e
        · isimp [h]
        · isimp [h]
        · cases e <;> isimp [h]
      · rcases h : I.throw s e with ⟨s', o⟩
        rcases o with y | v | e'
        · cases e <;> simp_all [Obj.step, nativeAwaitO, coroObj, envObj, nativeAwaitB, normStop, envAfter,
            envClosed, EState.body]
          all_goals exact RIdem.susp s'
        · cases e <;> simp_all [Obj.step, nativeAwaitO, coroObj, envObj, nativeAwaitB, normStop, envAfter,
            envClosed, EState.body]
        · cases e <;> cases e' <;> simp_all [Obj.step, nativeAwaitO, coroObj, envObj, nativeAwaitB, normStop,
            envAfter, envClosed, EState.body]
    | close =>
      rcases h : I.close s with ⟨s', o⟩
      rcases o with y | v | e
      · isimp [h]
      · isimp [h]
      · cases e <;> isimp [h]

theorem nativeAwait_idem (I : Obj ι) : Equiv (nativeAwaitO (nativeAwaitO I)) (nativeAwaitO I) := fun ds =>
  run_eq_of_bisim _ _ (RIdem I) (idem_step I) ds _ _ (RIdem.created _)

theorem nativeAwait_idem_susp (I : Obj ι) (s : I.σ) :
    TrEq (nativeAwaitO (nativeAwaitO I)) (nativeAwaitO I) (.susp (.susp s)) (.susp s) := fun ds =>
  run_eq_of_bisim _ _ (RIdem I) (idem_step I) ds _ _ (RIdem.susp _)

end Asynkit.Proto

namespace Asynkit.Proto
variable {ι : Type}

/-! ### as_coroutine, coro_await -/

theorem asCoroutine_equiv0 (I : Obj ι) : Equiv0 (asCoroutineO I) (nativeAwaitO I) :=
  (nativeAwait_congr0 (coroStart_equiv0 I)).trans (nativeAwait_idem I).toEquiv0

inductive RCA (I : Obj ι) : EState (Option (EState (Pc × CS I.σ))) → EState (EState (Pc × CS I.σ)) → Prop where
  | susp (it : EState (Pc × CS I.σ)) : RCA I (.susp (some it)) (.susp it)

theorem coroAwait_step (I : Obj ι) (a : (coroAwaitO I).σ) (t : (nativeAwaitO (coroStartO I)).σ) (d : Drive)
    (hR : RCA I a t) :
    ((coroAwaitO I).step a d).2 = ((nativeAwaitO (coroStartO I)).step t d).2 ∧
    (coroAwaitO I).view ((coroAwaitO I).step a d).1
      = (nativeAwaitO (coroStartO I)).view ((nativeAwaitO (coroStartO I)).step t d).1 ∧
    (∀ y, ((coroAwaitO I).step a d).2 = .yield y →
      RCA I ((coroAwaitO I).step a d).1 ((nativeAwaitO (coroStartO I)).step t d).1) := by
  cases hR with
  | susp it =>
    cases d with
    | send v =>
      rcases h : (nativeAwaitB (coroStartO I)).resume it (.send v) with ⟨it', o⟩
      rcases o with y | v | e
      · simp [Obj.step, coroAwaitO, nativeAwaitO, coroObj, envObj, coroAwaitB, envAfter, EState.body, h]
        exact RCA.susp it'
      · simp [Obj.step, coroAwaitO, nativeAwaitO, coroObj, envObj, coroAwaitB, envAfter, EState.body, h]
      · cases e <;>
        simp [Obj.step, coroAwaitO, nativeAwaitO, coroObj, envObj, coroAwaitB, envAfter, EState.body, h]
    | throw e =>
      rcases h : (nativeAwaitB (coroStartO I)).resume it (.throw e) with ⟨it', o⟩
      rcases o with y | v | e'
      · simp [Obj.step, coroAwaitO, nativeAwaitO, coroObj, envObj, coroAwaitB, envAfter, EState.body, h]
        exact RCA.susp it'
      · simp [Obj.step, coroAwaitO, nativeAwaitO, coroObj, envObj, coroAwaitB, envAfter, EState.body, h]
      · cases e' <;>
        simp [Obj.step, coroAwaitO, nativeAwaitO, coroObj, envObj, coroAwaitB, envAfter, EState.body, h]
    | close =>
      rcases h : (nativeAwaitB (coroStartO I)).resume it (.throw .genExit) with ⟨it', o⟩
      rcases o with y | v | e'
      · simp [Obj.step, coroAwaitO, nativeAwaitO, coroObj, envObj, coroAwaitB, envAfter, envClosed, EState.body, h]
      · simp [Obj.step, coroAwaitO, nativeAwaitO, coroObj, envObj, coroAwaitB, envAfter, envClosed, EState.body, h]
      · cases e' <;>
        simp [Obj.step, coroAwaitO, nativeAwaitO, coroObj, envObj, coroAwaitB, envAfter, envClosed, EState.body, h]

theorem coroAwait_susp (I : Obj ι) (it : EState (Pc × CS I.σ)) :
    TrEq (coroAwaitO I) (nativeAwaitO (coroStartO I)) (.susp (some it)) (.susp it) := fun ds =>
  run_eq_of_bisim _ _ (RCA I) (coroAwait_step I) ds _ _ (RCA.susp it)

/-- a suspended `coro_await` behaves as delegation to the inner object -/
theorem coroAwait_loop_treq (I : Obj ι) (cs : CS I.σ) :
    TrEq (coroAwaitO I) (nativeAwaitO I) (.susp (some (.susp (.loop, cs)))) (.susp cs.coro) :=
  ((coroAwait_susp I _).trans
    (nativeAwait_congr_susp _ _ _ _ (coroStart_loop_treq I (CS.new I) cs))).trans
    (nativeAwait_idem_susp I cs.coro)

theorem coroAwait_equiv (I : Obj ι) : Equiv (coroAwaitO I) (nativeAwaitO I) := by
  intro ds
  cases ds with
  | nil => rfl
  | cons d ds =>
    rw [run_cons, run_cons]
    cases d with
    | send v =>
      by_cases hz : v = 0
      · subst hz
        rcases h : I.send I.init 0 with ⟨s', o⟩
        rcases o with y | v | e
        · have h1 : (coroAwaitO I).step (coroAwaitO I).init (.send 0)
              = ((EState.susp (some (EState.susp (Pc.loop, (⟨s', none⟩ : CS I.σ)))) :
                  EState (Option (EState (Pc × CS I.σ)))), Out.yield y) := by
            simp [coroAwaitO, coroAwaitB]
            cssimp [h]
          have h2 : (nativeAwaitO I).step (nativeAwaitO I).init (.send 0)
              = ((EState.susp s' : EState I.σ), Out.yield y) := by
            cssimp [h]
          rw [h1, h2]
          simp only
          congr 1
          exact coroAwait_loop_treq I ⟨s', none⟩ ds
        · simp [coroAwaitO, coroAwaitB]
          cssimp [h]
        · cases e <;> (simp [coroAwaitO, coroAwaitB]; cssimp [h])
      · simp [Obj.step, coroAwaitO, nativeAwaitO, coroObj, envObj, coroAwaitB, nativeAwaitB, hz, EState.body]
    | throw e => simp [Obj.step, coroAwaitO, nativeAwaitO, coroObj, envObj, coroAwaitB, nativeAwaitB, EState.body]
    | close => simp [Obj.step, coroAwaitO, nativeAwaitO, coroObj, envObj, coroAwaitB, nativeAwaitB, EState.body]

end Asynkit.Proto

namespace Asynkit.Proto
variable {ι : Type}

/-! ### Monitor._asend / aawait / BoundMonitor without out-of-band traffic -/

/-- the awaited coroutine does not itself raise `OOBData` from its first step (the one place
    where `_asend` treats that exception specially) -/
def NoOOBFirst (I : Obj ι) : Prop := ∀ d, (I.send I.init 0).2 ≠ .raise (.oobData d)

inductive RMon (I : Obj ι) : EState (MonSt I.σ) → EState I.σ → Prop where
  | created : RMon I (.created { pc := .start, mon := 0, coro := I.init }) (.created I.init)
  | susp (m : Int) (s : I.σ) : RMon I (.susp { pc := .loop, mon := m, coro := s }) (.susp s)

macro "msimp" "[" ts:Lean.Parser.Tactic.simpLemma,* "]" : tactic =>
  `(tactic| simp [Obj.step, monitorAsendO, monitorAsendB, nativeAwaitO, genObj, coroObj, envObj, nativeAwaitB,
      normStop, envAfter, envClosed, EState.body, $ts,*])

theorem monitor_step (I : Obj ι) (hno : NoOOBFirst I) (a : (monitorAsendO I 0 0).σ) (t : (nativeAwaitO I).σ)
    (d : Drive) (hR : RMon I a t) :
    ((monitorAsendO I 0 0).step a d).2 = ((nativeAwaitO I).step t d).2 ∧
    (monitorAsendO I 0 0).view ((monitorAsendO I 0 0).step a d).1
      = (nativeAwaitO I).view ((nativeAwaitO I).step t d).1 ∧
    (∀ y, ((monitorAsendO I 0 0).step a d).2 = .yield y →
      RMon I ((monitorAsendO I 0 0).step a d).1 ((nativeAwaitO I).step t d).1) := by
  cases hR with
  | created =>
    cases d with
    | send v =>
      by_cases hv : v = 0
      · subst hv
        have hno' := hno
        unfold NoOOBFirst at hno'
        rcases h : I.send I.init 0 with ⟨s', o⟩
        rw [h] at hno'
        rcases o with y | v | e
        · msimp [h]
          exact RMon.susp 1 s'
        · msimp [h]
        · cases e <;> first | (exfalso; exact hno' _ rfl) | msimp [h]
      · msimp [hv]
    | throw e => msimp []
    | close => msimp []
  | susp m s =>
    cases d with
    | send v =>
      rcases h : I.send s v with ⟨s', o⟩
      rcases o with y | v | e
      · msimp [h]
        exact RMon.susp m s'
      · msimp [h]
      · cases e <;> msimp [h]
    | throw e =>
      by_cases he : e = .genExit
      · subst he
        rcases h : I.close s with ⟨s', o⟩
        rcases o with y | v | e
        · msimp [h]
        · msimp [h]
        · cases e <;> msimp [h]
      · rcases h : I.throw s e with ⟨s', o⟩
        rcases o with y | v | e'
        · cases e <;> simp_all [Obj.step, monitorAsendO, monitorAsendB, nativeAwaitO, genObj, coroObj, envObj,
            nativeAwaitB, normStop, envAfter, envClosed, EState.body]
          all_goals exact RMon.susp m s'
        · cases e <;> simp_all [Obj.step, monitorAsendO, monitorAsendB, nativeAwaitO, genObj, coroObj, envObj,
            nativeAwaitB, normStop, envAfter, envClosed, EState.body]
        · cases e <;> cases e' <;> simp_all [Obj.step, monitorAsendO, monitorAsendB, nativeAwaitO, genObj,
            coroObj, envObj, nativeAwaitB, normStop, envAfter, envClosed, EState.body]
    | close =>
      rcases h : I.close s with ⟨s', o⟩
      rcases o with y | v | e
      · msimp [h]
      · msimp [h]
      · cases e <;> msimp [h]

theorem monitorAsend_equiv (I : Obj ι) (hno : NoOOBFirst I) : Equiv (monitorAsendO I 0 0) (nativeAwaitO I) :=
  fun ds => run_eq_of_bisim _ _ (RMon I) (monitor_step I hno) ds _ _ RMon.created

theorem monitorAawait_equiv (I : Obj ι) (hno : NoOOBFirst I) : Equiv (monitorAawaitO I) (nativeAwaitO I) :=
  TrEq.trans (nativeAwait_congr (monitorAsend_equiv I hno) rfl) (nativeAwait_idem I)

theorem boundMonitor_equiv (I : Obj ι) (hno : NoOOBFirst I) : Equiv (boundMonitorO I) (nativeAwaitO I) :=
  monitorAawait_equiv I hno

/-- the excluded case: a coroutine whose first step raises OOBData gets RuntimeError from the
    monitor, OOBData from a native await -/
theorem monitorAsend_oob_first (I : Obj ι) (d : Val) (h : (I.send I.init 0).2 = .raise (.oobData d)) :
    (monitorAsendO I 0 0).outs (monitorAsendO I 0 0).init [.send 0] = [.raise (.runtime rtRaisedOOB)] ∧
    (nativeAwaitO I).outs (nativeAwaitO I).init [.send 0] = [.raise (.oobData d)] := by
  rcases hh : I.send I.init 0 with ⟨s', o⟩
  rw [hh] at h
  simp only at h
  subst h
  constructor <;> simp [Obj.outs, Obj.run] <;> msimp [hh]

end Asynkit.Proto

namespace Asynkit.Proto
variable {ι : Type}

/-! ### CoroStart.athrow / aclose -/

inductive RAT (I : Obj ι) : EState (CS I.σ ⊕ EState (Pc × CS I.σ)) → EState (EState (Pc × CS I.σ)) → Prop where
  | susp (it : EState (Pc × CS I.σ)) : RAT I (.susp (.inr it)) (.susp it)

macro "asimp" "[" ts:Lean.Parser.Tactic.simpLemma,* "]" : tactic =>
  `(tactic| simp [Obj.step, coroStartAthrowO, coroStartAthrowB, athrowView, nativeAwaitO, coroObj, envObj,
      envAfter, envClosed, EState.body, $ts,*])

theorem athrow_step (I : Obj ι) (cs : CS I.σ) (e : Exc) (a : (coroStartAthrowO I cs e).σ)
    (t : (nativeAwaitO (coroStartAwaitO I cs)).σ) (d : Drive) (hR : RAT I a t) :
    ((coroStartAthrowO I cs e).step a d).2 = ((nativeAwaitO (coroStartAwaitO I cs)).step t d).2 ∧
    (coroStartAthrowO I cs e).view ((coroStartAthrowO I cs e).step a d).1
      = (nativeAwaitO (coroStartAwaitO I cs)).view ((nativeAwaitO (coroStartAwaitO I cs)).step t d).1 ∧
    (∀ y, ((coroStartAthrowO I cs e).step a d).2 = .yield y →
      RAT I ((coroStartAthrowO I cs e).step a d).1 ((nativeAwaitO (coroStartAwaitO I cs)).step t d).1) := by
  cases hR with
  | susp it =>
    cases d with
    | send v =>
      rcases h : (nativeAwaitB (coroStartAwaitO I cs)).resume it (.send v) with ⟨it', o⟩
      rcases o with y | v | e1
      · asimp [h]
        exact ⟨rfl, RAT.susp it'⟩
      · asimp [h]; rfl
      · cases e1 <;> asimp [h] <;> rfl
    | throw e0 =>
      rcases h : (nativeAwaitB (coroStartAwaitO I cs)).resume it (.throw e0) with ⟨it', o⟩
      rcases o with y | v | e1
      · asimp [h]
        exact ⟨rfl, RAT.susp it'⟩
      · asimp [h]; rfl
      · cases e1 <;> asimp [h] <;> rfl
    | close =>
      rcases h : (nativeAwaitB (coroStartAwaitO I cs)).resume it (.throw .genExit) with ⟨it', o⟩
      rcases o with y | v | e1
      · asimp [h]; rfl
      · asimp [h]; rfl
      · cases e1 <;> asimp [h] <;> rfl

end Asynkit.Proto

namespace Asynkit.Proto
variable {ι : Type}

theorem athrow_susp (I : Obj ι) (cs : CS I.σ) (e : Exc) (it : EState (Pc × CS I.σ)) :
    TrEq (coroStartAthrowO I cs e) (nativeAwaitO (coroStartAwaitO I cs)) (.susp (.inr it)) (.susp it) :=
  fun ds => run_eq_of_bisim _ _ (RAT I) (athrow_step I cs e) ds _ _ (RAT.susp it)

theorem athrow_loop_treq (I : Obj ι) (cs cs' : CS I.σ) (e : Exc) :
    TrEq (coroStartAthrowO I cs e) (nativeAwaitO I) (.susp (.inr (.susp (.loop, cs')))) (.susp cs'.coro) :=
  ((athrow_susp I cs e _).trans
    (nativeAwait_congr_susp _ _ _ _ (coroStart_loop_treq I cs cs'))).trans
    (nativeAwait_idem_susp I cs'.coro)

theorem nativeAwaitB_throw (I : Obj ι) (s : I.σ) (e : Exc) (he : e ≠ .genExit) :
    (nativeAwaitB I).resume s (.throw e) = ((I.throw s e).1, normStop (I.throw s e).2) := by
  cases e <;> first | exact absurd rfl he | rfl

theorem nativeAwaitO_throw_susp (I : Obj ι) (s : I.σ) (e : Exc) (he : e ≠ .genExit) :
    (nativeAwaitO I).step (EState.susp s) (.throw e)
      = envAfter ((I.throw s e).1, normStop (I.throw s e).2) := by
  show envAfter ((nativeAwaitB I).resume s (.throw e)) = _
  rw [nativeAwaitB_throw I s e he]
  rfl

/-- `cs.athrow(e)` (driven from its first `send(None)`) on a CoroStart holding a suspended
    coroutine = `throw(e)` on a native await suspended on that coroutine, for `e ≠ GeneratorExit`. -/
theorem athrow_treq (I : Obj ι) (cs : CS I.σ) (e : Exc) (he : e ≠ .genExit) (ds : List Drive) :
    (coroStartAthrowO I cs e).run (coroStartAthrowO I cs e).init (.send 0 :: ds)
      = (nativeAwaitO I).run (.susp cs.coro) (.throw e :: ds) := by
  rw [run_cons]
  refine Eq.trans ?_ (run_cons (nativeAwaitO I) (EState.susp cs.coro) (.throw e) ds).symm
  rcases h : I.throw cs.coro e with ⟨s', o⟩
  rcases o with y | v | e1
  · have h1 : (coroStartAthrowO I cs e).step (coroStartAthrowO I cs e).init (.send 0)
        = ((EState.susp (Sum.inr (EState.susp (Pc.loop, (⟨s', none⟩ : CS I.σ)))) :
            EState (CS I.σ ⊕ EState (Pc × CS I.σ))), Out.yield y) := by
      simp [coroStartAthrowO, coroStartAthrowB]
      cssimp [h]
    have h2 : (nativeAwaitO I).step (EState.susp cs.coro) (.throw e)
        = ((EState.susp s' : EState I.σ), Out.yield y) := by
      rw [nativeAwaitO_throw_susp I _ e he, h]; rfl
    rw [h1, h2]
    simp only
    congr 1
    exact athrow_loop_treq I cs ⟨s', none⟩ e ds
  · have h1 : (coroStartAthrowO I cs e).step (coroStartAthrowO I cs e).init (.send 0)
        = ((EState.done (Sum.inr (EState.done (Pc.start, (⟨s', none⟩ : CS I.σ)))) :
            EState (CS I.σ ⊕ EState (Pc × CS I.σ))), Out.ret v) := by
      simp [coroStartAthrowO, coroStartAthrowB]
      cssimp [h]
    have h2 : (nativeAwaitO I).step (EState.susp cs.coro) (.throw e)
        = ((EState.done s' : EState I.σ), Out.ret v) := by
      rw [nativeAwaitO_throw_susp I _ e he, h]; rfl
    rw [h1, h2]
    rfl
  · rw [nativeAwaitO_throw_susp I _ e he, h]
    cases e1 <;> (
      simp [coroStartAthrowO, coroStartAthrowB]
      cssimp [h, athrowView])

end Asynkit.Proto

namespace Asynkit.Proto
variable {ι : Type}

/-- `cs.aclose()` on a CoroStart holding a suspended coroutine = `close()` of a native await
    suspended on it, as long as the coroutine does not yield in response to GeneratorExit
    (then aclose keeps awaiting — "async cleanup" — where close() reports "ignored GeneratorExit").
    `hcl`/`hns` say that `I` is a CPython object at `s` (close = throw GeneratorExit + gen_close
    post-processing; PEP 479). -/
theorem aclose_step_eq (I : Obj ι) (s : I.σ) (y0 : Y)
    (hcl : I.close s = envClosed (I.throw s .genExit))
    (hny : ∀ y, (I.throw s .genExit).2 ≠ .yield y)
    (hns : ∀ w, (I.throw s .genExit).2 ≠ .raise (.stopIter w)) :
    ((coroStartAcloseO I ⟨s, some (.pending y0)⟩).step (coroStartAcloseO I ⟨s, some (.pending y0)⟩).init
        (.send 0)).2 = ((nativeAwaitO I).step (.susp s) .close).2 ∧
    (coroStartAcloseO I ⟨s, some (.pending y0)⟩).view
      ((coroStartAcloseO I ⟨s, some (.pending y0)⟩).step (coroStartAcloseO I ⟨s, some (.pending y0)⟩).init
        (.send 0)).1 = (nativeAwaitO I).view ((nativeAwaitO I).step (.susp s) .close).1 := by
  rcases h : I.throw s .genExit with ⟨s', o⟩
  rw [h] at hcl hny hns
  rcases o with y | v | e
  · exact absurd rfl (hny y)
  · simp [envClosed] at hcl
    simp [Obj.step, coroStartAcloseO, coroStartAcloseB, coroStartAthrowO, coroStartAthrowB, athrowView]
    cssimp [h, hcl]
  · cases e <;> first | exact absurd rfl (hns _) | (
      simp [envClosed] at hcl
      simp [Obj.step, coroStartAcloseO, coroStartAcloseB, coroStartAthrowO, coroStartAthrowB, athrowView]
      cssimp [h, hcl])

end Asynkit.Proto

namespace Asynkit.Proto
variable {ι : Type}

/-! ### stacks of wrappers -/

/-- a wrapper kind is transparent when, around any inner object whose first step does not raise
    OOBData, it is equivalent (once started) to a native await of that object -/
def Transparent (w : Obj ι → Obj ι) : Prop := ∀ I, NoOOBFirst I → Equiv0 (w I) (nativeAwaitO I)

/-- same, for every first drive (also throw/close into the not yet started wrapper) -/
def TransparentFull (w : Obj ι → Obj ι) : Prop :=
  ∀ I, NoOOBFirst I → Equiv (w I) (nativeAwaitO I) ∧ (w I).view (w I).init = I.view I.init

/-- head = outermost wrapper -/
def stack (ws : List (Obj ι → Obj ι)) (I : Obj ι) : Obj ι := ws.foldr (fun w acc => w acc) I

def nativeStack : Nat → Obj ι → Obj ι
  | 0, I => I
  | n + 1, I => nativeAwaitO (nativeStack n I)

theorem noOOB_nativeAwait (I : Obj ι) (h : NoOOBFirst I) : NoOOBFirst (nativeAwaitO I) := by
  intro d
  have := h
  unfold NoOOBFirst at this
  rcases hh : I.send I.init 0 with ⟨s', o⟩
  rw [hh] at this
  rcases o with y | v | e
  · isimp [hh]
  · isimp [hh]
  · cases e <;> first | exact absurd rfl (this _) | isimp [hh]

theorem noOOB_of_equiv0 {J I : Obj ι} (h : Equiv0 J I) (hI : NoOOBFirst I) : NoOOBFirst J := by
  intro d hd
  exact hI d (h.first.1 ▸ hd)

theorem noOOB_nativeStack (I : Obj ι) (h : NoOOBFirst I) : ∀ n, NoOOBFirst (nativeStack n I)
  | 0 => h
  | n + 1 => noOOB_nativeAwait _ (noOOB_nativeStack I h n)

theorem stack_equiv0_nativeStack (ws : List (Obj ι → Obj ι)) (hw : ∀ w ∈ ws, Transparent w)
    (I : Obj ι) (hI : NoOOBFirst I) : Equiv0 (stack ws I) (nativeStack ws.length I) := by
  induction ws with
  | nil => intro ds; rfl
  | cons w ws ih =>
    have ih' := ih (fun w' h' => hw w' (List.mem_cons_of_mem _ h'))
    have hno : NoOOBFirst (stack ws I) := noOOB_of_equiv0 ih' (noOOB_nativeStack I hI _)
    exact (hw w (List.mem_cons_self) (stack ws I) hno).trans (nativeAwait_congr0 ih')

theorem nativeStack_view_init (I : Obj ι) : ∀ n, (nativeStack n I).view (nativeStack n I).init = I.view I.init
  | 0 => rfl
  | n + 1 => by
    show (nativeStack n I).view (nativeStack n I).init = _
    exact nativeStack_view_init I n

/-- n+1 nested native awaits are one native await -/
theorem nativeStack_collapse (I : Obj ι) : ∀ n, Equiv (nativeStack (n + 1) I) (nativeAwaitO I)
  | 0 => TrEq.refl _ _
  | n + 1 =>
    TrEq.trans (nativeAwait_congr (nativeStack_collapse I n) (nativeStack_view_init I (n + 1)))
      (nativeAwait_idem I)

theorem stack_equiv0 (ws : List (Obj ι → Obj ι)) (hne : ws ≠ []) (hw : ∀ w ∈ ws, Transparent w)
    (I : Obj ι) (hI : NoOOBFirst I) : Equiv0 (stack ws I) (nativeAwaitO I) := by
  have h := stack_equiv0_nativeStack ws hw I hI
  cases ws with
  | nil => exact absurd rfl hne
  | cons w ws => exact h.trans (nativeStack_collapse I ws.length).toEquiv0

theorem stack_equiv_full (ws : List (Obj ι → Obj ι)) (hw : ∀ w ∈ ws, TransparentFull w)
    (I : Obj ι) (hI : NoOOBFirst I) :
    Equiv (stack ws I) (nativeStack ws.length I) ∧
    (stack ws I).view (stack ws I).init = I.view I.init := by
  induction ws with
  | nil => exact ⟨TrEq.refl _ _, rfl⟩
  | cons w ws ih =>
    have ih' := ih (fun w' h' => hw w' (List.mem_cons_of_mem _ h'))
    have hno : NoOOBFirst (stack ws I) := noOOB_of_equiv0 ih'.1.toEquiv0 (noOOB_nativeStack I hI _)
    have hwI := hw w (List.mem_cons_self) (stack ws I) hno
    refine ⟨TrEq.trans hwI.1 (nativeAwait_congr ih'.1 ?_), hwI.2.trans ih'.2⟩
    exact ih'.2.trans (nativeStack_view_init I _).symm

end Asynkit.Proto
