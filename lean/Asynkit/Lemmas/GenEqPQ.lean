/-
The tie by translation for `asynkit.tools.PriorityQueue` (DESIGN §3.3).

`translator/pq2lean.py` re-reads the class from /repo/src on every run and emits one Lean
definition per method (`Asynkit/Gen/PQ.lean`, statement by statement: explicit state threading,
`Except`-style results, `PyRt.forLoop` for the `for … break … else` loops).  This file proves, for
**every** heap library `H`, every comparison `plt` and every state, that each generated method is
the hand-written model's method (`Asynkit/Model/PQ.lean`) — the subject of all C17 / C19 / C08 /
C10 container theorems.  When the source changes the generated text changes: a harmless rewrite
still proves (the proofs unfold and normalise with `simp`/`omega`, they are not syntactic `rfl`s);
a semantic change breaks one of these equalities = a broken proof obligation.

Conventions: a generated method returns `(Except Exc result, state)`.  An exception leaves the
state exactly as the model's `step` says (unchanged).  Results: `pop`/`peek` return `entry.obj`,
`popitem`/`peekitem`/`find` the pair `(priority, obj)`, `remove` the priority — all projections of
the entry the model returns.
-/
import Asynkit.Gen.PQ
import Asynkit.Lemmas.PyRt

set_option linter.unusedSimpArgs false
set_option linter.unusedVariables false

namespace Asynkit.GenEqPQ
open Asynkit Asynkit.PyRt

variable {π : Type} (H : HeapLib (Entry π)) (plt : π → π → Bool)

/-- `PriEntry.__lt__` as generated is the model's `Entry.lt` (as functions) -/
theorem lt_eq : Gen.priEntryLt plt = Entry.lt plt := by
  funext a b
  -- robust against rewrites of the boolean expression: decide it on the three atoms it reads
  unfold Gen.priEntryLt Entry.lt
  cases plt a.pri b.pri <;> cases plt b.pri a.pri <;> by_cases h : a.seq < b.seq <;> simp [h]

/-- `list.sort()` is the model's stable sort -/
theorem listSort_eq (lt : Entry π → Entry π → Bool) (l : List (Entry π)) :
    listSort lt l = PQ.stableSort lt l := by
  have hi : ∀ x l, sortInsert lt x l = PQ.stableInsert lt x l := by
    intro x l; induction l with
    | nil => rfl
    | cons y ys ih => simp [sortInsert, PQ.stableInsert, ih]
  induction l with
  | nil => rfl
  | cons x xs ih => simp [listSort, PQ.stableSort, ih, hi]

/-- `__init__` -/
theorem init_eq : (Gen.PQ.init : PQ π) = PQ.empty := by
  simp [Gen.PQ.init, PQ.empty]

/-- `__len__` -/
theorem len_eq (s : PQ π) : Gen.PQ.len H plt s = (.ok s.len, s) := by
  simp [Gen.PQ.len, PQ.len]

/-- `__bool__`: non-empty -/
theorem bool_eq (s : PQ π) : Gen.PQ.bool H plt s = (.ok (decide (0 < s.len)), s) := by
  cases s with | mk seq pq => cases pq <;> simp [Gen.PQ.bool, PQ.len]

/-- `add` -/
theorem add_eq (s : PQ π) (p : π) (x : Nat) :
    Gen.PQ.add H plt s p x = (.ok (), PQ.add H plt s p x) := by
  simp [Gen.PQ.add, PQ.add, lt_eq]

/-- `refresh` -/
theorem refresh_eq (s : PQ π) : Gen.PQ.refresh H plt s = (.ok (), PQ.refresh H plt s) := by
  simp [Gen.PQ.refresh, PQ.refresh, lt_eq]

/-- `sort` -/
theorem sort_eq (s : PQ π) : Gen.PQ.sort H plt s = (.ok (), PQ.sort plt s) := by
  simp [Gen.PQ.sort, PQ.sort, lt_eq, listSort_eq]

/-- `clear` -/
theorem clear_eq (s : PQ π) : Gen.PQ.clear H plt s = (.ok (), PQ.clear s) := by
  simp [Gen.PQ.clear, PQ.clear]

/-- `copy`: a new queue with the same value (fresh `PriEntry` objects), `self` untouched -/
theorem copy_eq (s : PQ π) : Gen.PQ.copy H plt s = (.ok (PQ.copy s), s) := by
  cases s with | mk seq pq =>
  have : pq.map (fun e => (⟨e.pri, e.seq, e.obj⟩ : Entry π)) = pq := by
    induction pq <;> simp_all
  simp [Gen.PQ.copy, PQ.copy, Gen.PQ.init, this]

/-- `sorted()`: a sorted copy, `self` untouched -/
theorem sorted_eq (s : PQ π) : Gen.PQ.sorted H plt s = (.ok (PQ.sort plt (PQ.copy s)), s) := by
  cases s with | mk seq pq =>
  have : pq.map (fun e => (⟨e.pri, e.seq, e.obj⟩ : Entry π)) = pq := by
    induction pq <;> simp_all
  simp [Gen.PQ.sorted, sort_eq, PQ.copy, PQ.sort, Gen.PQ.init, this, lt_eq, listSort_eq]

/-- `pop`: IndexError on an empty heap (state unchanged), else the popped entry's object -/
theorem pop_eq (s : PQ π) :
    Gen.PQ.pop H plt s = match PQ.popEntry H plt s with
      | none => (.error .indexError, s)
      | some (e, s') => (.ok e.obj, s') := by
  unfold Gen.PQ.pop PQ.popEntry PQ.resetIfEmpty
  rw [lt_eq]
  cases H.pop (Entry.lt plt) s.pq with
  | none => rfl
  | some r => obtain ⟨e, l⟩ := r; cases l <;> simp

/-- `popitem` -/
theorem popitem_eq (s : PQ π) :
    Gen.PQ.popitem H plt s = match PQ.popEntry H plt s with
      | none => (.error .indexError, s)
      | some (e, s') => (.ok (e.pri, e.obj), s') := by
  unfold Gen.PQ.popitem PQ.popEntry PQ.resetIfEmpty
  rw [lt_eq]
  cases H.pop (Entry.lt plt) s.pq with
  | none => rfl
  | some r => obtain ⟨e, l⟩ := r; cases l <;> simp

/-- `peek` -/
theorem peek_eq (s : PQ π) :
    Gen.PQ.peek H plt s = match PQ.peek s with
      | none => (.error .indexError, s)
      | some e => (.ok e.obj, s) := by
  cases s with | mk seq pq => cases pq <;> simp [Gen.PQ.peek, PQ.peek]

/-- `peekitem` -/
theorem peekitem_eq (s : PQ π) :
    Gen.PQ.peekitem H plt s = match PQ.peek s with
      | none => (.error .indexError, s)
      | some e => (.ok (e.pri, e.obj), s) := by
  cases s with | mk seq pq => cases pq <;> simp [Gen.PQ.peekitem, PQ.peek]

/-- `extend`: the append loop, then one `heapify` -/
theorem extend_eq (s : PQ π) (es : List (π × Nat)) :
    Gen.PQ.extend H plt s es = (.ok (), PQ.extend H plt s es) := by
  unfold Gen.PQ.extend PQ.extend
  have hloop : ∀ (es : List (π × Nat)) (s : PQ π) (f : π × Nat → PQ π → Ctl (PQ π) Empty (Except Exc Unit × PQ π)),
      (∀ it st, f it st = .next ⟨st.seq + 1, st.pq ++ [⟨it.1, st.seq, it.2⟩]⟩) →
      forLoop es s f = .next ⟨(PQ.appendAll s.seq s.pq es).1, (PQ.appendAll s.seq s.pq es).2⟩ := by
    intro es
    induction es with
    | nil => intro s f _; rfl
    | cons e es ih =>
      intro s f hf
      obtain ⟨p, x⟩ := e
      simp only [forLoop, hf, PQ.appendAll]
      exact ih _ f hf
  rw [hloop es s _ (by intro it st; simp <;> omega)]
  simp [lt_eq]

/-- side conditions of `forLoop_find`: the body steps on where the predicate fails and leaves the
    loop (`break` / `return` / `raise`, whatever follows) where it holds -/
macro "loop_side" : tactic =>
  `(tactic| (intro _ _ _
             first
               | (simp_all [Ctl.isExit]; done)
               | (simp_all [Ctl.isExit]; omega)
               | (try dsimp only at *
                  (repeat' split) <;> simp_all [Ctl.isExit])))

/-- `find(key, remove)`: `None` when nothing matches; else the (priority, object) of the model's
    entry, and the model's state -/
theorem find_eq (s : PQ π) (key : Nat → Bool) (rm : Bool) :
    Gen.PQ.find H plt s key rm =
      (.ok ((PQ.find H plt s key rm).1.map (fun e => (e.pri, e.obj))), (PQ.find H plt s key rm).2) := by
  unfold Gen.PQ.find PQ.find PQ.revIndex
  try dsimp only
  rw [forLoop_find (p := fun it => key it.1.1.obj)]
  · obtain ⟨hs, hn⟩ := find?_revEnum_spec s.pq (fun e => key e.obj)
    simp only [List.length_reverse] at hs hn ⊢
    generalize s.pq.reverse.findIdx (fun e => key e.obj) = j at hs hn ⊢
    by_cases h : j < s.pq.length
    · obtain ⟨x, hx, hqx, hf⟩ := hs h
      simp only [hf, h, hx, hqx, if_true, lt_eq]
      cases rm
      · simp
      · cases hl : s.pq.getLast? with
        | none => simp_all
        | some last =>
          have hlen : s.pq.dropLast.length = s.pq.length - 1 := by simp
          simp only [listPop, hl, PQ.replaceWithTail, if_true, if_false, Bool.not_true, Bool.not_false,
            Bool.false_eq_true]
          by_cases hj : j = 0
          · -- the tail: `pop()`, sequence reset when that emptied the queue
            generalize s.pq.dropLast = d
            decide_ifs
            cases d <;> simp [PQ.resetIfEmpty]
          · -- any other index: the tail replaces it, then `heapify`
            have h0 : (0:Int) ≤ ↑s.pq.length - ↑j - 1 := by omega
            have h1 : ((s.pq.length : Int) - ↑j - 1).toNat = s.pq.length - j - 1 := by omega
            have hset : ∀ v, setItemI s.pq.dropLast (↑s.pq.length - ↑j - 1) v
                = some (s.pq.dropLast.set (s.pq.length - j - 1) v) := by
              intro v; rw [setItemI_nat _ _ _ h0 (by omega), h1]
            decide_ifs
            simp [hset]
    · simp [hn h, h]
  · loop_side
  · loop_side

/-- `remove(obj)`: ValueError (state unchanged) when the object is absent; else the priority of the
    model's removed entry and the model's state.  (For a heap library whose `pop` fails on a
    non-empty list the code raises IndexError where the model only says "error"; `remove_eq_total` is
    the statement for libraries that pop every non-empty heap, e.g. every lawful one.) -/
theorem remove_eq (s : PQ π) (x : Nat) :
    Gen.PQ.remove H plt s x = match PQ.remove H plt s x with
      | none => (.error (if PQ.indexOfObj s.pq x = none then .valueError else .indexError), s)
      | some (e, s') => (.ok e.pri, s') := by
  unfold Gen.PQ.remove PQ.remove PQ.indexOfObj
  try dsimp only
  rw [forLoop_find (p := fun it => it.1.1.obj == x)]
  · obtain ⟨hs, hn⟩ := find?_enum_spec s.pq (fun e => e.obj == x)
    try simp only at hs hn
    try simp only
    generalize s.pq.findIdx (fun e => e.obj == x) = j at hs hn ⊢
    by_cases h : j < s.pq.length
    · obtain ⟨e, he, hqe, hf⟩ := hs h
      have hqe' : e.obj = x := by simpa using hqe
      simp only [hf, h, he, hqe', beq_self_eq_true, if_true, lt_eq]
      have hlast : s.pq.getLast? = s.pq[s.pq.length - 1]? := List.getLast?_eq_getElem?
      by_cases hj : j = 0
      · -- the head: `heappop`
        decide_ifs
        cases H.pop (Entry.lt plt) s.pq with
        | none => simp
        | some r => obtain ⟨e0, l⟩ := r; cases l <;> simp [PQ.resetIfEmpty]
      · by_cases hjl : j = s.pq.length - 1
        · -- the tail: `pop()`
          have hl : s.pq.getLast? = some e := by rw [hlast, ← hjl]; exact he
          simp only [listPop, hl]
          generalize s.pq.dropLast = d
          decide_ifs
          cases d <;> simp [PQ.resetIfEmpty]
        · -- in the middle: the tail replaces it, then `heapify`
          cases hl : s.pq.getLast? with
          | none => simp_all
          | some last =>
            have hset : ∀ v, setItem s.pq.dropLast j v = some (s.pq.dropLast.set j v) := by
              intro v; simp only [setItem]; rw [if_pos (by simp; omega)]
            simp only [listPop, PQ.replaceWithTail, hl, hset, he]
            generalize H.heapify (Entry.lt plt) _ = d
            decide_ifs
            cases d <;> simp [PQ.resetIfEmpty]
    · simp [hn h, h]
  · loop_side
  · loop_side

/-- `reschedule(key, new_priority)`: the object found (or `None`) and the model's state — the
    entry is changed in place, at the index it was read from, and keeps its sequence number -/
theorem reschedule_eq (s : PQ π) (key : Nat → Bool) (np : π) :
    Gen.PQ.reschedule H plt s key np =
      (.ok (PQ.reschedule H plt s key np).1, (PQ.reschedule H plt s key np).2) := by
  unfold Gen.PQ.reschedule PQ.reschedule PQ.revIndex
  try dsimp only
  rw [forLoop_find (p := fun it => key it.1.obj)]
  · obtain ⟨hs, hn⟩ := find?_rev_spec s.pq (fun e => key e.obj)
    simp only [List.length_reverse] at hs hn ⊢
    generalize s.pq.reverse.findIdx (fun e => key e.obj) = j at hs hn ⊢
    by_cases h : j < s.pq.length
    · obtain ⟨e, he, hqe, hf⟩ := hs h
      simp only [hf, h, he, hqe, if_true, lt_eq]
      cases h1 : plt e.pri np <;> cases h2 : plt np e.pri <;> simp [h1, h2]
    · simp [hn h, h]
  · intro it _ hx; simp_all
  · intro it _ hx
    have hx' : key it.1.obj = true := hx
    cases h1 : plt it.1.pri np <;> cases h2 : plt np it.1.pri <;> simp [hx', h1, h2, Ctl.isExit]

/-- `remove` for a heap library that pops every non-empty heap: plain ValueError / the model -/
theorem remove_eq_total (hpop : ∀ a t, H.pop (Entry.lt plt) (a :: t) ≠ none) (s : PQ π) (x : Nat) :
    Gen.PQ.remove H plt s x = match PQ.remove H plt s x with
      | none => (.error .valueError, s)
      | some (e, s') => (.ok e.pri, s') := by
  rw [remove_eq]
  cases hr : PQ.remove H plt s x with
  | some r => rfl
  | none =>
    cases hi : PQ.indexOfObj s.pq x with
    | none => simp
    | some i =>
      exfalso
      unfold PQ.remove at hr
      simp only [hi] at hr
      have hil : i < s.pq.length := by
        unfold PQ.indexOfObj at hi
        simp only at hi
        split at hi
        · cases hi; assumption
        · cases hi
      simp only [List.getElem?_eq_getElem hil] at hr
      split at hr
      · cases hl : s.pq with
        | nil => simp [hl] at hil
        | cons a t =>
          rw [hl] at hr
          cases hp : H.pop (Entry.lt plt) (a :: t) with
          | none => exact hpop a t hp
          | some r => simp [hp] at hr
      · split at hr <;> cases hr

/-! ### `ordereditems()`: the generator, driven by `k × next()` and `close()` -/

/-- the push-back loop of the `finally:` block -/
theorem pushLoop_eq (popped : List (Entry π)) (k : Nat) (s : PQ π)
    (f : Entry π × Nat → PQ π → Ctl (PQ π) Empty (Except Exc Unit × PQ π × List (Entry π)))
    (hf : ∀ it st, f it st = .next ⟨st.seq, H.push (Entry.lt plt) st.pq it.1⟩) :
    forLoop (popped.zipIdx k) s f = .next ⟨s.seq, PQ.pushAll H plt s.pq popped⟩ := by
  induction popped generalizing k s with
  | nil => rfl
  | cons e es ih => simp only [List.zipIdx_cons, forLoop, hf, PQ.pushAll]; exact ih _ _

/-- the `finally:` block of `ordereditems` is the model's `restore` (and cannot raise) -/
theorem fin_eq (s : PQ π) (popped : List (Entry π)) :
    ∃ p', Gen.PQ.ordereditems.fin1 H plt s popped = (.ok (), (⟨s.seq, PQ.restore H plt popped s.pq⟩, p')) := by
  unfold Gen.PQ.ordereditems.fin1 PQ.restore
  simp only [lt_eq]
  -- the push-back loop, wherever it stands among the branches
  rw [pushLoop_eq H plt popped 0 s _ (by intro it st; simp)]
  by_cases h1 : popped.length ≥ s.pq.length
  · refine ⟨popped ++ s.pq, ?_⟩
    try decide_ifs
    try simp
  · by_cases h2 : popped.length ≥ s.pq.length / 2
    · refine ⟨H.heapify (Entry.lt plt) (popped ++ s.pq), ?_⟩
      try decide_ifs
      try simp
    · refine ⟨popped, ?_⟩
      try decide_ifs
      try simp

/-- `ordereditems` in model terms, written by hand: what one trip round the `while` loop does.
    `.next`: the heap ran empty (the `finally:` block is still to run); `.ret`: closed at a
    `yield` (`n = 0`) or `heappop` raised — the `finally:` block has run. -/
def ordRef : Nat → List (π × Nat) → Nat → List (Entry π) → List (Entry π) →
    Ctl (PQ π × List (Entry π) × Nat × List (π × Nat)) Empty (GenRes (π × Nat) × PQ π)
  | n, out, seq, l, popped =>
    match l with
    | [] => .next (⟨seq, []⟩, popped, n, out)
    | a :: t =>
      match n with
      | 0 => .ret (⟨out ++ [(a.pri, a.obj)], none⟩, ⟨seq, PQ.restore H plt popped (a :: t)⟩)
      | n' + 1 =>
        match H.pop (Entry.lt plt) (a :: t) with
        | none => .ret (⟨out ++ [(a.pri, a.obj)], some .indexError⟩, ⟨seq, PQ.restore H plt popped (a :: t)⟩)
        | some (e, l') => ordRef n' (out ++ [(a.pri, a.obj)]) seq l' (popped ++ [e])

theorem loop_eq (n : Nat) (out : List (π × Nat)) (s : PQ π) (popped : List (Entry π)) :
    Gen.PQ.ordereditems.loop2 H plt s popped n out = ordRef H plt n out s.seq s.pq popped := by
  induction n generalizing out s popped with
  | zero =>
    obtain ⟨seq, l⟩ := s
    cases l with
    | nil => unfold Gen.PQ.ordereditems.loop2 ordRef; simp
    | cons a t =>
      unfold Gen.PQ.ordereditems.loop2 ordRef
      obtain ⟨p', hp⟩ := fin_eq H plt ⟨seq, a :: t⟩ popped
      simp [hp, escaped]
  | succ n ih =>
    obtain ⟨seq, l⟩ := s
    cases l with
    | nil => unfold Gen.PQ.ordereditems.loop2 ordRef; simp
    | cons a t =>
      unfold Gen.PQ.ordereditems.loop2 ordRef
      obtain ⟨p', hp⟩ := fin_eq H plt ⟨seq, a :: t⟩ popped
      simp only [lt_eq]
      cases hpop : H.pop (Entry.lt plt) (a :: t) with
      | none => simp [hp, hpop, escaped]
      | some r => obtain ⟨e, l'⟩ := r; simp [hpop, ih]

/-- what the caller of the loop does with its outcome: when the heap ran empty, the `finally:`
    block (`restore`) runs and the generator is exhausted -/
def finish : Ctl (PQ π × List (Entry π) × Nat × List (π × Nat)) Empty (GenRes (π × Nat) × PQ π) →
    GenRes (π × Nat) × PQ π
  | .ret r => r
  | .next (s', p', _, out') => (⟨out', none⟩, ⟨s'.seq, PQ.restore H plt p' s'.pq⟩)
  | .brk e => nomatch e

theorem ordereditems_unfold (s : PQ π) (n : Nat) :
    Gen.PQ.ordereditems H plt s (n + 1) = finish H plt (ordRef H plt n [] s.seq s.pq []) := by
  unfold Gen.PQ.ordereditems
  simp only [loop_eq]
  cases h : ordRef H plt n [] s.seq s.pq [] with
  | ret r => rfl
  | brk e => exact nomatch e
  | next b =>
    obtain ⟨s', p', n', out'⟩ := b
    obtain ⟨p'', hp⟩ := fin_eq H plt s' p'
    simp [finish, hp]

/-- the number of pops `PQ.ordered` performs for `k = n + 1` -/
def popsOf (n len : Nat) : Nat := if n + 1 > len then len else n

theorem ordRef_spec (hlen : ∀ l e l', H.pop (Entry.lt plt) l = some (e, l') → l'.length + 1 = l.length)
    (n : Nat) (out : List (π × Nat)) (seq : Nat) (l popped : List (Entry π)) :
    (finish H plt (ordRef H plt n out seq l popped)).1.out =
        out ++ (PQ.yields H plt (n + 1) l).map (fun e => (e.pri, e.obj)) ∧
    (finish H plt (ordRef H plt n out seq l popped)).2 =
        ⟨seq, PQ.restore H plt (PQ.popN H plt (popsOf n l.length) popped l).1
                (PQ.popN H plt (popsOf n l.length) popped l).2⟩ := by
  induction n generalizing out l popped with
  | zero =>
    cases l with
    | nil => simp [ordRef, finish, PQ.yields, PQ.popN, popsOf]
    | cons a t =>
      have : popsOf 0 (a :: t).length = 0 := by simp [popsOf]
      simp only [ordRef, finish, this, PQ.popN, PQ.yields]
      cases H.pop (Entry.lt plt) (a :: t) with
      | none => simp
      | some r => simp [PQ.yields]
  | succ n ih =>
    cases l with
    | nil => simp [ordRef, finish, PQ.yields, PQ.popN, popsOf]
    | cons a t =>
      obtain ⟨m, hm⟩ : ∃ m, popsOf (n + 1) (a :: t).length = m + 1 := by
        refine ⟨popsOf (n + 1) (a :: t).length - 1, ?_⟩
        simp only [popsOf, List.length_cons]; split <;> omega
      have hy : PQ.yields H plt (n + 1 + 1) (a :: t) = match H.pop (Entry.lt plt) (a :: t) with
          | none => [a]
          | some (_, l') => a :: PQ.yields H plt (n + 1) l' := rfl
      simp only [ordRef, hm, PQ.popN, hy]
      cases hpop : H.pop (Entry.lt plt) (a :: t) with
      | none => simp [finish]
      | some r =>
        obtain ⟨e, l'⟩ := r
        have hl := hlen _ _ _ hpop
        have hm' : popsOf n l'.length = m := by
          simp only [popsOf, List.length_cons] at hm hl ⊢
          split at hm <;> split <;> omega
        obtain ⟨h1, h2⟩ := ih (out ++ [(a.pri, a.obj)]) l' (popped ++ [e])
        simp only [h1, h2, hm']
        simp

theorem ordRef_exc (hpop : ∀ a t, H.pop (Entry.lt plt) (a :: t) ≠ none)
    (n : Nat) (out : List (π × Nat)) (seq : Nat) (l popped : List (Entry π)) :
    (finish H plt (ordRef H plt n out seq l popped)).1.exc = none := by
  induction n generalizing out l popped with
  | zero => cases l <;> simp [ordRef, finish]
  | succ n ih =>
    cases l with
    | nil => simp [ordRef, finish]
    | cons a t =>
      simp only [ordRef]
      cases h : H.pop (Entry.lt plt) (a :: t) with
      | none => exact absurd h (hpop a t)
      | some r => obtain ⟨e, l'⟩ := r; exact ih _ _ _

/-- **`ordereditems()`** driven by `k` calls of `next()` and then `close()` (the generated
    definition: the `while`/`yield`/`try … finally` body, statement by statement) yields the
    (priority, object) pairs of the model's `PQ.ordered` and leaves the model's state.
    The model counts pops by the length of the heap, so the heap library must pop exactly one
    element (every lawful one does: `ordereditems_eq_lawful`). -/
theorem ordereditems_eq
    (hlen : ∀ l e l', H.pop (Entry.lt plt) l = some (e, l') → l'.length + 1 = l.length)
    (s : PQ π) (k : Nat) :
    (Gen.PQ.ordereditems H plt s k).1.out = (PQ.ordered H plt s k).1.map (fun e => (e.pri, e.obj)) ∧
    (Gen.PQ.ordereditems H plt s k).2 = (PQ.ordered H plt s k).2 := by
  cases k with
  | zero => simp [Gen.PQ.ordereditems, PQ.ordered]
  | succ n =>
    obtain ⟨h1, h2⟩ := ordRef_spec H plt hlen n [] s.seq s.pq []
    rw [ordereditems_unfold, h1, h2]
    simp [PQ.ordered, popsOf]

/-- no exception comes out of `next()` / `close()` when `heappop` pops every non-empty heap -/
theorem ordereditems_exc (hpop : ∀ a t, H.pop (Entry.lt plt) (a :: t) ≠ none) (s : PQ π) (k : Nat) :
    (Gen.PQ.ordereditems H plt s k).1.exc = none := by
  cases k with
  | zero => simp [Gen.PQ.ordereditems]
  | succ n => rw [ordereditems_unfold]; exact ordRef_exc H plt hpop n [] s.seq s.pq []

/-- for every lawful heap library (the hypothesis of all C17 theorems): the generated generator
    is the model's `PQ.ordered`, and never raises -/
theorem ordereditems_eq_lawful (hl : HeapLib.Lawful H (Entry.lt plt)) (s : PQ π) (k : Nat) :
    Gen.PQ.ordereditems H plt s k =
      (⟨(PQ.ordered H plt s k).1.map (fun e => (e.pri, e.obj)), none⟩, (PQ.ordered H plt s k).2) := by
  have hlen : ∀ l e l', H.pop (Entry.lt plt) l = some (e, l') → l'.length + 1 = l.length := by
    intro l e l' h
    cases l with
    | nil => rw [hl.pop_nil] at h; cases h
    | cons a t =>
      obtain ⟨l2, h2, hp, _⟩ := hl.pop_cons a t
      rw [h2] at h; cases h
      simp [hp.length_eq]
  have hpop : ∀ a t, H.pop (Entry.lt plt) (a :: t) ≠ none := by
    intro a t h
    obtain ⟨l2, h2, _⟩ := hl.pop_cons a t
    rw [h2] at h; cases h
  obtain ⟨h1, h2⟩ := ordereditems_eq H plt hlen s k
  have h3 := ordereditems_exc H plt hpop s k
  cases hr : Gen.PQ.ordereditems H plt s k with
  | mk r st =>
    cases r with
    | mk out exc => simp_all
end Asynkit.GenEqPQ
