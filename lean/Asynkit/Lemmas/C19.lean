/-
Helper lemmas for C19 (starvation boosting): counter invariant, what a maintenance round does to
each entry, refinement relation preserved by maintenance.
-/
import Asynkit.Lemmas.PosPQ
import Asynkit.Model.PosPQStep

namespace Asynkit
variable {H : HeapLib (Entry PV)}

/-- counter invariant: the last maintenance mark never exceeds the current throughput -/
def PosPQ.CInv (s : PosPQ) : Prop := s.lastMaint ≤ min s.nIns s.nRem

theorem boostOne_fields (factor minPri : Rat) (limit : Nat) (draw : Nat → Rat) (e : Entry PV) :
    (PosPQ.boostOne factor minPri limit draw e).seq = e.seq ∧
    (PosPQ.boostOne factor minPri limit draw e).obj = e.obj ∧
    (PosPQ.boostOne factor minPri limit draw e).pri.cls = e.pri.cls ∧
    (PosPQ.boostOne factor minPri limit draw e).pri.base = e.pri.base ∧
    (PosPQ.boostOne factor minPri limit draw e).pri.insertedAt = e.pri.insertedAt := by
  unfold PosPQ.boostOne
  split
  · dsimp only; split <;> simp
  · simp

theorem doMaintenance_ctr (hl : H.Lawful (Entry.lt PV.lt)) (s : PosPQ) (draw : Nat → Rat) :
    (PosPQ.doMaintenance H s draw).nIns = s.nIns ∧ (PosPQ.doMaintenance H s draw).nRem = s.nRem ∧
    (PosPQ.doMaintenance H s draw).lastMaint = s.lastMaint ∧
    (PosPQ.doMaintenance H s draw).len = s.len ∧
    (PosPQ.doMaintenance H s draw).factor = s.factor := by
  unfold PosPQ.doMaintenance
  by_cases hf : (s.factor == 0) = true
  · simp [hf]
  · simp only [hf, Bool.false_eq_true, if_false]
    cases PosPQ.regularMinMax s.q.pq with
    | none => simp
    | some p =>
      dsimp only
      split
      · refine ⟨rfl, rfl, rfl, ?_, rfl⟩
        simp only [PosPQ.len]
        rw [(hl.heapify_perm _).length_eq, List.length_map]
      · simp

theorem CInv_updateCounters (hl : H.Lawful (Entry.lt PV.lt)) (s : PosPQ) (b : Bool) (draw : Nat → Rat)
    (h : s.CInv) : (PosPQ.updateCounters H s b draw).CInv := by
  cases b with
  | false =>
    simp only [PosPQ.updateCounters, Bool.false_eq_true, if_false]
    split <;> simp_all [PosPQ.CInv] <;> omega
  | true =>
    simp only [PosPQ.updateCounters, if_true]
    have hc := doMaintenance_ctr hl { s with nIns := s.nIns + 1 } draw
    split
    · split
      · simp only [PosPQ.CInv, hc.1, hc.2.1]; omega
      · simp only [PosPQ.CInv, hc.1, hc.2.1, hc.2.2.1]; simp_all [PosPQ.CInv]; omega
    · simp_all [PosPQ.CInv]; omega

/-- `regularMinMax`: the reported minimum is below every regular entry's priority and is attained -/
theorem regularMinMax_spec : ∀ (l : List (Entry PV)) (lo hi : Rat), PosPQ.regularMinMax l = some (lo, hi) →
    (∀ e ∈ l, e.pri.cls ≠ 0 → lo ≤ e.pri.priority) ∧ (∃ e ∈ l, e.pri.cls ≠ 0 ∧ e.pri.priority = lo)
  | [], lo, hi, h => by simp [PosPQ.regularMinMax] at h
  | e :: es, lo, hi, h => by
    simp only [PosPQ.regularMinMax] at h
    by_cases hc : (e.pri.cls == 0) = true
    · simp only [hc, if_true] at h
      have ih := regularMinMax_spec es lo hi h
      refine ⟨?_, ?_⟩
      · intro x hx hxc
        rcases List.mem_cons.mp hx with rfl | hx
        · simp at hc; exact absurd hc hxc
        · exact ih.1 x hx hxc
      · obtain ⟨x, hx, h1, h2⟩ := ih.2; exact ⟨x, by simp [hx], h1, h2⟩
    · simp only [hc, Bool.false_eq_true, if_false] at h
      have hc' : e.pri.cls ≠ 0 := by simpa using hc
      cases hr : PosPQ.regularMinMax es with
      | none =>
        simp only [hr] at h
        have hn : ∀ x ∈ es, x.pri.cls = 0 := by
          clear h
          induction es with
          | nil => intro x hx; cases hx
          | cons y ys ih =>
            simp only [PosPQ.regularMinMax] at hr
            by_cases hy : (y.pri.cls == 0) = true
            · simp only [hy, if_true] at hr
              intro x hx
              rcases List.mem_cons.mp hx with rfl | hx
              · simpa using hy
              · exact ih hr x hx
            · simp only [hy, Bool.false_eq_true, if_false] at hr
              cases h2 : PosPQ.regularMinMax ys <;> simp [h2] at hr
        have hlo : lo = e.pri.priority := by simp at h; exact h.1.symm
        subst hlo
        refine ⟨?_, ⟨e, by simp, hc', rfl⟩⟩
        intro x hx hxc
        rcases List.mem_cons.mp hx with rfl | hx
        · exact Rat.le_refl
        · exact absurd (hn x hx) hxc
      | some p =>
        obtain ⟨lo', hi'⟩ := p
        simp only [hr] at h
        have ih := regularMinMax_spec es lo' hi' hr
        have hlo : lo = min e.pri.priority lo' := by simp at h; exact h.1.symm
        subst hlo
        refine ⟨?_, ?_⟩
        · intro x hx hxc
          rcases List.mem_cons.mp hx with rfl | hx
          · rw [Rat.min_def]; split <;> grind
          · have := ih.1 x hx hxc; rw [Rat.min_def]; split <;> grind
        · by_cases hle : e.pri.priority ≤ lo'
          · exact ⟨e, by simp, hc', by rw [Rat.min_def]; simp [hle]⟩
          · obtain ⟨x, hx, h1, h2⟩ := ih.2
            exact ⟨x, by simp [hx], h1, by rw [Rat.min_def]; simp [hle, h2]⟩

end Asynkit

namespace Asynkit
variable {H : HeapLib (Entry PV)}

theorem boostOne_noncandidate (factor minPri : Rat) (limit : Nat) (draw : Nat → Rat) (e : Entry PV)
    (h : PosPQ.candidate minPri limit e = false) : PosPQ.boostOne factor minPri limit draw e = e := by
  simp [PosPQ.boostOne, h]

/-- a maintenance round keeps the refinement relation; the reference list is mapped entry by entry -/
theorem PosPQ.RP.doMaintenance (hl : H.Lawful (Entry.lt PV.lt)) {s : PosPQ} {L} (h : PosPQ.RP s L)
    (draw : Nat → Rat) {minPri hi : Rat} (hf : s.factor ≠ 0)
    (hm : PosPQ.regularMinMax s.q.pq = some (minPri, hi)) :
    PosPQ.RP (PosPQ.doMaintenance H s draw)
      (L.map (PosPQ.boostOne s.factor minPri (s.nIns - s.len) draw)) := by
  have hfb : (s.factor == 0) = false := by simpa using hf
  unfold PosPQ.doMaintenance
  simp only [hfb, Bool.false_eq_true, if_false, hm]
  have hfld := boostOne_fields s.factor minPri (s.nIns - s.len) draw
  split
  · refine ⟨⟨?_, hl.heapify_heap _, ?_, ?_⟩, ?_⟩
    · exact (hl.heapify_perm _).trans (h.r.perm.map _)
    · rw [List.pairwise_map]
      exact h.r.inc.imp (by intro a b hab; rw [(hfld a).1, (hfld b).1]; exact hab)
    · intro e he
      obtain ⟨y, hy, rfl⟩ := List.mem_map.mp he
      rw [(hfld y).1]; exact h.r.bound y hy
    · intro e he hc
      obtain ⟨y, hy, rfl⟩ := List.mem_map.mp he
      rw [(hfld y).2.2.1] at hc
      rw [boostOne_noncandidate _ _ _ _ _ (by simp [PosPQ.candidate, hc])]
      exact h.cls0 y hy hc
  · rename_i hany
    have hid : ∀ e ∈ L, PosPQ.boostOne s.factor minPri (s.nIns - s.len) draw e = e := by
      intro e he
      have hmem : e ∈ s.q.pq := h.r.perm.symm.subset he
      have hz : PosPQ.candidate minPri (s.nIns - s.len) e = true →
          PosPQ.computeBoost s.factor e.pri.base minPri (draw e.seq) = 0 := by
        have := hany
        simp only [List.any_eq_true, not_exists, not_and, Bool.and_eq_true, bne_iff_ne, ne_eq,
          Decidable.not_not] at this
        exact fun hc => this e hmem hc
      unfold PosPQ.boostOne
      by_cases hc : PosPQ.candidate minPri (s.nIns - s.len) e = true
      · simp [hc, hz hc]
      · simp [hc]
    rw [List.map_congr_left hid]
    simpa using h

theorem doMaintenance_id (s : PosPQ) (draw : Nat → Rat)
    (h : s.factor = 0 ∨ PosPQ.regularMinMax s.q.pq = none) : PosPQ.doMaintenance H s draw = s := by
  unfold PosPQ.doMaintenance
  rcases h with h | h
  · simp [h]
  · simp [h]

theorem PosPQ.RP.of_q {s s' : PosPQ} {L} (h : PosPQ.RP s L) (hq : s'.q = s.q) : PosPQ.RP s' L :=
  ⟨hq ▸ h.r, h.cls0⟩

/-- a maintenance round, whatever it does, keeps some reference list of the same length refined -/
theorem PosPQ.RP.doMaintenance_any (hl : H.Lawful (Entry.lt PV.lt)) {s : PosPQ} {L} (h : PosPQ.RP s L)
    (draw : Nat → Rat) : ∃ L', PosPQ.RP (PosPQ.doMaintenance H s draw) L' ∧ L'.length = L.length := by
  by_cases hf : s.factor = 0
  · rw [doMaintenance_id _ _ (Or.inl hf)]; exact ⟨L, h, rfl⟩
  · cases hm : PosPQ.regularMinMax s.q.pq with
    | none => rw [doMaintenance_id _ _ (Or.inr hm)]; exact ⟨L, h, rfl⟩
    | some p =>
      obtain ⟨lo, hi⟩ := p
      exact ⟨_, h.doMaintenance hl draw hf hm, by simp⟩

/-- whatever `update_counters` does, some reference list of the same length is still refined -/
theorem PosPQ.RP.updateCounters (hl : H.Lawful (Entry.lt PV.lt)) {s : PosPQ} {L} (h : PosPQ.RP s L)
    (b : Bool) (draw : Nat → Rat) :
    ∃ L', PosPQ.RP (PosPQ.updateCounters H s b draw) L' ∧ L'.length = L.length := by
  cases b with
  | false => exact ⟨L, h.of_q (updateCounters_false_q s draw), rfl⟩
  | true =>
    simp only [PosPQ.updateCounters, if_true]
    split
    · have h1 : PosPQ.RP { s with nIns := s.nIns + 1 } L := h.of_q rfl
      obtain ⟨L', hr, hlen⟩ := h1.doMaintenance_any hl draw
      split
      · exact ⟨L', hr.of_q rfl, hlen⟩
      · exact ⟨L', hr, hlen⟩
    · exact ⟨L, h.of_q rfl, rfl⟩

theorem popEntry_len (hl : H.Lawful (Entry.lt PV.lt)) {q q' : PQ PV} {e : Entry PV}
    (h : q.popEntry H PV.lt = some (e, q')) : q'.pq.length + 1 = q.pq.length := by
  simp only [PQ.popEntry] at h
  cases hpq : q.pq with
  | nil => simp [hpq, hl.pop_nil] at h
  | cons a l =>
    obtain ⟨l', hpop, hperm, _⟩ := hl.pop_cons a l
    simp only [hpq, hpop, Option.some.injEq, Prod.mk.injEq] at h
    obtain ⟨_, rfl⟩ := h
    have := hperm.length_eq
    simp [PQ.resetIfEmpty, this]

theorem popleft_counters (hl : H.Lawful (Entry.lt PV.lt)) (draw : Nat → Rat) {s s1 : PosPQ} {x : Nat}
    (h : s.popleft H draw = some (x, s1)) :
    s1.len + 1 = s.len ∧
    (s1.len ≠ 0 → s1.nIns = s.nIns ∧ s1.nRem = s.nRem + 1 ∧ s1.lastMaint = s.lastMaint) := by
  simp only [PosPQ.popleft] at h
  cases hq : s.q.popEntry H PV.lt with
  | none => simp [hq] at h
  | some r =>
    obtain ⟨e, q'⟩ := r
    simp only [hq, Option.some.injEq, Prod.mk.injEq] at h
    obtain ⟨_, rfl⟩ := h
    have hlen := popEntry_len hl hq
    have hq1 : (PosPQ.updateCounters H { s with q := q' } false draw).q = q' := updateCounters_false_q _ _
    refine ⟨by simp only [PosPQ.len, hq1]; exact hlen, ?_⟩
    intro hne
    simp only [PosPQ.len, hq1] at hne
    have hpos : q'.pq.length > 0 := by omega
    simp [PosPQ.updateCounters, PosPQ.len, hpos]

/-- `update_counters(True)`: length and the two counters; the maintenance mark advances to the
    throughput exactly when the throughput test fires *and* `do_maintenance()` reports the round as
    done (`maintenanceDone` of the state it is called in) -/
theorem updateCounters_true_spec (hl : H.Lawful (Entry.lt PV.lt)) (s : PosPQ) (draw : Nat → Rat) :
    (PosPQ.updateCounters H s true draw).len = s.len ∧
    (PosPQ.updateCounters H s true draw).nIns = s.nIns + 1 ∧
    (PosPQ.updateCounters H s true draw).nRem = s.nRem ∧
    ((min (s.nIns + 1) s.nRem > max 10 s.len + s.lastMaint ∧
        (PosPQ.updateCounters H s true draw).lastMaint =
          if PosPQ.maintenanceDone { s with nIns := s.nIns + 1 } then min (s.nIns + 1) s.nRem else s.lastMaint) ∨
     (¬ min (s.nIns + 1) s.nRem > max 10 s.len + s.lastMaint ∧
        (PosPQ.updateCounters H s true draw).lastMaint = s.lastMaint)) := by
  have hc := doMaintenance_ctr hl { s with nIns := s.nIns + 1 } draw
  simp only [PosPQ.len] at hc
  simp only [PosPQ.updateCounters, if_true, PosPQ.len]
  by_cases htr : min (s.nIns + 1) s.nRem > max 10 s.q.pq.length + s.lastMaint
  · simp only [htr, if_true]
    by_cases hd : PosPQ.maintenanceDone { s with nIns := s.nIns + 1 } = true
    · simp only [hd, if_true]
      exact ⟨hc.2.2.2.1, hc.1, hc.2.1, Or.inl ⟨trivial, trivial⟩⟩
    · simp only [hd, Bool.false_eq_true, if_false]
      exact ⟨hc.2.2.2.1, hc.1, hc.2.1, Or.inl ⟨trivial, hc.2.2.1⟩⟩
  · simp only [htr, if_false]
    exact ⟨trivial, trivial, trivial, Or.inr ⟨by first | exact htr | exact (fun h => h) | trivial, trivial⟩⟩

/-- after a *regular* entry stamped with the current `n_inserted` has been added, `do_maintenance()`
    always reports done: a long-waiting entry is older than the new one, so there are two regular
    entries -/
theorem maintenanceDone_after_add (hl : H.Lawful (Entry.lt PV.lt)) (s : PosPQ) (x : Nat) (pv : PV)
    (hc : pv.cls ≠ 0) (hi : pv.insertedAt = s.nIns) :
    PosPQ.maintenanceDone { s with q := s.q.add H PV.lt pv x, nIns := s.nIns + 1 } = true := by
  have hperm : (s.q.add H PV.lt pv x).pq.Perm (⟨pv, s.q.seq, x⟩ :: s.q.pq) := by
    simp only [PQ.add]; exact hl.push_perm _ _
  simp only [PosPQ.maintenanceDone, PosPQ.len, Bool.or_eq_true, Bool.not_eq_true', Bool.and_eq_false_iff,
    decide_eq_false_iff_not, Nat.not_lt]
  by_cases hany : (s.q.add H PV.lt pv x).pq.any
      (PosPQ.isStraggler (s.nIns + 1 - (s.q.add H PV.lt pv x).pq.length)) = true
  · right; right
    obtain ⟨e, he, hs⟩ := List.any_eq_true.mp hany
    simp only [PosPQ.isStraggler, Bool.and_eq_true, bne_iff_ne, ne_eq, decide_eq_true_eq] at hs
    have hlen : (s.q.add H PV.lt pv x).pq.length = s.q.pq.length + 1 := by rw [hperm.length_eq]; simp
    have he' : e ∈ (⟨pv, s.q.seq, x⟩ : Entry PV) :: s.q.pq := hperm.subset he
    have hold : e ∈ s.q.pq := by
      rcases List.mem_cons.mp he' with rfl | h
      · exfalso; have := hs.2; simp only [hi, hlen] at this; omega
      · exact h
    rw [hperm.countP_eq]
    have hpos : 0 < s.q.pq.countP (fun e => e.pri.cls != 0) :=
      List.countP_pos_iff.mpr ⟨e, hold, by simpa using hs.1⟩
    have hnew : (pv.cls != 0) = true := by simpa using hc
    simp only [List.countP_cons, hnew, if_true]
    omega
  · right; left; simpa using hany

theorem appendPri_counters (hl : H.Lawful (Entry.lt PV.lt)) (draw : Nat → Rat) (s : PosPQ) (x : Nat) (p : Rat) :
    (s.appendPri H x p draw).len = s.len + 1 ∧ (s.appendPri H x p draw).nIns = s.nIns + 1 ∧
    (s.appendPri H x p draw).nRem = s.nRem ∧
    ((min (s.nIns + 1) s.nRem > max 10 (s.len + 1) + s.lastMaint ∧
        (s.appendPri H x p draw).lastMaint = min (s.nIns + 1) s.nRem) ∨
     (¬ min (s.nIns + 1) s.nRem > max 10 (s.len + 1) + s.lastMaint ∧
        (s.appendPri H x p draw).lastMaint = s.lastMaint)) := by
  have hadd : (s.q.add H PV.lt { base := p, insertedAt := s.nIns } x).pq.length = s.q.pq.length + 1 := by
    simp only [PQ.add]; rw [(hl.push_perm _ _).length_eq]; simp
  have := updateCounters_true_spec hl { s with q := s.q.add H PV.lt { base := p, insertedAt := s.nIns } x } draw
  have hdone := maintenanceDone_after_add hl s x { base := p, insertedAt := s.nIns } (by simp) rfl
  simp only [PosPQ.len, hadd, hdone, if_true] at this
  simpa only [PosPQ.appendPri, PosPQ.len] using this

/-- `r * x` for `0 ≤ r < 1` and `x ≤ 0` lies in `[x, 0]` -/
theorem scale_nonpos {r x : Rat} (h0 : 0 ≤ r) (h1 : r < 1) (hx : x ≤ 0) : x ≤ r * x ∧ r * x ≤ 0 := by
  have hnx : 0 ≤ -x := by grind
  have h2 : 0 ≤ r * (-x) := Rat.mul_nonneg h0 hnx
  have h3 : 0 ≤ (1 - r) * (-x) := Rat.mul_nonneg (by grind) hnx
  constructor <;> grind

/-- with `r * f > 1` the scaled step overshoots: `r * (x * f) < x` for `x < 0` -/
theorem scale_overshoot {r f x : Rat} (hrf : 1 < r * f) (hx : x < 0) : r * (x * f) < x := by
  have h1 : 0 < r * f - 1 := by grind
  have h2 : 0 < -x := by grind
  have h3 := Rat.mul_pos h1 h2
  grind

end Asynkit

namespace Asynkit
variable {H : HeapLib (Entry PV)}

/-- `append_pri` with any boost factor: some reference list is still refined -/
theorem PosPQ.RP.appendPri_any (hl : H.Lawful (Entry.lt PV.lt)) {s : PosPQ} {L} (h : PosPQ.RP s L)
    (x : Nat) (p : Rat) (draw : Nat → Rat) : ∃ L', PosPQ.RP (s.appendPri H x p draw) L' := by
  have hR := h.r.add hl ({ base := p, insertedAt := s.nIns } : PV) x
  have h1 : PosPQ.RP { s with q := s.q.add H PV.lt { base := p, insertedAt := s.nIns } x }
      (L ++ [⟨{ base := p, insertedAt := s.nIns }, s.q.seq, x⟩]) := by
    refine ⟨hR, ?_⟩
    intro y hy hc
    rcases List.mem_append.mp hy with hy | hy
    · exact h.cls0 y hy hc
    · simp at hy; subst hy; rfl
  obtain ⟨L', hr, _⟩ := h1.updateCounters hl true draw
  exact ⟨L', hr⟩

/-- `insert` with any boost factor: some reference list is still refined -/
theorem PosPQ.RP.insert_any (hl : H.Lawful (Entry.lt PV.lt)) {s : PosPQ} {L} (h : PosPQ.RP s L)
    (p x : Nat) (draw : Nat → Rat) : ∃ L', PosPQ.RP (s.insert H p x draw) L' := by
  obtain ⟨es, L1, s1, hpr, _, hr1, _, _, _, _⟩ := h.promote hl draw p []
  simp only [List.nil_append] at hpr
  unfold PosPQ.insert
  simp only [hpr]
  generalize hpv : PosPQ.insertPV s1 ((es.map (·.obj)).length == p) = pv
  have hcls : pv.cls = 0 ∧ pv.boost = 0 := by subst hpv; exact ⟨rfl, rfl⟩
  have hR := addAll_R hl pv (es.map (·.obj) ++ [x]) hr1.r
  have h1 : PosPQ.RP { s1 with q := PosPQ.addAll H pv s1.q (es.map (·.obj) ++ [x]) }
      (L1 ++ stamped pv s1.q.seq (es.map (·.obj) ++ [x])) := by
    refine ⟨hR, ?_⟩
    intro e he hc
    rcases List.mem_append.mp he with he | he
    · exact hr1.cls0 e he hc
    · rw [(stamped_bounds pv _ _ e he).1]; exact hcls.2
  obtain ⟨L', hr, _⟩ := h1.updateCounters hl true draw
  exact ⟨L', hr⟩

end Asynkit
