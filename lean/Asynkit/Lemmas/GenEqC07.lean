/-
C07 — the segments generated from src/asynkit/monitor.py (`Asynkit/Gen/Monitor.lean`, regenerated from
$ASYNKIT_REPO/src on every run by translator/monitor2lean.py) are the transitions of the hand-written
model `Asynkit/Model/Monitor.lean` the C07 theorems are about — for every state, every argument and
every way of resuming (value, exception, GeneratorExit).

  Monitor.oob            = the `oob` case of `resolve` (entry) and "the body is resumed with what the driver
                           sent / threw" (resumption)
  Monitor._asend         = `asendStart` (entry) / `asendResume` (resumption at `yield out_value`)
  aawait/athrow/aclose/start/try_await      = `callStart` / `callResume` with `Op.first`, `Op.finish`
  BoundMonitor.*                            = `boundStart` / `boundResume`
-/
import Asynkit.Gen.Monitor
import Asynkit.Lemmas.C07

namespace Asynkit.GenEqC07
open Asynkit.Proto (Val Exc Resume)
open Asynkit.Monitor Asynkit.MonRt Asynkit.Gen.Mon

/-- a model outcome read as a segment outcome; `mk y` = what is kept at the suspension point -/
def ofOut {c : SBody} {L : Type} (mk : YV → L) : Sys c × CallOut → Seg L (CSt c.σ × Env)
  | (sys, .pending y) => .suspended y (mk y) (sys.coro, sys.env)
  | (sys, .returned v) => .returned v (sys.coro, sys.env)
  | (sys, .raised e) => .raised e (sys.coro, sys.env)

/-! ### Monitor.oob -/

theorem oobEntry_eq (m : MonId) (d : Val) (env : Env) :
    monOobEntry m d env =
      if env m = 0 then .raised (.runtime rtNotActive) env else .suspended (.req m d) .p0 (env.set m (-1)) := by
  unfold monOobEntry
  by_cases h : env m = 0 <;> simp [h, PyExc.leave]

/-- `resolve`'s treatment of a body's `await m.oob(d)` is the generated entry segment of `Monitor.oob`:
    refused (RuntimeError raised inside the body, which carries on) or suspended with the request -/
theorem oob_resolve {σ : Type} (m : MonId) (d : Val) (s : σ) (refused : Unit → Step σ) (env : Env) :
    resolve (.oob m d s refused) env =
      match monOobEntry m d env with
      | .suspended y _ env' => .yield y s env'
      | .raised _ env' => resolve (refused ()) env'
      | .returned _ env' => resolve (refused ()) env' := by
  rw [oobEntry_eq]
  by_cases h : env m = 0 <;> simp [resolve, h]

/-- resumed, `oob()` returns the value sent / raises the exception thrown: what the body is resumed with -/
theorem oobResume_eq (m : MonId) (d v : Val) (e : Exc) (env : Env) :
    monOobResume m d .p0 (.send v) env = .returned v env ∧
    monOobResume m d .p0 (.throw e) env = .raised (PyExc.leave (.exc e)) env := by
  constructor <;> rfl

/-! ### Monitor._asend -/

theorem relayTop_seg {c : SBody} (m : MonId) (y : YV) (cs : CSt c.σ) (env : Env) :
    (if ((env m) == (-1)) = true then
        if YV.isRequest y = true then
          if (YV.monitorIs y m) = true then
            (Seg.raised (PyExc.leave (PyExc.exc (.oobData (YV.data y)))) (cs, (env.set m 1).set m 0) :
              Seg MonAsendPSusp (CSt c.σ × Env))
          else .suspended y (.p0 y) (cs, env.set m 1)
        else .suspended y (.p0 y) (cs, env.set m 1)
      else .suspended y (.p0 y) (cs, env)) = ofOut (fun y => MonAsendPSusp.p0 y) (relayTop m y cs env) := by
  unfold relayTop
  by_cases h : env m = -1
  · cases y with
    | plain v => simp [h, YV.isRequest, ofOut]
    | req m' d =>
      by_cases hm : m' = m
      · subst hm; simp [h, YV.isRequest, YV.monitorIs, YV.data, ofOut, PyExc.leave]
      · simp [h, hm, YV.isRequest, YV.monitorIs, ofOut]
  · simp [h, ofOut]

/-- PEP 479: a frame that ran never lets a StopIteration out -/
theorem after_not_stopIter {σ : Type} (res : SRes σ) (v : Val) : (SCoro.after res).2.1 ≠ .raise (.stopIter v) := by
  cases res with
  | yield y s env => simp [SCoro.after]
  | ret w s env => simp [SCoro.after]
  | raise e s env => cases e <;> simp [SCoro.after]

theorem close_not_stopIter (c : SBody) (cs : CSt c.σ) (env : Env) (v : Val) :
    (SCoro.close c cs env).2.1 ≠ .raise (.stopIter v) := by
  cases cs with
  | created s => simp [SCoro.close]
  | done s => simp [SCoro.close]
  | susp s =>
    have h := after_not_stopIter (c.resume s (.throw .genExit) env) v
    simp only [SCoro.close]
    rcases hx : SCoro.after (c.resume s (.throw .genExit) env) with ⟨st', o, env'⟩
    rw [hx] at h
    cases o with
    | yield y => simp
    | ret w => simp
    | raise e => cases e <;> simp_all

/-- case analysis shared by the relay segments: the coroutine's answer, the monitor cell, the object yielded -/
macro "relay_bash" : tactic => `(tactic| (
  first
  | done
  | (simp_all (config := { decide := true }) [relayAfter, relayTop, ofOut, YV.isRequest, YV.monitorIs, YV.data,
      PyExc.leave, PyExc.asStopIteration, PyExc.asOOBData, PyExc.isGeneratorExit, PyExc.thrown])))

theorem asendEntry_eq (c : SBody) (m : MonId) (first : Resume) (cs : CSt c.σ) (env : Env) :
    monAsendPEntry c m first (cs, env) = ofOut (fun y => MonAsendPSusp.p0 y) (asendStart m first ⟨cs, env⟩) := by
  unfold monAsendPEntry asendStart
  by_cases h0 : env m = 0
  · simp only [h0, coroResume]
    rcases hx : SCoro.resume c cs first (env.set m 1) with ⟨cs', o, env'⟩
    cases o with
    | yield y =>
      by_cases hneg : env' m = -1
      · cases y with
        | plain v => relay_bash
        | req m' d => by_cases hm : m' = m <;> relay_bash
      · relay_bash
    | ret v => relay_bash
    | raise e => cases e <;> relay_bash
  · simp [h0, ofOut, PyExc.leave]

theorem asendResume_eq (c : SBody) (m : MonId) (first : Resume) (y0 : YV) (r : Resume) (cs : CSt c.σ) (env : Env) :
    monAsendPResume c m first (.p0 y0) r (cs, env) =
      ofOut (fun y => MonAsendPSusp.p0 y) (asendResume m r ⟨cs, env⟩) := by
  unfold monAsendPResume asendResume
  cases r with
  | send v =>
    simp only [coroSend, coroResume, SCoro.resume]
    rcases hx : SCoro.send c cs v env with ⟨cs', o, env'⟩
    cases o with
    | yield y =>
      by_cases hneg : env' m = -1
      · cases y with
        | plain v => relay_bash
        | req m' d => by_cases hm : m' = m <;> relay_bash
      · relay_bash
    | ret v => relay_bash
    | raise e => cases e <;> relay_bash
  | throw e =>
    by_cases hge : e = .genExit
    · subst hge
      simp only [coroClose, PyExc.isGeneratorExit]
      rcases hx : SCoro.close c cs env with ⟨cs', o, env'⟩
      cases o with
      | yield y => relay_bash
      | ret v => relay_bash
      | raise e =>
        have hns := close_not_stopIter c cs env
        cases e <;> first | (exact absurd (by rw [hx]) (hns _)) | relay_bash
    · have hng : PyExc.isGeneratorExit (PyExc.exc e) = false := by cases e <;> simp_all [PyExc.isGeneratorExit]
      have hthrow : ∀ (x : Sys c × CallOut),
          (match Resume.throw e with
            | Resume.throw Exc.genExit => x
            | Resume.throw e => relayAfter m (SCoro.throw c cs e env)
            | Resume.send v => relayAfter m (SCoro.send c cs v env)) = relayAfter m (SCoro.throw c cs e env) := by
        intro x; cases e <;> simp_all
      simp only [hng, coroThrow, coroResume, SCoro.resume, PyExc.thrown]
      rcases hx : SCoro.throw c cs e env with ⟨cs', o, env'⟩
      have hm2 : asendResume m (.throw e) (⟨cs, env⟩ : Sys c) = relayAfter m (cs', o, env') := by
        rw [← hx]; cases e <;> simp_all [asendResume]
      cases o with
      | yield y =>
        by_cases hneg : env' m = -1
        · cases y with
          | plain v => cases e <;> relay_bash
          | req m' d => by_cases hm : m' = m <;> cases e <;> relay_bash
        · cases e <;> relay_bash
      | ret v => cases e <;> relay_bash
      | raise e' => cases e <;> cases e' <;> relay_bash

/-! ### no StopIteration object ever comes out of the relay (it is caught and returned) -/

def NoSI (o : CallOut) : Prop := ∀ v, o ≠ .raised (.stopIter v)

theorem relayAfter_noSI {c : SBody} (m : MonId) (x : CSt c.σ × SOut × Env) : NoSI (relayAfter m x).2 := by
  obtain ⟨cs, o, env⟩ := x
  intro v
  cases o with
  | yield y =>
    simp only [relayAfter, relayTop]
    split
    · split
      · split <;> simp
      · simp
    · simp
  | ret w => simp [relayAfter]
  | raise e => cases e <;> simp [relayAfter]

theorem asendStart_noSI {c : SBody} (m : MonId) (first : Resume) (sys : Sys c) : NoSI (asendStart m first sys).2 := by
  unfold asendStart
  split
  · intro v; simp
  · split
    · intro v; simp
    · exact relayAfter_noSI m _

theorem asendResume_noSI {c : SBody} (m : MonId) (r : Resume) (sys : Sys c) : NoSI (asendResume m r sys).2 := by
  unfold asendResume
  split
  · have hns := close_not_stopIter c sys.coro sys.env
    split
    · rename_i cs e env hx
      intro v h
      simp at h
      exact hns v (by rw [hx, h])
    · intro v; simp
  · exact relayAfter_noSI m _
  · exact relayAfter_noSI m _

theorem finish_noSI (op : Op) (o : CallOut) (h : NoSI o) : NoSI (op.finish o) := by
  intro v
  cases op <;> cases o <;> simp [Op.finish] <;> (try rename_i e; cases e <;> simp_all [NoSI])

theorem leave_exc (e : Exc) (h : ∀ v, e ≠ .stopIter v) : PyExc.leave (.exc e) = e := by
  cases e <;> simp_all [PyExc.leave]

theorem asendResume_genExit_raised {c : SBody} (m : MonId) (sys : Sys c) :
    ∃ e, (asendResume m (.throw .genExit) sys).2 = .raised e := by
  simp only [asendResume]
  split <;> simp

/-! ### Monitor.aawait / athrow -/

theorem aawaitEntry_eq (c : SBody) (m : MonId) (v : Val) (cs : CSt c.σ) (env : Env) :
    monAawaitEntry c m v (cs, env) =
      ofOut (fun y => MonAawaitSusp.p0 (.p0 y)) (callStart m (.aawait v) ⟨cs, env⟩) := by
  unfold monAawaitEntry
  simp only [asendEntry_eq]
  have hns := asendStart_noSI m (.send v) (⟨cs, env⟩ : Sys c)
  have hcs : callStart m (.aawait v) (⟨cs, env⟩ : Sys c) = asendStart m (.send v) ⟨cs, env⟩ := by
    simp only [callStart, Op.first]
    rcases asendStart m (.send v) (⟨cs, env⟩ : Sys c) with ⟨sys', o⟩
    cases o <;> rfl
  rw [hcs]
  rcases hx : asendStart m (.send v) (⟨cs, env⟩ : Sys c) with ⟨⟨cs', env'⟩, o⟩
  rw [hx] at hns
  cases o with
  | pending y => simp [ofOut]
  | returned w => simp [ofOut]
  | raised e => simp [ofOut, leave_exc e (fun v h => hns v (by rw [h]))]

theorem callStart_aawait {c : SBody} (m : MonId) (v : Val) (sys : Sys c) :
    callStart m (.aawait v) sys = asendStart m (.send v) sys := by
  simp only [callStart, Op.first]
  rcases asendStart m (.send v) sys with ⟨sys', o⟩
  cases o <;> rfl

theorem callStart_athrow {c : SBody} (m : MonId) (e : Exc) (sys : Sys c) :
    callStart m (.athrow e) sys = asendStart m (.throw e) sys := by
  simp only [callStart, Op.first]
  rcases asendStart m (.throw e) sys with ⟨sys', o⟩
  cases o <;> rfl

theorem callResume_aawait {c : SBody} (m : MonId) (v : Val) (r : Resume) (sys : Sys c) :
    callResume m (.aawait v) r sys = asendResume m r sys := by
  simp only [callResume]
  rcases asendResume m r sys with ⟨sys', o⟩
  cases o <;> rfl

theorem callResume_athrow {c : SBody} (m : MonId) (e : Exc) (r : Resume) (sys : Sys c) :
    callResume m (.athrow e) r sys = asendResume m r sys := by
  simp only [callResume]
  rcases asendResume m r sys with ⟨sys', o⟩
  cases o <;> rfl

/-- one `await` frame around the relay, resumed: PEP 380 (GeneratorExit closes the relay, which always
    exits by raising) is invisible -/
theorem aawaitResume_eq (c : SBody) (m : MonId) (v : Val) (y0 : YV) (r : Resume) (cs : CSt c.σ) (env : Env) :
    monAawaitResume c m v (.p0 (.p0 y0)) r (cs, env) =
      ofOut (fun y => MonAawaitSusp.p0 (.p0 y)) (callResume m (.aawait v) r ⟨cs, env⟩) := by
  unfold monAawaitResume
  simp only [asendResume_eq, callResume_aawait]
  have hns := asendResume_noSI m r (⟨cs, env⟩ : Sys c)
  by_cases hge : r = .throw .genExit
  · subst hge
    obtain ⟨e, he⟩ := asendResume_genExit_raised m (⟨cs, env⟩ : Sys c)
    rcases hx : asendResume m (.throw .genExit) (⟨cs, env⟩ : Sys c) with ⟨⟨cs', env'⟩, o⟩
    rw [hx] at hns he
    simp only at he
    subst he
    simp [ofOut, leave_exc e (fun v h => hns v (by rw [h]))]
  · rcases hx : asendResume m r (⟨cs, env⟩ : Sys c) with ⟨⟨cs', env'⟩, o⟩
    rw [hx] at hns
    cases r with
    | send w =>
      cases o with
      | pending y => simp [ofOut]
      | returned w => simp [ofOut]
      | raised e => simp [ofOut, leave_exc e (fun v h => hns v (by rw [h]))]
    | throw x =>
      cases x <;> first | exact absurd rfl hge | (
        cases o with
        | pending y => simp [ofOut]
        | returned w => simp [ofOut]
        | raised e => simp [ofOut, leave_exc e (fun v h => hns v (by rw [h]))])

theorem athrowEntry_eq (c : SBody) (m : MonId) (t : PyThrow) (cs : CSt c.σ) (env : Env) :
    monAthrowEntry c m t (cs, env) =
      ofOut (fun y => MonAthrowSusp.p0 (.p0 y)) (callStart m (.athrow t.exc) ⟨cs, env⟩) := by
  unfold monAthrowEntry
  simp only [asendEntry_eq, callStart_athrow]
  have hns := asendStart_noSI m (.throw t.exc) (⟨cs, env⟩ : Sys c)
  rcases hx : asendStart m (.throw t.exc) (⟨cs, env⟩ : Sys c) with ⟨⟨cs', env'⟩, o⟩
  rw [hx] at hns
  cases o with
  | pending y => simp [ofOut]
  | returned w => simp [ofOut]
  | raised e => simp [ofOut, leave_exc e (fun v h => hns v (by rw [h]))]

theorem athrowResume_eq (c : SBody) (m : MonId) (t : PyThrow) (y0 : YV) (r : Resume) (cs : CSt c.σ) (env : Env) :
    monAthrowResume c m t (.p0 (.p0 y0)) r (cs, env) =
      ofOut (fun y => MonAthrowSusp.p0 (.p0 y)) (callResume m (.athrow t.exc) r ⟨cs, env⟩) := by
  unfold monAthrowResume
  simp only [asendResume_eq, callResume_athrow]
  have hns := asendResume_noSI m r (⟨cs, env⟩ : Sys c)
  by_cases hge : r = .throw .genExit
  · subst hge
    obtain ⟨e, he⟩ := asendResume_genExit_raised m (⟨cs, env⟩ : Sys c)
    rcases hx : asendResume m (.throw .genExit) (⟨cs, env⟩ : Sys c) with ⟨⟨cs', env'⟩, o⟩
    rw [hx] at hns he
    simp only at he
    subst he
    simp [ofOut, leave_exc e (fun v h => hns v (by rw [h]))]
  · rcases hx : asendResume m r (⟨cs, env⟩ : Sys c) with ⟨⟨cs', env'⟩, o⟩
    rw [hx] at hns
    cases r with
    | send w =>
      cases o with
      | pending y => simp [ofOut]
      | returned w => simp [ofOut]
      | raised e => simp [ofOut, leave_exc e (fun v h => hns v (by rw [h]))]
    | throw x =>
      cases x <;> first | exact absurd rfl hge | (
        cases o with
        | pending y => simp [ofOut]
        | returned w => simp [ofOut]
        | raised e => simp [ofOut, leave_exc e (fun v h => hns v (by rw [h]))])

/-! ### aclose / start / try_await -/

macro "finish_bash" : tactic => `(tactic| (
  first
  | done
  | (simp_all (config := { decide := true }) [ofOut, Op.finish, Op.first, PyExc.leave, PyExc.isGeneratorExit,
      PyExc.asOOBData, PyExc.asStopIteration, NoSI, callStart, callResume, coroFinished, SCoro.isDone, PyThrow.exc,
      boundStart, boundResume])))

theorem acloseEntry_eq (c : SBody) (m : MonId) (cs : CSt c.σ) (env : Env) :
    monAcloseEntry c m (cs, env) =
      ofOut (fun y => MonAcloseSusp.p0 (.p0 (.p0 y))) (callStart m .aclose ⟨cs, env⟩) := by
  unfold monAcloseEntry
  simp only [athrowEntry_eq, callStart_athrow, PyThrow.exc]
  have hns := asendStart_noSI m (.throw .genExit) (⟨cs, env⟩ : Sys c)
  cases hd : SCoro.isDone cs with
  | true => simp [callStart, coroFinished, hd, ofOut]
  | false =>
    rcases hx : asendStart m (.throw .genExit) (⟨cs, env⟩ : Sys c) with ⟨⟨cs', env'⟩, o⟩
    rw [hx] at hns
    cases o with
    | pending y => finish_bash
    | returned w => finish_bash
    | raised e => cases e <;> finish_bash

theorem acloseResume_eq (c : SBody) (m : MonId) (y0 : YV) (r : Resume) (cs : CSt c.σ) (env : Env) :
    monAcloseResume c m (.p0 (.p0 (.p0 y0))) r (cs, env) =
      ofOut (fun y => MonAcloseSusp.p0 (.p0 (.p0 y))) (callResume m .aclose r ⟨cs, env⟩) := by
  unfold monAcloseResume
  simp only [athrowResume_eq, callResume_athrow, PyThrow.exc]
  have hns := asendResume_noSI m r (⟨cs, env⟩ : Sys c)
  by_cases hge : r = .throw .genExit
  · subst hge
    obtain ⟨e, he⟩ := asendResume_genExit_raised m (⟨cs, env⟩ : Sys c)
    rcases hx : asendResume m (.throw .genExit) (⟨cs, env⟩ : Sys c) with ⟨⟨cs', env'⟩, o⟩
    rw [hx] at hns he
    simp only at he
    subst he
    cases e <;> finish_bash
  · rcases hx : asendResume m r (⟨cs, env⟩ : Sys c) with ⟨⟨cs', env'⟩, o⟩
    rw [hx] at hns
    cases r with
    | send w =>
      cases o with
      | pending y => finish_bash
      | returned w => finish_bash
      | raised e => cases e <;> finish_bash
    | throw x =>
      cases x <;> first | exact absurd rfl hge | (
        cases o with
        | pending y => finish_bash
        | returned w => finish_bash
        | raised e => cases e <;> finish_bash)

theorem startEntry_eq (c : SBody) (m : MonId) (cs : CSt c.σ) (env : Env) :
    monStartEntry c m (cs, env) =
      ofOut (fun y => MonStartSusp.p0 (.p0 (.p0 y))) (callStart m .start ⟨cs, env⟩) := by
  unfold monStartEntry
  simp only [aawaitEntry_eq, callStart_aawait]
  have hns := asendStart_noSI m (.send 0) (⟨cs, env⟩ : Sys c)
  rcases hx : asendStart m (.send 0) (⟨cs, env⟩ : Sys c) with ⟨⟨cs', env'⟩, o⟩
  rw [hx] at hns
  cases hd : SCoro.isDone cs <;> cases o <;> (try rename_i e; cases e) <;> finish_bash

theorem startResume_eq (c : SBody) (m : MonId) (y0 : YV) (r : Resume) (cs : CSt c.σ) (env : Env) :
    monStartResume c m (.p0 (.p0 (.p0 y0))) r (cs, env) =
      ofOut (fun y => MonStartSusp.p0 (.p0 (.p0 y))) (callResume m .start r ⟨cs, env⟩) := by
  unfold monStartResume
  simp only [aawaitResume_eq, callResume_aawait]
  have hns := asendResume_noSI m r (⟨cs, env⟩ : Sys c)
  by_cases hge : r = .throw .genExit
  · subst hge
    obtain ⟨e, he⟩ := asendResume_genExit_raised m (⟨cs, env⟩ : Sys c)
    rcases hx : asendResume m (.throw .genExit) (⟨cs, env⟩ : Sys c) with ⟨⟨cs', env'⟩, o⟩
    rw [hx] at hns he
    simp only at he
    subst he
    cases e <;> finish_bash
  · rcases hx : asendResume m r (⟨cs, env⟩ : Sys c) with ⟨⟨cs', env'⟩, o⟩
    rw [hx] at hns
    cases r with
    | send w => cases o <;> (try rename_i e; cases e) <;> finish_bash
    | throw x =>
      cases x <;> first | exact absurd rfl hge | (cases o <;> (try rename_i e; cases e) <;> finish_bash)

theorem tryAwaitEntry_eq (c : SBody) (m : MonId) (v sentinel : Val) (cs : CSt c.σ) (env : Env) :
    monTry_awaitEntry c m v sentinel (cs, env) =
      ofOut (fun y => MonTry_awaitSusp.p0 (.p0 (.p0 y))) (callStart m (.tryAwait v sentinel) ⟨cs, env⟩) := by
  unfold monTry_awaitEntry
  simp only [aawaitEntry_eq, callStart_aawait]
  have hns := asendStart_noSI m (.send v) (⟨cs, env⟩ : Sys c)
  rcases hx : asendStart m (.send v) (⟨cs, env⟩ : Sys c) with ⟨⟨cs', env'⟩, o⟩
  rw [hx] at hns
  cases hd : SCoro.isDone cs <;> cases o <;> (try rename_i e; cases e) <;> finish_bash

theorem tryAwaitResume_eq (c : SBody) (m : MonId) (v sentinel : Val) (y0 : YV) (r : Resume) (cs : CSt c.σ)
    (env : Env) :
    monTry_awaitResume c m v sentinel (.p0 (.p0 (.p0 y0))) r (cs, env) =
      ofOut (fun y => MonTry_awaitSusp.p0 (.p0 (.p0 y))) (callResume m (.tryAwait v sentinel) r ⟨cs, env⟩) := by
  unfold monTry_awaitResume
  simp only [aawaitResume_eq, callResume_aawait]
  have hns := asendResume_noSI m r (⟨cs, env⟩ : Sys c)
  by_cases hge : r = .throw .genExit
  · subst hge
    obtain ⟨e, he⟩ := asendResume_genExit_raised m (⟨cs, env⟩ : Sys c)
    rcases hx : asendResume m (.throw .genExit) (⟨cs, env⟩ : Sys c) with ⟨⟨cs', env'⟩, o⟩
    rw [hx] at hns he
    simp only at he
    subst he
    cases e <;> finish_bash
  · rcases hx : asendResume m r (⟨cs, env⟩ : Sys c) with ⟨⟨cs', env'⟩, o⟩
    rw [hx] at hns
    cases r with
    | send w => cases o <;> (try rename_i e; cases e) <;> finish_bash
    | throw x =>
      cases x <;> first | exact absurd rfl hge | (cases o <;> (try rename_i e; cases e) <;> finish_bash)

/-! ### BoundMonitor: one more frame; a thrown GeneratorExit closes the inner call (PEP 380) -/

theorem callStart_noSI {c : SBody} (m : MonId) (op : Op) (sys : Sys c) : NoSI (callStart m op sys).2 := by
  unfold callStart
  split
  · intro v; simp
  · exact finish_noSI _ _ (asendStart_noSI m _ sys)

theorem callResume_noSI {c : SBody} (m : MonId) (op : Op) (r : Resume) (sys : Sys c) :
    NoSI (callResume m op r sys).2 :=
  finish_noSI _ _ (asendResume_noSI m r sys)

theorem finish_aclose_ret (o : CallOut) (w : Val) (h : Op.finish .aclose o = .returned w) : w = 0 := by
  cases o with
  | pending y => simp [Op.finish] at h
  | returned v => simp [Op.finish] at h; exact h.symm
  | raised e => cases e <;> simp [Op.finish] at h <;> exact h.symm

theorem callStart_aclose_ret {c : SBody} (m : MonId) (sys sys' : Sys c) (w : Val)
    (h : callStart m .aclose sys = (sys', .returned w)) : w = 0 := by
  unfold callStart at h
  split at h
  · simp at h; exact h.2.symm
  · simp at h; exact finish_aclose_ret _ w h.2

theorem callResume_aclose_ret {c : SBody} (m : MonId) (r : Resume) (sys sys' : Sys c) (w : Val)
    (h : callResume m .aclose r sys = (sys', .returned w)) : w = 0 := by
  simp [callResume] at h
  exact finish_aclose_ret _ w h.2

theorem callResume_genExit_not_pending {c : SBody} (m : MonId) (op : Op) (sys : Sys c) (y : YV) :
    (callResume m op (.throw .genExit) sys).2 ≠ .pending y := by
  intro h
  exact asendResume_genExit_not_pending m sys y (finish_pending op _ y h)

theorem boundAawaitEntry_eq (c : SBody) (m : MonId) (v : Val) (cs : CSt c.σ) (env : Env) :
    boundAawaitEntry c m v (cs, env) = ofOut (fun y => BoundAawaitSusp.p0 (.p0 (.p0 y))) (boundStart m (.aawait v) ⟨cs, env⟩) := by
  unfold boundAawaitEntry
  simp only [aawaitEntry_eq, boundStart]
  have hns := callStart_noSI m (.aawait v) (⟨cs, env⟩ : Sys c)
  rcases hx : callStart m (.aawait v) (⟨cs, env⟩ : Sys c) with ⟨⟨cs', env'⟩, o⟩
  rw [hx] at hns
  cases o with
  | pending y => simp [ofOut]
  | returned w => simp [ofOut]
  | raised e => simp [ofOut, leave_exc e (fun v h => hns v (by rw [h]))]

theorem boundAawaitResume_eq (c : SBody) (m : MonId) (v : Val) (y0 : YV) (r : Resume) (cs : CSt c.σ) (env : Env) :
    boundAawaitResume c m v (.p0 (.p0 (.p0 y0))) r (cs, env) = ofOut (fun y => BoundAawaitSusp.p0 (.p0 (.p0 y))) (boundResume m (.aawait v) r ⟨cs, env⟩) := by
  unfold boundAawaitResume
  simp only [aawaitResume_eq]
  have hns := callResume_noSI m (.aawait v) r (⟨cs, env⟩ : Sys c)
  by_cases hge : r = .throw .genExit
  · subst hge
    have hnp := callResume_genExit_not_pending m (.aawait v) (⟨cs, env⟩ : Sys c)
    rcases hx : callResume m (.aawait v) (.throw .genExit) (⟨cs, env⟩ : Sys c) with ⟨⟨cs', env'⟩, o⟩
    rw [hx] at hns hnp
    cases o with
    | pending y => exact absurd rfl (hnp y)
    | returned w => simp [ofOut, boundResume, hx, PyExc.leave]
    | raised e => simp [ofOut, boundResume, hx, leave_exc e (fun v h => hns v (by rw [h]))]
  · have hb : boundResume m (.aawait v) r (⟨cs, env⟩ : Sys c) = callResume m (.aawait v) r ⟨cs, env⟩ := by
      cases r with
      | send w => rfl
      | throw x => cases x <;> first | exact absurd rfl hge | rfl
    rw [hb]
    rcases hx : callResume m (.aawait v) r (⟨cs, env⟩ : Sys c) with ⟨⟨cs', env'⟩, o⟩
    rw [hx] at hns
    cases r with
    | send w =>
      cases o with
      | pending y => simp [ofOut]
      | returned w => simp [ofOut]
      | raised e => simp [ofOut, leave_exc e (fun v h => hns v (by rw [h]))]
    | throw x =>
      cases x <;> first | exact absurd rfl hge | (
        cases o with
        | pending y => simp [ofOut]
        | returned w => simp [ofOut]
        | raised e => simp [ofOut, leave_exc e (fun v h => hns v (by rw [h]))])

theorem boundAwaitEntry_eq (c : SBody) (m : MonId)  (cs : CSt c.σ) (env : Env) :
    boundAwaitEntry c m  (cs, env) = ofOut (fun y => BoundAwaitSusp.p0 (.p0 (.p0 y))) (boundStart m (.aawait 0) ⟨cs, env⟩) := by
  unfold boundAwaitEntry
  simp only [aawaitEntry_eq, boundStart]
  have hns := callStart_noSI m (.aawait 0) (⟨cs, env⟩ : Sys c)
  rcases hx : callStart m (.aawait 0) (⟨cs, env⟩ : Sys c) with ⟨⟨cs', env'⟩, o⟩
  rw [hx] at hns
  cases o with
  | pending y => simp [ofOut]
  | returned w => simp [ofOut]
  | raised e => simp [ofOut, leave_exc e (fun v h => hns v (by rw [h]))]

theorem boundAwaitResume_eq (c : SBody) (m : MonId)  (y0 : YV) (r : Resume) (cs : CSt c.σ) (env : Env) :
    boundAwaitResume c m  (.p0 (.p0 (.p0 y0))) r (cs, env) = ofOut (fun y => BoundAwaitSusp.p0 (.p0 (.p0 y))) (boundResume m (.aawait 0) r ⟨cs, env⟩) := by
  unfold boundAwaitResume
  simp only [aawaitResume_eq]
  have hns := callResume_noSI m (.aawait 0) r (⟨cs, env⟩ : Sys c)
  by_cases hge : r = .throw .genExit
  · subst hge
    have hnp := callResume_genExit_not_pending m (.aawait 0) (⟨cs, env⟩ : Sys c)
    rcases hx : callResume m (.aawait 0) (.throw .genExit) (⟨cs, env⟩ : Sys c) with ⟨⟨cs', env'⟩, o⟩
    rw [hx] at hns hnp
    cases o with
    | pending y => exact absurd rfl (hnp y)
    | returned w => simp [ofOut, boundResume, hx, PyExc.leave]
    | raised e => simp [ofOut, boundResume, hx, leave_exc e (fun v h => hns v (by rw [h]))]
  · have hb : boundResume m (.aawait 0) r (⟨cs, env⟩ : Sys c) = callResume m (.aawait 0) r ⟨cs, env⟩ := by
      cases r with
      | send w => rfl
      | throw x => cases x <;> first | exact absurd rfl hge | rfl
    rw [hb]
    rcases hx : callResume m (.aawait 0) r (⟨cs, env⟩ : Sys c) with ⟨⟨cs', env'⟩, o⟩
    rw [hx] at hns
    cases r with
    | send w =>
      cases o with
      | pending y => simp [ofOut]
      | returned w => simp [ofOut]
      | raised e => simp [ofOut, leave_exc e (fun v h => hns v (by rw [h]))]
    | throw x =>
      cases x <;> first | exact absurd rfl hge | (
        cases o with
        | pending y => simp [ofOut]
        | returned w => simp [ofOut]
        | raised e => simp [ofOut, leave_exc e (fun v h => hns v (by rw [h]))])

theorem boundAthrowEntry_eq (c : SBody) (m : MonId) (t : PyThrow) (cs : CSt c.σ) (env : Env) :
    boundAthrowEntry c m t (cs, env) = ofOut (fun y => BoundAthrowSusp.p0 (.p0 (.p0 y))) (boundStart m (.athrow t.exc) ⟨cs, env⟩) := by
  unfold boundAthrowEntry
  simp only [athrowEntry_eq, boundStart]
  have hns := callStart_noSI m (.athrow t.exc) (⟨cs, env⟩ : Sys c)
  rcases hx : callStart m (.athrow t.exc) (⟨cs, env⟩ : Sys c) with ⟨⟨cs', env'⟩, o⟩
  rw [hx] at hns
  cases o with
  | pending y => simp [ofOut]
  | returned w => simp [ofOut]
  | raised e => simp [ofOut, leave_exc e (fun v h => hns v (by rw [h]))]

theorem boundAthrowResume_eq (c : SBody) (m : MonId) (t : PyThrow) (y0 : YV) (r : Resume) (cs : CSt c.σ) (env : Env) :
    boundAthrowResume c m t (.p0 (.p0 (.p0 y0))) r (cs, env) = ofOut (fun y => BoundAthrowSusp.p0 (.p0 (.p0 y))) (boundResume m (.athrow t.exc) r ⟨cs, env⟩) := by
  unfold boundAthrowResume
  simp only [athrowResume_eq]
  have hns := callResume_noSI m (.athrow t.exc) r (⟨cs, env⟩ : Sys c)
  by_cases hge : r = .throw .genExit
  · subst hge
    have hnp := callResume_genExit_not_pending m (.athrow t.exc) (⟨cs, env⟩ : Sys c)
    rcases hx : callResume m (.athrow t.exc) (.throw .genExit) (⟨cs, env⟩ : Sys c) with ⟨⟨cs', env'⟩, o⟩
    rw [hx] at hns hnp
    cases o with
    | pending y => exact absurd rfl (hnp y)
    | returned w => simp [ofOut, boundResume, hx, PyExc.leave]
    | raised e => simp [ofOut, boundResume, hx, leave_exc e (fun v h => hns v (by rw [h]))]
  · have hb : boundResume m (.athrow t.exc) r (⟨cs, env⟩ : Sys c) = callResume m (.athrow t.exc) r ⟨cs, env⟩ := by
      cases r with
      | send w => rfl
      | throw x => cases x <;> first | exact absurd rfl hge | rfl
    rw [hb]
    rcases hx : callResume m (.athrow t.exc) r (⟨cs, env⟩ : Sys c) with ⟨⟨cs', env'⟩, o⟩
    rw [hx] at hns
    cases r with
    | send w =>
      cases o with
      | pending y => simp [ofOut]
      | returned w => simp [ofOut]
      | raised e => simp [ofOut, leave_exc e (fun v h => hns v (by rw [h]))]
    | throw x =>
      cases x <;> first | exact absurd rfl hge | (
        cases o with
        | pending y => simp [ofOut]
        | returned w => simp [ofOut]
        | raised e => simp [ofOut, leave_exc e (fun v h => hns v (by rw [h]))])

theorem boundAcloseEntry_eq (c : SBody) (m : MonId)  (cs : CSt c.σ) (env : Env) :
    boundAcloseEntry c m  (cs, env) = ofOut (fun y => BoundAcloseSusp.p0 (.p0 (.p0 (.p0 y)))) (boundStart m .aclose ⟨cs, env⟩) := by
  unfold boundAcloseEntry
  simp only [acloseEntry_eq, boundStart]
  have hns := callStart_noSI m .aclose (⟨cs, env⟩ : Sys c)
  rcases hx : callStart m .aclose (⟨cs, env⟩ : Sys c) with ⟨⟨cs', env'⟩, o⟩
  rw [hx] at hns
  cases o with
  | pending y => simp [ofOut]
  | returned w => have := callStart_aclose_ret m _ _ w hx; subst this; simp [ofOut]
  | raised e => simp [ofOut, leave_exc e (fun v h => hns v (by rw [h]))]

theorem boundAcloseResume_eq (c : SBody) (m : MonId)  (y0 : YV) (r : Resume) (cs : CSt c.σ) (env : Env) :
    boundAcloseResume c m  (.p0 (.p0 (.p0 (.p0 y0)))) r (cs, env) = ofOut (fun y => BoundAcloseSusp.p0 (.p0 (.p0 (.p0 y)))) (boundResume m .aclose r ⟨cs, env⟩) := by
  unfold boundAcloseResume
  simp only [acloseResume_eq]
  have hns := callResume_noSI m .aclose r (⟨cs, env⟩ : Sys c)
  by_cases hge : r = .throw .genExit
  · subst hge
    have hnp := callResume_genExit_not_pending m .aclose (⟨cs, env⟩ : Sys c)
    rcases hx : callResume m .aclose (.throw .genExit) (⟨cs, env⟩ : Sys c) with ⟨⟨cs', env'⟩, o⟩
    rw [hx] at hns hnp
    cases o with
    | pending y => exact absurd rfl (hnp y)
    | returned w => simp [ofOut, boundResume, hx, PyExc.leave]
    | raised e => simp [ofOut, boundResume, hx, leave_exc e (fun v h => hns v (by rw [h]))]
  · have hb : boundResume m .aclose r (⟨cs, env⟩ : Sys c) = callResume m .aclose r ⟨cs, env⟩ := by
      cases r with
      | send w => rfl
      | throw x => cases x <;> first | exact absurd rfl hge | rfl
    rw [hb]
    rcases hx : callResume m .aclose r (⟨cs, env⟩ : Sys c) with ⟨⟨cs', env'⟩, o⟩
    rw [hx] at hns
    cases r with
    | send w =>
      cases o with
      | pending y => simp [ofOut]
      | returned w => have := callResume_aclose_ret m _ _ _ w hx; subst this; simp [ofOut]
      | raised e => simp [ofOut, leave_exc e (fun v h => hns v (by rw [h]))]
    | throw x =>
      cases x <;> first | exact absurd rfl hge | (
        cases o with
        | pending y => simp [ofOut]
        | returned w => have := callResume_aclose_ret m _ _ _ w hx; subst this; simp [ofOut]
        | raised e => simp [ofOut, leave_exc e (fun v h => hns v (by rw [h]))])

theorem boundStartEntry_eq (c : SBody) (m : MonId)  (cs : CSt c.σ) (env : Env) :
    boundStartEntry c m  (cs, env) = ofOut (fun y => BoundStartSusp.p0 (.p0 (.p0 (.p0 y)))) (boundStart m .start ⟨cs, env⟩) := by
  unfold boundStartEntry
  simp only [startEntry_eq, boundStart]
  have hns := callStart_noSI m .start (⟨cs, env⟩ : Sys c)
  rcases hx : callStart m .start (⟨cs, env⟩ : Sys c) with ⟨⟨cs', env'⟩, o⟩
  rw [hx] at hns
  cases o with
  | pending y => simp [ofOut]
  | returned w => simp [ofOut]
  | raised e => simp [ofOut, leave_exc e (fun v h => hns v (by rw [h]))]

theorem boundStartResume_eq (c : SBody) (m : MonId)  (y0 : YV) (r : Resume) (cs : CSt c.σ) (env : Env) :
    boundStartResume c m  (.p0 (.p0 (.p0 (.p0 y0)))) r (cs, env) = ofOut (fun y => BoundStartSusp.p0 (.p0 (.p0 (.p0 y)))) (boundResume m .start r ⟨cs, env⟩) := by
  unfold boundStartResume
  simp only [startResume_eq]
  have hns := callResume_noSI m .start r (⟨cs, env⟩ : Sys c)
  by_cases hge : r = .throw .genExit
  · subst hge
    have hnp := callResume_genExit_not_pending m .start (⟨cs, env⟩ : Sys c)
    rcases hx : callResume m .start (.throw .genExit) (⟨cs, env⟩ : Sys c) with ⟨⟨cs', env'⟩, o⟩
    rw [hx] at hns hnp
    cases o with
    | pending y => exact absurd rfl (hnp y)
    | returned w => simp [ofOut, boundResume, hx, PyExc.leave]
    | raised e => simp [ofOut, boundResume, hx, leave_exc e (fun v h => hns v (by rw [h]))]
  · have hb : boundResume m .start r (⟨cs, env⟩ : Sys c) = callResume m .start r ⟨cs, env⟩ := by
      cases r with
      | send w => rfl
      | throw x => cases x <;> first | exact absurd rfl hge | rfl
    rw [hb]
    rcases hx : callResume m .start r (⟨cs, env⟩ : Sys c) with ⟨⟨cs', env'⟩, o⟩
    rw [hx] at hns
    cases r with
    | send w =>
      cases o with
      | pending y => simp [ofOut]
      | returned w => simp [ofOut]
      | raised e => simp [ofOut, leave_exc e (fun v h => hns v (by rw [h]))]
    | throw x =>
      cases x <;> first | exact absurd rfl hge | (
        cases o with
        | pending y => simp [ofOut]
        | returned w => simp [ofOut]
        | raised e => simp [ofOut, leave_exc e (fun v h => hns v (by rw [h]))])

theorem boundTry_awaitEntry_eq (c : SBody) (m : MonId) (v sentinel : Val) (cs : CSt c.σ) (env : Env) :
    boundTry_awaitEntry c m v sentinel (cs, env) = ofOut (fun y => BoundTry_awaitSusp.p0 (.p0 (.p0 (.p0 y)))) (boundStart m (.tryAwait v sentinel) ⟨cs, env⟩) := by
  unfold boundTry_awaitEntry
  simp only [tryAwaitEntry_eq, boundStart]
  have hns := callStart_noSI m (.tryAwait v sentinel) (⟨cs, env⟩ : Sys c)
  rcases hx : callStart m (.tryAwait v sentinel) (⟨cs, env⟩ : Sys c) with ⟨⟨cs', env'⟩, o⟩
  rw [hx] at hns
  cases o with
  | pending y => simp [ofOut]
  | returned w => simp [ofOut]
  | raised e => simp [ofOut, leave_exc e (fun v h => hns v (by rw [h]))]

theorem boundTry_awaitResume_eq (c : SBody) (m : MonId) (v sentinel : Val) (y0 : YV) (r : Resume) (cs : CSt c.σ) (env : Env) :
    boundTry_awaitResume c m v sentinel (.p0 (.p0 (.p0 (.p0 y0)))) r (cs, env) = ofOut (fun y => BoundTry_awaitSusp.p0 (.p0 (.p0 (.p0 y)))) (boundResume m (.tryAwait v sentinel) r ⟨cs, env⟩) := by
  unfold boundTry_awaitResume
  simp only [tryAwaitResume_eq]
  have hns := callResume_noSI m (.tryAwait v sentinel) r (⟨cs, env⟩ : Sys c)
  by_cases hge : r = .throw .genExit
  · subst hge
    have hnp := callResume_genExit_not_pending m (.tryAwait v sentinel) (⟨cs, env⟩ : Sys c)
    rcases hx : callResume m (.tryAwait v sentinel) (.throw .genExit) (⟨cs, env⟩ : Sys c) with ⟨⟨cs', env'⟩, o⟩
    rw [hx] at hns hnp
    cases o with
    | pending y => exact absurd rfl (hnp y)
    | returned w => simp [ofOut, boundResume, hx, PyExc.leave]
    | raised e => simp [ofOut, boundResume, hx, leave_exc e (fun v h => hns v (by rw [h]))]
  · have hb : boundResume m (.tryAwait v sentinel) r (⟨cs, env⟩ : Sys c) = callResume m (.tryAwait v sentinel) r ⟨cs, env⟩ := by
      cases r with
      | send w => rfl
      | throw x => cases x <;> first | exact absurd rfl hge | rfl
    rw [hb]
    rcases hx : callResume m (.tryAwait v sentinel) r (⟨cs, env⟩ : Sys c) with ⟨⟨cs', env'⟩, o⟩
    rw [hx] at hns
    cases r with
    | send w =>
      cases o with
      | pending y => simp [ofOut]
      | returned w => simp [ofOut]
      | raised e => simp [ofOut, leave_exc e (fun v h => hns v (by rw [h]))]
    | throw x =>
      cases x <;> first | exact absurd rfl hge | (
        cases o with
        | pending y => simp [ofOut]
        | returned w => simp [ofOut]
        | raised e => simp [ofOut, leave_exc e (fun v h => hns v (by rw [h]))])

end Asynkit.GenEqC07
