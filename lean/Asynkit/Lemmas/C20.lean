/-
Helper lemmas for C20: what one drive operation can do to the phase, and the invariants of
histories.
-/
import Asynkit.Model.CoroState

namespace Asynkit.CoroState

/-- What one operation does to the phase: if it resumes the body, the body is `running` meanwhile
    and afterwards rests where its own response says (await / yield / exit), and it was neither
    finished nor already running; if it does not resume the body, the phase is unchanged — except
    that a never-started object gets closed by a delivered throw/close. -/
def Between (p : Phase) : Prop := p ≠ .running ∧ p ≠ .closingInner ∧ p ≠ .throwingInner

def StepOK (k : Kind) (d : DSt) (r : Resp) (x : Res) : Prop :=
  (x.resumed = true → x.mid.phase = .running ∧
      (x.midCleanup.phase = .running ∨ x.midCleanup.phase = .closingInner ∨ x.midCleanup.phase = .throwingInner) ∧
      x.after.st.phase = respPhase k r ∧
      d.st.phase ≠ .closed ∧ d.st.phase ≠ .running) ∧
  (x.resumed = false → x.after.st.phase = d.st.phase ∨ (x.after.st.phase = .closed ∧ d.st.phase = .created))

theorem deliver_ok (k : Kind) (d : DSt) (op : Op) (r : Resp) : StepOK k d r (deliver k d op r) := by
  obtain ⟨⟨ph, fl⟩, ac, aw⟩ := d
  cases k <;> cases op <;> cases ph <;>
    simp [StepOK, deliver, deliverBase, closing, throwing, sendThrows, noRun, resumePlain, resumeAg, respPhase] <;>
    (repeat' split) <;> simp_all

theorem respPhase_ne_created (k : Kind) (r : Resp) : respPhase k r ≠ .created := by
  cases k <;> cases r <;> simp [respPhase]

theorem respPhase_between (k : Kind) (r : Resp) : Between (respPhase k r) := by
  cases k <;> cases r <;> simp [respPhase, Between]

/-- the state after a history -/
def runHist (k : Kind) : DSt → List (Op × Resp) → DSt
  | d, [] => d
  | d, (op, r) :: rest => runHist k (deliver k d op r).after rest

/-- has any operation of the history resumed the body (i.e. has any body code run) -/
def everRan (k : Kind) : DSt → List (Op × Resp) → Bool
  | _, [] => false
  | d, (op, r) :: rest => (deliver k d op r).resumed || everRan k (deliver k d op r).after rest

/-- invariant of histories: `ran` = some body code has run so far -/
def Inv (d : DSt) (ran : Bool) : Prop :=
  Between d.st.phase ∧ (d.st.phase = .created → ran = false) ∧
  (ran = false → d.st.phase = .created ∨ d.st.phase = .closed)

theorem inv_step (k : Kind) (d : DSt) (ran : Bool) (h : Inv d ran) (op : Op) (r : Resp) :
    Inv (deliver k d op r).after (ran || (deliver k d op r).resumed) := by
  obtain ⟨h1, h2, h3⟩ := h
  obtain ⟨g1, g2⟩ := deliver_ok k d op r
  cases hres : (deliver k d op r).resumed with
  | true =>
    obtain ⟨_, _, e2, _, _⟩ := g1 hres
    refine ⟨?_, ?_, ?_⟩
    · rw [e2]; exact respPhase_between k r
    · intro hc; rw [e2] at hc; exact absurd hc (respPhase_ne_created k r)
    · intro hf; simp at hf
  | false =>
    rcases g2 hres with e | ⟨e, e'⟩
    · refine ⟨by rw [e]; exact h1, ?_, ?_⟩
      · intro hc; rw [e] at hc; simpa using h2 hc
      · intro hf; rw [e]; exact h3 (by simpa using hf)
    · refine ⟨by rw [e]; simp [Between], ?_, ?_⟩
      · intro hc; rw [e] at hc; cases hc
      · intro _; exact .inr e

theorem inv_hist (k : Kind) (h : List (Op × Resp)) (d : DSt) (ran : Bool) (hi : Inv d ran) :
    Inv (runHist k d h) (ran || everRan k d h) := by
  induction h generalizing d ran with
  | nil => simpa [runHist, everRan] using hi
  | cons x rest ih =>
    obtain ⟨op, r⟩ := x
    have := ih (deliver k d op r).after (ran || (deliver k d op r).resumed) (inv_step k d ran hi op r)
    simpa [runHist, everRan, Bool.or_assoc] using this

theorem inv_initial : Inv initial false := by
  simp [Inv, initial, Between]

/-- kind-specific shape of reachable states: only async generators have the `ag_running` flag,
    `ag_closed` and awaitables; a coroutine never rests at a `yield`. -/
def KindOK (k : Kind) (d : DSt) : Prop :=
  (k ≠ .asyncGen → d.st.agFlag = false ∧ d.aw = none ∧ d.agClosed = false) ∧
  (k = .coroutine → d.st.phase ≠ .suspYield) ∧
  (d.st.phase = .created → d.st.agFlag = false)

theorem kindOK_step (k : Kind) (d : DSt) (h : KindOK k d) (op : Op) (r : Resp) :
    KindOK k (deliver k d op r).after := by
  obtain ⟨⟨ph, fl⟩, ac, aw⟩ := d
  obtain ⟨h1, h2, h3⟩ := h
  cases k <;> cases op <;> cases ph <;> cases r <;>
    simp [KindOK, deliver, deliverBase, closing, throwing, sendThrows, noRun, resumePlain, resumeAg, respPhase] at h1 h2 h3 ⊢ <;>
    (repeat' split) <;> simp_all

theorem kindOK_hist (k : Kind) (h : List (Op × Resp)) (d : DSt) (hk : KindOK k d) :
    KindOK k (runHist k d h) := by
  induction h generalizing d with
  | nil => exact hk
  | cons x rest ih => exact ih _ (kindOK_step k d hk x.1 x.2)

end Asynkit.CoroState
