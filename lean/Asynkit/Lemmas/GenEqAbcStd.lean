/-
GenEqAbcStd — the `collections.abc` mixin methods that asynkit classes inherit without overriding them,
regenerated from `_collections_abc.py` of the running interpreter (lean/Asynkit/Gen/CollectionsAbc.lean,
translator/collectionsabc2lean.py), against what the models assume.

* `inherited_eq`: the only inherited concrete mixin is `_Continuation.close` (= `Coroutine.close`).  `CoroStart`
  (an `Awaitable`) inherits nothing; `GeneratorObjectIterator` (an `AsyncGenerator`) overrides `__aiter__`,
  `__anext__`, `asend`, `athrow` and `aclose`, so none of the AsyncGenerator/AsyncIterator mixins is used (nothing
  to prove against Model/AsyncGen); `Monitor`/`BoundMonitor` derive from no ABC.
* `coroutineClose_eq`: `Coroutine.close` is the close rule of the protocol model (`Wrappers.envClosed` applied to
  the answer of `throw(GeneratorExit)`), for every object; `coroutineClose_native`: on a native coroutine object
  that has not finished it is `Proto.Coro.close`.
* `contClose_relay`: hence `_Continuation.close()` on a started continuation closes the started coroutine
  (`I.close`, through the GeneratorExit branch of `CoroStart.__await__`) and returns None, or propagates what
  `close()` raised — the same as closing the generator `cs.__await__()` in the protocol model.
-/
import Asynkit.Gen.CollectionsAbc
import Asynkit.Lemmas.GenEqC01W

namespace Asynkit.GenEqAbcStd
open Asynkit.Proto Asynkit.Gen.CollectionsAbc Asynkit.Gen.CoroStart Asynkit.GenEqC01W

theorem inherited_eq : inherited = [("_Continuation", "Coroutine.close")] := by decide

/-- **`Coroutine.close`** = throw GeneratorExit, then the models' close rule (a `StopIteration` is a return) -/
theorem coroutineClose_eq {σ : Type} (throw : σ → Exc → σ × Out) (s : σ) :
    coroutineClose throw s = envClosed ((throw s .genExit).1, normStop (throw s .genExit).2) := by
  unfold coroutineClose
  rcases throw s .genExit with ⟨s', o⟩
  cases o with
  | yield y => rfl
  | ret v => rfl
  | raise e => cases e <;> rfl

/-- on a native coroutine object that has not finished, the mixin is CPython's own `close()` -/
theorem coroutineClose_native (b : Body) (st : CState b.σ)
    (hnd : match st with | .done => False | _ => True) :
    coroutineClose (Coro.throw b) st = Coro.close b st := by
  cases st with
  | created s => rfl
  | done => exact hnd.elim
  | susp s =>
    simp only [coroutineClose, Coro.throw, Coro.close]
    rcases hr : b.resume s (.throw .genExit) with ⟨s', o⟩
    cases o with
    | yield y => simp [Coro.after]
    | ret v => simp [Coro.after]
    | raise e => cases e <;> simp [Coro.after]

/-- `_Continuation.throw` as an object method answering `σ × Out` -/
def contThrowPair {κ Φ : Type} (R : Rt κ Φ) (w : W κ Φ) (e : Exc) : W κ Φ × Out :=
  match contThrow R w e with
  | .ok y w' => (w', .yield y)
  | .err x w' => (w', .raise x)

/-- `_Continuation.close()`: the inherited `Coroutine.close` over the generated `_Continuation.throw` -/
def contClose {κ Φ : Type} (R : Rt κ Φ) (w : W κ Φ) : W κ Φ × Out := coroutineClose (contThrowPair R) w

/-- closing a started continuation closes the started coroutine; `close()` returning (or raising
    GeneratorExit / StopIteration) gives None, anything else it raised propagates -/
theorem contClose_relay {ι : Type} (I : Obj ι) (c : I.σ) (n : Nat) :
    contClose (rtW I) { c := c, F := (), sr := none, pc := .at 0, cancels := n }
      = ({ c := (I.close c).1, F := (), sr := none, pc := .finished, cancels := n },
         match (I.close c).2 with
         | .raise .genExit => .ret 0
         | .raise (.stopIter _) => .ret 0
         | .raise e => .raise e
         | _ => .ret 0) := by
  simp only [contClose, coroutineClose, contThrowPair, contThrow, genThrow, awaitResume, finish, rtW]
  have : (GenPc.at 0 = GenPc.absent) = False := by simp
  simp only [this, if_false]
  rcases I.close c with ⟨s', o⟩
  cases o with
  | yield y => simp
  | ret v => simp
  | raise e => cases e <;> simp

end Asynkit.GenEqAbcStd
