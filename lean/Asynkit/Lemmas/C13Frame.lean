/-
Frame lemmas: the C13 invariant only looks at the key-free part of the state, so key changes
(priority propagation, ready-queue re-keying) preserve it.
-/
import Asynkit.Lemmas.C13Basic

namespace Asynkit.Lock

/-- `s'` differs from `s` only in waiter keys and ready-queue keys -/
structure KeyEq (s s' : State) : Prop where
  cur : s'.cur = s.cur
  evSet : s'.evSet = s.evSet
  prioLoop : s'.prioLoop = s.prioLoop
  fuel : s'.fuel = s.fuel
  locked : ∀ k, (s'.locks k).locked = (s.locks k).locked
  owner : ∀ k, (s'.locks k).owner = (s.locks k).owner
  wl : ∀ k, s'.wl k = s.wl k
  status : ∀ i, (s'.tasks i).status = (s.tasks i).status
  pos : ∀ i, (s'.tasks i).pos = (s.tasks i).pos
  owns : ∀ i, (s'.tasks i).owns = (s.tasks i).owns
  holding : ∀ i, (s'.tasks i).holding = (s.tasks i).holding
  waitingOn : ∀ i, (s'.tasks i).waitingOn = (s.tasks i).waitingOn
  prio : ∀ i, (s'.tasks i).prio = (s.tasks i).prio

theorem KeyEq.refl (s : State) : KeyEq s s := by constructor <;> intros <;> rfl

theorem KeyEq.trans {a b c : State} (h1 : KeyEq a b) (h2 : KeyEq b c) : KeyEq a c := by
  constructor
  · rw [h2.cur, h1.cur]
  · rw [h2.evSet, h1.evSet]
  · rw [h2.prioLoop, h1.prioLoop]
  · rw [h2.fuel, h1.fuel]
  · intro k; rw [h2.locked, h1.locked]
  · intro k; rw [h2.owner, h1.owner]
  · intro k; rw [h2.wl, h1.wl]
  · intro i; rw [h2.status, h1.status]
  · intro i; rw [h2.pos, h1.pos]
  · intro i; rw [h2.owns, h1.owns]
  · intro i; rw [h2.holding, h1.holding]
  · intro i; rw [h2.waitingOn, h1.waitingOn]
  · intro i; rw [h2.prio, h1.prio]

theorem LInv.keyEq {s s' : State} {k : Nat} (h : LInv s k) (e : KeyEq s s') : LInv s' k := by
  obtain ⟨h1, h2, h3, h4, h5, h6, h7, h8⟩ := h
  constructor
  · rw [e.locked, e.owner]; exact h1
  · intro i; rw [e.owner, e.owns]; exact h2 i
  · intro p hp; rw [e.wl] at hp; rw [e.pos, e.status]; exact h3 p hp
  · intro i hi; rw [e.pos] at hi; rw [e.wl]; exact h4 i hi
  · rw [e.wl]; exact h5
  · rw [e.wl]; exact h6
  · rw [e.wl, e.locked]; exact h7
  · rw [e.wl, e.locked]; intro a b
    obtain ⟨p, hp, hq⟩ := h8 a b
    exact ⟨p, hp, by rw [e.status]; exact hq⟩

theorem Inv.keyEq {s s' : State} (h : Inv s) (e : KeyEq s s') : Inv s' := by
  obtain ⟨h1, h2, h3, h4, h5, h6, h7, h8⟩ := h
  constructor
  · intro k; exact (h1 k).keyEq e
  · intro i; rw [e.cur, e.status]; exact h2 i
  · intro i; rw [e.pos, e.status]; exact h3 i
  · intro i; rw [e.pos, e.status, e.owns]; exact h4 i
  · intro i; rw [e.holding, e.prio, e.owns]; exact h5 i
  · intro i; rw [e.owns]; exact h6 i
  · intro i k; rw [e.waitingOn, e.prio, e.pos]; exact h7 i k
  · intro i k; rw [e.pos, e.owns]; exact h8 i k

/-- changing only `rkey` of a task -/
theorem keyEq_setRkey (s : State) (o : Nat) (r : Option Rat) :
    KeyEq s (s.setTask o { s.tasks o with rkey := r }) := by
  constructor <;> intros <;> simp [State.wl] <;> split <;> simp_all

/-- changing only `mustCancel` of a task -/
theorem keyEq_setMustCancel (s : State) (o : Nat) (r : Bool) :
    KeyEq s (s.setTask o { s.tasks o with mustCancel := r }) := by
  constructor <;> intros <;> simp [State.wl] <;> split <;> simp_all

/-- re-keying a waiter -/
theorem keyEq_rekey (s : State) (k i : Nat) (p : Rat) :
    KeyEq s (s.setLock k { s.locks k with waiters := rekey (s.locks k).waiters i p }) := by
  constructor <;> intros <;> simp [State.wl] <;> split <;> simp_all

theorem keyEq_clearRkeys (s : State) (js : List Nat) : KeyEq s (s.clearRkeys js) := by
  unfold State.clearRkeys
  induction js generalizing s with
  | nil => exact KeyEq.refl s
  | cons j js ih => exact (keyEq_setRkey s j none).trans (ih _)

mutual
theorem propT_keyEq (s : State) : ∀ (f o : Nat), KeyEq s (propT s f o)
  | 0, _ => by simp [propT]; exact KeyEq.refl s
  | f + 1, o => by
    simp only [propT]
    split
    · exact KeyEq.refl s
    · split
      · split
        · exact keyEq_setRkey s o _
        · exact KeyEq.refl s
      · split
        · exact propL_keyEq s f _ o
        · exact KeyEq.refl s
theorem propL_keyEq (s : State) : ∀ (f k i : Nat), KeyEq s (propL s f k i)
  | 0, _, _ => by simp [propL]; exact KeyEq.refl s
  | f + 1, k, i => by
    simp only [propL]
    split
    · exact (propT_keyEq s f _).trans (keyEq_rekey _ k i _)
    · exact keyEq_rekey s k i _
end

end Asynkit.Lock
