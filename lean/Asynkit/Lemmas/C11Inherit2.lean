/-
C11 `inherit_immediate`, part 2: effective priorities across the transitions, the ready-key
invariant and its preservation.
-/
import Asynkit.Lemmas.C11Inherit

namespace Asynkit.Lock
open Asynkit.PrioGraph

/-! ### effective priorities of the other tasks across a transition -/

theorem wakeUpFirst_graph (s : State) (k : Nat) : (s.wakeUpFirst k).graph = s.graph :=
  graph_eq_of (fun i => (wakeUpFirst_fields s k i).1) (fun i => (wakeUpFirst_fields s k i).2.2.2.2.1)
    (fun l => wakeUpFirst_tasks s k l)

theorem wakeUpFirst_eff (s : State) (k i : Nat) : (s.wakeUpFirst k).eff i = s.eff i :=
  eff_eq_of_graph (wakeUpFirst_graph s k) (wakeUpFirst_fuel s k) i

theorem eff_takeLock_running {s : State} (hI : Inv s) {i k : Nat}
    (hrun : (s.tasks i).status = .running) : ∀ t, t ≠ i → (s.takeLock k i).eff t = s.eff t := by
  have htop : (s.tasks i).pos = .top := hI.runningTop i hrun
  apply eff_eq_local (fun t => t = i) (fun _ => False)
  · rfl
  · intro j; by_cases c : j = i <;> simp [State.takeLock, c]
  · intro t ht; simp [State.takeLock, ht]
  · intro l _; by_cases c : l = k <;> simp [State.takeLock, c]
  · intro _ _ _ _ x; exact x
  · intro l _ w hw e
    exact hI.not_queued (k := l) (by rw [htop]; simp) (wt w) (List.mem_map_of_mem hw) e

theorem eff_released {s : State} (hI : Inv s) {i k : Nat} (hc : s.cur = some i) :
    ∀ t, t ≠ i → (released s i k).eff t = s.eff t := by
  have hrun : (s.tasks i).status = .running := (hI.curRunning i).mp hc
  have htop : (s.tasks i).pos = .top := hI.runningTop i hrun
  apply eff_eq_local (fun t => t = i) (fun _ => False)
  · rfl
  · intro j; by_cases c : j = i <;> simp [released, c]
  · intro t ht; simp [released, ht]
  · intro l _; by_cases c : l = k <;> simp [released, c]
  · intro _ _ _ _ x; exact x
  · intro l _ w hw e
    exact hI.not_queued (k := l) (by rw [htop]; simp) (wt w) (List.mem_map_of_mem hw) e

/-- facts about a waiter that resumes without exception -/
theorem resume_take_facts {s : State} (hI : Inv s) (hcl : Clean s) {i k : Nat}
    (hp : (s.tasks i).pos = .acq k)
    (hst : (∃ c, (s.tasks i).status = .woken c) ∨ (∃ x, (s.tasks i).status = .ready x)) :
    (s.tasks i).status = .woken false ∧ (s.locks k).owner = none := by
  have hk := hI.linv k
  have hwoken : (s.tasks i).status = .woken false := by
    rcases hst with ⟨c, e⟩ | ⟨x, e⟩
    · cases c
      · exact e
      · exact absurd e (hcl i).2.1
    · obtain ⟨p, hp', e1⟩ := hk.queued i hp
      have := (hk.wok p hp').2
      rw [e1, e] at this; simp only [WOK] at this
      subst this; exact absurd e (hcl i).2.2
  refine ⟨hwoken, ?_⟩
  obtain ⟨p, hp', e1⟩ := hk.queued i hp
  have hr : p.2 = .result := by
    have := (hk.wok p hp').2
    rw [e1, hwoken] at this; simpa [WOK] using this
  have hl : (s.locks k).locked = false := by
    cases hl : (s.locks k).locked with
    | false => rfl
    | true => exact absurd hr (hk.lockedNoResult hl p hp')
  have := hk.lockedOwner; rw [hl] at this
  cases ho : (s.locks k).owner with
  | none => rfl
  | some o => rw [ho] at this; cases this

theorem eff_resume_take {s : State} (hI : Inv s) (hcl : Clean s) {i k : Nat}
    (hp : (s.tasks i).pos = .acq k)
    (hst : (∃ c, (s.tasks i).status = .woken c) ∨ (∃ x, (s.tasks i).status = .ready x)) :
    ∀ t, t ≠ i → ((rs1 s i k).takeLock k i).eff t = s.eff t := by
  obtain ⟨_, hfree⟩ := resume_take_facts hI hcl hp hst
  apply eff_eq_local (fun t => t = i) (fun l => l = k)
  · rfl
  · intro j; by_cases c : j = i <;> simp [State.takeLock, rs1, c]
  · intro t ht; simp [State.takeLock, rs1, ht]
  · intro l hl; simp [State.takeLock, rs1, hl]
  · intro t ht l hl e
    subst e
    have := ((hI.linv l).ownerOwns t).mpr (hI.holding_sub hl)
    rw [hfree] at this; cases this
  · intro l hl w hw e
    have := ((hI.linv l).wok (wt w) (List.mem_map_of_mem hw)).1
    simp only [wt] at this; rw [e, hp] at this
    injection this with this; exact hl this.symm

/-! ### the ready-key invariant -/

def ReadyStatus (st : Status) : Prop := (∃ c, st = .woken c) ∨ (∃ x, st = .ready x)

/-- every class-1 ready-queue key is at least as urgent as the task's current effective priority,
    and only tasks that are in the ready queue have one -/
def RKI (s : State) : Prop :=
  ∀ i r, (s.tasks i).rkey = some r → r ≤ s.eff i ∧ ReadyStatus (s.tasks i).status

theorem rki_of_local {s s' : State} (h : RKI s)
    (hk : ∀ i r, (s'.tasks i).rkey = some r →
      ((s.tasks i).rkey = some r ∧ (s'.tasks i).status = (s.tasks i).status ∧ s'.eff i = s.eff i) ∨
      (r = s'.eff i ∧ ReadyStatus (s'.tasks i).status)) : RKI s' := by
  intro i r hr
  rcases hk i r hr with ⟨e1, e2, e3⟩ | ⟨e1, e2⟩
  · rw [e2, e3]; exact h i r e1
  · exact ⟨by rw [e1]; grind, e2⟩

theorem RKI.running_none {s : State} (h : RKI s) {i : Nat} (hr : (s.tasks i).status = .running) :
    (s.tasks i).rkey = none := by
  cases hk : (s.tasks i).rkey with
  | none => rfl
  | some r =>
    have := (h i r hk).2
    rw [hr] at this
    rcases this with ⟨c, e⟩ | ⟨x, e⟩ <;> cases e

theorem eff_setWaiters (s : State) (k i : Nat) (ws : List Waiter)
    (h : ws.map (·.task) = (s.locks k).waiters.map (·.task)) :
    (s.setLock k { s.locks k with waiters := ws }).eff i = s.eff i := by
  apply eff_eq_of_graph
  · apply graph_eq_of
    · intro j; rfl
    · intro j; rfl
    · intro l; by_cases c : l = k
      · subst c; simpa using h
      · simp [c]
  · exact setLock_fuel s k _

/-- ready key after `_wake_up_first` -/
theorem wakeUpFirst_rkey (s : State) (k j : Nat) :
    (((s.wakeUpFirst k).tasks j).rkey = (s.tasks j).rkey ∧
      ((s.wakeUpFirst k).tasks j).status = (s.tasks j).status) ∨
    ((((s.wakeUpFirst k).tasks j).rkey = none ∨
        ((s.wakeUpFirst k).tasks j).rkey = some ((s.wakeUpFirst k).eff j)) ∧
      ((s.wakeUpFirst k).tasks j).status = .woken false) := by
  have heff := wakeUpFirst_eff s k j
  rw [heff]
  unfold State.wakeUpFirst
  simp only []
  split
  · left; exact ⟨rfl, rfl⟩
  · split
    · left; exact ⟨rfl, rfl⟩
    · rename_i w _
      split
      · by_cases e : j = w.task
        · subst e
          right
          simp only [State.enqueue, setTask_tasks, if_true, and_true]
          by_cases hl : s.prioLoop = true
          · right
            simp only [setLock_prioLoop, hl, if_true]
            congr 1
            exact eff_setWaiters s k w.task _ (setFutOf_tasks _ _ _)
          · left; simp [hl]
        · left; simp [State.enqueue, e]
      · left; exact ⟨rfl, rfl⟩

end Asynkit.Lock

namespace Asynkit.Lock
open Asynkit.PrioGraph

/-- effective priorities around a queueing `acquire` -/
theorem acquire_slow_eff {N : Nat} {s : State} (hI : Inv s) (ho : Ord N s) {j k : Nat}
    (hord : ∀ l ∈ (s.tasks j).owns, l < k) :
    (∀ t, (queuedState (walk (appended s j k) (s.locks k).owner) j k).eff t = (appended s j k).eff t) ∧
    (∀ t, ¬ (∃ d, Under s.graph t k d) → (appended s j k).eff t = s.eff t) ∧
    ¬ (∃ d, Under s.graph j k d) := by
  have hke := walk_keyEq (appended s j k) (s.locks k).owner
  refine ⟨?_, ?_, ?_⟩
  · intro t
    apply eff_eq_of_graph
    · apply graph_eq_of
      · intro i; rw [← hke.prio i]; by_cases c : i = j <;> simp [queuedState, c]
      · intro i; rw [← hke.holding i]; by_cases c : i = j <;> simp [queuedState, c]
      · intro l; rw [← keyEq_tasks hke l]; rfl
    · rw [← hke.fuel]; rfl
  · apply eff_eq_local (fun t => ∃ d, Under s.graph t k d)
      (fun l => l = k ∨ ∃ w ∈ (s.locks l).waiters, ∃ d, Under s.graph w.task k d)
    · rfl
    · intro i; by_cases c : i = j <;> simp [appended, c]
    · intro t _; by_cases c : t = j <;> simp [appended, c]
    · intro l hl
      have : l ≠ k := fun e => hl (Or.inl e)
      simp [appended, this]
    · intro t ht l hl hd
      rcases hd with e | ⟨w, hw, d, hu⟩
      · exact ht ⟨0, Under.base (by rw [graph_holding, ← e]; exact hl)⟩
      · exact ht ⟨d + 1, Under.step (by rw [graph_holding]; exact hl)
          (by rw [graph_waiters]; exact List.mem_map_of_mem hw) hu⟩
    · intro l hl w hw hd
      exact hl (Or.inr ⟨w, hw, hd⟩)
  · intro ⟨d, hu⟩
    obtain ⟨l, hl, hle⟩ := under_top hI ho hu
    have := hord l (hI.holding_sub hl); omega

theorem rki_acquire_slow {N : Nat} {s : State} (hI : Inv s) (hc : Clean s) (ho : Ord N s) (h : RKI s)
    (hfuel : 2 * N ≤ s.fuel) (hpl : s.prioLoop = true) {j k : Nat} (hcur : s.cur = some j)
    (hord : ∀ l ∈ (s.tasks j).owns, l < k) :
    RKI (queuedState (walk (appended s j k) (s.locks k).owner) j k) := by
  have hrun : (s.tasks j).status = .running := (hI.curRunning j).mp hcur
  obtain ⟨heffS, hclean, hjclean⟩ := acquire_slow_eff hI ho hord
  have hke := walk_keyEq (appended s j k) (s.locks k).owner
  have hrel : RelT (appended s j k) (appended s j k) (walk (appended s j k) (s.locks k).owner) := by
    cases (s.locks k).owner with
    | none => exact RelT.refl _ _
    | some o => exact relT_propT _ _ o _ (KeyEq.refl _)
  have hAr : ∀ i, ((appended s j k).tasks i).rkey = (s.tasks i).rkey := by
    intro i; by_cases c : i = j <;> simp [appended, c]
  have hAs : ∀ i, ((appended s j k).tasks i).status = (s.tasks i).status := by
    intro i; by_cases c : i = j <;> simp [appended, c]
  apply rki_of_local h
  intro i r hr
  by_cases cj : i = j
  · -- the acquirer was running: it has no ready key
    subst cj
    exfalso
    have hnone := h.running_none hrun
    have hr' : ((walk (appended s i k) (s.locks k).owner).tasks i).rkey = some r := by
      simpa [queuedState] using hr
    rcases hrel i with e | ⟨e, _⟩
    · rw [e, hAr, hnone] at hr'; cases hr'
    · rw [hAr, hnone] at e; cases e
  · have hr' : ((walk (appended s j k) (s.locks k).owner).tasks i).rkey = some r := by
      simpa [queuedState, cj] using hr
    have hst : ((queuedState (walk (appended s j k) (s.locks k).owner) j k).tasks i).status =
        (s.tasks i).status := by
      simp only [queuedState, setTask_tasks, cj, if_false]
      rw [hke.status, hAs]
    rcases hrel i with e | ⟨e1, e2⟩
    · -- key untouched by the walk
      rw [e, hAr] at hr'
      by_cases hd : ∃ d, Under s.graph i k d
      · -- a dirty task that is in the ready queue is the runnable end of the chain: re-keyed
        obtain ⟨d, hu⟩ := hd
        obtain ⟨o, hown⟩ := under_owner hI hu
        have hready := (h i r hr').2
        have hprio := hI.prio_of_holding (under_holding_ne hu)
        have hrunnable : (s.tasks i).status.runnable = true := by
          rcases hready with ⟨c, e'⟩ | ⟨x, e'⟩ <;> rw [e'] <;> rfl
        have q0 : QR (appended s j k) i 1 i :=
          qr_self (by rw [appended_task cj]; exact hprio) (by rw [appended_task cj]; exact hrunnable)
            hpl (by rw [hAr, hr']; rfl)
        have qo := qr_chain hI hc hrun hown hu 1 q0
        obtain ⟨l, hl, hle⟩ := under_top hI ho hu
        have hlN : l < N := (ho i).1 l (hI.holding_sub hl)
        have : RkR (appended s j k) (walk (appended s j k) (s.locks k).owner) i := by
          rw [hown]
          exact qo _ (KeyEq.refl _) (RelT.refl _ _) _ (by show 1 + 2 * d ≤ s.fuel; omega)
        right
        have hr2 : ((walk (appended s j k) (s.locks k).owner).tasks i).rkey = some r := by
          simpa [queuedState, cj] using hr
        rw [this] at hr2; injection hr2 with hr2
        exact ⟨by rw [heffS, hr2], by rw [hst]; exact hready⟩
      · left
        exact ⟨hr', hst, by rw [heffS, hclean i hd]⟩
    · right
      rw [e2] at hr'; injection hr' with hr'
      have : ∃ r0, (s.tasks i).rkey = some r0 := by
        rw [hAr] at e1
        cases hh : (s.tasks i).rkey with
        | none => rw [hh] at e1; cases e1
        | some r0 => exact ⟨r0, rfl⟩
      obtain ⟨r0, hr0⟩ := this
      exact ⟨by rw [heffS, hr'], by rw [hst]; exact (h i r0 hr0).2⟩

end Asynkit.Lock
