/-
C08 / C10 (shared by C09, C16, C18) — what the scheduling models assume of CPython's event loop, proved about
the code `translator/baseevents2lean.py` regenerates on every run from the running interpreter's
`asyncio/base_events.py` and `asyncio/events.py` (`Asynkit/Gen/BaseEvents.lean`):

* `call_soon` / `_call_soon` / `call_soon_threadsafe`: exactly one `append` of a fresh, non-cancelled handle to the
  ready queue (for a deque: it becomes the last entry); a closed loop raises and changes nothing;
* `call_at` / `call_later`: a fresh TimerHandle with `_when = when`, pushed on the `_scheduled` heap, `_scheduled = True`;
* `Handle.cancel`, `TimerHandle.cancel`, `_timer_handle_cancelled`: the cancelled flag and the cancelled-timer count;
* `Handle._run`: the callback's outcome; an ordinary exception goes to the exception handler, SystemExit /
  KeyboardInterrupt propagate;
* `_run_once` = cancelled-timer sweep; `select(timeout)` + `_process_events`; due timers moved to the ready queue;
  then **exactly `ntodo = len(self._ready)` trips of `popleft()` + `_run()` (cancelled handles skipped)** — and
  running such batches until the queue is empty is, step for step, `Sched.runLoop` (the model's loop pops one
  handle at a time: the batch boundary is unobservable).

Abstracted (parameters of `LoopStd.Env`, not translated): selector and `_process_events`, the clock, what a callback
does, `call_exception_handler`, `_write_to_self`, the debug-mode checks; in debug mode `_run_once` additionally keeps
`_current_handle` and may log a slow callback (translated, `runOne`-level; the theorems about the batch are stated
for `debug = false`).
-/
import Asynkit.Gen.BaseEvents
import Asynkit.Model.Sched
import Asynkit.Lemmas.Heap

namespace Asynkit.GenEqLoopStd
open Asynkit Asynkit.LoopStd Asynkit.Gen.BaseEvents
variable {Q ω : Type} (env : Env Q ω)

/-! ### Handle / TimerHandle -/

theorem handleRun_eq (h : Nat) (st : St Q ω) :
    handleRun env h st =
      match env.invoke h st with
      | .exit _ => .error .exit
      | .ok s => .ok ((), s)
      | .exc s => .ok ((), env.excHandler h s) := by
  unfold handleRun
  cases env.invoke h st <;> simp

theorem handleCancel_eq (h : Nat) (st : St Q ω) :
    handleCancel env h st = .ok ((), if (st.info h).cancelled = true then st else Prim.setCancelled h true st) := by
  unfold handleCancel
  by_cases hc : (st.info h).cancelled = true <;> simp [hc]

theorem timerHandleCancelled_eq (h : Nat) (st : St Q ω) :
    timerHandleCancelled env h st =
      .ok ((), if (st.info h).scheduled = true then { st with cancelledCount := st.cancelledCount + 1 } else st) := by
  unfold timerHandleCancelled
  by_cases hc : (st.info h).scheduled = true <;> simp [hc]

/-- `TimerHandle.cancel`: the first cancel of a timer that sits in the heap counts it and marks it; a second
    cancel changes nothing -/
theorem timerHandleCancel_eq (h : Nat) (st : St Q ω) :
    timerHandleCancel env h st =
      .ok ((), if (st.info h).cancelled = true then st
               else Prim.setCancelled h true
                 (if (st.info h).scheduled = true then { st with cancelledCount := st.cancelledCount + 1 } else st)) := by
  unfold timerHandleCancel
  by_cases hc : (st.info h).cancelled = true
  · simp [hc, handleCancel_eq]
  · by_cases hs : (st.info h).scheduled = true <;>
      simp [hc, hs, handleCancel_eq, timerHandleCancelled_eq, Prim.setCancelled, Prim.setInfo]

/-! ### call_soon -/

/-- the state after `events.Handle(…)` + `self._ready.append(handle)` -/
def afterCallSoon (st : St Q ω) : St Q ω :=
  let s1 := (Prim.newHandle st).2
  { s1 with ready := env.O.append s1.ready (env.pri s1 st.next) st.next }

theorem callSoonInner_eq (st : St Q ω) : callSoonInner env st = .ok (st.next, afterCallSoon env st) := by
  unfold callSoonInner afterCallSoon Prim.trimTb
  simp [Prim.newHandle]

/-- the new handle is fresh and not cancelled; nothing but the ready queue and the handle table changes -/
theorem afterCallSoon_fields (st : St Q ω) :
    ((afterCallSoon env st).info st.next).cancelled = false ∧ (afterCallSoon env st).next = st.next + 1 ∧
    (afterCallSoon env st).sched = st.sched ∧ (afterCallSoon env st).user = st.user ∧
    (∀ i, i ≠ st.next → (afterCallSoon env st).info i = st.info i) := by
  refine ⟨by simp [afterCallSoon, Prim.newHandle], rfl, rfl, rfl, ?_⟩
  intro i hi; simp [afterCallSoon, Prim.newHandle, hi]

/-- on a deque the new handle is the last entry (`call_soon` appends last) -/
theorem afterCallSoon_deque {ω : Type} (env : Env (List Nat) ω) (hO : env.O = Sched.listOps) (st : St (List Nat) ω) :
    (afterCallSoon env st).ready = st.ready ++ [st.next] := by
  simp [afterCallSoon, Prim.newHandle, hO, Sched.listOps]

theorem callSoon_closed (st : St Q ω) (hc : st.closed = true) : callSoon env st = .error .runtimeError := by
  unfold callSoon Prim.checkClosed; simp [hc]

theorem callSoon_eq (st : St Q ω) (hc : st.closed = false) (hd : st.debug = false) :
    callSoon env st = .ok (st.next, afterCallSoon env st) := by
  unfold callSoon Prim.checkClosed Prim.trimTb
  simp only [hc, hd, callSoonInner_eq]
  simp

/-- also in debug mode: whenever `call_soon` returns, it did exactly what `_call_soon` does -/
theorem callSoon_ok (st : St Q ω) (r : Nat × St Q ω) (h : callSoon env st = .ok r) :
    r = (st.next, afterCallSoon env st) := by
  unfold callSoon Prim.trimTb at h
  simp only [callSoonInner_eq] at h
  repeat' split at h
  all_goals simp_all

theorem callSoonThreadsafe_ok (st : St Q ω) (r : Nat × St Q ω) (h : callSoonThreadsafe env st = .ok r) :
    r = (st.next, Prim.writeToSelf (afterCallSoon env st)) := by
  unfold callSoonThreadsafe Prim.trimTb at h
  simp only [callSoonInner_eq] at h
  repeat' split at h
  all_goals simp_all

/-! ### call_at / call_later -/

def afterCallAt (w : Rat) (st : St Q ω) : St Q ω :=
  let s1 := (Prim.newTimer w st).2
  Prim.setScheduled st.next true { s1 with sched := env.H.push (Prim.timerLt s1.info) s1.sched st.next }

theorem callAt_none (st : St Q ω) : callAt env none st = .error .typeError := rfl

theorem callAt_eq (w : Rat) (st : St Q ω) (hc : st.closed = false) (hd : st.debug = false) :
    callAt env (some w) st = .ok (st.next, afterCallAt env w st) := by
  unfold callAt Prim.checkClosed Prim.trimTb afterCallAt
  simp only [hc, hd, Prim.newTimer]
  simp

/-- the timer carries `_when = when`, is marked scheduled, is not cancelled; the ready queue is untouched -/
theorem afterCallAt_fields (w : Rat) (st : St Q ω) :
    ((afterCallAt env w st).info st.next).whenT = w ∧ ((afterCallAt env w st).info st.next).scheduled = true ∧
    ((afterCallAt env w st).info st.next).cancelled = false ∧ (afterCallAt env w st).ready = st.ready ∧
    (afterCallAt env w st).sched = env.H.push (Prim.timerLt (Prim.newTimer w st).2.info) st.sched st.next := by
  simp [afterCallAt, Prim.newTimer, Prim.setScheduled, Prim.setInfo]

theorem callLater_none (st : St Q ω) : callLater env none st = .error .typeError := rfl

/-- `call_later(delay)` is `call_at(self.time() + delay)` -/
theorem callLater_eq (d : Rat) (st : St Q ω) :
    callLater env (some d) st = callAt env (some (env.time st + d)) st := by
  unfold callLater Prim.trimTb
  simp only []
  cases callAt env (some (env.time st + d)) st with
  | error e => rfl
  | ok r => obtain ⟨t, s⟩ := r; simp

/-! ### _run_once -/

/-- one trip of the `for i in range(ntodo)` loop: `popleft()`; a cancelled handle is skipped; else `_run()` -/
def popRun (st : St Q ω) : Except Exn (St Q ω) := runOnce_loop3 env 1 st

/-- the batch loop is `n` such trips, nothing else -/
theorem batch_succ (n : Nat) (st : St Q ω) :
    runOnce_loop3 env (n + 1) st =
      match popRun env st with
      | .error e => .error e
      | .ok st' => runOnce_loop3 env n st' := by
  unfold popRun
  simp only [runOnce_loop3]
  repeat' split
  all_goals simp_all

theorem batch_zero (st : St Q ω) : runOnce_loop3 env 0 st = .ok st := rfl

/-- outside debug mode a trip is: pop; skip if cancelled; else the callback's outcome (`Handle._run`) -/
theorem popRun_eq (st : St Q ω) (hd : st.debug = false) :
    popRun env st =
      match env.O.popleft st.ready with
      | none => .error .indexError
      | some (h, r) =>
        if (st.info h).cancelled = true then .ok { st with ready := r }
        else match handleRun env h { st with ready := r } with
          | .error e => .error e
          | .ok (_, s) => .ok s := by
  unfold popRun
  simp only [runOnce_loop3]
  cases env.O.popleft st.ready with
  | none => rfl
  | some p =>
    obtain ⟨h, r⟩ := p
    simp only [hd]
    by_cases hc : (st.info h).cancelled = true
    · simp [hc]
    · simp only [hc]
      rfl

def sweep (st : St Q ω) : Except Exn (St Q ω) :=
  if (st.sched.length > 100) ∧ (((st.cancelledCount : Rat) / ((st.sched.length : Nat) : Rat)) > ((1 : Rat) / 2)) then
    match runOnce_loop1 env st.sched (st, []) with
    | .error e => .error e
    | .ok (st, ns) => .ok { { st with sched := env.H.heapify (Prim.timerLt st.info) ns } with cancelledCount := (0 : Int) }
  else runOnce_loop4 env (st.sched.length + 1) st

def timeoutOf (st : St Q ω) : Option Rat :=
  if (env.O.len st.ready ≠ 0) ∨ (st.stopping = true) then some ((0 : Nat) : Rat)
  else if st.sched ≠ [] then
    some (min (max ((0 : Nat) : Rat) ((st.info (st.sched.headD 0)).whenT - env.time st)) ((86400 : Nat) : Rat))
  else none

def afterSelect (st : St Q ω) : St Q ω := env.processEvents (Prim.select env (timeoutOf env st) st)

def tail (st : St Q ω) : Except Exn (Unit × St Q ω) :=
  let st := afterSelect env st
  match runOnce_loop2 env (env.time st + env.clockRes) (st.sched.length + 1) st with
  | .error e => .error e
  | .ok st =>
    match runOnce_loop3 env (env.O.len st.ready) st with
    | .error e => .error e
    | .ok st => .ok ((), st)

theorem runOnce_eq (st : St Q ω) :
    runOnce env st = match sweep env st with
      | .error e => .error e
      | .ok st => tail env st := by
  unfold runOnce sweep
  simp only []
  by_cases h1 : (st.sched.length > 100) ∧ (((st.cancelledCount : Rat) / ((st.sched.length : Nat) : Rat)) > ((1 : Rat) / 2))
  · simp only [if_pos h1]
    cases runOnce_loop1 env st.sched (st, []) with
    | error e => simp
    | ok r =>
      obtain ⟨s1, ns⟩ := r
      simp only []
      unfold tail afterSelect timeoutOf
      simp only []
      by_cases hc : (env.O.len s1.ready ≠ 0) ∨ (s1.stopping = true)
      · simp only [if_pos hc] <;> rfl
      · simp only [if_neg hc]
        by_cases hd : env.H.heapify (Prim.timerLt s1.info) ns ≠ []
        · simp only [if_pos hd] <;> rfl
        · simp only [if_neg hd] <;> rfl
  · simp only [if_neg h1]
    cases runOnce_loop4 env (st.sched.length + 1) st with
    | error e => simp
    | ok s1 =>
      simp only []
      unfold tail afterSelect timeoutOf
      simp only []
      by_cases hc : (env.O.len s1.ready ≠ 0) ∨ (s1.stopping = true)
      · simp only [if_pos hc] <;> rfl
      · simp only [if_neg hc]
        by_cases hd : s1.sched ≠ []
        · simp only [if_pos hd] <;> rfl
        · simp only [if_neg hd] <;> rfl

/-- no timers: `_run_once` is `select` + `_process_events`, then exactly `len(self._ready)` trips -/
theorem runOnce_noTimers (st : St Q ω) (h0 : st.sched = []) (h1 : (afterSelect env st).sched = []) :
    runOnce env st =
      match runOnce_loop3 env (env.O.len (afterSelect env st).ready) (afterSelect env st) with
      | .error e => .error e
      | .ok s => .ok ((), s) := by
  rw [runOnce_eq]
  have hs : sweep env st = .ok st := by
    unfold sweep
    simp [h0, runOnce_loop4]
  rw [hs]
  simp only [tail]
  have hl : runOnce_loop2 env (env.time (afterSelect env st) + env.clockRes) ((afterSelect env st).sched.length + 1)
      (afterSelect env st) = .ok (afterSelect env st) := by
    simp [h1, runOnce_loop2]
  rw [hl]

/-! ### timers: the heap order, and the fuel of the translated `while` loops is never used up -/

/-- `TimerHandle.__lt__` (`_when <`) is a strict weak order, whatever the handle table -/
theorem timerLt_strictWeak (info : Nat → HInfo) : StrictWeak (Prim.timerLt info) := by
  constructor
  · intro a; simp [Prim.timerLt]
  · intro a b; simp only [Prim.timerLt]; grind
  · intro a b c; simp only [Prim.timerLt]; grind
  · intro a b c; simp only [Prim.timerLt]; grind

/-- what `heappop(self._scheduled)` hands to `_run_once` when the heap is lawful: the head `self._scheduled[0]`
    that was just tested, and no remaining timer is due earlier — timers become ready in non-decreasing
    `when` order (the order among equal `when`s is heapq's, i.e. unspecified, as the docstring of `call_later`
    says) -/
theorem due_pop_min (st : St Q ω) (hl : env.H.Lawful (Prim.timerLt st.info)) (a : Nat) (l : List Nat)
    (hh : IsHeap (Prim.timerLt st.info) (a :: l)) :
    ∃ l', env.H.pop (Prim.timerLt st.info) (a :: l) = some (a, l') ∧ l'.Perm l ∧ IsHeap (Prim.timerLt st.info) l' ∧
      ∀ x ∈ l, ¬ ((st.info x).whenT < (st.info a).whenT) := by
  obtain ⟨l', h1, h2, h3⟩ := hl.pop_cons a l
  refine ⟨l', h1, h2, h3 hh, ?_⟩
  intro x hx
  have := hh.root_min_mem (timerLt_strictWeak st.info) x (List.mem_cons_of_mem _ hx)
  simpa [Prim.timerLt] using this

/-- one trip of the "move due timers" loop: stop on an empty heap or when the head is not due
    (`_when >= end_time`); else pop it, clear its `_scheduled` flag, append it to the ready queue -/
theorem dueLoop_step (e : Rat) (fuel : Nat) (st : St Q ω) :
    runOnce_loop2 env e (fuel + 1) st =
      if st.sched = [] then .ok st
      else if (st.info (st.sched.headD 0)).whenT ≥ e then .ok st
      else match env.H.pop (Prim.timerLt st.info) st.sched with
        | none => .error .indexError
        | some (h, s') =>
          let st1 := Prim.setScheduled h false { st with sched := s' }
          runOnce_loop2 env e fuel { st1 with ready := env.O.append st1.ready (env.pri st1 h) h } := by
  rw [runOnce_loop2]
  by_cases hs : st.sched = []
  · simp [hs]
  · rw [if_pos hs, if_neg hs]
    simp only []
    by_cases hw : (st.info (st.sched.headD 0)).whenT ≥ e
    · rw [if_pos hw, if_pos hw]
    · rw [if_neg hw, if_neg hw]
      cases env.H.pop (Prim.timerLt st.info) st.sched with
      | none => rfl
      | some p => rfl

/-- one trip of the "remove cancelled heads" loop: while the head of the heap is cancelled, count it down,
    pop it and clear its `_scheduled` flag -/
theorem headsLoop_step (fuel : Nat) (st : St Q ω) :
    runOnce_loop4 env (fuel + 1) st =
      if (st.sched ≠ []) ∧ ((st.info (st.sched.headD 0)).cancelled = true) then
        match env.H.pop (Prim.timerLt st.info) st.sched with
        | none => .error .indexError
        | some (h, s') =>
          runOnce_loop4 env fuel (Prim.setScheduled h false { st with sched := s', cancelledCount := st.cancelledCount - 1 })
      else .ok st := by
  rw [runOnce_loop4]
  by_cases hc : (st.sched ≠ []) ∧ ((st.info (st.sched.headD 0)).cancelled = true)
  · rw [if_pos hc, if_pos hc]
    simp only []
    cases env.H.pop (Prim.timerLt st.info) st.sched with
    | none => rfl
    | some p => rfl
  · rw [if_neg hc, if_neg hc]

/-- the sweep of a heap with many cancelled timers: cancelled ones lose their `_scheduled` flag, the others
    are kept in order (then `heapify`, count reset: `sweep`) -/
theorem sweepLoop_cons (h : Nat) (rest : List Nat) (st : St Q ω) (keep : List Nat) :
    runOnce_loop1 env (h :: rest) (st, keep) =
      if (st.info h).cancelled = true then runOnce_loop1 env rest (Prim.setScheduled h false st, keep)
      else runOnce_loop1 env rest (st, keep ++ [h]) := by
  rw [runOnce_loop1]

theorem sweepLoop_nil (st : St Q ω) (keep : List Nat) : runOnce_loop1 env [] (st, keep) = .ok (st, keep) := rfl

theorem setScheduled_sched (h : Nat) (b : Bool) (st : St Q ω) : (Prim.setScheduled h b st).sched = st.sched := rfl

/-- the "move due timers" loop never runs out of its fuel (`len(self._scheduled) + 1`) -/
theorem dueLoop_fuel (hl : ∀ info, env.H.Lawful (Prim.timerLt info)) (e : Rat) :
    ∀ (fuel : Nat) (st : St Q ω), st.sched.length < fuel → runOnce_loop2 env e fuel st ≠ .error .outOfFuel := by
  intro fuel
  induction fuel with
  | zero => intro st h; omega
  | succ fuel ih =>
    intro st hlen
    unfold runOnce_loop2
    by_cases hs : st.sched ≠ []
    · rw [if_pos hs]
      simp only []
      by_cases hw : (st.info (st.sched.headD 0)).whenT ≥ e
      · rw [if_pos hw]; simp
      · rw [if_neg hw]
        obtain ⟨a, l, hsc⟩ : ∃ a l, st.sched = a :: l := by
          cases h : st.sched with
          | nil => exact absurd h hs
          | cons a l => exact ⟨a, l, rfl⟩
        obtain ⟨l', h1, h2, _⟩ := (hl st.info).pop_cons a l
        rw [hsc, h1]
        apply ih
        simp only [setScheduled_sched]
        have := h2.length_eq
        rw [hsc] at hlen
        simp at hlen
        omega
    · rw [if_neg hs]; simp

/-- neither does the "remove cancelled heads" loop -/
theorem headsLoop_fuel (hl : ∀ info, env.H.Lawful (Prim.timerLt info)) :
    ∀ (fuel : Nat) (st : St Q ω), st.sched.length < fuel → runOnce_loop4 env fuel st ≠ .error .outOfFuel := by
  intro fuel
  induction fuel with
  | zero => intro st h; omega
  | succ fuel ih =>
    intro st hlen
    unfold runOnce_loop4
    by_cases hc : (st.sched ≠ []) ∧ ((st.info (st.sched.headD 0)).cancelled = true)
    · rw [if_pos hc]
      simp only []
      obtain ⟨a, l, hsc⟩ : ∃ a l, st.sched = a :: l := by
        cases h : st.sched with
        | nil => exact absurd h hc.1
        | cons a l => exact ⟨a, l, rfl⟩
      obtain ⟨l', h1, h2, _⟩ := (hl st.info).pop_cons a l
      rw [hsc, h1]
      apply ih
      simp only [setScheduled_sched]
      have := h2.length_eq
      rw [hsc] at hlen
      simp at hlen
      omega
    · rw [if_neg hc]; simp

/-! ### the loop of the scheduling model (`Sched.runLoop`, C08 / C10) is this loop -/
section sched
open Asynkit.Sched
variable {Q : Type} (O : QOps Q) (H : HeapLib Nat)

/-- the model's world seen from the loop state: the ready queue is `self._ready` -/
def toWorld (st : St Q (World Q)) : World Q := { st.user with q := st.ready }

/-- the event loop the scheduling model runs programs on: a callback is the model's `runHandle` (a task step, a
    plain callback, a `task_reinsert` callback — they call back into the queue through `O`), no I/O, no timers
    due, no debug mode -/
def schedEnv : Env Q (World Q) where
  O := O
  pri st h := gpH (toWorld st) h
  H := H
  time _ := 0
  clockRes := 0
  slowDur := 0
  select _ s := s
  processEvents s := s
  invoke h st :=
    let w := ((runHandle O h).run (toWorld st)).2
    .ok { st with ready := w.q, user := w }
  excHandler _ s := s
  threadOk _ := true
  callbackOk _ := true

/-- one step of `Sched.runLoop`: pop the next handle and run it -/
def stepW (w : World Q) : Option (World Q) :=
  match O.popleft w.q with
  | none => none
  | some (h, q') => some ((runHandle O h).run { w with q := q' }).2

def stepsN : Nat → World Q → Option (World Q)
  | 0, w => some w
  | n + 1, w =>
    match stepW O w with
    | none => none
    | some w' => stepsN n w'

theorem runLoop_step (fuel : Nat) (w : World Q) :
    (runLoop O (fuel + 1)).run w =
      match stepW O w with
      | none => ((), w)
      | some w' => (runLoop O fuel).run w' := by
  unfold stepW
  rw [runLoop]
  cases hp : O.popleft w.q with
  | none =>
    simp [StateT.run, bind, StateT.bind, get, getThe, MonadStateOf.get, StateT.get, pure, StateT.pure, hp]
  | some p =>
    obtain ⟨h, q'⟩ := p
    simp only [StateT.run, bind, StateT.bind, get, getThe, MonadStateOf.get, StateT.get, set, StateT.set, hp, pure]
    rfl

/-- `n` steps of the model's loop, then the rest -/
theorem runLoop_steps (n fuel : Nat) (w w' : World Q) (h : stepsN O n w = some w') :
    (runLoop O (n + fuel)).run w = (runLoop O fuel).run w' := by
  induction n generalizing w with
  | zero => simp [stepsN] at h; subst h; simp
  | succ n ih =>
    have e : n + 1 + fuel = (n + fuel) + 1 := by omega
    rw [e, runLoop_step]
    simp only [stepsN] at h
    cases hs : stepW O w with
    | none => rw [hs] at h; simp at h
    | some w1 => rw [hs] at h; simp only []; exact ih w1 h

/-- what the model relies on: no handle is ever cancelled, the loop is not in debug mode -/
def Plain (st : St Q (World Q)) : Prop := st.debug = false ∧ ∀ h, (st.info h).cancelled = false

/-- one trip of `_run_once`'s batch on the model's loop is one step of `Sched.runLoop` -/
theorem popRun_sched (st : St Q (World Q)) (hp : Plain st) :
    match stepW O (toWorld st) with
    | none => popRun (schedEnv O H) st = .error .indexError
    | some w' => ∃ st', popRun (schedEnv O H) st = .ok st' ∧ toWorld st' = w' ∧ Plain st' ∧ st'.sched = st.sched := by
  rw [popRun_eq _ _ hp.1]
  unfold stepW toWorld
  simp only [schedEnv]
  cases hpop : O.popleft st.ready with
  | none => simp
  | some p =>
    obtain ⟨h, r⟩ := p
    simp only [hp.2 h, handleRun_eq]
    exact ⟨_, rfl, rfl, ⟨hp.1, hp.2⟩, rfl⟩

/-- a batch of `n` trips is `n` steps of the model's loop (and if the queue runs dry inside the batch — a handle
    was removed without being re-inserted — asyncio's own `popleft()` raises IndexError) -/
theorem batch_sched (n : Nat) (st : St Q (World Q)) (hp : Plain st) :
    match stepsN O n (toWorld st) with
    | none => runOnce_loop3 (schedEnv O H) n st = .error .indexError
    | some w' => ∃ st', runOnce_loop3 (schedEnv O H) n st = .ok st' ∧ toWorld st' = w' ∧ Plain st' ∧ st'.sched = st.sched := by
  induction n generalizing st with
  | zero => exact ⟨st, rfl, rfl, hp, rfl⟩
  | succ n ih =>
    rw [batch_succ]
    have h1 := popRun_sched O H st hp
    simp only [stepsN]
    cases hs : stepW O (toWorld st) with
    | none => rw [hs] at h1; rw [h1]
    | some w1 =>
      rw [hs] at h1
      obtain ⟨st1, e1, e2, e3, e4⟩ := h1
      rw [e1]
      simp only []
      have := ih st1 e3
      rw [e2] at this
      cases hn : stepsN O n w1 with
      | none => rw [hn] at this; exact this
      | some w2 =>
        rw [hn] at this
        obtain ⟨st2, f1, f2, f3, f4⟩ := this
        exact ⟨st2, f1, f2, f3, f4.trans e4⟩

/-- **`_run_once` on the model's loop**: with no timers it runs exactly the `len(self._ready)` next steps of
    `Sched.runLoop`, and `Sched.runLoop` continues from there: iterating `_run_once` until the ready queue is empty
    is `Sched.runLoop`, step for step — the batching is unobservable. -/
theorem runOnce_sched (st : St Q (World Q)) (hp : Plain st) (h0 : st.sched = []) (w' : World Q)
    (hs : stepsN O (O.len st.ready) (toWorld st) = some w') :
    ∃ st', runOnce (schedEnv O H) st = .ok ((), st') ∧ toWorld st' = w' ∧ Plain st' ∧ st'.sched = [] ∧
      ∀ fuel, (runLoop O (O.len st.ready + fuel)).run (toWorld st) = (runLoop O fuel).run w' := by
  have hsel : afterSelect (schedEnv O H) st = { st with trace := st.trace ++ [.select (timeoutOf (schedEnv O H) st)] } := rfl
  have hw : toWorld (afterSelect (schedEnv O H) st) = toWorld st := by rw [hsel]; rfl
  have hpl : Plain (afterSelect (schedEnv O H) st) := by rw [hsel]; exact hp
  rw [runOnce_noTimers _ st h0 (by rw [hsel]; exact h0)]
  have hb := batch_sched O H (O.len st.ready) (afterSelect (schedEnv O H) st) hpl
  rw [hw, hs] at hb
  obtain ⟨st', b1, b2, b3, b4⟩ := hb
  have hr : (afterSelect (schedEnv O H) st).ready = st.ready := by rw [hsel]
  refine ⟨st', ?_, b2, b3, ?_, fun fuel => runLoop_steps O _ fuel _ _ hs⟩
  · have hlen : (schedEnv O H).O.len (afterSelect (schedEnv O H) st).ready = O.len st.ready := by rw [hr]; rfl
    rw [hlen, b1]
  · rw [b4, hsel]; exact h0

end sched

end Asynkit.GenEqLoopStd
