/-
`heapq.py` of the running interpreter, re-translated on every run (`translator/heapq2lean.py` →
`Asynkit/Gen/Heapq.lean`: `_siftdown`, `_siftup`, `heappush`, `heappop`, `heapify`, statement by
statement, lists with Python integer indices, `while` loops with a fuel bound derived from the
loop condition), equals the hand-written `Asynkit.Cpy.*` of `Model/Heap.lean` — for every
comparison `lt` and every input.  So `cpyHeap_lawful` (`Lemmas/CpyHeap.lean`) is a theorem about
the Python source of `heapq` as shipped with this interpreter; what stays trusted is that the C
accelerator `_heapq` computes what `heapq.py` computes (tested on every C17 run).

The right-hand sides cannot raise: the equalities also say that no IndexError and no
`Exc.outOfFuel` (the translated `while` loops never run out of their fuel bound) can occur, except
the IndexError of `heappop([])` = `none`.
-/
import Asynkit.Gen.Heapq
import Asynkit.Model.Heap
import Asynkit.Lemmas.PyRt
import Asynkit.Lemmas.CpyHeap

set_option linter.unusedSimpArgs false
set_option linter.unnecessarySimpa false
set_option linter.unusedVariables false

namespace Asynkit.GenEqHeapq
open Asynkit Asynkit.PyRt

variable {α : Type} [Inhabited α] (lt : α → α → Bool)

/-- the loop of `_siftdown`: it stops with the hole at some `p'`; writing `newitem` there is what
    `Cpy.siftdownLoop` returns.  Any fuel above `pos - startpos` is enough on the generated side,
    any fuel above `pos` on the model side. -/
theorem siftdownLoop_eq (fG : Nat) : ∀ (l : List α) (sI pI : Int) (sp pos : Nat) (x : α) (fC : Nat),
    sI = sp → pI = pos → pos < l.length → 0 < fG → pos < sp + fG → pos < fC →
    ∃ (h' : List α) (p' : Nat), Gen.Heapq.siftdown.loop1 lt l sI pI x fG = .next (h', sI, (p' : Int), x) ∧ p' < h'.length ∧
      h'.length = l.length ∧ h'.set p' x = (Cpy.siftdownLoop lt x sp fC l.toArray pos).toList := by
  induction fG with
  | zero => intro l sI pI sp pos x fC _ _ _ h; omega
  | succ fG ih =>
    intro l sI pI sp pos x fC hs hp hl _ hf hc
    cases fC with
    | zero => omega
    | succ fC =>
      unfold Gen.Heapq.siftdown.loop1 Cpy.siftdownLoop
      by_cases hps : pos > sp
      · have hpar : (pI - 1) / 2 = (((pos - 1) / 2 : Nat) : Int) := by omega
        have hparl : (pos - 1) / 2 < l.length := by omega
        simp only [getItemI_cast l _ _ hpar hparl, setItemI_cast l pI pos _ hp hl]
        decide_ifs
        have hget : l.toArray[(pos - 1) / 2]! = l[(pos - 1) / 2] := by simp [hparl]
        simp only [hget]
        cases hlt : lt x l[(pos - 1) / 2] with
        | true =>
          try simp only [hlt]
          try decide_ifs
          obtain ⟨h', p', h1, h2, h3, h4⟩ := ih (l.set pos l[(pos - 1) / 2]) sI ((pI - 1) / 2) sp ((pos - 1) / 2) x fC
            hs hpar (by simp; omega) (by omega) (by omega) (by omega)
          refine ⟨h', p', h1, h2, by simpa using h3, ?_⟩
          rw [h4]; simp
        | false =>
          try simp only [hlt]
          try decide_ifs
          exact ⟨l, pos, by rw [hp], hl, rfl, by simp⟩
      · decide_ifs
        exact ⟨l, pos, by rw [hp], hl, rfl, by simp⟩

/-- **`heapq._siftdown`** -/
theorem siftdown_eq (l : List α) (sp pos : Nat) (h : pos < l.length) :
    Gen.Heapq.siftdown lt l (sp : Int) (pos : Int) = (.ok (), (Cpy.siftdown lt l.toArray sp pos).toList) := by
  unfold Gen.Heapq.siftdown Cpy.siftdown
  simp only [getItemI_cast l _ pos rfl h]
  obtain ⟨h', p', h1, h2, h3, h4⟩ := siftdownLoop_eq lt (((pos : Int) - (sp : Int)).toNat + 1) l sp pos sp pos l[pos]
    (pos + 1) rfl rfl h (by omega) (by omega) (by omega)
  have hget : l.toArray[pos]! = l[pos] := by simp [h]
  simp only [h1, setItemI_cast h' _ p' _ rfl h2, hget, h4]

/-- the first loop of `_siftup` (the hole travels to a leaf) is `Cpy.siftupLoop` -/
theorem siftupLoop_eq (fG : Nat) : ∀ (l : List α) (e : Nat) (pI sI cI : Int) (pos : Nat) (x : α) (fC : Nat),
    e = l.length → pI = pos → cI = ((2 * pos + 1 : Nat) : Int) → pos < l.length →
    0 < fG → e < 2 * pos + 1 + fG → e ≤ 2 * pos + 1 + fC →
    ∃ (h' : List α) (p' : Nat) (c' : Int),
      Gen.Heapq.siftup.loop1 lt l pI e sI x cI fG = .next (h', (p' : Int), e, sI, x, c') ∧
      p' < h'.length ∧ h'.length = l.length ∧ Cpy.siftupLoop lt e fC l.toArray pos = (h'.toArray, p') := by
  induction fG with
  | zero => intro l e pI sI cI pos x fC _ _ _ _ h; omega
  | succ fG ih =>
    intro l e pI sI cI pos x fC he hp hc hl _ hf hfc
    unfold Gen.Heapq.siftup.loop1
    by_cases hce : 2 * pos + 1 < e
    · cases fC with
      | zero => omega
      | succ fC =>
        unfold Cpy.siftupLoop
        have hcl : 2 * pos + 1 < l.length := by omega
        have hgc : getItemI l cI = some l[2 * pos + 1] := getItemI_cast l _ _ hc hcl
        have hac : l.toArray[2 * pos + 1]! = l[2 * pos + 1] := by simp [hcl]
        -- one trip with the chosen child `c`
        have step : ∀ (c : Nat) (cI' : Int), cI' = (c : Int) → (hcl' : c < l.length) → 2 * pos + 1 ≤ c →
            ∃ (h' : List α) (p' : Nat) (c' : Int),
              Gen.Heapq.siftup.loop1 lt (l.set pos l[c]) cI' e sI x (2 * cI' + 1) fG = .next (h', (p' : Int), e, sI, x, c') ∧
              p' < h'.length ∧ h'.length = l.length ∧
              Cpy.siftupLoop lt e fC (l.toArray.set! pos l.toArray[c]!) c = (h'.toArray, p') := by
          intro c cI' hcI hcl' hcc
          obtain ⟨h', p', c', h1, h2, h3, h4⟩ := ih (l.set pos l[c]) e cI' sI (2 * cI' + 1) c x fC
            (by simp [he]) hcI (by omega) (by simpa using hcl') (by omega) (by omega) (by omega)
          refine ⟨h', p', c', h1, h2, by simpa using h3, ?_⟩
          have : l.toArray[c]! = l[c] := by simp [hcl']
          rw [this]; simpa using h4
        by_cases hre : 2 * pos + 2 < e
        · have hrl : 2 * pos + 2 < l.length := by omega
          have hgr : getItemI l (cI + 1) = some l[2 * pos + 2] := getItemI_cast l _ _ (by omega) hrl
          have har : l.toArray[2 * pos + 1 + 1]! = l[2 * pos + 2] := by simp [hrl]
          simp only [hgc, hgr, setItemI_cast l pI pos _ hp hl, hac, har]
          decide_ifs
          by_cases hlt : lt l[2 * pos + 1] l[2 * pos + 2] = true
          · simp only [hlt, Bool.not_true, Bool.false_eq_true, if_false, Bool.and_false, hac]
            try decide_ifs
            obtain ⟨h', p', c', h1, h2, h3, h4⟩ := step (2 * pos + 1) cI hc hcl (by omega)
            exact ⟨h', p', c', by simpa using h1, h2, h3, by simpa [hac] using h4⟩
          · have hlt' : lt l[2 * pos + 1] l[2 * pos + 2] = false := by simpa using hlt
            simp only [hlt', Bool.not_false, if_true, Bool.and_true, har]
            try decide_ifs
            obtain ⟨h', p', c', h1, h2, h3, h4⟩ := step (2 * pos + 2) (cI + 1) (by omega) hrl (by omega)
            exact ⟨h', p', c', by simpa using h1, h2, h3, by simpa [har] using h4⟩
        · simp only [hgc, setItemI_cast l pI pos _ hp hl, hac]
          decide_ifs
          obtain ⟨h', p', c', h1, h2, h3, h4⟩ := step (2 * pos + 1) cI hc hcl (by omega)
          exact ⟨h', p', c', by simpa using h1, h2, h3, by simpa [hac] using h4⟩
    · decide_ifs
      refine ⟨l, pos, cI, by rw [hp], hl, rfl, ?_⟩
      cases fC with
      | zero => rfl
      | succ fC => unfold Cpy.siftupLoop; decide_ifs

/-- **`heapq._siftup`** -/
theorem siftup_eq (l : List α) (pos : Nat) (h : pos < l.length) :
    Gen.Heapq.siftup lt l (pos : Int) = (.ok (), (Cpy.siftup lt l.toArray pos).toList) := by
  unfold Gen.Heapq.siftup Cpy.siftup
  simp only [getItemI_cast l _ pos rfl h]
  obtain ⟨h', p', c', h1, h2, h3, h4⟩ := siftupLoop_eq lt
    (((l.length : Int) - (2 * (pos : Int) + 1)).toNat + 1) l l.length pos pos (2 * (pos : Int) + 1) pos l[pos] (l.length + 1)
    rfl rfl (by omega) h (by omega) (by omega) (by omega)
  have hget : l.toArray[pos]! = l[pos] := by simp [h]
  have hsz : l.toArray.size = l.length := by simp
  simp only [h1, setItemI_cast h' _ p' _ rfl h2, hget, hsz, h4]
  rw [siftdown_eq lt (h'.set p' l[pos]) pos p' (by simpa using h2)]
  simp

/-- **`heapq.heappush`** -/
theorem heappush_eq (l : List α) (x : α) :
    Gen.Heapq.heappush lt l x = (.ok (), Cpy.heappush lt l x) := by
  unfold Gen.Heapq.heappush Cpy.heappush
  have h1 : (((l ++ [x]).length : Nat) : Int) - 1 = ((l.length : Nat) : Int) := by simp
  have h0 : (0 : Int) = ((0 : Nat) : Int) := rfl
  simp only [h1]
  rw [h0, siftdown_eq lt (l ++ [x]) 0 l.length (by simp)]
  simp

/-- **`heapq.heappop`**: IndexError on the empty list, else the old head and the repaired heap -/
theorem heappop_eq (l : List α) :
    Gen.Heapq.heappop lt l = match Cpy.heappop lt l with
      | none => (.error .indexError, l)
      | some (a, l') => (.ok a, l') := by
  unfold Gen.Heapq.heappop Cpy.heappop
  cases l with
  | nil => simp [listPop]
  | cons a rest =>
    cases hgl : rest.getLast? with
    | none =>
      have : rest = [] := List.getLast?_eq_none_iff.mp hgl
      subst this
      simp [listPop]
    | some last =>
      have hne : rest ≠ [] := by intro h; subst h; simp at hgl
      have h1 : (a :: rest).getLast? = some last := by
        rw [List.getLast?_cons_of_ne_nil hne]; exact hgl
      have h2 : (a :: rest).dropLast = a :: rest.dropLast := by
        cases rest with
        | nil => exact absurd rfl hne
        | cons b t => rfl
      have h0 : (0 : Int) = ((0 : Nat) : Int) := rfl
      simp only [listPop, h1, h2, setItem]
      simp only [List.isEmpty_cons, Bool.not_false, if_true, List.getElem?_cons_zero, List.length_cons,
        Nat.zero_lt_succ, List.set_cons_zero]
      rw [h0, siftup_eq lt (last :: rest.dropLast) 0 (by simp)]
      simp [hgl]

/-- the loop of `heapify`: `_siftup` at `k-1, …, 0` -/
theorem heapifyLoop_eq (k : Nat) : ∀ (l : List α) (f : Nat → List α → Ctl (List α) Empty (Except Exc Unit × List α)),
    (∀ i (st : List α), i < st.length → f i st = .next (Cpy.siftup lt st.toArray i).toList) →
    k ≤ l.length →
    forLoop (List.range k).reverse l f = .next (Cpy.heapifyLoop lt k l.toArray).toList := by
  induction k with
  | zero => intro l f _ _; rfl
  | succ k ih =>
    intro l f hf hk
    have hlen : (Cpy.siftup lt l.toArray k).toList.length = l.length := by
      have := (Cpy.siftup_perm (lt := lt) l.toArray k (by simp; omega)).length_eq
      simpa using this
    rw [List.range_succ, List.reverse_append, List.reverse_singleton, List.singleton_append]
    simp only [forLoop, hf k l (by omega), Cpy.heapifyLoop]
    have := ih (Cpy.siftup lt l.toArray k).toList f hf (by omega)
    simpa using this

/-- **`heapq.heapify`** -/
theorem heapify_eq (l : List α) :
    Gen.Heapq.heapify lt l = (.ok (), Cpy.heapify lt l) := by
  unfold Gen.Heapq.heapify Cpy.heapify
  dsimp only
  rw [heapifyLoop_eq lt (l.length / 2) l _ (by intro i st hi; simp [siftup_eq lt st i hi]) (by omega)]

/-- `cpyHeap` — the heap library all container theorems are instantiated with — is `heapq.py`:
    its three entry points are the generated ones (`none` = the IndexError of `heappop([])`) -/
theorem cpyHeap_is_heapq_py (l : List α) (x : α) :
    (Gen.Heapq.heappush lt l x).2 = (cpyHeap α).push lt l x ∧
    (Gen.Heapq.heapify lt l).2 = (cpyHeap α).heapify lt l ∧
    (Gen.Heapq.heappop lt l = match (cpyHeap α).pop lt l with
      | none => (.error .indexError, l)
      | some (a, l') => (.ok a, l')) :=
  ⟨by rw [heappush_eq]; rfl, by rw [heapify_eq]; rfl, heappop_eq lt l⟩

end Asynkit.GenEqHeapq
