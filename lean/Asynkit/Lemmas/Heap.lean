/-
Helper lemmas about list heaps (no property statements here; those live in Props/).
-/
import Asynkit.Model.Heap

namespace Asynkit

/-- `lt`-sortedness in the sense "no later element is smaller than an earlier one". -/
def Sorted {α} (lt : α → α → Bool) (l : List α) : Prop :=
  l.Pairwise (fun a b => lt b a = false)

/-- The no-heapify restore branch of `ordereditems`: a sorted prefix at least as long as the
    suffix, none of whose elements is above a suffix element, followed by *any* suffix, is a heap
    (every suffix position's parent lies in the prefix). -/
theorem sorted_prefix_append_heap {α} (lt : α → α → Bool) (p h : List α)
    (hp : Sorted lt p) (hc : ∀ x ∈ p, ∀ y ∈ h, lt y x = false) (hl : h.length ≤ p.length) :
    IsHeap lt (p ++ h) := by
  intro i hi hlen
  have hpar : (i - 1) / 2 < p.length := by
    simp [List.length_append] at hlen; omega
  by_cases hip : i < p.length
  · rw [List.getElem_append_left hip, List.getElem_append_left hpar]
    exact (List.pairwise_iff_getElem.mp hp) ((i - 1) / 2) i hpar hip (by omega)
  · rw [List.getElem_append_right (by omega), List.getElem_append_left hpar]
    exact hc _ (List.getElem_mem _) _ (List.getElem_mem _)

end Asynkit
