/-
Helper lemmas about list heaps (no property statements here; those live in Props/).
-/
import Asynkit.Model.Heap
import Asynkit.Model.PQ

namespace Asynkit

/-- `lt`-sortedness in the sense "no later element is smaller than an earlier one". -/
def Sorted {α} (lt : α → α → Bool) (l : List α) : Prop :=
  l.Pairwise (fun a b => lt b a = false)

/-- The no-heapify restore branch of `ordereditems`: a sorted prefix at least as long as the
    suffix, none of whose elements is above a suffix element, followed by *any* suffix, is a heap
    (every suffix position's parent lies in the prefix). -/
theorem sorted_prefix_append_heap {α} (lt : α → α → Bool) (p h : List α)
    (hp : Sorted lt p) (hc : ∀ x ∈ p, ∀ y ∈ h, lt y x = false) (hl : h.length ≤ p.length) :
    IsHeap lt (p ++ h) := by
  intro i hi hlen
  have hpar : (i - 1) / 2 < p.length := by
    simp [List.length_append] at hlen; omega
  by_cases hip : i < p.length
  · rw [List.getElem_append_left hip, List.getElem_append_left hpar]
    exact (List.pairwise_iff_getElem.mp hp) ((i - 1) / 2) i hpar hip (by omega)
  · rw [List.getElem_append_right (by omega), List.getElem_append_left hpar]
    exact hc _ (List.getElem_mem _) _ (List.getElem_mem _)


/-- `lt` is a strict weak order (what `heapq`/`sort` need of `__lt__`). -/
structure StrictWeak {α} (lt : α → α → Bool) : Prop where
  irrefl : ∀ a, lt a a = false
  asymm : ∀ a b, lt a b = true → lt b a = false
  trans : ∀ a b c, lt a b = true → lt b c = true → lt a c = true
  negTrans : ∀ a b c, lt a b = false → lt b c = false → lt a c = false

theorem entryLt_strictWeak {π} {plt : π → π → Bool} (h : StrictWeak plt) :
    StrictWeak (Entry.lt plt) := by
  constructor
  · intro a; simp [Entry.lt, h.irrefl]
  · intro a b; simp only [Entry.lt, Bool.or_eq_true, Bool.and_eq_true, Bool.not_eq_true', decide_eq_true_eq]
    intro hab
    rcases hab with hab | ⟨hba, hs⟩
    · have := h.asymm _ _ hab; simp [this, hab]
    · simp [hba]; intro _; omega
  · intro a b c; simp only [Entry.lt, Bool.or_eq_true, Bool.and_eq_true, Bool.not_eq_true', decide_eq_true_eq]
    intro hab hbc
    rcases hab with hab | ⟨hba, hs⟩ <;> rcases hbc with hbc | ⟨hcb, hs'⟩
    · left; exact h.trans _ _ _ hab hbc
    · left
      cases hac : plt a.pri c.pri with
      | true => rfl
      | false => have := h.negTrans _ _ _ hac hcb; rw [hab] at this; cases this
    · left
      cases hac : plt a.pri c.pri with
      | true => rfl
      | false => have := h.negTrans _ _ _ hba hac; rw [hbc] at this; cases this
    · right; exact ⟨h.negTrans _ _ _ hcb hba, by omega⟩
  · intro a b c; simp only [Entry.lt, Bool.or_eq_false_iff, Bool.and_eq_false_iff, Bool.not_eq_false', decide_eq_false_iff_not]
    intro ⟨hab, hab'⟩ ⟨hbc, hbc'⟩
    refine ⟨h.negTrans _ _ _ hab hbc, ?_⟩
    rcases hab' with hba | hs
    · left
      cases hca : plt c.pri a.pri with
      | true => rfl
      | false => have := h.negTrans _ _ _ hbc hca; rw [hba] at this; cases this
    · rcases hbc' with hcb | hs'
      · left
        cases hca : plt c.pri a.pri with
        | true => rfl
        | false => have := h.negTrans _ _ _ hca hab; rw [hcb] at this; cases this
      · right; omega

variable {α : Type} {lt : α → α → Bool}

theorem isHeap_nil : IsHeap lt ([] : List α) := by intro i _ h; simp at h

theorem isHeap_singleton (a : α) : IsHeap lt [a] := by
  intro i hi h; simp at h; omega

/-- the root of a heap is minimal -/
theorem IsHeap.root_min (hs : StrictWeak lt) {l : List α} (hh : IsHeap lt l) :
    ∀ i (h : i < l.length), lt l[i] (l[0]'(by omega)) = false := by
  intro i
  induction i using Nat.strongRecOn with
  | _ i ih =>
    intro h
    by_cases hi : i = 0
    · subst hi; exact hs.irrefl _
    · have hp : (i - 1) / 2 < i := by omega
      have h1 := hh i (by omega) h
      have h2 := ih ((i - 1) / 2) hp (by omega)
      exact hs.negTrans _ _ _ h1 h2

theorem IsHeap.root_min_mem (hs : StrictWeak lt) {a : α} {l : List α} (hh : IsHeap lt (a :: l)) :
    ∀ x ∈ a :: l, lt x a = false := by
  intro x hx
  obtain ⟨i, hi, rfl⟩ := List.getElem_of_mem hx
  exact hh.root_min hs i hi

/-- heaps are prefix-closed -/
theorem IsHeap.take {l : List α} (hh : IsHeap lt l) (n : Nat) : IsHeap lt (l.take n) := by
  intro i hi h
  simp only [List.length_take] at h
  simp only [List.getElem_take]
  exact hh i hi (by omega)

theorem IsHeap.dropLast {l : List α} (hh : IsHeap lt l) : IsHeap lt l.dropLast := by
  rw [List.dropLast_eq_take]; exact hh.take _

/-- a sorted list is a heap -/
theorem Sorted.isHeap {l : List α} (hs : Sorted lt l) : IsHeap lt l := by
  have := sorted_prefix_append_heap lt l [] hs (by simp) (by simp)
  simpa using this


theorem srtInsert_perm (x : α) (l : List α) : (Srt.insert lt x l).Perm (x :: l) := by
  induction l with
  | nil => simp [Srt.insert]
  | cons y ys ih =>
    simp only [Srt.insert]; split
    · exact List.Perm.refl _
    · exact (List.Perm.cons y ih).trans (List.Perm.swap x y ys)

theorem srtSort_perm (l : List α) : (Srt.sort lt l).Perm l := by
  induction l with
  | nil => simp [Srt.sort]
  | cons x xs ih => simp only [Srt.sort]; exact (srtInsert_perm x _).trans (List.Perm.cons x ih)

theorem srtInsert_sorted (hs : StrictWeak lt) (x : α) {l : List α} (h : Sorted lt l) :
    Sorted lt (Srt.insert lt x l) := by
  induction l with
  | nil => simp [Srt.insert, Sorted]
  | cons y ys ih =>
    have hy := List.pairwise_cons.mp h
    simp only [Srt.insert]; split
    · rename_i hxy
      refine List.pairwise_cons.mpr ⟨?_, h⟩
      intro z hz
      rcases List.mem_cons.mp hz with rfl | hz
      · exact hs.asymm _ _ hxy
      · exact hs.negTrans _ _ _ (hy.1 z hz) (hs.asymm _ _ hxy)
    · rename_i hxy
      refine List.pairwise_cons.mpr ⟨?_, ih hy.2⟩
      intro z hz
      rcases List.mem_cons.mp ((srtInsert_perm x ys).subset hz) with rfl | hz
      · simpa using hxy
      · exact hy.1 z hz

theorem srtSort_sorted (hs : StrictWeak lt) (l : List α) : Sorted lt (Srt.sort lt l) := by
  induction l with
  | nil => simp [Srt.sort, Sorted]
  | cons x xs ih => exact srtInsert_sorted hs x ih

/-- `HeapLib.Lawful` is satisfiable: the sort-everything heap library meets it. -/
theorem sortedHeap_lawful (hs : StrictWeak lt) : (sortedHeap α).Lawful lt where
  push_perm _ _ := srtSort_perm _
  push_heap _ _ _ := (srtSort_sorted hs _).isHeap
  pop_nil := rfl
  pop_cons _ l := ⟨Srt.sort lt l, rfl, srtSort_perm _, fun _ => (srtSort_sorted hs _).isHeap⟩
  heapify_perm _ := srtSort_perm _
  heapify_heap _ := (srtSort_sorted hs _).isHeap

end Asynkit
