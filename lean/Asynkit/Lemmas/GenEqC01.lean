/-
GenEqC01 — the definitions regenerated from src/asynkit/coroutine.py / tools.py on every run
(lean/Asynkit/Gen/CoroStart.lean, translator/corostart2lean.py) equal the hand-written model the C01 / C03
theorems are about (Model/EagerKernel.lean, `Fix.repaired`), for every body, state and argument.

The generated code is parametric in a runtime `Rt κ Φ`; `rt b` instantiates it with the kernel model's
coroutine object and futures.
-/
import Asynkit.Gen.CoroStart
import Asynkit.Lemmas.C01Eager

namespace Asynkit.GenEqC01
open Asynkit.Proto Asynkit.Eager Asynkit.Gen.CoroStart

/-- `getattr(obj, "_asyncio_future_blocking", None)`: only Futures have the attribute -/
def yFlag : Y → Futs → Option Bool
  | .fut f, F => some (F f).blocking
  | _, _ => none

def ySetFlag : Y → Bool → Futs → Futs
  | .fut f, b, F => setFlag F f b
  | _, _, F => F

/-- `getattr(obj, "cancel", None)` and its call -/
def yCancel : Y → Futs → Option (Bool × Futs)
  | .fut f, F => some ((futCancel F f).2, (futCancel F f).1)
  | _, _ => none

/-- the kernel model as the runtime of the generated code -/
def rt (b : VBody) : Rt (Co b.σ) Futs where
  send c v F := Co.resume b c (.send v) F
  throw c e F := Co.resume b c (.throw e) F
  close c F := (c, .ret 0, F)          -- a Task never closes its coroutine: not used by the kernel model
  flag := yFlag
  setFlag := ySetFlag
  cancel := yCancel
  plainCancelled e := e == .cancelled 0

@[simp] theorem rt_flag (b : VBody) : (rt b).flag = yFlag := rfl
@[simp] theorem rt_setFlag (b : VBody) : (rt b).setFlag = ySetFlag := rfl
@[simp] theorem rt_cancel (b : VBody) : (rt b).cancel = yCancel := rfl

/-- a completed future for an outcome (`as_future`) -/
def futOf : Out → FutureVal
  | .ret v => .result v
  | .raise (.stopIter v) => .result v
  | .raise e => .exception e
  | .yield _ => .pending

/-- the world before `coro_eager(coro)` -/
def w0 (b : VBody) (F : Futs) : W (Co b.σ) Futs := { c := Co.start b, F := F, sr := none }

/-- the world a continuation state stands for -/
def wOf {σ : Type} (k : Cont σ) (F : Futs) (n : Nat) : W (Co σ) Futs :=
  match k with
  | .unstarted co held => { c := co, F := F, sr := some (held, none), pc := .absent, cancels := n }
  | .relay co => { c := co, F := F, sr := none, pc := .at 0, cancels := n }
  | .dead co => { c := co, F := F, sr := none, pc := .finished, cancels := n }

theorem ySetFlag_clear (y : Y) (F : Futs) :
    (if yFlag y F == some true then ySetFlag y false F else F)
      = match y with
        | .fut f => setFlag F f false
        | _ => F := by
  cases y with
  | bare => rfl
  | tok n => rfl
  | fut f =>
    simp only [yFlag, ySetFlag]
    by_cases h : (F f).blocking = true
    · simp [h]
    · have h' : (F f).blocking = false := by simpa using h
      simp [h', setFlag_self F f h']

/-- **`coro_eager`** (with `CoroStart.__init__/_start/done/as_future`, `_Continuation.__init__`) is the model's
    `eagerRun`: the same decision (completed future without a Task / Task over the continuation, through
    the factory iff one was given), the same coroutine object, futures (flag cleared on capture) and
    `start_result`. -/
theorem coroEager_eq (b : VBody) (F : Futs) (tf : Bool) :
    match eagerRun .repaired b F with
    | .task k =>
      ∃ held, k = ⟨.unstarted k.co.co held, {}, k.futs⟩
        ∧ coroEager (rt b) (w0 b F) tf = .ok (.task tf) (wOf k.co k.futs 0)
    | .future co out F' =>
      coroEager (rt b) (w0 b F) tf
        = .ok (.future (futOf out)) { c := co, F := F', sr := some (.bare, some (match out with
            | .ret v => .stopIter v
            | .raise e => e
            | .yield _ => .typeErr)) } := by
  rcases hx : Co.resume b (Co.start b) (.send 0) F with ⟨c', out, F'⟩
  have hs : (rt b).send (Co.start b) 0 F = (c', out, F') := hx
  simp only [eagerRun, hx, coroEager, init, start, w0, hs, done, asFuture, contInit]
  cases out with
  | yield y =>
    simp only
    cases y with
    | bare => exact ⟨.bare, rfl, by cases tf <;> simp [rt, yFlag, wOf]⟩
    | tok n => exact ⟨.tok n, rfl, by cases tf <;> simp [rt, yFlag, wOf]⟩
    | fut f =>
      refine ⟨.fut f, rfl, ?_⟩
      simp only [Fix.repaired, if_true, wOf, rt]
      by_cases hb : (F' f).blocking = true
      · simp [yFlag, ySetFlag, hb]
        cases tf <;> rfl
      · have hb' : (F' f).blocking = false := by simpa using hb
        simp [yFlag, hb', setFlag_self F' f hb']
        cases tf <;> rfl
  | ret v => simp [futOf]
  | raise e =>
    cases e <;> simp [futOf]

/-- what a Task does to the continuation, in terms of the generated `_Continuation.send/throw`
    (`Task` calls `coro.send(None)` / `coro.throw(exc)`) -/
def contStep {κ Φ : Type} (R : Rt κ Φ) (w : W κ Φ) : KRes → Res Y κ Φ
  | .send => contSend R w 0
  | .throw e => contThrow R w e.toExc

/-- the model's answer `(continuation state, Out, futures)` as the generated code reports it -/
def ofModel {σ : Type} (x : Cont σ × Out × Futs) (n : Nat) : Res Y (Co σ) Futs :=
  match x.2.1 with
  | .yield y => .ok y (wOf x.1 x.2.2 n)
  | .ret v => .err (.stopIter v) { wOf x.1 x.2.2 n with pc := .finished }
  | .raise e => .err e { wOf x.1 x.2.2 n with pc := .finished }

theorem toExc_ne_genExit (e : KExc) : e.toExc ≠ .genExit := by cases e <;> simp [KExc.toExc]

theorem plainCancelled_iff (b : VBody) (e : KExc) :
    (rt b).plainCancelled e.toExc = (match e with | .cancelled => true | _ => false) := by
  cases e <;> simp [rt, KExc.toExc]

/-- the relay loop of `CoroStart.__await__` (resumed at its yield by send / throw) is the model's `relayStep` -/
theorem relay_eq (b : VBody) (co : Co b.σ) (F : Futs) (n : Nat) (r : KRes) :
    contStep (rt b) (wOf (.relay co) F n) r = ofModel (contResume .repaired b (.relay co) r F) n := by
  cases r with
  | send =>
    simp only [contStep, contSend, wOf, genSend, awaitResume, finish, contResume, relayStep, ofModel, rt,
      KRes.toResume]
    rcases Co.resume b co (.send 0) F with ⟨c', out, F'⟩
    cases out with
    | yield y => simp
    | ret v => simp
    | raise e => cases e <;> simp
  | throw e =>
    have hne := toExc_ne_genExit e
    simp only [contStep, contThrow, wOf, genThrow, awaitResume, finish, contResume, relayStep, ofModel, rt,
      KRes.toResume]
    have : (GenPc.at 0 = GenPc.absent) = False := by simp
    simp only [this, if_false]
    cases e <;>
    · simp only [KExc.toExc]
      rcases Co.resume b co (.throw _) F with ⟨c', out, F'⟩
      cases out with
      | yield y => simp
      | ret v => simp
      | raise e => cases e <;> simp

theorem futCancel_setFlag (F : Futs) (f : Nat) (b : Bool) :
    futCancel (setFlag F f b) f = (setFlag (futCancel F f).1 f b, (futCancel F f).2) := by
  unfold futCancel
  have hst : (setFlag F f b f).st = (F f).st := setFlag_st F f f b
  have hit : (setFlag F f b f).isTask = (F f).isTask := by simp [setFlag, Futs.set]
  rw [hst, hit]
  cases (F f).st with
  | pending =>
    simp only
    by_cases ht : (F f).isTask = true
    · simp only [ht, if_true]
      refine Prod.ext ?_ rfl
      funext g; by_cases hg : g = f <;> simp [setFlag, Futs.set, hg, ht]
    · simp only [ht]
      refine Prod.ext ?_ rfl
      funext g; by_cases hg : g = f <;> simp [setFlag, Futs.set, hg, ht]
  | result v => rfl
  | exc e => rfl
  | cancelled => rfl

theorem rearm_eq (held : Y) (F : Futs) :
    (if (yFlag held F).isNone then F else ySetFlag held true F) = rearmHeld .repaired held F := by
  cases held <;> simp [yFlag, ySetFlag, rearmHeld, Fix.repaired]

/-- taking back the flag of a re-armed held object gives the futures as they were, when the flag was
    clear before (the invariant of the window, `HeldOk`) -/
theorem takeback_eq (held : Y) (F : Futs) (hok : HeldOk held F) :
    (if yFlag held (rearmHeld .repaired held F) == some true
      then ySetFlag held false (rearmHeld .repaired held F) else rearmHeld .repaired held F) = F := by
  cases held with
  | bare => simp [yFlag, rearmHeld]
  | tok n => simp [yFlag, rearmHeld]
  | fut f =>
    have h0 := hok f rfl
    simp [yFlag, ySetFlag, rearmHeld, Fix.repaired, setFlag_setFlag, setFlag_self F f h0]

/-- **first step of the continuation** (`_Continuation.send/throw` with `gen is None`, entry segment of
    `__await__`, the cancel-before-first-step logic) is the model's `contResume` on `unstarted` -/
theorem unstarted_eq (b : VBody) (co : Co b.σ) (held : Y) (F : Futs) (n : Nat) (r : KRes)
    (hok : HeldOk held F) :
    contStep (rt b) (wOf (.unstarted co held) F n) r
      = ofModel (contResume .repaired b (.unstarted co held) r F) n := by
  have hentry : ∀ pc, awaitEntry (rt b) { c := co, F := F, sr := some (held, none), pc := pc, cancels := n }
      = .yielded held { c := co, F := rearmHeld .repaired held F, sr := none, pc := .at 0, cancels := n } := by
    intro pc
    simp only [awaitEntry, rt]
    rw [← rearm_eq]
    by_cases h : (yFlag held F).isNone = true <;> simp [h]
  cases r with
  | send =>
    simp only [contStep, contSend, wOf, genSend, finish, contResume, ofModel]
    simp [hentry]
  | throw e =>
    have hrel : ∀ F', contThrow (rt b) { c := co, F := F', sr := none, pc := .at 0, cancels := n } e.toExc
        = ofModel (contResume .repaired b (.relay co) (.throw e) F') n := fun F' => relay_eq b co F' n (.throw e)
    simp only [contThrow] at hrel
    have habs : (GenPc.at 0 = GenPc.absent) = False := by simp
    simp only [habs, if_false] at hrel
    simp only [contStep, contThrow, wOf, genSend, finish]
    simp only [if_true, hentry, ne_eq, not_true_eq_false, if_false]
    rw [plainCancelled_iff]
    cases held with
    | bare =>
      simp only [rt_flag, rt_cancel, rt_setFlag, yFlag, yCancel, rearmHeld, contResume, Fix.repaired, if_true]
      cases e <;> simp [hrel, contResume]
    | tok m =>
      simp only [rt_flag, rt_cancel, rt_setFlag, yFlag, yCancel, rearmHeld, contResume, Fix.repaired, if_true]
      cases e <;> simp [hrel, contResume]
    | fut f =>
      have h0 := hok f rfl
      have hF : setFlag (setFlag F f true) f false = F := by rw [setFlag_setFlag, setFlag_self F f h0]
      simp only [rt_flag, rt_cancel, rt_setFlag, yFlag, yCancel, ySetFlag, rearmHeld, contResume, Fix.repaired,
        if_true, setFlag_same]
      cases e with
      | rt t => simp [hF, hrel, contResume]
      | other k => simp [hF, hrel, contResume]
      | cancelled =>
        have hc := futCancel_setFlag F f true
        simp only [hc, hF, hrel, contResume]
        by_cases h2 : (futCancel F f).2 = true
        · simp [h2, ofModel, wOf, rearmHeld, Fix.repaired]
        · have h2' : (futCancel F f).2 = false := by simpa using h2
          have h1 : (futCancel F f).1 = F := by
            revert h2'; unfold futCancel; split
            · split <;> simp
            · intro _; rfl
          simp [h2', h1, hF, hrel, contResume, Fix.repaired]

/-- every step of the continuation Task's coroutine object, whatever its state (the window's invariant
    `HeldOk` for the not-yet-resumed one): generated `_Continuation.send/throw` = model `contResume` -/
theorem cont_eq (b : VBody) (k : Cont b.σ) (F : Futs) (n : Nat) (r : KRes)
    (hk : match k with
      | .unstarted _ held => HeldOk held F
      | .relay _ => True
      | .dead _ => False) :
    contStep (rt b) (wOf k F n) r = ofModel (contResume .repaired b k r F) n := by
  cases k with
  | unstarted co held => exact unstarted_eq b co held F n r hk
  | relay co => exact relay_eq b co F n r
  | dead co => exact hk.elim

/-- **`CoroStart.throw(exc)`** (default `tries = 1`) over the kernel runtime: the exception is thrown into
    the coroutine; if it answers with another yield the blocking flag of the yielded future is cleared
    (fix 7bda94b: the future is abandoned, not passed to a Task) and RuntimeError("coroutine ignored …")
    is raised; `StopIteration` is the return value; anything else propagates. -/
theorem throw_eq (b : VBody) (w : W (Co b.σ) Futs) (e : Exc) :
    Gen.CoroStart.throw (rt b) w e 1 =
      (match Co.resume b w.c (.throw e) w.F with
       | (c', .yield y, F') =>
         .err rtIgnored { w with c := c', F := (match y with
           | .fut f => setFlag F' f false
           | _ => F') }
       | (c', .ret v, F') => .ok v { w with c := c', F := F' }
       | (c', .raise (.stopIter v), F') => .ok v { w with c := c', F := F' }
       | (c', .raise x, F') => .err x { w with c := c', F := F' }) := by
  rcases hx : Co.resume b w.c (.throw e) w.F with ⟨c', o, F'⟩
  have hs : (rt b).throw w.c e w.F = (c', o, F') := hx
  simp only [Gen.CoroStart.throw, Gen.CoroStart.throwLoop, hs]
  cases o with
  | yield y =>
    cases y with
    | bare => simp [yFlag]
    | tok n => simp [yFlag]
    | fut f =>
      by_cases hb : (F' f).blocking = true
      · simp [yFlag, ySetFlag, hb]
      · have hb' : (F' f).blocking = false := by simpa using hb
        simp [yFlag, hb', setFlag_self F' f hb']
  | ret v => simp
  | raise x => cases x <;> simp

/-! ### the API variants and the `cancelling()` block -/

def outW {κ Φ : Type} : GOut κ Φ → W κ Φ
  | .yielded _ w => w
  | .returned _ w => w
  | .raised _ w => w
  | .awaitSelf w => w
  | .awaiting _ _ w => w

/-- `eager_ctx(coro)` is `coro_eager(coro)` (wrapped in `cancelling`), `func_eager(f)(*a)` is
    `coro_eager(f(*a))`, `eager(x)` dispatches on the kind of `x` (0 = coroutine, 1 = function) -/
theorem eagerCtx_eq {κ Φ : Type} (R : Rt κ Φ) (w : W κ Φ) (tf : Bool) :
    eagerCtx R w tf = (match coroEager R w tf with
      | .ok o w' => .ok (.cancelling o) w'
      | .err e w' => .err e w') := by
  unfold eagerCtx; cases coroEager R w tf <;> rfl

theorem funcEager_eq {κ Φ : Type} (R : Rt κ Φ) (w : W κ Φ) (tf : Bool) :
    funcEagerWrapper R w tf = coroEager R w tf := by
  unfold funcEagerWrapper; cases coroEager R w tf <;> rfl

theorem eager_eq {κ Φ : Type} (R : Rt κ Φ) (w : W κ Φ) (kind : Nat) (tf : Bool) :
    eager R w kind tf =
      if kind = 0 then (match coroEager R w tf with
        | .ok o w' => .ok (.direct o) w'
        | .err e w' => .err e w')
      else if kind = 1 then .ok .decorated w else .err excTypeError w := by
  unfold eager
  by_cases h0 : kind = 0
  · simp [h0]; cases coroEager R w tf <;> rfl
  · by_cases h1 : kind = 1 <;> simp [h0, h1]

/-- **`cancelling()`**: entering the block yields the target without touching it; leaving it — normally
    (`send`) or by an exception (`throw e`, re-raised) — calls `target.cancel()` exactly once: the model's
    `Ev.cancel` at the block exit, unconditionally. -/
theorem cancelling_eq {κ Φ : Type} (R : Rt κ Φ) (w : W κ Φ) :
    cancellingEntry R w = .yielded (.tok 0) { w with pc := .at 0 }
    ∧ (∀ v, cancellingResume R w 0 (.send v) = .returned 0 { w with cancels := w.cancels + 1 })
    ∧ (∀ e, cancellingResume R w 0 (.throw e) = .raised e { w with cancels := w.cancels + 1 }) :=
  ⟨rfl, fun _ => rfl, fun _ => rfl⟩

end Asynkit.GenEqC01
