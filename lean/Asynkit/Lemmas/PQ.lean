/-
Refinement lemmas for `Model/PQ`: every operation of `tools.PriorityQueue` preserves the relation
`PQ.R` with the arrival-ordered specification list (helper lemmas; property statements are in
Props/C17.lean).
-/
import Asynkit.Lemmas.Heap

namespace Asynkit
variable {α : Type} {π : Type} {H : HeapLib (Entry π)} {plt : π → π → Bool}

structure PQ.R (plt : π → π → Bool) (s : PQ π) (L : List (Entry π)) : Prop where
  perm  : s.pq.Perm L
  heap  : IsHeap (Entry.lt plt) s.pq
  inc   : L.Pairwise (fun a b => a.seq < b.seq)
  bound : ∀ e ∈ L, e.seq < s.seq

theorem Entry.lt_total {a b : Entry π} (h1 : Entry.lt plt a b = false) (h2 : Entry.lt plt b a = false) :
    a.seq = b.seq := by
  simp only [Entry.lt, Bool.or_eq_false_iff, Bool.and_eq_false_iff, Bool.not_eq_false',
    decide_eq_false_iff_not] at h1 h2
  rcases h1 with ⟨h1a, h1b⟩
  rcases h2 with ⟨h2a, h2b⟩
  rcases h1b with h | h
  · rw [h2a] at h; cases h
  · rcases h2b with h' | h'
    · rw [h1a] at h'; cases h'
    · omega

theorem inc_seq_nodup {L : List (Entry π)} (h : L.Pairwise (fun a b => a.seq < b.seq)) :
    (L.map (·.seq)).Nodup := by
  rw [List.Nodup, List.pairwise_map]
  exact h.imp (fun hab => by omega)

theorem inc_inj {L : List (Entry π)} (h : L.Pairwise (fun a b => a.seq < b.seq)) :
    ∀ a ∈ L, ∀ b ∈ L, a.seq = b.seq → a = b := by
  induction h with
  | nil => intro a ha; cases ha
  | @cons x l hx _ ih =>
    intro a ha b hb hab
    rw [List.mem_cons] at ha hb
    cases ha with
    | inl ha =>
      cases hb with
      | inl hb => rw [ha, hb]
      | inr hb => have := hx b hb; rw [← ha] at this; omega
    | inr ha =>
      cases hb with
      | inl hb => have := hx a ha; rw [← hb] at this; omega
      | inr hb => exact ih a ha b hb hab

theorem perm_filter_remove {a : Entry π} {l L : List (Entry π)} (hp : (a :: l).Perm L)
    (hinc : L.Pairwise (fun a b => a.seq < b.seq)) :
    l.Perm (L.filter (fun x => x.seq != a.seq)) := by
  have hnd : ((a :: l).map (·.seq)).Nodup := (hp.map _).nodup_iff.mpr (inc_seq_nodup hinc)
  have hne : ∀ x ∈ l, x.seq ≠ a.seq := by
    intro x hx heq
    simp only [List.map_cons, List.nodup_cons, List.mem_map, not_exists, not_and] at hnd
    exact hnd.1 x hx heq
  have h1 := hp.filter (fun x => x.seq != a.seq)
  have h2 : (a :: l).filter (fun x => x.seq != a.seq) = l := by
    rw [List.filter_cons_of_neg (by simp)]
    exact List.filter_eq_self.mpr (fun x hx => by simpa using hne x hx)
  rw [h2] at h1; exact h1

theorem min_unique {L : List (Entry π)} (hinc : L.Pairwise (fun a b => a.seq < b.seq))
    {e e' : Entry π} (he : e ∈ L) (he' : e' ∈ L)
    (hm : ∀ x ∈ L, Entry.lt plt x e = false) (hm' : ∀ x ∈ L, Entry.lt plt x e' = false) : e = e' :=
  inc_inj hinc e he e' he' (Entry.lt_total (hm' e he) (hm e' he'))

theorem PQ.R.empty : PQ.R plt (PQ.empty : PQ π) [] :=
  ⟨List.Perm.refl _, isHeap_nil, List.Pairwise.nil, by simp⟩

theorem PQ.R.add (hl : H.Lawful (Entry.lt plt)) {s : PQ π} {L} (h : PQ.R plt s L) (p : π) (x : Nat) :
    PQ.R plt (s.add H plt p x) (L ++ [⟨p, s.seq, x⟩]) := by
  refine ⟨?_, hl.push_heap _ _ h.heap, ?_, ?_⟩
  · exact (hl.push_perm _ _).trans ((List.Perm.cons _ h.perm).trans (List.perm_append_singleton _ _).symm)
  · rw [List.pairwise_append]
    refine ⟨h.inc, by simp, ?_⟩
    intro a ha b hb
    simp at hb; subst hb
    exact h.bound a ha
  · intro e he
    simp only [PQ.add]
    rcases List.mem_append.mp he with he | he
    · have := h.bound e he; omega
    · simp at he; subst he; simp

theorem inc_filter {L : List (Entry π)} (h : L.Pairwise (fun a b => a.seq < b.seq)) (p) :
    (L.filter p).Pairwise (fun a b => a.seq < b.seq) := h.sublist List.filter_sublist

theorem PQ.R.pop (hs : StrictWeak plt) (hl : H.Lawful (Entry.lt plt)) {s : PQ π} {L}
    (h : PQ.R plt s L) :
    (L = [] ∧ s.popEntry H plt = none) ∨
    ∃ e s', s.popEntry H plt = some (e, s') ∧ e ∈ L ∧ (∀ x ∈ L, Entry.lt plt x e = false) ∧
      PQ.R plt s' (L.filter (fun x => x.seq != e.seq)) := by
  obtain ⟨seq, pq⟩ := s
  cases pq with
  | nil =>
    left
    have : L = [] := by have := h.perm; simpa using this.symm
    exact ⟨this, by simp [PQ.popEntry, hl.pop_nil]⟩
  | cons a l =>
    right
    obtain ⟨l', hpop, hperm, hheap⟩ := hl.pop_cons a l
    have hswE := entryLt_strictWeak hs
    refine ⟨a, PQ.resetIfEmpty seq l', by simp [PQ.popEntry, hpop], h.perm.subset (by simp), ?_, ?_⟩
    · intro x hx
      exact IsHeap.root_min_mem hswE h.heap x (h.perm.symm.subset hx)
    · have hp2 : l'.Perm (L.filter (fun x => x.seq != a.seq)) :=
        hperm.trans (perm_filter_remove h.perm h.inc)
      refine ⟨hp2, hheap h.heap, inc_filter h.inc _, ?_⟩
      intro e he
      have hb := h.bound e ((List.mem_filter.mp he).1)
      have : l' ≠ [] := by
        intro hnil; rw [hnil] at hp2; have h0 := hp2.symm.eq_nil; rw [h0] at he; cases he
      simp only [PQ.resetIfEmpty]
      have : l'.isEmpty = false := by cases l' <;> simp_all
      simpa [this] using hb

theorem cons_eraseIdx_perm : ∀ (l : List α) (i : Nat) (h : i < l.length),
    (l[i] :: l.eraseIdx i).Perm l
  | a :: t, 0, _ => by simp
  | a :: t, i + 1, h => by
    have h' : i < t.length := by simpa using h
    have ih := cons_eraseIdx_perm t i h'
    simp only [List.getElem_cons_succ, List.eraseIdx_cons_succ]
    exact (List.Perm.swap a t[i] _).trans (List.Perm.cons a ih)

theorem set_perm_eraseIdx : ∀ (init : List α) (last : α) (i : Nat), i < init.length →
    (init.set i last).Perm ((init ++ [last]).eraseIdx i)
  | [], _, _, h => by simp at h
  | a :: t, last, 0, _ => by
    simp only [List.set_cons_zero, List.cons_append, List.eraseIdx_zero, List.tail_cons]
    exact (List.perm_append_singleton _ _).symm
  | a :: t, last, i + 1, h => by
    simp only [List.set_cons_succ, List.cons_append, List.eraseIdx_cons_succ]
    exact List.Perm.cons a (set_perm_eraseIdx t last i (by simpa using h))

theorem replaceWithTail_perm (l : List (Entry π)) (i : Nat) (h : i + 1 < l.length) :
    (PQ.replaceWithTail l i).Perm (l.eraseIdx i) := by
  unfold PQ.replaceWithTail
  cases hl : l.getLast? with
  | none => simp at hl; subst hl; simp at h
  | some last =>
    obtain ⟨ys, rfl⟩ := List.getLast?_eq_some_iff.mp hl
    simp only [List.dropLast_concat]
    exact set_perm_eraseIdx ys last i (by simp at h; omega)

theorem PQ.R.erase_at {s : PQ π} {L} (h : PQ.R plt s L) (i : Nat) (hi : i < s.pq.length)
    (l' : List (Entry π)) (seq' : Nat) (hp : l'.Perm (s.pq.eraseIdx i))
    (hh : IsHeap (Entry.lt plt) l') (hseq : seq' = s.seq ∨ l' = []) :
    PQ.R plt ⟨seq', l'⟩ (L.filter (fun x => x.seq != (s.pq[i]).seq)) := by
  have h1 : (s.pq[i] :: s.pq.eraseIdx i).Perm L := (cons_eraseIdx_perm s.pq i hi).trans h.perm
  have hp2 : l'.Perm (L.filter (fun x => x.seq != (s.pq[i]).seq)) :=
    hp.trans (perm_filter_remove h1 h.inc)
  refine ⟨hp2, hh, inc_filter h.inc _, ?_⟩
  intro e he
  rcases hseq with hseq | hnil
  · simpa [hseq] using h.bound e (List.mem_filter.mp he).1
  · rw [hnil] at hp2; rw [hp2.symm.eq_nil] at he; cases he

theorem resetIfEmpty_ok (seq : Nat) (l : List (Entry π)) :
    (PQ.resetIfEmpty seq l).pq = l ∧ ((PQ.resetIfEmpty seq l).seq = seq ∨ l = []) := by
  cases l <;> simp [PQ.resetIfEmpty]

theorem indexOfObj_some {l : List (Entry π)} {x i : Nat} (h : PQ.indexOfObj l x = some i) :
    ∃ hi : i < l.length, (l[i]).obj = x := by
  unfold PQ.indexOfObj at h
  simp only at h
  split at h
  · rename_i hlt
    cases h
    exact ⟨hlt, by simpa using @List.findIdx_getElem _ (fun e : Entry π => e.obj == x) l hlt⟩
  · cases h

theorem indexOfObj_none {l : List (Entry π)} {x : Nat} (h : PQ.indexOfObj l x = none) :
    ∀ e ∈ l, e.obj ≠ x := by
  unfold PQ.indexOfObj at h
  simp only at h
  split at h
  · cases h
  · rename_i hnlt
    have hle := @List.findIdx_le_length _ (fun e : Entry π => e.obj == x) l
    have : List.findIdx (fun e => e.obj == x) l = l.length := by omega
    rw [List.findIdx_eq_length] at this
    intro e he hex
    have := this e he
    simp [hex] at this

theorem PQ.R.remove (hl : H.Lawful (Entry.lt plt)) {s : PQ π} {L}
    (h : PQ.R plt s L) (x : Nat) :
    match s.remove H plt x with
    | none => ∀ e ∈ L, e.obj ≠ x
    | some (e, s') => e ∈ L ∧ e.obj = x ∧ PQ.R plt s' (L.filter (fun y => y.seq != e.seq)) := by
  unfold PQ.remove
  cases hidx : PQ.indexOfObj s.pq x with
  | none =>
    simp only
    intro e he
    exact indexOfObj_none hidx e (h.perm.symm.subset he)
  | some i =>
    obtain ⟨hi, hobj⟩ := indexOfObj_some hidx
    simp only [List.getElem?_eq_getElem hi]
    have hmem : s.pq[i] ∈ L := h.perm.subset (List.getElem_mem _)
    by_cases h0 : i = 0
    · subst h0
      obtain ⟨seq, pq⟩ := s
      cases pq with
      | nil => simp at hi
      | cons a l =>
        obtain ⟨l', hpop, hperm, hheap⟩ := hl.pop_cons a l
        simp only [hpop, beq_self_eq_true, if_true]
        have hr := resetIfEmpty_ok seq l'
        refine ⟨by simpa using hmem, by simpa using hobj, ?_⟩
        have := PQ.R.erase_at h 0 hi l' (PQ.resetIfEmpty seq l').seq (by simpa using hperm) (hheap h.heap)
          (by simpa using hr.2)
        simpa [PQ.resetIfEmpty] using this
    · have hb0 : (i == 0) = false := by simpa using h0
      simp only [hb0]
      by_cases ht : i = s.pq.length - 1
      · have hbt : (i == s.pq.length - 1) = true := by simpa using ht
        simp only [hbt, if_true]
        have hr := resetIfEmpty_ok s.seq s.pq.dropLast
        refine ⟨hmem, hobj, ?_⟩
        have := PQ.R.erase_at h i hi s.pq.dropLast (PQ.resetIfEmpty s.seq s.pq.dropLast).seq
          (by rw [ht, List.eraseIdx_length_sub_one]) h.heap.dropLast hr.2
        simpa [PQ.resetIfEmpty] using this
      · have hbt : (i == s.pq.length - 1) = false := by simpa using ht
        simp only [hbt]
        have hr := resetIfEmpty_ok s.seq (H.heapify (Entry.lt plt) (PQ.replaceWithTail s.pq i))
        refine ⟨hmem, hobj, ?_⟩
        have := PQ.R.erase_at h i hi _ (PQ.resetIfEmpty s.seq (H.heapify (Entry.lt plt) (PQ.replaceWithTail s.pq i))).seq
          ((hl.heapify_perm _).trans (replaceWithTail_perm s.pq i (by omega))) (hl.heapify_heap _) hr.2
        simpa [PQ.resetIfEmpty] using this

theorem revIndex_some {l : List (Entry π)} {key : Nat → Bool} {i : Nat}
    (h : PQ.revIndex l key = some i) :
    ∃ hi : l.length - i - 1 < l.length, i < l.length ∧ key (l[l.length - i - 1]).obj = true := by
  unfold PQ.revIndex at h
  simp only at h
  split at h
  · rename_i hlt
    cases h
    have hk := @List.findIdx_getElem _ (fun e : Entry π => key e.obj) l.reverse hlt
    simp only [List.length_reverse] at hlt
    rw [List.getElem_reverse] at hk
    refine ⟨by omega, hlt, ?_⟩
    simpa [Nat.sub_right_comm] using hk
  · cases h

theorem revIndex_none {l : List (Entry π)} {key : Nat → Bool} (h : PQ.revIndex l key = none) :
    ∀ e ∈ l, key e.obj = false := by
  unfold PQ.revIndex at h
  simp only at h
  split at h
  · cases h
  · rename_i hnlt
    have hle := @List.findIdx_le_length _ (fun e : Entry π => key e.obj) l.reverse
    have : List.findIdx (fun e => key e.obj) l.reverse = l.reverse.length := by omega
    rw [List.findIdx_eq_length] at this
    intro e he
    exact this e (List.mem_reverse.mpr he)

theorem PQ.R.find (hl : H.Lawful (Entry.lt plt)) {s : PQ π} {L}
    (h : PQ.R plt s L) (key : Nat → Bool) (rm : Bool) :
    match s.find H plt key rm with
    | (none, s') => s' = s ∧ ∀ e ∈ L, key e.obj = false
    | (some e, s') => e ∈ L ∧ key e.obj = true ∧
        if rm then PQ.R plt s' (L.filter (fun y => y.seq != e.seq)) else s' = s := by
  unfold PQ.find
  cases hidx : PQ.revIndex s.pq key with
  | none =>
    simp only
    exact ⟨trivial, fun e he => revIndex_none hidx e (h.perm.symm.subset he)⟩
  | some i =>
    obtain ⟨hi, hil, hkey⟩ := revIndex_some hidx
    simp only [List.getElem?_eq_getElem hi]
    have hmem : s.pq[s.pq.length - i - 1] ∈ L := h.perm.subset (List.getElem_mem _)
    cases rm with
    | false => simp only [Bool.false_eq_true, if_false]; exact ⟨hmem, hkey, trivial⟩
    | true =>
      simp only [if_true]
      by_cases h0 : i = 0
      · have hb : (i != 0) = false := by simp [h0]
        simp only [hb, Bool.false_eq_true, if_false]
        have hr := resetIfEmpty_ok s.seq s.pq.dropLast
        refine ⟨hmem, hkey, ?_⟩
        have := PQ.R.erase_at h (s.pq.length - i - 1) hi s.pq.dropLast
          (PQ.resetIfEmpty s.seq s.pq.dropLast).seq
          (by subst h0; simp) h.heap.dropLast hr.2
        simpa [PQ.resetIfEmpty] using this
      · have hb : (i != 0) = true := by simp [h0]
        simp only [hb, if_true]
        refine ⟨hmem, hkey, ?_⟩
        exact PQ.R.erase_at h (s.pq.length - i - 1) hi _ s.seq
          ((hl.heapify_perm _).trans (replaceWithTail_perm s.pq _ (by omega))) (hl.heapify_heap _)
          (Or.inl rfl)

def specResched (L : List (Entry π)) (seq : Nat) (np : π) : List (Entry π) :=
  L.map (fun y => if y.seq = seq then { y with pri := np } else y)

theorem set_eq_map_of_nodup {l : List (Entry π)} (hnd : (l.map (·.seq)).Nodup) (i : Nat)
    (hi : i < l.length) (np : π) :
    l.set i { l[i] with pri := np } = specResched l (l[i]).seq np := by
  apply List.ext_getElem
  · simp [specResched]
  · intro j h1 h2
    simp only [specResched, List.getElem_map, List.getElem_set]
    by_cases hji : i = j
    · subst hji; simp
    · simp only [hji, if_false]
      have hj : j < l.length := by simpa [specResched] using h2
      have hp := List.pairwise_iff_getElem.mp (List.pairwise_map.mp hnd)
      have : (l[j]).seq ≠ (l[i]).seq := by
        rcases Nat.lt_or_gt_of_ne hji with hlt | hgt
        · exact fun heq => hp i j hi hj hlt heq.symm
        · exact hp j i hj hi hgt
      simp [this]

theorem PQ.R.reschedule (hl : H.Lawful (Entry.lt plt)) {s : PQ π} {L}
    (h : PQ.R plt s L) (key : Nat → Bool) (np : π) :
    match s.reschedule H plt key np with
    | (none, s') => s' = s ∧ ∀ e ∈ L, key e.obj = false
    | (some x, s') => ∃ e ∈ L, key e.obj = true ∧ e.obj = x ∧
        ((plt e.pri np || plt np e.pri) = false ∧ s' = s ∨
         PQ.R plt s' (specResched L e.seq np)) := by
  unfold PQ.reschedule
  cases hidx : PQ.revIndex s.pq key with
  | none =>
    simp only
    exact ⟨trivial, fun e he => revIndex_none hidx e (h.perm.symm.subset he)⟩
  | some i =>
    obtain ⟨hi, hil, hkey⟩ := revIndex_some hidx
    simp only [List.getElem?_eq_getElem hi]
    have hmem : s.pq[s.pq.length - i - 1] ∈ L := h.perm.subset (List.getElem_mem _)
    by_cases hchg : (plt (s.pq[s.pq.length - i - 1]).pri np || plt np (s.pq[s.pq.length - i - 1]).pri) = true
    · simp only [hchg, if_true]
      refine ⟨_, hmem, hkey, rfl, Or.inr ?_⟩
      have hnd : (s.pq.map (·.seq)).Nodup := (h.perm.map _).nodup_iff.mpr (inc_seq_nodup h.inc)
      have hset := set_eq_map_of_nodup hnd _ hi np
      refine ⟨?_, hl.heapify_heap _, ?_, ?_⟩
      · refine (hl.heapify_perm _).trans ?_
        rw [hset]
        exact h.perm.map _
      · simp only [specResched, List.pairwise_map]
        refine h.inc.imp ?_
        intro a b hab
        split <;> split <;> simpa using hab
      · intro e he
        simp only [specResched, List.mem_map] at he
        obtain ⟨y, hy, rfl⟩ := he
        have := h.bound y hy
        split <;> simpa using this
    · simp only [hchg, Bool.false_eq_true, if_false]
      refine ⟨_, hmem, hkey, rfl, Or.inl ⟨by simpa using hchg, trivial⟩⟩

def mkEntries : Nat → List (π × Nat) → List (Entry π)
  | _, [] => []
  | seq, (p, x) :: es => ⟨p, seq, x⟩ :: mkEntries (seq + 1) es

theorem appendAll_eq (seq : Nat) (l : List (Entry π)) (es : List (π × Nat)) :
    PQ.appendAll seq l es = (seq + es.length, l ++ mkEntries seq es) := by
  induction es generalizing seq l with
  | nil => simp [PQ.appendAll, mkEntries]
  | cons e es ih =>
    obtain ⟨p, x⟩ := e
    simp only [PQ.appendAll, mkEntries, ih, List.length_cons, List.append_assoc, List.singleton_append]
    congr 1; omega

theorem mkEntries_bounds (seq : Nat) (es : List (π × Nat)) :
    ∀ e ∈ mkEntries seq es, seq ≤ e.seq ∧ e.seq < seq + es.length := by
  induction es generalizing seq with
  | nil => intro e he; cases he
  | cons a es ih =>
    obtain ⟨p, x⟩ := a
    intro e he
    simp only [mkEntries, List.mem_cons] at he
    rcases he with rfl | he
    · simp
    · have := ih (seq + 1) e he; simp only [List.length_cons]; omega

theorem mkEntries_inc (seq : Nat) (es : List (π × Nat)) :
    (mkEntries seq es).Pairwise (fun a b => a.seq < b.seq) := by
  induction es generalizing seq with
  | nil => exact List.Pairwise.nil
  | cons a es ih =>
    obtain ⟨p, x⟩ := a
    simp only [mkEntries]
    refine List.pairwise_cons.mpr ⟨?_, ih _⟩
    intro b hb
    have := mkEntries_bounds (seq + 1) es b hb
    simp; omega

theorem PQ.R.extend (hl : H.Lawful (Entry.lt plt)) {s : PQ π} {L} (h : PQ.R plt s L)
    (es : List (π × Nat)) : PQ.R plt (s.extend H plt es) (L ++ mkEntries s.seq es) := by
  unfold PQ.extend
  simp only [appendAll_eq]
  refine ⟨?_, hl.heapify_heap _, ?_, ?_⟩
  · exact (hl.heapify_perm _).trans (List.Perm.append_right _ h.perm)
  · rw [List.pairwise_append]
    refine ⟨h.inc, mkEntries_inc _ _, ?_⟩
    intro a ha b hb
    have := h.bound a ha
    have := mkEntries_bounds s.seq es b hb
    omega
  · intro e he
    rcases List.mem_append.mp he with he | he
    · have := h.bound e he; simp only; omega
    · exact (mkEntries_bounds s.seq es e he).2

theorem PQ.R.refresh (hl : H.Lawful (Entry.lt plt)) {s : PQ π} {L} (h : PQ.R plt s L) :
    PQ.R plt (s.refresh H plt) L :=
  ⟨(hl.heapify_perm _).trans h.perm, hl.heapify_heap _, h.inc, h.bound⟩

theorem stableInsert_perm (lt : Entry π → Entry π → Bool) (x : Entry π) (l : List (Entry π)) :
    (PQ.stableInsert lt x l).Perm (x :: l) := by
  induction l with
  | nil => simp [PQ.stableInsert]
  | cons y ys ih =>
    simp only [PQ.stableInsert]; split
    · exact (List.Perm.cons y ih).trans (List.Perm.swap x y ys)
    · exact List.Perm.refl _

theorem stableSort_perm (lt : Entry π → Entry π → Bool) (l : List (Entry π)) :
    (PQ.stableSort lt l).Perm l := by
  induction l with
  | nil => simp [PQ.stableSort]
  | cons x xs ih => simp only [PQ.stableSort]; exact (stableInsert_perm lt x _).trans (List.Perm.cons x ih)

theorem stableInsert_sorted {lt : Entry π → Entry π → Bool} (hs : StrictWeak lt) (x : Entry π)
    {l : List (Entry π)} (h : Sorted lt l) : Sorted lt (PQ.stableInsert lt x l) := by
  induction l with
  | nil => simp [PQ.stableInsert, Sorted]
  | cons y ys ih =>
    have hy := List.pairwise_cons.mp h
    simp only [PQ.stableInsert]; split
    · rename_i hyx
      refine List.pairwise_cons.mpr ⟨?_, ih hy.2⟩
      intro z hz
      rcases List.mem_cons.mp ((stableInsert_perm lt x ys).subset hz) with rfl | hz
      · exact hs.asymm _ _ hyx
      · exact hy.1 z hz
    · rename_i hyx
      refine List.pairwise_cons.mpr ⟨?_, h⟩
      intro z hz
      rcases List.mem_cons.mp hz with rfl | hz
      · simpa using hyx
      · exact hs.negTrans _ _ _ (hy.1 z hz) (by simpa using hyx)

theorem stableSort_sorted {lt : Entry π → Entry π → Bool} (hs : StrictWeak lt) (l : List (Entry π)) :
    Sorted lt (PQ.stableSort lt l) := by
  induction l with
  | nil => simp [PQ.stableSort, Sorted]
  | cons x xs ih => exact stableInsert_sorted hs x ih

theorem PQ.R.sort (hs : StrictWeak plt) {s : PQ π} {L} (h : PQ.R plt s L) :
    PQ.R plt (s.sort plt) L :=
  ⟨(stableSort_perm _ _).trans h.perm, (stableSort_sorted (entryLt_strictWeak hs) _).isHeap, h.inc, h.bound⟩

theorem PQ.R.clear (s : PQ π) : PQ.R plt (PQ.clear s) [] :=
  ⟨List.Perm.refl _, isHeap_nil, List.Pairwise.nil, by simp⟩

structure PopSplit (lt : Entry π → Entry π → Bool) (orig popped rest : List (Entry π)) : Prop where
  perm   : (popped ++ rest).Perm orig
  heap   : IsHeap lt rest
  sorted : Sorted lt popped
  below  : ∀ x ∈ popped, ∀ y ∈ rest, lt y x = false

theorem popN_split (hs : StrictWeak plt) (hl : H.Lawful (Entry.lt plt)) :
    ∀ (n : Nat) (acc l orig : List (Entry π)), PopSplit (Entry.lt plt) orig acc l →
      PopSplit (Entry.lt plt) orig (PQ.popN H plt n acc l).1 (PQ.popN H plt n acc l).2
  | 0, acc, l, orig, h => by simpa [PQ.popN] using h
  | n + 1, acc, [], orig, h => by simpa [PQ.popN, hl.pop_nil] using h
  | n + 1, acc, a :: t, orig, h => by
    obtain ⟨l', hpop, hperm, hheap⟩ := hl.pop_cons a t
    simp only [PQ.popN, hpop]
    apply popN_split hs hl n
    have hsw := entryLt_strictWeak hs
    have hmin := IsHeap.root_min_mem hsw h.heap
    refine ⟨?_, hheap h.heap, ?_, ?_⟩
    · have : (acc ++ [a] ++ l').Perm (acc ++ a :: t) := by
        simp only [List.append_assoc, List.singleton_append]
        exact List.Perm.append_left _ (List.Perm.cons a hperm)
      exact this.trans h.perm
    · unfold Sorted
      rw [List.pairwise_append]
      refine ⟨h.sorted, by simp, ?_⟩
      intro x hx y hy
      simp at hy; subst hy
      exact h.below x hx y (by simp)
    · intro x hx y hy
      have hy' : y ∈ t := hperm.subset hy
      rcases List.mem_append.mp hx with hx | hx
      · exact h.below x hx y (by simp [hy'])
      · simp at hx; subst hx
        exact hmin y (by simp [hy'])

theorem popN_length (hl : H.Lawful (Entry.lt plt)) :
    ∀ (n : Nat) (acc l : List (Entry π)),
      (PQ.popN H plt n acc l).1.length = acc.length + min n l.length ∧
      (PQ.popN H plt n acc l).2.length = l.length - n
  | 0, acc, l => by simp [PQ.popN]
  | n + 1, acc, [] => by simp [PQ.popN, hl.pop_nil]
  | n + 1, acc, a :: t => by
    obtain ⟨l', hpop, hperm, _⟩ := hl.pop_cons a t
    simp only [PQ.popN, hpop]
    have := popN_length hl n (acc ++ [a]) l'
    have hlen := hperm.length_eq
    simp only [List.length_append, List.length_cons, List.length_nil] at this ⊢
    omega

theorem yields_eq (hl : H.Lawful (Entry.lt plt)) :
    ∀ (k : Nat) (acc l : List (Entry π)),
      (PQ.popN H plt k acc l).1 = acc ++ PQ.yields H plt k l
  | 0, acc, l => by simp [PQ.popN, PQ.yields]
  | k + 1, acc, [] => by simp [PQ.popN, PQ.yields, hl.pop_nil]
  | k + 1, acc, a :: t => by
    obtain ⟨l', hpop, _, _⟩ := hl.pop_cons a t
    simp only [PQ.popN, PQ.yields, hpop]
    rw [yields_eq hl k (acc ++ [a]) l']
    simp

theorem pushAll_spec (hl : H.Lawful (Entry.lt plt)) :
    ∀ (es l : List (Entry π)), IsHeap (Entry.lt plt) l →
      (PQ.pushAll H plt l es).Perm (es ++ l) ∧ IsHeap (Entry.lt plt) (PQ.pushAll H plt l es)
  | [], l, h => by simpa [PQ.pushAll] using h
  | e :: es, l, h => by
    simp only [PQ.pushAll]
    have ih := pushAll_spec hl es (H.push (Entry.lt plt) l e) (hl.push_heap _ _ h)
    refine ⟨?_, ih.2⟩
    refine ih.1.trans ?_
    have := hl.push_perm l e
    exact (List.Perm.append_left es this).trans (by simpa using (List.perm_middle (l₁ := es) (a := e) (l₂ := l)))

theorem restore_spec (hl : H.Lawful (Entry.lt plt)) {orig popped rest : List (Entry π)}
    (h : PopSplit (Entry.lt plt) orig popped rest) :
    (PQ.restore H plt popped rest).Perm orig ∧ IsHeap (Entry.lt plt) (PQ.restore H plt popped rest) := by
  unfold PQ.restore
  split
  · rename_i hge
    exact ⟨h.perm, sorted_prefix_append_heap _ _ _ h.sorted h.below (by simpa using hge)⟩
  · split
    · exact ⟨(hl.heapify_perm _).trans h.perm, hl.heapify_heap _⟩
    · have := pushAll_spec hl popped rest h.heap
      exact ⟨this.1.trans h.perm, this.2⟩

theorem PQ.R.ordered (hs : StrictWeak plt) (hl : H.Lawful (Entry.lt plt)) {s : PQ π} {L}
    (h : PQ.R plt s L) (k : Nat) :
    PQ.R plt (s.ordered H plt k).2 L ∧
    (s.ordered H plt k).1 = (PQ.popN H plt k [] s.pq).1 := by
  unfold PQ.ordered
  by_cases hk : k = 0
  · subst hk; simp [PQ.popN, h]
  · have hb : (k == 0) = false := by simpa using hk
    simp only [hb, Bool.false_eq_true, if_false]
    constructor
    · have h0 : PopSplit (Entry.lt plt) s.pq [] s.pq := ⟨by simp, h.heap, by simp [Sorted], by simp⟩
      have hsplit := popN_split hs hl (if k > s.pq.length then s.pq.length else k - 1) [] s.pq s.pq h0
      have := restore_spec hl hsplit
      exact ⟨this.1.trans h.perm, this.2, h.inc, h.bound⟩
    · have := yields_eq hl k [] s.pq
      simpa using this.symm

theorem PQ.R.set_pri (hl : H.Lawful (Entry.lt plt)) {s : PQ π} {L} (h : PQ.R plt s L)
    (idx : Nat) (hi : idx < s.pq.length) (np : π) :
    PQ.R plt ⟨s.seq, H.heapify (Entry.lt plt) (s.pq.set idx { s.pq[idx] with pri := np })⟩
      (specResched L (s.pq[idx]).seq np) := by
  have hnd : (s.pq.map (·.seq)).Nodup := (h.perm.map _).nodup_iff.mpr (inc_seq_nodup h.inc)
  have hset := set_eq_map_of_nodup hnd _ hi np
  refine ⟨?_, hl.heapify_heap _, ?_, ?_⟩
  · refine (hl.heapify_perm _).trans ?_
    rw [hset]
    exact h.perm.map _
  · simp only [specResched, List.pairwise_map]
    refine h.inc.imp ?_
    intro a b hab
    split <;> split <;> simpa using hab
  · intro e he
    simp only [specResched, List.mem_map] at he
    obtain ⟨y, hy, rfl⟩ := he
    have := h.bound y hy
    split <;> simpa using this

end Asynkit
