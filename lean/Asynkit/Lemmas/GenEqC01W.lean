/-
GenEqC01W — the generated `CoroStart` methods (lean/Asynkit/Gen/CoroStart.lean) against the protocol-level
model of CoroStart that C02 / C05 use (Model/Wrappers.lean: `CS`, `SR`, `coroStartAwaitB`, `CS.done/result/
exception/throwSync/closeSync`, the first segments of `athrow` / `aclose`), for every inner object `I`.

Here the runtime has no futures: `rtW I` forwards send/throw/close to `I` and has no blocking flags
(the flag handshake is the kernel model's business, GenEqC01.lean).
-/
import Asynkit.Gen.CoroStart
import Asynkit.Model.Wrappers

namespace Asynkit.GenEqC01W
open Asynkit.Proto Asynkit.Gen.CoroStart

variable {ι : Type}

def rtW (I : Obj ι) : Rt I.σ Unit where
  send c v _ := ((I.send c v).1, (I.send c v).2, ())
  throw c e _ := ((I.throw c e).1, (I.throw c e).2, ())
  close c _ := ((I.close c).1, (I.close c).2, ())
  flag _ _ := none
  setFlag _ _ u := u
  cancel _ _ := none
  plainCancelled _ := false

/-- `start_result` as the protocol model classifies it -/
def srOf : Option (Y × Option Exc) → Option SR
  | none => none
  | some (y, none) => some (.pending y)
  | some (_, some (.stopIter v)) => some (.returned v)
  | some (_, some e) => some (.raised e)

def csOf (I : Obj ι) (w : W I.σ Unit) : CS I.σ := ⟨w.c, srOf w.sr⟩

def gOut {κ Φ : Type} : GOut κ Φ → Out
  | .yielded y _ => .yield y
  | .returned v _ => .ret v
  | .raised e _ => .raise e
  | .awaitSelf _ => .raise Gen.CoroStart.excAssertion
  | .awaiting _ _ _ => .raise Gen.CoroStart.excAssertion

def gW {κ Φ : Type} : GOut κ Φ → W κ Φ
  | .yielded _ w => w
  | .returned _ w => w
  | .raised _ w => w
  | .awaitSelf w => w
  | .awaiting _ _ w => w

theorem srOf_ofOut (o : Out) :
    srOf (match o with
      | .yield y => some (y, none)
      | .ret v => some (.bare, some (.stopIter v))
      | .raise e => some (.bare, some e)) = some (SR.ofOut o) := by
  cases o with
  | yield y => rfl
  | ret v => rfl
  | raise e => cases e <;> rfl

/-- `CoroStart(coro)` (`__init__` + `_start`) = `CS.new` -/
theorem init_eq (I : Obj ι) :
    ∃ w, init (rtW I) { c := I.init, F := (), sr := none } = .ok () w ∧ csOf I w = CS.new I := by
  simp only [init, start, rtW]
  rcases h : I.send I.init 0 with ⟨s', o⟩
  cases o with
  | yield y => exact ⟨_, rfl, by simp [csOf, CS.new, srOf, SR.ofOut, h]⟩
  | ret v => exact ⟨_, rfl, by simp [csOf, CS.new, srOf, SR.ofOut, h]⟩
  | raise e => exact ⟨_, rfl, by cases e <;> simp [csOf, CS.new, srOf, SR.ofOut, h]⟩

/-- `done()` -/
theorem done_eq (I : Obj ι) (w : W I.σ Unit) : done (rtW I) w = .ok (CS.done (csOf I w)) w := by
  rcases w with ⟨c, F, sr, pc, n⟩
  rcases sr with _ | ⟨y, _ | e⟩
  · rfl
  · rfl
  · cases e <;> rfl

/-- `result()` -/
theorem result_eq (I : Obj ι) (w : W I.σ Unit) :
    result (rtW I) w = (match CS.result (csOf I w) with
      | .ret v => .ok v w
      | .raise e => .err e w
      | .yield _ => .err Gen.CoroStart.excAssertion w) := by
  rcases w with ⟨c, F, sr, pc, n⟩
  rcases sr with _ | ⟨y, _ | e⟩
  · rfl
  · rfl
  · cases e <;> rfl

/-- `exception()` (`ret 1` in the protocol model stands for "returns the stored exception object") -/
theorem exception_eq (I : Obj ι) (w : W I.σ Unit) :
    (match exception (rtW I) w with
      | .ok none _ => Out.ret 0
      | .ok (some _) _ => Out.ret 1
      | .err e _ => Out.raise e) = CS.exception (csOf I w)
    ∧ (∀ e w', exception (rtW I) w = .ok (some e) w' → w' = w ∧ ∃ y, w.sr = some (y, some e)) := by
  rcases w with ⟨c, F, sr, pc, n⟩
  rcases sr with _ | ⟨y, _ | e⟩
  · exact ⟨rfl, by intro e w' h; cases h⟩
  · exact ⟨rfl, by intro e w' h; cases h⟩
  · cases e with
    | stopIter v => exact ⟨rfl, by intro e w' h; cases h⟩
    | _ => exact ⟨rfl, by intro e w' h; cases h; exact ⟨rfl, y, rfl⟩⟩

/-- `throw(exc)` with the default `tries = 1` -/
theorem throw_eq (I : Obj ι) (w : W I.σ Unit) (e : Exc) :
    (match throw (rtW I) w e 1 with
      | .ok v w' => (csOf I w', Out.ret v)
      | .err x w' => (csOf I w', Out.raise x)) = CS.throwSync I (csOf I w) e := by
  simp only [Gen.CoroStart.throw, Gen.CoroStart.throwLoop, rtW, CS.throwSync, csOf]
  rcases I.throw w.c e with ⟨s', o⟩
  cases o with
  | yield y => simp [rtIgnored, rtIgnoredExc]
  | ret v => simp [normStop]
  | raise x => cases x <;> simp [normStop]

/-- `close()` -/
theorem close_eq (I : Obj ι) (w : W I.σ Unit) :
    (match close (rtW I) w with
      | .ok _ w' => (csOf I w', (match (I.close w.c).2 with | .raise _ => Out.ret 0 | o => o))
      | .err x w' => (csOf I w', Out.raise x)) = CS.closeSync I (csOf I w) := by
  simp only [close, rtW, CS.closeSync, csOf, srOf]
  rcases h : I.close w.c with ⟨s', o⟩
  cases o <;> simp

/-- **`__await__`, entry segment** (first `send(None)` of the generator): the "cannot reuse" branch, the
    stored result / exception, the re-yield of the held object -/
theorem awaitEntry_eq (I : Obj ι) (cs0 : CS I.σ) (w : W I.σ Unit) :
    let m := (coroStartAwaitB I cs0).resume (.start, csOf I w) (.send 0)
    gOut (awaitEntry (rtW I) w) = m.2 ∧ csOf I (gW (awaitEntry (rtW I) w)) = m.1.2 := by
  rcases w with ⟨c, F, sr, pc, n⟩
  rcases sr with _ | ⟨y, _ | e⟩
  · simp only [awaitEntry, rtW, coroStartAwaitB, csOf, srOf]
    rcases I.send c 0 with ⟨s', o⟩
    cases o <;> simp [gOut, gW, csOf, srOf, Gen.CoroStart.excAssertion, Proto.excAssertion]
  · simp [awaitEntry, rtW, coroStartAwaitB, csOf, srOf, gOut, gW]
  · cases e <;> simp [awaitEntry, rtW, coroStartAwaitB, csOf, srOf, gOut, gW]

/-- **`__await__`, relay segments**: resumed at its yield by send / throw / GeneratorExit -/
theorem awaitResume_eq (I : Obj ι) (cs0 : CS I.σ) (w : W I.σ Unit) (r : Resume) :
    let m := (coroStartAwaitB I cs0).resume (.loop, csOf I w) r
    gOut (awaitResume (rtW I) w 0 r) = m.2 ∧ csOf I (gW (awaitResume (rtW I) w 0 r)) = m.1.2 := by
  cases r with
  | send v =>
    simp only [awaitResume, rtW, coroStartAwaitB, relay, csOf]
    rcases I.send w.c v with ⟨s', o⟩
    cases o with
    | yield y => simp [gOut, gW, normStop, csOf]
    | ret x => simp [gOut, gW, normStop, csOf]
    | raise x => cases x <;> simp [gOut, gW, normStop, csOf]
  | throw e =>
    cases e with
    | genExit =>
      simp only [awaitResume, rtW, coroStartAwaitB, relayClose, csOf]
      rcases I.close w.c with ⟨s', o⟩
      cases o <;> simp [gOut, gW, csOf]
    | _ =>
      simp only [awaitResume, rtW, coroStartAwaitB, relay, csOf]
      rcases I.throw w.c _ with ⟨s', o⟩
      cases o with
      | yield y => simp [gOut, gW, normStop, csOf]
      | ret x => simp [gOut, gW, normStop, csOf]
      | raise x => cases x <;> simp [gOut, gW, normStop, csOf]

/-- **`athrow(exc)`**: throws into the coroutine, stores the classified outcome, then `return await self` -/
theorem athrowEntry_eq (I : Obj ι) (w : W I.σ Unit) (e : Exc) :
    ∃ w', athrowEntry (rtW I) w e = .awaitSelf w'
      ∧ csOf I w' = { coro := (I.throw w.c e).1, sr := some (SR.ofOut (I.throw w.c e).2) } := by
  simp only [athrowEntry, rtW]
  rcases I.throw w.c e with ⟨s', o⟩
  cases o with
  | yield y => exact ⟨_, rfl, rfl⟩
  | ret v => exact ⟨_, rfl, rfl⟩
  | raise x => exact ⟨_, rfl, by cases x <;> rfl⟩

/-- `as_coroutine()` is `return await self` -/
theorem asCoroutine_eq (I : Obj ι) (w : W I.σ Unit) : asCoroutineEntry (rtW I) w = .awaitSelf w := rfl

/-- **`aclose()`**: its guards, the `await self.athrow(GeneratorExit())`, and the `except GeneratorExit: pass` -/
theorem aclose_eq (I : Obj ι) (w : W I.σ Unit) :
    (acloseEntry (rtW I) w =
      match (csOf I w).sr with
      | none => .returned 0 w
      | some (.pending _) => .awaiting 0 .genExit { w with pc := .at 0 }
      | some _ => .returned 0 { w with sr := none })
    ∧ (∀ v, acloseResume (rtW I) w 0 (.send v) = .returned 0 w)
    ∧ acloseResume (rtW I) w 0 (.throw .genExit) = .returned 0 w
    ∧ (∀ e, e ≠ .genExit → acloseResume (rtW I) w 0 (.throw e) = .raised e w) := by
  refine ⟨?_, fun _ => rfl, rfl, ?_⟩
  · rcases w with ⟨c, F, sr, pc, n⟩
    rcases sr with _ | ⟨y, _ | e⟩
    · rfl
    · rfl
    · cases e <;> rfl
  · intro e he
    cases e <;> first | exact absurd rfl he | rfl

/-- `as_future()`: a completed future with the stored result / exception; RuntimeError when not `done()` -/
theorem asFuture_eq (I : Obj ι) (w : W I.σ Unit) :
    asFuture (rtW I) w = (match (csOf I w).sr with
      | some (.returned v) => .ok (.result v) w
      | some (.raised e) => .ok (.exception e) w
      | _ => .err rtNotDone w) := by
  rcases w with ⟨c, F, sr, pc, n⟩
  rcases sr with _ | ⟨y, _ | e⟩
  · rfl
  · rfl
  · cases e <;> rfl

/-- `as_awaitable()`: the completed future when `done()`, else the CoroStart itself -/
theorem asAwaitable_eq (I : Obj ι) (w : W I.σ Unit) :
    asAwaitable (rtW I) w = (match (csOf I w).sr with
      | some (.returned v) => .ok (.future (.result v)) w
      | some (.raised e) => .ok (.future (.exception e)) w
      | _ => .ok .self w) := by
  rcases w with ⟨c, F, sr, pc, n⟩
  rcases sr with _ | ⟨y, _ | e⟩
  · rfl
  · rfl
  · cases e <;> rfl

end Asynkit.GenEqC01W

namespace Asynkit.GenEqC01W
open Asynkit.Proto Asynkit.Gen.CoroStart

/-- `coro_await(coro)`: `cs = CoroStart(coro, context=context); return await cs` -/
theorem coroAwait_eq {ι : Type} (I : Obj ι) :
    ∃ w, coroAwaitEntry (rtW I) { c := I.init, F := (), sr := none } = .awaitSelf w ∧ csOf I w = CS.new I := by
  obtain ⟨w, h1, h2⟩ := init_eq I
  exact ⟨w, by simp [coroAwaitEntry, h1], h2⟩

end Asynkit.GenEqC01W
