/-
Access lemmas for the Lock model and the invariant used by C13 (and reused by C11/C12).
Core Lean only.
-/
import Asynkit.Model.Lock

namespace Asynkit.Lock
open Asynkit.PrioGraph

/-! ### state update lemmas -/

@[simp] theorem setTask_tasks (s : State) (i j : Nat) (t : Task) :
    (s.setTask i t).tasks j = if j = i then t else s.tasks j := rfl
@[simp] theorem setTask_locks (s : State) (i : Nat) (t : Task) : (s.setTask i t).locks = s.locks := rfl
@[simp] theorem setTask_cur (s : State) (i : Nat) (t : Task) : (s.setTask i t).cur = s.cur := rfl
@[simp] theorem setTask_evSet (s : State) (i : Nat) (t : Task) : (s.setTask i t).evSet = s.evSet := rfl
@[simp] theorem setTask_prioLoop (s : State) (i : Nat) (t : Task) : (s.setTask i t).prioLoop = s.prioLoop := rfl
@[simp] theorem setTask_fuel (s : State) (i : Nat) (t : Task) : (s.setTask i t).fuel = s.fuel := rfl
@[simp] theorem setLock_locks (s : State) (k j : Nat) (l : LockSt) :
    (s.setLock k l).locks j = if j = k then l else s.locks j := rfl
@[simp] theorem setLock_tasks (s : State) (k : Nat) (l : LockSt) : (s.setLock k l).tasks = s.tasks := rfl
@[simp] theorem setLock_cur (s : State) (k : Nat) (l : LockSt) : (s.setLock k l).cur = s.cur := rfl
@[simp] theorem setLock_evSet (s : State) (k : Nat) (l : LockSt) : (s.setLock k l).evSet = s.evSet := rfl
@[simp] theorem setLock_prioLoop (s : State) (k : Nat) (l : LockSt) : (s.setLock k l).prioLoop = s.prioLoop := rfl
@[simp] theorem setLock_fuel (s : State) (k : Nat) (l : LockSt) : (s.setLock k l).fuel = s.fuel := rfl

/-- what the lock invariants see of a waiter entry: its task and the state of its future -/
def wt (w : Waiter) : Nat × Fut := (w.task, w.fut)

/-- the waiter queue of lock `k` without the keys -/
def State.wl (s : State) (k : Nat) : List (Nat × Fut) := (s.locks k).waiters.map wt

@[simp] theorem rekey_wt (ws : List Waiter) (i : Nat) (p : Rat) : (rekey ws i p).map wt = ws.map wt := by
  induction ws with
  | nil => rfl
  | cons w ws ih =>
    simp only [rekey, List.map_cons, List.map_map] at *
    rw [ih]
    by_cases h : w.task = i <;> simp [h, wt]

def setFutP (l : List (Nat × Fut)) (i : Nat) (f : Fut) : List (Nat × Fut) :=
  l.map fun p => if p.1 = i then (p.1, f) else p

theorem setFutOf_wt (ws : List Waiter) (i : Nat) (f : Fut) :
    (setFutOf ws i f).map wt = setFutP (ws.map wt) i f := by
  induction ws with
  | nil => rfl
  | cons w ws ih =>
    simp only [setFutOf, setFutP, List.map_cons, List.map_map] at *
    rw [ih]
    by_cases h : w.task = i <;> simp [h, wt]

theorem removeTask_wt (ws : List Waiter) (i : Nat) :
    (removeTask ws i).map wt = (ws.map wt).filter (fun p => p.1 != i) := by
  induction ws with
  | nil => rfl
  | cons w ws ih =>
    simp only [removeTask, List.filter_cons, List.map_cons] at *
    by_cases h : w.task = i <;> simp [h, wt, ih]

theorem headW_mem : ∀ (ws : List Waiter) (h : Waiter), headW ws = some h → h ∈ ws
  | [], h, e => by simp [headW] at e
  | w :: ws, h, e => by
    simp only [headW] at e
    cases hh : headW ws with
    | none => simp [hh] at e; simp [e]
    | some h' =>
      simp only [hh] at e
      by_cases c : h'.key < w.key
      · simp [c] at e; subst e; exact List.mem_cons_of_mem _ (headW_mem ws _ hh)
      · simp [c] at e; simp [e]

theorem headW_none : ∀ (ws : List Waiter), headW ws = none → ws = []
  | [], _ => rfl
  | w :: ws, e => by
    simp only [headW] at e
    cases hh : headW ws with
    | none => simp [hh] at e
    | some h' => simp only [hh] at e; by_cases c : h'.key < w.key <;> simp [c] at e

/-! ### the invariant -/

/-- status of a queued waiter's task vs. the state of its future -/
def WOK : Status → Fut → Prop
  | .blocked, f => f = .pending
  | .woken c, f => f = (if c then .cancelled else .result)
  | .ready x, _ => x = true
  | _, _ => False

structure LInv (s : State) (k : Nat) : Prop where
  lockedOwner : (s.locks k).locked = (s.locks k).owner.isSome
  ownerOwns : ∀ i, (s.locks k).owner = some i ↔ k ∈ (s.tasks i).owns
  wok : ∀ p ∈ s.wl k, (s.tasks p.1).pos = .acq k ∧ WOK (s.tasks p.1).status p.2
  queued : ∀ i, (s.tasks i).pos = .acq k → ∃ p ∈ s.wl k, p.1 = i
  nodup : ((s.wl k).map (·.1)).Nodup
  oneResult : ∀ p ∈ s.wl k, ∀ q ∈ s.wl k, p.2 = .result → q.2 = .result → p.1 = q.1
  lockedNoResult : (s.locks k).locked = true → ∀ p ∈ s.wl k, p.2 ≠ .result
  /-- **wake-in-flight** -/
  wif : (s.locks k).locked = false → s.wl k ≠ [] →
        ∃ p ∈ s.wl k, p.2.done = true ∨ (s.tasks p.1).status = .ready true

structure Inv (s : State) : Prop where
  linv : ∀ k, LInv s k
  curRunning : ∀ i, s.cur = some i ↔ (s.tasks i).status = .running
  runningTop : ∀ i, (s.tasks i).status = .running → (s.tasks i).pos = .top
  doneClean : ∀ i, (s.tasks i).status = .done → (s.tasks i).owns = [] ∧ (s.tasks i).pos = .top
  holdingOwns : ∀ i, (s.tasks i).holding = if (s.tasks i).prio.isSome then (s.tasks i).owns else []
  ownsNodup : ∀ i, (s.tasks i).owns.Nodup
  waitingPos : ∀ i k, (s.tasks i).waitingOn = some k ↔ ((s.tasks i).prio.isSome ∧ (s.tasks i).pos = .acq k)
  /-- a task does not wait for a lock it holds (guard of `Ev.acquire`) -/
  waitNotOwn : ∀ i k, (s.tasks i).pos = .acq k → k ∉ (s.tasks i).owns

end Asynkit.Lock
