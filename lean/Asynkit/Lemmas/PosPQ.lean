/-
Refinement lemmas for `Model/PosPQ` (`PosPriorityQueue`): relation `PosPQ.RP` with a reference
list of entries, and the effect of every operation on the pop order `PosPQ.objs` (the list model
of the ready queue).  Helper lemmas; property statements are in Props/.
-/
import Asynkit.Lemmas.Order
import Asynkit.Model.PosPQ

namespace Asynkit
variable {H : HeapLib (Entry PV)}

theorem pv_strictWeak : StrictWeak PV.lt := by
  constructor
  · intro a; simp [PV.lt]
  · intro a b; simp only [PV.lt]; grind
  · intro a b c; simp only [PV.lt]; grind
  · intro a b c; simp only [PV.lt]; grind

structure PosPQ.RP (s : PosPQ) (L : List (Entry PV)) : Prop where
  r : PQ.R PV.lt s.q L
  cls0 : ∀ e ∈ L, e.pri.cls = 0 → e.pri.boost = 0

theorem PosPQ.RP.init : PosPQ.RP ({} : PosPQ) [] := ⟨PQ.R.empty, by simp⟩

@[simp] theorem updateCounters_false_q (s : PosPQ) (draw : Nat → Rat) :
    (PosPQ.updateCounters H s false draw).q = s.q := by
  simp only [PosPQ.updateCounters, Bool.false_eq_true, if_false]; split <;> rfl

theorem doMaintenance_factor0 (s : PosPQ) (draw : Nat → Rat) (h0 : s.factor = 0) :
    PosPQ.doMaintenance H s draw = s := by
  simp [PosPQ.doMaintenance, h0]

theorem updateCounters_true_q_factor0 (s : PosPQ) (draw : Nat → Rat) (h0 : s.factor = 0) :
    (PosPQ.updateCounters H s true draw).q = s.q := by
  simp only [PosPQ.updateCounters, if_true]
  split
  · split <;> rw [doMaintenance_factor0 _ _ (by simpa using h0)]
  · rfl

@[simp] theorem updateCounters_factor (s : PosPQ) (b : Bool) (draw : Nat → Rat) :
    (PosPQ.updateCounters H s b draw).factor = s.factor := by
  cases b
  · simp only [PosPQ.updateCounters, Bool.false_eq_true, if_false]; split <;> rfl
  · have hd : ∀ s : PosPQ, (PosPQ.doMaintenance H s draw).factor = s.factor := by
      intro s
      simp only [PosPQ.doMaintenance]
      split
      · rfl
      · split
        · rfl
        · split <;> rfl
    simp only [PosPQ.updateCounters, if_true]
    split
    · split
      · exact hd _
      · exact hd _
    · rfl

theorem PosPQ.RP.popleft (hl : H.Lawful (Entry.lt PV.lt)) {s : PosPQ} {L} (h : PosPQ.RP s L)
    (draw : Nat → Rat) :
    (L = [] ∧ s.popleft H draw = none) ∨
    ∃ e s', s.popleft H draw = some (e.obj, s') ∧ e ∈ L ∧
      order PV.lt L = e :: order PV.lt (L.filter (fun y => y.seq != e.seq)) ∧
      PosPQ.RP s' (L.filter (fun y => y.seq != e.seq)) ∧ s'.factor = s.factor := by
  rcases h.r.pop pv_strictWeak hl with ⟨rfl, hn⟩ | ⟨e, q', hp, he, hmin, hr⟩
  · left; exact ⟨rfl, by simp [PosPQ.popleft, hn]⟩
  · right
    refine ⟨e, _, by simp only [PosPQ.popleft, hp]; rfl, he, order_cons_min pv_strictWeak h.r.inc he hmin, ?_, ?_⟩
    · exact ⟨by simpa using hr, fun x hx => h.cls0 x (List.mem_filter.mp hx).1⟩
    · simp

theorem PosPQ.RP.promote (hl : H.Lawful (Entry.lt PV.lt)) (draw : Nat → Rat) :
    ∀ (n : Nat) {s : PosPQ} {L : List (Entry PV)} (acc : List Nat), PosPQ.RP s L →
      ∃ (es : List (Entry PV)) (L' : List (Entry PV)) (s' : PosPQ),
        PosPQ.promote H draw n s acc = (s', acc ++ es.map (·.obj)) ∧
        order PV.lt L = es ++ order PV.lt L' ∧ PosPQ.RP s' L' ∧
        es.length = min n L.length ∧ s'.factor = s.factor ∧ L'.length = L.length - es.length ∧
        L'.Sublist L
  | 0, s, L, acc, h => ⟨[], L, s, by simp [PosPQ.promote], by simp, h, by simp, rfl, by simp,
      List.Sublist.refl _⟩
  | n + 1, s, L, acc, h => by
    rcases h.popleft hl draw with ⟨rfl, hn⟩ | ⟨e, s1, hp, he, hord, hr, hf⟩
    · exact ⟨[], [], s, by simp [PosPQ.promote, hn], by simp, h, by simp, rfl, by simp,
        List.Sublist.refl _⟩
    · obtain ⟨es, L', s', hpr, hord', hr', hlen, hf', hl', hsub⟩ :=
        PosPQ.RP.promote hl draw n (acc ++ [e.obj]) hr
      have hflen : (L.filter (fun y => y.seq != e.seq)).length + 1 = L.length := by
        have := (cons_filter_perm h.r.inc he).length_eq
        simpa using this
      refine ⟨e :: es, L', s', ?_, ?_, hr', ?_, by rw [hf', hf], ?_, hsub.trans List.filter_sublist⟩
      · simp only [PosPQ.promote, hp, hpr, List.map_cons, List.append_assoc, List.singleton_append]
      · rw [hord, hord']; simp
      · simp only [List.length_cons, hlen]; omega
      · simp only [List.length_cons]; omega

def stamped (pv : PV) : Nat → List Nat → List (Entry PV)
  | _, [] => []
  | n, x :: xs => ⟨pv, n, x⟩ :: stamped pv (n + 1) xs

theorem stamped_map_obj (pv : PV) (n : Nat) (xs : List Nat) : (stamped pv n xs).map (·.obj) = xs := by
  induction xs generalizing n with
  | nil => rfl
  | cons x xs ih => simp [stamped, ih]

theorem stamped_bounds (pv : PV) (n : Nat) (xs : List Nat) :
    ∀ e ∈ stamped pv n xs, e.pri = pv ∧ n ≤ e.seq ∧ e.seq < n + xs.length := by
  induction xs generalizing n with
  | nil => intro e he; cases he
  | cons x xs ih =>
    intro e he
    simp only [stamped, List.mem_cons] at he
    rcases he with rfl | he
    · simp
    · have := ih (n + 1) e he; simp only [List.length_cons]; exact ⟨this.1, by omega, by omega⟩

theorem stamped_inc (pv : PV) (n : Nat) (xs : List Nat) :
    (stamped pv n xs).Pairwise (fun a b => a.seq < b.seq) := by
  induction xs generalizing n with
  | nil => exact List.Pairwise.nil
  | cons x xs ih =>
    refine List.pairwise_cons.mpr ⟨?_, ih _⟩
    intro b hb
    have := stamped_bounds pv (n + 1) xs b hb
    simp; omega

theorem stamped_sorted (pv : PV) (n : Nat) (xs : List Nat) :
    Sorted (Entry.lt PV.lt) (stamped pv n xs) := by
  have h := stamped_inc pv n xs
  have hb := stamped_bounds pv n xs
  unfold Sorted
  refine List.Pairwise.imp_of_mem ?_ h
  intro a b ha hb' hab
  have h1 := (hb a ha).1
  have h2 := (hb b hb').1
  simp only [Entry.lt, h1, h2, pv_strictWeak.irrefl, Bool.false_or, Bool.not_false, Bool.true_and,
    decide_eq_false_iff_not]
  omega

theorem addAll_R (hl : H.Lawful (Entry.lt PV.lt)) (pv : PV) :
    ∀ (xs : List Nat) {q : PQ PV} {L : List (Entry PV)}, PQ.R PV.lt q L →
      PQ.R PV.lt (PosPQ.addAll H pv q xs) (L ++ stamped pv q.seq xs)
  | [], q, L, h => by simpa [PosPQ.addAll, stamped] using h
  | x :: xs, q, L, h => by
    have := addAll_R hl pv xs (h.add hl pv x)
    simpa [PosPQ.addAll, stamped, PQ.add] using this

theorem insertIdx_append_length {α} (a b : List α) (x : α) :
    (a ++ b).insertIdx a.length x = a ++ x :: b := by
  induction a with
  | nil => simp
  | cons y ys ih => simp [List.insertIdx_succ_cons, ih]

theorem insert_pv_below {s1 : PosPQ} {L' : List (Entry PV)} (h : PosPQ.RP s1 L') (done : Bool)
    (hdone : done = false → L' = []) :
    ∀ y ∈ L', PV.lt (PosPQ.insertPV s1 done) y.pri = true := by
  intro y hy
  cases done with
  | false => rw [hdone rfl] at hy; cases hy
  | true =>
    have hr := h.r
    cases hq : s1.q.pq with
    | nil => have hp := hr.perm; rw [hq] at hp; have := hp.symm.eq_nil; rw [this] at hy; cases hy
    | cons e0 l =>
      have hperm := hr.perm; rw [hq] at hperm
      have hheap := hr.heap; rw [hq] at hheap
      have hmin : Entry.lt PV.lt y e0 = false :=
        IsHeap.root_min_mem (entryLt_strictWeak pv_strictWeak) hheap y (hperm.symm.subset hy)
      have he0 : e0 ∈ L' := hperm.subset (by simp)
      have hplt : PV.lt y.pri e0.pri = false := by
        simp only [Entry.lt, Bool.or_eq_false_iff] at hmin; exact hmin.1
      have hy0 := h.cls0 y hy
      have he00 := h.cls0 e0 he0
      simp only [PosPQ.insertPV, PQ.peek, hq, List.head?_cons, if_true]
      simp only [PV.lt, PV.priority] at hplt ⊢
      by_cases hc : e0.pri.cls = 0
      · simp only [hc, beq_self_eq_true, if_true]
        by_cases hyc : y.pri.cls = 0
        · have := hy0 hyc; have := he00 hc
          simp_all
          grind
        · have hpos : 0 < y.pri.cls := by omega
          have hne : (0 != y.pri.cls) = true := by simp; omega
          simp [hne, hpos]
      · have hcb : (e0.pri.cls == 0) = false := by simpa using hc
        simp only [hcb]
        by_cases hyc : y.pri.cls = 0
        · exfalso
          simp [hyc, hc] at hplt
          omega
        · have hpos : 0 < y.pri.cls := by omega
          have hne : (0 != y.pri.cls) = true := by simp; omega
          simp [hne, hpos]

def PosPQ.objs (L : List (Entry PV)) : List Nat := (order PV.lt L).map (·.obj)

/-- **`insert(position, obj)` is `list.insert(min(position, len), obj)` on the pop order** — for
    arbitrary priorities of the entries present, with boosting disabled (`factor = 0`).
    In detail: the first `min position len` entries `es` of the pop order are taken out, they and the
    new object come back as positional (class-0) entries `N` in that order, and everything else
    (`L1`, a sub-list of the old reference list) is untouched and follows. -/
theorem PosPQ.RP.insert (hl : H.Lawful (Entry.lt PV.lt)) {s : PosPQ} {L} (h : PosPQ.RP s L)
    (h0 : s.factor = 0) (p x : Nat) (draw : Nat → Rat) :
    ∃ es L1 N, order PV.lt L = es ++ order PV.lt L1 ∧ es.length = min p L.length ∧ L1.Sublist L ∧
      N.map (·.obj) = es.map (·.obj) ++ [x] ∧ (∀ n ∈ N, n.pri.cls = 0) ∧
      order PV.lt (L1 ++ N) = N ++ order PV.lt L1 ∧
      PosPQ.RP (s.insert H p x draw) (L1 ++ N) ∧
      PosPQ.objs (L1 ++ N) = (PosPQ.objs L).insertIdx (min p L.length) x ∧
      (s.insert H p x draw).factor = 0 := by
  obtain ⟨es, L1, s1, hpr, hord, hr1, hlen, hf1, hl1, hsub⟩ := h.promote hl draw p []
  simp only [List.nil_append] at hpr
  have hdone : ((es.map (·.obj)).length == p) = false → L1 = [] := by
    intro hne
    have : es.length ≠ p := by simpa using hne
    have : L1.length = 0 := by omega
    exact List.length_eq_zero_iff.mp this
  have hbelow := insert_pv_below hr1 ((es.map (·.obj)).length == p) hdone
  unfold PosPQ.insert
  simp only [hpr]
  generalize hpv : PosPQ.insertPV s1 ((es.map (·.obj)).length == p) = pv at hbelow ⊢
  have hcls : pv.cls = 0 ∧ pv.boost = 0 := by subst hpv; exact ⟨rfl, rfl⟩
  have hR := addAll_R hl pv (es.map (·.obj) ++ [x]) hr1.r
  obtain ⟨N, hN⟩ : ∃ N, N = stamped pv s1.q.seq (es.map (·.obj) ++ [x]) := ⟨_, rfl⟩
  rw [← hN] at hR
  have hNb' : ∀ e ∈ N, e.pri = pv := fun e he => (stamped_bounds pv _ _ e (hN ▸ he)).1
  have hNs : Sorted (Entry.lt PV.lt) N := hN ▸ stamped_sorted pv _ _
  have hNo : N.map (·.obj) = es.map (·.obj) ++ [x] := by rw [hN, stamped_map_obj]
  have hf : ({ s1 with q := PosPQ.addAll H pv s1.q (es.map (·.obj) ++ [x]) } : PosPQ).factor = 0 := by
    simp [hf1, h0]
  have hNb : ∀ n ∈ N, ∀ y ∈ L1, Entry.lt PV.lt y n = false := by
    intro n hn y hy
    have hnp := hNb' n hn
    have h1 := hbelow y hy
    have h2 := pv_strictWeak.asymm _ _ h1
    simp [Entry.lt, hnp, h1, h2]
  have hfront := order_append_front pv_strictWeak hR.inc hNs hNb
  refine ⟨es, L1, N, hord, hlen, hsub, hNo, fun n hn => by rw [hNb' n hn]; exact hcls.1, hfront,
    ⟨?_, ?_⟩, ?_, ?_⟩
  · rw [updateCounters_true_q_factor0 _ _ hf]; exact hR
  · intro e he hc
    rcases List.mem_append.mp he with he | he
    · exact hr1.cls0 e he hc
    · rw [hNb' e he]; exact hcls.2
  · simp only [PosPQ.objs, hfront, hord, List.map_append, hNo, List.append_assoc]
    have hk : min p L.length = (es.map (·.obj)).length := by simp [hlen]
    rw [hk, insertIdx_append_length]
    simp
  · rw [updateCounters_factor]; exact hf

theorem PosPQ.RP.appendPri (hl : H.Lawful (Entry.lt PV.lt)) {s : PosPQ} {L} (h : PosPQ.RP s L)
    (h0 : s.factor = 0) (x : Nat) (p : Rat) (draw : Nat → Rat) :
    let e : Entry PV := ⟨{ base := p, insertedAt := s.nIns }, s.q.seq, x⟩
    PosPQ.RP (s.appendPri H x p draw) (L ++ [e]) ∧
    order PV.lt (L ++ [e]) = Srt.insert (Entry.lt PV.lt) e (order PV.lt L) ∧
    (s.appendPri H x p draw).factor = 0 := by
  intro e
  have hR := h.r.add hl ({ base := p, insertedAt := s.nIns } : PV) x
  refine ⟨⟨?_, ?_⟩, order_append pv_strictWeak hR.inc, ?_⟩
  · simp only [PosPQ.appendPri]
    rw [updateCounters_true_q_factor0 _ _ (by simpa using h0)]
    exact hR
  · intro y hy hc
    rcases List.mem_append.mp hy with hy | hy
    · exact h.cls0 y hy hc
    · simp at hy; subst hy; rfl
  · simp only [PosPQ.appendPri, updateCounters_factor]; exact h0

theorem PosPQ.RP.remove (hl : H.Lawful (Entry.lt PV.lt)) {s : PosPQ} {L} (h : PosPQ.RP s L)
    (x : Nat) (draw : Nat → Rat) :
    match s.remove H x draw with
    | none => ∀ e ∈ L, e.obj ≠ x
    | some s' => ∃ e ∈ L, e.obj = x ∧ PosPQ.RP s' (L.filter (fun y => y.seq != e.seq)) ∧
        s'.factor = s.factor := by
  have := h.r.remove hl x
  unfold PosPQ.remove
  cases hr : s.q.remove H PV.lt x with
  | none => rw [hr] at this; simpa using this
  | some r =>
    obtain ⟨e, q'⟩ := r
    rw [hr] at this
    simp only
    exact ⟨e, this.1, this.2.1, ⟨by simpa using this.2.2, fun y hy => h.cls0 y (List.mem_filter.mp hy).1⟩,
      by simp⟩

theorem PosPQ.RP.find (hl : H.Lawful (Entry.lt PV.lt)) {s : PosPQ} {L} (h : PosPQ.RP s L)
    (key : Nat → Bool) (rm : Bool) :
    match s.find H key rm with
    | (none, s') => s' = s ∧ ∀ e ∈ L, key e.obj = false
    | (some x, s') => ∃ e ∈ L, key e.obj = true ∧ e.obj = x ∧
        if rm then PosPQ.RP s' (L.filter (fun y => y.seq != e.seq)) ∧ s'.factor = s.factor else s' = s := by
  have := h.r.find hl key rm
  unfold PosPQ.find
  cases hr : s.q.find H PV.lt key rm with
  | mk o q' =>
    rw [hr] at this
    cases o with
    | none =>
      obtain ⟨rfl, hk⟩ := this
      exact ⟨rfl, hk⟩
    | some e =>
      obtain ⟨he, hk, hrest⟩ := this
      refine ⟨e, he, hk, rfl, ?_⟩
      cases rm with
      | false => simp only [Bool.false_eq_true, if_false] at hrest ⊢; subst hrest; rfl
      | true =>
        simp only [if_true] at hrest ⊢
        exact ⟨⟨hrest, fun y hy => h.cls0 y (List.mem_filter.mp hy).1⟩, trivial⟩

def rebase (gp : Nat → Rat) (e : Entry PV) : Entry PV :=
  if e.pri.cls != 0 then { e with pri := { e.pri with base := gp e.obj } } else e

theorem PosPQ.RP.rescheduleAll (hl : H.Lawful (Entry.lt PV.lt)) {s : PosPQ} {L} (h : PosPQ.RP s L)
    (gp : Nat → Rat) :
    PosPQ.RP (s.rescheduleAll H gp) (L.map (rebase gp)) ∧
    (∀ e ∈ L, (rebase gp e).seq = e.seq ∧ (rebase gp e).obj = e.obj ∧ (rebase gp e).pri.cls = e.pri.cls ∧
      (e.pri.cls = 0 → rebase gp e = e)) := by
  have hseq : ∀ e : Entry PV, (rebase gp e).seq = e.seq := by intro e; unfold rebase; split <;> rfl
  have hcls : ∀ e : Entry PV, (rebase gp e).pri.cls = e.pri.cls ∧ (rebase gp e).pri.boost = e.pri.boost := by
    intro e; unfold rebase; split <;> simp
  refine ⟨⟨⟨?_, hl.heapify_heap _, ?_, ?_⟩, ?_⟩, ?_⟩
  · exact (hl.heapify_perm _).trans (h.r.perm.map _)
  · rw [List.pairwise_map]; exact h.r.inc.imp (by intro a b hab; simpa [hseq] using hab)
  · intro e he
    obtain ⟨y, hy, rfl⟩ := List.mem_map.mp he
    simpa [hseq, PosPQ.rescheduleAll] using h.r.bound y hy
  · intro e he hc
    obtain ⟨y, hy, rfl⟩ := List.mem_map.mp he
    rw [(hcls y).2]; exact h.cls0 y hy (by rw [← (hcls y).1]; exact hc)
  · intro e _
    refine ⟨hseq e, by unfold rebase; split <;> rfl, (hcls e).1, ?_⟩
    intro hc; unfold rebase; simp [hc]

theorem PosPQ.RP.iter {s : PosPQ} {L} (h : PosPQ.RP s L) :
    PosPQ.RP s.iter.2 L ∧ s.iter.1 = PosPQ.objs L := by
  refine ⟨⟨h.r.sort pv_strictWeak, h.cls0⟩, ?_⟩
  simp only [PosPQ.iter, PosPQ.objs, PQ.sort]
  congr 1
  exact order_unique pv_strictWeak h.r.inc (stableSort_sorted (entryLt_strictWeak pv_strictWeak) _)
    ((stableSort_perm _ _).trans h.r.perm)

theorem PosPQ.RP.clear (s : PosPQ) : PosPQ.RP s.clear [] := ⟨PQ.R.clear s.q, by simp⟩

theorem PosPQ.RP.reschedule (hl : H.Lawful (Entry.lt PV.lt)) {s : PosPQ} {L} (h : PosPQ.RP s L)
    (key : Nat → Bool) (np : Rat) :
    match s.reschedule H key np with
    | (none, s') => s' = s ∧ ∀ e ∈ L, key e.obj = false
    | (some x, s') => ∃ e ∈ L, key e.obj = true ∧ e.obj = x ∧ s'.factor = s.factor ∧
        ((e.pri.cls = 0 ∧ s' = s) ∨
         (e.pri.cls ≠ 0 ∧ (s' = s ∨
            PosPQ.RP s' (specResched L e.seq { base := np, insertedAt := s.nIns })))) := by
  unfold PosPQ.reschedule PQ.find PQ.reschedule
  cases hidx : PQ.revIndex s.q.pq key with
  | none =>
    simp only
    first
      | exact ⟨trivial, fun e he => revIndex_none hidx e (h.r.perm.symm.subset he)⟩
      | exact ⟨rfl, fun e he => revIndex_none hidx e (h.r.perm.symm.subset he)⟩
      | exact fun e he => revIndex_none hidx e (h.r.perm.symm.subset he)
  | some i =>
    obtain ⟨hi, hil, hkey⟩ := revIndex_some hidx
    simp only [List.getElem?_eq_getElem hi, Bool.false_eq_true, if_false]
    have hmem : s.q.pq[s.q.pq.length - i - 1] ∈ L := h.r.perm.subset (List.getElem_mem _)
    by_cases hc : (s.q.pq[s.q.pq.length - i - 1]).pri.cls = 0
    · simp only [hc, beq_self_eq_true, if_true]
      exact ⟨_, hmem, hkey, by first | rfl | trivial, by first | rfl | trivial,
        Or.inl ⟨hc, by first | rfl | trivial⟩⟩
    · have hcb : ((s.q.pq[s.q.pq.length - i - 1]).pri.cls == 0) = false := by simpa using hc
      simp only [hcb, Bool.false_eq_true, if_false]
      by_cases hchg : (PV.lt (s.q.pq[s.q.pq.length - i - 1]).pri { base := np, insertedAt := s.nIns } ||
          PV.lt { base := np, insertedAt := s.nIns } (s.q.pq[s.q.pq.length - i - 1]).pri) = true
      · simp only [hchg, if_true]
        refine ⟨_, hmem, hkey, by first | rfl | trivial, by first | rfl | trivial,
          Or.inr ⟨hc, Or.inr ⟨?_, ?_⟩⟩⟩
        · exact h.r.set_pri hl _ hi _
        · intro e he hce
          simp only [specResched, List.mem_map] at he
          obtain ⟨y, hy, rfl⟩ := he
          split at hce
          · simp at hce
          · split
            · rfl
            · exact h.cls0 y hy hce
      · simp only [hchg, Bool.false_eq_true, if_false]
        exact ⟨_, hmem, hkey, by first | rfl | trivial, by first | rfl | trivial,
          Or.inr ⟨hc, Or.inl (by first | rfl | trivial)⟩⟩

end Asynkit
