/-
Helper lemmas for C04: segment chains, and the per-entry-point invariants of CoroStart.
-/
import Asynkit.Model.Ctx

namespace Asynkit.Ctx
open Asynkit.Proto

/-- `Chain m segs m'`: the segments were executed one after the other on one evolving mapping:
    the first one saw `m`, each later one saw exactly what its predecessor left, and the last one
    left `m'`  (`m = m'` when there is no segment). -/
def Chain : Mapping → List Seg → Mapping → Prop
  | m, [], m' => m = m'
  | m, s :: ss, m' => s.seen = m ∧ Chain s.left ss m'

theorem Chain.append {l1 l2 : List Seg} {a b c : Mapping} (h1 : Chain a l1 b) (h2 : Chain b l2 c) :
    Chain a (l1 ++ l2) c := by
  induction l1 generalizing a with
  | nil => simp only [Chain] at h1; subst h1; simpa using h2
  | cons s ss ih => exact ⟨h1.1, ih h1.2⟩

theorem Chain.refl (m : Mapping) : Chain m [] m := rfl

variable {b : EBody}

theorem chain_resumeBody (s : b.σ) (r : Resume) (m : Mapping) :
    Chain m (ECoro.resumeBody b s r m).segs (ECoro.resumeBody b s r m).m := by
  simp only [ECoro.resumeBody]
  split <;> simp [Chain]

theorem chain_send (st : CState b.σ) (v : Val) (m : Mapping) :
    Chain m (ECoro.send b st v m).segs (ECoro.send b st v m).m := by
  unfold ECoro.send
  split
  · split
    · simp [Chain]
    · exact chain_resumeBody ..
  · exact chain_resumeBody ..
  · simp [Chain]

theorem chain_throw (st : CState b.σ) (e : Exc) (m : Mapping) :
    Chain m (ECoro.throw b st e m).segs (ECoro.throw b st e m).m := by
  unfold ECoro.throw
  split
  · simp [Chain]
  · exact chain_resumeBody ..
  · simp [Chain]

theorem chain_close (st : CState b.σ) (m : Mapping) :
    Chain m (ECoro.close b st m).segs (ECoro.close b st m).m := by
  unfold ECoro.close
  split
  · simp [Chain]
  · simp [Chain]
  · have h := chain_resumeBody (b := b) ‹_› (.throw .genExit) m
    dsimp only
    split <;> simpa using h

/-- What one driver step does when a context is supplied: the coroutine's segments continue the
    chain of its private mapping, the supplied Context ends up holding the end of that chain, and
    the caller's mapping is what the caller itself made of it. -/
def GoodStep (view cur' : Mapping) (s : SR b) : Prop :=
  ∃ view', s.w.ctx = some view' ∧ Chain view s.segs view' ∧ s.cur = cur'

/-- The same when no context was supplied: the segments run on the caller's own mapping. -/
def SharedStep (cur : Mapping) (s : SR b) : Prop :=
  s.w.ctx = none ∧ Chain cur s.segs s.cur

/-! ### context supplied (`repaired` wrapping) -/

theorem relay_good (w : CS b) (view cur : Mapping) (f : Mapping → R (CState b.σ))
    (hf : Chain view (f view).segs (f view).m) :
    GoodStep view cur (relay w (inCtx true (some view) cur f)) := by
  simp only [relay, inCtx]
  split
  · exact ⟨_, rfl, hf, rfl⟩
  · exact ⟨_, by simp [finish], hf, rfl⟩

theorem awStart_good (w : CS b) (view : Mapping) (h : w.ctx = some view) (cur : Mapping) :
    GoodStep view cur (awStart repaired w cur) := by
  obtain ⟨coro, sr, ctx, it, sw, ct⟩ := w
  simp only at h
  subst h
  unfold awStart
  simp only
  split
  · exact ⟨(ECoro.send b coro 0 view).m, by simp [finish, inCtx, repaired],
      by simpa [inCtx, repaired] using chain_send .., by simp [inCtx, repaired]⟩
  · exact ⟨_, rfl, rfl, rfl⟩
  · exact ⟨_, by simp [finish], rfl, rfl⟩

theorem awLoop_good (w : CS b) (view : Mapping) (h : w.ctx = some view) (r : Resume) (cur : Mapping) :
    GoodStep view cur (awLoop repaired w r cur) := by
  obtain ⟨coro, sr, ctx, it, sw, ct⟩ := w
  simp only at h
  subst h
  unfold awLoop
  cases r with
  | send v => exact relay_good _ _ _ _ (chain_send ..)
  | throw e =>
    simp only
    split
    · exact ⟨(ECoro.close b coro view).m, by simp [finish, inCtx, repaired],
        by simpa [inCtx, repaired] using chain_close .., by simp [inCtx, repaired]⟩
    · exact relay_good _ _ _ _ (chain_throw ..)

theorem awResume_good (w : CS b) (view : Mapping) (h : w.ctx = some view) (r : Resume) (cur : Mapping) :
    GoodStep view cur (awResume repaired w r cur) := by
  unfold awResume
  split
  · cases r <;> exact ⟨_, h, rfl, rfl⟩
  · cases r with
    | throw e =>
      simp only
      split
      · obtain ⟨v1, h1, h2, h3⟩ := awStart_good w view h cur
        split
        · obtain ⟨v2, g1, g2, g3⟩ := awLoop_good (awStart repaired w cur).w v1 h1 (.throw e) (awStart repaired w cur).cur
          exact ⟨v2, g1, Chain.append h2 g2, by rw [g3, h3]⟩
        · exact ⟨v1, h1, h2, h3⟩
      · exact ⟨_, by simpa [finish] using h, rfl, rfl⟩
    | send v =>
      simp only
      split
      · exact ⟨_, h, rfl, rfl⟩
      · exact awStart_good w view h cur
  · exact awLoop_good w view h r cur

theorem awClose_good (w : CS b) (view : Mapping) (h : w.ctx = some view) (cur : Mapping) :
    GoodStep view cur (awClose repaired w cur) := by
  unfold awClose
  split
  · exact ⟨_, h, rfl, rfl⟩
  · split
    · exact ⟨_, h, rfl, rfl⟩
    · have g := awResume_good w view h (.throw .genExit) cur
      dsimp only
      split <;> exact g

theorem athrow_good (w : CS b) (view : Mapping) (h : w.ctx = some view) (e : Exc) (cur : Mapping) :
    GoodStep view cur (athrow repaired w e cur) := by
  unfold athrow
  simp only [h, inCtx, repaired]
  have g := awStart_good (b := b)
    ⟨(ECoro.throw b w.coro e view).st, some (ECoro.throw b w.coro e view).out,
      some (ECoro.throw b w.coro e view).m, .fresh, false, false⟩ _ rfl cur
  obtain ⟨v', h1, h2, h3⟩ := g
  exact ⟨v', h1, Chain.append (chain_throw ..) h2, h3⟩

theorem aclose_good (w : CS b) (view : Mapping) (h : w.ctx = some view) (cur : Mapping) :
    GoodStep view cur (aclose repaired w cur) := by
  unfold aclose
  split
  · exact ⟨_, h, rfl, rfl⟩
  · have g := athrow_good w view h .genExit cur
    dsimp only
    split <;> exact g
  · exact ⟨_, h, rfl, rfl⟩

theorem sthrow_good (n : Nat) (w : CS b) (view : Mapping) (h : w.ctx = some view) (e : Exc) (cur : Mapping) :
    GoodStep view cur (sthrow repaired w e n cur) := by
  induction n generalizing w view with
  | zero => exact ⟨_, h, rfl, rfl⟩
  | succ n ih =>
    unfold sthrow
    simp only [h, inCtx, repaired]
    split
    · have g := ih ⟨(ECoro.throw b w.coro e view).st, w.sr, some (ECoro.throw b w.coro e view).m, w.it, w.swallow, w.cont⟩
        _ rfl
      obtain ⟨v', h1, h2, h3⟩ := g
      exact ⟨v', h1, Chain.append (chain_throw ..) h2, h3⟩
    · exact ⟨_, rfl, chain_throw .., rfl⟩

theorem sclose_good (w : CS b) (view : Mapping) (h : w.ctx = some view) (cur : Mapping) :
    GoodStep view cur (sclose repaired w cur) := by
  unfold sclose
  simp only [h, inCtx, repaired]
  exact ⟨_, rfl, chain_close .., rfl⟩

theorem step_good (w : CS b) (view : Mapping) (h : w.ctx = some view) (op : Op) (cur : Mapping) :
    GoodStep view (callerEffect cur op) (step repaired w op cur) := by
  cases op with
  | awSend v => exact awResume_good w view h _ cur
  | awThrow e => exact awResume_good w view h _ cur
  | awClose => exact awClose_good w view h cur
  | newIt => exact ⟨_, h, rfl, rfl⟩
  | athrow e => exact athrow_good w view h e cur
  | aclose => exact aclose_good w view h cur
  | sthrow e n => exact sthrow_good n w view h e cur
  | sclose => exact sclose_good w view h cur
  | callerSet x v => exact ⟨_, h, rfl, rfl⟩

theorem init_good (b : EBody) (m0 cur : Mapping) (cont : Bool) :
    GoodStep m0 cur (init repaired b (some m0) cur cont) := by
  unfold init
  simp only [inCtx, repaired]
  exact ⟨_, rfl, chain_send .., rfl⟩

theorem runFrom_good (ops : List Op) (w : CS b) (view : Mapping) (h : w.ctx = some view) (cur : Mapping) :
    ∃ view', (runFrom repaired w cur ops).w.ctx = some view' ∧
      Chain view (runFrom repaired w cur ops).segs view' ∧
      (runFrom repaired w cur ops).cur = ops.foldl callerEffect cur := by
  induction ops generalizing w view cur with
  | nil => exact ⟨_, h, rfl, rfl⟩
  | cons op ops ih =>
    obtain ⟨v1, h1, h2, h3⟩ := step_good w view h op cur
    obtain ⟨v2, g1, g2, g3⟩ := ih (step repaired w op cur).w v1 h1 (step repaired w op cur).cur
    refine ⟨v2, g1, Chain.append h2 g2, ?_⟩
    simp only [runFrom, List.foldl_cons]
    rw [g3, h3]

/-! ### no context supplied (any wrapping) -/

theorem inCtx_none {α : Type} (wrap : Bool) (cur : Mapping) (f : Mapping → R α) :
    inCtx wrap none cur f = (f cur, none) := by
  cases wrap <;> rfl

theorem relay_shared (w : CS b) (cur : Mapping) (x : R (CState b.σ))
    (hf : Chain cur x.segs x.m) :
    SharedStep cur (relay w (x, none)) := by
  simp only [relay]
  split
  · exact ⟨rfl, hf⟩
  · exact ⟨by simp [finish], hf⟩

theorem awStart_shared (W : Wraps) (w : CS b) (h : w.ctx = none) (cur : Mapping) :
    SharedStep cur (awStart W w cur) := by
  obtain ⟨coro, sr, ctx, it, sw, ct⟩ := w
  simp only at h
  subst h
  unfold awStart
  simp only [inCtx_none]
  split
  · exact ⟨by simp [finish], chain_send ..⟩
  · exact ⟨rfl, rfl⟩
  · exact ⟨by simp [finish], rfl⟩

theorem awLoop_shared (W : Wraps) (w : CS b) (h : w.ctx = none) (r : Resume) (cur : Mapping) :
    SharedStep cur (awLoop W w r cur) := by
  obtain ⟨coro, sr, ctx, it, sw, ct⟩ := w
  simp only at h
  subst h
  unfold awLoop
  cases r with
  | send v => simp only [inCtx_none]; exact relay_shared _ _ _ (chain_send ..)
  | throw e =>
    simp only [inCtx_none]
    split
    · exact ⟨by simp [finish], chain_close ..⟩
    · exact relay_shared _ _ _ (chain_throw ..)

theorem awResume_shared (W : Wraps) (w : CS b) (h : w.ctx = none) (r : Resume) (cur : Mapping) :
    SharedStep cur (awResume W w r cur) := by
  unfold awResume
  split
  · cases r <;> exact ⟨h, rfl⟩
  · cases r with
    | throw e =>
      simp only
      split
      · obtain ⟨h1, h2⟩ := awStart_shared W w h cur
        split
        · obtain ⟨g1, g2⟩ := awLoop_shared W (awStart W w cur).w h1 (.throw e) (awStart W w cur).cur
          exact ⟨g1, Chain.append h2 g2⟩
        · exact ⟨h1, h2⟩
      · exact ⟨by simpa [finish] using h, rfl⟩
    | send v =>
      simp only
      split
      · exact ⟨h, rfl⟩
      · exact awStart_shared W w h cur
  · exact awLoop_shared W w h r cur

theorem awClose_shared (W : Wraps) (w : CS b) (h : w.ctx = none) (cur : Mapping) :
    SharedStep cur (awClose W w cur) := by
  unfold awClose
  split
  · exact ⟨h, rfl⟩
  · split
    · exact ⟨h, rfl⟩
    · have g := awResume_shared W w h (.throw .genExit) cur
      dsimp only
      split <;> exact g

theorem athrow_shared (W : Wraps) (w : CS b) (h : w.ctx = none) (e : Exc) (cur : Mapping) :
    SharedStep cur (athrow W w e cur) := by
  unfold athrow
  simp only [h, inCtx_none]
  have g := awStart_shared (b := b) W
    ⟨(ECoro.throw b w.coro e cur).st, some (ECoro.throw b w.coro e cur).out, none, .fresh, false, false⟩ rfl
    (ECoro.throw b w.coro e cur).m
  exact ⟨g.1, Chain.append (chain_throw ..) g.2⟩

theorem aclose_shared (W : Wraps) (w : CS b) (h : w.ctx = none) (cur : Mapping) :
    SharedStep cur (aclose W w cur) := by
  unfold aclose
  split
  · exact ⟨h, rfl⟩
  · have g := athrow_shared W w h .genExit cur
    dsimp only
    split <;> exact g
  · exact ⟨h, rfl⟩

theorem sthrow_shared (W : Wraps) (n : Nat) (w : CS b) (h : w.ctx = none) (e : Exc) (cur : Mapping) :
    SharedStep cur (sthrow W w e n cur) := by
  induction n generalizing w cur with
  | zero => exact ⟨h, rfl⟩
  | succ n ih =>
    unfold sthrow
    simp only [h, inCtx_none]
    split
    · have g := ih ⟨(ECoro.throw b w.coro e cur).st, w.sr, none, w.it, w.swallow, w.cont⟩ rfl (ECoro.throw b w.coro e cur).m
      exact ⟨g.1, Chain.append (chain_throw ..) g.2⟩
    · exact ⟨rfl, chain_throw ..⟩

theorem sclose_shared (W : Wraps) (w : CS b) (h : w.ctx = none) (cur : Mapping) :
    SharedStep cur (sclose W w cur) := by
  unfold sclose
  simp only [h, inCtx_none]
  exact ⟨rfl, chain_close ..⟩

theorem init_shared (W : Wraps) (b : EBody) (cur : Mapping) (cont : Bool) :
    SharedStep cur (init W b none cur cont) := by
  unfold init
  simp only [inCtx_none]
  exact ⟨rfl, chain_send ..⟩

/-- `coro.close()` never reports a yield or a GeneratorExit -/
theorem close_out (st : CState b.σ) (m : Mapping) :
    (∃ v, (ECoro.close b st m).out = .ret v) ∨
    (∃ e, (ECoro.close b st m).out = .raise e ∧ e ≠ .genExit) := by
  unfold ECoro.close
  split
  · exact .inl ⟨_, rfl⟩
  · exact .inl ⟨_, rfl⟩
  · dsimp only
    split
    · exact .inr ⟨_, rfl, by simp⟩
    · exact .inl ⟨_, rfl⟩
    · exact .inl ⟨_, rfl⟩
    · rename_i e hne heq
      refine .inr ⟨_, heq, ?_⟩
      intro h; subst h; exact hne rfl


/-! ### `coro_await(coro)` without a context simulates native `await` -/

/-- simulation relation between `coro_await(coro)` (context None) in its relay loop and the
    native `await coro` -/
def Sim (s : Option (CS b)) (st : CState b.σ) : Prop :=
  ∃ w, s = some w ∧ w.ctx = none ∧ w.it = .loop ∧ w.swallow = false ∧ w.coro = st

theorem sim_step (W : Wraps) (s : Option (CS b)) (st : CState b.σ) (h : Sim s st) (r : Resume) (m : Mapping) :
    ((coroAwaitNone W b).resume s r m).2 = ((nativeAwaitE b).resume st r m).2 ∧
    (∀ y, ((coroAwaitNone W b).resume s r m).2.1 = .yield y →
      Sim ((coroAwaitNone W b).resume s r m).1 ((nativeAwaitE b).resume st r m).1) := by
  obtain ⟨w, rfl, hc, hi, hs, rfl⟩ := h
  obtain ⟨coro, sr, ctx, it, sw, ct⟩ := w
  simp only at hc hi hs
  subst hc hi hs
  cases r with
  | send v =>
    simp only [coroAwaitNone, nativeAwaitE, awResume, awLoop, inCtx_none, relay]
    split
    · rename_i y hy
      refine ⟨by simp [hy], fun y' _ => ⟨_, rfl, rfl, rfl, rfl, rfl⟩⟩
    · rename_i hny
      refine ⟨?_, ?_⟩
      · simp [finish]
      · intro y hy
        simp [finish] at hy
        exact absurd hy (hny y)
  | throw e =>
    simp only [coroAwaitNone, nativeAwaitE, awResume, awLoop, inCtx_none]
    split
    · -- GeneratorExit
      rcases close_out (b := b) coro m with ⟨v, hv⟩ | ⟨e', he', hne⟩
      · simp [finish, hv]
      · simp [finish, he']
    · simp only [relay]
      split
      · rename_i y hy
        refine ⟨by simp [hy], fun y' _ => ⟨_, rfl, rfl, rfl, rfl, rfl⟩⟩
      · rename_i hny
        refine ⟨by simp [finish], ?_⟩
        intro y hy
        simp [finish] at hy
        exact absurd hy (hny y)

theorem sim_first (W : Wraps) (m : Mapping) :
    ((coroAwaitNone W b).resume none (.send 0) m).2 = ((nativeAwaitE b).resume (.created b.init) (.send 0) m).2 ∧
    (∀ y, ((coroAwaitNone W b).resume none (.send 0) m).2.1 = .yield y →
      Sim ((coroAwaitNone W b).resume none (.send 0) m).1 ((nativeAwaitE b).resume (.created b.init) (.send 0) m).1) := by
  simp only [coroAwaitNone, nativeAwaitE, init, awStart, inCtx_none]
  split
  · rename_i hsr; simp at hsr
  · rename_i y hsr
    simp only [Option.some.injEq] at hsr
    refine ⟨by simp [hsr], fun _ _ => ⟨_, rfl, rfl, rfl, rfl, rfl⟩⟩
  · rename_i o hny hsr
    simp only [Option.some.injEq] at hsr
    subst hsr
    refine ⟨by simp [finish], ?_⟩
    intro y hy
    simp [finish] at hy
    exact absurd hy (hny y)

theorem etrace_sim (W : Wraps) (rs : List Resume) (s : Option (CS b)) (st : CState b.σ) (h : Sim s st)
    (m : Mapping) :
    etrace (coroAwaitNone W b).resume s rs m = etrace (nativeAwaitE b).resume st rs m := by
  induction rs generalizing s st m with
  | nil => rfl
  | cons r rs ih =>
    obtain ⟨h1, h2⟩ := sim_step W s st h r m
    simp only [etrace]
    generalize hx : (coroAwaitNone W b).resume s r m = x at h1 h2
    generalize hy : (nativeAwaitE b).resume st r m = y at h1 h2
    obtain ⟨s1, o1, m1⟩ := x
    obtain ⟨s2, o2, m2⟩ := y
    simp only [Prod.mk.injEq] at h1
    obtain ⟨rfl, rfl⟩ := h1
    cases o1 with
    | yield y => simp only; rw [ih _ _ (h2 y rfl)]
    | ret v => rfl
    | raise e => rfl

/-! ### with a context, nothing but the caller's own mapping depends on the caller's mapping -/

/-- two step results that differ at most in the caller's mapping -/
def SameButCur (s s' : SR b) : Prop := s.w = s'.w ∧ s.out = s'.out ∧ s.segs = s'.segs

theorem rp_athrow : repaired.athrow = true := rfl
theorem rp_sthrow : repaired.sthrow = true := rfl
theorem rp_sclose : repaired.sclose = true := rfl

theorem SameButCur.rfl' (s : SR b) : SameButCur s s := ⟨rfl, rfl, rfl⟩

theorem rp_reuse : repaired.reuse = true := rfl
theorem rp_send : repaired.send = true := rfl
theorem rp_throw : repaired.throw = true := rfl
theorem rp_genexit : repaired.genexit = true := rfl

theorem awStart_indep (w : CS b) (view : Mapping) (h : w.ctx = some view) (cur cur' : Mapping) :
    SameButCur (awStart repaired w cur) (awStart repaired w cur') := by
  obtain ⟨coro, sr, ctx, it, sw, ct⟩ := w
  simp only at h
  subst h
  unfold awStart
  simp only [inCtx, rp_reuse, SameButCur]
  split <;> exact ⟨rfl, rfl, rfl⟩

theorem awLoop_indep (w : CS b) (view : Mapping) (h : w.ctx = some view) (r : Resume) (cur cur' : Mapping) :
    SameButCur (awLoop repaired w r cur) (awLoop repaired w r cur') := by
  obtain ⟨coro, sr, ctx, it, sw, ct⟩ := w
  simp only at h
  subst h
  unfold awLoop
  cases r <;> simp only [inCtx, rp_send, rp_throw, rp_genexit, relay, SameButCur]
  all_goals repeat (first | exact ⟨rfl, rfl, rfl⟩ | trivial | split)

theorem awResume_indep (w : CS b) (view : Mapping) (h : w.ctx = some view) (r : Resume) (cur cur' : Mapping) :
    SameButCur (awResume repaired w r cur) (awResume repaired w r cur') := by
  unfold awResume
  split
  · cases r <;> exact ⟨rfl, rfl, rfl⟩
  · cases r with
    | throw e =>
      simp only
      split
      · obtain ⟨h1, h2, h3⟩ := awStart_indep w view h cur cur'
        obtain ⟨v1, g1, _, _⟩ := awStart_good w view h cur
        rw [← h2]
        split
        · obtain ⟨k1, k2, k3⟩ := awLoop_indep (awStart repaired w cur).w v1 g1 (.throw e)
            (awStart repaired w cur).cur (awStart repaired w cur').cur
          rw [← h1, ← h3]
          exact ⟨k1, k2, by simp only [k3]⟩
        · exact ⟨h1, h2, h3⟩
      · exact ⟨rfl, rfl, rfl⟩
    | send v =>
      simp only
      split
      · exact ⟨rfl, rfl, rfl⟩
      · exact awStart_indep w view h cur cur'
  · exact awLoop_indep w view h r cur cur'

theorem awClose_indep (w : CS b) (view : Mapping) (h : w.ctx = some view) (cur cur' : Mapping) :
    SameButCur (awClose repaired w cur) (awClose repaired w cur') := by
  unfold awClose
  split
  · exact ⟨rfl, rfl, rfl⟩
  · split
    · exact ⟨rfl, rfl, rfl⟩
    · obtain ⟨h1, h2, h3⟩ := awResume_indep w view h (.throw .genExit) cur cur'
      simp only [SameButCur]
      rw [h2]
      split <;> simp [h1, h2, h3]

theorem athrow_indep (w : CS b) (view : Mapping) (h : w.ctx = some view) (e : Exc) (cur cur' : Mapping) :
    SameButCur (athrow repaired w e cur) (athrow repaired w e cur') := by
  unfold athrow
  simp only [h, inCtx, rp_athrow]
  obtain ⟨h1, h2, h3⟩ := awStart_indep (b := b)
    ⟨(ECoro.throw b w.coro e view).st, some (ECoro.throw b w.coro e view).out,
      some (ECoro.throw b w.coro e view).m, .fresh, false, false⟩ _ rfl cur cur'
  exact ⟨h1, h2, by simp [h3]⟩

theorem aclose_indep (w : CS b) (view : Mapping) (h : w.ctx = some view) (cur cur' : Mapping) :
    SameButCur (aclose repaired w cur) (aclose repaired w cur') := by
  unfold aclose
  split
  · exact ⟨rfl, rfl, rfl⟩
  · obtain ⟨h1, h2, h3⟩ := athrow_indep w view h .genExit cur cur'
    simp only [SameButCur]
    rw [h2]
    split <;> simp [h1, h2, h3]
  · exact ⟨rfl, rfl, rfl⟩

theorem sthrow_indep (n : Nat) (w : CS b) (view : Mapping) (h : w.ctx = some view) (e : Exc) (cur cur' : Mapping) :
    SameButCur (sthrow repaired w e n cur) (sthrow repaired w e n cur') := by
  induction n generalizing w view with
  | zero => exact ⟨rfl, rfl, rfl⟩
  | succ n ih =>
    unfold sthrow
    simp only [h, inCtx, rp_sthrow]
    split
    · obtain ⟨h1, h2, h3⟩ := ih ⟨(ECoro.throw b w.coro e view).st, w.sr, some (ECoro.throw b w.coro e view).m, w.it, w.swallow, w.cont⟩
        _ rfl
      exact ⟨h1, h2, by simp [h3]⟩
    · exact ⟨rfl, rfl, rfl⟩

theorem step_indep (w : CS b) (view : Mapping) (h : w.ctx = some view) (op : Op) (cur cur' : Mapping) :
    SameButCur (step repaired w op cur) (step repaired w op cur') := by
  cases op with
  | awSend v => exact awResume_indep w view h _ cur cur'
  | awThrow e => exact awResume_indep w view h _ cur cur'
  | awClose => exact awClose_indep w view h cur cur'
  | newIt => exact ⟨rfl, rfl, rfl⟩
  | athrow e => exact athrow_indep w view h e cur cur'
  | aclose => exact aclose_indep w view h cur cur'
  | sthrow e n => exact sthrow_indep n w view h e cur cur'
  | sclose => simp only [step, sclose, h, inCtx, repaired]; exact ⟨rfl, rfl, rfl⟩
  | callerSet x v => exact ⟨rfl, rfl, rfl⟩

theorem runFrom_indep (ops : List Op) (w : CS b) (view : Mapping) (h : w.ctx = some view) (cur cur' : Mapping) :
    (runFrom repaired w cur ops).w = (runFrom repaired w cur' ops).w ∧
    (runFrom repaired w cur ops).outs = (runFrom repaired w cur' ops).outs ∧
    (runFrom repaired w cur ops).segs = (runFrom repaired w cur' ops).segs := by
  induction ops generalizing w view cur cur' with
  | nil => exact ⟨rfl, rfl, rfl⟩
  | cons op ops ih =>
    obtain ⟨h1, h2, h3⟩ := step_indep w view h op cur cur'
    obtain ⟨v1, g1, _, _⟩ := step_good w view h op cur
    simp only [runFrom]
    rw [← h1, h2, h3]
    obtain ⟨k1, k2, k3⟩ := ih (step repaired w op cur).w v1 g1 (step repaired w op cur).cur (step repaired w op cur').cur
    exact ⟨k1, by rw [k2], by rw [k3]⟩

end Asynkit.Ctx
