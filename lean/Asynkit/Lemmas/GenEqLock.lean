/-
C11 / C12 / C13 — the generated translation of the lock layer (`Asynkit/Gen/Lock.lean`, regenerated
from /repo/src/asynkit/experimental/priority.py on every run by translator/lock2lean.py) is the
hand-written model the theorems of Props/C11-C13 are about:

  Gen.taskEffectivePriority / lockEffectivePriority  =  PrioGraph.effT / effL   (every state, every fuel)
  Gen.taskPropagatePriority / lockPropagatePriority  =  Lock.propT / propL
  Gen.lockTakeLock, lockWakeUpFirst, lockRelease     =  State.takeLock, wakeUpFirst, Ev.release / Ev.badRelease
  Gen.lockAcquireEntry / ResumeValue / ResumeThrow   =  Ev.acquire / Ev.resume on a task suspended in acquire

The model additionally keeps a ghost record (`owns`) and the kernel's bookkeeping of a task step
(status, `cur`, `pos`); `noteOwned`, `noteReleased`, `kernelResume`, `queuedState`, `leaveAcquire` below are
exactly that and nothing else.
-/
import Asynkit.Gen.Lock
import Asynkit.Lemmas.C11Inherit3

namespace Asynkit.GenEqLock
open Asynkit Asynkit.Lock Asynkit.PrioGraph

/-- a task that is not a PriorityTask records no held lock (part of `Lock.Inv`) -/
def PlainHoldNothing (s : State) : Prop := ∀ i, (s.tasks i).prio = none → (s.tasks i).holding = []

theorem Inv.plain {s : State} (h : Inv s) : PlainHoldNothing s := by
  intro i hp
  have := h.holdingOwns i
  simpa [hp] using this

/-! ### effective priorities -/

theorem foldl_append_map {α β} (f : α → β) (l : List α) (init : List β) :
    List.foldl (fun acc x => acc ++ [f x]) init l = init ++ l.map f := by
  induction l generalizing init with
  | nil => simp
  | cons a l ih => simp [ih]

theorem foldl_min_assoc (xs : List Rat) (a b : Rat) :
    xs.foldl min (min a b) = min a (xs.foldl min b) := by
  induction xs generalizing b with
  | nil => rfl
  | cons y ys ih =>
    simp only [List.foldl_cons]
    have h : min (min a b) y = min a (min b y) := by grind
    rw [h, ih]

theorem foldl_min_minList (l : List Rat) (a : Rat) :
    l.foldl min a = (match minList l with | none => a | some m => min a m) := by
  cases l with
  | nil => rfl
  | cons x xs => simp only [minList, List.foldl_cons]; exact foldl_min_assoc xs a x

theorem filterMap_id_map {α β} (g : α → Option β) (l : List α) :
    (l.map g).filterMap (fun p => p) = l.filterMap g := by
  induction l with
  | nil => rfl
  | cons a l ih => simp only [List.map_cons, List.filterMap_cons, ih]

end Asynkit.GenEqLock

namespace Asynkit.GenEqLock
open Asynkit Asynkit.Lock Asynkit.PrioGraph

theorem min_if (a b : Rat) : (if b < a then b else a) = min a b := by grind

/-- `PriorityTask.effective_priority` / `PriorityLock.effective_priority` (the Python source) are
    `PrioGraph.effT / effL` on the graph of the state - for every state and every recursion bound.
    (`fuel`: Python recurses without bound; `C11.eff_fuel_independent` shows that every bound above
    the rank gives the same value on an acyclic wait-for graph.) -/
theorem eff_eq (s : State) (hp : PlainHoldNothing s) : ∀ f,
    (∀ t, isPrio s t = true → Gen.taskEffectivePriority s f t = effT s.graph f t) ∧
    (∀ k, Gen.lockEffectivePriority s f k = effL s.graph f k) := by
  have hplain : ∀ f t, isPrio s t = false → effT s.graph f t = 0 := by
    intro f t h
    have hn : (s.tasks t).prio = none := by
      simp only [isPrio] at h; cases hh : (s.tasks t).prio <;> simp [hh] at h ⊢
    cases f with
    | zero => simp [effT_zero, State.graph, hn]
    | succ f => simp [effT_succ, State.graph, hn, hp t hn]
  intro f
  induction f with
  | zero =>
    constructor
    · intro t _; simp [Gen.taskEffectivePriority, fuelOutRat, priorityValue, effT_zero, State.graph]
    · intro k; simp [Gen.lockEffectivePriority, effL_zero]
  | succ f ih =>
    constructor
    · intro t _
      have hl : ∀ l, Gen.lockEffectivePriority s f l = effL s.graph f l := ih.2
      simp only [Gen.taskEffectivePriority, Gen.taskPriority, holdingLocks, minOpt, priorityValue, hl,
        filterMap_id_map, effT_succ, foldl_min_minList]
      simp only [State.graph]
      split <;> simp_all [min_if]
    · intro k
      simp only [Gen.lockEffectivePriority, waitersOf, minOpt, effL_succ, foldl_append_map, List.nil_append]
      by_cases he : (s.locks k).waiters = []
      · simp [he, State.graph, minList]
      · have : (s.locks k).waiters.isEmpty = false := by
          cases hw : (s.locks k).waiters <;> simp_all
        simp only [this, Bool.false_eq_true, if_false, State.graph, List.map_map]
        congr 1
        apply List.map_congr_left
        intro w _
        simp only [Function.comp]
        by_cases hpw : isPrio s w.task = true
        · simp [hpw, ih.1 w.task hpw, State.graph]
        · have hpw' : isPrio s w.task = false := by simpa using hpw
          have := hplain f w.task hpw'
          simp [hpw', State.graph] at this ⊢
          exact this.symm

/-- with the recursion bound of the state: `task.effective_priority()`, or 0 for a task without the
    method, is the model's `State.eff` -/
theorem eff_eq_state (s : State) (hp : PlainHoldNothing s) (t : Nat) :
    (if isPrio s t then Gen.taskEffectivePriority s s.fuel t else 0) = s.eff t := by
  by_cases h : isPrio s t = true
  · simp [h, (eff_eq s hp s.fuel).1 t h, State.eff]
  · have h' : isPrio s t = false := by simpa using h
    have hn : (s.tasks t).prio = none := by
      simp only [isPrio] at h'; cases hh : (s.tasks t).prio <;> simp [hh] at h' ⊢
    simp only [h', Bool.false_eq_true, if_false, State.eff]
    cases hf : s.fuel with
    | zero => simp [effT_zero, State.graph, hn]
    | succ f => simp [effT_succ, State.graph, hn, hp t hn]

end Asynkit.GenEqLock

namespace Asynkit.GenEqLock
open Asynkit Asynkit.Lock Asynkit.PrioGraph

/-! ### state extensionality helpers -/

theorem state_ext {a b : State} (ht : a.tasks = b.tasks) (hl : a.locks = b.locks) (he : a.evSet = b.evSet)
    (hc : a.cur = b.cur) (hf : a.fuel = b.fuel) (hp : a.prioLoop = b.prioLoop) : a = b := by
  cases a; cases b; simp_all

theorem setLock_self (s : State) (k : Nat) : s.setLock k (s.locks k) = s := by
  apply state_ext <;> try rfl
  funext j; by_cases c : j = k <;> simp [c]

theorem setTask_self (s : State) (i : Nat) : s.setTask i (s.tasks i) = s := by
  apply state_ext <;> try rfl
  funext j; by_cases c : j = i <;> simp [c]

theorem plain_keyEq {s s' : State} (h : PlainHoldNothing s) (e : KeyEq s s') : PlainHoldNothing s' := by
  intro i hi; rw [e.holding]; exact h i (by rw [← e.prio]; exact hi)

theorem isPrio_keyEq {s s' : State} (e : KeyEq s s') (i : Nat) : isPrio s' i = isPrio s i := by
  simp [isPrio, e.prio]

theorem pqReschedule_rekey (s : State) (k i : Nat) (p : Rat) :
    pqReschedule s k (fun w => if w.task = i then true else false) p =
      s.setLock k { s.locks k with waiters := rekey (s.locks k).waiters i p } := by
  simp only [pqReschedule, rekey]
  congr 2
  apply List.map_congr_left
  intro w _
  by_cases c : w.task = i <;> simp [c]

/-- the re-keying tail of `PriorityLock.propagate_priority` -/
theorem rekey_tail (s : State) (hp : PlainHoldNothing s) (k i : Nat) (hi : isPrio s i = true) :
    (if (waitersOf s k).isEmpty then (Except.ok s : Except (LockErr × State) State)
     else .ok (pqReschedule s k (fun w => if w.task = i then true else false)
                (Gen.taskEffectivePriority s s.fuel i))) =
      .ok (s.setLock k { s.locks k with waiters := rekey (s.locks k).waiters i (s.eff i) }) := by
  have he : Gen.taskEffectivePriority s s.fuel i = s.eff i := by
    have := eff_eq_state s hp i; simpa [hi] using this
  by_cases c : (s.locks k).waiters = []
  · have : s.setLock k { s.locks k with waiters := rekey (s.locks k).waiters i (s.eff i) } = s := by
      rw [c]; simp only [rekey, List.map_nil]
      have : ({ s.locks k with waiters := [] } : LockSt) = s.locks k := by
        cases h : s.locks k; simp_all
      rw [this, setLock_self]
    rw [this]; simp [waitersOf, c]
  · have : (s.locks k).waiters.isEmpty = false := by cases hw : (s.locks k).waiters <;> simp_all
    simp only [waitersOf, this, Bool.false_eq_true, if_false, he, pqReschedule_rekey]

/-- `PriorityTask.propagate_priority` / `PriorityLock.propagate_priority` (the Python source) are the
    model's `propT` / `propL`, for every state and recursion bound.  `propT` tests "is a PriorityTask"
    itself; in Python that test is the `except AttributeError` at each call site. -/
theorem prop_eq : ∀ (f : Nat) (s : State), PlainHoldNothing s →
    (∀ o x, isPrio s o = true → Gen.taskPropagatePriority f s o x = .ok (propT s f o)) ∧
    (∀ k i, isPrio s i = true → Gen.lockPropagatePriority f s k i = .ok (propL s f k i)) := by
  intro f
  induction f with
  | zero =>
    intro s _
    exact ⟨fun o x _ => by simp [Gen.taskPropagatePriority, propT],
           fun k i _ => by simp [Gen.lockPropagatePriority, propL]⟩
  | succ f ih =>
    intro s hp
    constructor
    · intro o x ho
      have hn : (s.tasks o).prio.isNone = false := by
        simp only [isPrio] at ho; cases h : (s.tasks o).prio <;> simp [h] at ho ⊢
      have he : Gen.taskEffectivePriority s s.fuel o = s.eff o := by
        have := eff_eq_state s hp o; simpa [ho] using this
      simp only [Gen.taskPropagatePriority, propT, hn, taskIsRunnable, loopHasReschedule, loopTaskReschedule,
        waitingOnOf, he, Bool.false_eq_true, if_false]
      by_cases hr : (s.tasks o).status.runnable = true
      · simp only [hr, if_true]
        by_cases hl : s.prioLoop = true <;> by_cases hk : (s.tasks o).rkey.isSome = true <;> simp [hl, hk]
      · simp only [hr, Bool.false_eq_true, if_false]
        cases hw : (s.tasks o).waitingOn with
        | none => rfl
        | some k1 => simp only []; rw [(ih s hp).2 k1 o ho]
    · intro k i hi
      simp only [Gen.lockPropagatePriority, propL, lockOwning]
      cases ho : (s.locks k).owner with
      | none =>
        simp only [hi, if_true]
        exact rekey_tail s hp k i hi
      | some o =>
        simp only []
        by_cases hpo : isPrio s o = true
        · simp only [hpo, if_true, (ih s hp).1 o k hpo]
          have e := propT_keyEq s f o
          have hi' : isPrio (propT s f o) i = true := by rw [isPrio_keyEq e]; exact hi
          simp only [hi', if_true]
          exact rekey_tail _ (plain_keyEq hp e) k i hi'
        · have hpo' : isPrio s o = false := by simpa using hpo
          have hn : (s.tasks o).prio.isNone = true := by
            simp only [isPrio] at hpo'; cases h : (s.tasks o).prio <;> simp [h] at hpo' ⊢
          have hT : propT s f o = s := by
            cases f with
            | zero => rfl
            | succ f' => simp [propT, hn]
          simp only [hpo', Bool.false_eq_true, if_false, hi, if_true, hT]
          exact rekey_tail s hp k i hi

end Asynkit.GenEqLock

namespace Asynkit.GenEqLock
open Asynkit Asynkit.Lock Asynkit.PrioGraph

/-! ### `_wake_up_first`, `_take_lock`, `release` -/

theorem foldl_any (f : Bool → Waiter → Bool) (p : Waiter → Bool) (h : ∀ a x, f a x = (a || p x))
    (l : List Waiter) (b : Bool) : List.foldl f b l = (b || l.any p) := by
  induction l generalizing b with
  | nil => simp
  | cons a l ih => simp only [List.foldl_cons, List.any_cons, ih, h]; cases b <;> simp

/-- `PriorityLock._wake_up_first` (the Python source) is the model's `wakeUpFirst`, in every state -/
theorem wakeUpFirst_eq (s : State) (k : Nat) : Gen.lockWakeUpFirst s k = .ok (s.wakeUpFirst k) := by
  unfold Gen.lockWakeUpFirst State.wakeUpFirst
  rw [foldl_any _ (fun x => x.fut.done) (by intro a x; cases a <;> cases h : x.fut.done <;> simp [futDone, h])]
  simp only [waitersOf, pqPeek, futSetResult, Bool.false_or]
  cases hw : (s.locks k).waiters with
  | nil => simp [headW]
  | cons w ws =>
    simp only [List.isEmpty_cons, Bool.false_eq_true, if_false]
    by_cases ha : (w :: ws).any (fun x => x.fut.done) = true
    · simp only [ha, if_true]
    · simp only [ha, Bool.false_eq_true, if_false]
      cases hh : headW (w :: ws) with
      | none => exact absurd (headW_none _ hh) (by simp)
      | some h => rfl

/-- ghost: the model's `owns` list is updated together with `_take_lock` / `release` -/
def noteOwned (s : State) (t k : Nat) : State := s.setTask t { s.tasks t with owns := k :: (s.tasks t).owns }
def noteReleased (s : State) (t k : Nat) : State :=
  s.setTask t { s.tasks t with owns := (s.tasks t).owns.erase k }

/-- `PriorityLock._take_lock`: on a lock without owner it is the model's `takeLock` -/
theorem takeLock_eq (s : State) (k i : Nat) (ho : (s.locks k).owner = none) :
    Gen.lockTakeLock (noteOwned s i k) k i = .ok (s.takeLock k i) := by
  unfold Gen.lockTakeLock
  have h1 : lockOwning (noteOwned s i k) k = none := by simp [lockOwning, noteOwned, ho]
  simp only [h1, Gen.taskAddOwnedLock]
  by_cases hp : (s.tasks i).prio.isSome = true
  · have : isPrio (setOwning (noteOwned s i k) k (some i)) i = true := by
      simp [isPrio, setOwning, noteOwned, hp]
    simp only [this, if_true]
    congr 1
    apply state_ext <;> try rfl
    · funext j; by_cases c : j = i <;> simp [State.takeLock, setLocked, holdingAdd, setOwning, noteOwned, c, hp]
    · funext j; by_cases c : j = k <;> simp [State.takeLock, setLocked, holdingAdd, setOwning, noteOwned, c]
  · have : isPrio (setOwning (noteOwned s i k) k (some i)) i = false := by
      simp [isPrio, setOwning, noteOwned]; simpa using hp
    simp only [this, Bool.false_eq_true, if_false]
    congr 1
    apply state_ext <;> try rfl
    · funext j; by_cases c : j = i <;> simp [State.takeLock, setLocked, setOwning, noteOwned, c, hp]
    · funext j; by_cases c : j = k <;> simp [State.takeLock, setLocked, setOwning, noteOwned, c]

/-- ... and on a lock that has an owner it refuses without touching anything -/
theorem takeLock_refused (s : State) (k i o : Nat) (ho : (s.locks k).owner = some o) :
    Gen.lockTakeLock s k i = .error (.assertion, s) := by
  simp [Gen.lockTakeLock, lockOwning, ho]

/-- `PriorityLock.release` by the owner is the model's `Ev.release` -/
theorem release_eq (s : State) (hp : PlainHoldNothing s) (k i : Nat) (hc : s.cur = some i)
    (ho : (s.locks k).owner = some i) (hl : (s.locks k).locked = true) :
    Gen.lockRelease (noteReleased s i k) k = .ok (s.doRelease i k) := by
  unfold Gen.lockRelease
  have h1 : lockLocked (noteReleased s i k) k = true := by simp [lockLocked, noteReleased, hl]
  have h2 : currentTask (noteReleased s i k) = some i := by simp [currentTask, noteReleased, hc]
  have h3 : lockOwning (noteReleased s i k) k = some i := by simp [lockOwning, noteReleased, ho]
  simp only [h1, h2, h3, if_true, Gen.taskRemoveOwnedLock, wakeUpFirst_eq]
  rw [doRelease_eq]
  by_cases hpi : (s.tasks i).prio.isSome = true
  · have : isPrio (setOwning (noteReleased s i k) k none) i = true := by
      simp [isPrio, setOwning, noteReleased, hpi]
    simp only [this, if_true]
    congr 2
    apply state_ext <;> try rfl
    · funext j; by_cases c : j = i <;> simp [released, setLocked, holdingRemove, setOwning, noteReleased, c]
    · funext j; by_cases c : j = k <;> simp [released, setLocked, holdingRemove, setOwning, noteReleased, c]
  · have hn : (s.tasks i).prio = none := by cases h : (s.tasks i).prio <;> simp [h] at hpi ⊢
    have : isPrio (setOwning (noteReleased s i k) k none) i = false := by
      simp [isPrio, setOwning, noteReleased, hn]
    simp only [this, Bool.false_eq_true, if_false]
    congr 2
    apply state_ext <;> try rfl
    · funext j; by_cases c : j = i <;> simp [released, setLocked, setOwning, noteReleased, c, hp i hn]
    · funext j; by_cases c : j = k <;> simp [released, setLocked, setOwning, noteReleased, c]

/-- `release()` by a task that is not the owner (`Ev.badRelease`), or of a free lock, is refused and the
    state at the raise is the state before the call -/
theorem release_refused (s : State) (k i : Nat) (hc : s.cur = some i)
    (hinv : (s.locks k).locked = (s.locks k).owner.isSome) (hne : (s.locks k).owner ≠ some i) :
    ∃ e, Gen.lockRelease s k = .error (e, s) := by
  unfold Gen.lockRelease
  simp only [lockLocked, currentTask, hc, lockOwning]
  cases ho : (s.locks k).owner with
  | none =>
    have : (s.locks k).locked = false := by rw [hinv, ho]; rfl
    exact ⟨.notAcquired, by simp [this]⟩
  | some o =>
    have : (s.locks k).locked = true := by rw [hinv, ho]; rfl
    have hoi : o ≠ i := by intro e; exact hne (by rw [ho, e])
    exact ⟨.assertion, by simp [this, hoi]⟩

end Asynkit.GenEqLock

namespace Asynkit.GenEqLock
open Asynkit Asynkit.Lock Asynkit.PrioGraph

/-! ### `acquire`, first segment: entry → `await fut` / `return True` -/

theorem setWaitingOn_ok (s : State) (i k : Nat) (hw : (s.tasks i).waitingOn = none) :
    Gen.taskSetWaitingOn s i (some k) = .ok (setWaitingOn s i (some k)) := by
  simp [Gen.taskSetWaitingOn, waitingOnOf, hw]

theorem clearWaitingOn_ok (s : State) (i k : Nat) (hw : (s.tasks i).waitingOn = some k) :
    Gen.taskSetWaitingOn s i none = .ok (setWaitingOn s i none) := by
  simp [Gen.taskSetWaitingOn, waitingOnOf, hw]

theorem newWaiters_noop (s : State) (k : Nat) (h : (s.locks k).waiters = []) : newWaiters s k = s := by
  have : ({ s.locks k with waiters := [] } : LockSt) = s.locks k := by
    cases hh : s.locks k; simp_all
  simp only [newWaiters, this, setLock_self]

theorem appended_prio (s : State) (i k : Nat) (hp : isPrio s i = true) :
    pqAdd (setWaitingOn s i (some k)) k (s.eff i) i = appended s i k := by
  have hp' : (s.tasks i).prio.isSome = true := hp
  apply state_ext <;> try rfl
  · funext j; by_cases c : j = i <;> simp [pqAdd, setWaitingOn, appended, c, hp']
  · funext j; by_cases c : j = k
    · subst c
      simp only [pqAdd, setWaitingOn, appended, setLock_locks, if_true, setTask_locks, hp', if_true]
      congr 3
      rw [eff_setWaitingOn s i i]
    · simp [pqAdd, setWaitingOn, appended, c]

theorem appended_plain (s : State) (i k : Nat) (hp : isPrio s i = false) (hw : (s.tasks i).waitingOn = none) :
    pqAdd s k (s.eff i) i = appended s i k := by
  have hp' : (s.tasks i).prio.isSome = false := hp
  apply state_ext <;> try rfl
  · funext j; by_cases c : j = i
    · subst c; simp [pqAdd, appended, hp']
      cases h : s.tasks j; simp_all
    · simp [pqAdd, appended, c]
  · funext j; by_cases c : j = k
    · subst c
      simp only [pqAdd, appended, setLock_locks, if_true, setTask_locks]
      congr 3
      rw [eff_setWaitingOn s i i]
    · simp [pqAdd, appended, c]

theorem plain_appended {s : State} (h : PlainHoldNothing s) (i k : Nat) : PlainHoldNothing (appended s i k) := by
  intro j hj
  by_cases c : j = i
  · subst c; simp [appended] at hj ⊢; exact h j hj
  · simp [appended, c] at hj ⊢; exact h j hj

theorem lockOwning_appended (s : State) (i k : Nat) : lockOwning (appended s i k) k = (s.locks k).owner := by
  simp [lockOwning, appended]

theorem isPrio_appended (s : State) (i k o : Nat) : isPrio (appended s i k) o = isPrio s o := by
  by_cases c : o = i <;> simp [isPrio, appended, c]

theorem propT_plain (s : State) (f o : Nat) (h : isPrio s o = false) : propT s f o = s := by
  have hn : (s.tasks o).prio.isNone = true := by
    simp only [isPrio] at h; cases hh : (s.tasks o).prio <;> simp [hh] at h ⊢
  cases f with
  | zero => rfl
  | succ f' => simp [propT, hn]

/-- the model's kernel bookkeeping when `Task.__step` sees the future yielded by `await fut`:
    the task is blocked, suspended inside `acquire(k)`, and nothing runs -/
theorem queuedState_def (S : State) (i k : Nat) :
    queuedState S i k = { S.setTask i { S.tasks i with status := .blocked, pos := .acq k } with cur := none } := rfl

/-- **entry, fast path**: lock free and nobody queued - `acquire` returns without suspending, and the
    state is the model's (`Ev.acquire`, fast branch) -/
theorem acquireEntry_fast (s : State) (i k : Nat) (hc : s.cur = some i)
    (hl : (s.locks k).locked = false) (hw : (s.locks k).waiters = []) (ho : (s.locks k).owner = none) :
    Gen.lockAcquireEntry (noteOwned s i k) k = .ok (s.doAcquire i k, .returned) := by
  have hfast : (!(s.locks k).locked && (s.locks k).waiters.isEmpty) = true := by simp [hl, hw]
  rw [doAcquire_fast s i k hfast]
  unfold Gen.lockAcquireEntry
  have h1 : currentTask (noteOwned s i k) = some i := by simp [currentTask, noteOwned, hc]
  have h2 : lockLocked (noteOwned s i k) k = false := by simp [lockLocked, noteOwned, hl]
  have h3 : (waitersOf (noteOwned s i k) k).isEmpty = true := by simp [waitersOf, noteOwned, hw]
  simp only [h1, h2, h3, Bool.false_eq_true, if_false, if_true, takeLock_eq s k i ho]

/-- **entry, queueing path**: the state at the `await fut` is the model's state after `Ev.acquire`
    (slow branch) up to the kernel's bookkeeping of the suspension, and the locals kept across the
    `await` are the lock, the task and whether the task is a PriorityTask -/
theorem acquireEntry_slow (s : State) (hp : PlainHoldNothing s) (i k : Nat) (hc : s.cur = some i)
    (hslow : ¬ (!(s.locks k).locked && (s.locks k).waiters.isEmpty) = true)
    (hwo : (s.tasks i).waitingOn = none) :
    ∃ S, Gen.lockAcquireEntry s k = .ok (S, .suspended k (isPrio s i) k i i i) ∧
      queuedState S i k = s.doAcquire i k := by
  rw [doAcquire_slow s i k hslow]
  refine ⟨walk (appended s i k) (s.locks k).owner, ?_, rfl⟩
  unfold Gen.lockAcquireEntry
  have he : (if isPrio s i then Gen.taskEffectivePriority s s.fuel i else 0) = s.eff i := eff_eq_state s hp i
  have tailP : ∀ o, isPrio s o = true →
      Gen.taskPropagatePriority (appended s i k).fuel (appended s i k) o k =
        .ok (walk (appended s i k) (some o)) := by
    intro o hpo
    exact (prop_eq (appended s i k).fuel _ (plain_appended hp i k)).1 o k (by rw [isPrio_appended]; exact hpo)
  have tailN : ∀ o, isPrio s o = false → walk (appended s i k) (some o) = appended s i k := by
    intro o hpo
    exact propT_plain (appended s i k) (appended s i k).fuel o (by rw [isPrio_appended]; exact hpo)
  have finish : ∀ b : Bool,
      (match (match lockOwning (appended s i k) k with | none => none | some v => some v) with
       | none => (Except.ok (appended s i k, Gen.LockAcquireOut.suspended k b k i i i) :
           Except (LockErr × State) (State × Gen.LockAcquireOut))
       | some o =>
         if isPrio (appended s i k) o = true then
           match Gen.taskPropagatePriority (appended s i k).fuel (appended s i k) o k with
           | .error e => .error e
           | .ok s' => .ok (s', Gen.LockAcquireOut.suspended k b k i i i)
         else .ok (appended s i k, Gen.LockAcquireOut.suspended k b k i i i)) =
      .ok (walk (appended s i k) (s.locks k).owner, Gen.LockAcquireOut.suspended k b k i i i) := by
    intro b
    rw [lockOwning_appended]
    cases ho : (s.locks k).owner with
    | none => rfl
    | some o =>
      simp only [isPrio_appended]
      by_cases hpo : isPrio s o = true
      · simp only [hpo, if_true, tailP o hpo]
      · have hpo' : isPrio s o = false := by simpa using hpo
        simp only [hpo', Bool.false_eq_true, if_false, tailN o hpo']
  by_cases hpi : isPrio s i = true
  · have hset := setWaitingOn_ok s i k hwo
    have happ := appended_prio s i k hpi
    have he' : Gen.taskEffectivePriority s s.fuel i = s.eff i := by simpa [hpi] using he
    by_cases hl : (s.locks k).locked = true <;> by_cases hw : (s.locks k).waiters.isEmpty = true
    all_goals
      first
      | (exfalso; apply hslow; simp only [hw, Bool.and_true]; simpa using hl)
      | skip
    all_goals
      (try have hnw := newWaiters_noop s k (List.isEmpty_iff.mp hw))
      simp only [currentTask, hc, lockLocked, hl, waitersOf, hw, if_true,
        Bool.false_eq_true, if_false, hpi, he', hset, happ, *]
    all_goals exact finish true
  · have hpi' : isPrio s i = false := by simpa using hpi
    have happ := appended_plain s i k hpi' hwo
    have he' : (0 : Rat) = s.eff i := by simpa [hpi'] using he
    by_cases hl : (s.locks k).locked = true <;> by_cases hw : (s.locks k).waiters.isEmpty = true
    all_goals
      first
      | (exfalso; apply hslow; simp only [hw, Bool.and_true]; simpa using hl)
      | skip
    all_goals
      (try have hnw := newWaiters_noop s k (List.isEmpty_iff.mp hw))
      simp only [currentTask, hc, lockLocked, hl, waitersOf, hw, if_true,
        Bool.false_eq_true, if_false, hpi', he', happ, *]
    all_goals exact finish false

end Asynkit.GenEqLock
